import DaeVerif.C06.Proofs
import DaeVerif.C06.FamilyProofs
import DaeVerif.C06.FlightProofs
/-!
# C06 — property theorems

"Sniffing finds the name that is there and never alters or withholds payload."

Only statements a reader should audit live here (namespace `DaeVerif.C06.Props`); the definitions
they mention are in `Model.lean` (the mirror of the Go code, the very definitions the driver
`c06drv` executes) and `Spec.lean` (wire encoders written from the RFCs, the documented answers,
and the notions `CarriedIn`, `Within`, `covers`, `feedPayloads`, `tcpAnswer`, `isNameChar`).
Helper lemmas are in `Proofs.lean`.  Every theorem is followed by a non-vacuity `example`.
-/
namespace DaeVerif.C06.Props
open DaeVerif.C06

/-! ## TLS: the name that is there is found -/

/-- **Completeness (TLS).** For every ClientHello a TLS 1.2/1.3 client can emit — any extension
order, GREASE/unknown/padding extensions, any session id, several SNI entries or extensions —
wrapped in one record (whatever follows it in the buffer), `SniffTls` answers the first
`host_name` it carries (one trailing dot removed), "not found" when it carries none. -/
theorem tls_sni_found (ch : ClientHello) (hwf : ch.WF) (recMinor : Nat) (extra : Bytes) :
    sniffTls (record recMinor (handshake ch) ++ extra) = specResult ch := by
  rw [sniffTls_record_append]
  exact extractSni_encode _ ch hwf (reads_builtin _) rfl (sliceOk_builtin _)

/-- a hello with GREASE, an SNI list whose first entry is not a host_name, padding, and an empty
last extension: well-formed, and the documented answer is the carried name without its dot -/
def exampleHello : ClientHello :=
  ⟨3, List.replicate 32 7, [1, 2, 3], [0x13, 0x01], [0],
    some [.other 0x0a0a [], .sni [(5, [120]), (0, str "Example.org.")], .other 21 [0, 0, 0], .other 35 []]⟩

theorem exampleHello_wf : exampleHello.WF := by
  refine ⟨by decide, by decide, by decide, ?_⟩
  intro es hes e he t d hd
  cases hes
  simp only [List.mem_cons, List.not_mem_nil, or_false] at he
  rcases he with rfl | rfl | rfl | rfl <;> cases hd <;> decide

example : exampleHello.WF ∧ specResult exampleHello = .ok (str "Example.org") := ⟨exampleHello_wf, by decide⟩

/-- **Soundness (TLS).** Whatever the bytes, a name reported by `SniffTls` is literally a
`host_name` entry of the buffer (type byte 0, two-byte length, the name; one trailing dot removed):
the sniffer never invents or garbles a name. -/
theorem tls_sni_sound (buf d : Bytes) (h : sniffTls buf = .ok d) : CarriedIn buf d :=
  sniffTls_sound buf d h

example : ∃ buf d, sniffTls buf = .ok d :=
  ⟨record 1 (handshake exampleHello) ++ [], str "Example.org", by rw [tls_sni_found exampleHello exampleHello_wf]; decide⟩

/-- **No out-of-bounds access, no panic (TLS).** For every byte string the walk over record,
handshake and extension fields stays inside the data: `extractSniFromTls` on the builtin locator
either answers a name or one of the two sniffing errors — never `oob` (an index past the end;
in Go: a panic or a read of stale buffer bytes). -/
theorem tls_total (b : Bytes) :
    (∃ d, extractSni (.builtin b) = .ok d) ∨ extractSni (.builtin b) = .error .notApplicable ∨
      extractSni (.builtin b) = .error .notFound := by
  cases h : extractSni (.builtin b) with
  | ok d => exact Or.inl ⟨d, rfl⟩
  | error e => rcases extractSni_builtin_err b e h with rfl | rfl <;> simp

/-- the regression of fix 329a199: a server_name extension with one byte of data that ends the
extension block is answered "not applicable" without touching the byte after the data -/
example : findSniFrom (.builtin [0, 21, 0, 1, 0, 0, 0, 0, 1, 7]) 0 = .error .notApplicable := by
  rw [findSniFrom]
  simp [Loc.len, Loc.range, slice, be16]
  rw [findSniFrom]
  simp [Loc.len, Loc.range, slice, be16]

/-- `SniffTls` itself only ever fails with one of its three sniffing errors. -/
theorem tls_record_total (buf : Bytes) (e : Err) (h : sniffTls buf = .error e) :
    e = .notApplicable ∨ e = .needMore ∨ e = .notFound := sniffTls_err buf e h

/-! ## The stream sniffer: chunking, timeout, and what the relay gets -/

/-- **Chunk invariance.** A well-formed ClientHello record is recognised however it is cut into
reads, once the first read has brought its 5-byte record header: whatever the cut points, whatever
follows the record (`extra`) or the script (`tail`), `SniffTcp` gives the answer it gives for the
whole record — the carried name through `NormalizeDomain`. -/
theorem sniff_tcp_chunk_invariant (ch : ClientHello) (hwf : ch.WF) (recMinor : Nat)
    (c : Bytes) (cs : List Bytes) (extra : Bytes) (tail : List Ev)
    (hflat : (c :: cs).flatten = record recMinor (handshake ch) ++ extra) (h5 : 5 ≤ c.length) :
    (sniffTcp (((c :: cs).map Ev.data) ++ tail)).result = tcpAnswer ch := by
  unfold sniffTcp
  rw [sniffLoop_chunks recMinor (handshake ch) (c :: cs) [] extra tail false (by simpa using hflat)
    (by simp [record_length]; omega) (Or.inl ⟨rfl, c, cs, rfl, h5⟩)]
  exact tlsAnswer_handshake ch hwf

example : (sniffTcp (([(record 1 (handshake exampleHello)).take 7, (record 1 (handshake exampleHello)).drop 7].map Ev.data)
      ++ [.stall])).result = .ok (str "example.org") := by
  rw [sniff_tcp_chunk_invariant exampleHello exampleHello_wf 1 _ _ [] _ (by decide) (by decide)]
  decide

/-- `NormalizeDomain` leaves an ordinary host name alone: it only lower-cases it and removes one
trailing dot (so the reported name *is* the carried name). -/
theorem normalize_ordinary_name (n : Bytes) (h : ∀ c ∈ n, isNameChar c = true) :
    normalizeDomain n = trimDot (lower n) := normalizeDomain_name n h

example : (∀ c ∈ str "Example.ORG.", isNameChar c = true) ∧ normalizeDomain (str "Example.ORG.") = str "example.org" := by
  decide

/-- **Byte fidelity, every outcome.** Whatever the client does (any script of arriving chunks,
stalls past the sniffing deadline, EOF, reset) and whatever `SniffTcp` answered — name, not found,
not applicable, timed out, connection error — each of the four ways the relay consumes the
sniffed connection hands over exactly the bytes the client sent, in order, and ends the way the
client's stream ends. -/
theorem relay_identity (script : List Ev) (d : Drain) :
    relayBytes (sniffTcp script) d = (clientBytes script, clientEnd script) := by
  unfold sniffTcp
  rw [relay_sniffLoop]; simp

/-- the regression of fix 9872939: header + a little, the deadline passes, the rest arrives later;
the sniff times out and the relay still gets every byte through `Read` -/
example : (sniffTcp [.data [22, 3, 1, 0, 100, 1, 0, 0], .stall, .data [82, 69, 83, 84], .eof]).result = .error .timeout ∧
    relayBytes (sniffTcp [.data [22, 3, 1, 0, 100, 1, 0, 0], .stall, .data [82, 69, 83, 84], .eof]) .prefixRead
      = ([22, 3, 1, 0, 100, 1, 0, 0, 82, 69, 83, 84], none) := by decide

/-- **The sniffer never waits past its timeout.** With the clock in the model (one absolute deadline
`D` = creation time + sniffing timeout, armed for every read): whatever the client does — bytes
trickling in, any gaps, EOF after a partial hello (the loop then spins on EOF reads), reset —
`SniffTcp` has returned by time `D`. -/
theorem sniff_returns_by_deadline (D : Nat) (script : List TEv) : (sniffTcpT D script).time ≤ D := by
  have := (sniffLoopT_time D script [] false 0).2
  simpa [sniffTcpT] using this

/-- a client that trickles: header at 40 ms, the rest at 130 ms, timeout 100 ms: timed out at 100 -/
example : (sniffTcpT 100 [⟨40, .data [22, 3, 1, 0, 100]⟩, ⟨90, .data [1, 0, 0]⟩]).result = .error .timeout ∧
    (sniffTcpT 100 [⟨40, .data [22, 3, 1, 0, 100]⟩, ⟨90, .data [1, 0, 0]⟩]).time = 100 := by decide

/-- The clock changes nothing else: answer, buffer and latched error of the timed sniffer are those
of the untimed model on the script in which the deadline shows up as a `stall`, and that script
carries the same client bytes — so `relay_identity` and the soundness/completeness theorems below
apply to timed behaviour as they stand. -/
theorem sniff_timed_refines (D : Nat) (script : List TEv) :
    (sniffTcpT D script).result = (sniffTcp (untime D 0 script)).result ∧
    (sniffTcpT D script).buf = (sniffTcp (untime D 0 script)).buf ∧
    (sniffTcpT D script).dataError = (sniffTcp (untime D 0 script)).dataError ∧
    clientBytes (untime D 0 script) = clientBytes (script.map TEv.ev) ∧
    clientEnd (untime D 0 script) = clientEnd (script.map TEv.ev) := by
  obtain ⟨h1, _, h3, h4⟩ := sniffLoopT_refines D script [] false 0
  obtain ⟨h5, h6⟩ := clientBytes_untime D script 0
  exact ⟨h1, h3, h4, h5, h6⟩

/-- **Soundness of the stream answer.** Whatever the client sends and however it is cut, a name
`SniffTcp` reports is `NormalizeDomain` of a name the bytes read so far carry — a `host_name` entry
(TLS) or the value of a complete `Host` line (HTTP) — and those bytes are a prefix of what the
client sent. -/
theorem sniff_tcp_sound (script : List Ev) (n : Bytes) (h : (sniffTcp script).result = .ok n) :
    ReportedFrom (sniffTcp script).buf n ∧ ∃ t, clientBytes script = (sniffTcp script).buf ++ t := by
  refine ⟨sniffLoop_sound script [] false n h, ?_⟩
  have := sniffLoop_buf_prefix script [] false
  simpa [sniffTcp] using this

/-! ## HTTP/1 -/

/-- `_partial`: the property speaks of every HTTP/1 request head; `HttpHead.WF` restricts the method
to the sixteen tokens of `common.IsValidHttpMethod` (GET POST PUT PATCH DELETE COPY HEAD OPTIONS LINK
UNLINK PURGE LOCK UNLOCK PROPFIND CONNECT TRACE), as the code does: a head with any other method
(MKCOL, MOVE, PROPPATCH, REPORT, SEARCH, …) is answered "not applicable" even in one read — open
finding `c06-http-method-outside-list`, reproduced by a directed harness scenario.

**Completeness (HTTP).** For every request head with a known method, arriving in one read,
`SniffHttp` answers the value of the first `Host` header (any case of the name, white space
trimmed), "not found" when there is none or it is empty — headers in any order, any other
headers, any body. -/
theorem http_host_found_partial (h : HttpHead) (hwf : h.WF) : sniffHttp (encodeHead h) = hostSpec h.headers :=
  sniffHttp_encodeHead h hwf

/-- **Soundness (HTTP).** Whatever the bytes, a name reported by `SniffHttp` is the trimmed,
non-empty value of a complete `Host` header line of the buffer: the line starts the buffer or
follows a CRLF, is terminated by a CRLF, is not a folded continuation line, and its field name is
`Host`.  In particular a head whose last line is cut off by the end of the read never yields a
truncated name (fix6). -/
theorem http_host_sound (b d : Bytes) (h : sniffHttp b = .ok d) : HostLineIn b d := sniffHttp_sound b d h

/-- a head cut inside the Host value: not found, not "exam"; a folded line is not the Host header -/
example : sniffHttp (str "GET / HTTP/1.1\r\nCookie: x=y\r\nHost: exam") = .error .notFound ∧
    sniffHttp (str "GET / HTTP/1.1\r\nX-A: b\r\n Host: evil.example\r\nHost: good.example\r\n\r\n") = .ok (str "good.example") := by
  decide

def exampleHead : HttpHead :=
  ⟨str "GET", str "http://x/ HTTP/1.1", [(str "Accept", str " */*"), (str "hOsT ", str "  a.example:8080 "), (str "Host", str "b")],
    str "Host: c\r\n"⟩

example : exampleHead.WF ∧ hostSpec exampleHead.headers = .ok (str "a.example:8080") ∧
    (sniffTcp [.data (encodeHead exampleHead)]).result = .ok (str "a.example") := by
  refine ⟨⟨by decide, by decide, ?_⟩, by decide, by decide⟩
  intro kv hkv
  simp only [exampleHead, List.mem_cons, List.not_mem_nil, or_false] at hkv
  rcases hkv with rfl | rfl | rfl <;> decide

/-- An HTTP/1 request head that arrives in one read is recognised by `SniffTcp`: the answer is the
`Host` value through `NormalizeDomain`, whatever follows in the script. -/
theorem sniff_tcp_http_one_read_partial (h : HttpHead) (hwf : h.WF) (tail : List Ev) :
    (sniffTcp (.data (encodeHead h) :: tail)).result =
      match hostSpec h.headers with
      | .ok d => .ok (normalizeDomain d)
      | .error e => .error e := by
  obtain ⟨_, _, _, _, _, _, _, c, r, hcr, _, _, _⟩ := method_facts h.method hwf.1
  have hne : encodeHead h ≠ [] := by simp [encodeHead, hcr]
  have h22 : c ≠ 22 := by
    have hm := hwf.1
    rw [httpMethods_eq] at hm
    simp only [List.mem_cons, List.not_mem_nil, or_false] at hm
    rcases hm with hm | hm | hm | hm | hm | hm | hm | hm | hm | hm | hm | hm | hm | hm | hm | hm <;>
      (rw [hm] at hcr; cases hcr; decide)
  have htls : sniffTls (encodeHead h) = .error .notApplicable := by
    unfold sniffTls
    split
    · rfl
    · rw [if_pos (Or.inl (by simp [encodeHead, hcr, h22]))]
  have hg : sniffGroupTcp (encodeHead h) = match hostSpec h.headers with
      | .ok d => .ok (normalizeDomain d)
      | .error e => .error e := by
    unfold sniffGroupTcp
    rw [htls, sniffHttp_encodeHead h hwf]
    cases hostSpec h.headers <;> rfl
  unfold sniffTcp
  rw [sniffLoop, List.nil_append, if_neg hne, hg]
  cases hs : hostSpec h.headers with
  | ok d => rfl
  | error e => rw [hostSpec_err _ e hs]

/-! ## QUIC -/

/-- **Soundness (QUIC).** Whatever CRYPTO blocks have been collected so far — partial, with gaps,
in any order — as long as each is a slice of the client's CRYPTO stream `S`, a name the locator
walk reports is literally a `host_name` entry of `S`. -/
theorem quic_sni_sound (S : Bytes) (blocks : List Block) (hw : ∀ b ∈ blocks, Within S b) (d : Bytes)
    (h : extractSni (newLinear blocks) = .ok d) : CarriedIn S d :=
  extractSni_linear_sound S blocks hw d h

/-- **Reassembly never corrupts.** Packet payloads may carry any frames that parse; if every
CRYPTO frame is a slice of `S`, every block kept after any number of `ReassembleCryptos` steps
(sorting, merging overlaps and duplicates) is again a slice of `S`. -/
theorem reassembly_keeps_slices (S : Bytes) (flight : List (Bytes × List Block))
    (hparse : ∀ pf ∈ flight, parseFrames pf.1.length pf.1 = .ok pf.2)
    (hw : ∀ pf ∈ flight, ∀ b ∈ pf.2, Within S b) (cr : List Block)
    (h : feedPayloads [] (flight.map Prod.fst) = .ok cr) : ∀ b ∈ cr, Within S b :=
  feed_within S flight hparse hw [] cr (by simp) h

/-- **Completeness (QUIC).** Take any ClientHello a QUIC client can emit and cut its handshake
message into CRYPTO frames any way at all — any sizes, any order, duplicates and overlaps, PADDING
and PING frames in between, any varint widths, spread over any number of packets (hence
datagrams): if together the frames cover the message, then after the last packet the reassembled
stream is the message itself, the locator walk answers the carried name, and the stream counts as
complete (so `SniffUdp` stops asking for more datagrams, whatever the answer). -/
theorem quic_flight_found (ch : ClientHello) (hwf : ch.WF) (flight : List (List Item × Nat))
    (hfit : ∀ p ∈ flight, ∀ it ∈ p.1, it.frame.Fits)
    (hw : ∀ p ∈ flight, ∀ b ∈ cryptoBlocks p.1, Within (handshake ch) b)
    (hcov : ∀ q, q < (handshake ch).length → ∃ p ∈ flight, ∃ b ∈ cryptoBlocks p.1, covers b q) :
    ∃ cr, feedPayloads [] (flight.map fun p => encodeItems p.1 p.2) = .ok cr ∧
      extractSni (newLinear cr) = specResult ch ∧ helloComplete cr = true := by
  have hpos : 0 < (handshake ch).length := by simp [handshake]
  let fl : List (Bytes × List Block) := flight.map fun p => (encodeItems p.1 p.2, cryptoBlocks p.1)
  have hmap : fl.map Prod.fst = flight.map fun p => encodeItems p.1 p.2 := by
    simp [fl, List.map_map, Function.comp_def]
  have hmem : ∀ pf ∈ fl, ∃ p ∈ flight, pf = (encodeItems p.1 p.2, cryptoBlocks p.1) := by
    intro pf hpf
    simp only [fl, List.mem_map] at hpf
    obtain ⟨p, hp, rfl⟩ := hpf
    exact ⟨p, hp, rfl⟩
  refine ⟨[⟨0, handshake ch⟩], ?_, extractSni_complete ch hwf, helloComplete_handshake ch⟩
  rw [← hmap]
  apply feed_complete_aux (handshake ch) hpos fl
  · intro pf hpf
    obtain ⟨p, hp, rfl⟩ := hmem pf hpf
    exact parseFrames_encode p.1 p.2 (hfit p hp) _ (Nat.le_refl _)
  · intro pf hpf
    obtain ⟨p, hp, rfl⟩ := hmem pf hpf
    exact hw p hp
  · simp
  · simp [Separated]
  · intro q hq
    obtain ⟨p, hp, b, hb, hc⟩ := hcov q hq
    exact Or.inr ⟨(encodeItems p.1 p.2, cryptoBlocks p.1), by simp only [fl, List.mem_map]; exact ⟨p, hp, rfl⟩, b, hb, hc⟩

/-- a three-frame flight over two packets: tail first, then (after padding) an overlapping middle
piece with 2- and 4-byte varints and the head; the name is found after the second packet only -/
def exampleFlight : List (List Item × Nat) :=
  let S := handshake exampleHello
  [ ([⟨3, .crypto 60 (S.drop 60) 1 0⟩, ⟨0, .ping⟩], 5),
    ([⟨1, .crypto 20 (slice S 20 70) 1 2⟩, ⟨2, .crypto 0 (S.take 25) 0 1⟩], 0) ]

example : feedPayloads [] ((exampleFlight.take 1).map fun p => encodeItems p.1 p.2) = .ok [⟨60, (handshake exampleHello).drop 60⟩] ∧
    (∃ e, extractSni (newLinear [⟨60, (handshake exampleHello).drop 60⟩]) = .error e) ∧
    feedPayloads [] (exampleFlight.map fun p => encodeItems p.1 p.2) = .ok [⟨0, handshake exampleHello⟩] ∧
    extractSni (newLinear [⟨0, handshake exampleHello⟩]) = .ok (str "Example.org") := by
  refine ⟨by decide, ⟨.missingCrypto, by decide⟩, by decide, ?_⟩
  rw [extractSni_complete exampleHello exampleHello_wf]
  decide

/-- **The long-header walk finds the packet.** For every Initial long header a client can emit (any
connection-id and token lengths, any varint widths, v1/v2 type bits) followed by its protected part
and anything after it in the datagram, `sniffQuicBlock`'s header walk yields exactly the
packet-number offset, the end of the packet and the destination connection id. -/
theorem quic_header_walk_roundtrip (h : InitialHdr) (len : Nat) (body rest : Bytes) (hwf : h.WF len)
    (hb : body.length = len) :
    quicHeader (encodeHdr h len ++ (body ++ rest))
      = some ((encodeHdr h len).length, (encodeHdr h len).length + len, h.dcid) :=
  quicHeader_encode h len body rest hwf hb

example : (⟨0xc3, 0, 0, 0, 1, [1, 2, 3, 4, 5, 6, 7, 8], [], [9, 9], 0, 1⟩ : InitialHdr).WF 1180 := by
  refine ⟨by decide, by decide, ⟨by decide, by decide⟩, ⟨by decide, by decide⟩, by decide⟩

/-- **Datagram → header walk → unprotect (oracle) → CRYPTO reassembly → name**, for an Initial
datagram that carries the whole ClientHello in one packet (any framing inside the packet): the
packet sniffer's first `SniffUdp` answers the carried name through `NormalizeDomain` ("not found"
when there is none) and does not ask for more datagrams.
`_partial`: flights spread over several packets/datagrams are covered on the plaintext level by
`quic_flight_found` and by the tie, not by a packet-level theorem (missing: "an answer obtained
before the last datagram equals the final one", and the `nextRead`/coalescing bookkeeping). -/
theorem quic_datagram_found_partial (ch : ClientHello) (hwf : ch.WF) (items : List Item) (tp : Nat)
    (hfit : ∀ it ∈ items, it.frame.Fits)
    (hw : ∀ b ∈ cryptoBlocks items, Within (handshake ch) b)
    (hcov : ∀ q, q < (handshake ch).length → ∃ b ∈ cryptoBlocks items, covers b q)
    (h : InitialHdr) (len : Nat) (body : Bytes) (hh : h.WF len) (hb : body.length = len)
    (oracle : List Sealed)
    (horc : oracleLookup oracle 0 (encodeHdr h len).length ((encodeHdr h len).length + len) h.dcid
      = some (encodeItems items tp)) :
    ((({} : Pkt).append (encodeHdr h len ++ body)).sniffUdp oracle).1 = udpAnswer ch ∧
    ((({} : Pkt).append (encodeHdr h len ++ body)).sniffUdp oracle).2.needMore = false :=
  sniffUdp_single_packet ch hwf items tp hfit hw hcov h len body hh hb oracle horc

/-- **A final answer is never withheld.** After `SniffUdp`, the flow is asked to wait for more
datagrams only while the ClientHello is still incomplete: once the reassembled CRYPTO stream holds
the whole handshake message, "not found" (or any other failure) is final and the buffered
datagrams are released (fix 0baaa0d). -/
theorem udp_not_withheld_when_complete (oracle : List Sealed) (s : Pkt) (d : Bytes)
    (h : helloComplete (((s.append d).sniffUdp oracle).2.cryptos) = true) :
    ((s.append d).sniffUdp oracle).2.needMore = false := by
  revert h
  unfold Pkt.sniffUdp
  split
  · intro _; rfl
  split
  · intro _; rfl
  split
  · intro _; rfl
  simp only []
  split
  · intro _; rfl
  · split
    · intro h; simp only [] at h ⊢; rw [h]; rfl
    · intro _; rfl

/-- a complete ClientHello without any server_name: the stream is complete, the answer final -/
example : helloComplete [⟨0, handshake ⟨3, List.replicate 32 0, [], [0x13, 1], [0], some [.other 43 [2, 3, 4]]⟩⟩] = true ∧
    specResult ⟨3, List.replicate 32 0, [], [0x13, 1], [0], some [.other 43 [2, 3, 4]]⟩ = .error .notFound := by
  decide

/-! ## One UDP flow through `handlePkt`: nothing lost, nothing reordered -/

/-- **Datagram fidelity and order, every outcome.** For every sequence of datagrams of one flow —
QUIC Initials whose ClientHello is complete, incomplete, absent or undecryptable, other packets in
between — and whatever the sniffer answers on the way (name, not found, not applicable, need
more), the datagrams written to the outbound, in the order written, followed by those the sniffer
session still holds, are exactly the datagrams received, in ingress order.  Nothing is altered,
duplicated, dropped or overtaken; what is held back is always a suffix of what has arrived. -/
theorem udp_flow_in_order (oracle : List Sealed) (ds : List Bytes) :
    (Flow.run oracle {} ds).1.flatten ++ (Flow.run oracle {} ds).2.withheld = ds := by
  have := flow_in_order_aux oracle ds {} ⟨rfl, fun _ => rfl⟩
  simpa [Flow.withheld] using this

/-- the regression of fix a210030: an Initial that is held back, then a datagram that is not a QUIC
Initial: the held datagram is released ahead of it -/
def heldFlow : Flow := { pkt := { buf := [0xc0, 1, 2], data := [[], [0xc0, 1, 2]], needMore := true } }

example : heldFlow.Inv ∧ (heldFlow.step [] [0x40, 9, 9, 9, 9, 9, 9]).2 = [[0xc0, 1, 2], [0x40, 9, 9, 9, 9, 9, 9]] ∧
    (heldFlow.step [] [0x40, 9, 9, 9, 9, 9, 9]).1.withheld = [] := by
  refine ⟨⟨rfl, fun h => by cases h⟩, by decide, by decide⟩

/-! ## QUIC flights over several packets and datagrams: the pieces `quic_datagram_found_partial` lacks -/

/-- **An early answer is the final answer.** While CRYPTO data is still missing — any blocks, with
gaps, as long as each is a slice of the client's stream — a name the walk finds is the name the walk
finds on the complete stream: for a ClientHello, the documented answer.  So a flow released before
the last datagram arrived is released with the right name. -/
theorem quic_early_answer_is_final (ch : ClientHello) (hwf : ch.WF) (blocks : List Block)
    (hw : ∀ b ∈ blocks, Within (handshake ch) b) (d : Bytes)
    (h : extractSni (newLinear blocks) = .ok d) : specResult ch = .ok d := by
  rw [← extractSni_complete ch hwf]
  exact extractSni_partial_stable (handshake ch) blocks hw d h

/-- the hypothesis is satisfiable (here by the complete stream; with the three padding bytes 83..85 of the
example hello still missing the driver answers the same name: `qext` ops of the tie) -/
example : ∃ blocks d, blocks ≠ [] ∧ extractSni (newLinear blocks) = .ok d :=
  ⟨[⟨0, handshake exampleHello⟩], str "Example.org", by simp,
    by rw [extractSni_complete exampleHello exampleHello_wf]; decide⟩

/-- **"Complete" means complete.** `quicClientHelloComplete` never calls a partial stream complete:
when it answers true for blocks that came out of the reassembly of slices of the client's stream, the
blocks are exactly the whole handshake message — so "not found" with `needMore = false` is only ever
said of the complete ClientHello, and a flow is never released as name-less too early. -/
theorem quic_complete_means_complete (ch : ClientHello) (cr : List Block)
    (hw : ∀ b ∈ cr, Within (handshake ch) b) (hsep : Separated cr) (hc : helloComplete cr = true) :
    cr = [⟨0, handshake ch⟩] := helloComplete_full ch cr hw hsep hc

example : helloComplete [⟨0, (handshake exampleHello).take 70⟩] = false ∧ helloComplete [⟨0, handshake exampleHello⟩] = true := by
  decide

/-- **Coalesced packets.** For a datagram made of any number of well-formed Initial packets that AEAD
answers with their plaintext at the place where they lie in the session buffer, the block loop of
`SniffQuic` walks all of them — header walk, oracle, `ReassembleCryptos` each — and ends with the
CRYPTO blocks of `feedPayloads` (to which `quic_flight_found` applies), without an error. -/
theorem quic_datagram_packets_loop (oracle : List Sealed) (total : Nat) (ps : List InitialPkt) (hne : ps ≠ [])
    (hwf : ∀ p ∈ ps, p.WF) (cr : List Block) (isQ : Bool)
    (htot : (dgWire ps).length ≤ total) (horc : OracleFor oracle (total - (dgWire ps).length) ps) :
    ∃ cr', feedPayloads cr (ps.map InitialPkt.plain) = .ok cr' ∧
      quicLoop oracle total ((dgWire ps).length + 1) cr (dgWire ps) isQ = (cr', none) :=
  quicLoop_packets oracle total ps hne hwf cr isQ _ (by have := dgWire_length_ge ps; omega) htot horc

example : (⟨⟨0xc3, 0, 0, 0, 1, [1, 2, 3, 4, 5, 6, 7, 8], [], [9, 9], 0, 1⟩, List.replicate 24 0, [⟨2, .crypto 0 [1, 0, 0, 2] 0 0⟩], 3⟩ : InitialPkt).WF := by
  refine ⟨⟨by decide, by decide, ⟨by decide, by decide⟩, ⟨by decide, by decide⟩, by decide⟩, ?_⟩
  intro it hit
  simp only [List.mem_singleton] at hit
  subst hit
  exact ⟨⟨by decide, by decide⟩, ⟨by decide, by decide⟩⟩

/-! ## A flow family through `handlePkt`: several QUIC connections on one 4-tuple, failing dials -/

/-- **Datagram fidelity and order per connection, every interleaving, with faults.** Any number of
QUIC connections (sessions keyed by DCID; an Initial whose DCID has length 0 or more than 20 shares the
session keyed by the bare address pair) opening on one 4-tuple, their datagrams interleaved in any way
with each other and with datagrams that are not QUIC Initials, retransmissions, undecryptable packets,
whatever the sniffer answers, whichever dials fail, with the decrypt-failure and no-SNI counters, the
bypass window, the negative DCID cache and the reset of a domain-less endpoint by another connection's
Initial all in play: for every connection key `k`, the datagrams of `k` that `handlePkt` handed on
(written to the endpoint, or given to a dial that failed), in that order, followed by the ones its
session still holds, are exactly the datagrams of `k` that came in, in ingress order.  Nothing is
duplicated, altered, overtaken within its connection, or silently lost.  (Full strength since fix
629a74d; before it the statement needed "every Initial has a cacheable DCID".) -/
theorem udp_family_per_connection (xs : List Dg) (k : Bytes) :
    onKey k (released (Fam.run {} xs).1 ++ (Fam.run {} xs).2.held) = onKey k (xs.map Dg.data) := by
  obtain ⟨hI, h⟩ := run_spec xs {} inv_init
  rw [onKey_append, Fam.held, onKey_held _ hI.1.keyed, h k]
  rfl

/-- **Nothing is held behind an endpoint.** In every reachable state, once the flow has its
`UdpEndpoint` (from then on datagrams are written directly and no sniff runs), no session holds a
datagram — which is why the paths that tear sessions down (`RemoveFlowFamilySessions`) lose nothing. -/
theorem udp_family_nothing_held_behind_endpoint (xs : List Dg)
    (h : (Fam.run {} xs).2.ue.isSome = true) : (Fam.run {} xs).2.held = [] :=
  held_of_allEmpty _ ((run_spec xs {} inv_init).1.2 h)

/-- **A release is total.** Whenever a `handlePkt` call hands anything on — the current datagram
alone, or with what a session had buffered — it hands on everything every session of the family
holds: after such a call nothing is held.  So a datagram stays withheld only while every later
datagram of the family was itself answered "need more". -/
theorem udp_family_release_is_total (xs : List Dg) (x : Dg)
    (h : ((Fam.run {} xs).2.step x).2.written ++ ((Fam.run {} xs).2.step x).2.dropped ≠ []) :
    ((Fam.run {} xs).2.step x).1.held = [] :=
  held_of_allEmpty _ ((run_last_step xs x).2.2 h)

/-- two connections (DCIDs `09` and `08`), each with an Initial the sniffer asks more for (AEAD answers a
two-byte CRYPTO stream), then a datagram that is not a QUIC Initial: both are held, then everything is
written — each connection's datagram once (the order ACROSS connections is that of the session table); with the third step's dial failing, everything is lost together -/
def exA : Dg := { data := [0xc0, 0, 0, 0, 1, 1, 9, 0, 0, 7, 1, 2, 3, 4, 5, 6, 7], seals := [⟨0, 10, 17, [9], [6, 0, 2, 1, 0]⟩] }
def exB : Dg := { data := [0xc0, 0, 0, 0, 1, 1, 8, 0, 0, 7, 7, 6, 5, 4, 3, 2, 1], seals := [⟨0, 10, 17, [8], [6, 0, 2, 1, 0]⟩] }
def exJ : Dg := { data := [0x40, 1, 2, 3, 4, 5, 6] }

example :
    (Fam.run {} [exA, exB]).2.held = [exB.data, exA.data] ∧ released (Fam.run {} [exA, exB]).1 = [] ∧
    released (Fam.run {} [exA, exB, exJ]).1 = [exB.data, exA.data, exJ.data] ∧ (Fam.run {} [exA, exB, exJ]).2.held = [] ∧
    (Fam.run {} [exA, exB, exJ]).2.ue.isSome = true ∧
    ((Fam.run {} [exA, exB, { exJ with dialFails := true }]).1.map StepOut.dropped) = [[], [], [exB.data, exA.data, exJ.data]] := by
  refine ⟨by decide, by decide, by decide, by decide, by decide, by decide⟩

/-- the regression of fix 629a74d: a withheld Initial with a zero-length DCID (session keyed by the bare
address pair) is released by the datagram that follows it -/
def exZ : Dg := { data := [0xc0, 0, 0, 0, 1, 0, 0, 0, 8, 1, 2, 3, 4, 5, 6, 7, 8], seals := [⟨0, 9, 17, [], [6, 0, 2, 1, 0]⟩] }

example : dcidKey exZ.data = [] ∧ (Fam.run {} [exZ]).2.held = [exZ.data] ∧
    released (Fam.run {} [exZ, exJ]).1 = [exZ.data, exJ.data] ∧ (Fam.run {} [exZ, exJ]).2.held = [] := by
  decide

end DaeVerif.C06.Props
