import DaeVerif.C11.TreeProofs
/-!
# C11 — the BFS layout: navigating the flat list of `NodeOut`s by child-index arithmetic
is the same as walking the tree of nodes.

`child k of node n  =  1 + (number of labels of nodes 0..n-1) + k`  — the LOUDS numbering.
-/
namespace DaeVerif.C11
open List

def degs (outs : List NodeOut) : Nat := (outs.map (·.labels.length)).sum

/-- navigation on the flat BFS list -/
def walkFlat (outs : List NodeOut) : Str → Nat → Bool
  | [], n => match outs[n]? with
    | some o => o.leaf
    | none => false
  | c :: w, n => match outs[n]? with
    | some o => o.leaf || (if c ∈ o.labels then walkFlat outs w (1 + degs (outs.take n) + o.labels.idxOf c) else false)
    | none => false

def nextLevel (lvl : List Node) : List Node := lvl.flatMap fun n => n.children.map (·.2)

theorem levels_succ (fuel : Nat) (lvl : List Node) (h : lvl ≠ []) :
    levels (fuel + 1) lvl = lvl.map Node.out ++ levels fuel (nextLevel lvl) := by
  cases lvl with
  | nil => exact absurd rfl h
  | cons n l => simp [levels, nextLevel]

theorem degs_append (a b : List NodeOut) : degs (a ++ b) = degs a + degs b := by
  simp [degs, List.sum_append]

theorem out_labels_length (n : Node) : n.out.labels.length = n.children.length := by
  simp [Node.out]

theorem degs_map_out (lvl : List Node) : degs (lvl.map Node.out) = (nextLevel lvl).length := by
  induction lvl with
  | nil => rfl
  | cons n l ih =>
    simp only [List.map_cons, nextLevel, List.flatMap_cons, List.length_append, List.length_map] at ih ⊢
    simp only [degs, List.map_cons, List.sum_cons, out_labels_length] at ih ⊢
    rw [ih]

theorem groups_sound : ∀ (l : Node) (c : Nat) (g : Node) (t : Str), (c, g) ∈ groups l → t ∈ g → (c :: t) ∈ l
  | [], _, _, _, h, _ => by simp [groups] at h
  | [] :: rest, c, g, t, h, ht => by
    simp only [groups] at h
    exact List.mem_cons_of_mem _ (groups_sound rest c g t h ht)
  | (c0 :: t0) :: rest, c, g, t, h, ht => by
    have ih := groups_sound rest
    cases hg : groups rest with
    | nil =>
      simp [groups, hg] at h
      obtain ⟨rfl, rfl⟩ := h
      simp at ht; subst ht; simp
    | cons x gs =>
      obtain ⟨c', g'⟩ := x
      by_cases e : c' = c0
      · subst e
        simp [groups, hg] at h
        rcases h with ⟨rfl, rfl⟩ | h
        · rcases List.mem_cons.mp ht with rfl | ht
          · simp
          · exact List.mem_cons_of_mem _ (ih c g' t (by rw [hg]; simp) ht)
        · exact List.mem_cons_of_mem _ (ih c g t (by rw [hg]; simp [h]) ht)
      · simp [groups, hg, e] at h
        rcases h with ⟨rfl, rfl⟩ | h
        · simp at ht; subst ht; simp
        · exact List.mem_cons_of_mem _ (ih c g t (by rw [hg]; simpa using h) ht)

theorem children_sound (n : Node) (c : Nat) (g : Node) (t : Str) (h : (c, g) ∈ n.children) (ht : t ∈ g) :
    (c :: t) ∈ n := by
  have := groups_sound n.dropLeaf c g t h ht
  cases n with
  | nil => simpa [Node.dropLeaf] using this
  | cons a l =>
    cases a with
    | nil => exact List.mem_cons_of_mem _ (by simpa [Node.dropLeaf] using this)
    | cons _ _ => simpa [Node.dropLeaf] using this

/-- `find?` by label = the entry at the label's first index -/
theorem find_eq_idx (l : List (Nat × Node)) (c : Nat) :
    l.find? (·.1 == c) = if c ∈ l.map (·.1) then l[(l.map (·.1)).idxOf c]? else none := by
  induction l with
  | nil => simp
  | cons x l ih =>
    by_cases e : x.1 = c
    · simp [e, List.idxOf_cons]
    · have e' : (x.1 == c) = false := by simp [e]
      rw [List.find?_cons_of_neg (by simp [e']), ih]
      have e2 : ¬ c = x.1 := fun h => e h.symm
      by_cases hm : c ∈ l.map (·.1)
      · have : c ∈ (x :: l).map (·.1) := by simp only [List.map_cons, List.mem_cons]; exact Or.inr hm
        rw [if_pos hm, if_pos this]
        simp [List.idxOf_cons, e']
      · have : c ∉ (x :: l).map (·.1) := by
          simp only [List.map_cons, List.mem_cons, not_or]; exact ⟨e2, hm⟩
        rw [if_neg hm, if_neg this]

/-- position of the `k`-th element of the `i`-th block of a `flatMap` -/
theorem getElem?_flatMap_block {α β : Type} (f : α → List β) :
    ∀ (l : List α) (i k : Nat) (a : α), l[i]? = some a → k < (f a).length →
      (l.flatMap f)[(((l.take i).map fun x => (f x).length).sum) + k]? = (f a)[k]?
  | [], i, k, a, h, _ => by simp at h
  | x :: l, 0, k, a, h, hk => by
    simp at h; subst h
    simp [List.getElem?_append_left hk]
  | x :: l, i + 1, k, a, h, hk => by
    simp only [List.getElem?_cons_succ] at h
    have ih := getElem?_flatMap_block f l i k a h hk
    simp only [List.flatMap_cons, List.take_succ_cons, List.map_cons, List.sum_cons]
    rw [List.getElem?_append_right (by omega)]
    have : (f x).length + ((l.take i).map fun x => (f x).length).sum + k - (f x).length =
        ((l.take i).map fun x => (f x).length).sum + k := by omega
    rw [this, ih]

theorem walkFlat_eq_tree : ∀ (w : Str) (pre : List NodeOut) (lvl : List Node) (fuel i : Nat) (n : Node),
    lvl[i]? = some n →
    pre.length + lvl.length = 1 + degs pre →
    (∀ m ∈ lvl, ∀ k ∈ m, k.length < fuel) →
    walkFlat (pre ++ levels fuel lvl) w (pre.length + i) = walkNode n w := by
  intro w
  induction w with
  | nil =>
    intro pre lvl fuel i n hn _ hfuel
    have hi : i < lvl.length := by
      rcases Nat.lt_or_ge i lvl.length with h | h
      · exact h
      · rw [List.getElem?_eq_none h] at hn; simp at hn
    have hne : lvl ≠ [] := by intro h; rw [h] at hi; simp at hi
    cases fuel with
    | zero =>
      -- impossible: fuel bounds key lengths from above, but there is a node (possibly empty)
      -- with fuel = 0 nothing is emitted: both sides are `false` only if n is not a leaf;
      -- a leaf has the key [] whose length 0 < 0 is false
      simp only [levels, List.append_nil, walkFlat, walkNode]
      have : pre[pre.length + i]? = none := List.getElem?_eq_none (by omega)
      rw [this]
      cases hl : n.isLeaf with
      | false => rfl
      | true =>
        have hmem : n ∈ lvl := List.mem_of_getElem? hn
        cases n with
        | nil => simp [Node.isLeaf] at hl
        | cons a l =>
          cases a with
          | nil => exact absurd (hfuel _ hmem [] (by simp)) (by simp)
          | cons _ _ => simp [Node.isLeaf] at hl
    | succ fuel =>
      rw [levels_succ fuel lvl hne]
      simp only [walkFlat, walkNode]
      rw [List.getElem?_append_right (by omega)]
      simp only [Nat.add_sub_cancel_left]
      rw [List.getElem?_append_left (by simpa using hi), List.getElem?_map, hn]
      rfl
  | cons c w ih =>
    intro pre lvl fuel i n hn hinv hfuel
    have hi : i < lvl.length := by
      rcases Nat.lt_or_ge i lvl.length with h | h
      · exact h
      · rw [List.getElem?_eq_none h] at hn; simp at hn
    have hne : lvl ≠ [] := by intro h; rw [h] at hi; simp at hi
    have hmem : n ∈ lvl := List.mem_of_getElem? hn
    cases fuel with
    | zero =>
      simp only [levels, List.append_nil, walkFlat, walkNode]
      have : pre[pre.length + i]? = none := List.getElem?_eq_none (by omega)
      rw [this]
      -- n has no keys at all (every key would need length < 0)
      have hnil : n = [] := by
        cases n with
        | nil => rfl
        | cons a l => exact absurd (hfuel _ hmem a (by simp)) (by simp)
      subst hnil
      simp [Node.isLeaf, Node.children, Node.dropLeaf, groups]
    | succ fuel =>
      rw [levels_succ fuel lvl hne]
      have houts : pre ++ (lvl.map Node.out ++ levels fuel (nextLevel lvl)) =
          (pre ++ lvl.map Node.out) ++ levels fuel (nextLevel lvl) := by simp
      have hget : (pre ++ (lvl.map Node.out ++ levels fuel (nextLevel lvl)))[pre.length + i]? = some n.out := by
        rw [List.getElem?_append_right (by omega)]
        simp only [Nat.add_sub_cancel_left]
        rw [List.getElem?_append_left (by simpa using hi), List.getElem?_map, hn]
        rfl
      simp only [walkFlat, walkNode, hget]
      congr 1
      -- the label test
      have hlab : n.out.labels = n.children.map (·.1) := rfl
      rw [find_eq_idx n.children c, hlab]
      by_cases hc : c ∈ n.children.map (·.1)
      · rw [if_pos hc, if_pos hc]
        have hk : (n.children.map (·.1)).idxOf c < n.children.length := by
          have := List.idxOf_lt_length_iff.mpr hc; simpa using this
        obtain ⟨x, hx⟩ : ∃ x, n.children[(n.children.map (·.1)).idxOf c]? = some x :=
          ⟨_, List.getElem?_eq_getElem hk⟩
        rw [hx]
        simp only
        -- the index arithmetic
        have htake : (pre ++ (lvl.map Node.out ++ levels fuel (nextLevel lvl))).take (pre.length + i) =
            pre ++ (lvl.take i).map Node.out := by
          rw [List.take_append, List.take_of_length_le (by omega)]
          simp only [Nat.add_sub_cancel_left]
          rw [List.take_append]
          have : i - (lvl.map Node.out).length = 0 := by simp; omega
          rw [this]
          simp [List.map_take]
        rw [htake, degs_append]
        have hidx : 1 + (degs pre + degs ((lvl.take i).map Node.out)) + (n.children.map (·.1)).idxOf c =
            (pre ++ lvl.map Node.out).length +
              ((((lvl.take i).map fun m => (m.children.map (·.2)).length).sum) + (n.children.map (·.1)).idxOf c) := by
          have : degs ((lvl.take i).map Node.out) = ((lvl.take i).map fun m => (m.children.map (·.2)).length).sum := by
            simp [degs, List.map_map, Function.comp_def, out_labels_length]
          rw [this]
          simp only [List.length_append, List.length_map]
          omega
        rw [hidx, houts]
        apply ih (pre ++ lvl.map Node.out) (nextLevel lvl) fuel _ x.2
        · -- the child sits at that index of the next level
          have := getElem?_flatMap_block (fun m : Node => m.children.map (·.2)) lvl i
            ((n.children.map (·.1)).idxOf c) n hn (by simpa using hk)
          rw [nextLevel, this, List.getElem?_map, hx]
          rfl
        · rw [List.length_append, List.length_map, degs_append, degs_map_out]
          omega
        · intro m hm k hk'
          simp only [nextLevel, List.mem_flatMap, List.mem_map] at hm
          obtain ⟨m0, hm0, y, hy, rfl⟩ := hm
          have := children_sound m0 y.1 y.2 k hy hk'
          have := hfuel m0 hm0 _ this
          simp at this
          omega
      · rw [if_neg hc, if_neg hc]

end DaeVerif.C11
