/-!
# C11 — `pkg/anybuffer.Buffer[uint16]` (the storage under `CompactBitList`), with its capacity

The bit-list model (`Model.lean`, `growBuf`) treats the buffer as "a growable zero-initialised array".
This file models what the Go code really does — a slice `buf` of a backing array with spare capacity,
`tryGrowByReslice` (re-slice WITHOUT clearing), `grow` (allocate `2*cap + n`, copy) — and proves that for
every history of `Extend` and in-range writes starting from `NewBuffer(size)` / `NewBufferFrom(a)` the
visible slice is the zero-extended array (the spare capacity is always zero: `TailZero`).  `Truncate` /
`Reset` break that invariant (a later `Extend` exposes the old contents); `CompactBitList` never calls
them, and the model of them is here so that the tie can drive them too.

Core-only (the driver runs `ABuf.*` for the `ab` op lines).
-/
namespace DaeVerif.C11

structure ABuf where
  data : Array Nat      -- the backing array, `data.size = cap(b.buf)`
  len : Nat             -- `len(b.buf)`
deriving Repr

/-- `NewBuffer(size)`: `make([]T, 0, size)`, `defaultBufferSize = 64` for `size == 0` -/
def ABuf.new (size : Nat) : ABuf := ⟨Array.replicate (if size = 0 then 64 else size) 0, 0⟩

/-- `NewBufferFrom(a)` for a slice with `len(a) == cap(a)` (what `Tighten` passes) -/
def ABuf.ofArray (a : Array Nat) : ABuf := ⟨a, a.size⟩

def ABuf.cap (b : ABuf) : Nat := b.data.size

/-- `Slice()` -/
def ABuf.slice (b : ABuf) : List Nat := b.data.toList.take b.len

/-- `Extend(n)` = `tryGrowByReslice(n)`, else `grow(n)`.  In `grow` the "slide down" case
`n <= c/2-m` cannot hold once the re-slice failed (`n > c-m`), the `nil` case needs a zero-value Buffer;
what remains is `buf := makeSlice(2*c + n); copy(buf, b.buf); b.buf = buf[:m+n]`. -/
def ABuf.extend (b : ABuf) (n : Nat) : ABuf :=
  if n ≤ b.data.size - b.len then { b with len := b.len + n }
  else ⟨(b.data.toList.take b.len ++ List.replicate (2 * b.data.size + n - b.len) 0).toArray, b.len + n⟩

/-- `b.Slice()[i] = v` (`none` = index out of range) -/
def ABuf.write (b : ABuf) (i v : Nat) : Option ABuf :=
  if i < b.len then some { b with data := b.data.setIfInBounds i v } else none

/-- `Truncate(n)` (`none` = panic); `Truncate(0)` = `Reset()` -/
def ABuf.truncate (b : ABuf) (n : Nat) : Option ABuf :=
  if n > b.len then none else some { b with len := n }

/-- the spare capacity holds zeros -/
def ABuf.TailZero (b : ABuf) : Prop :=
  b.len ≤ b.data.size ∧ ∀ k, b.len ≤ k → k < b.data.size → b.data.toList[k]? = some 0

theorem ABuf.new_tailZero (size : Nat) : (ABuf.new size).TailZero := by
  refine ⟨Nat.zero_le _, ?_⟩
  intro k _ hk
  simp only [ABuf.new, Array.size_replicate] at hk
  simp [ABuf.new, hk]

theorem ABuf.ofArray_tailZero (a : Array Nat) : (ABuf.ofArray a).TailZero := by
  refine ⟨Nat.le_refl _, ?_⟩
  intro k h1 h2
  simp only [ABuf.ofArray] at h1 h2
  omega

theorem take_extend_zeros (l : List Nat) (len n : Nat) (hle : len ≤ l.length) (hfit : n ≤ l.length - len)
    (hz : ∀ k, len ≤ k → k < l.length → l[k]? = some 0) :
    l.take (len + n) = l.take len ++ List.replicate n 0 := by
  apply List.ext_getElem?
  intro i
  have hmin : min len l.length = len := Nat.min_eq_left hle
  rw [List.getElem?_take, List.getElem?_append, List.getElem?_take, List.length_take, hmin,
    List.getElem?_replicate]
  by_cases hi : i < len
  · have : i < len + n := by omega
    simp [hi, this]
  · by_cases hi2 : i < len + n
    · have h3 : i - len < n := by omega
      simp [hi, hi2, h3, hz i (by omega) (by omega)]
    · have h3 : ¬ i - len < n := by omega
      simp [hi, hi2, h3]

theorem take_grown (pre : List Nat) (len n extra : Nat) (hp : pre.length = len) (hx : n ≤ extra) :
    (pre ++ List.replicate extra 0).take (len + n) = pre ++ List.replicate n 0 := by
  apply List.ext_getElem?
  intro i
  rw [List.getElem?_take, List.getElem?_append, List.getElem?_append, hp,
    List.getElem?_replicate, List.getElem?_replicate]
  by_cases hi : i < len
  · have : i < len + n := by omega
    simp [hi, this]
  · by_cases hi2 : i < len + n
    · have h3 : i - len < n := by omega
      have h4 : i - len < extra := by omega
      simp [hi, hi2, h3, h4]
    · have h3 : ¬ i - len < n := by omega
      simp [hi, hi2, h3]

/-- **`Extend` appends zeros** (and keeps the spare capacity zero) — as long as the spare capacity was zero -/
theorem ABuf.extend_spec (b : ABuf) (n : Nat) (h : b.TailZero) :
    (b.extend n).slice = b.slice ++ List.replicate n 0 ∧ (b.extend n).TailZero := by
  obtain ⟨hle, hz⟩ := h
  have hsz : b.data.toList.length = b.data.size := by simp
  unfold ABuf.extend
  by_cases hfit : n ≤ b.data.size - b.len
  · simp only [hfit, ↓reduceIte, ABuf.slice]
    refine ⟨?_, ⟨by simp only; omega, ?_⟩⟩
    · exact take_extend_zeros _ _ _ (by omega) (by omega) (fun k h1 h2 => hz k h1 (by omega))
    · intro k h1 h2
      exact hz k (by simp only at h1; omega) h2
  · simp only [hfit, ↓reduceIte, ABuf.slice]
    have htl : (List.take b.len b.data.toList).length = b.len := by
      rw [List.length_take, hsz]; exact Nat.min_eq_left hle
    refine ⟨?_, ⟨by simp only [List.size_toArray, List.length_append, htl, List.length_replicate]; omega, ?_⟩⟩
    · exact take_grown _ _ _ _ htl (by omega)
    · intro k h1 h2
      simp only [List.size_toArray, List.length_append, htl, List.length_replicate] at h1 h2
      simp only [List.getElem?_append, htl, List.getElem?_replicate]
      have h3 : ¬ k < b.len := by omega
      have h4 : k - b.len < 2 * b.data.size + n - b.len := by omega
      simp [h3, h4]

/-- an in-range write changes the slice at that index only and leaves the spare capacity alone -/
theorem ABuf.write_spec (b b' : ABuf) (i v : Nat) (h : b.TailZero) (hw : b.write i v = some b') :
    b'.slice = b.slice.set i v ∧ b'.TailZero := by
  unfold ABuf.write at hw
  split at hw
  · rename_i hi
    injection hw with hw
    subst hw
    obtain ⟨hle, hz⟩ := h
    refine ⟨?_, ⟨by simpa using hle, ?_⟩⟩
    · simp only [ABuf.slice, Array.toList_setIfInBounds]
      exact List.take_set
    · intro k h1 h2
      simp only [Array.size_setIfInBounds] at h2
      simp only [Array.toList_setIfInBounds]
      rw [List.getElem?_set_ne (by simp only at h1; omega)]
      exact hz k h1 h2
  · cases hw

/-! ### histories -/

inductive ABOp where
  | extend (n : Nat)
  | write (i v : Nat)
  | truncate (n : Nat)
deriving Repr

def ABuf.step (b : ABuf) : ABOp → Option ABuf
  | .extend n => some (b.extend n)
  | .write i v => b.write i v
  | .truncate n => b.truncate n

def ABuf.run (b : ABuf) : List ABOp → Option ABuf
  | [] => some b
  | op :: ops => (b.step op).bind (·.run ops)

/-- the abstraction the bit-list model uses: a growable zero-initialised array -/
def zstep (a : List Nat) : ABOp → Option (List Nat)
  | .extend n => some (a ++ List.replicate n 0)
  | .write i v => if i < a.length then some (a.set i v) else none
  | .truncate n => if n > a.length then none else some (a.take n)

def zrun (a : List Nat) : List ABOp → Option (List Nat)
  | [] => some a
  | op :: ops => (zstep a op).bind (zrun · ops)

def ABOp.noTruncate : ABOp → Bool
  | .truncate _ => false
  | _ => true

theorem ABuf.slice_size (b : ABuf) (h : b.TailZero) : b.slice.length = b.len := by
  simp [ABuf.slice, Nat.min_eq_left h.1]

/-- **Refinement.** For every history of `Extend`s and writes (no `Truncate` / `Reset`) from a buffer whose
spare capacity is zero — `NewBuffer(size)` and `NewBufferFrom(a)` are — the Go buffer with its capacity
and re-slicing shows exactly the growable zero-initialised array; out-of-range writes panic in both. -/
theorem ABuf.run_refines (ops : List ABOp) (hno : ops.all ABOp.noTruncate = true) :
    ∀ (b : ABuf), b.TailZero → (b.run ops).map ABuf.slice = zrun b.slice ops := by
  induction ops with
  | nil => intro b _; rfl
  | cons op ops ih =>
    intro b hb
    simp only [List.all_cons, Bool.and_eq_true] at hno
    cases op with
    | extend n =>
      obtain ⟨h1, h2⟩ := ABuf.extend_spec b n hb
      simp only [ABuf.run, ABuf.step, Option.bind_some, zrun, zstep]
      rw [ih hno.2 _ h2, h1]
    | write i v =>
      simp only [ABuf.run, ABuf.step, zrun, zstep, ABuf.slice_size b hb]
      cases hw : b.write i v with
      | none =>
        have : ¬ i < b.len := by
          intro hi; simp [ABuf.write, hi] at hw
        simp [this]
      | some b' =>
        have hi : i < b.len := by
          rcases Nat.lt_or_ge i b.len with h | h
          · exact h
          · simp [ABuf.write, Nat.not_lt.mpr h] at hw
        obtain ⟨h1, h2⟩ := ABuf.write_spec b b' i v hb hw
        simp only [Option.bind_some, hi, ↓reduceIte]
        rw [ih hno.2 _ h2, h1]
    | truncate n => simp [ABOp.noTruncate] at hno

/-- non-vacuity: `NewBuffer(8)`, grow past the capacity twice, write, and the capacity policy `2*c + n` -/
example : ((ABuf.new 8).run [.extend 3, .write 2 7, .extend 6, .write 8 9, .extend 30]).map
      (fun b => (b.slice.take 10, b.len, b.cap)) =
    some ([0, 0, 7, 0, 0, 0, 0, 0, 9, 0], 39, 74) := by decide

/-- what `Truncate` breaks: the old contents come back (no zeroing on re-slice) -/
example : ((ABuf.new 8).run [.extend 3, .write 2 7, .truncate 1, .extend 2]).map (·.slice) =
    some [0, 0, 7] := by decide

end DaeVerif.C11
