import DaeVerif.C11.BitListProofs
/-!
# C11 — rank / select over the packed label bitmap

A bit list `bits` is viewed as the function `B q = bits.getD q false`; `onesUpTo B n` counts the ones
below position `n`.  `packWords` stores `B` 64 bits per word; `countZeros` and `selectIthOne` (with the
caches built by `init()`) compute rank-of-zeros and select-of-ones of `B`.
-/
namespace DaeVerif.C11
open List

def onesUpTo (B : Nat → Bool) (n : Nat) : Nat := (List.range n).countP B

theorem onesUpTo_zero (B : Nat → Bool) : onesUpTo B 0 = 0 := rfl

theorem onesUpTo_succ (B : Nat → Bool) (n : Nat) :
    onesUpTo B (n + 1) = onesUpTo B n + (if B n then 1 else 0) := by
  simp [onesUpTo, List.range_succ, List.countP_append, List.countP_cons]

theorem onesUpTo_le (B : Nat → Bool) (n : Nat) : onesUpTo B n ≤ n := by
  induction n with
  | zero => simp [onesUpTo]
  | succ n ih => rw [onesUpTo_succ]; split <;> omega

theorem onesUpTo_mono (B : Nat → Bool) {a b : Nat} (h : a ≤ b) : onesUpTo B a ≤ onesUpTo B b := by
  induction b with
  | zero => have : a = 0 := by omega
            subst this; exact Nat.le_refl _
  | succ b ih =>
    by_cases e : a = b + 1
    · subst e; exact Nat.le_refl _
    · rw [onesUpTo_succ]; have := ih (by omega); omega

theorem onesUpTo_add (B : Nat → Bool) (a : Nat) : ∀ b, onesUpTo B (a + b) = onesUpTo B a + onesUpTo (fun j => B (a + j)) b
  | 0 => by simp [onesUpTo]
  | b + 1 => by
    rw [← Nat.add_assoc, onesUpTo_succ, onesUpTo_succ, onesUpTo_add B a b]; omega

theorem onesUpTo_congr {B C : Nat → Bool} (n : Nat) (h : ∀ q, q < n → B q = C q) : onesUpTo B n = onesUpTo C n := by
  induction n with
  | zero => rfl
  | succ n ih => rw [onesUpTo_succ, onesUpTo_succ, ih (fun q hq => h q (by omega)), h n (by omega)]

/-- if position `q` holds a one, positions after it have strictly more ones below them -/
theorem onesUpTo_lt_of_one (B : Nat → Bool) {q r : Nat} (hq : B q = true) (h : q < r) :
    onesUpTo B q < onesUpTo B r := by
  have h1 : onesUpTo B (q + 1) = onesUpTo B q + 1 := by rw [onesUpTo_succ, hq]; rfl
  have h2 := onesUpTo_mono B (show q + 1 ≤ r by omega)
  omega

/-- the position of the `i`-th one (0-based) is unique -/
theorem select_unique (B : Nat → Bool) {q r i : Nat} (hq : B q = true) (hr : B r = true)
    (hqi : onesUpTo B q = i) (hri : onesUpTo B r = i) : q = r := by
  rcases Nat.lt_trichotomy q r with h | h | h
  · have := onesUpTo_lt_of_one B hq h; omega
  · exact h
  · have := onesUpTo_lt_of_one B hr h; omega

/-! ### words -/

theorem wordOfBits_testBit : ∀ (l : List Bool) (j : Nat), (wordOfBits l).testBit j = l.getD j false
  | [], j => by simp [wordOfBits]
  | b :: bs, 0 => by
    simp only [wordOfBits, List.getD_cons_zero]
    rw [Nat.testBit_zero]
    cases b <;> simp <;> omega
  | b :: bs, j + 1 => by
    simp only [wordOfBits, List.getD_cons_succ]
    rw [Nat.testBit_succ]
    have : ((if b = true then 1 else 0) + 2 * wordOfBits bs) / 2 = wordOfBits bs := by
      cases b <;> simp <;> omega
    rw [this, wordOfBits_testBit bs j]

theorem wordOfBits_lt : ∀ (l : List Bool), wordOfBits l < 2 ^ l.length
  | [] => by simp [wordOfBits]
  | b :: bs => by
    have := wordOfBits_lt bs
    simp only [wordOfBits, List.length_cons, Nat.pow_succ]
    cases b <;> simp <;> omega

/-- the function view of a bit list -/
def bitFn (bits : List Bool) : Nat → Bool := fun q => bits.getD q false

theorem packWords_spec : ∀ (fuel : Nat) (bits : List Bool), bits.length < fuel →
    (packWords fuel bits).length = (bits.length + 63) / 64 ∧
    ∀ i, i < (packWords fuel bits).length →
      (packWords fuel bits)[i]! < 2 ^ 64 ∧ ∀ j, j < 64 → (packWords fuel bits)[i]!.testBit j = bitFn bits (64 * i + j)
  | 0, bits, h => by omega
  | fuel + 1, [], _ => by simp [packWords]
  | fuel + 1, b :: bs, h => by
    have hlen : ((b :: bs).drop 64).length < fuel := by simp only [List.length_drop, List.length_cons] at h ⊢; omega
    obtain ⟨ih1, ih2⟩ := packWords_spec fuel ((b :: bs).drop 64) hlen
    have hpw : packWords (fuel + 1) (b :: bs) = wordOfBits ((b :: bs).take 64) :: packWords fuel ((b :: bs).drop 64) := by
      simp [packWords]
    rw [hpw]
    refine ⟨?_, ?_⟩
    · simp only [List.length_cons, ih1, List.length_drop]; omega
    · intro i hi
      cases i with
      | zero =>
        simp only [List.getElem!_cons_zero]
        refine ⟨?_, ?_⟩
        · calc wordOfBits ((b :: bs).take 64) < 2 ^ ((b :: bs).take 64).length := wordOfBits_lt _
            _ ≤ 2 ^ 64 := Nat.pow_le_pow_right (by decide) (by simp [List.length_take]; omega)
        · intro j hj
          rw [wordOfBits_testBit]
          simp only [bitFn, Nat.mul_zero, Nat.zero_add, List.getD_eq_getElem?_getD, List.getElem?_take, hj, ↓reduceIte]
      | succ i =>
        simp only [List.length_cons] at hi
        have := ih2 i (by omega)
        simp only [List.getElem!_cons_succ]
        refine ⟨this.1, ?_⟩
        intro j hj
        rw [this.2 j hj]
        simp only [bitFn, List.getD_eq_getElem?_getD, List.getElem?_drop]
        congr 2; omega

theorem packWords32_spec : ∀ (fuel : Nat) (bits : List Bool), bits.length < fuel →
    (packWords32 fuel bits).length = (bits.length + 31) / 32 ∧
    ∀ i, i < (packWords32 fuel bits).length →
      (packWords32 fuel bits)[i]! < 2 ^ 32 ∧ ∀ j, j < 32 → (packWords32 fuel bits)[i]!.testBit j = bitFn bits (32 * i + j)
  | 0, bits, h => by omega
  | fuel + 1, [], _ => by simp [packWords32]
  | fuel + 1, b :: bs, h => by
    have hlen : ((b :: bs).drop 32).length < fuel := by simp only [List.length_drop, List.length_cons] at h ⊢; omega
    obtain ⟨ih1, ih2⟩ := packWords32_spec fuel ((b :: bs).drop 32) hlen
    have hpw : packWords32 (fuel + 1) (b :: bs) = wordOfBits ((b :: bs).take 32) :: packWords32 fuel ((b :: bs).drop 32) := by
      simp [packWords32]
    rw [hpw]
    refine ⟨?_, ?_⟩
    · simp only [List.length_cons, ih1, List.length_drop]; omega
    · intro i hi
      cases i with
      | zero =>
        simp only [List.getElem!_cons_zero]
        refine ⟨?_, ?_⟩
        · calc wordOfBits ((b :: bs).take 32) < 2 ^ ((b :: bs).take 32).length := wordOfBits_lt _
            _ ≤ 2 ^ 32 := Nat.pow_le_pow_right (by decide) (by simp [List.length_take]; omega)
        · intro j hj
          rw [wordOfBits_testBit]
          simp only [bitFn, Nat.mul_zero, Nat.zero_add, List.getD_eq_getElem?_getD, List.getElem?_take, hj, ↓reduceIte]
      | succ i =>
        simp only [List.length_cons] at hi
        have := ih2 i (by omega)
        simp only [List.getElem!_cons_succ]
        refine ⟨this.1, ?_⟩
        intro j hj
        rw [this.2 j hj]
        simp only [bitFn, List.getD_eq_getElem?_getD, List.getElem?_drop]
        congr 2; omega

/-! ### popcount -/

theorem popcount_eq (w : Nat) : popcount w = onesUpTo (fun j => w.testBit j) 64 := rfl

theorem popcount_mod (w b : Nat) (hb : b ≤ 64) : popcount (w % 2 ^ b) = onesUpTo (fun j => w.testBit j) b := by
  rw [popcount_eq]
  have h64 : 64 = b + (64 - b) := by omega
  rw [h64, onesUpTo_add]
  have z : onesUpTo (fun j => (w % 2 ^ b).testBit (b + j)) (64 - b) = 0 := by
    unfold onesUpTo
    rw [List.countP_eq_zero]
    intro j _
    simp only [Nat.testBit_mod_two_pow]
    have : decide (b + j < b) = false := by simp
    rw [this]; simp
  rw [z, Nat.add_zero]
  apply onesUpTo_congr
  intro q hq
  simp [Nat.testBit_mod_two_pow, hq]

/-! ### the rank cache -/

/-- the words `ws` store the bit function `B`, 64 bits per word -/
def Packs (ws : List Nat) (B : Nat → Bool) : Prop :=
  ∀ i, i < ws.length → ∀ j, j < 64 → ws[i]!.testBit j = B (64 * i + j)

def scanSums (s : Nat) : List Nat → List Nat
  | [] => []
  | w :: ws => (s + popcount w) :: scanSums (s + popcount w) ws

theorem ranks_fold (ws : List Nat) : ∀ (acc : List Nat) (s : Nat),
    (ws.foldl (fun (acc : List Nat × Nat) w => ((acc.2 + popcount w) :: acc.1, acc.2 + popcount w)) (acc, s)).1.reverse =
      acc.reverse ++ scanSums s ws := by
  induction ws with
  | nil => intro acc s; simp [scanSums]
  | cons w ws ih => intro acc s; simp only [List.foldl_cons, ih, scanSums]; simp

theorem ranksOf_eq (ws : List Nat) : ranksOf ws = 0 :: scanSums 0 ws := by
  unfold ranksOf; rw [ranks_fold]; rfl

theorem scanSums_length (s : Nat) (ws : List Nat) : (scanSums s ws).length = ws.length := by
  induction ws generalizing s with
  | nil => rfl
  | cons w ws ih => simp [scanSums, ih]

/-- with `ws` packing `B`, the scan produces the number of ones below each word boundary -/
theorem scanSums_get (B : Nat → Bool) : ∀ (ws : List Nat) (base : Nat) (s : Nat),
    (∀ i, i < ws.length → ∀ j, j < 64 → ws[i]!.testBit j = B (64 * (base + i) + j)) →
    s = onesUpTo B (64 * base) →
    ∀ k, k < ws.length → (scanSums s ws)[k]? = some (onesUpTo B (64 * (base + k + 1)))
  | [], _, _, _, _, k, hk => by simp at hk
  | w :: ws, base, s, hp, hs, k, hk => by
    have hw : s + popcount w = onesUpTo B (64 * (base + 1)) := by
      have e : 64 * (base + 1) = 64 * base + 64 := by omega
      rw [e, onesUpTo_add, ← hs, popcount_eq]
      congr 1
      apply onesUpTo_congr
      intro q hq
      have := hp 0 (by simp) q hq
      simpa using this
    cases k with
    | zero => simp [scanSums, hw]
    | succ k =>
      simp only [scanSums, List.getElem?_cons_succ]
      have := scanSums_get B ws (base + 1) (s + popcount w) (by
        intro i hi j hj
        have := hp (i + 1) (by simp; omega) j hj
        simp only [List.getElem!_cons_succ] at this
        rw [this]; congr 2; omega) hw k (by simpa using hk)
      rw [this]; congr 2; omega

theorem ranksOf_get (B : Nat → Bool) (ws : List Nat) (hp : Packs ws B) (k : Nat) (hk : k ≤ ws.length) :
    (ranksOf ws)[k]? = some (onesUpTo B (64 * k)) := by
  rw [ranksOf_eq]
  cases k with
  | zero => simp [onesUpTo]
  | succ k =>
    simp only [List.getElem?_cons_succ]
    have := scanSums_get B ws 0 0 (by intro i hi j hj; simpa using hp i hi j hj) (by simp [onesUpTo]) k (by omega)
    simpa using this

theorem ranksOf_length (ws : List Nat) : (ranksOf ws).length = ws.length + 1 := by
  rw [ranksOf_eq]; simp [scanSums_length]

theorem lt_two_pow_len64 {v x : Nat} (h : v ≤ x) : v < 2 ^ len64 x := by
  unfold len64
  by_cases hx : x = 0
  · subst hx; simp; omega
  · rw [if_neg hx]
    calc v ≤ x := h
      _ < 2 ^ (x.log2 + 1) := Nat.lt_log2_self

theorem len64_pos {x : Nat} (h : 0 < x) : 0 < len64 x := by
  unfold len64; rw [if_neg (by omega)]; omega

/-- reading the rank cache through its `CompactBitList` -/
theorem ranksBL_get (B : Nat → Bool) (ws : List Nat) (hp : Packs ws B) (hpos : 0 < onesUpTo B (64 * ws.length))
    (k : Nat) (hk : k ≤ ws.length) :
    (BitList.ofList (len64 ((ranksOf ws).getLastD 0)) (ranksOf ws)).get k = some (onesUpTo B (64 * k)) := by
  have hlast : (ranksOf ws).getLastD 0 = onesUpTo B (64 * ws.length) := by
    have := ranksOf_get B ws hp ws.length (Nat.le_refl _)
    have hl := ranksOf_length ws
    rw [List.getLastD_eq_getLast?, List.getLast?_eq_getElem?, hl]
    simp [this]
  rw [hlast]
  have hall : ∀ v ∈ ranksOf ws, v < 2 ^ len64 (onesUpTo B (64 * ws.length)) := by
    intro v hv
    obtain ⟨i, hi, rfl⟩ := List.getElem_of_mem hv
    rw [ranksOf_length] at hi
    have := ranksOf_get B ws hp i (by omega)
    rw [List.getElem?_eq_getElem (by rw [ranksOf_length]; omega)] at this
    rw [Option.some.inj this]
    exact lt_two_pow_len64 (onesUpTo_mono B (by omega))
  have hk' : k < (ranksOf ws).length := by rw [ranksOf_length]; omega
  rw [BitList.ofList_get _ _ (len64_pos hpos) hall k hk']
  have := ranksOf_get B ws hp k hk
  rw [List.getElem?_eq_getElem hk'] at this
  exact this

/-! ### `countZeros` -/

theorem countZeros_spec (B : Nat → Bool) (ws : List Nat) (hp : Packs ws B)
    (hpos : 0 < onesUpTo B (64 * ws.length)) (i : Nat) (hi : i / 64 < ws.length) :
    countZeros ws.toArray (BitList.ofList (len64 ((ranksOf ws).getLastD 0)) (ranksOf ws)) i =
      some (i - onesUpTo B i) := by
  unfold countZeros
  simp only
  rw [ranksBL_get B ws hp hpos (i / 64) (by omega)]
  have hw : ws.toArray[i / 64]? = some ws[i / 64]! := by
    simp [List.getElem?_eq_getElem hi, List.getElem!_eq_getElem?_getD]
  simp only [Option.bind_eq_bind, Option.bind_some, hw]
  congr 1
  rw [popcount_mod _ _ (by omega : i % 64 ≤ 64)]
  have e : i = 64 * (i / 64) + i % 64 := by omega
  have : onesUpTo B i = onesUpTo B (64 * (i / 64)) + onesUpTo (fun j => ws[i / 64]!.testBit j) (i % 64) := by
    conv => lhs; rw [e]
    rw [onesUpTo_add]
    congr 1
    apply onesUpTo_congr
    intro q hq
    exact (hp (i / 64) hi q (by omega)).symm
  rw [this]; omega

/-! ### `selectIthOne`: inside one word -/

theorem tzAux_spec (w : Nat) : ∀ (fuel k : Nat),
    k ≤ tzAux w fuel k ∧ tzAux w fuel k ≤ k + fuel ∧ ∀ j, k ≤ j → j < tzAux w fuel k → w.testBit j = false
  | 0, k => ⟨Nat.le_refl _, by simp [tzAux], by intro j h1 h2; simp [tzAux] at h2; omega⟩
  | fuel + 1, k => by
    unfold tzAux
    by_cases h : w.testBit k = true
    · rw [if_pos h]; exact ⟨Nat.le_refl _, by omega, by intro j h1 h2; omega⟩
    · rw [if_neg h]
      obtain ⟨h1, h2, h3⟩ := tzAux_spec w fuel (k + 1)
      refine ⟨by omega, by omega, ?_⟩
      intro j hj1 hj2
      by_cases e : j = k
      · subst e; simpa using h
      · exact h3 j (by omega) hj2

theorem tz64_spec (w : Nat) : tz64 w ≤ 64 ∧ ∀ j, j < tz64 w → w.testBit j = false := by
  obtain ⟨_, h2, h3⟩ := tzAux_spec w 64 0
  exact ⟨by simpa [tz64] using h2, fun j hj => h3 j (Nat.zero_le _) hj⟩

/-- ones of the word below bit `b` -/
def cnt (w b : Nat) : Nat := onesUpTo (fun j => w.testBit j) b

theorem cnt_const_of_zero (w a : Nat) (hz : ∀ j, a ≤ j → w.testBit j = false) : ∀ b, a ≤ b → cnt w b = cnt w a := by
  intro b hb
  induction b with
  | zero => have : a = 0 := by omega
            subst this; rfl
  | succ b ih =>
    by_cases e : a = b + 1
    · subst e; rfl
    · unfold cnt at ih ⊢
      rw [onesUpTo_succ, ih (by omega)]
      simp only [hz b (by omega)]; simp

theorem testBit_ge64 {w : Nat} (hw : w < 2 ^ 64) (j : Nat) (hj : 64 ≤ j) : w.testBit j = false := by
  apply Nat.testBit_lt_two_pow
  calc w < 2 ^ 64 := hw
    _ ≤ 2 ^ j := Nat.pow_le_pow_right (by decide) hj

theorem selInWord_spec (w0 : Nat) (hw0 : w0 < 2 ^ 64) : ∀ (fuel w bitIdx find : Nat),
    w = w0 >>> bitIdx → 65 ≤ fuel + bitIdx →
    match selInWord fuel w bitIdx find with
    | .inl q => w0.testBit q = true ∧ cnt w0 q = cnt w0 bitIdx + find ∧ q < 64
    | .inr f => cnt w0 64 + f = cnt w0 bitIdx + find
  | 0, w, bitIdx, find, _, hf => by
    simp only [selInWord]
    have := cnt_const_of_zero w0 64 (fun j hj => testBit_ge64 hw0 j hj) bitIdx (by omega)
    omega
  | fuel + 1, w, bitIdx, find, hw, hf => by
    unfold selInWord
    by_cases hz : w = 0
    · rw [if_pos hz]
      simp only
      have hzero : ∀ j, bitIdx ≤ j → w0.testBit j = false := by
        intro j hj
        have : (w0 >>> bitIdx).testBit (j - bitIdx) = false := by rw [← hw, hz]; simp
        rw [Nat.testBit_shiftRight] at this
        rwa [show bitIdx + (j - bitIdx) = j by omega] at this
      rcases Nat.le_total bitIdx 64 with h | h
      · have := cnt_const_of_zero w0 bitIdx hzero 64 h; omega
      · have := cnt_const_of_zero w0 64 (fun j hj => testBit_ge64 hw0 j hj) bitIdx h; omega
    · rw [if_neg hz]
      have hbit0 : w0.testBit bitIdx = decide (w % 2 = 1) := by
        have h0 : w.testBit 0 = decide (w % 2 = 1) := Nat.testBit_zero w
        have h1 : w.testBit 0 = w0.testBit bitIdx := by
          rw [hw, Nat.testBit_shiftRight]; simp
        rw [← h1, h0]
      by_cases hfound : w % 2 = 1 ∧ find = 0
      · rw [if_pos hfound]
        simp only
        have hb : w0.testBit bitIdx = true := by rw [hbit0]; simp [hfound.1]
        refine ⟨hb, by omega, ?_⟩
        rcases Nat.lt_or_ge bitIdx 64 with h | h
        · exact h
        · rw [testBit_ge64 hw0 _ h] at hb; exact absurd hb (by simp)
      · rw [if_neg hfound]
        simp only
        obtain ⟨htz1, htz2⟩ := tz64_spec (w / 2)
        have ih := selInWord_spec w0 hw0 fuel (w >>> (tz64 (w / 2) + 1)) (bitIdx + (tz64 (w / 2) + 1))
          (find - w % 2) (by rw [hw, ← Nat.shiftRight_add]) (by omega)
        -- the skipped bits are zero
        have hskip : cnt w0 (bitIdx + (tz64 (w / 2) + 1)) = cnt w0 bitIdx + w % 2 := by
          have hstep : cnt w0 (bitIdx + 1) = cnt w0 bitIdx + w % 2 := by
            unfold cnt; rw [onesUpTo_succ]; simp only [hbit0]
            have : w % 2 = 0 ∨ w % 2 = 1 := by omega
            rcases this with h | h <;> simp [h]
          have hzeros : ∀ t, t ≤ tz64 (w / 2) → cnt w0 (bitIdx + 1 + t) = cnt w0 (bitIdx + 1) := by
            intro t
            induction t with
            | zero => intro _; rfl
            | succ t iht =>
              intro ht
              have hbitz : w0.testBit (bitIdx + 1 + t) = false := by
                have := htz2 t (by omega)
                rw [Nat.testBit_div_two, hw, Nat.testBit_shiftRight] at this
                rwa [show bitIdx + (t + 1) = bitIdx + 1 + t by omega] at this
              have : cnt w0 (bitIdx + 1 + (t + 1)) = cnt w0 (bitIdx + 1 + t) := by
                unfold cnt
                rw [show bitIdx + 1 + (t + 1) = (bitIdx + 1 + t) + 1 by omega, onesUpTo_succ]
                simp only [hbitz]; simp
              rw [this]; exact iht (by omega)
          have := hzeros (tz64 (w / 2)) (Nat.le_refl _)
          rw [show bitIdx + (tz64 (w / 2) + 1) = bitIdx + 1 + tz64 (w / 2) by omega, this, hstep]
        have hfind : find - w % 2 + w % 2 = find := by
          have : w % 2 = 0 ∨ w % 2 = 1 := by omega
          rcases this with h | h
          · omega
          · have : find ≠ 0 := fun h0 => hfound ⟨h, h0⟩
            omega
        cases hres : selInWord fuel (w >>> (tz64 (w / 2) + 1)) (bitIdx + (tz64 (w / 2) + 1)) (find - w % 2) with
        | inl q =>
          rw [hres] at ih
          simp only at ih ⊢
          exact ⟨ih.1, by omega, ih.2.2⟩
        | inr f =>
          rw [hres] at ih
          simp only at ih ⊢
          omega

/-! ### `selectIthOne`: across words -/

def WordsLt (ws : List Nat) : Prop := ∀ i, i < ws.length → ws[i]! < 2 ^ 64

theorem onesUpTo_word (B : Nat → Bool) (ws : List Nat) (hp : Packs ws B) (i : Nat) (hi : i < ws.length)
    (q : Nat) (hq : q ≤ 64) : onesUpTo B (64 * i + q) = onesUpTo B (64 * i) + cnt ws[i]! q := by
  rw [onesUpTo_add]
  congr 1
  apply onesUpTo_congr
  intro j hj
  exact (hp i hi j (by omega)).symm

theorem selWords_spec (B : Nat → Bool) (ws : List Nat) (hp : Packs ws B) (hlt : WordsLt ws)
    (Q T : Nat) (hQ : B Q = true) (hQT : onesUpTo B Q = T) (hQlen : Q < 64 * ws.length) :
    ∀ (fuel i find : Nat), ws.length + 1 ≤ fuel + i → onesUpTo B (64 * i) + find = T →
      selWords ws.toArray fuel i find = some Q := by
  intro fuel
  induction fuel with
  | zero =>
    intro i find hf hinv
    -- i > ws.length is impossible: 64 i ≤ Q
    have : 64 * i ≤ Q := by
      rcases Nat.le_total (64 * i) Q with h | h
      · exact h
      · rcases Nat.lt_or_ge Q (64 * i) with h2 | h2
        · have := onesUpTo_lt_of_one B hQ h2; omega
        · exact h2
    omega
  | succ fuel ih =>
    intro i find hf hinv
    have h64 : 64 * i ≤ Q := by
      rcases Nat.lt_or_ge Q (64 * i) with h2 | h2
      · have := onesUpTo_lt_of_one B hQ h2; omega
      · exact h2
    have hi : i < ws.length := by omega
    have hw : ws.toArray[i]? = some ws[i]! := by
      simp [List.getElem?_eq_getElem hi, List.getElem!_eq_getElem?_getD]
    unfold selWords
    simp only [hw, Option.bind_eq_bind, Option.bind_some]
    have hs := selInWord_spec ws[i]! (hlt i hi) 65 ws[i]! 0 find (by simp) (by omega)
    cases hres : selInWord 65 ws[i]! 0 find with
    | inl q =>
      rw [hres] at hs
      simp only at hs ⊢
      obtain ⟨h1, h2, h3⟩ := hs
      have hB : B (64 * i + q) = true := by rw [← hp i hi q h3]; exact h1
      have hcnt : onesUpTo B (64 * i + q) = T := by
        rw [onesUpTo_word B ws hp i hi q (by omega), h2]
        have : cnt ws[i]! 0 = 0 := rfl
        omega
      have := select_unique B hB hQ hcnt hQT
      rw [← this]; congr 1; omega
    | inr f =>
      rw [hres] at hs
      simp only at hs ⊢
      have h0 : cnt ws[i]! 0 = 0 := rfl
      apply ih (i + 1) f (by omega)
      have := onesUpTo_word B ws hp i hi 64 (Nat.le_refl _)
      rw [show 64 * (i + 1) = 64 * i + 64 by omega, this]
      omega

/-- `selectIthOne`, given that the select cache entry is the position of a one numbered `≤ i`
in the same 64-block. -/
theorem selectIthOne_spec (B : Nat → Bool) (ws : List Nat) (hp : Packs ws B) (hlt : WordsLt ws)
    (hpos : 0 < onesUpTo B (64 * ws.length)) (selects : BitList)
    (Q i s : Nat) (hQ : B Q = true) (hQi : onesUpTo B Q = i) (hQlen : Q < 64 * ws.length)
    (hs : selects.get (i / 64) = some s) (hsB : B s = true) (hsi : onesUpTo B s ≤ i) :
    selectIthOne ws.toArray (BitList.ofList (len64 ((ranksOf ws).getLastD 0)) (ranksOf ws)) selects i = some Q := by
  have hsQ : s ≤ Q := by
    rcases Nat.lt_or_ge Q s with h | h
    · have := onesUpTo_lt_of_one B hQ h; omega
    · exact h
  unfold selectIthOne
  simp only [hs, Option.bind_eq_bind, Option.bind_some]
  have hk : s / 64 * 64 / 64 = s / 64 := by omega
  rw [hk, ranksBL_get B ws hp hpos (s / 64) (by omega)]
  simp only [Option.bind_some]
  have hr : onesUpTo B (64 * (s / 64)) ≤ i := Nat.le_trans (onesUpTo_mono B (by omega)) hsi
  apply selWords_spec B ws hp hlt Q i hQ hQi hQlen
  · simp
  · omega

/-! ### the select cache -/

/-- `R` lists, in order, the positions below `i` of the ones numbered 0, 64, 128, … -/
structure SelOk (B : Nat → Bool) (i : Nat) (R : List Nat) : Prop where
  len : R.length = (onesUpTo B i + 63) / 64
  entry : ∀ m, m < R.length → B (R[m]!) = true ∧ onesUpTo B (R[m]!) = 64 * m ∧ R[m]! < i
  sorted : R.Pairwise (· < ·)

def selStep (acc : List Nat × Nat × Nat) (b : Bool) : List Nat × Nat × Nat :=
  let (sel, n, i) := acc
  if b then ((if n % 64 = 0 then i :: sel else sel), n + 1, i + 1) else (sel, n, i + 1)

theorem selectsOf_eq (l : List Bool) : selectsOf l = (l.foldl selStep ([], 0, 0)).1.reverse := rfl

theorem sel_fold (l : List Bool) : ∀ (rest done : List Bool) (sel : List Nat) (n : Nat),
    l = done ++ rest → n = onesUpTo (bitFn l) done.length → SelOk (bitFn l) done.length sel.reverse →
    SelOk (bitFn l) l.length (rest.foldl selStep (sel, n, done.length)).1.reverse := by
  intro rest
  induction rest with
  | nil =>
    intro done sel n hl _ hok
    simp only [List.append_nil] at hl
    subst hl; exact hok
  | cons b rest ih =>
    intro done sel n hl hn hok
    have hb : bitFn l done.length = b := by
      simp [bitFn, hl, List.getD_eq_getElem?_getD]
    have hl' : l = (done ++ [b]) ++ rest := by simp [hl]
    have hlen : (done ++ [b]).length = done.length + 1 := by simp
    simp only [List.foldl_cons]
    cases b with
    | false =>
      have hn' : n = onesUpTo (bitFn l) (done ++ [false]).length := by
        rw [hlen, onesUpTo_succ, hb]; simpa using hn
      have := ih (done ++ [false]) sel n hl' hn' (by
        rw [hlen]
        refine ⟨?_, ?_, hok.sorted⟩
        · rw [hok.len, onesUpTo_succ, hb]; simp
        · intro m hm; have := hok.entry m hm; exact ⟨this.1, this.2.1, by omega⟩)
      simpa [selStep, hlen] using this
    | true =>
      have hn' : n + 1 = onesUpTo (bitFn l) (done ++ [true]).length := by
        rw [hlen, onesUpTo_succ, hb]; simp [hn]
      by_cases hm64 : n % 64 = 0
      · have := ih (done ++ [true]) (done.length :: sel) (n + 1) hl' hn' (by
          rw [hlen]
          simp only [List.reverse_cons]
          refine ⟨?_, ?_, ?_⟩
          · rw [List.length_append, hok.len, onesUpTo_succ, hb, ← hn]; simp; omega
          · intro m hm
            rw [List.length_append] at hm
            simp only [List.length_singleton] at hm
            by_cases e : m < sel.reverse.length
            · have := hok.entry m e
              rw [List.getElem!_eq_getElem?_getD, List.getElem?_append_left e, ← List.getElem!_eq_getElem?_getD]
              exact ⟨this.1, this.2.1, by omega⟩
            · have e' : m = sel.reverse.length := by omega
              subst e'
              rw [List.getElem!_eq_getElem?_getD, List.getElem?_concat_length]
              simp only [Option.getD_some]
              refine ⟨hb, ?_, by omega⟩
              rw [← hn, hok.len, ← hn]; omega
          · rw [List.pairwise_append]
            refine ⟨hok.sorted, by simp, ?_⟩
            intro a ha c hc
            simp only [List.mem_singleton] at hc; subst hc
            obtain ⟨m, hm, rfl⟩ := List.getElem_of_mem ha
            have := (hok.entry m hm).2.2
            rw [List.getElem!_eq_getElem?_getD, List.getElem?_eq_getElem hm] at this
            simpa using this)
        simpa [selStep, hlen, hm64] using this
      · have := ih (done ++ [true]) sel (n + 1) hl' hn' (by
          rw [hlen]
          refine ⟨?_, ?_, hok.sorted⟩
          · rw [hok.len, onesUpTo_succ, hb, ← hn]; simp; omega
          · intro m hm; have := hok.entry m hm; exact ⟨this.1, this.2.1, by omega⟩)
        simpa [selStep, hlen, hm64] using this

theorem selectsOf_ok (l : List Bool) : SelOk (bitFn l) l.length (selectsOf l) := by
  rw [selectsOf_eq]
  have := sel_fold l l [] [] 0 (by simp) (by simp [onesUpTo]) ⟨by simp [onesUpTo], by intro m hm; simp at hm, by simp⟩
  simpa using this

theorem wordBits_getD : ∀ (ws : List Nat) (q : Nat),
    bitFn (wordBits ws) q = if q / 64 < ws.length then ws[q / 64]!.testBit (q % 64) else false
  | [], q => by simp [wordBits, bitFn]
  | w :: ws, q => by
    have ih := wordBits_getD ws (q - 64)
    have hcons : wordBits (w :: ws) = (List.range 64).map (fun i => w.testBit i) ++ wordBits ws := by
      simp [wordBits]
    unfold bitFn at ih ⊢
    rw [hcons, List.getD_eq_getElem?_getD]
    by_cases hq : q < 64
    · rw [List.getElem?_append_left (by simpa using hq)]
      have h0 : q / 64 = 0 := by omega
      have hm : q % 64 = q := by omega
      simp [h0, hm, hq]
    · rw [List.getElem?_append_right (by simpa using (by omega : 64 ≤ q))]
      simp only [List.length_map, List.length_range]
      rw [← List.getD_eq_getElem?_getD, ih]
      have h1 : (q - 64) / 64 = q / 64 - 1 := by omega
      have h2 : (q - 64) % 64 = q % 64 := by omega
      have h3 : q / 64 ≥ 1 := by omega
      rw [h1, h2]
      by_cases hlt : q / 64 - 1 < ws.length
      · have : q / 64 < (w :: ws).length := by simp; omega
        rw [if_pos hlt, if_pos this]
        congr 1
        rw [List.getElem!_eq_getElem?_getD, List.getElem!_eq_getElem?_getD]
        congr 1
        rw [show q / 64 = (q / 64 - 1) + 1 by omega, List.getElem?_cons_succ]
        simp
      · have : ¬ q / 64 < (w :: ws).length := by simp; omega
        rw [if_neg hlt, if_neg this]

theorem wordBits_length (ws : List Nat) : (wordBits ws).length = 64 * ws.length := by
  induction ws with
  | nil => rfl
  | cons w ws ih => simp [wordBits] at ih ⊢; omega

theorem le_getLastD_of_sorted : ∀ (l : List Nat), l.Pairwise (· < ·) → ∀ v ∈ l, v ≤ l.getLastD 0
  | [], _, v, hv => by simp at hv
  | [a], _, v, hv => by simp at hv; subst hv; simp
  | a :: b :: rest, hp, v, hv => by
    have ih := le_getLastD_of_sorted (b :: rest) (pairwise_cons.mp hp).2
    have hlast : (a :: b :: rest).getLastD 0 = (b :: rest).getLastD 0 := by simp [List.getLastD_cons]
    rw [hlast]
    rcases List.mem_cons.mp hv with rfl | hv
    · have h1 := (pairwise_cons.mp hp).1 b (by simp)
      have h2 := ih b (by simp)
      omega
    · exact ih v hv

/-- reading the select cache through its `CompactBitList` -/
theorem selectsBL_get (B : Nat → Bool) (ws : List Nat) (hp : Packs ws B)
    (hfalse : ∀ q, 64 * ws.length ≤ q → B q = false) (h0 : B 0 = false)
    (i : Nat) (hi : i < onesUpTo B (64 * ws.length)) :
    ∃ s, (BitList.ofList (len64 ((selectsOf (wordBits ws)).getLastD 0)) (selectsOf (wordBits ws))).get (i / 64) = some s ∧
      B s = true ∧ onesUpTo B s = 64 * (i / 64) := by
  have hfn : bitFn (wordBits ws) = B := by
    funext q
    rw [wordBits_getD]
    by_cases hq : q / 64 < ws.length
    · rw [if_pos hq, hp (q / 64) hq (q % 64) (Nat.mod_lt _ (by decide))]
      congr 1; omega
    · rw [if_neg hq, hfalse q (by omega)]
  have hok := selectsOf_ok (wordBits ws)
  rw [hfn, wordBits_length] at hok
  generalize selectsOf (wordBits ws) = S at hok
  have hlen := hok.len
  have hm : i / 64 < S.length := by rw [hlen]; omega
  have h0len : 0 < S.length := by omega
  obtain ⟨e1, e2, _⟩ := hok.entry (i / 64) hm
  rw [List.getElem!_eq_getElem?_getD, List.getElem?_eq_getElem hm] at e1 e2
  simp only [Option.getD_some] at e1 e2
  -- first entry is not position 0, so the last entry is positive
  obtain ⟨f1, _, _⟩ := hok.entry 0 h0len
  rw [List.getElem!_eq_getElem?_getD, List.getElem?_eq_getElem h0len] at f1
  simp only [Option.getD_some] at f1
  have hfirst : 1 ≤ S[0] := by
    rcases Nat.eq_zero_or_pos S[0] with h | h
    · rw [h, h0] at f1; exact absurd f1 (by simp)
    · exact h
  have hlastpos : 0 < S.getLastD 0 := by
    have := le_getLastD_of_sorted S hok.sorted S[0] (List.getElem_mem h0len)
    omega
  have hall : ∀ v ∈ S, v < 2 ^ len64 (S.getLastD 0) :=
    fun v hv => lt_two_pow_len64 (le_getLastD_of_sorted S hok.sorted v hv)
  refine ⟨S[i / 64], ?_, e1, e2⟩
  exact BitList.ofList_get _ S (len64_pos hlastpos) hall (i / 64) hm

end DaeVerif.C11
