import DaeVerif.C11.Loop
import DaeVerif.C11.Proofs
/-! C11 — `MatchDomainBitmap`'s loops (`Built.matchLoop`) return what the per-set definition
`Built.matchBitmap` returns, for every order of the index lists. -/
namespace DaeVerif.C11
open List

/-- bit `j` of a `[]uint32` bitmap -/
def bmBit (bm : Array Nat) (j : Nat) : Bool := ((bm[j / 32]?).getD 0).testBit (j % 32)

def Words32 (bm : Array Nat) : Prop := ∀ (k w : Nat), bm[k]? = some w → w < 2 ^ 32

theorem bmBit_set (bm : Array Nat) (i j w : Nat) (hi : i / 32 < bm.size) (hw : bm[i / 32]? = some w) :
    bmBit (bm.setIfInBounds (i / 32) (w ||| (1 <<< (i % 32)))) j = (bmBit bm j || j == i) := by
  unfold bmBit
  by_cases hk : j / 32 = i / 32
  · rw [hk, Array.getElem?_setIfInBounds_self_of_lt hi, hw]
    simp only [Option.getD_some, Nat.testBit_or, Nat.one_shiftLeft, Nat.testBit_two_pow]
    congr 1
    rw [Bool.eq_iff_iff]
    simp only [decide_eq_true_eq, beq_iff_eq]
    omega
  · rw [Array.getElem?_setIfInBounds_ne (Ne.symm hk)]
    have : (j == i) = false := by
      rw [beq_eq_false_iff_ne]; intro h; subst h; exact hk rfl
    simp [this]

theorem words32_set (bm : Array Nat) (k w r : Nat) (hb : Words32 bm) (hw : w < 2 ^ 32) (hr : r < 32) :
    Words32 (bm.setIfInBounds k (w ||| (1 <<< r))) := by
  intro k' w' h
  by_cases hk : k' = k
  · subst hk
    by_cases hlt : k' < bm.size
    · rw [Array.getElem?_setIfInBounds_self_of_lt hlt] at h
      injection h with h
      subst h
      apply Nat.or_lt_two_pow hw
      rw [Nat.one_shiftLeft]
      exact Nat.pow_lt_pow_right (by decide) hr
    · rw [Array.getElem?_eq_none (by simp; omega)] at h; simp at h
  · rw [Array.getElem?_setIfInBounds_ne (Ne.symm hk)] at h
    exact hb k' w' h

/-- one iteration: the bit of `i` becomes `old || f`, nothing else changes -/
theorem loopStep_spec (fire : Nat → Option Bool) (bm : Array Nat) (i : Nat) (f : Bool)
    (hi : i / 32 < bm.size) (hf : fire i = some f) (hb : Words32 bm) :
    ∃ bm', loopStep fire bm i = some bm' ∧ bm'.size = bm.size ∧ Words32 bm' ∧
      ∀ j, bmBit bm' j = (bmBit bm j || (j == i && f)) := by
  obtain ⟨w, hw⟩ : ∃ w, bm[i / 32]? = some w := ⟨bm[i / 32], Array.getElem?_eq_getElem hi⟩
  unfold loopStep
  simp only [hw, Option.bind_eq_bind, Option.bind_some, hf]
  by_cases ht : w.testBit (i % 32) = true
  · refine ⟨bm, by simp [ht], rfl, hb, ?_⟩
    intro j
    by_cases hji : j = i
    · subst hji
      have : bmBit bm j = true := by simp [bmBit, hw, ht]
      simp [this]
    · have : (j == i) = false := by simpa using hji
      simp [this]
  · cases f with
    | false =>
      refine ⟨bm, by simp [ht], rfl, hb, ?_⟩
      intro j; simp
    | true =>
      refine ⟨bm.setIfInBounds (i / 32) (w ||| (1 <<< (i % 32))), by simp [ht], by simp,
        words32_set bm _ w _ hb (hb _ _ hw) (Nat.mod_lt _ (by decide)), ?_⟩
      intro j
      rw [bmBit_set bm i j w hi hw]; simp

theorem loopOver_spec (fire : Nat → Option Bool) (f : Nat → Bool) :
    ∀ (is : List Nat) (bm : Array Nat), (∀ i ∈ is, i / 32 < bm.size ∧ fire i = some (f i)) → Words32 bm →
    ∃ bm', loopOver fire is bm = some bm' ∧ bm'.size = bm.size ∧ Words32 bm' ∧
      ∀ j, bmBit bm' j = (bmBit bm j || (decide (j ∈ is) && f j))
  | [], bm, _, hb => ⟨bm, rfl, rfl, hb, by intro j; simp⟩
  | i :: is, bm, h, hb => by
    obtain ⟨hi, hf⟩ := h i (by simp)
    obtain ⟨bm1, h1, hs1, hb1, hbit1⟩ := loopStep_spec fire bm i (f i) hi hf hb
    obtain ⟨bm2, h2, hs2, hb2, hbit2⟩ := loopOver_spec fire f is bm1
      (fun k hk => by rw [hs1]; exact h k (by simp [hk])) hb1
    refine ⟨bm2, by simp [loopOver, h1, h2], by rw [hs2, hs1], hb2, ?_⟩
    intro j
    rw [hbit2 j, hbit1 j]
    by_cases hji : j = i
    · subst hji; cases bmBit bm j <;> cases f j <;> simp
    · have e1 : (j == i) = false := by simpa using hji
      simp [e1, hji]

theorem bitmapLen_eq (n : Nat) : bitmapLen n = (n + 31) / 32 := by
  unfold bitmapLen; split <;> rename_i h <;> simp at h <;> omega

theorem acRun_nil_dict : ∀ (input : Str), acRun [] input [] = false
  | [] => rfl
  | c :: rest => by
    have : acStep [] [] c = ([], false) := by simp [acStep, acChild, acIsNode]
    simp [acRun, this, acRun_nil_dict rest]

/-- two `[]uint32` of the same length with the same bits are equal -/
theorem words_ext (a b : List Nat) (hl : a.length = b.length) (ha : ∀ w ∈ a, w < 2 ^ 32) (hb : ∀ w ∈ b, w < 2 ^ 32)
    (h : ∀ k r, r < 32 → (a.getD k 0).testBit r = (b.getD k 0).testBit r) : a = b := by
  apply List.ext_getElem hl
  intro k h1 h2
  apply Nat.eq_of_testBit_eq
  intro r
  by_cases hr : r < 32
  · have := h k r hr
    simpa [List.getD_eq_getElem?_getD, List.getElem?_eq_getElem h1, List.getElem?_eq_getElem h2] using this
  · have p1 : a[k] < 2 ^ r := Nat.lt_of_lt_of_le (ha _ (List.getElem_mem h1)) (Nat.pow_le_pow_right (by decide) (by omega))
    have p2 : b[k] < 2 ^ r := Nat.lt_of_lt_of_le (hb _ (List.getElem_mem h2)) (Nat.pow_le_pow_right (by decide) (by omega))
    rw [Nat.testBit_lt_two_pow p1, Nat.testBit_lt_two_pow p2]

theorem option_mapM_some {α β : Type} (f : α → Option β) :
    ∀ (l : List α) (bs : List β), l.mapM f = some bs →
      bs.length = l.length ∧ ∀ k (hk : k < l.length), f l[k] = bs[k]?
  | [], bs, h => by
    simp at h; subst h; exact ⟨rfl, by intro k hk; simp at hk⟩
  | x :: l, bs, h => by
    rw [List.mapM_cons] at h
    cases hx : f x with
    | none => simp [hx] at h
    | some y =>
      cases hl : l.mapM f with
      | none => simp [hx, hl] at h
      | some ys =>
        simp [hx, hl] at h
        subst h
        obtain ⟨ih1, ih2⟩ := option_mapM_some f l ys hl
        refine ⟨by simp [ih1], ?_⟩
        intro k hk
        cases k with
        | zero => simp [hx]
        | succ k => simpa using ih2 k (by simpa using hk)

theorem bmBit_replicate (N j : Nat) : bmBit (Array.replicate N 0) j = false := by
  unfold bmBit
  by_cases h : j / 32 < N
  · simp [h]
  · simp [h]

theorem words32_replicate (N : Nat) : Words32 (Array.replicate N 0) := by
  intro k w h
  by_cases hk : k < N
  · simp [hk] at h; subst h; decide
  · simp [hk] at h

/-- the trie part of one set's answer -/
def BuiltSet.trieAns (bs : BuiltSet) (q : Str) : Option Bool :=
  match bs.trie with
  | none => some false
  | some t => t.hasPrefix q

theorem BuiltSet.matches_some (bs : BuiltSet) (dom : Str) (rxHits : List Nat) (v : Bool)
    (h : bs.matches dom rxHits = some v) :
    ∃ tv, bs.trieAns (trieQuery dom) = some tv ∧
      v = (tv || acAuto bs.ac (cHat :: dom ++ [cDollar]) || bs.rx.any rxHits.contains) := by
  unfold BuiltSet.matches at h
  unfold BuiltSet.trieAns
  cases ht : bs.trie with
  | none =>
    simp only [ht, Option.bind_eq_bind, Option.bind_some, Option.some.injEq] at h
    exact ⟨false, rfl, h.symm⟩
  | some t =>
    simp only [ht, Option.bind_eq_bind] at h
    cases hp : t.hasPrefix (trieQuery dom) with
    | none => simp [hp] at h
    | some tv =>
      simp only [hp, Option.bind_some, Option.some.injEq] at h
      exact ⟨tv, hp, h.symm⟩

theorem getElem?_some_lt {α : Type} (a : Array α) (i : Nat) (x : α) (h : a[i]? = some x) : i < a.size := by
  rcases Nat.lt_or_ge i a.size with h' | h'
  · exact h'
  · rw [Array.getElem?_eq_none h'] at h; simp at h

/-- **`MatchDomainBitmap`'s loops = the per-set definition**, for every order (and multiplicity) of the
index lists: whenever `Built.matchBitmap` answers (no `HasPrefix` panics), the loops over
`validTrieIndexes`, `validAcIndexes`, `validRegexpIndexes` with the "already matched" shortcut and the
`bitmap[i/32] |= 1 << (i%32)` writes produce the same `[]uint32`. -/
theorem matchLoop_of_matchBitmap (b : Built) (ix : Idx) (hv : ix.Valid b) (name : Str) (rxHits : List Nat)
    (ws : List Nat) (h : b.matchBitmap name rxHits = some ws) : b.matchLoop ix name rxHits = some ws := by
  unfold Built.matchBitmap at h
  cases hbits : b.matchBits name rxHits with
  | none => simp [hbits] at h
  | some bits =>
    simp only [hbits, Option.map_some, Option.some.injEq] at h
    unfold Built.matchBits at hbits
    obtain ⟨hlen, hpt⟩ := option_mapM_some _ _ _ hbits
    simp only [List.length_range] at hlen hpt
    -- what each set answers
    have hset : ∀ i bs, b.sets[i]? = some bs → ∃ tv, bs.trieAns (trieQuery (normName name)) = some tv ∧
        bitFn bits i = (tv || acAuto bs.ac (cHat :: normName name ++ [cDollar]) || bs.rx.any rxHits.contains) := by
      intro i bs hbs
      have hi := getElem?_some_lt _ _ _ hbs
      have := hpt i hi
      simp only [List.getElem_range, hbs] at this
      have hb : bits[i]? = some (bits[i]'(by omega)) := List.getElem?_eq_getElem (by omega)
      rw [hb] at this
      obtain ⟨tv, h1, h2⟩ := BuiltSet.matches_some bs _ _ _ this
      refine ⟨tv, h1, ?_⟩
      simp only [bitFn, List.getD_eq_getElem?_getD, hb, Option.getD_some]
      exact h2
    -- the three phases
    let fT : Nat → Bool := fun i => match b.sets[i]? with
      | some bs => (bs.trieAns (trieQuery (normName name))).getD false
      | none => false
    let fA : Nat → Bool := fun i => match b.sets[i]? with
      | some bs => acAuto bs.ac (cHat :: normName name ++ [cDollar])
      | none => false
    let fR : Nat → Bool := fun i => match b.sets[i]? with
      | some bs => bs.rx.any rxHits.contains
      | none => false
    have hN : ∀ i, i < b.sets.size → i / 32 < (Array.replicate (bitmapLen b.sets.size) (0 : Nat)).size := by
      intro i hi; simp only [Array.size_replicate, bitmapLen_eq]; omega
    have h1 : ∀ i ∈ ix.vTrie, i / 32 < (Array.replicate (bitmapLen b.sets.size) (0 : Nat)).size ∧
        b.fireTrie (trieQuery (normName name)) i = some (fT i) := by
      intro i hi
      obtain ⟨bs, hbs, htr⟩ := (hv.trie i).mp hi
      refine ⟨hN i (getElem?_some_lt _ _ _ hbs), ?_⟩
      obtain ⟨tv, htv, _⟩ := hset i bs hbs
      obtain ⟨t, ht⟩ := Option.isSome_iff_exists.mp htr
      have e : t.hasPrefix (trieQuery (normName name)) = some tv := by
        simpa [BuiltSet.trieAns, ht] using htv
      simp [Built.fireTrie, hbs, ht, fT, BuiltSet.trieAns, e]
    obtain ⟨bm1, r1, s1, w1, b1⟩ := loopOver_spec _ fT ix.vTrie _ h1 (words32_replicate _)
    have h2 : ∀ i ∈ ix.vAc, i / 32 < bm1.size ∧
        b.fireAc ((cHat :: normName name ++ [cDollar]).map acNorm) i = some (fA i) := by
      intro i hi
      obtain ⟨bs, hbs, hac⟩ := (hv.ac i).mp hi
      refine ⟨by rw [s1]; exact hN i (getElem?_some_lt _ _ _ hbs), ?_⟩
      have hne : bs.ac ≠ [] := by intro h0; simp [h0] at hac
      simp [Built.fireAc, hbs, hac, fA, acAuto, hne]
    obtain ⟨bm2, r2, s2, w2, b2⟩ := loopOver_spec _ fA ix.vAc bm1 h2 w1
    have h3 : ∀ i ∈ ix.vRx, i / 32 < bm2.size ∧ b.fireRx rxHits i = some (fR i) := by
      intro i hi
      obtain ⟨bs, hbs, _⟩ := (hv.rx i).mp hi
      refine ⟨by rw [s2, s1]; exact hN i (getElem?_some_lt _ _ _ hbs), ?_⟩
      simp [Built.fireRx, hbs, fR]
    obtain ⟨bm3, r3, s3, w3, b3⟩ := loopOver_spec _ fR ix.vRx bm2 h3 w2
    unfold Built.matchLoop
    simp only [r1, r2, r3, Option.bind_eq_bind, Option.bind_some, Option.some.injEq]
    -- every bit of the loop result is the bit of the per-set answer
    have hbit : ∀ j, bmBit bm3 j = bitFn bits j := by
      intro j
      rw [b3 j, b2 j, b1 j, bmBit_replicate]
      cases hget : b.sets[j]? with
      | some bs =>
        obtain ⟨tv, htv, hb⟩ := hset j bs hget
        rw [hb]
        have eT : (decide (j ∈ ix.vTrie) && fT j) = tv := by
          cases htr : bs.trie with
          | none =>
            have : j ∉ ix.vTrie := by
              intro hm
              obtain ⟨bs', hbs', hs⟩ := (hv.trie j).mp hm
              rw [hget] at hbs'; injection hbs' with hbs'; subst hbs'
              simp [htr] at hs
            have : tv = false := by simpa [BuiltSet.trieAns, htr] using htv.symm
            simp [*]
          | some t =>
            have : j ∈ ix.vTrie := (hv.trie j).mpr ⟨_, hget, by simp [htr]⟩
            simp [this, fT, hget, htv]
        have eA : (decide (j ∈ ix.vAc) && fA j) = acAuto bs.ac (cHat :: normName name ++ [cDollar]) := by
          by_cases hm : j ∈ ix.vAc
          · simp [hm, fA, hget]
          · have : bs.ac = [] := by
              cases hac : bs.ac with
              | nil => rfl
              | cons x xs => exact absurd ((hv.ac j).mpr ⟨_, hget, by simp [hac]⟩) hm
            simp [hm, this, acAuto, acRun_nil_dict]
        have eR : (decide (j ∈ ix.vRx) && fR j) = bs.rx.any rxHits.contains := by
          by_cases hm : j ∈ ix.vRx
          · simp [hm, fR, hget]
          · have : bs.rx = [] := by
              cases hrx : bs.rx with
              | nil => rfl
              | cons x xs => exact absurd ((hv.rx j).mpr ⟨_, hget, by simp [hrx]⟩) hm
            simp [hm, this]
        rw [eT, eA, eR]; simp
      | none =>
        have hj : b.sets.size ≤ j := by
          rcases Nat.lt_or_ge j b.sets.size with h' | h'
          · rw [Array.getElem?_eq_getElem h'] at hget; simp at hget
          · exact h'
        have n1 : j ∉ ix.vTrie := fun hm => by
          obtain ⟨bs, hbs, _⟩ := (hv.trie j).mp hm; rw [hget] at hbs; simp at hbs
        have n2 : j ∉ ix.vAc := fun hm => by
          obtain ⟨bs, hbs, _⟩ := (hv.ac j).mp hm; rw [hget] at hbs; simp at hbs
        have n3 : j ∉ ix.vRx := fun hm => by
          obtain ⟨bs, hbs, _⟩ := (hv.rx j).mp hm; rw [hget] at hbs; simp at hbs
        rw [bitFn_beyond bits j (by omega)]
        simp [n1, n2, n3]
    subst h
    obtain ⟨p1, p2⟩ := packWords32_spec (bits.length + 1) bits (Nat.lt_succ_self _)
    have hsz : bm3.size = (bits.length + 31) / 32 := by
      rw [s3, s2, s1, Array.size_replicate, bitmapLen_eq, hlen]
    apply words_ext
    · rw [p1]; simpa using hsz
    · intro w hw
      obtain ⟨k, hk, rfl⟩ := List.getElem_of_mem hw
      exact w3 k _ (by simp at hk; simp [hk])
    · intro w hw
      obtain ⟨k, hk, rfl⟩ := List.getElem_of_mem hw
      have := (p2 k hk).1
      rwa [List.getElem!_eq_getElem?_getD, List.getElem?_eq_getElem hk] at this
    · intro k r hr
      have e1 : (bm3.toList.getD k 0).testBit r = bmBit bm3 (32 * k + r) := by
        unfold bmBit
        have q1 : (32 * k + r) / 32 = k := by omega
        have q2 : (32 * k + r) % 32 = r := by omega
        rw [q1, q2, List.getD_eq_getElem?_getD, Array.getElem?_toList]
      rw [e1, hbit]
      by_cases hk : k < (packWords32 (bits.length + 1) bits).length
      · have := (p2 k hk).2 r hr
        rw [List.getElem!_eq_getElem?_getD] at this
        rw [List.getD_eq_getElem?_getD]
        exact this.symm
      · rw [List.getD_eq_getElem?_getD, List.getElem?_eq_none (by omega)]
        simp only [Option.getD_none, Nat.zero_testBit]
        rw [p1] at hk
        exact bitFn_beyond bits _ (by omega)

/-! ### index lists: the sequential ones are valid; any list with the same members is -/

theorem mem_pick (b : Built) (f : BuiltSet → Bool) (i : Nat) :
    i ∈ ((List.range b.sets.size).filter fun i => match b.sets[i]? with
      | some bs => f bs
      | none => false) ↔ ∃ bs, b.sets[i]? = some bs ∧ f bs = true := by
  simp only [List.mem_filter, List.mem_range]
  constructor
  · rintro ⟨_, h⟩
    cases hg : b.sets[i]? with
    | none => simp [hg] at h
    | some bs => exact ⟨bs, rfl, by simpa [hg] using h⟩
  · rintro ⟨bs, hbs, hf⟩
    exact ⟨getElem?_some_lt _ _ _ hbs, by simp [hbs, hf]⟩

theorem Idx.ofBuilt_valid (b : Built) : (Idx.ofBuilt b).Valid b := by
  refine ⟨?_, ?_, ?_⟩
  · intro i; exact mem_pick b (·.trie.isSome) i
  · intro i
    have := mem_pick b (fun bs => !bs.ac.isEmpty) i
    simp only [Bool.not_eq_true'] at this
    exact this
  · intro i
    have := mem_pick b (fun bs => !bs.rx.isEmpty) i
    simp only [Bool.not_eq_true'] at this
    exact this

/-- what the driver checks of an order reported by the real `Build` is enough -/
theorem Idx.valid_of_permOf (b : Built) (ix : Idx) (h : ix.permOf (Idx.ofBuilt b) = true) : ix.Valid b := by
  have hv := Idx.ofBuilt_valid b
  unfold Idx.permOf at h
  simp only [Bool.and_eq_true, List.all_eq_true, List.contains_iff_mem] at h
  obtain ⟨⟨⟨t1, t2⟩, ⟨a1, a2⟩⟩, ⟨r1, r2⟩⟩ := h
  refine ⟨?_, ?_, ?_⟩
  · intro i; rw [← hv.trie i]; exact ⟨t1 i, t2 i⟩
  · intro i; rw [← hv.ac i]; exact ⟨a1 i, a2 i⟩
  · intro i; rw [← hv.rx i]; exact ⟨r1 i, r2 i⟩

/-! ### the documented meaning, evaluated once per query -/

theorem docMatchesCore_eq_docHitIdx (log : List AddCall) (i : Nat) (name : Str) (rxHits : List Nat) :
    docMatchesCore log i name rxHits = (docHitIdx log (normName name) rxHits).contains i := by
  rw [Bool.eq_iff_iff]
  simp only [docMatchesCore, docHitIdx, callHit, List.any_eq_true, Bool.and_eq_true, beq_iff_eq,
    List.contains_iff_mem, List.mem_map, List.mem_filter]
  constructor
  · rintro ⟨a, ha, hi, p, hp, h1, h2⟩; exact ⟨a, ⟨ha, p, hp, h1, h2⟩, hi⟩
  · rintro ⟨a, ⟨ha, p, hp, h1, h2⟩, hi⟩; exact ⟨a, ha, hi, p, hp, h1, h2⟩

end DaeVerif.C11
