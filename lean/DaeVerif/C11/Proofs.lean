import DaeVerif.C11.DomainProofs
import DaeVerif.C11.LoudsProofs
import DaeVerif.C11.AcProofs
/-! C11 — helper lemmas are split over `DomainProofs` (pattern normalisation, replay, build),
`BitListProofs` (packed units), `RankSelectProofs` (popcount rank / select caches),
`TreeProofs` (sorted keys → tree of nodes), `FlatProofs` (BFS numbering) and `LoudsProofs`
(packed bitmaps ↔ BFS list).  This file assembles the end-to-end statement about `NewTrie`/`HasPrefix`. -/
namespace DaeVerif.C11
open List

theorem foldl_max_spec : ∀ (l : List Str) (m : Nat),
    m ≤ l.foldl (fun m k => max m k.length) m ∧ ∀ k ∈ l, k.length ≤ l.foldl (fun m k => max m k.length) m
  | [], m => ⟨Nat.le_refl _, by simp⟩
  | a :: l, m => by
    obtain ⟨h1, h2⟩ := foldl_max_spec l (max m a.length)
    simp only [List.foldl_cons]
    refine ⟨by omega, ?_⟩
    intro k hk
    rcases List.mem_cons.mp hk with rfl | hk
    · omega
    · exact h2 k hk

theorem length_le_maxLen (keys : List Str) (k : Str) (hk : k ∈ keys) : k.length ≤ maxLen keys :=
  (foldl_max_spec keys 0).2 k hk

theorem hasPrefixSpec_congr (a b : List Str) (w : Str) (h : ∀ k, k ∈ a ↔ k ∈ b) :
    hasPrefixSpec a w = hasPrefixSpec b w := by
  rw [Bool.eq_iff_iff]
  simp only [hasPrefixSpec, List.any_eq_true]
  constructor
  · rintro ⟨k, hk, hp⟩; exact ⟨k, (h k).mp hk, hp⟩
  · rintro ⟨k, hk, hp⟩; exact ⟨k, (h k).mpr hk, hp⟩

/-- the BFS output of a non-empty strictly sorted key list over the alphabet is well formed -/
theorem bfs_wf (chars : ValidChars) (ks : List Str) (hne : ks ≠ []) (hs : StrictSorted ks)
    (hv : ∀ k ∈ ks, ∀ c ∈ k, chars.isValid c = true) : WF chars (bfs ks) := by
  have hok : LvlOk (fun c => chars.isValid c = true) [ks] := by
    intro m hm; simp only [List.mem_singleton] at hm; subst hm; exact ⟨hne, hs, hv⟩
  have hfuel : ∀ m ∈ [ks], ∀ k ∈ m, k.length < maxLen ks + 2 := by
    intro m hm k hk; simp only [List.mem_singleton] at hm; subst hm
    have := length_le_maxLen m k hk; omega
  refine ⟨?_, ?_, ?_, ?_⟩
  · have := levels_wf _ (maxLen ks + 2) [ks] [] hok hfuel (by simp [degs])
    simpa [bfs] using this
  · exact levels_last_leaf _ (maxLen ks + 2) [ks] hok (by simp) hfuel
  · intro o ho l hl
    exact levels_labels _ (maxLen ks + 2) [ks] hok o ho l hl
  · intro h2
    unfold bfs at h2 ⊢
    rw [show maxLen ks + 2 = (maxLen ks + 1) + 1 by omega, levels_succ _ _ (by simp)] at h2 ⊢
    refine ⟨Node.out ks, by simp, ?_⟩
    intro hlab
    have hch : Node.children ks = [] := by simpa [Node.out] using hlab
    have : nextLevel [ks] = [] := by simp [nextLevel, hch]
    rw [this] at h2
    simp [levels] at h2

/-- **`HasPrefix (NewTrie keys) = hasPrefixSpec keys`** for the bit-exact model: LOUDS bitmaps packed in
64-bit words, popcount rank cache, sampled select cache, labels / caches in `CompactBitList`s. -/
theorem trie_hasPrefix_eq_spec_core (chars : ValidChars) (h0 : 0 < chars.size) (h256 : chars.size ≤ 256)
    (keys : List Str) (hne : keys ≠ []) (hv : ∀ k ∈ keys, ∀ c ∈ k, chars.isValid c = true) (w : Str) :
    ∃ t, Trie.build chars keys = .ok t ∧ t.hasPrefix w = some (hasPrefixSpec keys w) := by
  refine ⟨_, Trie.build_ok chars keys hne hv, ?_⟩
  have hks_ne : sortDedup keys ≠ [] := by
    cases keys with
    | nil => exact absurd rfl hne
    | cons k ks =>
      intro h
      have : k ∈ sortDedup (k :: ks) := (mem_sortDedup k _).mpr (by simp)
      rw [h] at this; simp at this
  have hks_v : ∀ k ∈ sortDedup keys, ∀ c ∈ k, chars.isValid c = true :=
    fun k hk => hv k ((mem_sortDedup k keys).mp hk)
  have wf := bfs_wf chars (sortDedup keys) hks_ne (sortDedup_strict keys) hks_v
  have hlen : 0 < (bfs (sortDedup keys)).length := by have := wf.len; omega
  have hwalk := walk_eq_flat chars (bfs (sortDedup keys)) wf h0 h256 w 0 hlen
  have hstart : start (bfs (sortDedup keys)) 0 = 0 := by simp [start, degs]
  rw [hstart] at hwalk
  unfold Trie.hasPrefix
  rw [hwalk]
  congr 1
  have hflat := walkFlat_eq_tree w [] [sortDedup keys] (maxLen (sortDedup keys) + 2) 0 (sortDedup keys)
    (by simp) (by simp [degs]) (by
      intro m hm k hk; simp only [List.mem_singleton] at hm; subst hm
      have := length_le_maxLen _ k hk; omega)
  simp only [List.nil_append, List.length_nil, Nat.zero_add] at hflat
  rw [show bfs (sortDedup keys) = levels (maxLen (sortDedup keys) + 2) [sortDedup keys] from rfl, hflat,
    walkNode_eq_spec w _ (sortDedup_strict keys)]
  exact hasPrefixSpec_congr _ _ w (fun k => mem_sortDedup k keys)

/-! ### the matcher on top of the bit-exact trie -/

theorem domainChars_size : 0 < domainChars.size ∧ domainChars.size ≤ 256 := by decide

theorem option_mapM_of_forall {α β : Type} (f : α → Option β) (g : α → β) :
    ∀ l : List α, (∀ x ∈ l, f x = some (g x)) → l.mapM f = some (l.map g)
  | [], _ => rfl
  | x :: l, h => by
    rw [List.mapM_cons, h x (by simp), option_mapM_of_forall f g l (fun y hy => h y (by simp [hy]))]
    rfl

/-- a built set answers through the packed trie exactly what the trie contract says -/
theorem builtOf_matches (log : List AddCall) (i : Nat) (dom : Str) (rxHits : List Nat) :
    (builtOf (setOf log i)).matches dom rxHits = some ((builtOf (setOf log i)).matchesSpec dom rxHits) := by
  unfold BuiltSet.matches BuiltSet.matchesSpec builtOf
  simp only [acAuto_eq_acContains]
  by_cases he : ((setOf log i).trie.map toSuffixTrieString).isEmpty = true
  · have : (setOf log i).trie.map toSuffixTrieString = [] := by simpa using he
    simp [he, this, hasPrefixSpec]
  · simp only [he, Bool.false_eq_true, ↓reduceIte]
    have hne : (setOf log i).trie.map toSuffixTrieString ≠ [] := by
      intro h; simp [h] at he
    have hv : ∀ k ∈ (setOf log i).trie.map toSuffixTrieString, ∀ c ∈ k, domainChars.isValid c = true := by
      intro k hk c hc
      obtain ⟨k0, hk0, rfl⟩ := List.mem_map.mp hk
      simp only [setOf] at hk0
      obtain ⟨a, _, ha⟩ := List.mem_flatMap.mp hk0
      exact contrib_trie_valid a k0 ha c hc
    obtain ⟨t, ht, hpre⟩ := trie_hasPrefix_eq_spec_core domainChars domainChars_size.1 domainChars_size.2
      _ hne hv (trieQuery dom)
    rw [Trie.build_ok domainChars _ hne hv] at ht
    injection ht with ht
    rw [ht, hpre]
    rfl

theorem zip_map_filterMap {α : Type} (g : α → Bool) : ∀ l : List α,
    ((l.zip (l.map g)).filterMap fun p => if p.2 then some p.1 else none) = l.filter g
  | [] => rfl
  | x :: l => by
    simp only [List.map_cons, List.zip_cons_cons, List.filterMap_cons, List.filter_cons]
    cases h : g x <;> simp [zip_map_filterMap g l]

/-- the bit vector of a built matcher: bit `i` is what set `i` answers under the trie contract -/
theorem matchBits_eq (n : Nat) (log : List AddCall) (b : Built) (hsize : b.sets.size = n)
    (hsets : ∀ i, i < n → b.sets[i]? = some (builtOf (setOf log i))) (name : Str) (rxHits : List Nat) :
    b.matchBits name rxHits =
      some ((List.range n).map fun i => (builtOf (setOf log i)).matchesSpec (normName name) rxHits) := by
  unfold Built.matchBits
  simp only [hsize]
  apply option_mapM_of_forall
  intro i hi
  have hi' : i < n := by simpa using hi
  rw [hsets i hi']
  exact builtOf_matches log i _ rxHits

theorem addSetInt_neg (m : Matcher) (idx : Int) (kind : Kind) (pats : List Pat) (h : idx < 0) :
    m.addSetInt idx kind pats = m.addSet m.sets.size kind pats := by
  unfold Matcher.addSetInt Matcher.addSet
  simp [h]

theorem addSetInt_nonneg (m : Matcher) (idx : Nat) (kind : Kind) (pats : List Pat) :
    m.addSetInt (idx : Int) kind pats = m.addSet idx kind pats := by
  unfold Matcher.addSetInt
  have : ¬ ((idx : Int) < 0) := by omega
  simp [this]

theorem matchIndices_eq_spec (n : Nat) (log : List AddCall) (b : Built) (hsize : b.sets.size = n)
    (hsets : ∀ i, i < n → b.sets[i]? = some (builtOf (setOf log i))) (name : Str) (rxHits : List Nat) :
    b.matchIndices name rxHits = some (b.matchIndicesSpec name rxHits) := by
  unfold Built.matchIndices Built.matchBits Built.matchIndicesSpec
  simp only [hsize]
  rw [option_mapM_of_forall _ (fun i => (builtOf (setOf log i)).matchesSpec (normName name) rxHits)]
  · simp only [Option.map_some]
    congr 1
    rw [zip_map_filterMap]
    apply List.filter_congr
    intro i hi
    have hi' : i < n := by simpa using hi
    rw [hsets i hi']
  · intro i hi
    have hi' : i < n := by simpa using hi
    rw [hsets i hi']
    exact builtOf_matches log i _ rxHits

end DaeVerif.C11
