import DaeVerif.C11.DomainProofs
/-! C11 — helper lemmas are split over `DomainProofs` (pattern normalisation, replay, build),
`BitListProofs` (packed units), `RankSelectProofs` (popcount rank / select caches) and
`LoudsProofs` (BFS layout and navigation).  This file assembles them. -/
