import DaeVerif.C11.FlatProofs
import DaeVerif.C11.RankSelectProofs
/-!
# C11 — LOUDS: the packed trie navigates exactly like the flat BFS list

`start n = (labels of nodes 0..n-1) + n` is the bitmap position where node `n`'s segment
`0^deg 1` begins.  Zeros before `start n + k + 1` = index of child `k`; the `(n-1)`-th one sits at
`start n - 1`.
-/
namespace DaeVerif.C11
open List

/-! ### bit functions of concatenations -/

theorem bitFn_append_left (X Y : List Bool) (q : Nat) (h : q < X.length) : bitFn (X ++ Y) q = bitFn X q := by
  simp [bitFn, List.getD_eq_getElem?_getD, List.getElem?_append_left h]

theorem bitFn_append_right (X Y : List Bool) (j : Nat) : bitFn (X ++ Y) (X.length + j) = bitFn Y j := by
  simp [bitFn, List.getD_eq_getElem?_getD, List.getElem?_append_right (Nat.le_add_right _ _)]

theorem onesUpTo_cons (b : Bool) (X : List Bool) (n : Nat) :
    onesUpTo (bitFn (b :: X)) (n + 1) = (if b then 1 else 0) + onesUpTo (bitFn X) n := by
  rw [show n + 1 = 1 + n by omega, onesUpTo_add]
  congr 1
  · simp [onesUpTo, bitFn, List.range_succ]
  · apply onesUpTo_congr
    intro q _
    simp [bitFn, show 1 + q = q + 1 by omega]

theorem onesUpTo_length (X : List Bool) : onesUpTo (bitFn X) X.length = X.count true := by
  induction X with
  | nil => rfl
  | cons b X ih =>
    rw [List.length_cons, onesUpTo_cons, ih, List.count_cons]
    cases b <;> simp <;> omega

theorem onesUpTo_append (X Y : List Bool) (j : Nat) :
    onesUpTo (bitFn (X ++ Y)) (X.length + j) = X.count true + onesUpTo (bitFn Y) j := by
  rw [onesUpTo_add]
  congr 1
  · rw [← onesUpTo_length X]
    exact onesUpTo_congr _ (fun q hq => bitFn_append_left X Y q hq)
  · exact onesUpTo_congr _ (fun q _ => bitFn_append_right X Y q)

/-! ### the layout of `bitmapBits`, `labelBytes`, `leafBits` -/

def start (outs : List NodeOut) (n : Nat) : Nat := degs (outs.take n) + n

theorem bitmapBits_length (outs : List NodeOut) : (bitmapBits outs).length = degs outs + outs.length := by
  induction outs with
  | nil => rfl
  | cons o outs ih =>
    simp [bitmapBits, degs] at ih ⊢
    omega

theorem bitmapBits_count (outs : List NodeOut) : (bitmapBits outs).count true = outs.length := by
  induction outs with
  | nil => rfl
  | cons o outs ih =>
    simp only [bitmapBits, List.flatMap_cons, List.count_append, List.length_cons] at ih ⊢
    rw [ih]
    simp [List.count_replicate]
    omega

theorem bitmapBits_split (outs : List NodeOut) (n : Nat) :
    bitmapBits outs = bitmapBits (outs.take n) ++ bitmapBits (outs.drop n) := by
  unfold bitmapBits
  rw [← List.flatMap_append, List.take_append_drop]

theorem start_eq_length (outs : List NodeOut) (n : Nat) (hn : n ≤ outs.length) :
    start outs n = (bitmapBits (outs.take n)).length := by
  rw [bitmapBits_length, List.length_take, Nat.min_eq_left hn]; rfl

/-- node `n`'s segment: `deg` zeros then a one; ones before it: `n` -/
theorem segment (outs : List NodeOut) (n : Nat) (o : NodeOut) (ho : outs[n]? = some o) :
    (∀ k, k < o.labels.length → bitFn (bitmapBits outs) (start outs n + k) = false) ∧
    bitFn (bitmapBits outs) (start outs n + o.labels.length) = true ∧
    (∀ k, k ≤ o.labels.length → onesUpTo (bitFn (bitmapBits outs)) (start outs n + k) = n) := by
  have hn : n < outs.length := by
    rcases Nat.lt_or_ge n outs.length with h | h
    · exact h
    · rw [List.getElem?_eq_none h] at ho; simp at ho
  have hdrop : outs.drop n = o :: outs.drop (n + 1) := by
    rw [List.drop_eq_getElem_cons hn]
    rw [List.getElem?_eq_getElem hn] at ho
    rw [Option.some.inj ho]
  have hseg : bitmapBits (outs.drop n) =
      (List.replicate o.labels.length false ++ [true]) ++ bitmapBits (outs.drop (n + 1)) := by
    rw [hdrop]; simp [bitmapBits]
  rw [bitmapBits_split outs n, start_eq_length outs n (by omega), hseg]
  refine ⟨?_, ?_, ?_⟩
  · intro k hk
    rw [bitFn_append_right, bitFn_append_left _ _ _ (by simp; omega), bitFn_append_left _ _ _ (by simpa using hk)]
    simp [bitFn, List.getD_eq_getElem?_getD, List.getElem?_replicate, hk]
  · rw [bitFn_append_right, bitFn_append_left _ _ _ (by simp)]
    have := bitFn_append_right (List.replicate o.labels.length false) [true] 0
    simp only [List.length_replicate, Nat.add_zero] at this
    rw [this]; rfl
  · intro k hk
    rw [onesUpTo_append, bitmapBits_count, List.length_take, Nat.min_eq_left (by omega)]
    have : onesUpTo (bitFn (List.replicate o.labels.length false ++ [true] ++ bitmapBits (outs.drop (n + 1)))) k = 0 := by
      unfold onesUpTo
      rw [List.countP_eq_zero]
      intro q hq
      have hq' : q < k := by simpa using hq
      rw [bitFn_append_left _ _ _ (by simp; omega), bitFn_append_left _ _ _ (by simp; omega)]
      simp only [bitFn, List.getD_eq_getElem?_getD, List.getElem?_replicate]
      split <;> simp
    omega

theorem start_succ (outs : List NodeOut) (n : Nat) (o : NodeOut) (ho : outs[n]? = some o) :
    start outs (n + 1) = start outs n + o.labels.length + 1 := by
  have hn : n < outs.length := by
    rcases Nat.lt_or_ge n outs.length with h | h
    · exact h
    · rw [List.getElem?_eq_none h] at ho; simp at ho
  unfold start
  rw [List.take_succ, ho]
  simp only [Option.toList_some, degs_append]
  simp [degs]; omega

theorem labelBytes_get (outs : List NodeOut) (n : Nat) (o : NodeOut) (ho : outs[n]? = some o) (k : Nat)
    (hk : k < o.labels.length) : (labelBytes outs)[degs (outs.take n) + k]? = o.labels[k]? := by
  have := getElem?_flatMap_block (fun o : NodeOut => o.labels) outs n k o ho hk
  simpa [labelBytes, degs] using this

theorem labelBytes_length (outs : List NodeOut) : (labelBytes outs).length = degs outs := by
  simp [labelBytes, degs, List.length_flatMap]

end DaeVerif.C11
