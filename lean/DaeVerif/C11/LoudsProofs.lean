import DaeVerif.C11.FlatProofs
import DaeVerif.C11.RankSelectProofs
/-!
# C11 — LOUDS: the packed trie navigates exactly like the flat BFS list

`start n = (labels of nodes 0..n-1) + n` is the bitmap position where node `n`'s segment
`0^deg 1` begins.  Zeros before `start n + k + 1` = index of child `k`; the `(n-1)`-th one sits at
`start n - 1`.
-/
namespace DaeVerif.C11
open List

/-! ### bit functions of concatenations -/

theorem bitFn_append_left (X Y : List Bool) (q : Nat) (h : q < X.length) : bitFn (X ++ Y) q = bitFn X q := by
  simp [bitFn, List.getD_eq_getElem?_getD, List.getElem?_append_left h]

theorem bitFn_append_right (X Y : List Bool) (j : Nat) : bitFn (X ++ Y) (X.length + j) = bitFn Y j := by
  simp [bitFn, List.getD_eq_getElem?_getD, List.getElem?_append_right (Nat.le_add_right _ _)]

theorem onesUpTo_cons (b : Bool) (X : List Bool) (n : Nat) :
    onesUpTo (bitFn (b :: X)) (n + 1) = (if b then 1 else 0) + onesUpTo (bitFn X) n := by
  rw [show n + 1 = 1 + n by omega, onesUpTo_add]
  congr 1
  · simp [onesUpTo, bitFn, List.range_succ]
  · apply onesUpTo_congr
    intro q _
    simp [bitFn, show 1 + q = q + 1 by omega]

theorem onesUpTo_length (X : List Bool) : onesUpTo (bitFn X) X.length = X.count true := by
  induction X with
  | nil => rfl
  | cons b X ih =>
    rw [List.length_cons, onesUpTo_cons, ih, List.count_cons]
    cases b <;> simp <;> omega

theorem onesUpTo_append (X Y : List Bool) (j : Nat) :
    onesUpTo (bitFn (X ++ Y)) (X.length + j) = X.count true + onesUpTo (bitFn Y) j := by
  rw [onesUpTo_add]
  congr 1
  · rw [← onesUpTo_length X]
    exact onesUpTo_congr _ (fun q hq => bitFn_append_left X Y q hq)
  · exact onesUpTo_congr _ (fun q _ => bitFn_append_right X Y q)

/-! ### the layout of `bitmapBits`, `labelBytes`, `leafBits` -/

def start (outs : List NodeOut) (n : Nat) : Nat := degs (outs.take n) + n

theorem bitmapBits_length (outs : List NodeOut) : (bitmapBits outs).length = degs outs + outs.length := by
  induction outs with
  | nil => rfl
  | cons o outs ih =>
    simp [bitmapBits, degs] at ih ⊢
    omega

theorem bitmapBits_count (outs : List NodeOut) : (bitmapBits outs).count true = outs.length := by
  induction outs with
  | nil => rfl
  | cons o outs ih =>
    simp only [bitmapBits, List.flatMap_cons, List.count_append, List.length_cons] at ih ⊢
    rw [ih]
    simp [List.count_replicate]
    omega

theorem bitmapBits_split (outs : List NodeOut) (n : Nat) :
    bitmapBits outs = bitmapBits (outs.take n) ++ bitmapBits (outs.drop n) := by
  unfold bitmapBits
  rw [← List.flatMap_append, List.take_append_drop]

theorem start_eq_length (outs : List NodeOut) (n : Nat) (hn : n ≤ outs.length) :
    start outs n = (bitmapBits (outs.take n)).length := by
  rw [bitmapBits_length, List.length_take, Nat.min_eq_left hn]; rfl

/-- node `n`'s segment: `deg` zeros then a one; ones before it: `n` -/
theorem segment (outs : List NodeOut) (n : Nat) (o : NodeOut) (ho : outs[n]? = some o) :
    (∀ k, k < o.labels.length → bitFn (bitmapBits outs) (start outs n + k) = false) ∧
    bitFn (bitmapBits outs) (start outs n + o.labels.length) = true ∧
    (∀ k, k ≤ o.labels.length → onesUpTo (bitFn (bitmapBits outs)) (start outs n + k) = n) := by
  have hn : n < outs.length := by
    rcases Nat.lt_or_ge n outs.length with h | h
    · exact h
    · rw [List.getElem?_eq_none h] at ho; simp at ho
  have hdrop : outs.drop n = o :: outs.drop (n + 1) := by
    rw [List.drop_eq_getElem_cons hn]
    rw [List.getElem?_eq_getElem hn] at ho
    rw [Option.some.inj ho]
  have hseg : bitmapBits (outs.drop n) =
      (List.replicate o.labels.length false ++ [true]) ++ bitmapBits (outs.drop (n + 1)) := by
    rw [hdrop]; simp [bitmapBits]
  rw [bitmapBits_split outs n, start_eq_length outs n (by omega), hseg]
  refine ⟨?_, ?_, ?_⟩
  · intro k hk
    rw [bitFn_append_right, bitFn_append_left _ _ _ (by simp; omega), bitFn_append_left _ _ _ (by simpa using hk)]
    simp [bitFn, List.getD_eq_getElem?_getD, List.getElem?_replicate, hk]
  · rw [bitFn_append_right, bitFn_append_left _ _ _ (by simp)]
    have := bitFn_append_right (List.replicate o.labels.length false) [true] 0
    simp only [List.length_replicate, Nat.add_zero] at this
    rw [this]; rfl
  · intro k hk
    rw [onesUpTo_append, bitmapBits_count, List.length_take, Nat.min_eq_left (by omega)]
    have : onesUpTo (bitFn (List.replicate o.labels.length false ++ [true] ++ bitmapBits (outs.drop (n + 1)))) k = 0 := by
      unfold onesUpTo
      rw [List.countP_eq_zero]
      intro q hq
      have hq' : q < k := by simpa using hq
      rw [bitFn_append_left _ _ _ (by simp; omega), bitFn_append_left _ _ _ (by simp; omega)]
      simp only [bitFn, List.getD_eq_getElem?_getD, List.getElem?_replicate]
      split <;> simp
    omega

theorem start_succ (outs : List NodeOut) (n : Nat) (o : NodeOut) (ho : outs[n]? = some o) :
    start outs (n + 1) = start outs n + o.labels.length + 1 := by
  have hn : n < outs.length := by
    rcases Nat.lt_or_ge n outs.length with h | h
    · exact h
    · rw [List.getElem?_eq_none h] at ho; simp at ho
  unfold start
  rw [List.take_succ, ho]
  simp only [Option.toList_some, degs_append]
  simp [degs]; omega

theorem labelBytes_get (outs : List NodeOut) (n : Nat) (o : NodeOut) (ho : outs[n]? = some o) (k : Nat)
    (hk : k < o.labels.length) : (labelBytes outs)[degs (outs.take n) + k]? = o.labels[k]? := by
  have := getElem?_flatMap_block (fun o : NodeOut => o.labels) outs n k o ho hk
  simpa [labelBytes, degs] using this

theorem labelBytes_length (outs : List NodeOut) : (labelBytes outs).length = degs outs := by
  simp [labelBytes, degs, List.length_flatMap]

/-! ### well-formedness of the BFS output -/

theorem groups_nonempty : ∀ (l : Node) (x : Nat × Node), x ∈ groups l → x.2 ≠ []
  | [], x, h => by simp [groups] at h
  | [] :: rest, x, h => by simp only [groups] at h; exact groups_nonempty rest x h
  | (c :: t) :: rest, x, h => by
    have ih := groups_nonempty rest
    cases hg : groups rest with
    | nil => simp [groups, hg] at h; subst h; simp
    | cons y gs =>
      obtain ⟨c', g⟩ := y
      by_cases e : c' = c
      · subst e
        simp [groups, hg] at h
        rcases h with rfl | h
        · simp
        · exact ih x (by rw [hg]; simp [h])
      · simp [groups, hg, e] at h
        rcases h with rfl | rfl | h
        · simp
        · exact ih _ (by rw [hg]; simp)
        · exact ih x (by rw [hg]; simp [h])

/-- every node of a level is a non-empty strictly sorted list of words over `S` -/
def LvlOk (S : Nat → Prop) (lvl : List Node) : Prop :=
  ∀ m ∈ lvl, m ≠ [] ∧ StrictSorted m ∧ ∀ k ∈ m, ∀ c ∈ k, S c

theorem nextLevel_ok (S : Nat → Prop) (lvl : List Node) (h : LvlOk S lvl) : LvlOk S (nextLevel lvl) := by
  intro m hm
  simp only [nextLevel, List.mem_flatMap, List.mem_map] at hm
  obtain ⟨n, hn, x, hx, rfl⟩ := hm
  obtain ⟨_, hs, hc⟩ := h n hn
  obtain ⟨_, _, hchild⟩ := children_spec n hs
  refine ⟨groups_nonempty _ x hx, hchild x hx, ?_⟩
  intro k hk c hcin
  have := children_sound n x.1 x.2 k hx hk
  exact hc _ this c (List.mem_cons_of_mem _ hcin)

theorem labels_in (S : Nat → Prop) (n : Node) (hc : ∀ k ∈ n, ∀ c ∈ k, S c) : ∀ l ∈ n.out.labels, S l := by
  intro l hl
  simp only [Node.out, List.mem_map] at hl
  obtain ⟨x, hx, rfl⟩ := hl
  have hne := groups_nonempty _ x hx
  obtain ⟨t, ht⟩ := List.exists_mem_of_ne_nil _ hne
  have := children_sound n x.1 x.2 t hx ht
  exact hc _ this _ (by simp)

theorem leaf_of_no_children (n : Node) (hne : n ≠ []) (hs : StrictSorted n) (hch : n.children = []) :
    n.isLeaf = true := by
  obtain ⟨hmem, _, _⟩ := children_spec n hs
  cases n with
  | nil => exact absurd rfl hne
  | cons a l =>
    cases a with
    | nil => rfl
    | cons c t =>
      have := (hmem c t).mp (by simp)
      rw [hch] at this; simp at this

theorem fuel_next (lvl : List Node) (fuel : Nat) (h : ∀ m ∈ lvl, ∀ k ∈ m, k.length < fuel + 1) :
    ∀ m ∈ nextLevel lvl, ∀ k ∈ m, k.length < fuel := by
  intro m hm k hk
  simp only [nextLevel, List.mem_flatMap, List.mem_map] at hm
  obtain ⟨m0, hm0, y, hy, rfl⟩ := hm
  have := children_sound m0 y.1 y.2 k hy hk
  have := h m0 hm0 _ this
  simp at this; omega

theorem lvl_nil_of_fuel_zero (S : Nat → Prop) (lvl : List Node) (h : LvlOk S lvl)
    (hf : ∀ m ∈ lvl, ∀ k ∈ m, k.length < 0) : lvl = [] := by
  cases lvl with
  | nil => rfl
  | cons m l =>
    obtain ⟨hne, _, _⟩ := h m (by simp)
    obtain ⟨k, hk⟩ := List.exists_mem_of_ne_nil _ hne
    exact absurd (hf m (by simp) k hk) (by omega)

theorem levels_wf (S : Nat → Prop) : ∀ (fuel : Nat) (lvl : List Node) (pre : List NodeOut), LvlOk S lvl →
    (∀ m ∈ lvl, ∀ k ∈ m, k.length < fuel) → pre.length + lvl.length = 1 + degs pre →
    (pre ++ levels fuel lvl).length = 1 + degs (pre ++ levels fuel lvl)
  | 0, lvl, pre, hok, hf, hinv => by
    have := lvl_nil_of_fuel_zero S lvl hok hf
    subst this
    simpa [levels] using hinv
  | fuel + 1, lvl, pre, hok, hf, hinv => by
    by_cases hne : lvl = []
    · subst hne; simpa [levels] using hinv
    · rw [levels_succ fuel lvl hne, ← List.append_assoc]
      apply levels_wf S fuel (nextLevel lvl) (pre ++ lvl.map Node.out) (nextLevel_ok S lvl hok) (fuel_next lvl fuel hf)
      rw [List.length_append, List.length_map, degs_append, degs_map_out]; omega

theorem levels_labels (S : Nat → Prop) : ∀ (fuel : Nat) (lvl : List Node), LvlOk S lvl →
    ∀ o ∈ levels fuel lvl, ∀ l ∈ o.labels, S l
  | 0, _, _, o, ho => by simp [levels] at ho
  | fuel + 1, lvl, hok, o, ho => by
    by_cases hne : lvl = []
    · subst hne; simp [levels] at ho
    · rw [levels_succ fuel lvl hne, List.mem_append] at ho
      rcases ho with ho | ho
      · obtain ⟨n, hn, rfl⟩ := List.mem_map.mp ho
        exact labels_in S n (hok n hn).2.2
      · exact levels_labels S fuel (nextLevel lvl) (nextLevel_ok S lvl hok) o ho

theorem levels_last_leaf (S : Nat → Prop) : ∀ (fuel : Nat) (lvl : List Node), LvlOk S lvl → lvl ≠ [] →
    (∀ m ∈ lvl, ∀ k ∈ m, k.length < fuel) →
    ∃ o, (levels fuel lvl).getLast? = some o ∧ o.leaf = true
  | 0, lvl, hok, hne, hf => absurd (lvl_nil_of_fuel_zero S lvl hok hf) hne
  | fuel + 1, lvl, hok, hne, hf => by
    rw [levels_succ fuel lvl hne]
    by_cases hnext : nextLevel lvl = []
    · have hl : levels fuel (nextLevel lvl) = [] := by
        rw [hnext]; cases fuel <;> simp [levels]
      rw [hl, List.append_nil]
      obtain ⟨n, hn⟩ : ∃ n, lvl.getLast? = some n := by
        cases h : lvl.getLast? with
        | none => exact absurd (List.getLast?_eq_none_iff.mp h) hne
        | some n => exact ⟨n, rfl⟩
      refine ⟨n.out, by rw [List.getLast?_map, hn]; rfl, ?_⟩
      have hmem : n ∈ lvl := List.mem_of_getLast? hn
      obtain ⟨hne', hs, _⟩ := hok n hmem
      apply leaf_of_no_children n hne' hs
      have : n.children.map (·.2) = [] := by
        simp only [nextLevel, List.flatMap_eq_nil_iff] at hnext
        exact hnext n hmem
      simpa using this
    · obtain ⟨o, ho, hleaf⟩ := levels_last_leaf S fuel (nextLevel lvl) (nextLevel_ok S lvl hok) hnext (fuel_next lvl fuel hf)
      refine ⟨o, ?_, hleaf⟩
      rw [List.getLast?_append, ho]; rfl

/-! ### the packed arrays of `Trie.ofOuts` -/

theorem packs_of_packWords (bits : List Bool) :
    Packs (packWords (bits.length + 1) bits) (bitFn bits) ∧ WordsLt (packWords (bits.length + 1) bits) ∧
    (packWords (bits.length + 1) bits).length = (bits.length + 63) / 64 := by
  obtain ⟨h1, h2⟩ := packWords_spec (bits.length + 1) bits (Nat.lt_succ_self _)
  exact ⟨fun i hi j hj => (h2 i hi).2 j hj, fun i hi => (h2 i hi).1, h1⟩

theorem getBit_pack (bits : List Bool) (q : Nat) (hq : q < bits.length) :
    getBit (pack bits) q = some (bitFn bits q) := by
  obtain ⟨hp, _, hlen⟩ := packs_of_packWords bits
  have hi : q / 64 < (packWords (bits.length + 1) bits).length := by rw [hlen]; omega
  unfold getBit pack
  have hw : (packWords (bits.length + 1) bits).toArray[q / 64]? = some (packWords (bits.length + 1) bits)[q / 64]! := by
    simp [List.getElem?_eq_getElem hi, List.getElem!_eq_getElem?_getD]
  simp only [hw, Option.bind_eq_bind, Option.bind_some]
  rw [hp (q / 64) hi (q % 64) (Nat.mod_lt _ (by decide))]
  congr 2; omega

theorem trimFalse_of_last_true (l : List Bool) (h : l.getLast? = some true) : trimFalse l = l := by
  unfold trimFalse
  obtain ⟨ys, rfl⟩ := List.getLast?_eq_some_iff.mp h
  simp [List.dropWhile_cons]

/-- facts about the BFS output that the navigation needs -/
structure WF (chars : ValidChars) (outs : List NodeOut) : Prop where
  len : outs.length = 1 + degs outs
  lastLeaf : ∃ o, outs.getLast? = some o ∧ o.leaf = true
  labels : ∀ o ∈ outs, ∀ l ∈ o.labels, chars.isValid l = true
  root : 2 ≤ outs.length → ∃ o, outs[0]? = some o ∧ o.labels ≠ []

theorem getBit_leaves (chars : ValidChars) (outs : List NodeOut) (wf : WF chars outs) (n : Nat) (o : NodeOut)
    (ho : outs[n]? = some o) : getBit (Trie.ofOuts chars outs).leaves n = some o.leaf := by
  have hn : n < outs.length := by
    rcases Nat.lt_or_ge n outs.length with h | h
    · exact h
    · rw [List.getElem?_eq_none h] at ho; simp at ho
  obtain ⟨ol, hol, hleaf⟩ := wf.lastLeaf
  have htrim : trimFalse (leafBits outs) = leafBits outs := by
    apply trimFalse_of_last_true
    simp [leafBits, List.getLast?_map, hol, hleaf]
  simp only [Trie.ofOuts, htrim]
  rw [getBit_pack _ _ (by simpa [leafBits] using hn)]
  simp [bitFn, leafBits, List.getD_eq_getElem?_getD, List.getElem?_map, ho]

/-! ### the alphabet table -/

theorem isValid_iff_mem (chars : ValidChars) (c : Nat) : chars.isValid c = true ↔ c ∈ chars.alphabet := by
  unfold ValidChars.isValid ValidChars.code
  constructor
  · intro h
    by_cases hm : c ∈ chars.alphabet
    · exact hm
    · simp only [hm, ↓reduceIte, Nat.lt_irrefl, decide_false, Bool.false_or, beq_iff_eq] at h
      cases ha : chars.alphabet with
      | nil => rw [ha] at h; simp at h
      | cons a l => rw [ha] at h; simp at h; subst h; rw [ha] at hm; simp at hm
  · intro hm
    simp only [hm, ↓reduceIte, Bool.or_eq_true, decide_eq_true_eq, beq_iff_eq]
    by_cases h0 : chars.alphabet.idxOf c = 0
    · right
      cases ha : chars.alphabet with
      | nil => rw [ha] at hm; simp at hm
      | cons a l =>
        rw [ha] at h0
        simp only [List.idxOf_cons] at h0
        by_cases e : a = c
        · simp [e]
        · have hb : (a == c) = false := by simp [e]
          rw [hb] at h0; simp at h0
    · left; omega

theorem code_lt (chars : ValidChars) (c : Nat) (h : chars.isValid c = true) : chars.code c < chars.alphabet.length := by
  have hm := (isValid_iff_mem chars c).mp h
  unfold ValidChars.code
  rw [if_pos hm]
  exact List.idxOf_lt_length_iff.mpr hm

theorem code_inj (chars : ValidChars) (a b : Nat) (ha : chars.isValid a = true) (hb : chars.isValid b = true)
    (h : chars.code a = chars.code b) : a = b := by
  have hma := (isValid_iff_mem chars a).mp ha
  have hmb := (isValid_iff_mem chars b).mp hb
  unfold ValidChars.code at h
  rw [if_pos hma, if_pos hmb] at h
  have h1 := List.getElem_idxOf (List.idxOf_lt_length_iff.mpr hma)
  have h2 := List.getElem_idxOf (List.idxOf_lt_length_iff.mpr hmb)
  rw [← h1, ← h2]
  simp [h]

/-! ### rank / select / labels of `Trie.ofOuts` in terms of the BFS list -/

def wsOf (outs : List NodeOut) : List Nat := packWords ((bitmapBits outs).length + 1) (bitmapBits outs)

theorem bitFn_beyond (bits : List Bool) (q : Nat) (h : bits.length ≤ q) : bitFn bits q = false := by
  simp [bitFn, List.getD_eq_getElem?_getD, List.getElem?_eq_none h]

theorem ws_cover (outs : List NodeOut) : (bitmapBits outs).length ≤ 64 * (wsOf outs).length := by
  have := (packs_of_packWords (bitmapBits outs)).2.2
  unfold wsOf; rw [this]; omega

theorem ones_total (outs : List NodeOut) :
    onesUpTo (bitFn (bitmapBits outs)) (64 * (wsOf outs).length) = outs.length := by
  have h := cnt_const_of_zero
  have : onesUpTo (bitFn (bitmapBits outs)) (64 * (wsOf outs).length) =
      onesUpTo (bitFn (bitmapBits outs)) (bitmapBits outs).length := by
    have hc := ws_cover outs
    obtain ⟨d, hd⟩ := Nat.exists_eq_add_of_le hc
    rw [hd, onesUpTo_add]
    have : onesUpTo (fun j => bitFn (bitmapBits outs) ((bitmapBits outs).length + j)) d = 0 := by
      unfold onesUpTo; rw [List.countP_eq_zero]
      intro j _; simp [bitFn_beyond _ _ (Nat.le_add_right _ _)]
    omega
  rw [this, onesUpTo_length, bitmapBits_count]

theorem start_le (outs : List NodeOut) (n : Nat) (hn : n ≤ outs.length) : start outs n ≤ (bitmapBits outs).length := by
  rw [start_eq_length outs n hn, bitmapBits_split outs n, List.length_append]; omega

theorem getBit_bitmap (chars : ValidChars) (outs : List NodeOut) (q : Nat) (hq : q < (bitmapBits outs).length) :
    getBit (Trie.ofOuts chars outs).labelBitmap q = some (bitFn (bitmapBits outs) q) :=
  getBit_pack _ q hq

theorem cz_ofOuts (chars : ValidChars) (outs : List NodeOut) (hne : outs ≠ []) (q : Nat)
    (hq : q < (bitmapBits outs).length) :
    countZeros (Trie.ofOuts chars outs).labelBitmap (Trie.ofOuts chars outs).ranksBL q =
      some (q - onesUpTo (bitFn (bitmapBits outs)) q) := by
  obtain ⟨hp, _, hlen⟩ := packs_of_packWords (bitmapBits outs)
  have hpos : 0 < onesUpTo (bitFn (bitmapBits outs)) (64 * (wsOf outs).length) := by
    rw [ones_total]; exact List.length_pos_iff.mpr hne
  have := countZeros_spec (bitFn (bitmapBits outs)) (wsOf outs) hp hpos q (by
    have := ws_cover outs; omega)
  exact this

theorem sel_ofOuts (chars : ValidChars) (outs : List NodeOut) (wf : WF chars outs) (n : Nat) (h1 : 1 ≤ n)
    (hn : n < outs.length) :
    selectIthOne (Trie.ofOuts chars outs).labelBitmap (Trie.ofOuts chars outs).ranksBL
      (Trie.ofOuts chars outs).selectsBL (n - 1) = some (start outs n - 1) := by
  obtain ⟨hp, hlt, hlen⟩ := packs_of_packWords (bitmapBits outs)
  have hne : outs ≠ [] := by intro h; rw [h] at hn; simp at hn
  have hpos : 0 < onesUpTo (bitFn (bitmapBits outs)) (64 * (wsOf outs).length) := by
    rw [ones_total]; exact List.length_pos_iff.mpr hne
  -- the terminator of node n-1
  obtain ⟨o', ho'⟩ : ∃ o', outs[n - 1]? = some o' := ⟨_, List.getElem?_eq_getElem (by omega)⟩
  obtain ⟨_, s2, s3⟩ := segment outs (n - 1) o' ho'
  have hst : start outs n = start outs (n - 1) + o'.labels.length + 1 := by
    have := start_succ outs (n - 1) o' ho'
    rwa [show n - 1 + 1 = n by omega] at this
  have hQ : start outs n - 1 = start outs (n - 1) + o'.labels.length := by omega
  have hQlen : start outs n - 1 < 64 * (wsOf outs).length := by
    have := start_le outs n (by omega); have := ws_cover outs; omega
  -- bit 0 is a zero: the root has a label
  obtain ⟨o0, ho0, hlab0⟩ := wf.root (by omega)
  have hB0 : bitFn (bitmapBits outs) 0 = false := by
    have := (segment outs 0 o0 ho0).1 0 (List.length_pos_iff.mpr hlab0)
    simpa [start, degs] using this
  obtain ⟨s, hs, hsB, hsi⟩ := selectsBL_get (bitFn (bitmapBits outs)) (wsOf outs) hp
    (fun q hq => bitFn_beyond _ _ (by have := ws_cover outs; omega)) hB0 (n - 1) (by rw [ones_total]; omega)
  rw [hQ]
  exact selectIthOne_spec (bitFn (bitmapBits outs)) (wsOf outs) hp hlt hpos _ _ (n - 1) s s2
    (s3 _ (Nat.le_refl _)) (by omega) hs hsB (by omega)

theorem lab_ofOuts (chars : ValidChars) (outs : List NodeOut) (wf : WF chars outs) (h0 : 0 < chars.size)
    (n : Nat) (o : NodeOut) (ho : outs[n]? = some o) (k : Nat) (hk : k < o.labels.length) :
    (Trie.ofOuts chars outs).labels.get (degs (outs.take n) + k) = some (chars.code o.labels[k]) := by
  have hget := labelBytes_get outs n o ho k hk
  have hidx : degs (outs.take n) + k < ((labelBytes outs).map chars.code).length := by
    rw [List.length_map]
    rcases Nat.lt_or_ge (degs (outs.take n) + k) (labelBytes outs).length with h | h
    · exact h
    · rw [List.getElem?_eq_none h, List.getElem?_eq_getElem hk] at hget; simp at hget
  have hall : ∀ v ∈ (labelBytes outs).map chars.code, v < 2 ^ len64 chars.size := by
    intro v hv
    obtain ⟨l, hl, rfl⟩ := List.mem_map.mp hv
    simp only [labelBytes, List.mem_flatMap] at hl
    obtain ⟨o1, ho1, hl1⟩ := hl
    have := code_lt chars l (wf.labels o1 ho1 l hl1)
    exact lt_two_pow_len64 (by unfold ValidChars.size; omega)
  simp only [Trie.ofOuts]
  rw [BitList.ofList_get _ _ (len64_pos h0) hall _ hidx]
  congr 1
  rw [List.getElem_map]
  congr 1
  have : (labelBytes outs)[degs (outs.take n) + k]? = some o.labels[k] := by
    rw [hget, List.getElem?_eq_getElem hk]
  rw [List.getElem?_eq_getElem (by simpa using hidx)] at this
  exact Option.some.inj this

/-! ### the label scan and the walk -/

theorem idxOf_first : ∀ (l : List Nat) (c k : Nat) (hk : k < l.length), l[k] = c →
    (∀ j, j < k → l[j]? ≠ some c) → l.idxOf c = k
  | [], _, _, hk, _, _ => by simp at hk
  | a :: l, c, 0, _, h0, _ => by simp at h0; simp [List.idxOf_cons, h0]
  | a :: l, c, k + 1, hk, hkc, hb => by
    have ha : a ≠ c := by
      intro e; exact hb 0 (by omega) (by simp [e])
    have hb' : (a == c) = false := by simp [ha]
    rw [List.idxOf_cons, hb', cond_false]
    congr 1
    apply idxOf_first l c k (by simpa using hk) (by simpa using hkc)
    intro j hj
    have := hb (j + 1) (by omega)
    simpa using this

theorem not_mem_of_all_ne (l : List Nat) (c : Nat) (h : ∀ j, j < l.length → l[j]? ≠ some c) : c ∉ l := by
  intro hm
  obtain ⟨j, hj, rfl⟩ := List.getElem_of_mem hm
  exact h j hj (List.getElem?_eq_getElem hj)

theorem scan_spec (chars : ValidChars) (outs : List NodeOut) (wf : WF chars outs) (h0 : 0 < chars.size)
    (h256 : chars.size ≤ 256) (n : Nat) (o : NodeOut) (ho : outs[n]? = some o) (c : Nat)
    (hc : chars.isValid c = true) :
    ∀ (d k fuel : Nat), d = o.labels.length - k → k ≤ o.labels.length →
      (∀ j, j < k → o.labels[j]? ≠ some c) → d + 1 ≤ fuel →
      scanLabels (Trie.ofOuts chars outs) fuel n (start outs n + k) (chars.code c) =
        some (if c ∈ o.labels then some (start outs n + o.labels.idxOf c) else none) := by
  have hn : n < outs.length := by
    rcases Nat.lt_or_ge n outs.length with h | h
    · exact h
    · rw [List.getElem?_eq_none h] at ho; simp at ho
  obtain ⟨s1, s2, _⟩ := segment outs n o ho
  have hterm : start outs n + o.labels.length < (bitmapBits outs).length := by
    have := start_le outs (n + 1) (by omega)
    rw [start_succ outs n o ho] at this; omega
  intro d
  induction d with
  | zero =>
    intro k fuel hd hk hb hf
    have hk' : k = o.labels.length := by omega
    subst hk'
    cases fuel with
    | zero => omega
    | succ fuel =>
      unfold scanLabels
      rw [getBit_bitmap chars outs _ hterm, s2]
      have : c ∉ o.labels := not_mem_of_all_ne _ _ hb
      simp [this]
  | succ d ih =>
    intro k fuel hd hk hb hf
    have hk' : k < o.labels.length := by omega
    cases fuel with
    | zero => omega
    | succ fuel =>
      unfold scanLabels
      rw [getBit_bitmap chars outs _ (by omega), s1 k hk']
      simp only [Option.bind_eq_bind, Option.bind_some, Bool.false_eq_true, ↓reduceIte]
      have hidx : start outs n + k - n = degs (outs.take n) + k := by unfold start; omega
      rw [hidx, lab_ofOuts chars outs wf h0 n o ho k hk']
      simp only [Option.bind_some]
      have hlv : chars.isValid o.labels[k] = true :=
        wf.labels o (List.mem_of_getElem? ho) _ (List.getElem_mem hk')
      have hlt : chars.code o.labels[k] < 256 := by
        have := code_lt chars _ hlv; unfold ValidChars.size at h256; omega
      rw [Nat.mod_eq_of_lt hlt]
      by_cases heq : chars.code o.labels[k] = chars.code c
      · rw [if_pos heq]
        have hlc : o.labels[k] = c := code_inj chars _ _ hlv hc heq
        have hidx := idxOf_first o.labels c k hk' hlc hb
        have hm : c ∈ o.labels := by rw [← hlc]; exact List.getElem_mem hk'
        simp [hm, hidx]
      · rw [if_neg heq]
        have := ih (k + 1) fuel (by omega) (by omega) (by
          intro j hj
          by_cases e : j = k
          · subst e
            rw [List.getElem?_eq_getElem hk']
            intro h; apply heq; rw [Option.some.inj h]
          · exact hb j (by omega)) (by omega)
        rw [show start outs n + (k + 1) = start outs n + k + 1 by omega] at this
        exact this

theorem degs_take_succ_le (outs : List NodeOut) (n : Nat) (o : NodeOut) (ho : outs[n]? = some o) :
    degs (outs.take n) + o.labels.length ≤ degs outs := by
  have h1 : degs (outs.take (n + 1)) = degs (outs.take n) + o.labels.length := by
    rw [List.take_succ, ho]; simp [degs_append, degs]
  have h2 : degs outs = degs (outs.take (n + 1)) + degs (outs.drop (n + 1)) := by
    rw [← degs_append, List.take_append_drop]
  omega

/-- **The packed trie walks like the flat BFS list.** -/
theorem walk_eq_flat (chars : ValidChars) (outs : List NodeOut) (wf : WF chars outs) (h0 : 0 < chars.size)
    (h256 : chars.size ≤ 256) : ∀ (w : Str) (n : Nat), n < outs.length →
      (Trie.ofOuts chars outs).walk w n (start outs n) = some (walkFlat outs w n) := by
  intro w
  induction w with
  | nil =>
    intro n hn
    have ho : outs[n]? = some outs[n] := List.getElem?_eq_getElem hn
    simp only [Trie.walk, walkFlat, ho]
    exact getBit_leaves chars outs wf n _ ho
  | cons c w ih =>
    intro n hn
    have ho : outs[n]? = some outs[n] := List.getElem?_eq_getElem hn
    generalize outs[n] = o at ho
    simp only [Trie.walk, walkFlat, ho]
    rw [getBit_leaves chars outs wf n o ho]
    simp only [Option.bind_eq_bind, Option.bind_some]
    by_cases hleaf : o.leaf = true
    · simp [hleaf]
    · have hleaf' : o.leaf = false := by simpa using hleaf
      simp only [hleaf', Bool.false_eq_true, ↓reduceIte, Bool.false_or,
        show (Trie.ofOuts chars outs).chars = chars from rfl]
      by_cases hv : chars.isValid c = true
      · simp only [hv, Bool.not_true, Bool.false_eq_true, ↓reduceIte]
        have hfuel : o.labels.length - 0 + 1 ≤ (Trie.ofOuts chars outs).labelBitmap.size * 64 + 1 := by
          have h1 := start_le outs (n + 1) (by omega)
          rw [start_succ outs n o ho] at h1
          have h2 := ws_cover outs
          have : (Trie.ofOuts chars outs).labelBitmap.size = (wsOf outs).length := by
            simp [Trie.ofOuts, wsOf]
          rw [this]; omega
        have hscan := scan_spec chars outs wf h0 h256 n o ho c hv (o.labels.length - 0) 0 _ rfl (Nat.zero_le _)
          (by intro j hj; omega) hfuel
        simp only [Nat.add_zero] at hscan
        rw [hscan]
        simp only [Option.bind_some]
        by_cases hm : c ∈ o.labels
        · simp only [hm, ↓reduceIte]
          have hk : o.labels.idxOf c < o.labels.length := List.idxOf_lt_length_iff.mpr hm
          obtain ⟨_, _, s3⟩ := segment outs n o ho
          have hterm : start outs n + o.labels.length < (bitmapBits outs).length := by
            have := start_le outs (n + 1) (by omega)
            rw [start_succ outs n o ho] at this; omega
          have hne : outs ≠ [] := by intro h; rw [h] at hn; simp at hn
          rw [cz_ofOuts chars outs hne _ (by omega)]
          simp only [Option.bind_some]
          have hones := s3 (o.labels.idxOf c + 1) (by omega)
          rw [show start outs n + (o.labels.idxOf c + 1) = start outs n + o.labels.idxOf c + 1 by omega] at hones
          rw [hones]
          have hchild : start outs n + o.labels.idxOf c + 1 - n = 1 + degs (outs.take n) + o.labels.idxOf c := by
            unfold start; omega
          rw [hchild]
          have hchild_lt : 1 + degs (outs.take n) + o.labels.idxOf c < outs.length := by
            have := degs_take_succ_le outs n o ho
            have := wf.len; omega
          rw [sel_ofOuts chars outs wf _ (by omega) hchild_lt]
          simp only [Option.bind_some]
          have hst : 1 ≤ start outs (1 + degs (outs.take n) + o.labels.idxOf c) := by unfold start; omega
          rw [show start outs (1 + degs (outs.take n) + o.labels.idxOf c) - 1 + 1 =
            start outs (1 + degs (outs.take n) + o.labels.idxOf c) by omega]
          exact ih _ hchild_lt
        · simp [hm]
      · have hv' : chars.isValid c = false := by simpa using hv
        have hm : c ∉ o.labels := by
          intro hm
          rw [wf.labels o (List.mem_of_getElem? ho) c hm] at hv'
          exact absurd hv' (by simp)
        simp [hv', hm]

end DaeVerif.C11
