import DaeVerif.C11.Model
import DaeVerif.Common.Proto
/-! Line-protocol driver for C11.  Op families (bl/blx, trie/trieall, ac, alpha, cc, new/add/build/q/qall) (see the harness files
`harness/overlay/{common/bitlist,pkg/trie,component/routing/domain_matcher}/c11_test.go`):

* `bl <unit> <op>…`                         CompactBitList script (stateless line)
* `trie <d|c> <keys> <words>`                NewTrie + HasPrefix + white-box dump (stateless line)
* `new/add/build/q`                          AhocorasickSlimtrie session (stateful)
-/
open DaeVerif DaeVerif.C11 DaeVerif.Proto

def hexStr? (tok : String) : Option Str := if tok = "-" then some [] else hexToBytes? tok

def natToHex (n : Nat) : String :=
  if n = 0 then "0" else
  let rec go (fuel n : Nat) (acc : List Char) : List Char :=
    match fuel with
    | 0 => acc
    | f + 1 => if n = 0 then acc else go f (n / 16) (nibble (n % 16) :: acc)
  String.ofList (go (Nat.log2 n / 4 + 2) n [])

def wordsHex (ws : List Nat) : String := ".".intercalate (ws.map natToHex)

def fnv64 (s : String) : Nat :=
  s.toList.foldl (fun h c => ((h ^^^ (c.toNat % 256)) * 1099511628211) % 18446744073709551616) 14695981039346656037

def blDump (b : BitList) : String := s!"{b.unit}/{b.unitNum}/{wordsHex b.buf.toList}"

def trieDump (t : Trie) : String :=
  s!"L={wordsHex t.leaves.toList} B={wordsHex t.labelBitmap.toList} lab={blDump t.labels} rk={blDump t.ranksBL} sl={blDump t.selectsBL}"

def dumpOut (d : String) : String := if d.length ≤ 400 then "dump:" ++ d else "fnv:" ++ natToHex (fnv64 d)

/-! ### bitlist -/

def blStep (st : BitList × List String) (op : String) : BitList × List String :=
  let (b, out) := st
  match op.toList with
  | 's' :: rest =>
    match (String.ofList rest).splitOn ":" with
    | [i, v] =>
      match i.toNat?, hexToNat? v with
      | some i, some v =>
        match b.set? i v with
        | some b' => (b', out)
        | none => (b, "panic" :: out)
      | _, _ => (b, "bad" :: out)
    | _ => (b, "bad" :: out)
  | 'a' :: ':' :: rest =>
    match hexToNat? (String.ofList rest) with
    | some v =>
      match b.append? v with
      | some b' => (b', out)
      | none => (b, "panic" :: out)
    | none => (b, "bad" :: out)
  | 'g' :: rest =>
    match (String.ofList rest).toNat? with
    | some i =>
      match b.get i with
      | some v => (b, natToHex v :: out)
      | none => (b, "panic" :: out)
    | none => (b, "bad" :: out)
  | ['t'] => (b, out)
  | _ => (b, "bad" :: out)

def handleBl (toks : List String) : String :=
  match toks with
  | u :: ops =>
    match u.toNat? with
    | some unit =>
      let (b, out) := ops.foldl blStep (BitList.new unit, [])
      s!"g={",".intercalate out.reverse} | st={blDump b}"
    | none => "bad-op"
  | _ => "bad-op"

/-! ### trie -/

def parseList (tok : String) : Option (List Str) :=
  if tok = "_" then some [] else (tok.splitOn ",").mapM hexStr?

def handleTrie (toks : List String) : String :=
  match toks with
  | [alpha, keys, ws] =>
    match parseList keys, parseList ws with
    | some keys, some ws =>
      let chars := if alpha = "c" then cidrChars else domainChars
      match Trie.build chars keys with
      | .charOutOfRange c => s!"err:char:{c}"
      | .panic => "panic"
      | .ok t =>
        let sk := sortDedup keys
        let rs := ws.map fun w =>
          match t.hasPrefix w with
          | none => "P"
          | some b => if b == hasPrefixSpec sk w then boolStr b else (boolStr b ++ "!spec")
        s!"r={"".intercalate rs} | {dumpOut (trieDump t)}"
    | _, _ => "bad-op"
  | _ => "bad-op"

/-- `trieall <d|c> <keys>`: build and probe with every key, every key minus its last byte and every key
plus one byte; answer = number of probes, number of hits, FNV-1a of the answer string. -/
def handleTrieAll (toks : List String) : String :=
  match toks with
  | [alpha, keys] =>
    match parseList keys with
    | some keys =>
      let chars := if alpha = "c" then cidrChars else domainChars
      match Trie.build chars keys with
      | .charOutOfRange c => s!"err:char:{c}"
      | .panic => "panic"
      | .ok t =>
        let extra := chars.alphabet.headD 48
        let one := fun (w : Str) => match t.hasPrefix w with
          | none => 'P' | some true => '1' | some false => '0'
        let cs := keys.flatMap fun k => [one k, one k.dropLast, one (k ++ [extra])]
        let hits := cs.countP (· == '1')
        s!"n={cs.length} hits={hits} h={natToHex (fnv64 (String.ofList cs))}"
    | none => "bad-op"
  | _ => "bad-op"

/-- `ac <patterns> <inputs>`: the Aho-Corasick library contract -/
def handleAc (toks : List String) : String :=
  match toks with
  | [pats, ins] =>
    match parseList pats, parseList ins with
    | some pats, some ins =>
      if !(pats.all fun p => p.all acValid) then "err"
      else "r=" ++ "".intercalate (ins.map fun i =>
        -- the automaton (what the matcher model executes) and the substring contract must agree
        let a := acAuto pats i
        if a == acContains pats i then boolStr a else boolStr a ++ "!spec")
    | _, _ => "bad-op"
  | _ => "bad-op"

def validSetHex (f : Nat → Bool) : String := bytesToHex ((List.range 256).filter f)

def handleAlpha (toks : List String) : String :=
  match toks with
  | ["d"] => s!"valid={validSetHex domainChars.isValid} | n={domainChars.size} order={bytesToHex domainChars.alphabet}"
  | ["c"] => s!"valid={validSetHex cidrChars.isValid} | n={cidrChars.size} order={bytesToHex cidrChars.alphabet}"
  | ["ac"] => s!"valid={validSetHex acValid} | n={acChars.length} order={bytesToHex acChars}"
  | _ => "bad-op"

/-! ### matcher session -/

structure Sess where
  bitLength : Nat := 0
  log : List AddCall := []      -- reversed; a negative Go index is recorded as `bitLength` (addSetInt_neg)
  cur : Built := ⟨#[]⟩          -- what queries see (`Built.unbuilt` before the first successful Build)
  builds : Nat := 0             -- successful Builds so far
  lateErr : Bool := false       -- an AddSet arrived after a successful Build (the tables are gone: error)

def parseKind (s : String) : Kind :=
  match s with
  | "full" => .full | "suffix" => .suffix | "keyword" => .keyword | "regex" => .regex | _ => .unknown

def parsePat (kind : Kind) (tok : String) : Option Pat :=
  match kind with
  | .regex =>
    match tok.splitOn ":" with
    | [h, ok, id] => do
      let s ← hexStr? h
      let id ← id.toNat?
      pure ⟨s, ok = "1", id⟩
    | _ => none
  | _ => do let s ← hexStr? tok; pure ⟨s, true, 0⟩

def errStr : MErr → String
  | .tooMany => "err:toomany" | .badRegex => "err:regex" | .unknownKind => "err:kind" | .charOutOfRange => "err:char"

def idxStr (l : List Nat) : String := if l.isEmpty then "-" else ",".intercalate (l.map toString)

def wordsStr (ws : List Nat) : String := if ws.isEmpty then "-" else ".".intercalate (ws.map natToHex)

def decodeWords (ws : List Nat) (n : Nat) : List Nat :=
  (List.range n).filter fun i => (ws.getD (i / 32) 0).testBit (i % 32)

def parseHits (hits : String) : Option (List Nat) :=
  if hits = "-" then some [] else (hits.splitOn ",").mapM String.toNat?

def handleSess (s : Sess) (line : String) : Sess × String :=
  match words line with
  | "bl" :: rest => (s, handleBl rest)
  | "blx" :: rest => (s, handleBl rest)      -- unit size 0 / out-of-range values: diagnostic class
  | "trie" :: rest => (s, handleTrie rest)
  | "trieall" :: rest => (s, handleTrieAll rest)
  | "ac" :: rest => (s, handleAc rest)
  | "alpha" :: rest => (s, handleAlpha rest)
  | "cc" :: _ => (s, "same")       -- concurrent replay must equal the sequential answers
  | ["new", n] =>
    match n.toNat? with
    | some n => ({ bitLength := n, cur := Built.unbuilt n }, "ok")
    | none => (s, "bad-op")
  | "add" :: idx :: kind :: toks =>
    let k := parseKind kind
    match idx.toInt?, toks.mapM (parsePat k) with
    | some i, some pats =>
      if s.builds > 0 then ({ s with lateErr := true }, "ok")
      else
        let i' := if i < 0 then s.bitLength else i.toNat
        ({ s with log := ⟨i', k, pats⟩ :: s.log }, "ok")
    | _, _ => (s, "bad-op")
  | ["build"] =>
    if s.lateErr then (s, "err:toomany")
    else if s.builds > 0 then ({ s with cur := s.cur.rebuild, builds := s.builds + 1 }, "ok")
    else
      match (Matcher.replay s.bitLength s.log.reverse).build with
      | .ok b => ({ s with cur := b, builds := 1 }, "ok")
      | .error e => (s, errStr e)
  | ["q", name, hits] =>
    match hexStr? name, parseHits hits with
    | some name, some hits =>
      let b := s.cur
      match b.matchBitmap name hits, b.matchIndices name hits with
      | some ws, some louds =>
        let spec := b.matchIndicesSpec name hits
        let log := s.log.reverse
        -- docMatches is trivially false for an index no AddSet call addressed: evaluate it on the others
        let used := log.map (·.idx)
        let doc := (List.range s.bitLength).filter fun i => used.contains i && docMatches log i name hits
        let extra := (if decodeWords ws s.bitLength == louds then "" else s!" idx={idxStr louds}") ++
          (if spec == louds then "" else s!" spec={idxStr spec}") ++
          (if s.builds != 1 || !plainName name || doc == louds then "" else s!" doc={idxStr doc}")
        (s, s!"w={wordsStr ws}{extra}")
      | _, _ => (s, "crash")
    | _, _ => (s, "bad-op")
  | ["qall"] =>
    -- every pattern text of the session as a query (no regex sets in such sessions)
    let names := s.log.reverse.flatMap fun a => a.pats.map (·.s)
    let outs := names.map fun nm =>
      match s.cur.matchBitmap nm [] with
      | some ws => wordsStr ws
      | none => "crash"
    let hit := outs.countP fun o => o.any fun c => c != '0' && c != '.' && c != '-'
    (s, s!"n={outs.length} hit={hit} h={natToHex (fnv64 (" ".intercalate outs))}")
  | _ => (s, "bad-op")

def main : IO Unit := lineLoopS ({} : Sess) handleSess
