import DaeVerif.C11.Model
import DaeVerif.C11.Loop
import DaeVerif.C11.AnyBuf
import DaeVerif.Common.Proto
/-! Line-protocol driver for C11.  Op families (bl/blx, trie/trieall, ac, alpha, cc, new/add/build/q/qall) (see the harness files
`harness/overlay/{common/bitlist,pkg/trie,component/routing/domain_matcher}/c11_test.go`):

* `bl <unit> <op>…`                         CompactBitList script (stateless line)
* `trie <d|c> <keys> <words>`                NewTrie + HasPrefix + white-box dump (stateless line)
* `new/add/build/q`                          AhocorasickSlimtrie session (stateful)
-/
open DaeVerif DaeVerif.C11 DaeVerif.Proto

def hexStr? (tok : String) : Option Str := if tok = "-" then some [] else hexToBytes? tok

def natToHex (n : Nat) : String :=
  if n = 0 then "0" else
  let rec go (fuel n : Nat) (acc : List Char) : List Char :=
    match fuel with
    | 0 => acc
    | f + 1 => if n = 0 then acc else go f (n / 16) (nibble (n % 16) :: acc)
  String.ofList (go (Nat.log2 n / 4 + 2) n [])

def wordsHex (ws : List Nat) : String := ".".intercalate (ws.map natToHex)

def fnv64 (s : String) : Nat :=
  s.toList.foldl (fun h c => ((h ^^^ (c.toNat % 256)) * 1099511628211) % 18446744073709551616) 14695981039346656037

def blDump (b : BitList) : String := s!"{b.unit}/{b.unitNum}/{wordsHex b.buf.toList}"

def trieDump (t : Trie) : String :=
  s!"L={wordsHex t.leaves.toList} B={wordsHex t.labelBitmap.toList} lab={blDump t.labels} rk={blDump t.ranksBL} sl={blDump t.selectsBL}"

def dumpOut (d : String) : String := if d.length ≤ 400 then "dump:" ++ d else "fnv:" ++ natToHex (fnv64 d)

/-! ### bitlist -/

def blStep (st : BitList × List String) (op : String) : BitList × List String :=
  let (b, out) := st
  match op.toList with
  | 's' :: rest =>
    match (String.ofList rest).splitOn ":" with
    | [i, v] =>
      match i.toNat?, hexToNat? v with
      | some i, some v =>
        match b.setGo? i v with
        | some b' => (b', out)
        | none => (b, "panic" :: out)
      | _, _ => (b, "bad" :: out)
    | _ => (b, "bad" :: out)
  | 'a' :: ':' :: rest =>
    match hexToNat? (String.ofList rest) with
    | some v =>
      match b.appendGo? v with
      | some b' => (b', out)
      | none => (b, "panic" :: out)
    | none => (b, "bad" :: out)
  | 'g' :: rest =>
    match (String.ofList rest).toNat? with
    | some i =>
      match b.get i with
      | some v => (b, natToHex v :: out)
      | none => (b, "panic" :: out)
    | none => (b, "bad" :: out)
  | ['t'] => (b, out)
  | _ => (b, "bad" :: out)

def handleBl (toks : List String) : String :=
  match toks with
  | u :: ops =>
    match u.toNat? with
    | some unit =>
      let (b, out) := ops.foldl blStep (BitList.new unit, [])
      s!"g={",".intercalate out.reverse} | st={blDump b}"
    | none => "bad-op"
  | _ => "bad-op"

/-! ### anybuffer -/

def abStep (st : ABuf × Nat) (op : String) : ABuf × Nat :=
  let (b, p) := st
  match op.toList with
  | 'e' :: rest =>
    match (String.ofList rest).toNat? with
    | some n => (b.extend n, p)
    | none => (b, p + 1000)
  | 'w' :: rest =>
    match (String.ofList rest).splitOn ":" with
    | [i, v] =>
      match i.toNat?, hexToNat? v with
      | some i, some v =>
        match b.write i v with
        | some b' => (b', p)
        | none => (b, p + 1)
      | _, _ => (b, p + 1000)
    | _ => (b, p + 1000)
  | 't' :: rest =>
    match (String.ofList rest).toNat? with
    | some n =>
      match b.truncate n with
      | some b' => (b', p)
      | none => (b, p + 1)
    | none => (b, p + 1000)
  | ['f'] => (ABuf.ofArray b.slice.toArray, p)
  | _ => (b, p + 1000)

def handleAb (toks : List String) : String :=
  match toks with
  | sz :: ops =>
    match sz.toNat? with
    | some size =>
      let (b, p) := ops.foldl abStep (ABuf.new size, 0)
      let body := wordsHex b.slice
      let body := if b.slice.length > 64 then "fnv:" ++ natToHex (fnv64 body) else body
      s!"p={p} len={b.len} s={body} | cap={b.cap}"
    | none => "bad-op"
  | _ => "bad-op"

/-! ### trie -/

def parseList (tok : String) : Option (List Str) :=
  if tok = "_" then some [] else (tok.splitOn ",").mapM hexStr?

def handleTrie (toks : List String) : String :=
  match toks with
  | [alpha, keys, ws] =>
    match parseList keys, parseList ws with
    | some keys, some ws =>
      let chars := if alpha = "c" then cidrChars else domainChars
      match Trie.build chars keys with
      | .charOutOfRange c => s!"err:char:{c}"
      | .panic => "panic"
      | .ok t =>
        let sk := sortDedup keys
        let rs := ws.map fun w =>
          match t.hasPrefix w with
          | none => "P"
          | some b => if b == hasPrefixSpec sk w then boolStr b else (boolStr b ++ "!spec")
        s!"r={"".intercalate rs} | {dumpOut (trieDump t)}"
    | _, _ => "bad-op"
  | _ => "bad-op"

/-- `trieall <d|c> <keys>`: build and probe with every key, every key minus its last byte and every key
plus one byte; answer = number of probes, number of hits, FNV-1a of the answer string. -/
def handleTrieAll (toks : List String) : String :=
  match toks with
  | [alpha, keys] =>
    match parseList keys with
    | some keys =>
      let chars := if alpha = "c" then cidrChars else domainChars
      match Trie.build chars keys with
      | .charOutOfRange c => s!"err:char:{c}"
      | .panic => "panic"
      | .ok t =>
        let extra := chars.alphabet.headD 48
        let one := fun (w : Str) => match t.hasPrefix w with
          | none => 'P' | some true => '1' | some false => '0'
        let cs := keys.flatMap fun k => [one k, one k.dropLast, one (k ++ [extra])]
        let hits := cs.countP (· == '1')
        s!"n={cs.length} hits={hits} h={natToHex (fnv64 (String.ofList cs))}"
    | none => "bad-op"
  | _ => "bad-op"

/-- `ac <patterns> <inputs>`: the Aho-Corasick library contract -/
def handleAc (toks : List String) : String :=
  match toks with
  | [pats, ins] =>
    match parseList pats, parseList ins with
    | some pats, some ins =>
      if !(pats.all fun p => p.all acValid) then "err"
      else "r=" ++ "".intercalate (ins.map fun i =>
        -- the automaton (what the matcher model executes) and the substring contract must agree
        let a := acAuto pats i
        if a == acContains pats i then boolStr a else boolStr a ++ "!spec")
    | _, _ => "bad-op"
  | _ => "bad-op"

def validSetHex (f : Nat → Bool) : String := bytesToHex ((List.range 256).filter f)

def handleAlpha (toks : List String) : String :=
  match toks with
  | ["d"] => s!"valid={validSetHex domainChars.isValid} | n={domainChars.size} order={bytesToHex domainChars.alphabet}"
  | ["c"] => s!"valid={validSetHex cidrChars.isValid} | n={cidrChars.size} order={bytesToHex cidrChars.alphabet}"
  | ["ac"] => s!"valid={validSetHex acValid} | n={acChars.length} order={bytesToHex acChars}"
  | _ => "bad-op"

/-! ### matcher session -/

structure Sess where
  bitLength : Nat := 0
  log : List AddCall := []      -- reversed; a negative Go index is recorded as `bitLength` (addSetInt_neg)
  cur : Built := ⟨#[]⟩          -- what queries see (`Built.unbuilt` before the first successful Build)
  ix : Idx := {}                -- the index lists `Build` left behind (order: ascending, or as reported by `ix`)
  lowLog : List AddCall := []   -- the calls in order, patterns lower-cased (fixed at the first successful Build)
  used : List Nat := []         -- the indices < bitLength some call addressed, ascending
  builds : Nat := 0             -- successful Builds so far
  lateErr : Bool := false       -- an AddSet arrived after a successful Build (the tables are gone: error)

def parseKind (s : String) : Kind :=
  match s with
  | "full" => .full | "suffix" => .suffix | "keyword" => .keyword | "regex" => .regex | _ => .unknown

def parsePat (kind : Kind) (tok : String) : Option Pat :=
  match kind with
  | .regex =>
    match tok.splitOn ":" with
    | [h, ok, id] => do
      let s ← hexStr? h
      let id ← id.toNat?
      pure ⟨s, ok = "1", id⟩
    | _ => none
  | _ => do let s ← hexStr? tok; pure ⟨s, true, 0⟩

def errStr : MErr → String
  | .tooMany => "err:toomany" | .badRegex => "err:regex" | .unknownKind => "err:kind" | .charOutOfRange => "err:char"

def idxStr (l : List Nat) : String := if l.isEmpty then "-" else ",".intercalate (l.map toString)

def wordsStr (ws : List Nat) : String := if ws.isEmpty then "-" else ".".intercalate (ws.map natToHex)

def decodeWords (ws : List Nat) (n : Nat) : List Nat :=
  (List.range n).filter fun i => (ws.getD (i / 32) 0).testBit (i % 32)

def parseHits (hits : String) : Option (List Nat) :=
  if hits = "-" then some [] else (hits.splitOn ",").mapM String.toNat?

def parseIdxList (tok : String) : Option (List Nat) :=
  if tok = "-" then some [] else (tok.splitOn ",").mapM String.toNat?

/-- the cross-checks of one `q` answer (`louds` = the set bits of the loop's words): the trie contract
and, for a name of the property's alphabet after exactly one Build, the documented meaning -/
def crossCheck (s : Sess) (name : Str) (hits : List Nat) (ws : List Nat) : String :=
  let b := s.cur
  let louds := decodeWords ws s.bitLength
  let dom := normName name
  let spec := s.used.filter fun i =>
    match b.sets[i]? with
    | none => false
    | some bs => bs.matchesSpec dom hits
  let e1 := if louds.all s.used.contains && spec == louds then "" else s!" spec={idxStr spec}"
  let e2 :=
    if s.builds != 1 || !plainName name then "" else
    let dh := docHitIdx s.lowLog dom hits
    let doc := s.used.filter dh.contains
    if doc == louds then "" else s!" doc={idxStr doc}"
  -- small tables: also the per-set definition the headline theorems are stated about
  let e3 :=
    if s.bitLength > 96 then "" else
    match b.matchBitmap name hits with
    | some ws' => if ws' == ws then "" else s!" idx={idxStr (decodeWords ws' s.bitLength)}"
    | none => " idx=crash"
  e3 ++ e1 ++ e2

def handleSess (s : Sess) (line : String) : Sess × String :=
  match words line with
  | "bl" :: rest => (s, handleBl rest)
  | "blx" :: rest => (s, handleBl rest)      -- unit size 0 / out-of-range values: diagnostic class
  | "ab" :: rest => (s, handleAb rest)
  | "trie" :: rest => (s, handleTrie rest)
  | "trieall" :: rest => (s, handleTrieAll rest)
  | "ac" :: rest => (s, handleAc rest)
  | "alpha" :: rest => (s, handleAlpha rest)
  | "cc" :: _ => (s, "same")       -- concurrent replay must equal the sequential answers
  | ["new", n] =>
    match n.toNat? with
    | some n => ({ bitLength := n, cur := Built.unbuilt n }, "ok")
    | none => (s, "bad-op")
  | "add" :: idx :: kind :: toks =>
    let k := parseKind kind
    match idx.toInt?, toks.mapM (parsePat k) with
    | some i, some pats =>
      if s.builds > 0 then ({ s with lateErr := true }, "ok")
      else
        let i' := if i < 0 then s.bitLength else i.toNat
        ({ s with log := ⟨i', k, pats⟩ :: s.log }, "ok")
    | _, _ => (s, "bad-op")
  | ["build"] =>
    if s.lateErr then (s, "err:toomany")
    else if s.builds > 0 then
      let b := s.cur.rebuild
      ({ s with cur := b, ix := Idx.ofBuilt b, builds := s.builds + 1 }, "ok")
    else
      let log := s.log.reverse
      match (Matcher.replay s.bitLength log).build with
      | .ok b =>
        let usedAll := log.map (·.idx)
        ({ s with cur := b, ix := Idx.ofBuilt b, lowLog := log.map AddCall.lowered,
                  used := (List.range s.bitLength).filter usedAll.contains, builds := 1 }, "ok")
      | .error e => (s, errStr e)
  | ["ix", vt, va, vr] =>
    -- the order in which the real Build's workers committed: any order of the right sets is a
    -- schedule of the model (`Reach`); the following queries run the loops in that order
    match parseIdxList vt, parseIdxList va, parseIdxList vr with
    | some vt, some va, some vr =>
      let ix : Idx := ⟨vt, va, vr⟩
      if ix.permOf (Idx.ofBuilt s.cur) then ({ s with ix := ix }, "ok") else (s, "bad-schedule")
    | _, _, _ => (s, "bad-op")
  | ["q", name, hits] =>
    match hexStr? name, parseHits hits with
    | some name, some hits =>
      match s.cur.matchLoop s.ix name hits with
      | some ws => (s, s!"w={wordsStr ws}{crossCheck s name hits ws}")
      | none => (s, "crash")
    | _, _ => (s, "bad-op")
  | ["qall"] =>
    -- every pattern text of the session as a query (no regex sets in such sessions)
    let names := s.log.reverse.flatMap fun a => a.pats.map (·.s)
    let outs := names.map fun nm =>
      match s.cur.matchLoop s.ix nm [] with
      | some ws => wordsStr ws
      | none => "crash"
    let hit := outs.countP fun o => o.any fun c => c != '0' && c != '.' && c != '-'
    (s, s!"n={outs.length} hit={hit} h={natToHex (fnv64 (" ".intercalate outs))}")
  | _ => (s, "bad-op")

def main : IO Unit := lineLoopS ({} : Sess) handleSess
