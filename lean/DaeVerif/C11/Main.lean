import DaeVerif.C11.Model
import DaeVerif.Common.Proto
/-! Line-protocol driver for C11.  Three op families (see the harness files
`harness/overlay/{common/bitlist,pkg/trie,component/routing/domain_matcher}/c11_test.go`):

* `bl <unit> <op>…`                         CompactBitList script (stateless line)
* `trie <d|c> <keys> <words>`                NewTrie + HasPrefix + white-box dump (stateless line)
* `new/add/build/q`                          AhocorasickSlimtrie session (stateful)
-/
open DaeVerif DaeVerif.C11 DaeVerif.Proto

def hexStr? (tok : String) : Option Str := if tok = "-" then some [] else hexToBytes? tok

def natToHex (n : Nat) : String :=
  if n = 0 then "0" else
  let rec go (fuel n : Nat) (acc : List Char) : List Char :=
    match fuel with
    | 0 => acc
    | f + 1 => if n = 0 then acc else go f (n / 16) (nibble (n % 16) :: acc)
  String.ofList (go (Nat.log2 n / 4 + 2) n [])

def wordsHex (ws : List Nat) : String := ".".intercalate (ws.map natToHex)

def fnv64 (s : String) : Nat :=
  s.toList.foldl (fun h c => ((h ^^^ (c.toNat % 256)) * 1099511628211) % 18446744073709551616) 14695981039346656037

def blDump (b : BitList) : String := s!"{b.unit}/{b.unitNum}/{wordsHex b.buf.toList}"

def trieDump (t : Trie) : String :=
  s!"L={wordsHex t.leaves.toList} B={wordsHex t.labelBitmap.toList} lab={blDump t.labels} rk={blDump t.ranksBL} sl={blDump t.selectsBL}"

def dumpOut (d : String) : String := if d.length ≤ 400 then "dump:" ++ d else "fnv:" ++ natToHex (fnv64 d)

/-! ### bitlist -/

def blStep (st : BitList × List String) (op : String) : BitList × List String :=
  let (b, out) := st
  match op.toList with
  | 's' :: rest =>
    match (String.ofList rest).splitOn ":" with
    | [i, v] =>
      match i.toNat?, hexToNat? v with
      | some i, some v =>
        match b.set? i v with
        | some b' => (b', out)
        | none => (b, "panic" :: out)
      | _, _ => (b, "bad" :: out)
    | _ => (b, "bad" :: out)
  | 'a' :: ':' :: rest =>
    match hexToNat? (String.ofList rest) with
    | some v =>
      match b.append? v with
      | some b' => (b', out)
      | none => (b, "panic" :: out)
    | none => (b, "bad" :: out)
  | 'g' :: rest =>
    match (String.ofList rest).toNat? with
    | some i =>
      match b.get i with
      | some v => (b, natToHex v :: out)
      | none => (b, "panic" :: out)
    | none => (b, "bad" :: out)
  | ['t'] => (b, out)
  | _ => (b, "bad" :: out)

def handleBl (toks : List String) : String :=
  match toks with
  | u :: ops =>
    match u.toNat? with
    | some unit =>
      let (b, out) := ops.foldl blStep (BitList.new unit, [])
      s!"g={",".intercalate out.reverse} st={blDump b}"
    | none => "bad-op"
  | _ => "bad-op"

/-! ### trie -/

def parseList (tok : String) : Option (List Str) :=
  if tok = "_" then some [] else (tok.splitOn ",").mapM hexStr?

def handleTrie (toks : List String) : String :=
  match toks with
  | [alpha, keys, ws] =>
    match parseList keys, parseList ws with
    | some keys, some ws =>
      let chars := if alpha = "c" then cidrChars else domainChars
      match Trie.build chars keys with
      | .charOutOfRange c => s!"err:char:{c}"
      | .panic => "panic"
      | .ok t =>
        let sk := sortDedup keys
        let rs := ws.map fun w =>
          match t.hasPrefix w with
          | none => "P"
          | some b => if b == hasPrefixSpec sk w then boolStr b else (boolStr b ++ "!spec")
        s!"r={"".intercalate rs} {dumpOut (trieDump t)}"
    | _, _ => "bad-op"
  | _ => "bad-op"

/-! ### matcher session -/

structure Sess where
  bitLength : Nat := 0
  log : List AddCall := []      -- reversed
  built : Option (Except MErr Built) := none

def parseKind (s : String) : Kind :=
  match s with
  | "full" => .full | "suffix" => .suffix | "keyword" => .keyword | "regex" => .regex | _ => .unknown

def parsePat (kind : Kind) (tok : String) : Option Pat :=
  match kind with
  | .regex =>
    match tok.splitOn ":" with
    | [h, ok, id] => do
      let s ← hexStr? h
      let id ← id.toNat?
      pure ⟨s, ok = "1", id⟩
    | _ => none
  | _ => do let s ← hexStr? tok; pure ⟨s, true, 0⟩

def errStr : MErr → String
  | .tooMany => "err:toomany" | .badRegex => "err:regex" | .unknownKind => "err:kind" | .charOutOfRange => "err:char"

def idxStr (l : List Nat) : String := if l.isEmpty then "-" else ",".intercalate (l.map toString)

def handleSess (s : Sess) (line : String) : Sess × String :=
  match words line with
  | "bl" :: rest => (s, handleBl rest)
  | "trie" :: rest => (s, handleTrie rest)
  | ["new", n] =>
    match n.toNat? with
    | some n => ({ bitLength := n }, "ok")
    | none => (s, "bad-op")
  | "add" :: idx :: kind :: toks =>
    let k := parseKind kind
    match idx.toNat?, toks.mapM (parsePat k) with
    | some i, some pats => ({ s with log := ⟨i, k, pats⟩ :: s.log }, "ok")
    | _, _ => (s, "bad-op")
  | ["build"] =>
    let r := (Matcher.replay s.bitLength s.log.reverse).build
    ({ s with built := some r }, match r with | .ok _ => "ok" | .error e => errStr e)
  | ["q", name, hits] =>
    match s.built, hexStr? name, (if hits = "-" then some [] else (hits.splitOn ",").mapM String.toNat?) with
    | some (.ok b), some name, some hits =>
      match b.matchIndices name hits with
      | none => (s, "crash")
      | some louds =>
        let spec := b.matchIndicesSpec name hits
        let log := s.log.reverse
        -- docMatches is trivially false for an index no AddSet call addressed: evaluate it on the others
        let used := log.map (·.idx)
        let doc := (List.range s.bitLength).filter fun i => used.contains i && docMatches log i name hits
        let extra := (if spec == louds then "" else s!" spec={idxStr spec}") ++
          (if !plainName name || doc == louds then "" else s!" doc={idxStr doc}")
        (s, s!"m={idxStr louds}{extra}")
    | some (.error _), _, _ => (s, "nobuild")
    | _, _, _ => (s, "bad-op")
  | _ => (s, "bad-op")

def main : IO Unit := lineLoopS ({} : Sess) handleSess
