import DaeVerif.C11.DomainProofs
/-!
# C11 — the Aho-Corasick automaton finds exactly the non-empty dictionary words occurring in the text

Invariant of `Contains`: after reading `t` without returning, the state is the longest suffix of `t`
that is a node of the trie (a prefix of some dictionary word).
-/
namespace DaeVerif.C11
open List

/-! ### longest suffix with a property -/

structure IsLongest (q : Str → Bool) (t r : Str) : Prop where
  suf : r <:+ t
  holds : r ≠ [] → q r = true
  max : ∀ v, v <:+ t → v ≠ [] → q v = true → v <:+ r

theorem longestSuffix_spec (q : Str → Bool) : ∀ t, IsLongest q t (longestSuffix q t)
  | [] => ⟨List.suffix_refl _, fun h => absurd rfl h, by
      intro v hv hne _; exact absurd (List.suffix_nil.mp hv) hne⟩
  | c :: t => by
    unfold longestSuffix
    by_cases h : q (c :: t) = true
    · rw [if_pos h]
      exact ⟨List.suffix_refl _, fun _ => h, fun v hv _ _ => hv⟩
    · rw [if_neg h]
      have ih := longestSuffix_spec q t
      refine ⟨ih.suf.trans (List.suffix_cons c t), ih.holds, ?_⟩
      intro v hv hne hq
      rcases List.suffix_cons_iff.mp hv with rfl | hv'
      · exact absurd hq h
      · exact ih.max v hv' hne hq

theorem IsLongest.unique {q : Str → Bool} {t r₁ r₂ : Str} (h₁ : IsLongest q t r₁) (h₂ : IsLongest q t r₂) :
    r₁ = r₂ := by
  by_cases e1 : r₁ = []
  · by_cases e2 : r₂ = []
    · rw [e1, e2]
    · have := h₁.max r₂ h₂.suf e2 (h₂.holds e2)
      rw [e1] at this
      exact absurd (List.suffix_nil.mp this) e2
  · have a := h₂.max r₁ h₁.suf e1 (h₁.holds e1)
    by_cases e2 : r₂ = []
    · rw [e2] at a; exact absurd (List.suffix_nil.mp a) e1
    · have b := h₁.max r₂ h₂.suf e2 (h₂.holds e2)
      exact List.IsSuffix.eq_of_length_le a b.length_le

/-! ### nodes -/

theorem acIsNode_prefix_closed (dict : List Str) (u x : Str) (h : acIsNode dict (u ++ x) = true) :
    acIsNode dict u = true := by
  unfold acIsNode at h ⊢
  obtain ⟨w, hw, hp⟩ := List.any_eq_true.mp h
  rw [List.any_eq_true]
  refine ⟨w, hw, ?_⟩
  rw [isPrefixOf_iff_prefix] at hp ⊢
  exact (List.prefix_append u x).trans hp

theorem acIsNode_of_word (dict : List Str) (w : Str) (h : w ∈ dict) : acIsNode dict w = true := by
  unfold acIsNode
  rw [List.any_eq_true]
  exact ⟨w, h, by simp⟩

theorem acOutput_iff (dict : List Str) (w : Str) : acOutput dict w = true ↔ w ∈ dict := by
  simp [acOutput]

/-- the state reached after reading `t`: the longest suffix of `t` that is a node -/
def lsp (dict : List Str) (t : Str) : Str := longestSuffix (acIsNode dict) t

theorem lsp_node (dict : List Str) (t : Str) : lsp dict t = [] ∨ acIsNode dict (lsp dict t) = true := by
  by_cases h : lsp dict t = []
  · exact Or.inl h
  · exact Or.inr ((longestSuffix_spec _ t).holds h)

theorem suffix_tail_of_ne {v n : Str} (hv : v <:+ n) (hne : v ≠ n) : v <:+ n.tail := by
  cases n with
  | nil => exact absurd (List.suffix_nil.mp hv) (by intro h; exact hne h)
  | cons a n' =>
    rcases List.suffix_cons_iff.mp hv with h | h
    · exact absurd h hne
    · exact h

/-! ### `fails[c]` -/

/-- `u` has an outgoing edge `c` -/
def hasEdge (dict : List Str) (c : Nat) (u : Str) : Bool := acIsNode dict (u ++ [c])

theorem acFails_spec (dict : List Str) (c : Nat) : ∀ (fuel : Nat) (n : Str), n.length < fuel →
    (n = [] ∨ acIsNode dict n = true) → acFails dict c fuel n = longestSuffix (hasEdge dict c) n
  | 0, n, h, _ => by omega
  | fuel + 1, n, hlen, hnode => by
    unfold acFails
    by_cases hstop : ((acChild dict n c).isNone && !n.isEmpty) = true
    · rw [if_pos hstop]
      simp only [Bool.and_eq_true, Option.isNone_iff_eq_none, Bool.not_eq_true', List.isEmpty_eq_false_iff] at hstop
      obtain ⟨hchild, hne⟩ := hstop
      have hnoedge : hasEdge dict c n = false := by
        unfold acChild at hchild
        by_cases e : acIsNode dict (n ++ [c]) = true
        · rw [if_pos e] at hchild; simp at hchild
        · simpa [hasEdge] using e
      have hm := longestSuffix_spec (acIsNode dict) n.tail
      have htl : n.tail.length < n.length := by
        cases n with
        | nil => exact absurd rfl hne
        | cons a n' => simp
      have hmlen : (acFail dict n).length < fuel := by
        have := hm.suf.length_le
        unfold acFail; omega
      have hmnode : acFail dict n = [] ∨ acIsNode dict (acFail dict n) = true := by
        by_cases e : acFail dict n = []
        · exact Or.inl e
        · exact Or.inr (hm.holds e)
      rw [acFails_spec dict c fuel (acFail dict n) hmlen hmnode]
      -- the longest suffix of `fail n` with an edge is the longest suffix of `n` with an edge
      have hy := longestSuffix_spec (hasEdge dict c) (acFail dict n)
      apply IsLongest.unique (q := hasEdge dict c) (t := n) _ (longestSuffix_spec _ n)
      refine ⟨hy.suf.trans (hm.suf.trans (List.tail_suffix n)), hy.holds, ?_⟩
      intro v hv hvne hq
      have hvn : v ≠ n := by rintro rfl; rw [hnoedge] at hq; exact absurd hq (by simp)
      have hvt := suffix_tail_of_ne hv hvn
      have hvnode : acIsNode dict v = true := acIsNode_prefix_closed dict v [c] hq
      exact hy.max v (hm.max v hvt hvne hvnode) hvne hq
    · rw [if_neg hstop]
      cases n with
      | nil => rfl
      | cons a n' =>
        have hedge : hasEdge dict c (a :: n') = true := by
          simp only [Bool.and_eq_true, Option.isNone_iff_eq_none, Bool.not_eq_true', List.isEmpty_cons,
            and_true] at hstop
          unfold acChild at hstop
          by_cases e : acIsNode dict (a :: n' ++ [c]) = true
          · exact e
          · rw [if_neg e] at hstop; exact absurd rfl hstop
        simp [longestSuffix, hedge]

/-! ### one step of `Contains` -/

theorem suffix_concat_split {v t : Str} {c : Nat} (hv : v <:+ t ++ [c]) (hne : v ≠ []) :
    ∃ u, v = u ++ [c] ∧ u <:+ t := by
  rcases List.suffix_concat_iff.mp hv with h | ⟨u, hu, hs⟩
  · exact absurd h hne
  · exact ⟨u, hu, hs⟩

theorem acStep_spec (dict : List Str) (t : Str) (c : Nat) :
    (acStep dict (lsp dict t) c).1 = lsp dict (t ++ [c]) ∧
    ((acStep dict (lsp dict t) c).2 = true ↔ ∃ w ∈ dict, w ≠ [] ∧ w <:+ t ++ [c]) := by
  have hn := longestSuffix_spec (acIsNode dict) t
  -- n0 = the longest suffix of the state with an outgoing edge c
  have hn0eq : (if (lsp dict t).isEmpty then lsp dict t
      else acFails dict c ((lsp dict t).length + 1) (lsp dict t)) = longestSuffix (hasEdge dict c) (lsp dict t) := by
    by_cases e : lsp dict t = []
    · simp [e, longestSuffix]
    · have : (lsp dict t).isEmpty = false := by simpa using e
      rw [this]
      simp only [Bool.false_eq_true, ↓reduceIte]
      exact acFails_spec dict c _ _ (Nat.lt_succ_self _) (lsp_node dict t)
  have hn0 := longestSuffix_spec (hasEdge dict c) (lsp dict t)
  generalize hN0 : longestSuffix (hasEdge dict c) (lsp dict t) = n0 at hn0 hn0eq
  -- the candidate next state
  have hcand : IsLongest (acIsNode dict) (t ++ [c]) (if acIsNode dict (n0 ++ [c]) then n0 ++ [c] else []) := by
    refine ⟨?_, ?_, ?_⟩
    · split
      · obtain ⟨x, hx⟩ := hn0.suf.trans hn.suf
        exact ⟨x, by rw [← hx]; simp⟩
      · exact List.nil_suffix
    · intro hne
      split at hne
      · rename_i h; rw [if_pos h]; exact h
      · exact absurd rfl hne
    · intro v hv hvne hq
      obtain ⟨u, rfl, hu⟩ := suffix_concat_split hv hvne
      by_cases hue : u = []
      · subst hue
        by_cases hn0e : n0 = []
        · subst hn0e; simp only [List.nil_append] at hq ⊢; rw [if_pos hq]; exact List.suffix_refl _
        · have := hn0.holds hn0e
          unfold hasEdge at this
          rw [if_pos this]
          exact ⟨n0, by simp⟩
      · have hunode : acIsNode dict u = true := acIsNode_prefix_closed dict u [c] hq
        have hu1 : u <:+ lsp dict t := hn.max u hu hue hunode
        have hu2 : u <:+ n0 := hn0.max u hu1 hue hq
        have hn0e : n0 ≠ [] := by rintro rfl; exact hue (List.suffix_nil.mp hu2)
        have := hn0.holds hn0e
        unfold hasEdge at this
        rw [if_pos this]
        obtain ⟨x, hx⟩ := hu2
        exact ⟨x, by rw [← hx]; simp⟩
  have hstate : lsp dict (t ++ [c]) = (if acIsNode dict (n0 ++ [c]) then n0 ++ [c] else []) :=
    IsLongest.unique (longestSuffix_spec _ _) hcand
  -- words that end here are suffixes of the new state
  have hword : ∀ w ∈ dict, w ≠ [] → w <:+ t ++ [c] → w <:+ lsp dict (t ++ [c]) := by
    intro w hw hne hs
    exact (longestSuffix_spec (acIsNode dict) (t ++ [c])).max w hs hne (acIsNode_of_word dict w hw)
  unfold acStep
  simp only [hn0eq]
  unfold acChild
  by_cases hedge : acIsNode dict (n0 ++ [c]) = true
  · rw [if_pos hedge] at hstate ⊢
    simp only
    refine ⟨hstate.symm, ?_⟩
    have hsuf : n0 ++ [c] <:+ t ++ [c] := by rw [← hstate]; exact (longestSuffix_spec _ _).suf
    have hs := longestSuffix_spec (acOutput dict) (n0 ++ [c]).tail
    constructor
    · intro hhit
      simp only [Bool.or_eq_true, Bool.not_eq_true', List.isEmpty_eq_false_iff] at hhit
      rcases hhit with h | h
      · exact ⟨n0 ++ [c], (acOutput_iff dict _).mp h, by simp, hsuf⟩
      · have hne : acSuffix dict (n0 ++ [c]) ≠ [] := h
        have hout := hs.holds hne
        exact ⟨_, (acOutput_iff dict _).mp hout, hne, (hs.suf.trans (List.tail_suffix _)).trans hsuf⟩
    · rintro ⟨w, hw, hne, hsw⟩
      have hwf : w <:+ n0 ++ [c] := by rw [← hstate]; exact hword w hw hne hsw
      simp only [Bool.or_eq_true, Bool.not_eq_true', List.isEmpty_eq_false_iff]
      by_cases e : w = n0 ++ [c]
      · left; rw [← e]; exact (acOutput_iff dict w).mpr hw
      · right
        have := hs.max w (suffix_tail_of_ne hwf e) hne ((acOutput_iff dict w).mpr hw)
        intro hnil
        unfold acSuffix at hnil
        rw [hnil] at this
        exact hne (List.suffix_nil.mp this)
  · have hedge' : acIsNode dict (n0 ++ [c]) = false := by simpa using hedge
    rw [hedge'] at hstate ⊢
    simp only [Bool.false_eq_true, ↓reduceIte] at hstate ⊢
    have hn0nil : n0 = [] := by
      by_cases e : n0 = []
      · exact e
      · have := hn0.holds e; unfold hasEdge at this; rw [this] at hedge'; exact absurd hedge' (by simp)
    refine ⟨by rw [hstate, hn0nil], ?_⟩
    constructor
    · intro h; exact absurd h (by simp)
    · rintro ⟨w, hw, hne, hsw⟩
      have := hword w hw hne hsw
      rw [hstate] at this
      exact absurd (List.suffix_nil.mp this) hne

/-! ### the whole run -/

theorem acRun_spec (dict : List Str) : ∀ (rest pre : Str),
    acRun dict rest (lsp dict pre) = true ↔
      ∃ k, 1 ≤ k ∧ k ≤ rest.length ∧ ∃ w ∈ dict, w ≠ [] ∧ w <:+ pre ++ rest.take k
  | [], pre => by
    simp only [acRun, Bool.false_eq_true, List.length_nil, false_iff]
    rintro ⟨k, h1, h2, _⟩; omega
  | c :: rest, pre => by
    obtain ⟨hst, hhit⟩ := acStep_spec dict pre c
    unfold acRun
    simp only
    by_cases h : (acStep dict (lsp dict pre) c).2 = true
    · rw [if_pos h]
      simp only [true_iff]
      obtain ⟨w, hw, hne, hs⟩ := hhit.mp h
      exact ⟨1, Nat.le_refl _, by simp, w, hw, hne, by simpa using hs⟩
    · rw [if_neg h, hst, acRun_spec dict rest (pre ++ [c])]
      constructor
      · rintro ⟨k, h1, h2, w, hw, hne, hs⟩
        refine ⟨k + 1, by omega, by simp; omega, w, hw, hne, ?_⟩
        simpa [List.take_succ_cons, List.append_assoc] using hs
      · rintro ⟨k, h1, h2, w, hw, hne, hs⟩
        cases k with
        | zero => omega
        | succ k =>
          cases k with
          | zero =>
            exfalso
            apply h
            exact hhit.mpr ⟨w, hw, hne, by simpa using hs⟩
          | succ k =>
            refine ⟨k + 1, by omega, by simp at h2; omega, w, hw, hne, ?_⟩
            simpa [List.take_succ_cons, List.append_assoc] using hs

/-- **Aho-Corasick `Contains` = substring search for the non-empty dictionary words**, for every
dictionary and every input. -/
theorem acAuto_eq_acContains (dict : List Str) (input : Str) : acAuto dict input = acContains dict input := by
  rw [Bool.eq_iff_iff]
  unfold acAuto acContains
  have h0 : lsp dict [] = [] := rfl
  have := acRun_spec dict (input.map acNorm) []
  rw [h0] at this
  rw [this]
  simp only [List.nil_append, List.any_eq_true, Bool.and_eq_true, Bool.not_eq_true',
    List.isEmpty_eq_false_iff, isInfix_iff]
  constructor
  · rintro ⟨k, _, _, w, hw, hne, hs⟩
    refine ⟨w, hw, hne, ?_⟩
    obtain ⟨a, ha⟩ := hs
    exact ⟨a, (input.map acNorm).drop k, by rw [ha, List.take_append_drop]⟩
  · rintro ⟨w, hw, hne, a, b, hab⟩
    refine ⟨(a ++ w).length, ?_, ?_, w, hw, hne, ?_⟩
    · have : 0 < w.length := List.length_pos_iff.mpr hne
      simp; omega
    · rw [← hab]; simp
    · rw [← hab]
      have : (a ++ w ++ b).take (a ++ w).length = a ++ w := by
        rw [List.take_append_of_le_length (Nat.le_refl _)]
        exact List.take_of_length_le (by simp)
      rw [this]
      exact ⟨a, rfl⟩

end DaeVerif.C11
