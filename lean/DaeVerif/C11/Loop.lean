import DaeVerif.C11.Model
/-!
# C11 — executable model, part 2 (core-only; the driver runs these definitions)

7. `Built.matchLoop`   — `MatchDomainBitmap` loop for loop: the three index lists `validTrieIndexes`,
                         `validAcIndexes`, `validRegexpIndexes` that `Build` leaves behind, the
                         "already matched → continue" shortcut, and the word writes
                         `bitmap[i/32] |= 1 << (i%32)` on a `[]uint32`.  Only the sets on the lists are
                         visited (which is also what makes the driver fast: a 1 024-entry table with
                         three sets in use costs three look-ups, not 1 024).
                         `LoopProofs.matchLoop_eq_matchBitmap`: for EVERY order of the index lists the
                         loop returns what `Built.matchBitmap` returns.
8. `BState / Reach`     — `Build`'s worker goroutines as a transition system: each worker's critical
                         section (`mu.Lock(); n.trie[idx] = t; n.validTrieIndexes = append(…, idx);
                         mu.Unlock()`) is one atomic step, the steps happen in any order.
9. `docHitIdx`          — the documented meaning, evaluated once per query instead of once per bit.
10. `BitList.setLoop`   — `CompactBitList.Set` loop by loop (outer 16-bit slices, the two inner loops).
-/
namespace DaeVerif.C11

/-! ## 7. the loops of `MatchDomainBitmap` -/

/-- the three index lists of a built matcher (trie / keyword lists in the order the workers committed) -/
structure Idx where
  vTrie : List Nat := []
  vAc : List Nat := []
  vRx : List Nat := []
deriving Repr

/-- one iteration: `if bitmap[i/32]&(1<<(i%32)) > 0 { continue }; if <fire> { bitmap[i/32] |= 1 << (i%32) }`.
`none` = a Go panic (index out of range, nil pointer). -/
def loopStep (fire : Nat → Option Bool) (bm : Array Nat) (i : Nat) : Option (Array Nat) := do
  let w ← bm[i / 32]?
  if w.testBit (i % 32) then some bm
  else if (← fire i) then some (bm.setIfInBounds (i / 32) (w ||| (1 <<< (i % 32)))) else some bm

def loopOver (fire : Nat → Option Bool) : List Nat → Array Nat → Option (Array Nat)
  | [], bm => some bm
  | i :: is, bm => do loopOver fire is (← loopStep fire bm i)

/-- `n.trie[i].HasPrefix(suffixTrieDomain)` (`n.trie[i] == nil`: panic) -/
def Built.fireTrie (b : Built) (q : Str) (i : Nat) : Option Bool := do
  let bs ← b.sets[i]?
  let t ← bs.trie
  t.hasPrefix q

/-- `n.ac[i].Contains([]byte(acDomain))`; `acIn` = the bytes of `acDomain` read through the library's
table (`n.ac[i] == nil`: panic) -/
def Built.fireAc (b : Built) (acIn : Str) (i : Nat) : Option Bool := do
  let bs ← b.sets[i]?
  if bs.ac.isEmpty then none else some (acRun bs.ac acIn [])

/-- `for _, r := range n.regexp[i] { if r.MatchString(domain) { …; break } }` -/
def Built.fireRx (b : Built) (rxHits : List Nat) (i : Nat) : Option Bool := do
  let bs ← b.sets[i]?
  some (bs.rx.any rxHits.contains)

/-- `N := len(n.ac) / 32; if len(n.ac)%32 != 0 { N++ }` -/
def bitmapLen (n : Nat) : Nat := n / 32 + (if n % 32 != 0 then 1 else 0)

/-- `MatchDomainBitmap`, loop for loop; the result is the `[]uint32`. -/
def Built.matchLoop (b : Built) (ix : Idx) (name : Str) (rxHits : List Nat) : Option (List Nat) := do
  let dom := normName name
  let bm := Array.replicate (bitmapLen b.sets.size) 0
  let bm ← loopOver (b.fireTrie (trieQuery dom)) ix.vTrie bm
  let bm ← loopOver (b.fireAc ((cHat :: dom ++ [cDollar]).map acNorm)) ix.vAc bm
  let bm ← loopOver (b.fireRx rxHits) ix.vRx bm
  some bm.toList

/-- the index lists of a sequential `Build` (ascending) -/
def Idx.ofBuilt (b : Built) : Idx :=
  let pick (f : BuiltSet → Bool) := (List.range b.sets.size).filter fun i =>
    match b.sets[i]? with
    | some bs => f bs
    | none => false
  { vTrie := pick (·.trie.isSome), vAc := pick (!·.ac.isEmpty), vRx := pick (!·.rx.isEmpty) }

/-- index lists that `Build` can leave behind for the tables `b`: exactly the non-empty sets of each
kind, in any order -/
structure Idx.Valid (b : Built) (ix : Idx) : Prop where
  trie : ∀ i, i ∈ ix.vTrie ↔ ∃ bs, b.sets[i]? = some bs ∧ bs.trie.isSome = true
  ac : ∀ i, i ∈ ix.vAc ↔ ∃ bs, b.sets[i]? = some bs ∧ bs.ac.isEmpty = false
  rx : ∀ i, i ∈ ix.vRx ↔ ∃ bs, b.sets[i]? = some bs ∧ bs.rx.isEmpty = false

/-- executable test: `ix` lists the same sets as the sequential build (what the driver checks of the
order reported by the real `Build`) -/
def Idx.permOf (ix ref : Idx) : Bool :=
  let same (a c : List Nat) : Bool := a.all c.contains && c.all a.contains
  same ix.vTrie ref.vTrie && same ix.vAc ref.vAc && same ix.vRx ref.vRx

/-! ## 8. `Build`: the workers commit in any order -/

inductive Job where
  | trie (i : Nat)
  | ac (i : Nat)
deriving DecidableEq, Repr

def Matcher.setAt (m : Matcher) (i : Nat) : SetBuild := (m.sets[i]?).getD {}

/-- the goroutines `Build` starts: one per non-empty `toBuildAc[i]`, one per non-empty `toBuildTrie[i]` -/
def Matcher.jobs (m : Matcher) : List Job :=
  ((List.range m.sets.size).filter fun i => !(m.setAt i).ac.isEmpty).map Job.ac ++
  ((List.range m.sets.size).filter fun i => !(m.setAt i).trie.isEmpty).map Job.trie

/-- `trie.NewTrie(ToSuffixTrieStrings(toBuildTrie[i]), ValidDomainChars)`; `none` = it returned an error -/
def Matcher.trieOf (m : Matcher) (i : Nat) : Option Trie :=
  match Trie.build domainChars ((m.setAt i).trie.map toSuffixTrieString) with
  | .ok t => some t
  | _ => none

/-- `ahocorasick.NewMatcher(toBuildAc[i])` succeeds -/
def Matcher.acOk (m : Matcher) (i : Nat) : Bool := (m.setAt i).ac.all fun p => p.all acValid

structure BState where
  pending : List Job                 -- workers that have not yet entered their critical section
  tries : Array (Option Trie)        -- n.trie
  acs : Array (List Str)             -- n.ac (the dictionary of each automaton; [] = nil)
  vTrie : List Nat                   -- n.validTrieIndexes
  vAc : List Nat                     -- n.validAcIndexes
  err : Option MErr                  -- buildErr

def BState.init (m : Matcher) : BState :=
  ⟨m.jobs, Array.replicate m.sets.size none, Array.replicate m.sets.size [], [], [], none⟩

/-- `if buildErr == nil { buildErr = err }` -/
def firstErr (e : Option MErr) : Option MErr := if e.isSome then e else some .charOutOfRange

/-- one worker runs its critical section (atomic: it holds `mu`) -/
def BState.commit (m : Matcher) (s : BState) (j : Job) : BState :=
  match j with
  | .trie i =>
    match m.trieOf i with
    | some t => { s with pending := s.pending.erase j, tries := s.tries.setIfInBounds i (some t), vTrie := s.vTrie ++ [i] }
    | none => { s with pending := s.pending.erase j, err := firstErr s.err }
  | .ac i =>
    if m.acOk i then
      { s with pending := s.pending.erase j, acs := s.acs.setIfInBounds i (m.setAt i).ac, vAc := s.vAc ++ [i] }
    else { s with pending := s.pending.erase j, err := firstErr s.err }

/-- states reachable by letting the pending workers commit one after the other in ANY order (the
semaphore of `Build` only restricts the orders further) -/
inductive Reach (m : Matcher) : BState → Prop where
  | init : Reach m (BState.init m)
  | step {s : BState} {j : Job} : Reach m s → j ∈ s.pending → Reach m (s.commit m j)

/-- a schedule = the order in which the workers commit -/
def BState.run (m : Matcher) (s : BState) (sched : List Job) : BState := sched.foldl (·.commit m) s

/-- after `wg.Wait()`: the tables and index lists `Build` leaves behind (regex sets are collected
sequentially, in ascending order) -/
def BState.built (m : Matcher) (s : BState) : Built :=
  ⟨((List.range m.sets.size).map fun i =>
    (⟨(m.setAt i).trie.map toSuffixTrieString, (s.tries[i]?).getD none, (s.acs[i]?).getD [], (m.setAt i).rx⟩ : BuiltSet)).toArray⟩

def BState.idx (m : Matcher) (s : BState) : Idx :=
  ⟨s.vTrie, s.vAc, (List.range m.sets.size).filter fun i => !(m.setAt i).rx.isEmpty⟩

/-- `Build` under a schedule -/
def Matcher.buildSched (m : Matcher) (sched : List Job) : Except MErr (Built × Idx) :=
  match m.err with
  | some e => .error e
  | none =>
    let s := (BState.init m).run m sched
    match s.err with
    | some e => .error e
    | none => .ok (s.built m, s.idx m)

/-! ## 9. the documented meaning, per query -/

/-- some valid pattern of the call matches -/
def callHit (dom : Str) (rxHits : List Nat) (a : AddCall) : Bool :=
  a.pats.any fun p => patMatches a.kind p dom rxHits && patValid a.kind p

/-- the indices whose documented meaning holds for the (normalised) name: `lowLog` = the calls with
lower-cased patterns -/
def docHitIdx (lowLog : List AddCall) (dom : Str) (rxHits : List Nat) : List Nat :=
  (lowLog.filter (callHit dom rxHits)).map (·.idx)

/-! ## 10. `CompactBitList.Set`, loop by loop -/

/-- first inner loop: `for ; k < unitToTravel && j+k < 16; k++ { b[i] &= ^(1 << (k+j)); b[i] |= uint16((v & (1<<k)) << j) }` -/
def setInner1 (i j v unitToTravel : Nat) : (fuel k : Nat) → Array Nat → Nat × Array Nat
  | 0, k, buf => (k, buf)
  | fuel + 1, k, buf =>
    if k < unitToTravel ∧ j + k < 16 then
      setInner1 i j v unitToTravel fuel (k + 1) (writeBit buf (i * 16 + (k + j)) (v.testBit k))
    else (k, buf)

/-- second inner loop (`j` = the `k` the first loop stopped at):
`for ; k < unitToTravel && k < 16; k++ { b[i] &= ^(1 << (k-j)); b[i] |= uint16((v & (1<<k)) >> j) }` -/
def setInner2 (i j v unitToTravel : Nat) : (fuel k : Nat) → Array Nat → Nat × Array Nat
  | 0, k, buf => (k, buf)
  | fuel + 1, k, buf =>
    if k < unitToTravel ∧ k < 16 then
      setInner2 i j v unitToTravel fuel (k + 1) (writeBit buf (i * 16 + (k - j)) (v.testBit k))
    else (k, buf)

/-- the outer loop `for unitToTravel := m.unitBitSize; unitToTravel > 0; unitToTravel -= 16` -/
def setOuter : (fuel i j v unitToTravel : Nat) → Array Nat → Array Nat
  | 0, _, _, _, _, buf => buf
  | fuel + 1, i, j, v, unitToTravel, buf =>
    if unitToTravel = 0 then buf else
    let (k, buf) := setInner1 i j v unitToTravel 17 0 buf
    if k ≥ unitToTravel then buf else
    let (_, buf) := setInner2 (i + 1) k v unitToTravel 17 k buf
    setOuter fuel (i + 1) j (v >>> 16) (unitToTravel - 16) buf

/-- `Set` after its range check, with the Go loops -/
def BitList.setLoop : BitList → Nat → Nat → BitList
  | ⟨unit, buf, unitNum⟩, iUnit, v =>
    ⟨unit, setOuter (unit / 16 + 2) (iUnit * unit / 16) (iUnit * unit % 16) v unit (growBuf buf unit iUnit),
      max unitNum (iUnit + 1)⟩

/-- `Set` (range check + the Go loops); `none` = `panic("value exceeds unit bit size")` -/
def BitList.setGo? (m : BitList) (iUnit v : Nat) : Option BitList :=
  if len64 v > m.unit then none else some (m.setLoop iUnit v)

def BitList.appendGo? (m : BitList) (v : Nat) : Option BitList := m.setGo? m.unitNum v

end DaeVerif.C11
