/-!
# C11 — domain pattern matching: executable model

Layers (all core-only so the driver links):

1. `ValidChars`            — `pkg/trie.ValidChars` (alphabet table, `IsValidChar`)
2. `BitList`               — `common/bitlist.CompactBitList` (packed units of arbitrary bit size over
                             `uint16` words; `Get` mirrors the Go branches, `Set` is the same sequence
                             of single-bit writes as the Go loops)
3. `bfs / Trie.build`      — `pkg/trie.NewTrie`: sort+dedup, breadth-first LOUDS construction,
                             packing into `uint64` words, the rank/select caches of `init()`
4. `Trie.hasPrefix`        — `pkg/trie.(*Trie).HasPrefix` with `getBit`, `countZeros`, `selectIthOne`
5. `Matcher`               — `domain_matcher.AhocorasickSlimtrie`: `AddSet` normalisation and
                             character screening, `Build`, `MatchDomainBitmap`
6. the specification       — `hasPrefixSpec`, `patMatches` (what each pattern kind is documented to
                             match)

A Go string is a list of bytes (`Str = List Nat`).  `Option` results: `none` = the Go code would
panic (index out of range) at that point.
-/
namespace DaeVerif.C11

abbrev Str := List Nat

/-! ## 1. ValidChars -/

structure ValidChars where
  alphabet : List Nat
deriving Repr

/-- `v.table[c]` : the position of `c` in the alphabet, 0 for bytes outside it. -/
def ValidChars.code (v : ValidChars) (c : Nat) : Nat :=
  if c ∈ v.alphabet then v.alphabet.idxOf c else 0

/-- `IsValidChar`: `table[c] > 0 || c == zeroChar`. -/
def ValidChars.isValid (v : ValidChars) (c : Nat) : Bool :=
  v.code c > 0 || v.alphabet.head? == some c

def ValidChars.size (v : ValidChars) : Nat := v.alphabet.length

def strOf (s : String) : Str := s.toList.map Char.toNat

/-- `ValidDomainChars = "0123456789abcdefghijklmnopqrstuvwxyz-.^_"` -/
def domainChars : ValidChars := ⟨strOf "0123456789abcdefghijklmnopqrstuvwxyz-.^_"⟩
/-- `ValidCidrChars = "01"` -/
def cidrChars : ValidChars := ⟨strOf "01"⟩

/-- `bits.Len64` -/
def len64 (x : Nat) : Nat := if x = 0 then 0 else Nat.log2 x + 1

/-! ## 2. CompactBitList -/

structure BitList where
  unit : Nat
  buf : Array Nat        -- uint16 words
  unitNum : Nat
deriving Repr

def BitList.new (unit : Nat) : BitList := ⟨unit, #[], 0⟩

/-- write one bit of the flat little-endian bit sequence (word `pos/16`, bit `pos%16`):
`b[i] &= ^(1<<k); b[i] |= bit<<k`. -/
def writeBit (buf : Array Nat) (pos : Nat) (b : Bool) : Array Nat :=
  buf.modify (pos / 16) fun w =>
    (w &&& (65535 ^^^ (1 <<< (pos % 16)))) ||| (if b then 1 <<< (pos % 16) else 0)

/-- the bit writes of `Set`, in the order of the Go loops: for `m = k .. k+n-1` flat bit `p+m` becomes
bit `m` of `v` (outer loop = 16-bit slices of `v`, the two inner loops = the part in word `i` and the
part in word `i+1`). -/
def writeBitsFrom (p v : Nat) : (n k : Nat) → Array Nat → Array Nat
  | 0, _, buf => buf
  | n + 1, k, buf => writeBitsFrom p v n (k + 1) (writeBit buf (p + k) (v.testBit k))

def writeBits (buf : Array Nat) (p v n : Nat) : Array Nat := writeBitsFrom p v n 0 buf

/-- `growByUnitIndex` -/
def growBuf (buf : Array Nat) (unit i : Nat) : Array Nat :=
  let bitBoundary := (i + 1) * unit
  if buf.size * 16 < bitBoundary then
    let need := bitBoundary / 16 + (if bitBoundary % 16 != 0 then 1 else 0)
    buf ++ Array.replicate (need - buf.size) 0
  else buf

/-- `Set` after its range check. -/
def BitList.setRaw : BitList → Nat → Nat → BitList
  | ⟨unit, buf, unitNum⟩, iUnit, v =>
    ⟨unit, writeBits (growBuf buf unit iUnit) (iUnit * unit) v unit, max unitNum (iUnit + 1)⟩

/-- `Set`; `none` = `panic("value exceeds unit bit size")`. -/
def BitList.set? (m : BitList) (iUnit v : Nat) : Option BitList :=
  if len64 v > m.unit then none else some (m.setRaw iUnit v)

def BitList.append? (m : BitList) (v : Nat) : Option BitList := m.set? m.unitNum v

/-- whole 16-bit words in the middle of a unit: `for ; unitToTravel >= 16; … { v |= b[i] << offset }` -/
def getWords (buf : Array Nat) : (n i offset v : Nat) → Option Nat
  | 0, _, _, v => some v
  | n + 1, i, offset, v => do
    let w ← buf[i]?
    getWords buf n (i + 1) (offset + 16) (v ||| (w <<< offset))

/-- `Get`, branch for branch.  `none` = index out of range panic. -/
def BitList.get (m : BitList) (iUnit : Nat) : Option Nat :=
  let bitBoundary := (iUnit + 1) * m.unit
  if m.buf.size * 16 < bitBoundary then some 0 else
  let i := iUnit * m.unit / 16
  let j := iUnit * m.unit % 16
  let byteSpace := 16 - j
  if byteSpace > m.unit then do
    let toTrimLeft := byteSpace - m.unit
    let w ← m.buf[i]?
    some (((w <<< toTrimLeft) % 65536) >>> (toTrimLeft + j))
  else do
    let w ← m.buf[i]?
    let v := w >>> j
    let offset := 16 - j
    let unitToTravel := m.unit - offset
    let nfull := unitToTravel / 16
    let v ← getWords m.buf nfull (i + 1) offset v
    let i := i + 1 + nfull
    let offset := offset + 16 * nfull
    let unitToTravel := unitToTravel % 16
    if unitToTravel = 0 then some v else
    let toTrimLeft := 16 - unitToTravel
    let w ← m.buf[i]?
    let hi := (w <<< toTrimLeft) % 65536
    if offset > toTrimLeft then some (v ||| (hi <<< (offset - toTrimLeft)))
    else some (v ||| (hi >>> (toTrimLeft - offset)))

/-- `Append` of a whole list (every call site appends in-range values; an out-of-range value
would panic in Go and is skipped here — `BitList.ofList_get` has the range hypothesis). -/
def BitList.ofList (unit : Nat) (vs : List Nat) : BitList :=
  vs.foldl (fun m v => if len64 v > m.unit then m else m.setRaw m.unitNum v) (BitList.new unit)

/-! ## 3. NewTrie -/

/-- bytewise lexicographic `≤` (Go string comparison, `sort.Strings`). -/
def lexLe : Str → Str → Bool
  | [], _ => true
  | _ :: _, [] => false
  | a :: as, b :: bs => if a < b then true else if b < a then false else lexLe as bs

/-- drop adjacent duplicates -/
def dedupAdj : List Str → List Str
  | [] => []
  | [a] => [a]
  | a :: b :: rest => if a = b then dedupAdj (b :: rest) else a :: dedupAdj (b :: rest)

/-- `common.Deduplicate` followed by `sort.Strings`: the sorted list of distinct keys (computed as
sort-then-drop-adjacent-duplicates, which yields the same list). -/
def sortDedup (keys : List Str) : List Str := dedupAdj (keys.mergeSort lexLe)

/-- A queue element `qElt{s, e, col}` is represented by the suffixes it denotes:
`keys[s:e]` each with its first `col` bytes removed. -/
abbrev Node := List Str

/-- `elt.col == len(keys[elt.s])` -/
def Node.isLeaf : Node → Bool
  | [] :: _ => true
  | _ => false

/-- `elt.s++` when leaf -/
def Node.dropLeaf : Node → Node
  | [] :: r => r
  | n => n

/-- the inner `for j := elt.s; j < elt.e;` loop: maximal runs of equal first bytes, each run
becomes a child `(label, suffixes with the label removed)`. -/
def groups : Node → List (Nat × Node)
  | [] => []
  | [] :: rest => groups rest          -- not reachable for a sorted duplicate-free key list
  | (c :: t) :: rest =>
    match groups rest with
    | (c', g) :: gs => if c' = c then (c, t :: g) :: gs else (c, [t]) :: (c', g) :: gs
    | [] => [(c, [t])]

def Node.children (n : Node) : List (Nat × Node) := groups n.dropLeaf

/-- what one queue element contributes: leaf flag and its outgoing labels (bytes). -/
structure NodeOut where
  leaf : Bool
  labels : List Nat
deriving Repr, DecidableEq

def Node.out (n : Node) : NodeOut := ⟨n.isLeaf, n.children.map (·.1)⟩

/-- The work queue processed level by level (a FIFO queue visits nodes in exactly this order). -/
def levels : Nat → List Node → List NodeOut
  | 0, _ => []
  | fuel + 1, lvl =>
    match lvl with
    | [] => []
    | _ => lvl.map Node.out ++ levels fuel (lvl.flatMap fun n => n.children.map (·.2))

def maxLen (keys : List Str) : Nat := keys.foldl (fun m k => max m k.length) 0

/-- nodes of the trie of `keys` (sorted, distinct) in BFS order. -/
def bfs (keys : List Str) : List NodeOut := levels (maxLen keys + 2) [keys]

/-- `labelBitmap` as a bit list: per node `0` for each label then a `1`. -/
def bitmapBits (outs : List NodeOut) : List Bool :=
  outs.flatMap fun o => List.replicate o.labels.length false ++ [true]

def leafBits (outs : List NodeOut) : List Bool := outs.map (·.leaf)

def labelBytes (outs : List NodeOut) : List Nat := outs.flatMap (·.labels)

/-- value of up to 64 bits, least significant first -/
def wordOfBits : List Bool → Nat
  | [] => 0
  | b :: bs => (if b then 1 else 0) + 2 * wordOfBits bs

/-- pack a bit list into 64-bit words (`setBit` for every index in order). -/
def packWords : Nat → List Bool → List Nat
  | 0, _ => []
  | fuel + 1, bits =>
    match bits with
    | [] => []
    | _ => wordOfBits (bits.take 64) :: packWords fuel (bits.drop 64)

def pack (bits : List Bool) : Array Nat := (packWords (bits.length + 1) bits).toArray

/-- drop trailing `false`s (the `leaves` slice only grows when a leaf is set). -/
def trimFalse (bits : List Bool) : List Bool := (bits.reverse.dropWhile (· == false)).reverse

def popcount (w : Nat) : Nat := (List.range 64).countP fun i => w.testBit i

/-- `init()`: `ranks[k]` = number of ones in words `0..k-1`. -/
def ranksOf (bm : List Nat) : List Nat :=
  (bm.foldl (fun (acc : List Nat × Nat) w => ((acc.2 + popcount w) :: acc.1, acc.2 + popcount w)) ([0], 0)).1.reverse

/-- `init()`: positions of the ones number 0, 64, 128, … -/
def selectsOf (bits : List Bool) : List Nat :=
  (bits.foldl (fun (acc : List Nat × Nat × Nat) b =>
      let (sel, n, i) := acc
      if b then ((if n % 64 = 0 then i :: sel else sel), n + 1, i + 1) else (sel, n, i + 1))
    ([], 0, 0)).1.reverse

structure Trie where
  leaves : Array Nat
  labelBitmap : Array Nat
  labels : BitList
  ranksBL : BitList
  selectsBL : BitList
  chars : ValidChars
deriving Repr

/-- all bits of the words, 64 per word (what `init()` walks for `selects`). -/
def wordBits (ws : List Nat) : List Bool := ws.flatMap fun w => (List.range 64).map fun i => w.testBit i

def Trie.ofOuts (chars : ValidChars) (outs : List NodeOut) : Trie :=
  let bm := packWords ((bitmapBits outs).length + 1) (bitmapBits outs)
  let ranks := ranksOf bm
  let selects := selectsOf (wordBits bm)
  { leaves := pack (trimFalse (leafBits outs))
    labelBitmap := bm.toArray
    labels := BitList.ofList (len64 chars.size) ((labelBytes outs).map chars.code)
    ranksBL := BitList.ofList (len64 (ranks.getLastD 0)) ranks
    selectsBL := BitList.ofList (len64 (selects.getLastD 0)) selects
    chars := chars }

/-- `NewTrie`: error on a byte outside the alphabet; `none` on an empty key list (the Go code
indexes `keys[0]` and panics). -/
inductive BuildResult (α : Type) where
  | ok (t : α) | charOutOfRange (c : Nat) | panic
deriving Repr

def firstInvalid (chars : ValidChars) (keys : List Str) : Option Nat :=
  keys.findSome? fun k => k.find? fun c => !chars.isValid c

def Trie.build (chars : ValidChars) (keys : List Str) : BuildResult Trie :=
  let ks := sortDedup keys
  match firstInvalid chars ks with
  | some c => .charOutOfRange c
  | none => if ks.isEmpty then .panic else .ok (Trie.ofOuts chars (bfs ks))

/-! ## 4. HasPrefix -/

/-- `getBit(bm, i) != 0` -/
def getBit (bm : Array Nat) (i : Nat) : Option Bool := do
  let w ← bm[i / 64]?
  some (w.testBit (i % 64))

/-- `countZeros(bm, ranks, i)` -/
def countZeros (bm : Array Nat) (ranks : BitList) (i : Nat) : Option Nat := do
  let wordIdx := i / 64
  let bitIdx := i % 64
  let r ← ranks.get wordIdx
  let w ← bm[wordIdx]?
  some (i - r - popcount (w % 2 ^ bitIdx))

/-- `bits.TrailingZeros64` (64 for a word without a one among its low 64 bits) -/
def tzAux (w : Nat) : (fuel k : Nat) → Nat
  | 0, k => k
  | fuel + 1, k => if w.testBit k then k else tzAux w fuel (k + 1)

def tz64 (w : Nat) : Nat := tzAux w 64 0

/-- the inner `for w := bm[i]; w > 0;` loop of `selectIthOne`;
result `inl bitIdx` = found, `inr find'` = word exhausted with `find'` ones still to skip. -/
def selInWord : (fuel w bitIdx find : Nat) → Nat ⊕ Nat
  | 0, _, _, find => .inr find
  | fuel + 1, w, bitIdx, find =>
    if w = 0 then .inr find else
    if w % 2 = 1 ∧ find = 0 then .inl bitIdx else
    let find := find - w % 2
    let t0 := tz64 (w / 2) + 1
    selInWord fuel (w >>> t0) (bitIdx + t0) find

/-- the outer word loop; `none` = `panic("no more ones")` or index out of range. -/
def selWords (bm : Array Nat) : (fuel i find : Nat) → Option Nat
  | 0, _, _ => none
  | fuel + 1, i, find => do
    let w ← bm[i]?
    match selInWord 65 w 0 find with
    | .inl bitIdx => some (i * 64 + bitIdx)
    | .inr find' => selWords bm fuel (i + 1) find'

/-- `selectIthOne(bm, ranks, selects, i)` -/
def selectIthOne (bm : Array Nat) (ranks selects : BitList) (i : Nat) : Option Nat := do
  let s ← selects.get (i / 64)
  let base := s / 64 * 64
  let r ← ranks.get (base / 64)
  selWords bm (bm.size + 1) (base / 64) (i - r)

/-- the label scan `for ; ; bmIdx++`: `some none` = `return false` (separator reached),
`some (some bmIdx)` = label found. -/
def scanLabels (t : Trie) : (fuel nodeId bmIdx code : Nat) → Option (Option Nat)
  | 0, _, _, _ => none
  | fuel + 1, nodeId, bmIdx, code => do
    if (← getBit t.labelBitmap bmIdx) then return none
    let l ← t.labels.get (bmIdx - nodeId)
    if l % 256 = code then return some bmIdx
    scanLabels t fuel nodeId (bmIdx + 1) code

def Trie.walk (t : Trie) : (word : Str) → (nodeId bmIdx : Nat) → Option Bool
  | [], nodeId, _ => getBit t.leaves nodeId
  | c :: w, nodeId, bmIdx => do
    if (← getBit t.leaves nodeId) then return true
    if !t.chars.isValid c then return false
    match ← scanLabels t (t.labelBitmap.size * 64 + 1) nodeId bmIdx (t.chars.code c) with
    | none => return false
    | some bm =>
      let nodeId' ← countZeros t.labelBitmap t.ranksBL (bm + 1)
      let sel ← selectIthOne t.labelBitmap t.ranksBL t.selectsBL (nodeId' - 1)
      Trie.walk t w nodeId' (sel + 1)

/-- `HasPrefix` -/
def Trie.hasPrefix (t : Trie) (word : Str) : Option Bool := t.walk word 0 0

/-- Contract: some stored key is a prefix of the word. -/
def hasPrefixSpec (keys : List Str) (w : Str) : Bool := keys.any fun k => k.isPrefixOf w

/-! ## 5. AhocorasickSlimtrie -/

inductive Kind where
  | full | suffix | keyword | regex | unknown
deriving DecidableEq, Repr

/-- One pattern of an `AddSet` call.  For `regex` patterns the two oracle fields say whether Go's
`regexp.Compile` accepts it and give it a number under which match results are reported. -/
structure Pat where
  s : Str
  rxOk : Bool := true
  rxId : Nat := 0
deriving Repr, DecidableEq

/-- alphabet of the Aho-Corasick library (`ahocorasick.IsValidChar`): the domain alphabet plus `$`. -/
def acChars : List Nat := strOf "abcdefghijklmnopqrstuvwxyz-.^$1234567890_"
def acValid (c : Nat) : Bool := acChars.contains c

def cDot : Nat := 46
def cHat : Nat := 94
def cDollar : Nat := 36

def lowerByte (c : Nat) : Nat := if 65 ≤ c ∧ c ≤ 90 then c + 32 else c
/-- `strings.ToLower` on ASCII input -/
def lower (s : Str) : Str := s.map lowerByte

/-- `strings.TrimSuffix(s, string(c))` -/
def trimSuffixByte (c : Nat) (s : Str) : Str := if s.getLast? = some c then s.dropLast else s

/-- `ToSuffixTrieString`: drop one trailing `$`, reverse. -/
def toSuffixTrieString (s : Str) : Str := (trimSuffixByte cDollar s).reverse

/-- what `AddSet` appends to `toBuildTrie` for one `full` pattern -/
def normFull (d : Str) : List Str :=
  if d.all domainChars.isValid then [cHat :: d ++ [cDollar]] else []

/-- … for one `suffix` pattern -/
def normSuffix (d : Str) : List Str :=
  if d.all domainChars.isValid then
    if d.head? = some cDot then [d ++ [cDollar]]
    else [cDot :: d ++ [cDollar], cHat :: d ++ [cDollar]]
  else []

def isMarker (c : Nat) : Bool := c == cHat || c == cDollar

/-- a byte a keyword may contain: the Aho-Corasick alphabet without the head / tail marks `^` `$`
that `MatchDomainBitmap` puts around the name -/
def kwValid (c : Nat) : Bool := acValid c && !isMarker c

/-- … to `toBuildAc` for one `keyword` pattern (after the `fix:` commits: a keyword with a byte outside
the Aho-Corasick alphabet, or with `^` / `$`, is skipped like the other kinds). -/
def normKeyword (d : Str) : List Str := if d.all kwValid then [d] else []

structure SetBuild where
  trie : List Str := []      -- toBuildTrie[i]
  ac : List Str := []        -- toBuildAc[i]
  rx : List Nat := []        -- n.regexp[i] (oracle numbers)
deriving Repr

inductive MErr where
  | tooMany | badRegex | unknownKind | charOutOfRange
deriving DecidableEq, Repr

structure Matcher where
  sets : Array SetBuild
  err : Option MErr := none
deriving Repr

def Matcher.new (bitLength : Nat) : Matcher := ⟨Array.replicate bitLength {}, none⟩

/-- `AddSet` -/
def Matcher.addSet (m : Matcher) (idx : Nat) (kind : Kind) (pats : List Pat) : Matcher :=
  if m.err.isSome then m
  else if idx ≥ m.sets.size then { m with err := some .tooMany }
  else match kind with
    | .full => { m with sets := m.sets.modify idx fun sb => { sb with trie := sb.trie ++ pats.flatMap (normFull ·.s) } }
    | .suffix => { m with sets := m.sets.modify idx fun sb => { sb with trie := sb.trie ++ pats.flatMap (normSuffix ·.s) } }
    | .keyword => { m with sets := m.sets.modify idx fun sb => { sb with ac := sb.ac ++ pats.flatMap (normKeyword ·.s) } }
    | .regex =>
      if pats.all (·.rxOk) then
        { m with sets := m.sets.modify idx fun sb => { sb with rx := sb.rx ++ pats.map (·.rxId) } }
      else { m with err := some .badRegex }
    | .unknown => if pats.isEmpty then m else { m with err := some .unknownKind }

structure BuiltSet where
  keys : List Str            -- `ToSuffixTrieStrings(toBuildTrie[i])`
  trie : Option Trie         -- `n.trie[i]`
  ac : List Str
  rx : List Nat
deriving Repr

structure Built where
  sets : Array BuiltSet
deriving Repr

def buildSet (sb : SetBuild) : Except MErr BuiltSet :=
  let keys := sb.trie.map toSuffixTrieString
  if !(sb.ac.all fun p => p.all acValid) then .error .charOutOfRange   -- ahocorasick.NewMatcher
  else if keys.isEmpty then .ok ⟨keys, none, sb.ac, sb.rx⟩
  else match Trie.build domainChars keys with
    | .ok t => .ok ⟨keys, some t, sb.ac, sb.rx⟩
    | _ => .error .charOutOfRange

/-- `Build` -/
def Matcher.build (m : Matcher) : Except MErr Built :=
  match m.err with
  | some e => .error e
  | none => do
    let sets ← m.sets.toList.mapM buildSet
    pure ⟨sets.toArray⟩

/-- substring test -/
def isInfix (p : Str) : Str → Bool
  | [] => p.isEmpty
  | c :: s => p.isPrefixOf (c :: s) || isInfix p s

/-- the Aho-Corasick library reads every input byte through its table, so a byte outside its
alphabet is read as `a` -/
def acNorm (c : Nat) : Nat := if acValid c then c else 97

/-- `ahocorasick.Matcher.Contains` (trusted library behaviour): some non-empty dictionary word
occurs in the input. -/
def acContains (pats : List Str) (input : Str) : Bool :=
  pats.any fun p => !p.isEmpty && isInfix p (input.map acNorm)

/-! ### the Aho-Corasick automaton of `github.com/v2rayA/ahocorasick-domain`

A trie node is identified by its path from the root (the library stores exactly that in `node.b`);
the root is `[]`.  `findBlice(s) != nil` = `s` is the root or a prefix of some dictionary word.
Symbols are the input bytes after the library's table (`acNorm`). -/

/-- `findBlice(s) != nil` for a non-empty `s`: some dictionary word starts with `s` -/
def acIsNode (dict : List Str) (s : Str) : Bool := dict.any fun w => s.isPrefixOf w

/-- `n.child[c]` -/
def acChild (dict : List Str) (n : Str) (c : Nat) : Option Str :=
  if acIsNode dict (n ++ [c]) then some (n ++ [c]) else none

/-- `node.output` -/
def acOutput (dict : List Str) (n : Str) : Bool := dict.contains n

/-- the first (= longest) non-empty suffix of `t` satisfying `q`, `[]` (the root) if there is none:
the loops `for j := 1; j < len(c.b); j++ { … findBlice(c.b[j:]) … break }` run over `t = c.b[1:]` -/
def longestSuffix (q : Str → Bool) : Str → Str
  | [] => []
  | c :: t => if q (c :: t) then c :: t else longestSuffix q t

/-- `node.fail`: the longest proper suffix that is a node, else the root -/
def acFail (dict : List Str) (n : Str) : Str := longestSuffix (acIsNode dict) n.tail

/-- `node.suffix`: the longest proper suffix that is a dictionary word, else the root -/
def acSuffix (dict : List Str) (n : Str) : Str := longestSuffix (acOutput dict) n.tail

/-- `node.fails[c]`: `for n.child[c] == nil && !n.root { n = n.fail }` -/
def acFails (dict : List Str) (c : Nat) : Nat → Str → Str
  | 0, n => n
  | fuel + 1, n => if (acChild dict n c).isNone && !n.isEmpty then acFails dict c fuel (acFail dict n) else n

/-- one iteration of the `Contains` loop: new state and whether it returns `true` here -/
def acStep (dict : List Str) (n : Str) (c : Nat) : Str × Bool :=
  let n0 := if n.isEmpty then n else acFails dict c (n.length + 1) n
  match acChild dict n0 c with
  | some f => (f, acOutput dict f || !(acSuffix dict f).isEmpty)
  | none => (n0, false)

def acRun (dict : List Str) : Str → Str → Bool
  | [], _ => false
  | c :: rest, n =>
    let r := acStep dict n c
    if r.2 then true else acRun dict rest r.1

/-- `NewMatcher(dict).Contains(input)` through the automaton -/
def acAuto (dict : List Str) (input : Str) : Bool := acRun dict (input.map acNorm) []

/-- `strings.ToLower(strings.TrimSuffix(domain, "."))` -/
def normName (name : Str) : Str := lower (trimSuffixByte cDot name)

/-- the trie query word `ToSuffixTrieString("^" + domain)` -/
def trieQuery (dom : Str) : Str := toSuffixTrieString (cHat :: dom)

/-- One bit of `MatchDomainBitmap` (bit-exact path: packed trie, Aho-Corasick automaton; `none` = panic
inside `HasPrefix`).
`rxHits` = numbers of the regex patterns Go's `regexp` matches against the normalised name. -/
def BuiltSet.matches (bs : BuiltSet) (dom : Str) (rxHits : List Nat) : Option Bool := do
  let t ← match bs.trie with
    | none => some false
    | some t => t.hasPrefix (trieQuery dom)
  some (t || acAuto bs.ac (cHat :: dom ++ [cDollar]) || bs.rx.any rxHits.contains)

/-- the same with the trie replaced by its contract -/
def BuiltSet.matchesSpec (bs : BuiltSet) (dom : Str) (rxHits : List Nat) : Bool :=
  hasPrefixSpec bs.keys (trieQuery dom) || acContains bs.ac (cHat :: dom ++ [cDollar]) || bs.rx.any rxHits.contains

/-- the bits of `MatchDomainBitmap`, one per set index (`none` = a panic inside `HasPrefix`) -/
def Built.matchBits (b : Built) (name : Str) (rxHits : List Nat) : Option (List Bool) :=
  let dom := normName name
  (List.range b.sets.size).mapM fun i =>
    match b.sets[i]? with
    | none => some false
    | some bs => bs.matches dom rxHits

/-- `MatchDomainBitmap`, as the list of set indices whose bit is 1. -/
def Built.matchIndices (b : Built) (name : Str) (rxHits : List Nat) : Option (List Nat) :=
  (b.matchBits name rxHits).map fun bits =>
    ((List.range b.sets.size).zip bits).filterMap fun p => if p.2 then some p.1 else none

/-- pack a bit list into 32-bit words, least significant bit first -/
def packWords32 : Nat → List Bool → List Nat
  | 0, _ => []
  | fuel + 1, bits =>
    match bits with
    | [] => []
    | _ => wordOfBits (bits.take 32) :: packWords32 fuel (bits.drop 32)

/-- `MatchDomainBitmap` as the Go caller sees it: `[]uint32` of length `ceil(len(n.ac)/32)`,
bit `i%32` of word `i/32` belongs to set `i`. -/
def Built.matchBitmap (b : Built) (name : Str) (rxHits : List Nat) : Option (List Nat) :=
  (b.matchBits name rxHits).map fun bits => packWords32 (bits.length + 1) bits

/-- `AddSet` with Go's `int` index: a negative index is refused like one beyond the table. -/
def Matcher.addSetInt (m : Matcher) (idx : Int) (kind : Kind) (pats : List Pat) : Matcher :=
  if idx < 0 then (if m.err.isSome then m else { m with err := some .tooMany })
  else m.addSet idx.toNat kind pats

/-- a matcher that was never built: every index list is empty, the answer is all zeros -/
def Built.unbuilt (n : Nat) : Built := ⟨Array.replicate n ⟨[], none, [], []⟩⟩

/-- a second `Build` (API misuse, not reached by dae): `toBuildAc/toBuildTrie` were released, the trie and
Aho-Corasick index lists are reset and nothing is rebuilt; only the regex index list is collected again. -/
def Built.rebuild (b : Built) : Built := ⟨b.sets.map fun bs => { bs with keys := [], trie := none, ac := [] }⟩

def Built.matchIndicesSpec (b : Built) (name : Str) (rxHits : List Nat) : List Nat :=
  let dom := normName name
  (List.range b.sets.size).filter fun i =>
    match b.sets[i]? with
    | none => false
    | some bs => bs.matchesSpec dom rxHits

/-! ## 6. What the pattern kinds are documented to match -/

/-- What a keyword is documented to match (stated without reference to how the code looks it up):
a leading `^` anchors it at the start of the name, a trailing `$` at the end; the rest `k` must be
free of those two bytes.  `^k$` = the name is `k`; `^k` = the name starts with `k`; `k$` = the name
ends with `k`; plain `k` = the name contains `k`.  The empty keyword matches nothing (the
Aho-Corasick library never reports the empty word). -/
def kwMeaning (p name : Str) : Bool :=
  if p.isEmpty then false else
  let a := p.head? == some cHat
  let p1 := if a then p.tail else p
  let z := p1.getLast? == some cDollar
  let k := if z then p1.dropLast else p1
  if k.any isMarker then false
  else match a, z with
    | true, true => name == k
    | true, false => k.isPrefixOf name
    | false, true => k.isSuffixOf name
    | false, false => isInfix k name

/-- `name` is the normalised name (lower case, one trailing dot removed). -/
def patMatches (kind : Kind) (p : Pat) (name : Str) (rxHits : List Nat) : Bool :=
  match kind with
  | .full => name == p.s
  | .suffix =>
    if p.s.head? = some cDot then p.s.isSuffixOf name
    else name == p.s || (cDot :: p.s).isSuffixOf name
  | .keyword => !p.s.isEmpty && isInfix p.s name
  | .regex => rxHits.contains p.rxId
  | .unknown => false

/-- which patterns take part at all (the others are skipped with a warning) -/
def patValid (kind : Kind) (p : Pat) : Bool :=
  match kind with
  | .full | .suffix => p.s.all domainChars.isValid
  | .keyword => p.s.all kwValid
  | .regex => true
  | .unknown => false

/-- bytes of a normalised name inside the property's quantifier: lower-case letters, digits, `-`, `_`, `.` -/
def plainDomByte (c : Nat) : Bool :=
  (48 ≤ c && c ≤ 57) || (97 ≤ c && c ≤ 122) || c == 45 || c == 95 || c == 46

/-- … of a queried name: additionally upper-case letters -/
def plainByte (c : Nat) : Bool := plainDomByte c || (65 ≤ c && c ≤ 90)

/-- the names the property quantifies over -/
def plainName (n : Str) : Bool := n.all plainByte

structure AddCall where
  idx : Nat
  kind : Kind
  pats : List Pat
deriving Repr

/-- the meaning of a whole configuration for set `i`: some valid pattern added under index `i`
matches. -/
def docMatchesCore (log : List AddCall) (i : Nat) (name : Str) (rxHits : List Nat) : Bool :=
  let dom := normName name
  log.any fun a => a.idx == i && a.pats.any fun p => patMatches a.kind p dom rxHits && patValid a.kind p

def Matcher.replayCore (bitLength : Nat) (log : List AddCall) : Matcher :=
  log.foldl (fun m a => m.addSet a.idx a.kind a.pats) (Matcher.new bitLength)

/-! ### letter case of the patterns (`d = strings.ToLower(d)` at the top of the `AddSet` loop) -/

/-- `AddSet` lower-cases full / suffix / keyword patterns (ASCII, like the queried name); regexes are
compiled as written. -/
def lowerPats (kind : Kind) (pats : List Pat) : List Pat :=
  match kind with
  | .regex => pats
  | _ => pats.map fun p => { p with s := lower p.s }

def AddCall.lowered (a : AddCall) : AddCall := { a with pats := lowerPats a.kind a.pats }

/-- `AddSet` as the Go code has it: lower-case, then screen and store (`Matcher.addSet`). -/
def Matcher.addSetGo (m : Matcher) (idx : Nat) (kind : Kind) (pats : List Pat) : Matcher :=
  m.addSet idx kind (lowerPats kind pats)

/-- the matcher after a sequence of `AddSet` calls -/
def Matcher.replay (bitLength : Nat) (log : List AddCall) : Matcher :=
  Matcher.replayCore bitLength (log.map AddCall.lowered)

/-- the meaning of a configuration written in any letter case: that of its lower-cased patterns -/
def docMatches (log : List AddCall) (i : Nat) (name : Str) (rxHits : List Nat) : Bool :=
  docMatchesCore (log.map AddCall.lowered) i name rxHits

end DaeVerif.C11
