import DaeVerif.C11.Model
/-!
# C11 — `CompactBitList`: `Get` after `Append`s returns the appended values

The buffer is read as one flat little-endian bit sequence (`bitAt`): unit `i` of a list with unit
size `u` occupies flat bits `i*u … i*u+u-1`.
-/
namespace DaeVerif.C11
open List

/-- flat bit `pos` of the `uint16` buffer -/
def bitAt (buf : Array Nat) (pos : Nat) : Bool := (buf[pos / 16]?.getD 0).testBit (pos % 16)

/-- every word is a `uint16` -/
def WordsOk (buf : Array Nat) : Prop := ∀ (i : Nat) (w : Nat), buf[i]? = some w → w < 65536

theorem writeWord_testBit (w k m : Nat) (b : Bool) (hk : k < 16) (hw : w < 65536) :
    ((w &&& (65535 ^^^ (1 <<< k))) ||| (if b then 1 <<< k else 0)).testBit m =
      if m = k then b else w.testBit m := by
  have h65 : (65535 : Nat) = 2 ^ 16 - 1 := by decide
  rw [Nat.testBit_or, Nat.testBit_and, Nat.testBit_xor, h65, Nat.testBit_two_pow_sub_one,
    Nat.one_shiftLeft, Nat.testBit_two_pow]
  have hb : (if b then 2 ^ k else 0).testBit m = (b && decide (k = m)) := by
    cases b <;> simp [Nat.testBit_two_pow]
  rw [hb]
  by_cases e : m = k
  · subst e; simp [hk]
  · have e' : ¬ k = m := fun h => e h.symm
    by_cases h16 : m < 16
    · simp [e, e', h16]
    · have : w.testBit m = false := by
        apply Nat.testBit_lt_two_pow
        calc w < 2 ^ 16 := hw
          _ ≤ 2 ^ m := Nat.pow_le_pow_right (by decide) (by omega)
      simp [e, e', this]

theorem writeWord_lt (w k : Nat) (b : Bool) (hk : k < 16) (hw : w < 65536) :
    ((w &&& (65535 ^^^ (1 <<< k))) ||| (if b then 1 <<< k else 0)) < 65536 := by
  have : (65536 : Nat) = 2 ^ 16 := by decide
  rw [this]
  apply Nat.lt_pow_two_of_testBit
  intro i hi
  rw [writeWord_testBit w k i b hk hw]
  have : w.testBit i = false := by
    apply Nat.testBit_lt_two_pow
    calc w < 2 ^ 16 := hw
      _ ≤ 2 ^ i := Nat.pow_le_pow_right (by decide) hi
  rw [if_neg (by omega), this]

theorem writeBit_size (buf : Array Nat) (pos : Nat) (b : Bool) : (writeBit buf pos b).size = buf.size := by
  simp [writeBit]

theorem writeBit_ok (buf : Array Nat) (pos : Nat) (b : Bool) (h : WordsOk buf) : WordsOk (writeBit buf pos b) := by
  intro i w hw
  unfold writeBit at hw
  rw [Array.getElem?_modify] at hw
  by_cases e : pos / 16 = i
  · rw [if_pos e] at hw
    cases hb : buf[i]? with
    | none => rw [hb] at hw; simp at hw
    | some w0 =>
      rw [hb] at hw; simp at hw; subst hw
      exact writeWord_lt w0 (pos % 16) b (Nat.mod_lt _ (by decide)) (h i w0 hb)
  · rw [if_neg e] at hw; exact h i w hw

theorem writeBit_bitAt (buf : Array Nat) (pos q : Nat) (b : Bool) (h : WordsOk buf)
    (hin : pos / 16 < buf.size) :
    bitAt (writeBit buf pos b) q = if q = pos then b else bitAt buf q := by
  unfold bitAt writeBit
  rw [Array.getElem?_modify]
  by_cases e : pos / 16 = q / 16
  · rw [if_pos e]
    have hq : q / 16 < buf.size := by omega
    have hw : buf[q / 16]? = some buf[q / 16] := Array.getElem?_eq_getElem hq
    rw [hw]
    simp only [Option.map_some, Option.getD_some]
    rw [writeWord_testBit _ _ _ _ (Nat.mod_lt _ (by decide)) (h _ _ hw)]
    by_cases e2 : q = pos
    · subst e2; simp
    · have : ¬ q % 16 = pos % 16 := by omega
      rw [if_neg this, if_neg e2]
  · rw [if_neg e]
    have : q ≠ pos := by rintro rfl; exact e rfl
    rw [if_neg this]

theorem writeBitsFrom_size (p v : Nat) : ∀ n k buf, (writeBitsFrom p v n k buf).size = buf.size
  | 0, _, _ => rfl
  | n + 1, k, buf => by rw [writeBitsFrom, writeBitsFrom_size p v n, writeBit_size]

theorem writeBitsFrom_ok (p v : Nat) : ∀ n k buf, WordsOk buf → WordsOk (writeBitsFrom p v n k buf)
  | 0, _, _, h => h
  | n + 1, k, buf, h => by rw [writeBitsFrom]; exact writeBitsFrom_ok p v n _ _ (writeBit_ok _ _ _ h)

theorem writeBitsFrom_bitAt (p v : Nat) : ∀ n k buf q, WordsOk buf → (p + k + n + 15) / 16 ≤ buf.size →
    bitAt (writeBitsFrom p v n k buf) q =
      if p + k ≤ q ∧ q < p + k + n then v.testBit (q - p) else bitAt buf q
  | 0, k, buf, q, _, _ => by rw [writeBitsFrom, if_neg (by omega)]
  | n + 1, k, buf, q, h, hin => by
    rw [writeBitsFrom, writeBitsFrom_bitAt p v n (k + 1) _ q (writeBit_ok _ _ _ h)
      (by rw [writeBit_size]; omega), writeBit_bitAt _ _ _ _ h (by omega)]
    by_cases e : q = p + k
    · subst e
      rw [if_neg (by omega), if_pos rfl, if_pos (by omega)]
      congr 1; omega
    · rw [if_neg e]
      by_cases h1 : p + (k + 1) ≤ q ∧ q < p + (k + 1) + n
      · rw [if_pos h1, if_pos (by omega)]
      · rw [if_neg h1, if_neg (by omega)]

theorem writeBits_size (buf : Array Nat) (p v : Nat) (n : Nat) : (writeBits buf p v n).size = buf.size :=
  writeBitsFrom_size p v n 0 buf

theorem writeBits_ok (buf : Array Nat) (p v : Nat) (h : WordsOk buf) (n : Nat) : WordsOk (writeBits buf p v n) :=
  writeBitsFrom_ok p v n 0 buf h

/-- after the bit writes of `Set`, flat bits `p … p+n-1` hold `v`, all others are untouched -/
theorem writeBits_bitAt (buf : Array Nat) (p v : Nat) (h : WordsOk buf) (n q : Nat)
    (hin : (p + n + 15) / 16 ≤ buf.size) :
    bitAt (writeBits buf p v n) q = if p ≤ q ∧ q < p + n then v.testBit (q - p) else bitAt buf q := by
  have := writeBitsFrom_bitAt p v n 0 buf q h (by simpa using hin)
  simpa [writeBits] using this

/-! ### `Get` -/

theorem bitAt_eq (buf : Array Nat) (a r q w : Nat) (hr : r < 16) (hq : q = 16 * a + r)
    (h : buf[a]? = some w) : bitAt buf q = w.testBit r := by
  subst hq
  unfold bitAt
  have h1 : (16 * a + r) / 16 = a := by omega
  have h2 : (16 * a + r) % 16 = r := by omega
  rw [h1, h2, h]; rfl

theorem testBit_high_false (w m : Nat) (hw : w < 65536) (hm : 16 ≤ m) : w.testBit m = false := by
  apply Nat.testBit_lt_two_pow
  calc w < 2 ^ 16 := hw
    _ ≤ 2 ^ m := Nat.pow_le_pow_right (by decide) hm

theorem getWords_spec (buf : Array Nat) (hok : WordsOk buf) :
    ∀ (n i offset v : Nat), i + n ≤ buf.size →
      ∃ v', getWords buf n i offset v = some v' ∧
        ∀ k, v'.testBit k = (v.testBit k ||
          (decide (offset ≤ k ∧ k < offset + 16 * n) && bitAt buf (16 * i + (k - offset))))
  | 0, i, offset, v, _ => ⟨v, rfl, by intro k; simp; omega⟩
  | n + 1, i, offset, v, hin => by
    have hi : i < buf.size := by omega
    have hw : buf[i]? = some buf[i] := Array.getElem?_eq_getElem hi
    obtain ⟨v', hv', hbits⟩ := getWords_spec buf hok n (i + 1) (offset + 16) (v ||| (buf[i] <<< offset)) (by omega)
    refine ⟨v', by rw [getWords, hw]; exact hv', ?_⟩
    intro k
    rw [hbits k, Nat.testBit_or, Nat.testBit_shiftLeft]
    have hwlt := hok i _ hw
    by_cases h1 : offset ≤ k ∧ k < offset + 16
    · -- the bit comes from word i
      have e : bitAt buf (16 * i + (k - offset)) = buf[i].testBit (k - offset) :=
        bitAt_eq buf i (k - offset) _ _ (by omega) rfl hw
      rw [e]
      have c1 : decide (k ≥ offset) = true := by simp; omega
      have c2 : decide (offset + 16 ≤ k ∧ k < offset + 16 + 16 * n) = false := by simp; omega
      have c3 : decide (offset ≤ k ∧ k < offset + 16 * (n + 1)) = true := by simp; omega
      rw [c1, c2, c3]; simp
    · have hz : (decide (k ≥ offset) && buf[i].testBit (k - offset)) = false := by
        by_cases h2 : k ≥ offset
        · rw [testBit_high_false _ _ hwlt (by omega)]; simp
        · simp [h2]
      rw [hz]
      by_cases h3 : offset + 16 ≤ k ∧ k < offset + 16 + 16 * n
      · have c2 : decide (offset + 16 ≤ k ∧ k < offset + 16 + 16 * n) = true := by simp; omega
        have c3 : decide (offset ≤ k ∧ k < offset + 16 * (n + 1)) = true := by simp; omega
        have e : 16 * (i + 1) + (k - (offset + 16)) = 16 * i + (k - offset) := by omega
        rw [c2, c3, e]; simp
      · have c2 : decide (offset + 16 ≤ k ∧ k < offset + 16 + 16 * n) = false := by simp; omega
        have c3 : decide (offset ≤ k ∧ k < offset + 16 * (n + 1)) = false := by simp; omega
        rw [c2, c3]; simp

/-- **`Get`** returns the `unit` flat bits starting at `i*unit`. -/
theorem get_spec (m : BitList) (i : Nat) (hok : WordsOk m.buf) (hu0 : 0 < m.unit)
    (hin : (i + 1) * m.unit ≤ m.buf.size * 16) :
    ∃ v, m.get i = some v ∧ ∀ k, v.testBit k = (decide (k < m.unit) && bitAt m.buf (i * m.unit + k)) := by
  have hmul : (i + 1) * m.unit = i * m.unit + m.unit := by rw [Nat.add_mul]; simp
  generalize hp : i * m.unit = p at *
  generalize hu : m.unit = u at *
  have hi0 : p / 16 < m.buf.size := by omega
  have hw0 : m.buf[p / 16]? = some m.buf[p / 16] := Array.getElem?_eq_getElem hi0
  have hw0lt := hok _ _ hw0
  unfold BitList.get
  simp only [hp, hu, hmul]
  rw [if_neg (by omega)]
  by_cases hA : 16 - p % 16 > u
  · rw [if_pos hA]
    simp only [hw0, Option.bind_eq_bind, Option.bind_some]
    refine ⟨_, rfl, ?_⟩
    intro k
    have h216 : (65536 : Nat) = 2 ^ 16 := by decide
    rw [Nat.testBit_shiftRight, h216, Nat.testBit_mod_two_pow, Nat.testBit_shiftLeft]
    by_cases hk : k < u
    · have e : bitAt m.buf (p + k) = m.buf[p / 16].testBit (p % 16 + k) :=
        bitAt_eq m.buf (p / 16) (p % 16 + k) _ _ (by omega) (by omega) hw0
      have c1 : decide (16 - p % 16 - u + p % 16 + k < 16) = true := by simp; omega
      have c2 : decide (16 - p % 16 - u + p % 16 + k ≥ 16 - p % 16 - u) = true := by simp; omega
      have c3 : 16 - p % 16 - u + p % 16 + k - (16 - p % 16 - u) = p % 16 + k := by omega
      rw [c1, c2, c3, e]; simp [hk]
    · have c1 : decide (16 - p % 16 - u + p % 16 + k < 16) = false := by simp; omega
      rw [c1]; simp [hk]
  · rw [if_neg hA]
    simp only [hw0, Option.bind_eq_bind, Option.bind_some]
    have hnfull : p / 16 + 1 + (u - (16 - p % 16)) / 16 ≤ m.buf.size := by omega
    obtain ⟨v1, hv1, hbits1⟩ := getWords_spec m.buf hok ((u - (16 - p % 16)) / 16) (p / 16 + 1)
      (16 - p % 16) (m.buf[p / 16] >>> (p % 16)) hnfull
    rw [hv1]
    simp only [Option.bind_some]
    -- bits of v1
    have hv1bits : ∀ k, v1.testBit k =
        (decide (k < 16 - p % 16 + 16 * ((u - (16 - p % 16)) / 16)) && bitAt m.buf (p + k)) := by
      intro k
      rw [hbits1 k, Nat.testBit_shiftRight]
      by_cases h1 : k < 16 - p % 16
      · have e : bitAt m.buf (p + k) = m.buf[p / 16].testBit (p % 16 + k) :=
          bitAt_eq m.buf (p / 16) (p % 16 + k) _ _ (by omega) (by omega) hw0
        have c1 : decide (16 - p % 16 ≤ k ∧ k < 16 - p % 16 + 16 * ((u - (16 - p % 16)) / 16)) = false := by
          simp; omega
        have c2 : decide (k < 16 - p % 16 + 16 * ((u - (16 - p % 16)) / 16)) = true := by simp; omega
        rw [c1, c2, e]; simp
      · rw [testBit_high_false _ _ hw0lt (by omega)]
        have e : 16 * (p / 16 + 1) + (k - (16 - p % 16)) = p + k := by omega
        rw [e]
        by_cases h2 : k < 16 - p % 16 + 16 * ((u - (16 - p % 16)) / 16)
        · have c1 : decide (16 - p % 16 ≤ k ∧ k < 16 - p % 16 + 16 * ((u - (16 - p % 16)) / 16)) = true := by
            simp; omega
          have c2 : decide (k < 16 - p % 16 + 16 * ((u - (16 - p % 16)) / 16)) = true := by simp; omega
          rw [c1, c2]; simp
        · have c1 : decide (16 - p % 16 ≤ k ∧ k < 16 - p % 16 + 16 * ((u - (16 - p % 16)) / 16)) = false := by
            simp; omega
          have c2 : decide (k < 16 - p % 16 + 16 * ((u - (16 - p % 16)) / 16)) = false := by simp; omega
          rw [c1, c2]; simp
    by_cases hr : (u - (16 - p % 16)) % 16 = 0
    · rw [if_pos hr]
      refine ⟨v1, rfl, ?_⟩
      intro k
      rw [hv1bits k]
      have : 16 - p % 16 + 16 * ((u - (16 - p % 16)) / 16) = u := by omega
      rw [this]
    · rw [if_neg hr]
      have hi2 : p / 16 + 1 + (u - (16 - p % 16)) / 16 < m.buf.size := by omega
      have hw2 : m.buf[p / 16 + 1 + (u - (16 - p % 16)) / 16]? = some m.buf[p / 16 + 1 + (u - (16 - p % 16)) / 16] :=
        Array.getElem?_eq_getElem hi2
      have hw2lt := hok _ _ hw2
      rw [hw2]
      simp only [Option.bind_some]
      generalize hw2g : m.buf[p / 16 + 1 + (u - (16 - p % 16)) / 16] = w2 at *
      generalize hnf : (u - (16 - p % 16)) / 16 = nf at *
      generalize hrr : (u - (16 - p % 16)) % 16 = r at *
      have hr16 : r < 16 := by omega
      have hu' : u = 16 - p % 16 + 16 * nf + r := by omega
      have h216 : (65536 : Nat) = 2 ^ 16 := by decide
      -- the tail bits: positions off … off+r-1 hold the low r bits of w2
      have tail : ∀ k, (decide (16 - p % 16 + 16 * nf ≤ k ∧ k < u) && w2.testBit (k - (16 - p % 16 + 16 * nf))) =
          (decide (16 - p % 16 + 16 * nf ≤ k ∧ k < u) && bitAt m.buf (p + k)) := by
        intro k
        by_cases hk : 16 - p % 16 + 16 * nf ≤ k ∧ k < u
        · have e : bitAt m.buf (p + k) = w2.testBit (k - (16 - p % 16 + 16 * nf)) :=
            bitAt_eq m.buf (p / 16 + 1 + nf) _ _ _ (by omega) (by omega) hw2
          rw [e]
        · simp [hk]
      by_cases hoff : 16 - p % 16 + 16 * nf > 16 - r
      · rw [if_pos hoff]
        refine ⟨_, rfl, ?_⟩
        intro k
        rw [Nat.testBit_or, hv1bits k, Nat.testBit_shiftLeft, h216, Nat.testBit_mod_two_pow,
          Nat.testBit_shiftLeft]
        by_cases hk1 : k < 16 - p % 16 + 16 * nf
        · have c1 : (decide (k ≥ 16 - p % 16 + 16 * nf - (16 - r)) &&
              (decide (k - (16 - p % 16 + 16 * nf - (16 - r)) < 16) &&
                (decide (k - (16 - p % 16 + 16 * nf - (16 - r)) ≥ 16 - r) &&
                  w2.testBit (k - (16 - p % 16 + 16 * nf - (16 - r)) - (16 - r))))) = false := by
            by_cases h : k ≥ 16 - p % 16 + 16 * nf - (16 - r)
            · have : decide (k - (16 - p % 16 + 16 * nf - (16 - r)) ≥ 16 - r) = false := by simp; omega
              rw [this]; simp
            · have : decide (k ≥ 16 - p % 16 + 16 * nf - (16 - r)) = false := by simp; omega
              rw [this]; simp
          rw [c1]
          have : decide (k < u) = true := by simp; omega
          simp [hk1, this]
        · have hk1' : decide (k < 16 - p % 16 + 16 * nf) = false := by simp; omega
          rw [hk1']
          simp only [Bool.false_and, Bool.false_or]
          have := tail k
          by_cases hk2 : k < u
          · have c0 : decide (16 - p % 16 + 16 * nf ≤ k ∧ k < u) = true := by simp; omega
            rw [c0] at this
            simp only [Bool.true_and] at this
            have c1 : decide (k ≥ 16 - p % 16 + 16 * nf - (16 - r)) = true := by simp; omega
            have c2 : decide (k - (16 - p % 16 + 16 * nf - (16 - r)) < 16) = true := by simp; omega
            have c3 : decide (k - (16 - p % 16 + 16 * nf - (16 - r)) ≥ 16 - r) = true := by simp; omega
            have c4 : k - (16 - p % 16 + 16 * nf - (16 - r)) - (16 - r) = k - (16 - p % 16 + 16 * nf) := by omega
            rw [c1, c2, c3, c4, this]; simp [hk2]
          · have c2 : decide (k - (16 - p % 16 + 16 * nf - (16 - r)) < 16) = false := by simp; omega
            rw [c2]; simp [hk2]
      · rw [if_neg hoff]
        refine ⟨_, rfl, ?_⟩
        intro k
        rw [Nat.testBit_or, hv1bits k, Nat.testBit_shiftRight, h216, Nat.testBit_mod_two_pow,
          Nat.testBit_shiftLeft]
        by_cases hk1 : k < 16 - p % 16 + 16 * nf
        · have c1 : decide (16 - r - (16 - p % 16 + 16 * nf) + k ≥ 16 - r) = false := by simp; omega
          rw [c1]
          have : decide (k < u) = true := by simp; omega
          simp [hk1, this]
        · have hk1' : decide (k < 16 - p % 16 + 16 * nf) = false := by simp; omega
          rw [hk1']
          simp only [Bool.false_and, Bool.false_or]
          have := tail k
          by_cases hk2 : k < u
          · have c0 : decide (16 - p % 16 + 16 * nf ≤ k ∧ k < u) = true := by simp; omega
            rw [c0] at this
            simp only [Bool.true_and] at this
            have c1 : decide (16 - r - (16 - p % 16 + 16 * nf) + k < 16) = true := by simp; omega
            have c3 : decide (16 - r - (16 - p % 16 + 16 * nf) + k ≥ 16 - r) = true := by simp; omega
            have c4 : 16 - r - (16 - p % 16 + 16 * nf) + k - (16 - r) = k - (16 - p % 16 + 16 * nf) := by omega
            rw [c1, c3, c4, this]; simp [hk2]
          · have c2 : decide (16 - r - (16 - p % 16 + 16 * nf) + k < 16) = false := by simp; omega
            rw [c2]; simp [hk2]

/-! ### `Append` -/

theorem len64_le_iff (v u : Nat) : len64 v ≤ u ↔ v < 2 ^ u := by
  unfold len64
  by_cases h : v = 0
  · subst h; simp [Nat.two_pow_pos]
  · rw [if_neg h]
    rw [← Nat.log2_lt h]
    omega

theorem growBuf_spec (buf : Array Nat) (u i : Nat) (hok : WordsOk buf) :
    WordsOk (growBuf buf u i) ∧ (i + 1) * u ≤ (growBuf buf u i).size * 16 ∧
    buf.size ≤ (growBuf buf u i).size ∧
    ∀ q, q < buf.size * 16 → bitAt (growBuf buf u i) q = bitAt buf q := by
  unfold growBuf
  simp only
  by_cases h : buf.size * 16 < (i + 1) * u
  · rw [if_pos h]
    refine ⟨?_, ?_, ?_, ?_⟩
    · intro j w hw
      rw [Array.getElem?_append] at hw
      by_cases hj : j < buf.size
      · rw [if_pos hj] at hw; exact hok j w hw
      · rw [if_neg hj, Array.getElem?_replicate] at hw
        have : w = 0 := by
          split at hw <;> simp at hw <;> omega
        subst this; decide
    · simp only [Array.size_append, Array.size_replicate]
      by_cases hm : ((i + 1) * u) % 16 = 0
      · have : ((i + 1) * u % 16 != 0) = false := by simp [hm]
        rw [this]; simp only [Bool.false_eq_true, ↓reduceIte]; omega
      · have : ((i + 1) * u % 16 != 0) = true := by simp [hm]
        rw [this]; simp only [↓reduceIte]; omega
    · simp
    · intro q hq
      unfold bitAt
      rw [Array.getElem?_append, if_pos (by omega)]
  · rw [if_neg h]
    exact ⟨hok, by omega, Nat.le_refl _, fun _ _ => rfl⟩

/-- the state of a list after appending `vs` -/
structure BLInv (u : Nat) (vs : List Nat) (m : BitList) : Prop where
  unit : m.unit = u
  num : m.unitNum = vs.length
  ok : WordsOk m.buf
  size : vs.length * u ≤ m.buf.size * 16
  bits : ∀ i k, i < vs.length → k < u → bitAt m.buf (i * u + k) = (vs.getD i 0).testBit k

theorem BLInv.new (u : Nat) : BLInv u [] (BitList.new u) :=
  ⟨rfl, rfl, by intro i w h; simp [BitList.new] at h, by simp, by intro i k h; simp at h⟩

theorem BLInv.append {u : Nat} {vs : List Nat} {m : BitList} (h : BLInv u vs m) (v : Nat) (hv : v < 2 ^ u) :
    BLInv u (vs ++ [v]) (m.setRaw m.unitNum v) := by
  obtain ⟨mu, buf, mn⟩ := m
  have hunit : mu = u := h.unit
  have hnum : mn = vs.length := h.num
  subst hunit hnum
  have hok : WordsOk buf := h.ok
  have hsize := h.size
  have hbits := h.bits
  simp only at hsize hbits hok
  obtain ⟨g1, g2, g3, g4⟩ := growBuf_spec buf mu vs.length hok
  have hmul : (vs.length + 1) * mu = vs.length * mu + mu := by rw [Nat.add_mul]; simp
  have hwb := writeBits_bitAt (growBuf buf mu vs.length) (vs.length * mu) v g1 mu
  simp only [BitList.setRaw]
  refine ⟨rfl, by simp, writeBits_ok _ _ _ g1 _, ?_, ?_⟩
  · simp only [writeBits_size, List.length_append, List.length_singleton]; omega
  · intro i k hi hk
    simp only [List.length_append, List.length_singleton] at hi
    rw [hwb _ (by omega)]
    by_cases hlast : i = vs.length
    · subst hlast
      have c : vs.length * mu ≤ vs.length * mu + k ∧ vs.length * mu + k < vs.length * mu + mu := by omega
      rw [if_pos c]
      simp
    · have hi' : i < vs.length := by omega
      have hlt : i * mu + k < vs.length * mu := by
        have : (i + 1) * mu ≤ vs.length * mu := Nat.mul_le_mul_right _ (by omega)
        rw [Nat.add_mul] at this; omega
      rw [if_neg (by omega), g4 _ (by omega), hbits i k hi' hk]
      simp [List.getD_eq_getElem?_getD, List.getElem?_append_left hi']

theorem ofList_inv (u : Nat) (vs : List Nat) (hv : ∀ v ∈ vs, v < 2 ^ u) : BLInv u vs (BitList.ofList u vs) := by
  have gen : ∀ (vs vs0 : List Nat) (m : BitList), BLInv u vs0 m → (∀ v ∈ vs, v < 2 ^ u) →
      BLInv u (vs0 ++ vs)
        (vs.foldl (fun m v => if len64 v > m.unit then m else m.setRaw m.unitNum v) m) := by
    intro vs
    induction vs with
    | nil => intro vs0 m h _; simpa using h
    | cons v vs ih =>
      intro vs0 m h hall
      have hv0 : v < 2 ^ u := hall v (by simp)
      have hle : ¬ len64 v > m.unit := by
        rw [h.unit]; have := (len64_le_iff v u).mpr hv0; omega
      simp only [List.foldl_cons, if_neg hle]
      have := ih (vs0 ++ [v]) _ (h.append v hv0) (fun x hx => hall x (by simp [hx]))
      simpa using this
  have := gen vs [] (BitList.new u) (BLInv.new u) hv
  simpa [BitList.ofList] using this

/-- **`Get` after `Append`s.** For every unit size `u ≥ 1`, a list built by appending values that
fit in `u` bits returns them. -/
theorem BitList.ofList_get (u : Nat) (vs : List Nat) (hu : 0 < u) (hv : ∀ v ∈ vs, v < 2 ^ u)
    (i : Nat) (hi : i < vs.length) : (BitList.ofList u vs).get i = some vs[i] := by
  have inv := ofList_inv u vs hv
  have hin : (i + 1) * (BitList.ofList u vs).unit ≤ (BitList.ofList u vs).buf.size * 16 := by
    rw [inv.unit]
    have : (i + 1) * u ≤ vs.length * u := Nat.mul_le_mul_right _ (by omega)
    have := inv.size; omega
  obtain ⟨v, hget, hbits⟩ := get_spec (BitList.ofList u vs) i inv.ok (by rw [inv.unit]; exact hu) hin
  rw [hget]
  congr 1
  apply Nat.eq_of_testBit_eq
  intro k
  rw [hbits k, inv.unit]
  by_cases hk : k < u
  · rw [inv.bits i k hi hk]
    simp [hk, List.getD_eq_getElem?_getD, List.getElem?_eq_getElem hi]
  · have : vs[i].testBit k = false := by
      apply Nat.testBit_lt_two_pow
      calc vs[i] < 2 ^ u := hv _ (List.getElem_mem hi)
        _ ≤ 2 ^ k := Nat.pow_le_pow_right (by decide) (by omega)
    simp [hk, this]

/-! ### `Set` at an arbitrary index -/

theorem setRaw_ok (m : BitList) (i v : Nat) (hok : WordsOk m.buf) : WordsOk (m.setRaw i v).buf := by
  obtain ⟨u, buf, num⟩ := m
  exact writeBits_ok _ _ _ (growBuf_spec buf u i hok).1 _

theorem setRaw_bitAt (m : BitList) (i v q : Nat) (hok : WordsOk m.buf) :
    (i + 1) * m.unit ≤ (m.setRaw i v).buf.size * 16 ∧ m.buf.size ≤ (m.setRaw i v).buf.size ∧
    (m.setRaw i v).unit = m.unit ∧
    bitAt (m.setRaw i v).buf q =
      if i * m.unit ≤ q ∧ q < i * m.unit + m.unit then v.testBit (q - i * m.unit)
      else bitAt (growBuf m.buf m.unit i) q := by
  obtain ⟨u, buf, num⟩ := m
  obtain ⟨g1, g2, g3, _⟩ := growBuf_spec buf u i hok
  have hmul : (i + 1) * u = i * u + u := by rw [Nat.add_mul]; simp
  simp only [BitList.setRaw, writeBits_size]
  refine ⟨g2, g3, trivial, ?_⟩
  exact writeBits_bitAt _ _ _ g1 u q (by omega)

/-- **`Get` after `Set` (same index)**: every unit size ≥ 1, every index, every value that fits. -/
theorem get_setRaw_same (m : BitList) (i v : Nat) (hok : WordsOk m.buf) (hu : 0 < m.unit)
    (hv : v < 2 ^ m.unit) : (m.setRaw i v).get i = some v := by
  obtain ⟨h1, _, h3, _⟩ := setRaw_bitAt m i v 0 hok
  obtain ⟨x, hx, hbits⟩ := get_spec (m.setRaw i v) i (setRaw_ok m i v hok) (by rw [h3]; exact hu) (by rw [h3]; exact h1)
  rw [hx]; congr 1
  apply Nat.eq_of_testBit_eq
  intro k
  rw [hbits k, h3]
  by_cases hk : k < m.unit
  · rw [(setRaw_bitAt m i v (i * m.unit + k) hok).2.2.2, if_pos (by omega)]
    simp [hk]
  · have : v.testBit k = false := by
      apply Nat.testBit_lt_two_pow
      calc v < 2 ^ m.unit := hv
        _ ≤ 2 ^ k := Nat.pow_le_pow_right (by decide) (by omega)
    simp [hk, this]

/-- **`Get` after `Set` (other index)**: units already inside the buffer keep their value. -/
theorem get_setRaw_other (m : BitList) (i j v : Nat) (hok : WordsOk m.buf) (hu : 0 < m.unit)
    (hij : i ≠ j) (hin : (j + 1) * m.unit ≤ m.buf.size * 16) : (m.setRaw i v).get j = m.get j := by
  obtain ⟨_, h2, h3, _⟩ := setRaw_bitAt m i v 0 hok
  obtain ⟨x, hx, hxb⟩ := get_spec (m.setRaw i v) j (setRaw_ok m i v hok) (by rw [h3]; exact hu) (by rw [h3]; omega)
  obtain ⟨y, hy, hyb⟩ := get_spec m j hok hu hin
  rw [hx, hy]; congr 1
  apply Nat.eq_of_testBit_eq
  intro k
  rw [hxb k, hyb k, h3]
  by_cases hk : k < m.unit
  · have hmulj : (j + 1) * m.unit = j * m.unit + m.unit := by rw [Nat.add_mul]; simp
    have hmuli : (i + 1) * m.unit = i * m.unit + m.unit := by rw [Nat.add_mul]; simp
    have hdis : ¬ (i * m.unit ≤ j * m.unit + k ∧ j * m.unit + k < i * m.unit + m.unit) := by
      rcases Nat.lt_or_gt_of_ne hij with h | h
      · have : (i + 1) * m.unit ≤ j * m.unit := Nat.mul_le_mul_right _ (by omega)
        omega
      · have : (j + 1) * m.unit ≤ i * m.unit := Nat.mul_le_mul_right _ (by omega)
        omega
    rw [(setRaw_bitAt m i v (j * m.unit + k) hok).2.2.2, if_neg hdis,
      (growBuf_spec m.buf m.unit i hok).2.2.2 _ (by omega)]
  · simp [hk]

end DaeVerif.C11
