import DaeVerif.C11.Proofs
import DaeVerif.C11.SchedProofs
import DaeVerif.C11.SetLoopProofs
import DaeVerif.C11.AnyBuf
/-!
# C11 — property theorems

"For every set of domain patterns and every host name made of letters, digits, '-', '_' and '.',
in any letter case and with or without a trailing dot, a full pattern matches only the identical
name, a suffix pattern matches the name itself and any name ending in '.'+pattern (a pattern written
with a leading dot matches proper sub-names only), a keyword pattern matches any name containing
it, and a regex pattern matches per Go regexp on the lower-cased name; a pattern set matches iff one
of its patterns does, independently of all other sets."

Everything below is about the definitions of `Model.lean` that the driver `c11drv` executes.
-/
namespace DaeVerif.C11.Props
open DaeVerif.C11 List

/-! ## the four pattern kinds (what `AddSet` stores for ONE pattern, queried like `MatchDomainBitmap`) -/

/-- **full**: the stored key answers the query of a name iff the normalised name is identical. -/
theorem full_matches_identical_only (d name : Str) (hd : d.all domainChars.isValid = true)
    (hn : plainName name = true) :
    hasPrefixSpec ((normFull d).map toSuffixTrieString) (trieQuery (normName name)) = true ↔
      normName name = d := by
  have h := (plainDom_normName name hn).noMarkers
  simp only [hasPrefixSpec, normFull, hd, ↓reduceIte, List.map_cons, List.map_nil, List.any_cons,
    List.any_nil, Bool.or_false, full_key_iff d _ h]

example : (strOf "example.com").all domainChars.isValid = true ∧ plainName (strOf "Example.COM.") = true ∧
    normName (strOf "Example.COM.") = strOf "example.com" := by decide

/-- **suffix**: the name itself and every name ending in `'.' ++ pattern`, nothing else. -/
theorem suffix_matches_name_and_subnames (d name : Str) (hd : d.all domainChars.isValid = true)
    (hdot : d.head? ≠ some cDot) (hn : plainName name = true) :
    hasPrefixSpec ((normSuffix d).map toSuffixTrieString) (trieQuery (normName name)) = true ↔
      normName name = d ∨ ∃ x, normName name = x ++ cDot :: d := by
  have h := (plainDom_normName name hn).noMarkers
  simp only [hasPrefixSpec, normSuffix, hd, hdot, ↓reduceIte, List.map_cons, List.map_nil,
    List.any_cons, List.any_nil, Bool.or_false, Bool.or_eq_true, dot_key_iff d _ h, full_key_iff d _ h]
  constructor
  · rintro (⟨x, hx⟩ | hx)
    · exact Or.inr ⟨x, hx.symm⟩
    · exact Or.inl hx
  · rintro (hx | ⟨x, hx⟩)
    · exact Or.inr hx
    · exact Or.inl ⟨x, hx.symm⟩

/-- so `abcexample.com` is not matched by `suffix: example.com` — a match needs a label boundary -/
example : hasPrefixSpec ((normSuffix (strOf "example.com")).map toSuffixTrieString)
    (trieQuery (normName (strOf "abcexample.com"))) = false ∧
  hasPrefixSpec ((normSuffix (strOf "example.com")).map toSuffixTrieString)
    (trieQuery (normName (strOf "abc.Example.com."))) = true := by decide

/-- **suffix written with a leading dot**: names ending in the pattern (which starts with the dot);
in particular never the bare name without the dot. -/
theorem dot_suffix_matches_proper_subnames_only (d' name : Str)
    (hd : (cDot :: d').all domainChars.isValid = true) (hn : plainName name = true) :
    (hasPrefixSpec ((normSuffix (cDot :: d')).map toSuffixTrieString) (trieQuery (normName name)) = true ↔
      ∃ x, normName name = x ++ cDot :: d') ∧
    (normName name = d' →
      hasPrefixSpec ((normSuffix (cDot :: d')).map toSuffixTrieString) (trieQuery (normName name)) = false) := by
  have h := (plainDom_normName name hn).noMarkers
  have key : hasPrefixSpec ((normSuffix (cDot :: d')).map toSuffixTrieString) (trieQuery (normName name)) = true ↔
      ∃ x, normName name = x ++ cDot :: d' := by
    simp only [hasPrefixSpec, normSuffix, hd, ↓reduceIte, List.head?_cons, List.map_cons, List.map_nil,
      List.any_cons, List.any_nil, Bool.or_false, bare_key_iff (cDot :: d') _ h rfl]
    constructor
    · rintro ⟨x, hx⟩; exact ⟨x, hx.symm⟩
    · rintro ⟨x, hx⟩; exact ⟨x, hx.symm⟩
  refine ⟨key, ?_⟩
  intro he
  rw [Bool.eq_false_iff]
  intro ht
  obtain ⟨x, hx⟩ := key.mp ht
  have := congrArg List.length hx
  rw [he] at this
  simp at this
  omega

/-- **keyword**: a non-empty keyword (over the library alphabet without the head / tail marks) matches
exactly the names that contain it.  (The empty keyword never matches: the Aho-Corasick library does
not report the empty word — `empty_keyword_never_matches`.)  Stated for what the matcher model
executes: the Aho-Corasick automaton on `^name$`. -/
theorem keyword_matches_containing_names (p name : Str) (hp : p.all kwValid = true) (hne : p ≠ [])
    (hn : plainName name = true) :
    acAuto (normKeyword p) (cHat :: normName name ++ [cDollar]) = true ↔
      ∃ x y, normName name = x ++ p ++ y := by
  have hd := plainDom_normName name hn
  rw [acAuto_eq_acContains]
  unfold acContains
  rw [hd.map_acNorm]
  simp only [normKeyword, hp, ↓reduceIte, List.any_cons, List.any_nil, Bool.or_false, Bool.and_eq_true,
    Bool.not_eq_true', List.isEmpty_eq_false_iff, isInfix_iff]
  rw [infix_markers_iff p _ (kwValid_noMarkers p hp) hne]
  constructor
  · rintro ⟨_, x, y, h⟩; exact ⟨x, y, h.symm⟩
  · rintro ⟨x, y, h⟩; exact ⟨hne, x, y, h.symm⟩

/-- **The Aho-Corasick automaton is substring search.** The model of the library's automaton (trie of the
dictionary, `fail` = longest proper suffix that is a node, `suffix` = longest proper suffix that is a
word, `fails[c]` closure, the `Contains` loop) returns `true` exactly when some non-empty dictionary word
occurs in the input (read through the library's byte table) — for every dictionary and every input. -/
theorem ac_contains_iff_infix (dict : List Str) (input : Str) :
    acAuto dict input = true ↔ ∃ w ∈ dict, w ≠ [] ∧ w <:+: input.map acNorm := by
  rw [acAuto_eq_acContains]
  simp [acContains, isInfix_iff]

example : acAuto [strOf "abc", strOf "bcd", strOf "c"] (strOf "xbcy") = true ∧
    acAuto [strOf "abc", strOf "bcd"] (strOf "abxbcxcd") = false ∧ acAuto [[]] (strOf "abc") = false := by decide

/-- **A keyword containing `^` or `$` is skipped** (after the `fix:` commit): these bytes are the marks
`MatchDomainBitmap` puts around the name, a keyword with them would not mean "contains"
(`keyword:$` used to match every name). -/
theorem keyword_with_marks_is_skipped (p : Str) (h : p.any isMarker = true) : normKeyword p = [] := by
  obtain ⟨c, hc, hm⟩ := List.any_eq_true.mp h
  have : p.all kwValid = false := by
    rw [Bool.eq_false_iff]
    intro hall
    have := List.all_eq_true.mp hall c hc
    simp [kwValid, hm] at this
  simp [normKeyword, this]

example : normKeyword (strOf "$") = [] ∧ normKeyword (strOf "^goog") = [] ∧ normKeyword (strOf "goog") = [strOf "goog"] := by
  decide

/-- the two alphabets in use have no repeated byte, so the model's table (`idxOf`, first occurrence)
and Go's (`table[c] = n`, last write) are the same function; the harness checks on every run that the
real tables' `Size()` equals the number of valid bytes -/
theorem alphabets_nodup : domainChars.alphabet.Nodup ∧ cidrChars.alphabet.Nodup ∧ acChars.Nodup := by decide

theorem empty_keyword_never_matches (input : Str) : acContains (normKeyword []) input = false := by
  simp [acContains, normKeyword]

example : (strOf "goog").all kwValid = true ∧ strOf "goog" ≠ [] := by decide

/-- **regex**: a set's regex part fires iff Go's `regexp` (the oracle `rxHits`, evaluated on the
lower-cased, dot-trimmed name) matched one of its patterns. -/
theorem regex_matches_per_oracle (pats : List Pat) (rxHits : List Nat) :
    (contrib ⟨0, .regex, pats⟩).rx.any rxHits.contains = true ↔ ∃ p ∈ pats, p.rxId ∈ rxHits := by
  simp only [contrib, List.any_eq_true, List.mem_map, List.contains_iff_mem]
  constructor
  · rintro ⟨id, ⟨p, hp, rfl⟩, h⟩; exact ⟨p, hp, h⟩
  · rintro ⟨p, hp, h⟩; exact ⟨p.rxId, ⟨p, hp, rfl⟩, h⟩

/-! ## letter case and the trailing dot -/

/-- the answer depends on the name only through `normName`; names that differ in letter case only
have the same `normName` … -/
theorem normName_case_insensitive (a b : Str) (h : lower a = lower b) : normName a = normName b := by
  have key : ∀ s : Str, normName s = trimSuffixByte cDot (lower s) := by
    intro s
    unfold normName trimSuffixByte lower
    rcases List.eq_nil_or_concat s with rfl | ⟨s', c, rfl⟩
    · simp
    · by_cases hc : c = cDot
      · subst hc; simp [lowerByte, cDot]
      · have : lowerByte c ≠ cDot := by
          unfold lowerByte cDot; unfold cDot at hc; split <;> omega
        simp [hc, this]
  rw [key, key, h]

/-- … and one trailing dot is ignored. -/
theorem normName_trailing_dot (a : Str) (h : a.getLast? ≠ some cDot) :
    normName (a ++ [cDot]) = normName a := by
  unfold normName
  rw [trimSuffixByte_concat, trimSuffixByte_of_not_last _ _ h]

/-! ## a pattern set matches iff one of its patterns does; sets are independent -/

/-- **Headline (specification level).** After any sequence of acceptable `AddSet` calls, `Build`
succeeds and bit `i` of the answer for a name of the property's alphabet is 1 exactly when some
valid pattern added under index `i` matches the name according to its kind. -/
theorem set_matches_iff_some_pattern (n : Nat) (log : List AddCall) (name : Str) (rxHits : List Nat)
    (hall : ∀ a ∈ log, callOk n a = true) (hn : plainName name = true) :
    ∃ b, (Matcher.replayCore n log).build = .ok b ∧
      ∀ i, i ∈ b.matchIndicesSpec name rxHits ↔ (i < n ∧ docMatchesCore log i name rxHits = true) := by
  obtain ⟨b, hb, hsize, hsets⟩ := build_ok n log hall
  refine ⟨b, hb, ?_⟩
  intro i
  have hd := plainDom_normName name hn
  unfold Built.matchIndicesSpec
  simp only [List.mem_filter, List.mem_range, hsize]
  constructor
  · rintro ⟨hi, hm⟩
    refine ⟨hi, ?_⟩
    rw [hsets i hi] at hm
    simp only [BuiltSet.matchesSpec, builtOf, setOf, hasPrefixSpec, acContains, hd.map_acNorm] at hm
    simp only [docMatchesCore, List.any_eq_true, Bool.and_eq_true, beq_iff_eq]
    simp only [Bool.or_eq_true, List.any_eq_true, List.mem_map, List.mem_flatMap, callsFor,
      List.mem_filter, beq_iff_eq, Bool.and_eq_true, Bool.not_eq_true', List.isEmpty_eq_false_iff,
      List.contains_iff_mem] at hm
    have fires : ∃ a ∈ log, a.idx = i ∧ callFires a (normName name) rxHits := by
      rcases hm with (⟨k, ⟨k0, ⟨a, ⟨ha, hai⟩, hk0⟩, rfl⟩, hp⟩ | ⟨p, ⟨a, ⟨ha, hai⟩, hp⟩, hne, hin⟩) | ⟨id, ⟨a, ⟨ha, hai⟩, hid⟩, hh⟩
      · exact ⟨a, ha, hai, Or.inl ⟨k0, hk0, hp⟩⟩
      · exact ⟨a, ha, hai, Or.inr (Or.inl ⟨p, hp, hne, hin⟩)⟩
      · exact ⟨a, ha, hai, Or.inr (Or.inr ⟨id, hid, hh⟩)⟩
    obtain ⟨a, ha, hai, hf⟩ := fires
    obtain ⟨p, hp, hv, hmatch⟩ := (callFires_iff a _ rxHits hd.noMarkers).mp hf
    exact ⟨a, ha, hai, p, hp, hmatch, hv⟩
  · rintro ⟨hi, hm⟩
    refine ⟨hi, ?_⟩
    rw [hsets i hi]
    simp only [docMatchesCore, List.any_eq_true, Bool.and_eq_true, beq_iff_eq] at hm
    obtain ⟨a, ha, hai, p, hp, hmatch, hv⟩ := hm
    have hf := (callFires_iff a _ rxHits hd.noMarkers).mpr ⟨p, hp, hv, hmatch⟩
    simp only [BuiltSet.matchesSpec, builtOf, setOf, hasPrefixSpec, acContains, hd.map_acNorm]
    simp only [Bool.or_eq_true, List.any_eq_true, List.mem_map, List.mem_flatMap, callsFor,
      List.mem_filter, beq_iff_eq, Bool.and_eq_true, Bool.not_eq_true', List.isEmpty_eq_false_iff,
      List.contains_iff_mem]
    rcases hf with ⟨k0, hk0, hp⟩ | ⟨p, hp, hne, hin⟩ | ⟨id, hid, hh⟩
    · exact Or.inl (Or.inl ⟨_, ⟨k0, ⟨a, ⟨ha, hai⟩, hk0⟩, rfl⟩, hp⟩)
    · exact Or.inl (Or.inr ⟨p, ⟨a, ⟨ha, hai⟩, hp⟩, hne, hin⟩)
    · exact Or.inr ⟨id, ⟨a, ⟨ha, hai⟩, hid⟩, hh⟩

/-- non-vacuity: an acceptable log with several kinds on several indices, and a plain name -/
example : (∀ a ∈ ([⟨0, .suffix, [⟨strOf "example.com", true, 0⟩]⟩, ⟨5, .keyword, [⟨strOf "goog", true, 0⟩]⟩,
    ⟨0, .full, [⟨strOf "Bad.com", true, 0⟩]⟩] : List AddCall), callOk 64 a = true) ∧
    docMatchesCore [⟨0, .suffix, [⟨strOf "example.com", true, 0⟩]⟩] 0 (strOf "WWW.Example.com.") [] = true := by
  decide

/-- **Independence.** Bit `i` is a function of the `AddSet` calls addressed to index `i` only: two
configurations whose calls for `i` coincide give set `i` the same stored patterns (hence the same
answer for every name, whatever the other sets contain). -/
theorem sets_independent (n : Nat) (log₁ log₂ : List AddCall) (i : Nat) (hi : i < n)
    (h₁ : ∀ a ∈ log₁, callOk n a = true) (h₂ : ∀ a ∈ log₂, callOk n a = true)
    (hsame : log₁.filter (·.idx == i) = log₂.filter (·.idx == i)) :
    ∃ b₁ b₂, (Matcher.replayCore n log₁).build = .ok b₁ ∧ (Matcher.replayCore n log₂).build = .ok b₂ ∧
      b₁.sets[i]? = b₂.sets[i]? ∧
      ∀ name rxHits, (i ∈ b₁.matchIndicesSpec name rxHits ↔ i ∈ b₂.matchIndicesSpec name rxHits) := by
  obtain ⟨b₁, hb₁, hs₁, hsets₁⟩ := build_ok n log₁ h₁
  obtain ⟨b₂, hb₂, hs₂, hsets₂⟩ := build_ok n log₂ h₂
  have hso : setOf log₁ i = setOf log₂ i := by simp only [setOf, callsFor, hsame]
  have heq : b₁.sets[i]? = b₂.sets[i]? := by rw [hsets₁ i hi, hsets₂ i hi, hso]
  refine ⟨b₁, b₂, hb₁, hb₂, heq, ?_⟩
  intro name rxHits
  simp only [Built.matchIndicesSpec, List.mem_filter, List.mem_range, hs₁, hs₂, heq]

/-- **Skipped patterns are harmless.** Removing the patterns with a byte outside the alphabet from a
full / suffix / keyword `AddSet` call changes nothing. -/
theorem skip_invalid_harmless (m : Matcher) (idx : Nat) (kind : Kind) (pats : List Pat)
    (hk : kind = .full ∨ kind = .suffix ∨ kind = .keyword) :
    m.addSet idx kind (pats.filter (patValid kind)) = m.addSet idx kind pats := by
  have e1 : ∀ ps : List Pat, (ps.filter (patValid .full)).flatMap (normFull ·.s) = ps.flatMap (normFull ·.s) := by
    intro ps; induction ps with
    | nil => rfl
    | cons p ps ih =>
      by_cases hv : patValid .full p = true
      · simp [hv, ih]
      · have : normFull p.s = [] := by
          simp only [patValid] at hv; simp [normFull, hv]
        simp [hv, ih, this]
  have e2 : ∀ ps : List Pat, (ps.filter (patValid .suffix)).flatMap (normSuffix ·.s) = ps.flatMap (normSuffix ·.s) := by
    intro ps; induction ps with
    | nil => rfl
    | cons p ps ih =>
      by_cases hv : patValid .suffix p = true
      · simp [hv, ih]
      · have : normSuffix p.s = [] := by
          simp only [patValid] at hv; simp [normSuffix, hv]
        simp [hv, ih, this]
  have e3 : ∀ ps : List Pat, (ps.filter (patValid .keyword)).flatMap (normKeyword ·.s) = ps.flatMap (normKeyword ·.s) := by
    intro ps; induction ps with
    | nil => rfl
    | cons p ps ih =>
      by_cases hv : patValid .keyword p = true
      · simp [hv, ih]
      · have : normKeyword p.s = [] := by
          simp only [patValid] at hv; simp [normKeyword, hv]
        simp [hv, ih, this]
  rcases hk with rfl | rfl | rfl <;> simp only [Matcher.addSet, e1, e2, e3]

example : patValid .keyword ⟨strOf "Ampl", true, 0⟩ = false ∧ patValid .full ⟨strOf "a/b", true, 0⟩ = false := by
  decide

/-- **Build fails only for the documented reasons** — an index beyond the table, a regex Go cannot
compile, an unknown pattern kind — and never because of the characters of a pattern (finding #16,
fixed: keyword patterns are screened like the others). -/
theorem build_fails_only_as_documented (n : Nat) (log : List AddCall) :
    (∃ b, (Matcher.replayCore n log).build = .ok b ∧ ∀ a ∈ log, callOk n a = true) ∨
    (∃ a ∈ log, callOk n a = false ∧ (Matcher.replayCore n log).build = .error (callErr n a) ∧
      callErr n a ≠ .charOutOfRange) := by
  cases hf : log.find? (fun a => !callOk n a) with
  | none =>
    left
    have hall : ∀ a ∈ log, callOk n a = true := by
      intro a ha
      have := List.find?_eq_none.mp hf a ha
      simpa using this
    obtain ⟨b, hb, _⟩ := build_ok n log hall
    exact ⟨b, hb, hall⟩
  | some a =>
    right
    refine ⟨a, List.mem_of_find?_eq_some hf, by simpa using List.find?_some hf, build_err n log a hf, ?_⟩
    unfold callErr
    split
    · decide
    · split <;> decide

/-! ## the succinct trie (`pkg/trie`) and the packed bit list (`common/bitlist`), bit-exact -/

/-- **`CompactBitList`: `Get` after `Append`s.** For every unit size `u ≥ 1` and every sequence of values
that fit in `u` bits, the list built by `Append`ing them returns the `i`-th value at index `i`. -/
theorem bitlist_get_append (u : Nat) (vs : List Nat) (hu : 0 < u) (hv : ∀ v ∈ vs, v < 2 ^ u)
    (i : Nat) (hi : i < vs.length) : (BitList.ofList u vs).get i = some vs[i] :=
  BitList.ofList_get u vs hu hv i hi

example : (BitList.ofList 6 [50, 0, 63]).get 2 = some 63 := by decide

/-- **`CompactBitList`: `Get` after `Set`**, any index (the buffer grows as needed), any unit size ≥ 1,
starting from any state whose words are `uint16`s (true of every list built from `NewCompactBitList`
by `Set`/`Append`: `bitlist_words_ok`). -/
theorem bitlist_get_set (m : BitList) (i v : Nat) (hok : WordsOk m.buf) (hu : 0 < m.unit)
    (hv : v < 2 ^ m.unit) :
    (m.setRaw i v).get i = some v ∧ WordsOk (m.setRaw i v).buf ∧
    ∀ j, j ≠ i → (j + 1) * m.unit ≤ m.buf.size * 16 → (m.setRaw i v).get j = m.get j :=
  ⟨get_setRaw_same m i v hok hu hv, setRaw_ok m i v hok,
   fun j hji hin => get_setRaw_other m i j v hok hu (fun h => hji h.symm) hin⟩

theorem bitlist_words_ok (u : Nat) : WordsOk (BitList.new u).buf := by
  intro i w h; simp [BitList.new] at h

/-- **`countZeros`** with the rank cache of `init()` is rank₀ of the bitmap: for words `ws` storing the
bit function `B` 64 bits per word, `countZeros(bm, ranks, i) = i - #ones below i`. -/
theorem countZeros_is_rank0 (B : Nat → Bool) (ws : List Nat) (hp : Packs ws B)
    (hpos : 0 < onesUpTo B (64 * ws.length)) (i : Nat) (hi : i / 64 < ws.length) :
    countZeros ws.toArray (BitList.ofList (len64 ((ranksOf ws).getLastD 0)) (ranksOf ws)) i =
      some (i - onesUpTo B i) :=
  countZeros_spec B ws hp hpos i hi

/-- **`selectIthOne`** with both caches of `init()` is select₁: it returns the position `Q` of the
one that has exactly `i` ones below it. -/
theorem selectIthOne_is_select1 (B : Nat → Bool) (ws : List Nat) (hp : Packs ws B) (hlt : WordsLt ws)
    (hfalse : ∀ q, 64 * ws.length ≤ q → B q = false) (h0 : B 0 = false)
    (Q i : Nat) (hQ : B Q = true) (hQi : onesUpTo B Q = i) :
    selectIthOne ws.toArray (BitList.ofList (len64 ((ranksOf ws).getLastD 0)) (ranksOf ws))
      (BitList.ofList (len64 ((selectsOf (wordBits ws)).getLastD 0)) (selectsOf (wordBits ws))) i = some Q := by
  have hQlen : Q < 64 * ws.length := by
    rcases Nat.lt_or_ge Q (64 * ws.length) with h | h
    · exact h
    · rw [hfalse Q h] at hQ; exact absurd hQ (by simp)
  have hi : i < onesUpTo B (64 * ws.length) := by
    rw [← hQi]; exact onesUpTo_lt_of_one B hQ hQlen
  obtain ⟨s, hs, hsB, hsi⟩ := selectsBL_get B ws hp hfalse h0 i hi
  exact selectIthOne_spec B ws hp hlt (by omega) _ Q i s hQ hQi hQlen hs hsB (by omega)

/-- **`HasPrefix(NewTrie(keys)) = hasPrefixSpec keys`** — the full LOUDS correctness statement for the
bit-exact model: for every alphabet of 1..256 bytes, every non-empty list of keys over it (any order,
duplicates allowed, the empty key allowed) and every word (any bytes), `NewTrie` succeeds and
`HasPrefix` neither panics nor errs: it answers whether some key is a prefix of the word. -/
theorem trie_hasPrefix_eq_spec (chars : ValidChars) (h0 : 0 < chars.size) (h256 : chars.size ≤ 256)
    (keys : List Str) (hne : keys ≠ []) (hv : ∀ k ∈ keys, ∀ c ∈ k, chars.isValid c = true) (w : Str) :
    ∃ t, Trie.build chars keys = .ok t ∧ t.hasPrefix w = some (hasPrefixSpec keys w) :=
  trie_hasPrefix_eq_spec_core chars h0 h256 keys hne hv w

example : 0 < domainChars.size ∧ domainChars.size ≤ 256 ∧
    (∀ k ∈ [strOf "moc.elpmaxe^", strOf "moc.elpmaxe.", strOf "gro."], ∀ c ∈ k, domainChars.isValid c = true) := by
  decide

/-! ## end to end -/

/-- **Headline.** For every table size, every sequence of acceptable `AddSet` calls (any kinds, any
bit indices, any pattern lists, invalid patterns included) and every queried name of the property's
alphabet — any letter case, with or without a trailing dot — `Build` succeeds and
`MatchDomainBitmap`, computed through the packed succinct tries, sets exactly the bits `i` for which
some valid pattern added under `i` matches the name according to its kind. -/
theorem domain_matcher_correct (n : Nat) (log : List AddCall) (name : Str) (rxHits : List Nat)
    (hall : ∀ a ∈ log, callOk n a = true) (hn : plainName name = true) :
    ∃ b, (Matcher.replayCore n log).build = .ok b ∧
      b.matchIndices name rxHits = some ((List.range n).filter fun i => docMatchesCore log i name rxHits) := by
  obtain ⟨b, hb, hsize, hsets⟩ := build_ok n log hall
  obtain ⟨b', hb', hiff⟩ := set_matches_iff_some_pattern n log name rxHits hall hn
  rw [hb] at hb'
  injection hb' with hb'
  subst hb'
  refine ⟨b, hb, ?_⟩
  rw [matchIndices_eq_spec n log b hsize hsets name rxHits]
  congr 1
  unfold Built.matchIndicesSpec at hiff ⊢
  simp only [hsize] at hiff ⊢
  apply List.filter_congr
  intro i hi
  have hi' : i < n := by simpa using hi
  have := hiff i
  rw [List.mem_filter] at this
  simp only [List.mem_range, hi', true_and] at this
  rw [Bool.eq_iff_iff]; exact this

/-- **The `[]uint32` result.** Same quantifiers as `domain_matcher_correct`: the slice has
`ceil(n/32)` words, every word fits in 32 bits, and bit `i % 32` of word `i / 32` is 1 exactly when some
valid pattern added under index `i` matches (bits beyond `n` in the last word are 0). -/
theorem domain_matcher_bitmap_correct (n : Nat) (log : List AddCall) (name : Str) (rxHits : List Nat)
    (hall : ∀ a ∈ log, callOk n a = true) (hn : plainName name = true) :
    ∃ b ws, (Matcher.replayCore n log).build = .ok b ∧ b.matchBitmap name rxHits = some ws ∧
      ws.length = (n + 31) / 32 ∧ (∀ w ∈ ws, w < 2 ^ 32) ∧
      ∀ i, (ws.getD (i / 32) 0).testBit (i % 32) = (decide (i < n) && docMatchesCore log i name rxHits) := by
  obtain ⟨b, hb, hsize, hsets⟩ := build_ok n log hall
  obtain ⟨b', hb', hiff⟩ := set_matches_iff_some_pattern n log name rxHits hall hn
  rw [hb] at hb'
  injection hb' with hb'
  subst hb'
  have hbits := matchBits_eq n log b hsize hsets name rxHits
  generalize hB : ((List.range n).map fun i => (builtOf (setOf log i)).matchesSpec (normName name) rxHits) = bits at hbits
  have hlen : bits.length = n := by rw [← hB]; simp
  obtain ⟨p1, p2⟩ := packWords32_spec (bits.length + 1) bits (Nat.lt_succ_self _)
  refine ⟨b, packWords32 (bits.length + 1) bits, hb, by simp [Built.matchBitmap, hbits], by rw [p1, hlen], ?_, ?_⟩
  · intro w hw
    obtain ⟨i, hi, rfl⟩ := List.getElem_of_mem hw
    have := (p2 i hi).1
    rwa [List.getElem!_eq_getElem?_getD, List.getElem?_eq_getElem hi] at this
  · intro i
    -- the value of bit i of the bit vector
    have hbit : bitFn bits i = (decide (i < n) && docMatchesCore log i name rxHits) := by
      by_cases hi : i < n
      · have hmem := hiff i
        unfold Built.matchIndicesSpec at hmem
        simp only [hsize, List.mem_filter, List.mem_range, hi, true_and] at hmem
        rw [hsets i hi] at hmem
        simp only [bitFn, ← hB, List.getD_eq_getElem?_getD, List.getElem?_map, List.getElem?_range hi,
          Option.map_some, Option.getD_some, hi, decide_true, Bool.true_and]
        rw [Bool.eq_iff_iff]; exact hmem
      · rw [bitFn_beyond bits i (by omega)]; simp [hi]
    rw [← hbit]
    by_cases hw : i / 32 < (packWords32 (bits.length + 1) bits).length
    · have h2 : ((packWords32 (bits.length + 1) bits)[i / 32]?.getD 0).testBit (i % 32) =
          bitFn bits (32 * (i / 32) + i % 32) := by
        have := (p2 (i / 32) hw).2 (i % 32) (Nat.mod_lt _ (by decide))
        rw [List.getElem!_eq_getElem?_getD] at this
        exact this
      rw [List.getD_eq_getElem?_getD, h2]
      congr 1; omega
    · rw [List.getD_eq_getElem?_getD, List.getElem?_eq_none (by omega)]
      simp only [Option.getD_none, Nat.zero_testBit]
      rw [bitFn_beyond bits i (by rw [p1] at hw; omega)]

/-- Go's `int` index: a negative `bitIndex` is refused exactly like an index beyond the table, so the
`Nat`-indexed theorems above cover it (`callOk` fails, `Build` reports the oversize error). -/
theorem negative_index_is_out_of_range (m : Matcher) (idx : Int) (kind : Kind) (pats : List Pat) (h : idx < 0) :
    m.addSetInt idx kind pats = m.addSet m.sets.size kind pats :=
  addSetInt_neg m idx kind pats h

/-- for every name, plain or not, the packed tries answer what the trie contract answers -/
theorem matcher_trie_path_eq_contract (n : Nat) (log : List AddCall) (name : Str) (rxHits : List Nat)
    (hall : ∀ a ∈ log, callOk n a = true) :
    ∃ b, (Matcher.replayCore n log).build = .ok b ∧
      b.matchIndices name rxHits = some (b.matchIndicesSpec name rxHits) := by
  obtain ⟨b, hb, hsize, hsets⟩ := build_ok n log hall
  exact ⟨b, hb, matchIndices_eq_spec n log b hsize hsets name rxHits⟩

/-! ## letter case of the PATTERNS (after the `fix:` commit: `AddSet` lower-cases them) -/

/-- `Matcher.replay` (patterns as written) is the left fold of the Go-level `AddSet`
(`addSetGo` = lower-case, then screen and store). -/
theorem replay_is_fold_of_addSetGo (n : Nat) (log : List AddCall) :
    Matcher.replay n log = log.foldl (fun m a => m.addSetGo a.idx a.kind a.pats) (Matcher.new n) := by
  unfold Matcher.replay Matcher.replayCore
  rw [List.foldl_map]
  rfl

theorem callOk_lowered (n : Nat) (a : AddCall) : callOk n a.lowered = callOk n a := by
  unfold callOk AddCall.lowered lowerPats
  cases a.kind <;> simp

/-- **Headline, patterns in any letter case.** Same quantifiers as `domain_matcher_correct`, with the
patterns as the user wrote them: bit `i` is set iff some pattern added under `i`, lower-cased, is valid
and matches the (lower-cased, dot-trimmed) name. -/
theorem domain_matcher_correct_any_case (n : Nat) (log : List AddCall) (name : Str) (rxHits : List Nat)
    (hall : ∀ a ∈ log, callOk n a = true) (hn : plainName name = true) :
    ∃ b, (Matcher.replay n log).build = .ok b ∧
      b.matchIndices name rxHits = some ((List.range n).filter fun i => docMatches log i name rxHits) := by
  apply domain_matcher_correct n (log.map AddCall.lowered) name rxHits _ hn
  intro a ha
  obtain ⟨a0, ha0, rfl⟩ := List.mem_map.mp ha
  rw [callOk_lowered]; exact hall a0 ha0

theorem domain_matcher_bitmap_correct_any_case (n : Nat) (log : List AddCall) (name : Str) (rxHits : List Nat)
    (hall : ∀ a ∈ log, callOk n a = true) (hn : plainName name = true) :
    ∃ b ws, (Matcher.replay n log).build = .ok b ∧ b.matchBitmap name rxHits = some ws ∧
      ws.length = (n + 31) / 32 ∧ (∀ w ∈ ws, w < 2 ^ 32) ∧
      ∀ i, (ws.getD (i / 32) 0).testBit (i % 32) = (decide (i < n) && docMatches log i name rxHits) := by
  apply domain_matcher_bitmap_correct n (log.map AddCall.lowered) name rxHits _ hn
  intro a ha
  obtain ⟨a0, ha0, rfl⟩ := List.mem_map.mp ha
  rw [callOk_lowered]; exact hall a0 ha0

/-- **A full pattern in any letter case matches the identical name** (and exactly the names equal to it
up to letter case): witness for the `fix:` commit — `full:Example.com` matches `Example.com`. -/
theorem full_pattern_any_case (d name : Str) (hd : (lower d).all domainChars.isValid = true)
    (hn : plainName name = true) :
    docMatches [⟨0, .full, [⟨d, true, 0⟩]⟩] 0 name [] = true ↔ normName name = lower d := by
  simp [docMatches, docMatchesCore, AddCall.lowered, lowerPats, patValid, patMatches, hd]

example : docMatches [⟨0, .full, [⟨strOf "Example.com", true, 0⟩]⟩] 0 (strOf "Example.com") [] = true ∧
    docMatches [⟨3, .keyword, [⟨strOf "Google", true, 0⟩]⟩] 3 (strOf "www.GOOGLE.com.") [] = true ∧
    docMatches [⟨3, .keyword, [⟨strOf "$", true, 0⟩]⟩] 3 (strOf "x.net") [] = false := by decide

/-! ## `MatchDomainBitmap` loop for loop, `Build` under every worker order, `Set` loop by loop

The definitions of `Loop.lean` are what the driver executes for every `q` line (`Built.matchLoop`) and
every bit-list script (`BitList.setLoop`). -/

/-- **The loops of `MatchDomainBitmap` = the per-set definition.** For any built tables and ANY order
(or multiplicity) of the three index lists that lists exactly the non-empty sets of each kind: the loops
over `validTrieIndexes` / `validAcIndexes` / `validRegexpIndexes` — with the "already matched → continue"
shortcut and the word writes `bitmap[i/32] |= 1 << (i%32)` — return the `[]uint32` of `Built.matchBitmap`
(the definition the headline theorems are about). -/
theorem match_loops_eq_per_set_definition (b : Built) (ix : Idx) (hv : ix.Valid b) (name : Str) (rxHits : List Nat)
    (ws : List Nat) (h : b.matchBitmap name rxHits = some ws) : b.matchLoop ix name rxHits = some ws :=
  matchLoop_of_matchBitmap b ix hv name rxHits ws h

/-- so the order in which `Build`'s goroutines appended the indices cannot change an answer -/
theorem index_order_irrelevant (b : Built) (ix₁ ix₂ : Idx) (h₁ : ix₁.Valid b) (h₂ : ix₂.Valid b) (name : Str)
    (rxHits : List Nat) (ws : List Nat) (h : b.matchBitmap name rxHits = some ws) :
    b.matchLoop ix₁ name rxHits = b.matchLoop ix₂ name rxHits := by
  rw [matchLoop_of_matchBitmap b ix₁ h₁ name rxHits ws h, matchLoop_of_matchBitmap b ix₂ h₂ name rxHits ws h]

/-- the sequential index lists are valid, and so is every order the driver accepts from the real `Build` -/
theorem reported_index_order_is_valid (b : Built) (ix : Idx) (h : ix.permOf (Idx.ofBuilt b) = true) :
    ix.Valid b ∧ (Idx.ofBuilt b).Valid b :=
  ⟨Idx.valid_of_permOf b ix h, Idx.ofBuilt_valid b⟩

set_option maxRecDepth 20000 in
/-- non-vacuity: built tables with a trie set (`suffix:a`), two keyword sets and a regex set; the loops run
in a non-ascending order and give the bitmap of the per-set definition -/
example :
    let b : Built := ⟨#[⟨[], none, [strOf "goog"], []⟩, ⟨[strOf "a.", strOf "a^"],
        some (Trie.ofOuts domainChars (bfs [strOf "a.", strOf "a^"])), [], []⟩, ⟨[], none, [strOf "ab"], [7]⟩]⟩
    let ix : Idx := ⟨[1], [2, 0], [2]⟩
    ix.permOf (Idx.ofBuilt b) = true ∧ b.matchBitmap (strOf "Google.com.") [] = some [1] ∧
      b.matchLoop ix (strOf "Google.com.") [] = some [1] ∧ b.matchLoop ix (strOf "xaby") [7] = some [4] ∧
      b.matchLoop ix (strOf "x.A") [] = some [2] ∧ b.matchBitmap (strOf "x.A") [] = some [2] := by decide

/-- **Headline on the loops, patterns in any letter case, any worker order.** For every table size, every
acceptable `AddSet` log, every name of the property's alphabet and every order `ix` of the index lists
valid for the built tables: the loops of `MatchDomainBitmap` return `ceil(n/32)` words, each `< 2^32`, in
which bit `i % 32` of word `i / 32` is 1 exactly when `i < n` and some valid pattern added under `i`
(lower-cased) matches the name according to its kind. -/
theorem domain_matcher_loops_correct (n : Nat) (log : List AddCall) (name : Str) (rxHits : List Nat)
    (hall : ∀ a ∈ log, callOk n a = true) (hn : plainName name = true) :
    ∃ b, (Matcher.replay n log).build = .ok b ∧ ∀ ix : Idx, ix.Valid b →
      ∃ ws, b.matchLoop ix name rxHits = some ws ∧ ws.length = (n + 31) / 32 ∧ (∀ w ∈ ws, w < 2 ^ 32) ∧
        ∀ i, (ws.getD (i / 32) 0).testBit (i % 32) = (decide (i < n) && docMatches log i name rxHits) := by
  obtain ⟨b, ws, hb, hws, h1, h2, h3⟩ := domain_matcher_bitmap_correct_any_case n log name rxHits hall hn
  exact ⟨b, hb, fun ix hv => ⟨ws, matchLoop_of_matchBitmap b ix hv name rxHits ws hws, h1, h2, h3⟩⟩

/-- **`Build` under every interleaving of its worker goroutines.** `Reach m` = the states reachable when
the workers (one per non-empty keyword set, one per non-empty trie set) run their critical sections
(`n.trie[idx] = t; n.validTrieIndexes = append(…, idx)` under the mutex; or `buildErr = err`) one after
the other in ANY order.  Once all have committed: if the sequential `Matcher.build` gives tables `b`, no
error was recorded, the tables written by the workers are `b` and their index lists are valid for `b`;
if it fails with `e`, `buildErr = e`. -/
theorem build_under_every_worker_order (m : Matcher) (hm : m.err = none) (s : BState) (hr : Reach m s)
    (hp : s.pending = []) :
    (∀ b, m.build = .ok b → s.err = none ∧ s.built m = b ∧ (s.idx m).Valid b) ∧
    (∀ e, m.build = .error e → s.err = some e) :=
  build_all_interleavings m hm s hr hp

/-- non-vacuity: three keyword jobs; a reachable final state in which they committed in the order 5, 1, 3 -/
example :
    let m := Matcher.replay 8 [⟨3, .keyword, [⟨strOf "abc", true, 0⟩]⟩, ⟨1, .keyword, [⟨strOf "goog", true, 0⟩]⟩,
      ⟨5, .keyword, [⟨strOf "b.org", true, 0⟩]⟩]
    m.err = none ∧ m.jobs = [.ac 1, .ac 3, .ac 5] ∧
    (((BState.init m).commit m (.ac 5)).commit m (.ac 1)).pending = [.ac 3] ∧
    ((((BState.init m).commit m (.ac 5)).commit m (.ac 1)).commit m (.ac 3)).pending = [] ∧
    ((((BState.init m).commit m (.ac 5)).commit m (.ac 1)).commit m (.ac 3)).vAc = [5, 1, 3] := by decide

example (m : Matcher) : Reach m (((BState.init m).commit m (.trie 5))) ∨ Job.trie 5 ∉ (BState.init m).pending := by
  by_cases h : Job.trie 5 ∈ (BState.init m).pending
  · exact Or.inl (Reach.step Reach.init h)
  · exact Or.inr h

/-- **End to end under every worker order**: the answer of the loops on the tables and index lists of ANY
reachable final state of `Build` is the documented one. -/
theorem domain_matcher_correct_under_every_worker_order (n : Nat) (log : List AddCall) (name : Str)
    (rxHits : List Nat) (hall : ∀ a ∈ log, callOk n a = true) (hn : plainName name = true)
    (s : BState) (hr : Reach (Matcher.replay n log) s) (hp : s.pending = []) :
    s.err = none ∧
    ∃ ws, (s.built (Matcher.replay n log)).matchLoop (s.idx (Matcher.replay n log)) name rxHits = some ws ∧
      ws.length = (n + 31) / 32 ∧
      ∀ i, (ws.getD (i / 32) 0).testBit (i % 32) = (decide (i < n) && docMatches log i name rxHits) := by
  obtain ⟨b, hb, hloop⟩ := domain_matcher_loops_correct n log name rxHits hall hn
  have hm : (Matcher.replay n log).err = none := by
    cases he : (Matcher.replay n log).err with
    | none => rfl
    | some e => simp [Matcher.build, he] at hb
  obtain ⟨h1, h2, h3⟩ := (build_all_interleavings _ hm s hr hp).1 b hb
  obtain ⟨ws, hws, hl, _, hbits⟩ := hloop _ h3
  exact ⟨h1, ws, by rw [h2]; exact hws, hl, hbits⟩

/-- **the documented meaning, evaluated once per query**: `docHitIdx` (what the driver computes) lists
exactly the indices for which `docMatchesCore` holds -/
theorem doc_hits_eq_docMatches (log : List AddCall) (i : Nat) (name : Str) (rxHits : List Nat) :
    docMatches log i name rxHits = (docHitIdx (log.map AddCall.lowered) (normName name) rxHits).contains i :=
  docMatchesCore_eq_docHitIdx _ i name rxHits

example : docHitIdx ([⟨3, .keyword, [⟨strOf "Google", true, 0⟩]⟩, ⟨9, .full, [⟨strOf "x.y", true, 0⟩]⟩].map AddCall.lowered)
    (normName (strOf "www.GOOGLE.com.")) [] = [3] := by decide

/-- **`CompactBitList.Set`, loop by loop** (the outer loop over 16-bit slices of the value with `v >>= 16`,
the inner loop for the bits that land in word `i` and the one for the bits that land in word `i+1`) performs
exactly the flat single-bit writes of `setRaw` — for every unit size, index and value; so
`bitlist_get_set` / `bitlist_get_append` hold of the loops. -/
theorem bitlist_set_loops_eq_flat_writes (m : BitList) (iUnit v : Nat) : m.setLoop iUnit v = m.setRaw iUnit v :=
  BitList.setLoop_eq_setRaw m iUnit v

theorem bitlist_get_set_loops (m : BitList) (i v : Nat) (hok : WordsOk m.buf) (hu : 0 < m.unit)
    (hv : v < 2 ^ m.unit) : (m.setLoop i v).get i = some v := by
  rw [BitList.setLoop_eq_setRaw]; exact get_setRaw_same m i v hok hu hv

set_option maxRecDepth 8000 in
/-- non-vacuity: an 18-bit unit at index 1 (flat bits 18..35) straddles three 16-bit words: both inner loops
and `v >>= 16` run -/
example : ((BitList.new 18).setLoop 1 150001).get 1 = some 150001 ∧
    ((BitList.new 18).setLoop 1 150001).buf.size = 3 := by decide

/-! ## `pkg/anybuffer`: the storage under the bit lists, with its capacity -/

/-- **`anybuffer.Buffer` refines the growable zero-initialised array** the bit-list model uses (`growBuf`):
for every history of `Extend`s and writes through `Slice()` — no `Truncate` / `Reset`, which
`CompactBitList` never calls — starting from `NewBuffer(size)`, the Go buffer (a slice of a backing array
with spare capacity; `Extend` re-slices WITHOUT clearing when the capacity suffices and otherwise
allocates `2*cap + n` and copies) shows exactly the zero-extended array with those writes; an
out-of-range write panics in both. -/
theorem anybuffer_refines_zero_extended_array (size : Nat) (ops : List ABOp)
    (hno : ops.all ABOp.noTruncate = true) :
    ((ABuf.new size).run ops).map ABuf.slice = zrun [] ops := by
  have := ABuf.run_refines ops hno (ABuf.new size) (ABuf.new_tailZero size)
  simpa [ABuf.slice, ABuf.new] using this

/-- the same from `NewBufferFrom(a)` (`Tighten`) -/
theorem anybuffer_from_refines (a : Array Nat) (ops : List ABOp) (hno : ops.all ABOp.noTruncate = true) :
    ((ABuf.ofArray a).run ops).map ABuf.slice = zrun a.toList ops := by
  have := ABuf.run_refines ops hno (ABuf.ofArray a) (ABuf.ofArray_tailZero a)
  have e : (ABuf.ofArray a).slice = a.toList := by
    simp only [ABuf.slice, ABuf.ofArray]
    exact List.take_of_length_le (by simp)
  rw [e] at this
  exact this

/-- non-vacuity, and why the hypothesis is needed: after a `Truncate` the re-slice exposes old contents -/
example : ((ABuf.new 8).run [.extend 3, .write 2 7, .extend 6, .write 8 9]).map ABuf.slice =
      some [0, 0, 7, 0, 0, 0, 0, 0, 9] ∧
    ((ABuf.new 8).run [.extend 3, .write 2 7, .truncate 1, .extend 2]).map ABuf.slice = some [0, 0, 7] ∧
    zrun [] [.extend 3, .write 2 7, .truncate 1, .extend 2] = some [0, 0, 0] := by decide

end DaeVerif.C11.Props
