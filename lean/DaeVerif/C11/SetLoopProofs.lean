import DaeVerif.C11.Loop
/-! C11 — `CompactBitList.Set` loop by loop (`BitList.setLoop`: the outer loop over 16-bit slices of the
value, the two inner loops for the part in word `i` and the part in word `i+1`, `v >>= 16`) performs
exactly the single-bit writes of `BitList.setRaw`, for every unit size, index and value. -/
namespace DaeVerif.C11

theorem writeBitsFrom_add (p v : Nat) : ∀ (a b k : Nat) (buf : Array Nat),
    writeBitsFrom p v (a + b) k buf = writeBitsFrom p v b (k + a) (writeBitsFrom p v a k buf)
  | 0, b, k, buf => by simp [writeBitsFrom]
  | a + 1, b, k, buf => by
    rw [show a + 1 + b = (a + b) + 1 by omega]
    simp only [writeBitsFrom]
    rw [writeBitsFrom_add p v a b (k + 1)]
    congr 1; omega

theorem writeBitsFrom_shift (p v s : Nat) : ∀ (n k : Nat) (buf : Array Nat),
    writeBitsFrom (p + s) (v >>> s) n k buf = writeBitsFrom p v n (k + s) buf
  | 0, _, _ => rfl
  | n + 1, k, buf => by
    simp only [writeBitsFrom]
    rw [writeBitsFrom_shift p v s n (k + 1), Nat.testBit_shiftRight]
    have e1 : p + s + k = p + (k + s) := by omega
    have e2 : s + k = k + s := by omega
    have e3 : k + 1 + s = k + s + 1 := by omega
    rw [e1, e2, e3]

/-- the first inner loop writes bits `k .. cnt-1` of `v` at flat positions `p+k ..`, `cnt = min u (16-j)` -/
theorem setInner1_spec (i j v u : Nat) : ∀ (fuel k : Nat) (buf : Array Nat),
    k ≤ min u (16 - j) → min u (16 - j) - k < fuel →
    setInner1 i j v u fuel k buf = (min u (16 - j), writeBitsFrom (i * 16 + j) v (min u (16 - j) - k) k buf)
  | 0, _, _, _, h => by omega
  | fuel + 1, k, buf, hk, hf => by
    unfold setInner1
    by_cases hc : k < u ∧ j + k < 16
    · rw [if_pos hc, setInner1_spec i j v u fuel (k + 1) _ (by omega) (by omega)]
      have : min u (16 - j) - k = (min u (16 - j) - (k + 1)) + 1 := by omega
      rw [this]
      simp only [writeBitsFrom]
      have e : i * 16 + (k + j) = i * 16 + j + k := by omega
      rw [e]
    · rw [if_neg hc]
      have : min u (16 - j) - k = 0 := by omega
      rw [this]
      have : k = min u (16 - j) := by omega
      simp [writeBitsFrom, this]

/-- the second inner loop (in word `i+1`, started at `k1 = 16-j`) writes bits `k .. min u 16 - 1` -/
theorem setInner2_spec (i j v u : Nat) (hj : j < 16) : ∀ (fuel k : Nat) (buf : Array Nat),
    16 - j ≤ k → k ≤ min u 16 → min u 16 - k < fuel →
    setInner2 (i + 1) (16 - j) v u fuel k buf = (min u 16, writeBitsFrom (i * 16 + j) v (min u 16 - k) k buf)
  | 0, _, _, _, _, h => by omega
  | fuel + 1, k, buf, h1, hk, hf => by
    unfold setInner2
    by_cases hc : k < u ∧ k < 16
    · rw [if_pos hc, setInner2_spec i j v u hj fuel (k + 1) _ (by omega) (by omega) (by omega)]
      have : min u 16 - k = (min u 16 - (k + 1)) + 1 := by omega
      rw [this]
      simp only [writeBitsFrom]
      have e : (i + 1) * 16 + (k - (16 - j)) = i * 16 + j + k := by omega
      rw [e]
    · rw [if_neg hc]
      have : min u 16 - k = 0 := by omega
      rw [this]
      have : k = min u 16 := by omega
      simp [writeBitsFrom, this]

/-- the outer loop = the flat sequence of single-bit writes -/
theorem setOuter_spec : ∀ (fuel i j v u : Nat) (buf : Array Nat), j < 16 → u < 16 * fuel →
    setOuter fuel i j v u buf = writeBitsFrom (i * 16 + j) v u 0 buf
  | 0, _, _, _, _, _, _, h => by omega
  | fuel + 1, i, j, v, u, buf, hj, hf => by
    unfold setOuter
    by_cases hu : u = 0
    · simp [hu, writeBitsFrom]
    · rw [if_neg hu]
      rw [setInner1_spec i j v u 17 0 buf (by omega) (by omega)]
      simp only [Nat.sub_zero]
      by_cases hge : min u (16 - j) ≥ u
      · rw [if_pos hge]
        have : min u (16 - j) = u := by omega
        rw [this]
      · rw [if_neg hge]
        have hk1 : min u (16 - j) = 16 - j := by omega
        rw [hk1, setInner2_spec i j v u hj 17 (16 - j) _ (Nat.le_refl _) (by omega) (by omega)]
        simp only
        -- first two loops together: bits 0 .. min u 16 - 1
        have hcomb : writeBitsFrom (i * 16 + j) v (min u 16 - (16 - j)) (16 - j)
            (writeBitsFrom (i * 16 + j) v (16 - j) 0 buf) = writeBitsFrom (i * 16 + j) v (min u 16) 0 buf := by
          have := writeBitsFrom_add (i * 16 + j) v (16 - j) (min u 16 - (16 - j)) 0 buf
          rw [Nat.zero_add] at this
          rw [← this]
          congr 1; omega
        rw [hcomb]
        by_cases h16 : u ≤ 16
        · have : u - 16 = 0 := by omega
          rw [this]
          have hm : min u 16 = u := by omega
          rw [hm]
          cases fuel with
          | zero => rfl
          | succ f => unfold setOuter; simp
        · rw [setOuter_spec fuel (i + 1) j (v >>> 16) (u - 16) _ hj (by omega)]
          have hm : min u 16 = 16 := by omega
          rw [hm]
          have e : (i + 1) * 16 + j = (i * 16 + j) + 16 := by omega
          rw [e, writeBitsFrom_shift (i * 16 + j) v 16 (u - 16) 0]
          have := writeBitsFrom_add (i * 16 + j) v 16 (u - 16) 0 buf
          rw [show 16 + (u - 16) = u by omega] at this
          rw [this]

/-- **`Set` with the Go loops = the flat bit writes** (`setRaw`, which the `Get`-after-`Set` theorems are
about), for every unit size, every index and every value -/
theorem BitList.setLoop_eq_setRaw (m : BitList) (iUnit v : Nat) : m.setLoop iUnit v = m.setRaw iUnit v := by
  obtain ⟨unit, buf, unitNum⟩ := m
  simp only [BitList.setLoop, BitList.setRaw, writeBits]
  rw [setOuter_spec _ _ _ _ _ _ (Nat.mod_lt _ (by decide)) (by omega)]
  congr 2
  exact Nat.div_add_mod' (iUnit * unit) 16

theorem BitList.setGo?_eq_set? (m : BitList) (iUnit v : Nat) : m.setGo? iUnit v = m.set? iUnit v := by
  unfold BitList.setGo? BitList.set?
  rw [BitList.setLoop_eq_setRaw]

end DaeVerif.C11
