import DaeVerif.C11.Model
/-!
# C11 — lemmas about the `AddSet` normalisation, the suffix-trie keys and the query word
(the specification level: `hasPrefixSpec`, no succinct-trie internals).
-/
namespace DaeVerif.C11
open List

/-- Names the property quantifies over never contain the two marker bytes. -/
def NoMarkers (dom : Str) : Prop := ∀ c ∈ dom, c ≠ cHat ∧ c ≠ cDollar

theorem trimSuffixByte_concat (c : Nat) (s : Str) : trimSuffixByte c (s ++ [c]) = s := by
  simp [trimSuffixByte]

theorem trimSuffixByte_of_not_last (c : Nat) (s : Str) (h : s.getLast? ≠ some c) :
    trimSuffixByte c s = s := by
  simp [trimSuffixByte, h]

theorem getLast?_ne_of_not_mem {c : Nat} {s : Str} (h : c ∉ s) : s.getLast? ≠ some c := by
  intro hl
  obtain ⟨ys, rfl⟩ := getLast?_eq_some_iff.mp hl
  exact h (by simp)

/-- `ToSuffixTrieString("^"+dom)` for a marker-free name is the reversed name followed by `^`. -/
theorem trieQuery_eq (dom : Str) (h : NoMarkers dom) : trieQuery dom = dom.reverse ++ [cHat] := by
  unfold trieQuery toSuffixTrieString
  have : (cHat :: dom).getLast? ≠ some cDollar := by
    apply getLast?_ne_of_not_mem
    intro hm
    rcases List.mem_cons.mp hm with h1 | h1
    · exact absurd h1 (by decide)
    · exact (h _ h1).2 rfl
  rw [trimSuffixByte_of_not_last _ _ this]
  simp

theorem key_full (d : Str) : toSuffixTrieString (cHat :: d ++ [cDollar]) = d.reverse ++ [cHat] := by
  unfold toSuffixTrieString
  have : cHat :: d ++ [cDollar] = (cHat :: d) ++ [cDollar] := by simp
  rw [this, trimSuffixByte_concat]; simp

theorem key_dot (d : Str) : toSuffixTrieString (cDot :: d ++ [cDollar]) = d.reverse ++ [cDot] := by
  unfold toSuffixTrieString
  have : cDot :: d ++ [cDollar] = (cDot :: d) ++ [cDollar] := by simp
  rw [this, trimSuffixByte_concat]; simp

theorem key_bare (d : Str) : toSuffixTrieString (d ++ [cDollar]) = d.reverse := by
  unfold toSuffixTrieString
  rw [trimSuffixByte_concat]

/-- a key ending in `x` is a prefix of a word ending in `y ≠ x` only inside the word's body -/
theorem snoc_prefix_snoc_ne {a b : Str} {x y : Nat} (hxy : x ≠ y) :
    a ++ [x] <+: b ++ [y] ↔ a ++ [x] <+: b := by
  rw [prefix_concat_iff]
  constructor
  · rintro (h | h)
    · have := congrArg List.getLast? h
      simp at this
      exact absurd this hxy
    · exact h
  · exact Or.inr

/-- a key ending in the marker `y` is a prefix of a marker-terminated word whose body has no `y`
only if it is the whole word -/
theorem snoc_prefix_snoc_same {a b : Str} {y : Nat} (hy : y ∉ b) :
    a ++ [y] <+: b ++ [y] ↔ a = b := by
  rw [prefix_concat_iff]
  constructor
  · rintro (h | h)
    · exact List.append_cancel_right h
    · exact absurd (h.subset (by simp)) hy
  · rintro rfl; exact Or.inl rfl

theorem hat_not_mem_reverse {dom : Str} (h : NoMarkers dom) : cHat ∉ dom.reverse := by
  intro hm
  exact (h _ (List.mem_reverse.mp hm)).1 rfl

/-- **full**: the key `^d$` answers the query for `dom` iff `dom = d`. -/
theorem full_key_iff (d dom : Str) (h : NoMarkers dom) :
    (toSuffixTrieString (cHat :: d ++ [cDollar])).isPrefixOf (trieQuery dom) = true ↔ dom = d := by
  rw [isPrefixOf_iff_prefix, key_full, trieQuery_eq dom h, snoc_prefix_snoc_same (hat_not_mem_reverse h)]
  constructor
  · intro e; have := congrArg List.reverse e; simpa using this.symm
  · rintro rfl; rfl

/-- **suffix**, the `.d$` key: proper sub-names. -/
theorem dot_key_iff (d dom : Str) (h : NoMarkers dom) :
    (toSuffixTrieString (cDot :: d ++ [cDollar])).isPrefixOf (trieQuery dom) = true ↔
      (cDot :: d) <:+ dom := by
  rw [isPrefixOf_iff_prefix, key_dot, trieQuery_eq dom h, snoc_prefix_snoc_ne (by decide)]
  have : d.reverse ++ [cDot] = (cDot :: d).reverse := by simp
  rw [this, reverse_prefix]

/-- **suffix written with a leading dot**, the `d$` key. -/
theorem bare_key_iff (d dom : Str) (h : NoMarkers dom) (hd : d.head? = some cDot) :
    (toSuffixTrieString (d ++ [cDollar])).isPrefixOf (trieQuery dom) = true ↔ d <:+ dom := by
  rw [isPrefixOf_iff_prefix, key_bare, trieQuery_eq dom h]
  obtain ⟨t, rfl⟩ : ∃ t, d = cDot :: t := by
    cases d with
    | nil => simp at hd
    | cons a t => simp at hd; exact ⟨t, by rw [hd]⟩
  have : (cDot :: t).reverse = t.reverse ++ [cDot] := by simp
  rw [this, snoc_prefix_snoc_ne (by decide), ← this, reverse_prefix]

/-! ### `isInfix` -/

theorem isInfix_iff (p s : Str) : isInfix p s = true ↔ p <:+: s := by
  induction s with
  | nil =>
    simp only [isInfix, List.isEmpty_iff]
    constructor
    · rintro rfl; exact ⟨[], [], rfl⟩
    · rintro ⟨a, b, h⟩; simp at h; simp_all
  | cons c s ih =>
    simp only [isInfix, Bool.or_eq_true, isPrefixOf_iff_prefix, ih]
    constructor
    · rintro (h | h)
      · exact h.isInfix
      · exact h.trans (List.suffix_cons c s).isInfix
    · rintro ⟨a, b, h⟩
      cases a with
      | nil => left; exact ⟨b, by simpa using h⟩
      | cons x a => right; simp at h; exact ⟨a, b, by simp [h.2]⟩

/-- A keyword without marker bytes is found in `^name$` iff it is found in `name`
(for a marker-free name). -/
theorem infix_markers_iff (p dom : Str) (hp : NoMarkers p) (hne : p ≠ []) :
    p <:+: (cHat :: dom ++ [cDollar]) ↔ p <:+: dom := by
  constructor
  · rintro ⟨a, b, h⟩
    -- a cannot be empty (p would start with ^), b cannot be empty (p would end with $)
    cases a with
    | nil =>
      cases p with
      | nil => exact absurd rfl hne
      | cons x p => simp at h; exact absurd h.1 (hp x (by simp)).1
    | cons x a =>
      simp at h
      obtain ⟨_, h⟩ := h
      rcases List.eq_nil_or_concat b with rfl | ⟨b', y, rfl⟩
      · -- p ends the word: its last byte is `$`
        have h' : a ++ p = dom ++ [cDollar] := by simpa using h
        rcases List.eq_nil_or_concat p with rfl | ⟨p', z, rfl⟩
        · exact absurd rfl hne
        · have := congrArg List.getLast? h'
          simp [← List.append_assoc] at this
          exact absurd this (hp z (by simp)).2
      · have h' : (a ++ p ++ b') ++ [y] = dom ++ [cDollar] := by simpa [List.append_assoc] using h
        have := List.append_cancel_right_eq .. |>.mp (show (a ++ p ++ b') ++ [y] = dom ++ [y] by
          have hy := congrArg List.getLast? h'; simp at hy; rw [hy] at h' ⊢; exact h')
        exact ⟨a, b', this⟩
  · rintro ⟨a, b, h⟩
    exact ⟨cHat :: a, b ++ [cDollar], by simp [← h]⟩

/-! ### `AddSet` replay: what ends up in `toBuildTrie[i]`, `toBuildAc[i]`, `regexp[i]` -/

/-- what one `AddSet` call appends to its set -/
def contrib (a : AddCall) : SetBuild :=
  match a.kind with
  | .full => ⟨a.pats.flatMap (normFull ·.s), [], []⟩
  | .suffix => ⟨a.pats.flatMap (normSuffix ·.s), [], []⟩
  | .keyword => ⟨[], a.pats.flatMap (normKeyword ·.s), []⟩
  | .regex => ⟨[], [], a.pats.map (·.rxId)⟩
  | .unknown => ⟨[], [], []⟩

def SetBuild.app (x y : SetBuild) : SetBuild := ⟨x.trie ++ y.trie, x.ac ++ y.ac, x.rx ++ y.rx⟩

/-- the calls of the log that address set `i`, in order -/
def callsFor (log : List AddCall) (i : Nat) : List AddCall := log.filter (·.idx == i)

/-- set `i` as a function of the calls addressed to it only -/
def setOf (log : List AddCall) (i : Nat) : SetBuild :=
  ⟨(callsFor log i).flatMap (contrib · |>.trie), (callsFor log i).flatMap (contrib · |>.ac),
   (callsFor log i).flatMap (contrib · |>.rx)⟩

/-- a call that `AddSet` accepts -/
def callOk (n : Nat) (a : AddCall) : Bool :=
  decide (a.idx < n) &&
  (match a.kind with
   | .regex => a.pats.all (·.rxOk)
   | .unknown => a.pats.isEmpty
   | _ => true)

/-- the error `AddSet` records for a call that is not ok -/
def callErr (n : Nat) (a : AddCall) : MErr :=
  if a.idx ≥ n then .tooMany else match a.kind with
    | .regex => .badRegex
    | _ => .unknownKind

theorem app_empty (x : SetBuild) : x.app ⟨[], [], []⟩ = x := by
  cases x; simp [SetBuild.app]

theorem addSet_of_err (m : Matcher) (a : AddCall) (e : MErr) (h : m.err = some e) :
    m.addSet a.idx a.kind a.pats = m := by
  simp [Matcher.addSet, h]

theorem addSet_not_ok (m : Matcher) (a : AddCall) (h : m.err = none) (hc : callOk m.sets.size a = false) :
    (m.addSet a.idx a.kind a.pats).err = some (callErr m.sets.size a) := by
  unfold callOk at hc
  unfold Matcher.addSet callErr
  simp only [h, Option.isSome_none, Bool.false_eq_true, ↓reduceIte]
  by_cases hi : a.idx ≥ m.sets.size
  · simp [hi]
  · have hi' : a.idx < m.sets.size := by omega
    simp only [hi, ↓reduceIte]
    simp only [hi', decide_true, Bool.true_and] at hc
    cases hk : a.kind <;> simp only [hk] at hc ⊢ <;> simp_all

theorem addSet_ok (m : Matcher) (a : AddCall) (h : m.err = none) (hc : callOk m.sets.size a = true) :
    (m.addSet a.idx a.kind a.pats).err = none ∧
    (m.addSet a.idx a.kind a.pats).sets.size = m.sets.size ∧
    ∀ i, (m.addSet a.idx a.kind a.pats).sets[i]? =
      (m.sets[i]?).map fun sb => if a.idx = i then sb.app (contrib a) else sb := by
  unfold callOk at hc
  simp only [Bool.and_eq_true, decide_eq_true_eq] at hc
  obtain ⟨hi, hk⟩ := hc
  have hi' : ¬ a.idx ≥ m.sets.size := by omega
  unfold Matcher.addSet
  simp only [h, Option.isSome_none, Bool.false_eq_true, ↓reduceIte, hi']
  cases hkind : a.kind <;> simp only [hkind] at hk ⊢
  case unknown =>
    simp only [hk, ↓reduceIte, h, true_and]
    intro i
    cases hs : m.sets[i]? <;> simp [contrib, hkind, app_empty]
  case regex =>
    simp only [hk, ↓reduceIte, h, Array.size_modify, true_and]
    intro i
    rw [Array.getElem?_modify]
    by_cases e : a.idx = i <;> simp [e, contrib, hkind, SetBuild.app]
    all_goals (cases hs : m.sets[i]? <;> simp)
  all_goals
    simp only [h, Array.size_modify, true_and]
    intro i
    rw [Array.getElem?_modify]
    by_cases e : a.idx = i <;> simp [e, contrib, hkind, SetBuild.app]
    all_goals (cases hs : m.sets[i]? <;> simp)

end DaeVerif.C11
