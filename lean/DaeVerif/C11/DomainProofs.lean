import DaeVerif.C11.Model
/-!
# C11 — lemmas about the `AddSet` normalisation, the suffix-trie keys and the query word
(the specification level: `hasPrefixSpec`, no succinct-trie internals).
-/
namespace DaeVerif.C11
open List

/-- Names the property quantifies over never contain the two marker bytes. -/
def NoMarkers (dom : Str) : Prop := ∀ c ∈ dom, c ≠ cHat ∧ c ≠ cDollar

theorem trimSuffixByte_concat (c : Nat) (s : Str) : trimSuffixByte c (s ++ [c]) = s := by
  simp [trimSuffixByte]

theorem trimSuffixByte_of_not_last (c : Nat) (s : Str) (h : s.getLast? ≠ some c) :
    trimSuffixByte c s = s := by
  simp [trimSuffixByte, h]

theorem getLast?_ne_of_not_mem {c : Nat} {s : Str} (h : c ∉ s) : s.getLast? ≠ some c := by
  intro hl
  obtain ⟨ys, rfl⟩ := getLast?_eq_some_iff.mp hl
  exact h (by simp)

/-- `ToSuffixTrieString("^"+dom)` for a marker-free name is the reversed name followed by `^`. -/
theorem trieQuery_eq (dom : Str) (h : NoMarkers dom) : trieQuery dom = dom.reverse ++ [cHat] := by
  unfold trieQuery toSuffixTrieString
  have : (cHat :: dom).getLast? ≠ some cDollar := by
    apply getLast?_ne_of_not_mem
    intro hm
    rcases List.mem_cons.mp hm with h1 | h1
    · exact absurd h1 (by decide)
    · exact (h _ h1).2 rfl
  rw [trimSuffixByte_of_not_last _ _ this]
  simp

theorem key_full (d : Str) : toSuffixTrieString (cHat :: d ++ [cDollar]) = d.reverse ++ [cHat] := by
  unfold toSuffixTrieString
  have : cHat :: d ++ [cDollar] = (cHat :: d) ++ [cDollar] := by simp
  rw [this, trimSuffixByte_concat]; simp

theorem key_dot (d : Str) : toSuffixTrieString (cDot :: d ++ [cDollar]) = d.reverse ++ [cDot] := by
  unfold toSuffixTrieString
  have : cDot :: d ++ [cDollar] = (cDot :: d) ++ [cDollar] := by simp
  rw [this, trimSuffixByte_concat]; simp

theorem key_bare (d : Str) : toSuffixTrieString (d ++ [cDollar]) = d.reverse := by
  unfold toSuffixTrieString
  rw [trimSuffixByte_concat]

/-- a key ending in `x` is a prefix of a word ending in `y ≠ x` only inside the word's body -/
theorem snoc_prefix_snoc_ne {a b : Str} {x y : Nat} (hxy : x ≠ y) :
    a ++ [x] <+: b ++ [y] ↔ a ++ [x] <+: b := by
  rw [prefix_concat_iff]
  constructor
  · rintro (h | h)
    · have := congrArg List.getLast? h
      simp at this
      exact absurd this hxy
    · exact h
  · exact Or.inr

/-- a key ending in the marker `y` is a prefix of a marker-terminated word whose body has no `y`
only if it is the whole word -/
theorem snoc_prefix_snoc_same {a b : Str} {y : Nat} (hy : y ∉ b) :
    a ++ [y] <+: b ++ [y] ↔ a = b := by
  rw [prefix_concat_iff]
  constructor
  · rintro (h | h)
    · exact List.append_cancel_right h
    · exact absurd (h.subset (by simp)) hy
  · rintro rfl; exact Or.inl rfl

theorem hat_not_mem_reverse {dom : Str} (h : NoMarkers dom) : cHat ∉ dom.reverse := by
  intro hm
  exact (h _ (List.mem_reverse.mp hm)).1 rfl

/-- **full**: the key `^d$` answers the query for `dom` iff `dom = d`. -/
theorem full_key_iff (d dom : Str) (h : NoMarkers dom) :
    (toSuffixTrieString (cHat :: d ++ [cDollar])).isPrefixOf (trieQuery dom) = true ↔ dom = d := by
  rw [isPrefixOf_iff_prefix, key_full, trieQuery_eq dom h, snoc_prefix_snoc_same (hat_not_mem_reverse h)]
  constructor
  · intro e; have := congrArg List.reverse e; simpa using this.symm
  · rintro rfl; rfl

/-- **suffix**, the `.d$` key: proper sub-names. -/
theorem dot_key_iff (d dom : Str) (h : NoMarkers dom) :
    (toSuffixTrieString (cDot :: d ++ [cDollar])).isPrefixOf (trieQuery dom) = true ↔
      (cDot :: d) <:+ dom := by
  rw [isPrefixOf_iff_prefix, key_dot, trieQuery_eq dom h, snoc_prefix_snoc_ne (by decide)]
  have : d.reverse ++ [cDot] = (cDot :: d).reverse := by simp
  rw [this, reverse_prefix]

/-- **suffix written with a leading dot**, the `d$` key. -/
theorem bare_key_iff (d dom : Str) (h : NoMarkers dom) (hd : d.head? = some cDot) :
    (toSuffixTrieString (d ++ [cDollar])).isPrefixOf (trieQuery dom) = true ↔ d <:+ dom := by
  rw [isPrefixOf_iff_prefix, key_bare, trieQuery_eq dom h]
  obtain ⟨t, rfl⟩ : ∃ t, d = cDot :: t := by
    cases d with
    | nil => simp at hd
    | cons a t => simp at hd; exact ⟨t, by rw [hd]⟩
  have : (cDot :: t).reverse = t.reverse ++ [cDot] := by simp
  rw [this, snoc_prefix_snoc_ne (by decide), ← this, reverse_prefix]

/-! ### `isInfix` -/

theorem isInfix_iff (p s : Str) : isInfix p s = true ↔ p <:+: s := by
  induction s with
  | nil =>
    simp only [isInfix, List.isEmpty_iff]
    constructor
    · rintro rfl; exact ⟨[], [], rfl⟩
    · rintro ⟨a, b, h⟩; simp at h; simp_all
  | cons c s ih =>
    simp only [isInfix, Bool.or_eq_true, isPrefixOf_iff_prefix, ih]
    constructor
    · rintro (h | h)
      · exact h.isInfix
      · exact h.trans (List.suffix_cons c s).isInfix
    · rintro ⟨a, b, h⟩
      cases a with
      | nil => left; exact ⟨b, by simpa using h⟩
      | cons x a => right; simp at h; exact ⟨a, b, by simp [h.2]⟩

/-- A keyword without marker bytes is found in `^name$` iff it is found in `name`
(for a marker-free name). -/
theorem infix_markers_iff (p dom : Str) (hp : NoMarkers p) (hne : p ≠ []) :
    p <:+: (cHat :: dom ++ [cDollar]) ↔ p <:+: dom := by
  constructor
  · rintro ⟨a, b, h⟩
    -- a cannot be empty (p would start with ^), b cannot be empty (p would end with $)
    cases a with
    | nil =>
      cases p with
      | nil => exact absurd rfl hne
      | cons x p => simp at h; exact absurd h.1 (hp x (by simp)).1
    | cons x a =>
      simp at h
      obtain ⟨_, h⟩ := h
      rcases List.eq_nil_or_concat b with rfl | ⟨b', y, rfl⟩
      · -- p ends the word: its last byte is `$`
        have h' : a ++ p = dom ++ [cDollar] := by simpa using h
        rcases List.eq_nil_or_concat p with rfl | ⟨p', z, rfl⟩
        · exact absurd rfl hne
        · have := congrArg List.getLast? h'
          simp [← List.append_assoc] at this
          exact absurd this (hp z (by simp)).2
      · have h' : (a ++ p ++ b') ++ [y] = dom ++ [cDollar] := by simpa [List.append_assoc] using h
        have := List.append_cancel_right_eq .. |>.mp (show (a ++ p ++ b') ++ [y] = dom ++ [y] by
          have hy := congrArg List.getLast? h'; simp at hy; rw [hy] at h' ⊢; exact h')
        exact ⟨a, b', this⟩
  · rintro ⟨a, b, h⟩
    exact ⟨cHat :: a, b ++ [cDollar], by simp [← h]⟩

/-! ### anchored keywords: the sentinel trick `^name$` implements `kwMeaning` -/

theorem noMarker_of_subset {k dom : Str} (hd : NoMarkers dom) (h : k ⊆ dom) : k.any isMarker = false := by
  rw [Bool.eq_false_iff]
  intro hany
  obtain ⟨c, hc, hm⟩ := List.any_eq_true.mp hany
  have := hd c (h hc)
  simp only [isMarker, Bool.or_eq_true, beq_iff_eq] at hm
  rcases hm with rfl | rfl
  · exact this.1 rfl
  · exact this.2 rfl

theorem hat_not_mem_body {dom : Str} (hd : NoMarkers dom) : cHat ∉ dom ++ [cDollar] := by
  intro h
  rcases List.mem_append.mp h with h | h
  · exact (hd _ h).1 rfl
  · simp at h; exact absurd h (by decide)

theorem dollar_not_mem {dom : Str} (hd : NoMarkers dom) : cDollar ∉ dom := fun h => (hd _ h).2 rfl

/-- **The sentinel trick is the documented meaning.** For a name without `^`/`$` and a non-empty
keyword, `keyword` occurs in `^name$` iff `kwMeaning keyword name`. -/
theorem infix_sentinels_eq_kwMeaning (p dom : Str) (hd : NoMarkers dom) (hne : p ≠ []) :
    isInfix p (cHat :: dom ++ [cDollar]) = kwMeaning p dom := by
  rw [Bool.eq_iff_iff, isInfix_iff]
  have hS : cHat :: dom ++ [cDollar] = cHat :: (dom ++ [cDollar]) := by simp
  rw [hS]
  unfold kwMeaning
  have hpe : p.isEmpty = false := by cases p <;> simp_all
  simp only [hpe, Bool.false_eq_true, ↓reduceIte]
  cases p with
  | nil => exact absurd rfl hne
  | cons c p1 =>
    by_cases ha : c = cHat
    · -- anchored at the start
      subst ha
      simp only [List.head?_cons, beq_self_eq_true, ↓reduceIte, List.tail_cons]
      have step : cHat :: p1 <:+: cHat :: (dom ++ [cDollar]) ↔ p1 <+: dom ++ [cDollar] := by
        rw [List.infix_cons_iff]
        constructor
        · rintro (h | h)
          · exact (List.cons_prefix_cons.mp h).2
          · exact absurd (h.subset (by simp)) (hat_not_mem_body hd)
        · intro h; exact Or.inl (List.cons_prefix_cons.mpr ⟨rfl, h⟩)
      rw [step]
      by_cases hz : p1.getLast? = some cDollar
      · obtain ⟨k, rfl⟩ := List.getLast?_eq_some_iff.mp hz
        simp only [List.getLast?_concat, beq_self_eq_true, ↓reduceIte, List.dropLast_concat]
        rw [List.prefix_concat_iff]
        constructor
        · rintro (h | h)
          · have hk : k = dom := List.append_cancel_right h
            subst hk
            rw [noMarker_of_subset hd (fun _ h => h)]; simp
          · exact absurd (h.subset (by simp)) (dollar_not_mem hd)
        · intro h
          by_cases hm : k.any isMarker = true
          · simp [hm] at h
          · simp only [hm, Bool.false_eq_true, ↓reduceIte, beq_iff_eq] at h
            exact Or.inl (by rw [h])
      · have hz' : (p1.getLast? == some cDollar) = false := by simpa using hz
        simp only [hz', Bool.false_eq_true, ↓reduceIte]
        rw [List.prefix_concat_iff]
        constructor
        · rintro (h | h)
          · rw [h] at hz; simp at hz
          · rw [noMarker_of_subset hd h.subset]
            simpa [List.isPrefixOf_iff_prefix] using h
        · intro h
          by_cases hm : p1.any isMarker = true
          · simp [hm] at h
          · simp only [hm, Bool.false_eq_true, ↓reduceIte, List.isPrefixOf_iff_prefix] at h
            exact Or.inr h
    · -- not anchored at the start
      have ha' : (some c == some cHat) = false := by simp [ha]
      simp only [List.head?_cons, ha', Bool.false_eq_true, ↓reduceIte]
      have step : c :: p1 <:+: cHat :: (dom ++ [cDollar]) ↔ c :: p1 <:+: dom ++ [cDollar] := by
        rw [List.infix_cons_iff]
        constructor
        · rintro (h | h)
          · exact absurd (List.cons_prefix_cons.mp h).1 ha
          · exact h
        · exact Or.inr
      rw [step, List.infix_concat_iff]
      by_cases hz : (c :: p1).getLast? = some cDollar
      · obtain ⟨k, hk⟩ := List.getLast?_eq_some_iff.mp hz
        rw [hk]
        simp only [List.getLast?_concat, beq_self_eq_true, ↓reduceIte, List.dropLast_concat]
        constructor
        · rintro (h | h)
          · rw [List.suffix_concat_iff] at h
            rcases h with h | ⟨t, ht, hsuf⟩
            · simp at h
            · have : k = t := List.append_cancel_right ht
              subst this
              rw [noMarker_of_subset hd hsuf.subset]
              simpa [List.isSuffixOf_iff_suffix] using hsuf
          · exact absurd (h.subset (by simp)) (dollar_not_mem hd)
        · intro h
          by_cases hm : k.any isMarker = true
          · simp [hm] at h
          · simp only [hm, Bool.false_eq_true, ↓reduceIte, List.isSuffixOf_iff_suffix] at h
            left
            rw [List.suffix_concat_iff]
            exact Or.inr ⟨k, rfl, h⟩
      · have hz' : ((c :: p1).getLast? == some cDollar) = false := by simpa using hz
        simp only [hz', Bool.false_eq_true, ↓reduceIte]
        constructor
        · rintro (h | h)
          · rw [List.suffix_concat_iff] at h
            rcases h with h | ⟨t, ht, _⟩
            · simp at h
            · rw [ht] at hz; simp at hz
          · rw [noMarker_of_subset hd h.subset]
            simpa [isInfix_iff] using h
        · intro h
          by_cases hm : (c :: p1).any isMarker = true
          · simp [hm] at h
          · simp only [hm, Bool.false_eq_true, ↓reduceIte, isInfix_iff] at h
            exact Or.inr h

theorem kwMeaning_nil (dom : Str) : kwMeaning [] dom = false := by simp [kwMeaning]

/-! ### `AddSet` replay: what ends up in `toBuildTrie[i]`, `toBuildAc[i]`, `regexp[i]` -/

/-- what one `AddSet` call appends to its set -/
def contrib (a : AddCall) : SetBuild :=
  match a.kind with
  | .full => ⟨a.pats.flatMap (normFull ·.s), [], []⟩
  | .suffix => ⟨a.pats.flatMap (normSuffix ·.s), [], []⟩
  | .keyword => ⟨[], a.pats.flatMap (normKeyword ·.s), []⟩
  | .regex => ⟨[], [], a.pats.map (·.rxId)⟩
  | .unknown => ⟨[], [], []⟩

def SetBuild.app (x y : SetBuild) : SetBuild := ⟨x.trie ++ y.trie, x.ac ++ y.ac, x.rx ++ y.rx⟩

/-- the calls of the log that address set `i`, in order -/
def callsFor (log : List AddCall) (i : Nat) : List AddCall := log.filter (·.idx == i)

/-- set `i` as a function of the calls addressed to it only -/
def setOf (log : List AddCall) (i : Nat) : SetBuild :=
  ⟨(callsFor log i).flatMap (contrib · |>.trie), (callsFor log i).flatMap (contrib · |>.ac),
   (callsFor log i).flatMap (contrib · |>.rx)⟩

/-- a call that `AddSet` accepts -/
def callOk (n : Nat) (a : AddCall) : Bool :=
  decide (a.idx < n) &&
  (match a.kind with
   | .regex => a.pats.all (·.rxOk)
   | .unknown => a.pats.isEmpty
   | _ => true)

/-- the error `AddSet` records for a call that is not ok -/
def callErr (n : Nat) (a : AddCall) : MErr :=
  if a.idx ≥ n then .tooMany else match a.kind with
    | .regex => .badRegex
    | _ => .unknownKind

theorem app_empty (x : SetBuild) : x.app ⟨[], [], []⟩ = x := by
  cases x; simp [SetBuild.app]

theorem addSet_of_err (m : Matcher) (a : AddCall) (e : MErr) (h : m.err = some e) :
    m.addSet a.idx a.kind a.pats = m := by
  simp [Matcher.addSet, h]

theorem addSet_not_ok (m : Matcher) (a : AddCall) (h : m.err = none) (hc : callOk m.sets.size a = false) :
    (m.addSet a.idx a.kind a.pats).err = some (callErr m.sets.size a) := by
  unfold callOk at hc
  unfold Matcher.addSet callErr
  simp only [h, Option.isSome_none, Bool.false_eq_true, ↓reduceIte]
  by_cases hi : a.idx ≥ m.sets.size
  · simp [hi]
  · have hi' : a.idx < m.sets.size := by omega
    simp only [hi, ↓reduceIte]
    simp only [hi', decide_true, Bool.true_and] at hc
    cases hk : a.kind <;> simp only [hk] at hc ⊢ <;> simp_all
    obtain ⟨x, hx, hx'⟩ := hc
    rw [if_neg]
    intro hall
    rw [hall x hx] at hx'
    exact absurd hx' (by decide)

theorem addSet_ok (m : Matcher) (a : AddCall) (h : m.err = none) (hc : callOk m.sets.size a = true) :
    (m.addSet a.idx a.kind a.pats).err = none ∧
    (m.addSet a.idx a.kind a.pats).sets.size = m.sets.size ∧
    ∀ i, (m.addSet a.idx a.kind a.pats).sets[i]? =
      (m.sets[i]?).map fun sb => if a.idx = i then sb.app (contrib a) else sb := by
  unfold callOk at hc
  simp only [Bool.and_eq_true, decide_eq_true_eq] at hc
  obtain ⟨hi, hk⟩ := hc
  have hi' : ¬ a.idx ≥ m.sets.size := by omega
  unfold Matcher.addSet
  simp only [h, Option.isSome_none, Bool.false_eq_true, ↓reduceIte, hi']
  cases hkind : a.kind <;> simp only [hkind] at hk ⊢
  case unknown =>
    simp only [hk, ↓reduceIte, h, true_and]
    intro i
    cases hs : m.sets[i]? <;> simp [contrib, hkind, app_empty]
  case regex =>
    simp only [hk, ↓reduceIte, Array.size_modify, true_and]
    intro i
    rw [Array.getElem?_modify]
    by_cases e : a.idx = i <;> simp [e, contrib, hkind, SetBuild.app]
    all_goals (cases hs : m.sets[i]? <;> simp)
  all_goals
    simp only [Array.size_modify, true_and]
    intro i
    rw [Array.getElem?_modify]
    by_cases e : a.idx = i <;> simp [e, contrib, hkind, SetBuild.app]
    all_goals (cases hs : m.sets[i]? <;> simp)

theorem app_assoc (x y z : SetBuild) : (x.app y).app z = x.app (y.app z) := by
  simp [SetBuild.app, List.append_assoc]

theorem setOf_nil (i : Nat) : setOf [] i = ⟨[], [], []⟩ := by simp [setOf, callsFor]

theorem setOf_cons (a : AddCall) (log : List AddCall) (i : Nat) :
    setOf (a :: log) i = if a.idx = i then (contrib a).app (setOf log i) else setOf log i := by
  by_cases e : a.idx = i
  · simp [setOf, callsFor, e, SetBuild.app]
  · have : (a.idx == i) = false := by simp [e]
    simp [setOf, callsFor, e, this]

def stepAdd (m : Matcher) (a : AddCall) : Matcher := m.addSet a.idx a.kind a.pats

theorem foldl_of_err (log : List AddCall) : ∀ (m : Matcher) (e : MErr), m.err = some e →
    log.foldl stepAdd m = m := by
  induction log with
  | nil => intros; rfl
  | cons a log ih =>
    intro m e h
    simp only [List.foldl_cons, stepAdd]
    rw [addSet_of_err m a e h]
    exact ih m e h

theorem foldl_ok (log : List AddCall) : ∀ (m : Matcher), m.err = none →
    (∀ a ∈ log, callOk m.sets.size a = true) →
    (log.foldl stepAdd m).err = none ∧ (log.foldl stepAdd m).sets.size = m.sets.size ∧
    ∀ i : Nat, (log.foldl stepAdd m).sets[i]? = (m.sets[i]?).map fun (sb : SetBuild) => sb.app (setOf log i) := by
  induction log with
  | nil =>
    intro m h _
    refine ⟨h, rfl, ?_⟩
    intro i
    have : (fun sb : SetBuild => sb.app (setOf [] i)) = id := by
      funext sb; simp [setOf_nil, app_empty]
    rw [this]; simp
  | cons a log ih =>
    intro m h hall
    obtain ⟨h1, h2, h3⟩ := addSet_ok m a h (hall a (by simp))
    have hall' : ∀ b ∈ log, callOk (m.addSet a.idx a.kind a.pats).sets.size b = true := by
      intro b hb; rw [h2]; exact hall b (by simp [hb])
    obtain ⟨g1, g2, g3⟩ := ih _ h1 hall'
    simp only [List.foldl_cons, stepAdd] at g1 g2 g3 ⊢
    refine ⟨g1, by rw [g2, h2], ?_⟩
    intro i
    rw [g3 i, h3 i, setOf_cons]
    cases hs : m.sets[i]? with
    | none => simp
    | some sb =>
      by_cases e : a.idx = i <;> simp [e, app_assoc]

theorem foldl_bad (log : List AddCall) : ∀ (m : Matcher) (a : AddCall), m.err = none →
    log.find? (fun a => !callOk m.sets.size a) = some a →
    (log.foldl stepAdd m).err = some (callErr m.sets.size a) := by
  induction log with
  | nil => intro m a _ h; simp at h
  | cons b log ih =>
    intro m a h hf
    simp only [List.foldl_cons, stepAdd]
    by_cases hb : callOk m.sets.size b = true
    · obtain ⟨h1, h2, _⟩ := addSet_ok m b h hb
      have hf' : log.find? (fun a => !callOk m.sets.size a) = some a := by
        rw [List.find?_cons_of_neg (by simp [hb])] at hf; exact hf
      have := ih (m.addSet b.idx b.kind b.pats) a h1 (by rw [h2]; exact hf')
      rw [h2] at this
      exact this
    · have hb' : callOk m.sets.size b = false := by simpa using hb
      have : a = b := by
        rw [List.find?_cons_of_pos (by simp [hb'])] at hf; exact (Option.some.inj hf).symm
      subst this
      have he := addSet_not_ok m a h hb'
      have := foldl_of_err log _ _ he
      rw [this, he]

theorem replay_ok (n : Nat) (log : List AddCall) (hall : ∀ a ∈ log, callOk n a = true) :
    (Matcher.replayCore n log).err = none ∧ (Matcher.replayCore n log).sets.size = n ∧
    ∀ i, i < n → (Matcher.replayCore n log).sets[i]? = some (setOf log i) := by
  have h := foldl_ok log (Matcher.new n) rfl (by simpa [Matcher.new] using hall)
  simp only [Matcher.new, Array.size_replicate] at h
  have e : Matcher.replayCore n log = log.foldl stepAdd ⟨Array.replicate n {}, none⟩ := rfl
  refine ⟨by rw [e]; exact h.1, by rw [e]; exact h.2.1, ?_⟩
  intro i hi
  have := h.2.2 i
  have e : Matcher.replayCore n log = log.foldl stepAdd ⟨Array.replicate n {}, none⟩ := rfl
  rw [e, this]
  simp [hi, SetBuild.app]

theorem replay_bad (n : Nat) (log : List AddCall) (a : AddCall)
    (h : log.find? (fun a => !callOk n a) = some a) :
    (Matcher.replayCore n log).err = some (callErr n a) := by
  have := foldl_bad log (Matcher.new n) a rfl (by simpa [Matcher.new] using h)
  have e : Matcher.replayCore n log = log.foldl stepAdd (Matcher.new n) := rfl
  rw [e]
  simpa [Matcher.new] using this

/-! ### `Build` -/

theorem mem_dedupAdj (x : Str) : ∀ l : List Str, x ∈ dedupAdj l ↔ x ∈ l
  | [] => by simp [dedupAdj]
  | [a] => by simp [dedupAdj]
  | a :: b :: rest => by
    have ih := mem_dedupAdj x (b :: rest)
    unfold dedupAdj
    by_cases e : a = b
    · simp only [e, ↓reduceIte, ih]; simp
    · simp only [e, ↓reduceIte, List.mem_cons] at ih ⊢
      rw [ih]

theorem mem_sortDedup (x : Str) (keys : List Str) : x ∈ sortDedup keys ↔ x ∈ keys := by
  unfold sortDedup
  rw [mem_dedupAdj, List.mem_mergeSort]

theorem firstInvalid_none_iff (chars : ValidChars) (keys : List Str) :
    firstInvalid chars keys = none ↔ ∀ k ∈ keys, ∀ c ∈ k, chars.isValid c = true := by
  unfold firstInvalid
  rw [List.findSome?_eq_none_iff]
  constructor
  · intro h k hk c hc
    have := h k hk
    rw [List.find?_eq_none] at this
    simpa using this c hc
  · intro h k hk
    rw [List.find?_eq_none]
    intro c hc
    simpa using h k hk c hc

theorem firstInvalid_some (chars : ValidChars) (keys : List Str) (c : Nat)
    (h : firstInvalid chars keys = some c) : ∃ k ∈ keys, c ∈ k ∧ chars.isValid c = false := by
  unfold firstInvalid at h
  obtain ⟨k, hk, hf⟩ := List.exists_of_findSome?_eq_some h
  have := List.find?_some hf
  exact ⟨k, hk, List.mem_of_find?_eq_some hf, by simpa using this⟩

/-- `NewTrie` succeeds on a non-empty list of keys over the alphabet. -/
theorem Trie.build_ok (chars : ValidChars) (keys : List Str) (hne : keys ≠ [])
    (hv : ∀ k ∈ keys, ∀ c ∈ k, chars.isValid c = true) :
    Trie.build chars keys = .ok (Trie.ofOuts chars (bfs (sortDedup keys))) := by
  unfold Trie.build
  have h1 : firstInvalid chars (sortDedup keys) = none := by
    rw [firstInvalid_none_iff]
    intro k hk; exact hv k ((mem_sortDedup k keys).mp hk)
  have h2 : (sortDedup keys).isEmpty = false := by
    cases keys with
    | nil => exact absurd rfl hne
    | cons k ks =>
      have : k ∈ sortDedup (k :: ks) := (mem_sortDedup k _).mpr (by simp)
      cases hs : sortDedup (k :: ks) with
      | nil => rw [hs] at this; simp at this
      | cons _ _ => rfl
  simp only [h1, h2]
  rfl

theorem valid_hat : domainChars.isValid cHat = true := by decide
theorem valid_dot : domainChars.isValid cDot = true := by decide

/-- every key `AddSet` stores for full/suffix patterns is, once `ToSuffixTrieString` has removed the
`$`, a word over the trie alphabet -/
theorem normFull_keys_valid (d k : Str) (hk : k ∈ normFull d) :
    ∀ c ∈ toSuffixTrieString k, domainChars.isValid c = true := by
  unfold normFull at hk
  split at hk
  · rename_i hv
    simp only [List.mem_singleton] at hk
    subst hk
    rw [key_full]
    intro c hc
    simp only [List.mem_append, List.mem_reverse, List.mem_singleton] at hc
    rcases hc with hc | rfl
    · exact List.all_eq_true.mp hv c hc
    · exact valid_hat
  · simp at hk

theorem normSuffix_keys_valid (d k : Str) (hk : k ∈ normSuffix d) :
    ∀ c ∈ toSuffixTrieString k, domainChars.isValid c = true := by
  unfold normSuffix at hk
  split at hk
  · rename_i hv
    have hd := List.all_eq_true.mp hv
    split at hk
    · simp only [List.mem_singleton] at hk
      subst hk
      rw [key_bare]
      intro c hc
      exact hd c (List.mem_reverse.mp hc)
    · simp only [List.mem_cons, List.not_mem_nil, or_false] at hk
      rcases hk with rfl | rfl
      · rw [key_dot]
        intro c hc
        simp only [List.mem_append, List.mem_reverse, List.mem_singleton] at hc
        rcases hc with hc | rfl
        · exact hd c hc
        · exact valid_dot
      · rw [key_full]
        intro c hc
        simp only [List.mem_append, List.mem_reverse, List.mem_singleton] at hc
        rcases hc with hc | rfl
        · exact hd c hc
        · exact valid_hat
  · simp at hk

theorem contrib_trie_valid (a : AddCall) (k : Str) (hk : k ∈ (contrib a).trie) :
    ∀ c ∈ toSuffixTrieString k, domainChars.isValid c = true := by
  unfold contrib at hk
  cases hkind : a.kind <;> simp only [hkind] at hk
  · obtain ⟨p, _, hp⟩ := List.mem_flatMap.mp hk
    exact normFull_keys_valid p.s k hp
  · obtain ⟨p, _, hp⟩ := List.mem_flatMap.mp hk
    exact normSuffix_keys_valid p.s k hp
  all_goals simp at hk

theorem kwValid_acValid (k : Str) (h : k.all kwValid = true) : k.all acValid = true := by
  rw [List.all_eq_true] at h ⊢
  intro c hc
  have := h c hc
  simp only [kwValid, Bool.and_eq_true] at this
  exact this.1

theorem kwValid_noMarkers (k : Str) (h : k.all kwValid = true) : NoMarkers k := by
  rw [List.all_eq_true] at h
  intro c hc
  have := h c hc
  simp only [kwValid, isMarker, Bool.and_eq_true, Bool.not_eq_true', Bool.or_eq_false_iff,
    beq_eq_false_iff_ne] at this
  exact this.2

theorem contrib_ac_valid (a : AddCall) (k : Str) (hk : k ∈ (contrib a).ac) :
    k.all acValid = true := by
  unfold contrib at hk
  cases hkind : a.kind <;> simp only [hkind] at hk
  case keyword =>
    obtain ⟨p, _, hp⟩ := List.mem_flatMap.mp hk
    unfold normKeyword at hp
    split at hp
    · simp at hp; rw [hp]; exact kwValid_acValid _ (by assumption)
    · simp at hp
  all_goals simp at hk

/-- the built form of set `i` -/
def builtOf (sb : SetBuild) : BuiltSet :=
  let keys := sb.trie.map toSuffixTrieString
  ⟨keys, if keys.isEmpty then none else some (Trie.ofOuts domainChars (bfs (sortDedup keys))), sb.ac, sb.rx⟩

theorem buildSet_setOf (log : List AddCall) (i : Nat) :
    buildSet (setOf log i) = .ok (builtOf (setOf log i)) := by
  unfold buildSet builtOf
  have hac : ((setOf log i).ac.all fun p => p.all acValid) = true := by
    rw [List.all_eq_true]
    intro k hk
    simp only [setOf] at hk
    obtain ⟨a, _, ha⟩ := List.mem_flatMap.mp hk
    exact contrib_ac_valid a k ha
  simp only [hac, Bool.not_true, Bool.false_eq_true, ↓reduceIte]
  by_cases he : ((setOf log i).trie.map toSuffixTrieString).isEmpty = true
  · simp [he]
  · simp only [he, Bool.false_eq_true, ↓reduceIte]
    rw [Trie.build_ok]
    · intro h; simp [h] at he
    · intro k hk c hc
      obtain ⟨k0, hk0, rfl⟩ := List.mem_map.mp hk
      simp only [setOf] at hk0
      obtain ⟨a, _, ha⟩ := List.mem_flatMap.mp hk0
      exact contrib_trie_valid a k0 ha c hc

theorem mapM_ok_of_forall {α β : Type} (f : α → Except MErr β) (g : α → β) :
    ∀ l : List α, (∀ x ∈ l, f x = .ok (g x)) → l.mapM f = .ok (l.map g)
  | [], _ => rfl
  | x :: l, h => by
    rw [List.mapM_cons, h x (by simp), mapM_ok_of_forall f g l (fun y hy => h y (by simp [hy]))]
    rfl

/-- **Build succeeds** whenever every `AddSet` call was acceptable, and set `i` of the result is a
function of the calls addressed to `i` only. -/
theorem build_ok (n : Nat) (log : List AddCall) (hall : ∀ a ∈ log, callOk n a = true) :
    ∃ b, (Matcher.replayCore n log).build = .ok b ∧ b.sets.size = n ∧
      ∀ i, i < n → b.sets[i]? = some (builtOf (setOf log i)) := by
  obtain ⟨h1, h2, h3⟩ := replay_ok n log hall
  have hl : (Matcher.replayCore n log).sets.toList = (List.range n).map (setOf log) := by
    apply List.ext_getElem?
    intro i
    rw [Array.getElem?_toList]
    by_cases hi : i < n
    · rw [h3 i hi]; simp [hi]
    · rw [Array.getElem?_eq_none (by omega)]; simp [hi]
  refine ⟨⟨((List.range n).map fun i => builtOf (setOf log i)).toArray⟩, ?_, by simp, ?_⟩
  · unfold Matcher.build
    rw [h1]
    simp only
    rw [hl, mapM_ok_of_forall buildSet builtOf]
    · simp [List.map_map]; rfl
    · intro sb hsb
      obtain ⟨i, _, rfl⟩ := List.mem_map.mp hsb
      exact buildSet_setOf log i
  · intro i hi
    simp [hi]

theorem build_err (n : Nat) (log : List AddCall) (a : AddCall)
    (h : log.find? (fun a => !callOk n a) = some a) :
    (Matcher.replayCore n log).build = .error (callErr n a) := by
  unfold Matcher.build
  rw [replay_bad n log a h]

/-! ### names of the property's alphabet -/

theorem plainDomByte_lt (c : Nat) (h : plainDomByte c = true) : c < 123 := by
  unfold plainDomByte at h
  simp only [Bool.or_eq_true, Bool.and_eq_true, decide_eq_true_eq, beq_iff_eq] at h
  omega

theorem plainDomByte_facts : ∀ c, c < 123 → plainDomByte c = true →
    (c ≠ cHat ∧ c ≠ cDollar) ∧ acValid c = true ∧ domainChars.isValid c = true := by decide

theorem plainByte_lower : ∀ c, c < 123 → plainByte c = true → plainDomByte (lowerByte c) = true := by
  decide

theorem plainByte_lt (c : Nat) (h : plainByte c = true) : c < 123 := by
  unfold plainByte plainDomByte at h
  simp only [Bool.or_eq_true, Bool.and_eq_true, decide_eq_true_eq, beq_iff_eq] at h
  omega

/-- a normalised name of the property's alphabet -/
def PlainDom (dom : Str) : Prop := ∀ c ∈ dom, plainDomByte c = true

theorem plainDom_normName (name : Str) (h : plainName name = true) : PlainDom (normName name) := by
  intro c hc
  unfold normName lower at hc
  obtain ⟨c0, hc0, rfl⟩ := List.mem_map.mp hc
  have hm : c0 ∈ name := by
    unfold trimSuffixByte at hc0
    split at hc0
    · exact List.dropLast_subset _ hc0
    · exact hc0
  have := List.all_eq_true.mp h c0 hm
  exact plainByte_lower c0 (plainByte_lt c0 this) this

theorem PlainDom.noMarkers {dom : Str} (h : PlainDom dom) : NoMarkers dom :=
  fun c hc => (plainDomByte_facts c (plainDomByte_lt c (h c hc)) (h c hc)).1

theorem PlainDom.map_acNorm {dom : Str} (h : PlainDom dom) :
    (cHat :: dom ++ [cDollar]).map acNorm = cHat :: dom ++ [cDollar] := by
  have : ∀ c ∈ (cHat :: dom ++ [cDollar]), acNorm c = c := by
    intro c hc
    simp only [List.cons_append, List.mem_cons, List.mem_append, List.not_mem_nil, or_false] at hc
    unfold acNorm
    rcases hc with rfl | hc | rfl
    · decide
    · rw [if_pos (plainDomByte_facts c (plainDomByte_lt c (h c hc)) (h c hc)).2.1]
    · decide
  conv => rhs; rw [← List.map_id (cHat :: dom ++ [cDollar])]
  exact List.map_congr_left this

/-! ### one `AddSet` call: what the code stores matches iff some valid pattern of the call matches -/

/-- the three ways a stored item of a call can fire on a query -/
def callFires (a : AddCall) (dom : Str) (rxHits : List Nat) : Prop :=
  (∃ k ∈ (contrib a).trie, (toSuffixTrieString k).isPrefixOf (trieQuery dom) = true) ∨
  (∃ p ∈ (contrib a).ac, p ≠ [] ∧ isInfix p (cHat :: dom ++ [cDollar]) = true) ∨
  (∃ id ∈ (contrib a).rx, id ∈ rxHits)

theorem callFires_iff (a : AddCall) (dom : Str) (rxHits : List Nat) (hd : NoMarkers dom) :
    callFires a dom rxHits ↔
      ∃ p ∈ a.pats, patValid a.kind p = true ∧ patMatches a.kind p dom rxHits = true := by
  unfold callFires contrib
  cases hk : a.kind
  case full =>
    simp only [List.not_mem_nil, false_and, exists_false, or_false, patValid, patMatches,
      List.mem_flatMap, beq_iff_eq]
    constructor
    · rintro ⟨k, ⟨p, hp, hkp⟩, hpre⟩
      unfold normFull at hkp
      split at hkp
      · rename_i hv
        simp only [List.mem_singleton] at hkp; subst hkp
        exact ⟨p, hp, hv, (full_key_iff p.s dom hd).mp hpre⟩
      · simp at hkp
    · rintro ⟨p, hp, hv, hm⟩
      refine ⟨cHat :: p.s ++ [cDollar], ⟨p, hp, by simp [normFull, hv]⟩, (full_key_iff p.s dom hd).mpr hm⟩
  case suffix =>
    simp only [List.not_mem_nil, false_and, exists_false, or_false, patValid, patMatches,
      List.mem_flatMap]
    constructor
    · rintro ⟨k, ⟨p, hp, hkp⟩, hpre⟩
      unfold normSuffix at hkp
      split at hkp
      · rename_i hv
        refine ⟨p, hp, hv, ?_⟩
        split at hkp
        · rename_i hdot
          simp only [List.mem_singleton] at hkp; subst hkp
          simp only [hdot, ↓reduceIte, isSuffixOf_iff_suffix]
          exact (bare_key_iff p.s dom hd hdot).mp hpre
        · rename_i hdot
          simp only [hdot, ↓reduceIte, Bool.or_eq_true, beq_iff_eq, isSuffixOf_iff_suffix]
          simp only [List.mem_cons, List.not_mem_nil, or_false] at hkp
          rcases hkp with rfl | rfl
          · exact Or.inr ((dot_key_iff p.s dom hd).mp hpre)
          · exact Or.inl ((full_key_iff p.s dom hd).mp hpre)
      · simp at hkp
    · rintro ⟨p, hp, hv, hm⟩
      by_cases hdot : p.s.head? = some cDot
      · simp only [hdot, ↓reduceIte, isSuffixOf_iff_suffix] at hm
        exact ⟨p.s ++ [cDollar], ⟨p, hp, by simp [normSuffix, hv, hdot]⟩, (bare_key_iff p.s dom hd hdot).mpr hm⟩
      · simp only [hdot, ↓reduceIte, Bool.or_eq_true, beq_iff_eq, isSuffixOf_iff_suffix] at hm
        rcases hm with hm | hm
        · exact ⟨cHat :: p.s ++ [cDollar], ⟨p, hp, by simp [normSuffix, hv, hdot]⟩, (full_key_iff p.s dom hd).mpr hm⟩
        · exact ⟨cDot :: p.s ++ [cDollar], ⟨p, hp, by simp [normSuffix, hv, hdot]⟩, (dot_key_iff p.s dom hd).mpr hm⟩
  case keyword =>
    simp only [List.not_mem_nil, false_and, exists_false, false_or, or_false, patValid, patMatches,
      List.mem_flatMap, Bool.and_eq_true, Bool.not_eq_true', List.isEmpty_eq_false_iff]
    constructor
    · rintro ⟨k, ⟨p, hp, hkp⟩, hne, hin⟩
      unfold normKeyword at hkp
      split at hkp
      · rename_i hv
        simp only [List.mem_singleton] at hkp; subst hkp
        refine ⟨p, hp, hv, hne, ?_⟩
        rw [isInfix_iff] at hin ⊢
        exact (infix_markers_iff p.s dom (kwValid_noMarkers _ hv) hne).mp hin
      · simp at hkp
    · rintro ⟨p, hp, hv, hne, hin⟩
      refine ⟨p.s, ⟨p, hp, by simp [normKeyword, hv]⟩, hne, ?_⟩
      rw [isInfix_iff] at hin ⊢
      exact (infix_markers_iff p.s dom (kwValid_noMarkers _ hv) hne).mpr hin
  case regex =>
    simp only [List.not_mem_nil, false_and, exists_false, false_or, patValid, patMatches,
      List.mem_map, true_and, List.contains_iff_mem]
    constructor
    · rintro ⟨id, ⟨p, hp, rfl⟩, hin⟩; exact ⟨p, hp, hin⟩
    · rintro ⟨p, hp, hin⟩; exact ⟨p.rxId, ⟨p, hp, rfl⟩, hin⟩
  case unknown =>
    simp [patValid]

end DaeVerif.C11
