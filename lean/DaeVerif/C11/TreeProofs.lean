import DaeVerif.C11.Model
/-!
# C11 — the trie as a tree: walking the nodes produced by `groups` decides `hasPrefixSpec`

A node is the list of key suffixes below it (`Node`).  For a strictly sorted node the children
computed by `groups` have distinct labels, are strictly sorted themselves, and partition the
non-empty suffixes by first byte.
-/
namespace DaeVerif.C11
open List

/-- strict bytewise lexicographic order, as a relation on the node's suffixes -/
def StrictSorted (n : Node) : Prop := n.Pairwise fun a b => lexLe a b = true ∧ a ≠ b

theorem lexLe_cons_cons (a b : Nat) (as bs : Str) :
    lexLe (a :: as) (b :: bs) = if a < b then true else if b < a then false else lexLe as bs := by
  simp [lexLe]

theorem lexLe_refl : ∀ a : Str, lexLe a a = true
  | [] => rfl
  | a :: as => by simp [lexLe, lexLe_refl as]

theorem lexLe_total : ∀ a b : Str, (lexLe a b || lexLe b a) = true
  | [], _ => by simp [lexLe]
  | _ :: _, [] => by simp [lexLe]
  | a :: as, b :: bs => by
    have := lexLe_total as bs
    simp only [lexLe_cons_cons]
    by_cases h1 : a < b
    · simp [h1]
    · by_cases h2 : b < a
      · simp [h1, h2]
      · simpa [h1, h2] using this

theorem lexLe_trans : ∀ a b c : Str, lexLe a b = true → lexLe b c = true → lexLe a c = true
  | [], _, _, _, _ => by simp [lexLe]
  | _ :: _, [], _, h, _ => by simp [lexLe] at h
  | _ :: _, _ :: _, [], _, h => by simp [lexLe] at h
  | a :: as, b :: bs, c :: cs, h1, h2 => by
    simp only [lexLe_cons_cons] at h1 h2 ⊢
    by_cases ab : a < b
    · by_cases bc : b < c
      · have : a < c := by omega
        simp [this]
      · by_cases cb : c < b
        · simp [bc, cb] at h2
        · have : a < c := by omega
          simp [this]
    · by_cases ba : b < a
      · simp [ab, ba] at h1
      · have e : a = b := by omega
        subst e
        simp only [ab, ↓reduceIte] at h1
        by_cases bc : a < c
        · simp [bc]
        · by_cases cb : c < a
          · simp [bc, cb] at h2
          · simp only [bc, cb, ↓reduceIte] at h2 ⊢
            exact lexLe_trans as bs cs h1 h2

theorem lexLe_antisymm : ∀ a b : Str, lexLe a b = true → lexLe b a = true → a = b
  | [], [], _, _ => rfl
  | [], _ :: _, _, h => by simp [lexLe] at h
  | _ :: _, [], h, _ => by simp [lexLe] at h
  | a :: as, b :: bs, h1, h2 => by
    simp only [lexLe_cons_cons] at h1 h2
    by_cases ab : a < b
    · have : ¬ b < a := by omega
      simp [ab, this] at h2
    · by_cases ba : b < a
      · simp [ab, ba] at h1
      · have e : a = b := by omega
        subst e
        simp only [ab, ↓reduceIte] at h1 h2
        rw [lexLe_antisymm as bs h1 h2]

/-! ### `sortDedup` produces a strictly sorted list with the same members -/

theorem mem_of_mem_dedupAdj (x : Str) : ∀ l : List Str, x ∈ dedupAdj l → x ∈ l
  | [] => by simp [dedupAdj]
  | [a] => by simp [dedupAdj]
  | a :: b :: rest => by
    have ih := mem_of_mem_dedupAdj x (b :: rest)
    unfold dedupAdj
    by_cases e : a = b
    · simp only [e, ↓reduceIte]; intro h; exact List.mem_cons_of_mem _ (ih h)
    · simp only [e, ↓reduceIte]
      intro h
      rcases List.mem_cons.mp h with rfl | h
      · simp
      · exact List.mem_cons_of_mem _ (ih h)

theorem dedupAdj_strict : ∀ l : List Str, l.Pairwise (fun a b => lexLe a b = true) →
    StrictSorted (dedupAdj l)
  | [], _ => by simp [dedupAdj, StrictSorted]
  | [a], _ => by simp [dedupAdj, StrictSorted]
  | a :: b :: rest, h => by
    have hrest : (b :: rest).Pairwise (fun a b => lexLe a b = true) := (pairwise_cons.mp h).2
    have ih := dedupAdj_strict (b :: rest) hrest
    unfold dedupAdj
    by_cases e : a = b
    · simp only [e, ↓reduceIte]; exact ih
    · simp only [e, ↓reduceIte]
      unfold StrictSorted
      rw [pairwise_cons]
      refine ⟨?_, ih⟩
      intro x hx
      have hx' : x ∈ b :: rest := mem_of_mem_dedupAdj x _ hx
      have hax : lexLe a x = true := (pairwise_cons.mp h).1 x hx'
      refine ⟨hax, ?_⟩
      rintro rfl
      -- a = x ∈ b :: rest, a ≤ b ≤ a
      have hab : lexLe a b = true := (pairwise_cons.mp h).1 b (by simp)
      rcases List.mem_cons.mp hx' with hb | hr
      · exact e hb
      · have hba : lexLe b a = true := (pairwise_cons.mp hrest).1 a hr
        exact e (lexLe_antisymm a b hab hba)

theorem sortDedup_strict (keys : List Str) : StrictSorted (sortDedup keys) :=
  dedupAdj_strict _ (pairwise_mergeSort lexLe_trans lexLe_total keys)

/-! ### `groups` -/

theorem StrictSorted.tail {a : Str} {l : Node} (h : StrictSorted (a :: l)) : StrictSorted l :=
  (pairwise_cons.mp h).2

theorem StrictSorted.nil_not_mem_tail {a : Str} {l : Node} (h : StrictSorted (a :: l)) : [] ∉ l := by
  intro hm
  have := (pairwise_cons.mp h).1 [] hm
  cases a with
  | nil => exact this.2 rfl
  | cons c t => simp [lexLe] at this

structure GroupsSpec (l : Node) : Prop where
  mem : ∀ c t, (c :: t) ∈ l ↔ ∃ g, (c, g) ∈ groups l ∧ t ∈ g
  sorted : (groups l).Pairwise fun x y => x.1 < y.1
  child : ∀ x ∈ groups l, StrictSorted x.2
  head : ∀ x, (groups l).head? = some x → ∃ t rest, l = (x.1 :: t) :: rest

theorem groups_spec : ∀ l : Node, StrictSorted l → [] ∉ l → GroupsSpec l
  | [], _, _ => ⟨by simp [groups], by simp [groups], by simp [groups], by simp [groups]⟩
  | [] :: rest, _, hn => absurd (by simp) hn
  | (c :: t) :: rest, hs, hn => by
    have hsr : StrictSorted rest := hs.tail
    have hnr : [] ∉ rest := fun h => hn (List.mem_cons_of_mem _ h)
    have ih := groups_spec rest hsr hnr
    have hlt : ∀ k ∈ rest, lexLe (c :: t) k = true ∧ (c :: t) ≠ k := (pairwise_cons.mp hs).1
    cases hg : groups rest with
    | nil =>
      have hrest : rest = [] := by
        cases rest with
        | nil => rfl
        | cons k rest' =>
          cases k with
          | nil => exact absurd (by simp) hnr
          | cons c' t' =>
            have := (ih.mem c' t').mp (by simp)
            rw [hg] at this; simp at this
      subst hrest
      refine ⟨?_, ?_, ?_, ?_⟩
      · intro c0 t0; simp only [groups, List.mem_singleton, List.cons.injEq, Prod.mk.injEq]
        constructor
        · rintro ⟨rfl, rfl⟩; exact ⟨[t0], ⟨rfl, rfl⟩, by simp⟩
        · rintro ⟨g, ⟨rfl, rfl⟩, h⟩; simp at h; exact ⟨rfl, h⟩
      · simp [groups]
      · intro x hx; simp [groups] at hx; subst hx; simp [StrictSorted]
      · intro x hx; simp [groups] at hx; subst hx; exact ⟨t, [], rfl⟩
    | cons x gs =>
      obtain ⟨c', g⟩ := x
      obtain ⟨t', rest', hrest⟩ := ih.head (c', g) (by rw [hg]; rfl)
      simp only at hrest
      have hcc : c ≤ c' := by
        have := (hlt (c' :: t') (by rw [hrest]; simp)).1
        rw [lexLe_cons_cons] at this
        by_cases h1 : c < c'
        · omega
        · by_cases h2 : c' < c
          · simp [h1, h2] at this
          · omega
      have hsorted := ih.sorted
      rw [hg] at hsorted
      have hgs_gt : ∀ y ∈ gs, c' < y.1 := (pairwise_cons.mp hsorted).1
      by_cases e : c' = c
      · subst e
        have hgr : groups ((c' :: t) :: rest) = (c', t :: g) :: gs := by
          simp [groups, hg]
        refine ⟨?_, ?_, ?_, ?_⟩
        · intro c0 t0
          rw [hgr]
          simp only [List.mem_cons]
          constructor
          · rintro (h | h)
            · injection h with h1 h2; subst h1 h2
              exact ⟨t0 :: g, Or.inl rfl, by simp⟩
            · obtain ⟨g0, hg0, ht0⟩ := (ih.mem c0 t0).mp h
              rw [hg] at hg0
              rcases List.mem_cons.mp hg0 with h1 | h1
              · injection h1 with h1 h2; subst h1 h2
                exact ⟨t :: g0, Or.inl rfl, by simp [ht0]⟩
              · exact ⟨g0, Or.inr h1, ht0⟩
          · rintro ⟨g0, hg0 | hg0, ht0⟩
            · injection hg0 with h1 h2; subst h1 h2
              rcases List.mem_cons.mp ht0 with h | h
              · subst h; exact Or.inl rfl
              · exact Or.inr ((ih.mem c0 t0).mpr ⟨g, by rw [hg]; simp, h⟩)
            · exact Or.inr ((ih.mem c0 t0).mpr ⟨g0, by rw [hg]; simp [hg0], ht0⟩)
        · rw [hgr]
          rw [pairwise_cons]
          exact ⟨fun y hy => hgs_gt y hy, (pairwise_cons.mp hsorted).2⟩
        · intro x hx
          rw [hgr] at hx
          rcases List.mem_cons.mp hx with rfl | hx
          · simp only
            unfold StrictSorted
            rw [pairwise_cons]
            refine ⟨?_, ih.child (c', g) (by rw [hg]; simp)⟩
            intro t0 ht0
            have hm : (c' :: t0) ∈ rest := (ih.mem c' t0).mpr ⟨g, by rw [hg]; simp, ht0⟩
            have := hlt _ hm
            rw [lexLe_cons_cons] at this
            simp only [Nat.lt_irrefl, ↓reduceIte] at this
            refine ⟨this.1, ?_⟩
            rintro rfl; exact this.2 rfl
          · exact ih.child x (by rw [hg]; simp [hx])
        · intro x hx
          rw [hgr] at hx; simp at hx; subst hx
          exact ⟨t, rest, rfl⟩
      · have hlt' : c < c' := by omega
        have hgr : groups ((c :: t) :: rest) = (c, [t]) :: (c', g) :: gs := by
          simp [groups, hg, e]
        refine ⟨?_, ?_, ?_, ?_⟩
        · intro c0 t0
          rw [hgr]
          simp only [List.mem_cons]
          constructor
          · rintro (h | h)
            · injection h with h1 h2; subst h1 h2
              exact ⟨[t0], Or.inl rfl, by simp⟩
            · obtain ⟨g0, hg0, ht0⟩ := (ih.mem c0 t0).mp h
              rw [hg] at hg0
              exact ⟨g0, Or.inr (List.mem_cons.mp hg0), ht0⟩
          · rintro ⟨g0, hg0 | hg0, ht0⟩
            · injection hg0 with h1 h2; subst h1 h2
              simp at ht0; subst ht0; exact Or.inl rfl
            · exact Or.inr ((ih.mem c0 t0).mpr ⟨g0, by rw [hg]; exact List.mem_cons.mpr hg0, ht0⟩)
        · rw [hgr, pairwise_cons]
          refine ⟨?_, hsorted⟩
          intro y hy
          rcases List.mem_cons.mp hy with rfl | hy
          · exact hlt'
          · have := hgs_gt y hy; simp only at this ⊢; omega
        · intro x hx
          rw [hgr] at hx
          rcases List.mem_cons.mp hx with rfl | hx
          · simp [StrictSorted]
          · exact ih.child x (by rw [hg]; exact hx)
        · intro x hx
          rw [hgr] at hx; simp at hx; subst hx
          exact ⟨t, rest, rfl⟩

/-! ### walking the tree decides `hasPrefixSpec` -/

/-- follow the word through the tree of nodes: stop with `true` at the first leaf, `false` when the
next byte labels no child. -/
def walkNode : Node → Str → Bool
  | n, [] => n.isLeaf
  | n, c :: w =>
    n.isLeaf || match n.children.find? (·.1 == c) with
      | some x => walkNode x.2 w
      | none => false

theorem isLeaf_iff_nil_mem (n : Node) (hs : StrictSorted n) : n.isLeaf = true ↔ [] ∈ n := by
  cases n with
  | nil => simp [Node.isLeaf]
  | cons a l =>
    cases a with
    | nil => simp [Node.isLeaf]
    | cons c t =>
      simp only [Node.isLeaf, Bool.false_eq_true, List.mem_cons, false_iff]
      rintro (h | h)
      · exact absurd h (by simp)
      · exact hs.nil_not_mem_tail h

theorem dropLeaf_spec (n : Node) (hs : StrictSorted n) :
    StrictSorted n.dropLeaf ∧ [] ∉ n.dropLeaf ∧ ∀ c t, (c :: t) ∈ n.dropLeaf ↔ (c :: t) ∈ n := by
  cases n with
  | nil => simp [Node.dropLeaf, StrictSorted]
  | cons a l =>
    cases a with
    | nil =>
      refine ⟨hs.tail, hs.nil_not_mem_tail, ?_⟩
      intro c t; simp [Node.dropLeaf]
    | cons c0 t0 =>
      refine ⟨hs, ?_, fun _ _ => Iff.rfl⟩
      simp only [Node.dropLeaf, List.mem_cons]
      rintro (h | h)
      · exact absurd h (by simp)
      · exact hs.nil_not_mem_tail h

theorem children_spec (n : Node) (hs : StrictSorted n) :
    (∀ c t, (c :: t) ∈ n ↔ ∃ g, (c, g) ∈ n.children ∧ t ∈ g) ∧
    (n.children.Pairwise fun x y => x.1 < y.1) ∧ (∀ x ∈ n.children, StrictSorted x.2) := by
  obtain ⟨h1, h2, h3⟩ := dropLeaf_spec n hs
  have g := groups_spec n.dropLeaf h1 h2
  refine ⟨?_, g.sorted, g.child⟩
  intro c t
  rw [← h3 c t]
  exact g.mem c t

/-- in a list with strictly increasing labels, `find?` by label returns the only entry with it -/
theorem find_label {l : List (Nat × Node)} (hp : l.Pairwise fun x y => x.1 < y.1) (c : Nat) (g : Node)
    (hm : (c, g) ∈ l) : l.find? (·.1 == c) = some (c, g) := by
  induction l with
  | nil => simp at hm
  | cons x l ih =>
    rcases List.mem_cons.mp hm with rfl | hm'
    · simp
    · have hlt := (pairwise_cons.mp hp).1 (c, g) hm'
      have : (x.1 == c) = false := by simp only [beq_eq_false_iff_ne]; simp only at hlt; omega
      rw [List.find?_cons_of_neg (by simp [this])]
      exact ih (pairwise_cons.mp hp).2 hm'

theorem walkNode_eq_spec : ∀ (w : Str) (n : Node), StrictSorted n → walkNode n w = hasPrefixSpec n w
  | [], n, hs => by
    rw [Bool.eq_iff_iff, walkNode, isLeaf_iff_nil_mem n hs]
    simp only [hasPrefixSpec, List.any_eq_true]
    constructor
    · intro h; exact ⟨[], h, by simp⟩
    · rintro ⟨k, hk, hp⟩
      cases k with
      | nil => exact hk
      | cons _ _ => simp [List.isPrefixOf] at hp
  | c :: w, n, hs => by
    obtain ⟨hmem, hsorted, hchild⟩ := children_spec n hs
    rw [Bool.eq_iff_iff, walkNode]
    simp only [Bool.or_eq_true, isLeaf_iff_nil_mem n hs, hasPrefixSpec, List.any_eq_true]
    constructor
    · rintro (h | h)
      · exact ⟨[], h, by simp⟩
      · cases hf : n.children.find? (·.1 == c) with
        | none => rw [hf] at h; simp at h
        | some x =>
          rw [hf] at h
          simp only at h
          have hx : x ∈ n.children := List.mem_of_find?_eq_some hf
          have hxc : x.1 = c := by simpa using List.find?_some hf
          rw [walkNode_eq_spec w x.2 (hchild x hx)] at h
          simp only [hasPrefixSpec, List.any_eq_true] at h
          obtain ⟨t, ht, hp⟩ := h
          refine ⟨c :: t, (hmem c t).mpr ⟨x.2, by rw [← hxc]; exact hx, ht⟩, ?_⟩
          simp [hp]
    · rintro ⟨k, hk, hp⟩
      cases k with
      | nil => exact Or.inl hk
      | cons c' t =>
        right
        simp only [List.isPrefixOf_cons_cons, Bool.and_eq_true, beq_iff_eq] at hp
        obtain ⟨rfl, hp⟩ := hp
        obtain ⟨g, hg, ht⟩ := (hmem c' t).mp hk
        rw [find_label hsorted c' g hg]
        simp only
        rw [walkNode_eq_spec w g (hchild _ hg)]
        simp only [hasPrefixSpec, List.any_eq_true]
        exact ⟨t, ht, hp⟩

end DaeVerif.C11
