import DaeVerif.C11.LoopProofs
/-! C11 — `Build`'s worker goroutines commit in any order: the tables are the same, the index lists are
valid (`Idx.Valid`), the error verdict is the same — an invariant over all interleavings of the
transition system `Reach` of `Loop.lean`. -/
namespace DaeVerif.C11
open List

def Job.fails (m : Matcher) : Job → Bool
  | .trie i => (m.trieOf i).isNone
  | .ac i => !m.acOk i

/-- the job has run its critical section -/
def BState.done (m : Matcher) (s : BState) (j : Job) : Prop := j ∈ m.jobs ∧ j ∉ s.pending

structure Inv (m : Matcher) (s : BState) : Prop where
  sub : ∀ j ∈ s.pending, j ∈ m.jobs
  nodup : s.pending.Nodup
  tsize : s.tries.size = m.sets.size
  asize : s.acs.size = m.sets.size
  tries : ∀ i, i < m.sets.size → ∀ t, s.tries[i]? = some t →
    t = none ∨ (s.done m (.trie i) ∧ t = m.trieOf i)
  triesDone : ∀ i, s.done m (.trie i) → s.tries[i]? = some (m.trieOf i)
  acs : ∀ i, i < m.sets.size → ∀ d, s.acs[i]? = some d →
    d = [] ∨ (s.done m (.ac i) ∧ m.acOk i = true ∧ d = (m.setAt i).ac)
  acsDone : ∀ i, s.done m (.ac i) → m.acOk i = true → s.acs[i]? = some (m.setAt i).ac
  vT : ∀ i, i ∈ s.vTrie ↔ s.done m (.trie i) ∧ (m.trieOf i).isSome = true
  vA : ∀ i, i ∈ s.vAc ↔ s.done m (.ac i) ∧ m.acOk i = true
  err : s.err.isSome = true ↔ ∃ j, s.done m j ∧ j.fails m = true
  errVal : ∀ e, s.err = some e → e = .charOutOfRange

theorem mem_jobs_trie (m : Matcher) (i : Nat) :
    Job.trie i ∈ m.jobs ↔ i < m.sets.size ∧ (m.setAt i).trie.isEmpty = false := by
  simp [Matcher.jobs]

theorem mem_jobs_ac (m : Matcher) (i : Nat) :
    Job.ac i ∈ m.jobs ↔ i < m.sets.size ∧ (m.setAt i).ac.isEmpty = false := by
  simp [Matcher.jobs]

theorem jobs_nodup (m : Matcher) : m.jobs.Nodup := by
  unfold Matcher.jobs
  rw [List.nodup_append]
  refine ⟨?_, ?_, ?_⟩
  · exact List.Pairwise.map Job.ac (fun a b h => by intro e; injection e with e; exact h e)
      (List.Pairwise.filter _ List.nodup_range)
  · exact List.Pairwise.map Job.trie (fun a b h => by intro e; injection e with e; exact h e)
      (List.Pairwise.filter _ List.nodup_range)
  · intro a ha b hb hab
    obtain ⟨i, _, rfl⟩ := List.mem_map.mp ha
    obtain ⟨k, _, rfl⟩ := List.mem_map.mp hb
    cases hab

theorem inv_init (m : Matcher) : Inv m (BState.init m) := by
  refine ⟨fun j h => h, jobs_nodup m, by simp [BState.init], by simp [BState.init], ?_, ?_, ?_, ?_, ?_, ?_, ?_, ?_⟩
  · intro i hi t ht
    left
    simp only [BState.init, Array.getElem?_replicate, hi, ↓reduceIte, Option.some.injEq] at ht
    exact ht.symm
  · intro i hd; exact absurd hd.1 hd.2
  · intro i hi d hd
    left
    simp only [BState.init, Array.getElem?_replicate, hi, ↓reduceIte, Option.some.injEq] at hd
    exact hd.symm
  · intro i hd; exact absurd hd.1 hd.2
  · intro i
    simp only [BState.init, List.not_mem_nil, false_iff, not_and]
    intro hd; exact absurd hd.1 hd.2
  · intro i
    simp only [BState.init, List.not_mem_nil, false_iff, not_and]
    intro hd; exact absurd hd.1 hd.2
  · simp only [BState.init, Option.isSome_none, Bool.false_eq_true, false_iff, not_exists, not_and]
    intro j hd; exact absurd hd.1 hd.2
  · intro e he; simp [BState.init] at he

theorem done_after (m : Matcher) (s s' : BState) (j : Job) (hinv : Inv m s) (hj : j ∈ s.pending)
    (hp : s'.pending = s.pending.erase j) (k : Job) : s'.done m k ↔ (s.done m k ∨ k = j) := by
  unfold BState.done
  rw [hp, hinv.nodup.mem_erase_iff]
  constructor
  · rintro ⟨h1, h2⟩
    by_cases hk : k = j
    · exact Or.inr hk
    · exact Or.inl ⟨h1, fun h => h2 ⟨hk, h⟩⟩
  · rintro (⟨h1, h2⟩ | rfl)
    · exact ⟨h1, fun h => h2 h.2⟩
    · exact ⟨hinv.sub _ hj, fun h => h.1 rfl⟩

theorem inv_pending_erase (m : Matcher) (s : BState) (j : Job) (hinv : Inv m s) :
    (∀ k ∈ s.pending.erase j, k ∈ m.jobs) ∧ (s.pending.erase j).Nodup :=
  ⟨fun k hk => hinv.sub k (List.mem_of_mem_erase hk), hinv.nodup.erase j⟩

theorem firstErr_isSome (e : Option MErr) : (firstErr e).isSome = true := by
  unfold firstErr; split <;> simp [*]

theorem firstErr_val (e : Option MErr) (h : ∀ x, e = some x → x = .charOutOfRange) :
    ∀ x, firstErr e = some x → x = .charOutOfRange := by
  intro x hx
  unfold firstErr at hx
  split at hx
  · exact h x hx
  · injection hx with hx; exact hx.symm

/-- one worker's critical section preserves the invariant -/
theorem inv_commit (m : Matcher) (s : BState) (j : Job) (hinv : Inv m s) (hj : j ∈ s.pending) :
    Inv m (s.commit m j) := by
  obtain ⟨psub, pnd⟩ := inv_pending_erase m s j hinv
  cases j with
  | trie i =>
    have hjobs := hinv.sub _ hj
    have hi : i < m.sets.size := ((mem_jobs_trie m i).mp hjobs).1
    cases ht : m.trieOf i with
    | some t =>
      have hc : s.commit m (.trie i) = { s with pending := s.pending.erase (.trie i), tries := s.tries.setIfInBounds i (some t), vTrie := s.vTrie ++ [i] } := by
        simp [BState.commit, ht]
      rw [hc]
      have hd := done_after m s _ (.trie i) hinv hj (rfl : ({ s with pending := s.pending.erase (.trie i), tries := s.tries.setIfInBounds i (some t), vTrie := s.vTrie ++ [i] } : BState).pending = _)
      refine ⟨psub, pnd, by simp [hinv.tsize], hinv.asize, ?_, ?_, ?_, ?_, ?_, ?_, ?_, hinv.errVal⟩
      · intro i' hi' t' ht'
        by_cases e : i' = i
        · subst e
          simp only [Array.getElem?_setIfInBounds_self_of_lt (by rw [hinv.tsize]; exact hi'), Option.some.injEq] at ht'
          exact Or.inr ⟨(hd _).mpr (Or.inr rfl), by rw [← ht', ht]⟩
        · simp only [Array.getElem?_setIfInBounds_ne (Ne.symm e)] at ht'
          rcases hinv.tries i' hi' t' ht' with h | ⟨h1, h2⟩
          · exact Or.inl h
          · exact Or.inr ⟨(hd _).mpr (Or.inl h1), h2⟩
      · intro i' hd'
        rcases (hd _).mp hd' with h | h
        · by_cases e : i' = i
          · subst e; exact absurd hj h.2
          · simp only [Array.getElem?_setIfInBounds_ne (Ne.symm e)]; exact hinv.triesDone i' h
        · injection h with h; subst h
          simp only [Array.getElem?_setIfInBounds_self_of_lt (by rw [hinv.tsize]; exact hi), ht]
      · intro i' hi' d hd'
        rcases hinv.acs i' hi' d hd' with h | ⟨h1, h2⟩
        · exact Or.inl h
        · exact Or.inr ⟨(hd _).mpr (Or.inl h1), h2⟩
      · intro i' hd' hok
        rcases (hd _).mp hd' with h | h
        · exact hinv.acsDone i' h hok
        · cases h
      · intro i'
        simp only [List.mem_append, List.mem_singleton, hinv.vT i', hd]
        constructor
        · rintro (⟨h1, h2⟩ | rfl)
          · exact ⟨Or.inl h1, h2⟩
          · exact ⟨Or.inr rfl, by simp [ht]⟩
        · rintro ⟨h1 | h1, h2⟩
          · exact Or.inl ⟨h1, h2⟩
          · injection h1 with h1; exact Or.inr h1
      · intro i'
        simp only [hinv.vA i', hd]
        constructor
        · rintro ⟨h1, h2⟩; exact ⟨Or.inl h1, h2⟩
        · rintro ⟨h1 | h1, h2⟩
          · exact ⟨h1, h2⟩
          · cases h1
      · simp only [hinv.err, hd]
        constructor
        · rintro ⟨k, h1, h2⟩; exact ⟨k, Or.inl h1, h2⟩
        · rintro ⟨k, h1 | rfl, h2⟩
          · exact ⟨k, h1, h2⟩
          · simp [Job.fails, ht] at h2
    | none =>
      have hc : s.commit m (.trie i) = { s with pending := s.pending.erase (.trie i), err := firstErr s.err } := by
        simp [BState.commit, ht]
      rw [hc]
      have hd := done_after m s _ (.trie i) hinv hj (rfl : ({ s with pending := s.pending.erase (.trie i), err := firstErr s.err } : BState).pending = _)
      refine ⟨psub, pnd, hinv.tsize, hinv.asize, ?_, ?_, ?_, ?_, ?_, ?_, ?_, firstErr_val _ hinv.errVal⟩
      · intro i' hi' t' ht'
        rcases hinv.tries i' hi' t' ht' with h | ⟨h1, h2⟩
        · exact Or.inl h
        · exact Or.inr ⟨(hd _).mpr (Or.inl h1), h2⟩
      · intro i' hd'
        rcases (hd _).mp hd' with h | h
        · exact hinv.triesDone i' h
        · injection h with h; subst h
          -- the slot of the failed job still holds its initial nil = `trieOf` (none)
          obtain ⟨t0, ht0⟩ : ∃ t0, s.tries[i']? = some t0 :=
            ⟨_, Array.getElem?_eq_getElem (by rw [hinv.tsize]; exact hi)⟩
          rcases hinv.tries i' hi t0 ht0 with h | ⟨h1, _⟩
          · rw [ht0, h, ht]
          · exact absurd hj h1.2
      · intro i' hi' d hd'
        rcases hinv.acs i' hi' d hd' with h | ⟨h1, h2⟩
        · exact Or.inl h
        · exact Or.inr ⟨(hd _).mpr (Or.inl h1), h2⟩
      · intro i' hd' hok
        rcases (hd _).mp hd' with h | h
        · exact hinv.acsDone i' h hok
        · cases h
      · intro i'
        simp only [hinv.vT i', hd]
        constructor
        · rintro ⟨h1, h2⟩; exact ⟨Or.inl h1, h2⟩
        · rintro ⟨h1 | h1, h2⟩
          · exact ⟨h1, h2⟩
          · injection h1 with h1; subst h1; simp [ht] at h2
      · intro i'
        simp only [hinv.vA i', hd]
        constructor
        · rintro ⟨h1, h2⟩; exact ⟨Or.inl h1, h2⟩
        · rintro ⟨h1 | h1, h2⟩
          · exact ⟨h1, h2⟩
          · cases h1
      · simp only [firstErr_isSome, true_iff]
        exact ⟨.trie i, (hd _).mpr (Or.inr rfl), by simp [Job.fails, ht]⟩
  | ac i =>
    have hjobs := hinv.sub _ hj
    have hi : i < m.sets.size := ((mem_jobs_ac m i).mp hjobs).1
    cases hok : m.acOk i with
    | true =>
      have hc : s.commit m (.ac i) = { s with pending := s.pending.erase (.ac i), acs := s.acs.setIfInBounds i (m.setAt i).ac, vAc := s.vAc ++ [i] } := by
        simp [BState.commit, hok]
      rw [hc]
      have hd := done_after m s _ (.ac i) hinv hj (rfl : ({ s with pending := s.pending.erase (.ac i), acs := s.acs.setIfInBounds i (m.setAt i).ac, vAc := s.vAc ++ [i] } : BState).pending = _)
      refine ⟨psub, pnd, hinv.tsize, by simp [hinv.asize], ?_, ?_, ?_, ?_, ?_, ?_, ?_, hinv.errVal⟩
      · intro i' hi' t' ht'
        rcases hinv.tries i' hi' t' ht' with h | ⟨h1, h2⟩
        · exact Or.inl h
        · exact Or.inr ⟨(hd _).mpr (Or.inl h1), h2⟩
      · intro i' hd'
        rcases (hd _).mp hd' with h | h
        · exact hinv.triesDone i' h
        · cases h
      · intro i' hi' d hd'
        by_cases e : i' = i
        · subst e
          simp only [Array.getElem?_setIfInBounds_self_of_lt (by rw [hinv.asize]; exact hi'), Option.some.injEq] at hd'
          exact Or.inr ⟨(hd _).mpr (Or.inr rfl), hok, hd'.symm⟩
        · simp only [Array.getElem?_setIfInBounds_ne (Ne.symm e)] at hd'
          rcases hinv.acs i' hi' d hd' with h | ⟨h1, h2⟩
          · exact Or.inl h
          · exact Or.inr ⟨(hd _).mpr (Or.inl h1), h2⟩
      · intro i' hd' hok'
        rcases (hd _).mp hd' with h | h
        · by_cases e : i' = i
          · subst e; exact absurd hj h.2
          · simp only [Array.getElem?_setIfInBounds_ne (Ne.symm e)]; exact hinv.acsDone i' h hok'
        · injection h with h; subst h
          simp only [Array.getElem?_setIfInBounds_self_of_lt (by rw [hinv.asize]; exact hi)]
      · intro i'
        simp only [hinv.vT i', hd]
        constructor
        · rintro ⟨h1, h2⟩; exact ⟨Or.inl h1, h2⟩
        · rintro ⟨h1 | h1, h2⟩
          · exact ⟨h1, h2⟩
          · cases h1
      · intro i'
        simp only [List.mem_append, List.mem_singleton, hinv.vA i', hd]
        constructor
        · rintro (⟨h1, h2⟩ | rfl)
          · exact ⟨Or.inl h1, h2⟩
          · exact ⟨Or.inr rfl, hok⟩
        · rintro ⟨h1 | h1, h2⟩
          · exact Or.inl ⟨h1, h2⟩
          · injection h1 with h1; exact Or.inr h1
      · simp only [hinv.err, hd]
        constructor
        · rintro ⟨k, h1, h2⟩; exact ⟨k, Or.inl h1, h2⟩
        · rintro ⟨k, h1 | rfl, h2⟩
          · exact ⟨k, h1, h2⟩
          · simp [Job.fails, hok] at h2
    | false =>
      have hc : s.commit m (.ac i) = { s with pending := s.pending.erase (.ac i), err := firstErr s.err } := by
        simp [BState.commit, hok]
      rw [hc]
      have hd := done_after m s _ (.ac i) hinv hj (rfl : ({ s with pending := s.pending.erase (.ac i), err := firstErr s.err } : BState).pending = _)
      refine ⟨psub, pnd, hinv.tsize, hinv.asize, ?_, ?_, ?_, ?_, ?_, ?_, ?_, firstErr_val _ hinv.errVal⟩
      · intro i' hi' t' ht'
        rcases hinv.tries i' hi' t' ht' with h | ⟨h1, h2⟩
        · exact Or.inl h
        · exact Or.inr ⟨(hd _).mpr (Or.inl h1), h2⟩
      · intro i' hd'
        rcases (hd _).mp hd' with h | h
        · exact hinv.triesDone i' h
        · cases h
      · intro i' hi' d hd'
        rcases hinv.acs i' hi' d hd' with h | ⟨h1, h2⟩
        · exact Or.inl h
        · exact Or.inr ⟨(hd _).mpr (Or.inl h1), h2⟩
      · intro i' hd' hok'
        rcases (hd _).mp hd' with h | h
        · exact hinv.acsDone i' h hok'
        · injection h with h; subst h; rw [hok] at hok'; cases hok'
      · intro i'
        simp only [hinv.vT i', hd]
        constructor
        · rintro ⟨h1, h2⟩; exact ⟨Or.inl h1, h2⟩
        · rintro ⟨h1 | h1, h2⟩
          · exact ⟨h1, h2⟩
          · cases h1
      · intro i'
        simp only [hinv.vA i', hd]
        constructor
        · rintro ⟨h1, h2⟩; exact ⟨Or.inl h1, h2⟩
        · rintro ⟨h1 | h1, h2⟩
          · exact ⟨h1, h2⟩
          · injection h1 with h1; subst h1; rw [hok] at h2; cases h2
      · simp only [firstErr_isSome, true_iff]
        exact ⟨.ac i, (hd _).mpr (Or.inr rfl), by simp [Job.fails, hok]⟩

/-- the invariant holds in every state reachable under any interleaving of the workers -/
theorem inv_reach (m : Matcher) (s : BState) (h : Reach m s) : Inv m s := by
  induction h with
  | init => exact inv_init m
  | step _ hj ih => exact inv_commit m _ _ ih hj

/-! ### the final state against the sequential `Matcher.build` -/

def Matcher.setOk (m : Matcher) (i : Nat) : Bool :=
  m.acOk i && ((m.setAt i).trie.isEmpty || (m.trieOf i).isSome)

def Matcher.builtAt (m : Matcher) (i : Nat) : BuiltSet :=
  ⟨(m.setAt i).trie.map toSuffixTrieString, if (m.setAt i).trie.isEmpty then none else m.trieOf i,
    (m.setAt i).ac, (m.setAt i).rx⟩

theorem buildSet_setAt (m : Matcher) (i : Nat) :
    buildSet (m.setAt i) = if m.setOk i then .ok (m.builtAt i) else .error .charOutOfRange := by
  unfold buildSet Matcher.setOk Matcher.builtAt Matcher.acOk Matcher.trieOf
  cases hac : ((m.setAt i).ac.all fun p => p.all acValid)
  · simp
  · cases hte : (m.setAt i).trie.isEmpty
    · have : ((m.setAt i).trie.map toSuffixTrieString).isEmpty = false := by
        simpa [List.isEmpty_iff] using hte
      simp only [Bool.not_true, Bool.false_eq_true, ↓reduceIte, this, Bool.true_and, Bool.false_or]
      cases Trie.build domainChars ((m.setAt i).trie.map toSuffixTrieString) <;> simp
    · have : ((m.setAt i).trie.map toSuffixTrieString).isEmpty = true := by
        simpa [List.isEmpty_iff] using hte
      simp [this]

theorem mapM_except_err {α β : Type} (f : α → Except MErr β) (e0 : MErr) :
    ∀ l : List α, (∀ x ∈ l, ∀ e, f x = .error e → e = e0) → (∃ x ∈ l, ∃ e, f x = .error e) →
      l.mapM f = .error e0
  | [], _, h => by obtain ⟨x, hx, _⟩ := h; simp at hx
  | x :: l, hall, hex => by
    rw [List.mapM_cons]
    cases hx : f x with
    | error e =>
      have := hall x (by simp) e hx
      subst this; rfl
    | ok y =>
      have hex' : ∃ x' ∈ l, ∃ e, f x' = .error e := by
        obtain ⟨x', hx', e, he⟩ := hex
        rcases List.mem_cons.mp hx' with rfl | h
        · rw [hx] at he; cases he
        · exact ⟨x', h, e, he⟩
      rw [mapM_except_err f e0 l (fun x' hx' => hall x' (by simp [hx'])) hex']
      rfl

theorem sets_toList (m : Matcher) : m.sets.toList = (List.range m.sets.size).map m.setAt := by
  apply List.ext_getElem?
  intro i
  rw [Array.getElem?_toList]
  by_cases hi : i < m.sets.size
  · simp [hi, Matcher.setAt]
  · rw [Array.getElem?_eq_none (by omega)]; simp [hi]

theorem mapM_buildSet_ok (m : Matcher) : ∀ is : List Nat, (∀ i ∈ is, m.setOk i = true) →
    (is.map m.setAt).mapM buildSet = .ok (is.map m.builtAt)
  | [], _ => rfl
  | i :: is, h => by
    rw [List.map_cons, List.mapM_cons, buildSet_setAt, h i (by simp),
      mapM_buildSet_ok m is (fun k hk => h k (by simp [hk]))]
    rfl

theorem mapM_buildSet_err (m : Matcher) (is : List Nat) (h : ∃ i ∈ is, m.setOk i = false) :
    (is.map m.setAt).mapM buildSet = .error .charOutOfRange := by
  apply mapM_except_err
  · intro x hx e he
    obtain ⟨i, _, rfl⟩ := List.mem_map.mp hx
    rw [buildSet_setAt] at he
    split at he
    · cases he
    · injection he with he; exact he.symm
  · obtain ⟨i, hi, hok⟩ := h
    exact ⟨m.setAt i, List.mem_map.mpr ⟨i, hi, rfl⟩, .charOutOfRange, by rw [buildSet_setAt, hok]; rfl⟩

theorem build_eq (m : Matcher) (hm : m.err = none) :
    m.build = if (List.range m.sets.size).all m.setOk then
      .ok ⟨((List.range m.sets.size).map m.builtAt).toArray⟩ else .error .charOutOfRange := by
  unfold Matcher.build
  rw [hm]
  simp only
  rw [sets_toList]
  split
  · rename_i hall
    rw [List.all_eq_true] at hall
    rw [mapM_buildSet_ok m _ hall]
    rfl
  · rename_i hall
    have : ∃ i ∈ List.range m.sets.size, m.setOk i = false := by
      have h' : (List.range m.sets.size).all m.setOk = false := by simpa using hall
      obtain ⟨i, hi, hno⟩ := List.all_eq_false.mp h'
      exact ⟨i, hi, by simpa using hno⟩
    rw [mapM_buildSet_err m _ this]
    rfl

/-- **`Build` under every interleaving of its workers.**  In every state reachable by letting the
pending workers run their critical sections in any order, once all have committed: if the sequential
`Matcher.build` succeeds with tables `b`, then no worker reported an error, the tables assembled from
the workers' writes are `b`, and the index lists they appended (in whatever order) are valid for `b`;
if it fails with `e`, `buildErr` is `e`. -/
theorem build_all_interleavings (m : Matcher) (hm : m.err = none) (s : BState) (hr : Reach m s)
    (hp : s.pending = []) :
    (∀ b, m.build = .ok b → s.err = none ∧ s.built m = b ∧ (s.idx m).Valid b) ∧
    (∀ e, m.build = .error e → s.err = some e) := by
  have inv := inv_reach m s hr
  have hdone : ∀ j, s.done m j ↔ j ∈ m.jobs := by
    intro j; simp [BState.done, hp]
  rw [build_eq m hm]
  by_cases hall : (List.range m.sets.size).all m.setOk = true
  · simp only [hall, ↓reduceIte]
    rw [List.all_eq_true] at hall
    have hok : ∀ i, i < m.sets.size → m.acOk i = true ∧
        ((m.setAt i).trie.isEmpty = true ∨ (m.trieOf i).isSome = true) := by
      intro i hi
      have := hall i (by simpa using hi)
      simpa [Matcher.setOk] using this
    refine ⟨?_, by intro e he; cases he⟩
    intro b hb
    injection hb with hb
    subst hb
    have herr : s.err = none := by
      cases he : s.err with
      | none => rfl
      | some e =>
        have : s.err.isSome = true := by simp [he]
        obtain ⟨j, hd, hf⟩ := inv.err.mp this
        have hj := (hdone j).mp hd
        cases j with
        | trie i =>
          obtain ⟨hi, hne⟩ := (mem_jobs_trie m i).mp hj
          rcases (hok i hi).2 with h | h
          · rw [hne] at h; cases h
          · simp [Job.fails] at hf; rw [hf] at h; cases h
        | ac i =>
          obtain ⟨hi, _⟩ := (mem_jobs_ac m i).mp hj
          simp [Job.fails, (hok i hi).1] at hf
    have htr : ∀ i, i < m.sets.size → (s.tries[i]?).getD none = (m.builtAt i).trie := by
      intro i hi
      simp only [Matcher.builtAt]
      cases hte : (m.setAt i).trie.isEmpty
      · have hj : Job.trie i ∈ m.jobs := (mem_jobs_trie m i).mpr ⟨hi, hte⟩
        rw [inv.triesDone i ((hdone _).mpr hj)]; simp
      · obtain ⟨t0, ht0⟩ : ∃ t0, s.tries[i]? = some t0 :=
          ⟨_, Array.getElem?_eq_getElem (by rw [inv.tsize]; exact hi)⟩
        rcases inv.tries i hi t0 ht0 with h | ⟨h1, _⟩
        · simp [ht0, h]
        · have := ((mem_jobs_trie m i).mp ((hdone _).mp h1)).2
          rw [hte] at this; cases this
    have hacs : ∀ i, i < m.sets.size → (s.acs[i]?).getD [] = (m.setAt i).ac := by
      intro i hi
      cases hae : (m.setAt i).ac.isEmpty
      · have hj : Job.ac i ∈ m.jobs := (mem_jobs_ac m i).mpr ⟨hi, hae⟩
        rw [inv.acsDone i ((hdone _).mpr hj) (hok i hi).1]; simp
      · obtain ⟨d0, hd0⟩ : ∃ d0, s.acs[i]? = some d0 :=
          ⟨_, Array.getElem?_eq_getElem (by rw [inv.asize]; exact hi)⟩
        have hnil : (m.setAt i).ac = [] := by simpa [List.isEmpty_iff] using hae
        rcases inv.acs i hi d0 hd0 with h | ⟨_, _, h3⟩
        · simp [hd0, h, hnil]
        · simp [hd0, h3]
    have hbuilt : s.built m = ⟨((List.range m.sets.size).map m.builtAt).toArray⟩ := by
      unfold BState.built
      congr 2
      apply List.map_congr_left
      intro i hi
      have hi' : i < m.sets.size := by simpa using hi
      rw [htr i hi', hacs i hi']
      rfl
    refine ⟨herr, hbuilt, ?_⟩
    have hget : ∀ i bs, (⟨((List.range m.sets.size).map m.builtAt).toArray⟩ : Built).sets[i]? = some bs ↔
        i < m.sets.size ∧ bs = m.builtAt i := by
      intro i bs
      by_cases hi : i < m.sets.size
      · simp [hi, eq_comm]
      · simp [hi]
    refine ⟨?_, ?_, ?_⟩
    · intro i
      simp only [BState.idx, inv.vT i, hdone, mem_jobs_trie, hget]
      constructor
      · rintro ⟨⟨hi, hne⟩, hs⟩
        exact ⟨_, ⟨hi, rfl⟩, by simp [Matcher.builtAt, hne, hs]⟩
      · rintro ⟨bs, ⟨hi, rfl⟩, hs⟩
        cases hte : (m.setAt i).trie.isEmpty
        · simp [Matcher.builtAt, hte] at hs; exact ⟨⟨hi, rfl⟩, hs⟩
        · simp [Matcher.builtAt, hte] at hs
    · intro i
      simp only [BState.idx, inv.vA i, hdone, mem_jobs_ac, hget]
      constructor
      · rintro ⟨⟨hi, hne⟩, _⟩
        exact ⟨_, ⟨hi, rfl⟩, by simp [Matcher.builtAt, hne]⟩
      · rintro ⟨bs, ⟨hi, rfl⟩, hs⟩
        exact ⟨⟨hi, by simpa [Matcher.builtAt] using hs⟩, (hok i hi).1⟩
    · intro i
      simp only [BState.idx, List.mem_filter, List.mem_range, hget]
      constructor
      · rintro ⟨hi, hne⟩
        exact ⟨_, ⟨hi, rfl⟩, by simpa [Matcher.builtAt] using hne⟩
      · rintro ⟨bs, ⟨hi, rfl⟩, hs⟩
        exact ⟨hi, by simpa [Matcher.builtAt] using hs⟩
  · simp only [hall, Bool.false_eq_true, ↓reduceIte]
    refine ⟨(by intro b hb; cases hb), ?_⟩
    intro e he
    injection he with he
    subst he
    -- some set fails: its job has committed and reported the error
    have : ∃ i, i < m.sets.size ∧ m.setOk i = false := by
      have h' : (List.range m.sets.size).all m.setOk = false := by simpa using hall
      obtain ⟨i, hi, hno⟩ := List.all_eq_false.mp h'
      exact ⟨i, by simpa using hi, by simpa using hno⟩
    obtain ⟨i, hi, hno⟩ := this
    have hsome : s.err.isSome = true := by
      rw [inv.err]
      simp only [Matcher.setOk, Bool.and_eq_false_iff, Bool.or_eq_false_iff] at hno
      rcases hno with h | ⟨h1, h2⟩
      · refine ⟨.ac i, (hdone _).mpr ((mem_jobs_ac m i).mpr ⟨hi, ?_⟩), by simp [Job.fails, h]⟩
        cases hae : (m.setAt i).ac.isEmpty
        · rfl
        · have : (m.setAt i).ac = [] := by simpa [List.isEmpty_iff] using hae
          simp [Matcher.acOk, this] at h
      · exact ⟨.trie i, (hdone _).mpr ((mem_jobs_trie m i).mpr ⟨hi, h1⟩), by simpa [Job.fails] using h2⟩
    obtain ⟨e, he⟩ := Option.isSome_iff_exists.mp hsome
    rw [he, inv.errVal e he]

end DaeVerif.C11
