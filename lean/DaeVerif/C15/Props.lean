import DaeVerif.C15.ConcProofs
/-!
# C15 — property theorems

Statements a reader should audit (namespace `DaeVerif.C15.Props`); the definitions they mention
(`ASet`, `notify`, `setPolicy`, `runSet`, `getMin`, `getRand`, `Group`, `gNew`, `runG`, `select`,
`tried`, `chain`, …) are the executable model in `Model.lean` — the same definitions the driver
`c15drv` runs against the real code (the code *after* `fix:` addc261, where `time.Hour` is only the
start value of the minimum scans).  Hypothesis predicates (`HistMem`/`GHistMem`: events name
members; `HistOk`/`GHistOk`: additionally *mono*, see section B) and the lemmas are in `Proofs.lean`.

Reading guide.  `s.entries` = `aliveEntries` (what the set believes alive, with the cached sorting
latency `sl` = measurement + `add_latency` offset, `0` while unmeasured); `s.idx` =
`dialerToIndex`; `s.minD/s.minL` = the cached best; `s.lat` = `dialerToLatency`.
`beats tol sl L` = "`sl` is better than `L`, by at least `tol`".

Naming: a theorem whose hypotheses restrict the property's quantifier ends in `_partial`; all the
others hold for every group size, offset, latency, tolerance (negative included) and history.
-/
namespace DaeVerif.C15.Props
open DaeVerif.C15

/-! ## A. after every history: the internal index, the cached best -/

/-- **Index consistency, all histories.** After any sequence of notifications (alive or not, with
or without a latency, any values) and policy switches that only name members, none of the
`Panicf`/out-of-range points was reached, `dialerToIndex` is exactly the inverse of the
`aliveEntries` array, and no dialer occupies two slots. -/
theorem index_consistent (n : Nat) (tol : Int) (offs : Nat → Int) (p : Policy) (h : List SetEv)
    (hm : HistMem n h) :
    let s := runSet (ASet.init n tol offs p) h
    s.panicked = false ∧
    (∀ k e, s.entries[k]? = some e → e.d < n ∧ s.idx e.d = Slot.at k) ∧
    (∀ d k, d < n → s.idx d = Slot.at k → ∃ e, s.entries[k]? = some e ∧ e.d = d) ∧
    (∀ (j k : Nat) (e e' : Entry), s.entries[j]? = some e → s.entries[k]? = some e' → e.d = e'.d → j = k) := by
  intro s
  obtain ⟨hi, hn⟩ := idxInv_run h (ASet.init n tol offs p) (idxInv_init n tol offs p) hm
  have hn' : s.n = n := hn
  have hb : ∀ k e, s.entries[k]? = some e → e.d < n ∧ s.idx e.d = Slot.at k := by
    intro k e he
    have := hi.bwd k e.d (by rw [ds_getElem?]; show Option.map _ (s.entries[k]?) = _; rw [he]; rfl)
    exact ⟨hn' ▸ this.1, this.2⟩
  refine ⟨hi.noPanic, hb, ?_, ?_⟩
  · intro d k hd hk
    have := hi.fwd d k (by rw [hn']; exact hd) hk
    rw [ds_getElem?] at this
    change Option.map _ (s.entries[k]?) = _ at this
    cases hq : s.entries[k]? with
    | none => rw [hq] at this; cases this
    | some e => rw [hq] at this; exact ⟨e, rfl, by simpa using this⟩
  · intro j k e e' hj hk hd
    have h1 := (hb j e hj).2
    have h2 := (hb k e' hk).2
    rw [hd, h2] at h1
    cases h1; rfl

-- non-vacuity: a history with a swap-remove in the middle satisfies the hypothesis and ends non-trivially
example : HistMem 3 [.notify 0 true none, .notify 1 true (some 5), .notify 2 true none, .notify 0 false none] ∧
    (runSet (ASet.init 3 0 (fun _ => 0) .minLast)
      [.notify 0 true none, .notify 1 true (some 5), .notify 2 true none, .notify 0 false none]).entries
      = [⟨2, 0⟩, ⟨1, 5⟩] := by
  constructor
  · simp [HistMem]
  · decide

/-- **The cached best is believed alive, and is nil exactly when nobody is — all histories.**
After any sequence of notifications and policy switches that only name members — any latencies,
offsets (an hour and more included), tolerance, in any order — the node `GetMinLatency(nil)` hands
out from its cache is a member of the alive list; under a min policy the cache is `nil` exactly
when the alive list is empty; under `random` nothing is cached. -/
theorem best_is_alive_and_nil_iff_nobody_alive (n : Nat) (tol : Int) (offs : Nat → Int) (p : Policy)
    (h : List SetEv) (hm : HistMem n h) :
    let s := runSet (ASet.init n tol offs p) h
    (∀ d, s.minD = some d → ∃ e ∈ s.entries, e.d = d) ∧
    (s.policy.isMin = true → (s.minD = none ↔ s.entries = [])) ∧
    (s.policy.isMin = false → s.minD = none) := by
  intro s
  have hmi := minv_run h (ASet.init n tol offs p) (minv_init n tol offs p) hm
  have hne := ne_run h (ASet.init n tol offs p) (minv_init n tol offs p) (by intro _ _; rfl) hm
  refine ⟨hmi.bestIn, ?_, hmi.nonMin⟩
  intro hpm
  constructor
  · exact hne hpm
  · intro he
    cases hD : s.minD with
    | none => rfl
    | some d =>
      obtain ⟨e, hmem, _⟩ := hmi.bestIn d hD
      have hmem' : e ∈ s.entries := hmem
      rw [he] at hmem'; cases hmem'

/-- **"Believed alive" = what the set was last told.** After any history that only names members,
a member is in the alive list exactly when the last notification about it said `alive` (never told:
not alive).  This is what ties every "alive in the set" of the selection theorems to the
notification history of the property's quantifier. -/
theorem alive_iff_last_told_alive (n : Nat) (tol : Int) (offs : Nat → Int) (p : Policy) (h : List SetEv)
    (hm : HistMem n h) (d : Nat) :
    (runSet (ASet.init n tol offs p) h).isAlive d = (lastTold d h).getD false := by
  have := isAlive_run d h (ASet.init n tol offs p) (idxInv_init n tol offs p) hm
  rw [this]
  rfl

example : (runSet (ASet.init 3 0 (fun _ => 0) .minLast)
    [.notify 0 true none, .notify 1 true (some 5), .notify 1 false none, .notify 1 true none]).isAlive 1 = true ∧
    lastTold 1 [.notify 0 true none, .notify 1 true (some 5), .notify 1 false none, .notify (1 : Nat) true none] = some true := by
  decide

-- the former `time.Hour` sentinel: a node with `add_latency = 1h` (+1 ms measured) is selectable
example : getMin (runSet (ASet.init 1 0 (fun _ => hour) .minLast) [.notify 0 true (some 1000000)]) none
    = (some 0, hour + 1000000) := by decide

/-! ## B. the tolerance rule (min policies)

The statements of this section are about *measured* nodes, and they need one fact about the
environment, **mono**: a dialer for which the set has recorded a latency (under the current policy)
keeps coming with one in later notifications (`NotifyOk.mono`).  The dialer side provides it
(`measurement_once_always_for_positive_samples` below: `LatenciesN` never shrinks, the moving
average stays positive); it is broken only by restoring an emptier health snapshot (reload, C16)
or a 0 ns sample under `min_moving_avg`.  Without it the tolerance bound is false of the code —
see the example after `alive_set_invariant_partial` — hence the `_partial` suffix.  No bound on
latencies, offsets or tolerance is assumed any more. -/

/-- **The tolerance invariant**, for all histories that respect `HistOk` (members only + mono):
* every alive entry's cached sorting latency is measurement + offset (0 while unmeasured);
* **tolerance bound**: no alive entry *with a measurement* beats the cached best latency by the
  tolerance or more;
* the cached best latency is the best's own sorting latency, except for the optimistic "first
  alive, never measured" choice, whose cached latency is still `time.Hour`. -/
theorem alive_set_invariant_partial (n : Nat) (tol : Int) (offs : Nat → Int) (p : Policy) (h : List SetEv)
    (hok : HistOk (ASet.init n tol offs p) h) :
    let s := runSet (ASet.init n tol offs p) h
    (∀ d, s.minD = some d → ∃ e ∈ s.entries, e.d = d ∧ (e.sl = s.minL ∨ (s.minL = hour ∧ s.lat d = none))) ∧
    (s.policy.isMin = true → ∀ e ∈ s.entries, e.sl = expSl s e.d) ∧
    (s.policy.isMin = true → ∀ e ∈ s.entries, s.lat e.d ≠ none → ¬ beats s.tol e.sl s.minL) := by
  intro s
  have hs : SInv s := sinv_run h _ (sinv_init n tol offs p) hok
  exact ⟨hs.best, hs.latCons, hs.tolBound⟩

-- non-vacuity: tolerance 30; node 1 measures 80 against the best's 100 — no switch (20 < 30) —
-- then 70 — switch.
example : HistOk (ASet.init 2 30 (fun _ => 0) .minLast)
      [.notify 0 true (some 100), .notify 1 true (some 80), .notify 1 true (some 70)] ∧
    (runSet (ASet.init 2 30 (fun _ => 0) .minLast) [.notify 0 true (some 100), .notify 1 true (some 80)]).minD = some 0 ∧
    (runSet (ASet.init 2 30 (fun _ => 0) .minLast)
      [.notify 0 true (some 100), .notify 1 true (some 80), .notify 1 true (some 70)]).minD = some 1 := by
  refine ⟨⟨⟨by decide, by intros; simp⟩, ⟨by decide, by intros; simp⟩, ⟨by decide, by intros; simp⟩, trivial⟩,
    by decide, by decide⟩

-- why mono is needed: node 1 is measured (10) while dead, then revives with a notification that
-- carries no latency; it joins with sorting latency 0, recorded latency 10, and "beats" the best's
-- 100 by more than the tolerance 30 without any switch.
example :
    let s := runSet (ASet.init 2 30 (fun _ => 0) .minLast)
      [.notify 0 true (some 100), .notify 1 false (some 10), .notify 1 true none]
    s.minD = some 0 ∧ s.minL = 100 ∧ s.entries = [⟨0, 100⟩, ⟨1, 0⟩] ∧ s.lat 1 = some 10 := by decide

/-- **The tolerance rule as a relation between consecutive states** (min policies). From any
state reached by an admissible history, one more notification changes the choice from `b` to
another node `b'` only if
* `b` is no longer alive, or
* `b` has no measurement (yet), or
* `b'` **has a measurement**, is not worse than `b`, and is either better by at least the
  tolerance, or `b`'s latency is itself below the tolerance (sorting latencies = measurement +
  offset, after the notification), or
* **interpretation made explicit** — `b'` is alive but has **never been measured**: the code ranks
  such a node as sorting latency `0` on purpose ("optimistic start-up semantics"), and in that
  ranking it is better by the tolerance: `0 ≤ b` and (`0 + tol ≤ b` or `b < tol`).  So a small
  worsening of a measured best can hand the choice to a never-measured alive node (example below);
and the choice becomes `nil` only when nobody is alive any more.  (The remaining way to change the
choice is a policy switch, which is a different event.)  `_partial`: mono. -/
theorem switch_only_when_partial (n : Nat) (tol : Int) (offs : Nat → Int) (p : Policy) (h : List SetEv)
    (hok : HistOk (ASet.init n tol offs p) h) (d : Nat) (alive : Bool) (snap : Option Int) :
    let s := runSet (ASet.init n tol offs p) h
    s.policy.isMin = true → NotifyOk s d snap →
    let s' := (notify s d alive snap).1
    (∀ b b', s.minD = some b → s'.minD = some b' → b ≠ b' →
      (¬ ∃ e ∈ s'.entries, e.d = b) ∨ s'.lat b = none ∨
      (∃ eb ∈ s'.entries, ∃ eb' ∈ s'.entries, eb.d = b ∧ eb'.d = b' ∧ s'.lat b' ≠ none ∧
        eb'.sl ≤ eb.sl ∧ (eb'.sl + tol ≤ eb.sl ∨ eb.sl < tol)) ∨
      (∃ eb ∈ s'.entries, ∃ eb' ∈ s'.entries, eb.d = b ∧ eb'.d = b' ∧ s'.lat b' = none ∧
        eb'.sl = 0 ∧ 0 ≤ eb.sl ∧ (0 + tol ≤ eb.sl ∨ eb.sl < tol))) ∧
    (s'.minD = none → s'.entries = []) := by
  intro s hm ok s'
  have hs : SInv s := sinv_run h _ (sinv_init n tol offs p) hok
  have htol : s.tol = tol := runSet_tol h _
  have hs' : SInv s' := sinv_notify hs ok
  have hm' : s'.policy.isMin = true := by rw [(notify_frame s d alive snap).2.2.2.1]; exact hm
  constructor
  · intro b b' hb hb' hne
    have := switch_notify hs hm ok hb hb' hne
    rw [htol] at this
    rcases this with h1 | h2 | ⟨eb, heb, eb', heb', h3, h4, h5, h6⟩
    · exact Or.inl h1
    · exact Or.inr (Or.inl h2)
    · have hlc := hs'.latCons hm' eb' heb'
      cases hl : s'.lat b' with
      | some r => exact Or.inr (Or.inr (Or.inl ⟨eb, heb, eb', heb', h3, h4, by simp, h5, h6⟩))
      | none =>
        have h0 : eb'.sl = 0 := by rw [hlc, h4]; simp [expSl, hl]
        rw [h0] at h5 h6
        exact Or.inr (Or.inr (Or.inr ⟨eb, heb, eb', heb', h3, h4, rfl, h0, h5, h6⟩))
  · intro hn
    exact hs'.nilEmpty hm' hn

-- the interpretation above, concretely (audit witness): tolerance 30; node 0 measured 100 is the
-- choice, node 1 is alive and never measured; node 0's next sample 101 hands the choice to node 1,
-- which still has no measurement and ranks as 0.
example :
    let h : List SetEv := [.notify 0 true (some 100), .notify 1 true none, .notify 0 true (some 101)]
    HistOk (ASet.init 2 30 (fun _ => 0) .minLast) h ∧
    (runSet (ASet.init 2 30 (fun _ => 0) .minLast) (h.take 2)).minD = some 0 ∧
    (runSet (ASet.init 2 30 (fun _ => 0) .minLast) h).minD = some 1 ∧
    (runSet (ASet.init 2 30 (fun _ => 0) .minLast) h).lat 1 = none ∧
    getMin (runSet (ASet.init 2 30 (fun _ => 0) .minLast) h) none = (some 1, 0) := by
  refine ⟨⟨⟨by decide, by intros; simp⟩, ⟨by decide, by intro _ h; exact (h (by decide)).elim⟩,
    ⟨by decide, by intros; simp⟩, trivial⟩, by decide, by decide, by decide, by decide⟩

-- non-vacuity: the switch of the earlier example happens through the third disjunct (measured, 70 + 30 ≤ 100)
example : (notify (runSet (ASet.init 2 30 (fun _ => 0) .minLast) [.notify 0 true (some 100), .notify 1 true (some 80)])
    1 true (some 70)).1.minD = some 1 := by decide

-- ties: with tolerance 0 an equally fast node takes over (the code's gate is `≤`)
example : (notify (runSet (ASet.init 2 0 (fun _ => 0) .minLast) [.notify 0 true (some 50)]) 1 true (some 50)).1.minD = some 1 := by
  decide

/-- **What `GetMinLatency(nil)` hands out** (state form; `SInv s` is what `alive_set_invariant_partial`
establishes after every admissible history): an alive node; the latency returned with it is that
node's sorting latency (or `time.Hour` for the never-measured first choice); and no alive node
with a measurement beats that latency by the tolerance or more.  `_partial`: mono (inside `SInv`). -/
theorem min_policy_returns_unbeaten_alive_partial {s : ASet} (hs : SInv s) (hm : s.policy.isMin = true)
    {d : Nat} {L : Int} (h : getMin s none = (some d, L)) :
    (∃ e ∈ s.entries, e.d = d ∧ (e.sl = L ∨ (L = hour ∧ s.lat d = none))) ∧
    (∀ e ∈ s.entries, s.lat e.d ≠ none → ¬ beats s.tol e.sl L) :=
  ⟨getMin_best_latency hs h hm, getMin_tolerance hs hm h⟩

/-! ## C. exclusion, random -/

/-- **`GetMinLatency(excluded)`, all histories**: never the excluded node, always an alive one;
`nil` exactly when every alive node is the excluded one. -/
theorem getMin_respects_exclusion (n : Nat) (tol : Int) (offs : Nat → Int) (p : Policy) (h : List SetEv)
    (hm : HistMem n h) (excl : Option Nat) :
    let s := runSet (ASet.init n tol offs p) h
    (∀ d L, getMin s excl = (some d, L) → (∃ e ∈ s.entries, e.d = d) ∧ excl ≠ some d) ∧
    ((getMin s excl).1 = none ↔ ∀ e ∈ s.entries, excl = some e.d) := by
  intro s
  have hmi := minv_run h (ASet.init n tol offs p) (minv_init n tol offs p) hm
  exact ⟨fun _ _ h => getMin_some' hmi.bestIn h, getMin_none_iff' hmi.bestIn excl⟩

/-- with the cached best excluded, the answer is a true minimum over the other alive nodes -/
theorem getMin_excluding_best_is_minimum {s : ASet} {b d : Nat} {L : Int} (hD : s.minD = some b)
    (h : getMin s (some b) = (some d, L)) :
    (⟨d, L⟩ : Entry) ∈ s.entries ∧ d ≠ b ∧ ∀ e ∈ s.entries, e.d ≠ b → L ≤ e.sl :=
  getMin_excluded_is_min hD h

/-- **random returns only alive, non-excluded nodes — for every value of the random source** —
and returns `nil` only when there is none. -/
theorem random_returns_alive (rnd : Nat → Nat) (s : ASet) (excl : Option Nat) :
    (∀ d, getRand rnd s excl = some d → (∃ e ∈ s.entries, e.d = d) ∧ excl ≠ some d) ∧
    (getRand rnd s excl = none ↔ ∀ e ∈ s.entries, excl = some e.d) := by
  constructor
  · intro d h; exact (mem_randCands s excl d).mp (getRand_mem h)
  · rw [getRand_none_iff]
    constructor
    · intro h e he
      apply Classical.byContradiction
      intro hne
      have : e.d ∈ randCands s excl := (mem_randCands s excl e.d).mpr ⟨⟨e, he, rfl⟩, hne⟩
      rw [h] at this; cases this
    · intro h
      apply List.eq_nil_iff_forall_not_mem.mpr
      intro d hd
      obtain ⟨⟨e, he, hed⟩, hne⟩ := (mem_randCands s excl d).mp hd
      exact hne (by rw [← hed]; exact h e he)

example : getRand (fun _ => 7) ⟨3, 0, fun _ => 0, .random, fun _ => .init, fun _ => none,
    [⟨0, 0⟩, ⟨1, 0⟩, ⟨2, 0⟩], none, hour, false⟩ (some 1) = some 0 := by decide

/-! ## D. the group: `SelectWithExclusionResult`, all histories

`g` below is any group reached from `NewDialerGroup` (any members' alive flags and snapshots, any
offsets/tolerance/policy) by any sequence of notifications (any domain, alive or not, any
snapshot) and policy switches that only name members (`GHistMem`). -/

/-- **fixed(i) always returns the i-th node** (whatever is alive, whatever is excluded). -/
theorem fixed_returns_ith (rnd : Nat → Nat → Nat → Nat) (g : Group) (t : NetType) (strict : Bool)
    (excl : Option Nat) (hp : g.policy = .fixed) (h0 : 0 ≤ g.fixedIdx) (h1 : g.fixedIdx < g.n) :
    ∃ sel, select rnd g t strict excl = .ok ⟨g.fixedIdx.toNat, 0, sel⟩ :=
  ⟨_, select_fixed rnd g t strict excl hp h0 h1⟩

/-- **Selection returns a node the group believes alive for one of the domains it may consult**
(`tried`: the requested type; for data UDP then DNS-UDP, then TCP, of the same family; and the same
chain for the other family when `strict = false`), **never the excluded node** — the only other
answer is the single-node last resort (strict call, one-node group, nothing selectable for the
requested chain), which hands out node 0 with latency `dialer.Timeout`.  Random and min policies,
every value of the random source, every history. -/
theorem select_returns_alive_of_tried_type (n : Nat) (tol : Int) (offs : Nat → Int) (p : Policy)
    (fi : Int) (alive0 : Nat → Nat → Bool) (snap0 : Nat → Nat → Option Int) (h : List GEv)
    (hm : GHistMem n h) (rnd : Nat → Nat → Nat → Nat) (t : NetType) (strict : Bool)
    (excl : Option Nat) (x : SelOk) :
    let g := runG (gNew n tol offs p fi alive0 snap0).1 h
    g.policy ≠ .fixed → select rnd g t strict excl = .ok x →
    (∃ ty ∈ tried g t strict, (∃ e ∈ (g.sets ty.index).entries, e.d = x.d) ∧ excl ≠ some x.d) ∨
    (strict = true ∧ g.n = 1 ∧ x.d = 0 ∧ x.lat = dialTimeout ∧
      ∀ ty ∈ chain t g.policy, ∀ e ∈ (g.sets ty.index).entries, excl = some e.d) := by
  intro g hp hsel
  have hg := gminv_after n tol offs p fi alive0 snap0 h hm
  rcases select_ok hp (fun ty => (hg.sets ty).1.bestIn) hsel with ⟨ty, hty, h1, h2, _⟩ | h'
  · exact Or.inl ⟨ty, hty, h1, h2⟩
  · exact Or.inr h'

/-- **The sets agree with the members' alive flags.** In every reachable group with sets, for each
of the six health domains a member is in that domain's alive list exactly when its dialer-side
`Alive` flag for the domain is set (the flag every report sets before the sets are told). -/
theorem group_sets_agree_with_flags (n : Nat) (tol : Int) (offs : Nat → Int) (p : Policy)
    (fi : Int) (alive0 : Nat → Nat → Bool) (snap0 : Nat → Nat → Option Int) (h : List GEv)
    (hm : GHistMem n h) :
    let g := runG (gNew n tol offs p fi alive0 snap0).1 h
    g.hasSets = true → ∀ t, t < 6 → ∀ d, d < g.n → (g.sets t).isAlive d = g.alive t d := by
  intro g
  obtain ⟨h0, n0⟩ := gminv_gNew n tol offs p fi alive0 snap0
  exact agree_run h _ h0 (agree_gNew n tol offs p fi alive0 snap0) (by rw [n0]; exact hm)

/-- **Family order and the admitting domain.** A successful selection under random/min is
* admitted by a domain of the *requested* chain; or
* only when the call is not strict **and the whole requested chain has nothing selectable**, by a
  domain of the other family's chain; or
* the single-node last resort (strict, one-node group, requested chain has nothing selectable):
  exactly node 0 with latency `dialer.Timeout`.
"Admitted by `ty`" (`Admitted`): the node is alive in `ty`'s set, is not the excluded one, under
a min policy it is `GetMinLatency(excluded)` of that set with that latency, and the reported
admitting domain `x.sel` is `preferAlternateSelectionNetworkType(node, ty)`. -/
theorem select_family_order (n : Nat) (tol : Int) (offs : Nat → Int) (p : Policy)
    (fi : Int) (alive0 : Nat → Nat → Bool) (snap0 : Nat → Nat → Option Int) (h : List GEv)
    (hm : GHistMem n h) (rnd : Nat → Nat → Nat → Nat) (t : NetType) (strict : Bool)
    (excl : Option Nat) (x : SelOk) :
    let g := runG (gNew n tol offs p fi alive0 snap0).1 h
    g.policy ≠ .fixed → select rnd g t strict excl = .ok x →
    (∃ ty ∈ chain t g.policy, Admitted g excl ty x) ∨
    (strict = false ∧ (∀ ty ∈ chain t g.policy, ∀ e ∈ (g.sets ty.index).entries, excl = some e.d) ∧
      ∃ ty ∈ chain t.flip g.policy, Admitted g excl ty x) ∨
    (strict = true ∧ g.n = 1 ∧ x = ⟨0, dialTimeout, (preferAlt g 0 t).index⟩ ∧
      ∀ ty ∈ chain t g.policy, ∀ e ∈ (g.sets ty.index).entries, excl = some e.d) := by
  intro g hp hsel
  have hg := gminv_after n tol offs p fi alive0 snap0 h hm
  exact select_ok_full hp (fun ty => (hg.sets ty).1.bestIn) hsel

/-- the admitting domain handed to callers: the consulted domain itself when the node's flag for it
is set, else the same domain of the other family when that flag is set, else the consulted domain -/
theorem admitting_domain_spec (g : Group) (d : Nat) (t : NetType) :
    (preferAlt g d t = t ∨ preferAlt g d t = t.flip) ∧
    (g.alive t.index d = true ∨ g.alive t.flip.index d = true → g.alive (preferAlt g d t).index d = true) ∧
    (g.alive t.index d = true → preferAlt g d t = t) :=
  preferAlt_spec g d t

/-- **Whenever a consulted domain has a selectable node, a node is returned** (no other error can
occur under random/min). -/
theorem select_ok_of_selectable (n : Nat) (tol : Int) (offs : Nat → Int) (p : Policy)
    (fi : Int) (alive0 : Nat → Nat → Bool) (snap0 : Nat → Nat → Option Int) (h : List GEv)
    (hm : GHistMem n h) (rnd : Nat → Nat → Nat → Nat) (t : NetType) (strict : Bool) (excl : Option Nat) :
    let g := runG (gNew n tol offs p fi alive0 snap0).1 h
    g.policy ≠ .fixed →
    (∃ ty ∈ tried g t strict, ∃ e ∈ (g.sets ty.index).entries, excl ≠ some e.d) →
    ∃ x, select rnd g t strict excl = .ok x := by
  intro g hp ⟨ty, hty, e, he, hne⟩
  have hg := gminv_after n tol offs p fi alive0 snap0 h hm
  have hbi := fun ty => (hg.sets ty).1.bestIn
  cases hsel : select rnd g t strict excl with
  | ok x => exact ⟨x, rfl⟩
  | error er =>
    exfalso
    rcases select_error_cases hp hbi hsel with h1 | ⟨_, hn0⟩
    · subst h1
      have := (select_noAlive_iff hp hbi).mp hsel
      exact hne (this.2.2 ty hty e he)
    · obtain ⟨hmi, hnn⟩ := hg.sets ty.index
      obtain ⟨hlt, _⟩ := idx_of_mem hmi.idx he
      rw [hnn, hn0] at hlt
      exact absurd hlt (Nat.not_lt_zero _)

/-- **The excluded node is returned only under `fixed` or as the single-node last resort.** -/
theorem excluded_never_returned_unless_fixed_or_last_resort (n : Nat) (tol : Int) (offs : Nat → Int)
    (p : Policy) (fi : Int) (alive0 : Nat → Nat → Bool) (snap0 : Nat → Nat → Option Int) (h : List GEv)
    (hm : GHistMem n h) (rnd : Nat → Nat → Nat → Nat) (t : NetType) (strict : Bool) (d : Nat) (x : SelOk) :
    let g := runG (gNew n tol offs p fi alive0 snap0).1 h
    select rnd g t strict (some d) = .ok x → x.d = d →
    g.policy = .fixed ∨ (strict = true ∧ g.n = 1 ∧ x.lat = dialTimeout) := by
  intro g hsel hx
  by_cases hp : g.policy = .fixed
  · exact Or.inl hp
  · rcases select_returns_alive_of_tried_type n tol offs p fi alive0 snap0 h hm rnd t strict (some d) x hp hsel
      with ⟨_, _, _, hne⟩ | ⟨a, b, _, c, _⟩
    · exact absurd (by rw [hx]) hne
    · exact Or.inr ⟨a, b, c⟩

/-- **"no alive dialer" exactly when no consulted domain has a selectable node** (an alive node
other than the excluded one), the group is non-empty, and the last resort does not apply.  In
particular: whenever some consulted domain has such a node, a node is returned. -/
theorem no_alive_error_iff_all_tried_empty (n : Nat) (tol : Int) (offs : Nat → Int) (p : Policy)
    (fi : Int) (alive0 : Nat → Nat → Bool) (snap0 : Nat → Nat → Option Int) (h : List GEv)
    (hm : GHistMem n h) (rnd : Nat → Nat → Nat → Nat) (t : NetType) (strict : Bool) (excl : Option Nat) :
    let g := runG (gNew n tol offs p fi alive0 snap0).1 h
    g.policy ≠ .fixed →
    (select rnd g t strict excl = .error .noAlive ↔
      g.n ≠ 0 ∧ ¬ (strict = true ∧ g.n = 1) ∧
      ∀ ty ∈ tried g t strict, ∀ e ∈ (g.sets ty.index).entries, excl = some e.d) := by
  intro g hp
  have hg := gminv_after n tol offs p fi alive0 snap0 h hm
  exact select_noAlive_iff hp (fun ty => (hg.sets ty).1.bestIn)

/-- **The fallbacks are consulted in the documented order**: the admitting domain is the first
one of the chain (requested type; for data UDP then DNS-UDP, then TCP, same family) that has a
selectable node — every earlier domain of the chain had none. -/
theorem select_prefers_earlier_domain (n : Nat) (tol : Int) (offs : Nat → Int) (p : Policy)
    (fi : Int) (alive0 : Nat → Nat → Bool) (snap0 : Nat → Nat → Option Int) (h : List GEv)
    (hm : GHistMem n h) (rnd : Nat → Nat → Nat) (t : NetType) (q : Policy) (fi' : Int)
    (excl : Option Nat) (x : SelOk) :
    let g := runG (gNew n tol offs p fi alive0 snap0).1 h
    q ≠ .fixed → select1 rnd g t q fi' excl = .ok x →
    ∃ pre ty post, chain t q = pre ++ ty :: post ∧
      ((∃ e ∈ (g.sets ty.index).entries, e.d = x.d) ∧ excl ≠ some x.d) ∧
      ∀ ty' ∈ pre, ∀ e ∈ (g.sets ty'.index).entries, excl = some e.d := by
  intro g hq hsel
  have hg := gminv_after n tol offs p fi alive0 snap0 h hm
  exact select1_first_selectable hq (fun ty => (hg.sets ty).1.bestIn) hsel

/-- data UDP consults data-UDP, then DNS-UDP, then TCP, of the same family (type indices
4/5, 0/1, 2/3) -/
theorem data_udp_chain_order (ip6 isDns : Bool) (p : Policy) (hp : p ≠ .fixed) :
    (chain ⟨true, ip6, isDns, .data⟩ p).map NetType.index =
      [4 + (if ip6 then 1 else 0), 0 + (if ip6 then 1 else 0), 2 + (if ip6 then 1 else 0)] :=
  chain_data_udp ip6 isDns p hp

-- non-vacuity: the data-UDP fallback chain and the admitting-domain preference are really reachable
-- (one-node group, data-UDP4 and DNS-UDP4 dead: admitted by TCP4, unmeasured, latency `Hour`)
example : GHistMem 1 [.notify 4 0 false none, .notify 0 0 false none] ∧ (select (fun _ _ _ => 0)
    (runG (gNew 1 0 (fun _ => 0) .minLast 0 (fun _ _ => true) (fun _ _ => none)).1
      [.notify 4 0 false none, .notify 0 0 false none])
    ⟨true, false, false, .data⟩ true none).toOption = some ⟨0, hour, 2⟩ := by
  constructor
  · simp [GHistMem]
  · decide

/-- **The group-level tolerance invariant holds after every admissible history** (`GHistOk`:
members only + mono, see section B): the six sets exist exactly under random/min, run the group's
policy and satisfy the full set invariant `SInv`.  `_partial`: mono. -/
theorem group_invariant_all_histories_partial (n : Nat) (tol : Int) (offs : Nat → Int) (p : Policy)
    (fi : Int) (alive0 : Nat → Nat → Bool) (snap0 : Nat → Nat → Option Int) (h : List GEv)
    (hok : GHistOk (gNew n tol offs p fi alive0 snap0).1 h) :
    GInv (runG (gNew n tol offs p fi alive0 snap0).1 h) :=
  ginv_run h _ (ginv_gNew n tol offs p fi alive0 snap0) hok

/-- **min policies at group level, with or without exclusion**: the answer is either the
single-node last resort (structurally: strict, one node, requested chain has nothing selectable) or
`GetMinLatency(excluded)` of an admitting domain, and then no alive measured node of that domain
other than the excluded one beats the returned latency by the tolerance or more.
`_partial`: `GInv g` (mono, by `group_invariant_all_histories_partial`). -/
theorem select_min_is_unbeaten_partial {rnd : Nat → Nat → Nat → Nat} {g : Group} {t : NetType}
    {strict : Bool} {excl : Option Nat} (hg : GInv g) (hm : g.policy.isMin = true) {x : SelOk}
    (h : select rnd g t strict excl = .ok x) :
    (∃ ty ∈ tried g t strict, getMin (g.sets ty.index) excl = (some x.d, x.lat) ∧
      ∀ e ∈ (g.sets ty.index).entries, (g.sets ty.index).lat e.d ≠ none → excl ≠ some e.d →
        ¬ beats (g.sets ty.index).tol e.sl x.lat) ∨
    (strict = true ∧ g.n = 1 ∧ x.d = 0 ∧ x.lat = dialTimeout ∧
      ∀ ty ∈ chain t g.policy, ∀ e ∈ (g.sets ty.index).entries, excl = some e.d) := by
  have hp : g.policy ≠ .fixed := by intro h; rw [h] at hm; cases hm
  have hhs : g.hasSets = true := by rw [hg.hasSets]; cases hq : g.policy <;> simp_all [needsAlive]
  rcases select_ok hp (fun ty => (hg.sets hhs ty).1.bestIn) h with ⟨ty, hty, _, _, h3⟩ | hlr
  · have hgm := h3 hm
    have hpol : (g.sets ty.index).policy.isMin = true := by rw [(hg.sets hhs ty.index).2.1]; exact hm
    exact Or.inl ⟨ty, hty, hgm, getMin_tolerance_excl (hg.sets hhs ty.index).1 hpol hgm⟩
  · exact Or.inr hlr

-- non-vacuity: a two-node `min` group, tolerance 30; node 0 measured 100 on tcp4, then node 1
-- measured 60: the invariant's hypotheses hold and the selection really switches to node 1.
example : GHistOk (gNew 2 30 (fun _ => 0) .minLast 0 (fun _ _ => true) (fun _ _ => none)).1
      [.notify 2 0 true (some 100), .notify 2 1 true (some 60)] ∧
    (select (fun _ _ _ => 0) (runG (gNew 2 30 (fun _ => 0) .minLast 0 (fun _ _ => true) (fun _ _ => none)).1
      [.notify 2 0 true (some 100), .notify 2 1 true (some 60)]) ⟨false, false, false, .unset⟩ true none).toOption
      = some ⟨1, 60, 2⟩ := by
  refine ⟨⟨fun _ => ⟨by decide, by intros; simp⟩, fun _ => ⟨by decide, by intros; simp⟩, trivial⟩, by decide⟩

/-! ## E. sample histories: `mono` discharged

`World` = the group together with the dialer-side collections (`LatenciesN`, moving average) and
backoff penalties of its members; the snapshots handed to the sets are *computed* from the samples.
World events: a successful probe with its latency, a failure/traffic report after which the sets
are told alive/dead, a penalty change, a policy switch.  This is exactly what the driver executes
(`stepWcb`). -/

/-- **Every history of positive samples, reports, penalty changes and policy switches keeps the
full tolerance invariant** — no `mono` hypothesis: it is a consequence (`measurement_once_always…`
composed along the history).  Hypotheses: events name members; latency samples are positive
durations (≥ 1 ns) — that is the *domain* of a latency sample (`time.Since` of a round trip), not a
restriction of the property's quantifier, hence no `_partial` suffix (a 0 ns sample under
`min_moving_avg` really does break the invariant).  Hence `select_min_is_unbeaten_partial`, `min_policy_returns_unbeaten_alive_partial`
and the set-level tolerance bound apply to every such world; what lies outside is only a restore of
an emptier health snapshot (reload) or a 0 ns sample under `min_moving_avg`. -/
theorem tolerance_invariant_all_sample_histories (n : Nat) (tol : Int) (offs : Nat → Int) (p : Policy)
    (fi : Int) (alive0 : Nat → Nat → Bool) (colls0 : Nat → Nat → Coll) (pens0 : Nat → Nat → Int)
    (h : List WEv) (hok : WHistOk n h) :
    GInv (runW (worldNew n tol offs p fi alive0 colls0 pens0) h).g :=
  (winv_run h _ (winv_new n tol offs p fi alive0 colls0 pens0) hok).ginv

-- non-vacuity: node 0 probed 100 then node 1 probed 60 on tcp4, tolerance 30: hypotheses hold, choice switches
example : WHistOk 2 [.sample 2 0 100, .sample 2 1 60] ∧
    (select (fun _ _ _ => 0) (runW (worldNew 2 30 (fun _ => 0) .minLast 0 (fun _ _ => true)
      (fun _ _ => Coll.empty) (fun _ _ => 0)) [.sample 2 0 100, .sample 2 1 60]).g
      ⟨false, false, false, .unset⟩ true none).toOption = some ⟨1, 60, 2⟩ := by
  constructor
  · simp [WHistOk]
  · decide

/-- **The switch rule for every sample history — `mono` discharged for clause "the choice changes
only when …" too.**  In any world reached by a history of samples ≥ 1 ns, reports, penalty changes
and policy switches (members only), under a min policy, one more report (`told`) or sample about a
member changes the choice of that domain's set from `b` to another node `b'` only if `b` is no
longer alive, or `b` has no measurement, or `b'` is measured, not worse, and better by the
tolerance (or `b` is below the tolerance), or — the interpretation — `b'` was never measured and
ranks 0 with `0 + tol ≤ b` or `b < tol`.  No free hypothesis beyond the domain of a sample. -/
theorem switch_only_when_all_sample_histories (n : Nat) (tol : Int) (offs : Nat → Int) (p : Policy)
    (fi : Int) (alive0 : Nat → Nat → Bool) (colls0 : Nat → Nat → Coll) (pens0 : Nat → Nat → Int)
    (h : List WEv) (hok : WHistOk n h) (e : WEv) (t d : Nat) (hd : d < n)
    (he : (∃ a, e = .told t d a) ∨ (∃ l, 1 ≤ l ∧ e = .sample t d l)) :
    let w := runW (worldNew n tol offs p fi alive0 colls0 pens0) h
    w.g.hasSets = true → w.g.policy.isMin = true →
    let s := w.g.sets t
    let s' := (stepW w e).g.sets t
    ∀ b b', s.minD = some b → s'.minD = some b' → b ≠ b' →
      (¬ ∃ x ∈ s'.entries, x.d = b) ∨ s'.lat b = none ∨
      (∃ eb ∈ s'.entries, ∃ eb' ∈ s'.entries, eb.d = b ∧ eb'.d = b' ∧ s'.lat b' ≠ none ∧
        eb'.sl ≤ eb.sl ∧ (eb'.sl + s.tol ≤ eb.sl ∨ eb.sl < s.tol)) ∨
      (∃ eb ∈ s'.entries, ∃ eb' ∈ s'.entries, eb.d = b ∧ eb'.d = b' ∧ s'.lat b' = none ∧
        eb'.sl = 0 ∧ 0 ≤ eb.sl ∧ (0 + s.tol ≤ eb.sl ∨ eb.sl < s.tol)) := by
  intro w hh hm s s' b b' hb hb' hne
  have hw : WInv n w := winv_run h _ (winv_new n tol offs p fi alive0 colls0 pens0) hok
  -- the world in which the sets are told (for a sample: with the sample appended), the told flag
  obtain ⟨w1, a, hw1, hg1, hstep, hs1⟩ : ∃ (w1 : World) (a : Bool), WInv n w1 ∧ w1.g = w.g ∧
      stepW w e = (toldStep w1 t d a).1 ∧
      (((w1.colls t d).snapshot w1.g.policy 0).isSome = true → w1.snap w1.g.policy t d ≠ none) := by
    rcases he with ⟨a, rfl⟩ | ⟨l, hl, rfl⟩
    · refine ⟨w, a, hw, rfl, rfl, ?_⟩
      intro hx
      unfold World.snap
      rw [← isSome_ne_none, snapshot_isSome_pen _ _ _ 0]; exact hx
    · let w1 : World := { w with colls := upd w.colls t (upd (w.colls t) d ((w.colls t d).append l)) }
      have hw1 : WInv n w1 := by
        refine ⟨hw.ginv, ?_, hw.hn⟩
        intro hh' t' d' hlat
        have := hw.link hh' t' d' hlat
        show ((w1.colls t' d').snapshot w.g.policy 0).isSome = true
        simp only [w1, upd]
        by_cases ht : t' = t
        · subst ht
          by_cases hdd : d' = d
          · subst hdd; simp only [if_true, upd]; exact snapshot_stays _ _ 0 0 l hl this
          · simp only [if_true, upd, hdd, if_false]; exact this
        · simp only [ht, if_false]; exact this
      refine ⟨w1, true, hw1, rfl, rfl, ?_⟩
      intro hx
      unfold World.snap
      rw [← isSome_ne_none, snapshot_isSome_pen _ _ _ 0]; exact hx
  have hh1 : w1.g.hasSets = true := by rw [hg1]; exact hh
  have hm1 : w1.g.policy.isMin = true := by rw [hg1]; exact hm
  have hb1 : (w1.g.sets t).minD = some b := by rw [hg1]; exact hb
  have hb1' : ((toldStep w1 t d a).1.g.sets t).minD = some b' := by rw [← hstep]; exact hb'
  have key := switch_world hw1 hh1 hm1 a hd hs1 hb1 hb1' hne
  have hs'eq : s' = (toldStep w1 t d a).1.g.sets t := by show (stepW w e).g.sets t = _; rw [hstep]
  have htol : (w1.g.sets t).tol = s.tol := by rw [hg1]
  rw [← hs'eq, htol] at key
  -- split the "better" disjunct by whether the new choice has a recorded latency
  have hs'inv : SInv s' := by
    rw [hs'eq, toldStep_sets w1 hh1 t d a]
    exact sinv_notify (hw1.ginv.sets hh1 t).1 (notifyOk_of_winv hw1 hh1 hd _ hs1)
  have hpol' : s'.policy.isMin = true := by
    rw [hs'eq, toldStep_sets w1 hh1 t d a, (notify_frame _ d a _).2.2.2.1, (hw1.ginv.sets hh1 t).2.1]; exact hm1
  rcases key with h1 | h2 | ⟨eb, heb, eb', heb', h3, h4, h5, h6⟩
  · exact Or.inl h1
  · exact Or.inr (Or.inl h2)
  · have hlc := hs'inv.latCons hpol' eb' heb'
    cases hl : s'.lat b' with
    | some r => exact Or.inr (Or.inr (Or.inl ⟨eb, heb, eb', heb', h3, h4, by simp, h5, h6⟩))
    | none =>
      have h0 : eb'.sl = 0 := by rw [hlc, h4]; simp [expSl, hl]
      rw [h0] at h5 h6
      exact Or.inr (Or.inr (Or.inr ⟨eb, heb, eb', heb', h3, h4, rfl, h0, h5, h6⟩))

/-! ### three readings of the statement, each with its witness (design_notes/C15.md, Interpretation) -/

-- (1) the min clause is per health domain and data-UDP is never measured: a = 300, b = 200, c = 20
-- measured on dns-udp4 (type 0) and tcp4 (type 2); a tcp4 request gets c, a data-udp4 request gets a
-- (first joined, unmeasured, "latency" one hour).
example :
    let w := runW (worldNew 3 0 (fun _ => 0) .minLast 0 (fun _ _ => true) (fun _ _ => Coll.empty) (fun _ _ => 0))
      [.sample 0 0 300, .sample 0 1 200, .sample 0 2 20, .sample 2 0 300, .sample 2 1 200, .sample 2 2 20]
    (select (fun _ _ _ => 0) w.g ⟨false, false, false, .unset⟩ true none).toOption = some ⟨2, 20, 2⟩ ∧
    (select (fun _ _ _ => 0) w.g ⟨true, false, false, .data⟩ true none).toOption = some ⟨0, hour, 4⟩ := by decide

-- (2) the backoff penalty is part of the measurement: A measured 10 with penalty 1000, B measured 500,
-- tolerance 0: B is the choice.
example :
    let w := runW (worldNew 2 0 (fun _ => 0) .minLast 0 (fun _ _ => true) (fun _ _ => Coll.empty) (fun _ _ => 0))
      [.pen 2 0 1000, .sample 2 0 10, .sample 2 1 500]
    (select (fun _ _ _ => 0) w.g ⟨false, false, false, .unset⟩ true none).toOption = some ⟨1, 500, 2⟩ := by decide

-- (3) "no alive node" = no alive node other than the excluded one: node 1 dead, node 0 alive but
-- excluded (both families) → the non-strict selection still reports nothing.
example :
    let w := runW (worldNew 2 0 (fun _ => 0) .minLast 0 (fun _ _ => true) (fun _ _ => Coll.empty) (fun _ _ => 0))
      [.told 2 1 false, .told 3 1 false]
    (select (fun _ _ _ => 0) w.g ⟨false, false, false, .unset⟩ false (some 0)).toOption = none ∧
    (w.g.sets 2).isAlive 0 = true := by decide

/-! ## F. reload hand-over

`ControlPlane.InheritDialerHealthFrom` = for each group: `CaptureReloadSelectionFallback`
(`captureFallback`), then `RestoreHealthSnapshot` on every matched member (world event `restore`:
the six collections and flags of the dialer are replaced, every set is told, in collection-slot
order), then `EnsureReloadSelectionFloor` (`floorW`: an existing, empty set gets the recorded
fallback — or `Dialers[0]` — marked alive, i.e. told alive *without* a new latency). -/

/-- **Every full-strength selection invariant survives a reload, unconditionally.** After any world
history — samples (any value), reports, penalty changes, policy switches and `restore`s of arbitrary
snapshots, members only — followed by `EnsureReloadSelectionFloor` with any member fallbacks: the
sets agree with the members' alive flags, a selection answers as `select_family_order` says, and
"no alive dialer" is reported exactly when no consulted domain has a selectable node. -/
theorem selection_invariants_survive_reload (n : Nat) (tol : Int) (offs : Nat → Int) (p : Policy)
    (fi : Int) (alive0 : Nat → Nat → Bool) (colls0 : Nat → Nat → Coll) (pens0 : Nat → Nat → Int)
    (h : List WEv) (hm : ∀ e ∈ h, WMem n e) (fb : Nat → Option Nat) (hfb : ∀ t d, fb t = some d → d < n) :
    let g := (floorW (runW (worldNew n tol offs p fi alive0 colls0 pens0) h) fb).1.g
    (g.hasSets = true → ∀ t, t < 6 → ∀ d, d < g.n → (g.sets t).isAlive d = g.alive t d) ∧
    (g.policy ≠ .fixed → ∀ (rnd : Nat → Nat → Nat → Nat) (t : NetType) (strict : Bool) (excl : Option Nat) (x : SelOk),
      select rnd g t strict excl = .ok x →
      (∃ ty ∈ chain t g.policy, Admitted g excl ty x) ∨
      (strict = false ∧ (∀ ty ∈ chain t g.policy, ∀ e ∈ (g.sets ty.index).entries, excl = some e.d) ∧
        ∃ ty ∈ chain t.flip g.policy, Admitted g excl ty x) ∨
      (strict = true ∧ g.n = 1 ∧ x = ⟨0, dialTimeout, (preferAlt g 0 t).index⟩ ∧
        ∀ ty ∈ chain t g.policy, ∀ e ∈ (g.sets ty.index).entries, excl = some e.d)) ∧
    (g.policy ≠ .fixed → ∀ (rnd : Nat → Nat → Nat → Nat) (t : NetType) (strict : Bool) (excl : Option Nat),
      (select rnd g t strict excl = .error .noAlive ↔
        g.n ≠ 0 ∧ ¬ (strict = true ∧ g.n = 1) ∧
        ∀ ty ∈ tried g t strict, ∀ e ∈ (g.sets ty.index).entries, excl = some e.d)) := by
  intro g
  have hw := wm_floor (wm_run h _ (wm_new n tol offs p fi alive0 colls0 pens0) hm) fb hfb
  have hbi := fun ty => (hw.gm.sets ty).1.bestIn
  exact ⟨hw.agree, fun hp rnd t strict excl x hs => select_ok_full hp hbi hs,
    fun hp rnd t strict excl => select_noAlive_iff hp hbi⟩

/-- the fallback `CaptureReloadSelectionFallback` records is a member (so `EnsureReloadSelectionFloor`
never marks a foreign dialer) -/
theorem captured_fallback_is_a_member (n : Nat) (tol : Int) (offs : Nat → Int) (p : Policy)
    (fi : Int) (alive0 : Nat → Nat → Bool) (colls0 : Nat → Nat → Coll) (pens0 : Nat → Nat → Int)
    (h : List WEv) (hm : ∀ e ∈ h, WMem n e) (rnd : Nat → Nat → Nat → Nat → Nat) (t d : Nat) :
    let w := runW (worldNew n tol offs p fi alive0 colls0 pens0) h
    w.g.policy ≠ .fixed → captureFallback rnd w.g t = some d → d < n := by
  intro w hp hc
  exact captureFallback_lt (wm_run h _ (wm_new n tol offs p fi alive0 colls0 pens0) hm) rnd hp t d hc

/-- **Which part of the tolerance invariant survives a reload.** The full invariant `GInv`
(tolerance bound, switch rule, "unbeaten" selections) holds after every world history in which
each `restore` satisfies `RestoreOk` *in the state where it happens*: wherever a set has recorded a
latency for the dialer (under the group's policy), the restored collection still has one — followed
by `EnsureReloadSelectionFloor`.  `RestoreOk` is automatic for a fresh generation
(`restore_onto_unrecorded_dialer_is_ok`: no set has recorded anything for the dialer yet — the
production order, where `RestoreHealthSnapshot` runs right after `NewDialerGroup`), and
`EnsureReloadSelectionFloor` never breaks it (alive without a latency is told only with the
dialer's *current* snapshot).  `_partial`: `RestoreOk`; without it see the witness below. -/
theorem tolerance_invariant_survives_reload_partial (n : Nat) (tol : Int) (offs : Nat → Int) (p : Policy)
    (fi : Int) (alive0 : Nat → Nat → Bool) (colls0 : Nat → Nat → Coll) (pens0 : Nat → Nat → Int)
    (h : List WEv) (hok : WOk n (worldNew n tol offs p fi alive0 colls0 pens0) h)
    (fb : Nat → Option Nat) (hfb : ∀ t d, fb t = some d → d < n) :
    GInv (floorW (runW (worldNew n tol offs p fi alive0 colls0 pens0) h) fb).1.g :=
  (winv_floor (winv_runOk h _ (winv_new n tol offs p fi alive0 colls0 pens0) hok) fb hfb).ginv

theorem restore_onto_unrecorded_dialer_is_ok (w : World) (d : Nat) (cs : Nat → Coll)
    (h : ∀ t, t < 6 → (w.g.sets t).lat d = none) : RestoreOk w d cs :=
  restoreOk_of_unrecorded w d cs h

-- witness that `RestoreOk` is needed: node 0 measured 100 (choice), node 1 measured 10 then dead;
-- node 1 is restored from an *emptier* snapshot (alive, no latencies): it rejoins with sorting latency
-- 0 while the set still holds its recorded latency 10 — a "measured" alive node that beats the
-- choice's 100 by more than the tolerance 30, and no switch happened.
example :
    let w := runW (worldNew 2 30 (fun _ => 0) .minLast 0 (fun _ _ => true) (fun _ _ => Coll.empty) (fun _ _ => 0))
      [.sample 2 0 100, .sample 2 1 10, .told 2 1 false, .sample 2 0 100,
       .restore 1 (fun _ => Coll.empty) (fun _ => true)]
    (w.g.sets 2).minD = some 0 ∧ (w.g.sets 2).minL = 100 ∧
    (w.g.sets 2).entries = [⟨0, 100⟩, ⟨1, 0⟩] ∧ (w.g.sets 2).lat 1 = some 10 := by decide

-- non-vacuity of the positive case: a fresh two-node generation inherits (node 0: tcp4 alive with
-- latencies 40, 50; node 1: everything dead), then the floor; hypotheses hold, node 0 is selected.
example :
    let w0 := worldNew 2 30 (fun _ => 0) .minLast 0 (fun _ _ => true) (fun _ _ => Coll.empty) (fun _ _ => 0)
    let h : List WEv := [.restore 0 (fun _ => ⟨[40, 50], 45⟩) (fun _ => true), .restore 1 (fun _ => Coll.empty) (fun _ => false)]
    WOk 2 w0 h ∧
    (select (fun _ _ _ => 0) (floorW (runW w0 h) (fun _ => some 0)).1.g ⟨false, false, false, .unset⟩ true none).toOption
      = some ⟨0, 50, 2⟩ := by
  refine ⟨⟨⟨by decide, restoreOk_of_unrecorded _ _ _ (by decide)⟩, ⟨by decide, restoreOk_of_unrecorded _ _ _ (by decide)⟩, trivial⟩, by decide⟩

/-- **`chooseProxyDialer`'s selection** (retry the other family, non-strict, on "no alive"): the
answer is an answer of one of the two `SelectWithExclusionResult` calls, so everything above
applies to it. -/
theorem chooseSelect_is_a_select (rnd : Nat → Nat → Nat → Nat → Nat) (g : Group) (t : NetType)
    (strict : Bool) (excl : Option Nat) :
    chooseSelect rnd g t strict excl = select (rnd 0) g t strict excl ∨
    (select (rnd 0) g t strict excl = .error .noAlive ∧
      chooseSelect rnd g t strict excl = select (rnd 1) g t.flip false excl) :=
  chooseSelect_cases rnd g t strict excl

/-- **Once measured, always measured** (what discharges *mono* on the dialer side): after a
successful probe with a positive latency (≥ 1 ns), a policy that had a latency for the dialer
still has one — for last / average-of-10 / moving-average alike. -/
theorem measurement_once_always_for_positive_samples (c : Coll) (p : Policy) (pen pen' l : Int)
    (hl : 1 ≤ l) (h : (c.snapshot p pen).isSome = true) : ((c.append l).snapshot p pen').isSome = true :=
  snapshot_stays c p pen pen' l hl h

example : ((Coll.empty.append 7).snapshot .minMovAvg 0) = some 3 := by decide

/-- **The driver's deterministic form covers every answer**: whatever the random source, the
answer of `select` is one of the answers listed by `selectAll` (which is what `c15drv` prints and
the real code's answers are compared with); errors coincide. -/
theorem select_mem_selectAll (rnd : Nat → Nat → Nat → Nat) (g : Group) (t : NetType) (strict : Bool)
    (excl : Option Nat) :
    match select rnd g t strict excl with
    | .ok x => ∃ l, selectAll g t strict excl = .ok l ∧ x ∈ l
    | .error e => selectAll g t strict excl = .error e :=
  select_mem_all rnd g t strict excl

/-- **… and lists nothing else**: every answer in `selectAll`'s list is the answer of `select` for
some random source.  Together with `select_mem_selectAll`: the list the driver prints is *exactly*
the set of possible answers, so comparing the real code's random answers as "member of the list"
hides nothing. -/
theorem selectAll_lists_only_possible_answers (g : Group) (t : NetType) (strict : Bool) (excl : Option Nat)
    (l : List SelOk) (hl : selectAll g t strict excl = .ok l) (x : SelOk) (hx : x ∈ l) :
    ∃ rnd, select rnd g t strict excl = .ok x :=
  selectAll_complete g t strict excl hl hx

/-! ## G. the concurrent parts (`Conc.lean`): all interleavings

The sequential model treats three things as atomic that the code does in several locked steps.
Each is a transition system of its own here, and the statements are about **every** schedule.

### G1. reports are taken and delivered separately

`AWorld` = the world + the `collectionUpdate`s taken (`mark`: `markUnavailableInternal` /
`markAvailableTraffic`, `obs`: `markAvailable`) and not yet handed to `informDialerGroupUpdate`
(`deliver`, in any order; since `fix:` 13e43e7 the set reads the dialer's flag and latency *at
delivery*) + the sets a policy switch `fixed → random/min*` is building (`pbegin`, `pbuild`×6, `pend`).
Sequential events (`sync e`: report + delivery in one go, policy switch in one go, penalty change,
`RestoreHealthSnapshot`) are the old `stepWcb`. -/

/-- **Full statement** (what the property needs of the concurrent report paths): after every
history of the asynchronous world that only names members — taken apart or not, in any order — each
set agrees with the dialer-side flag on every (domain, member) about which no update that captured
the group's current sets is still in flight.  **False of the code as it is**: see the witness after
`deliveries_agree_except_pending_partial` (open finding `c15-report-lost-in-set-build-window`). -/
def deliveries_agree_except_pending_full : Prop :=
  ∀ (n : Nat) (tol : Int) (offs : Nat → Int) (p : Policy) (fi : Int) (alive0 : Nat → Nat → Bool)
    (colls0 : Nat → Nat → Coll) (pens0 : Nat → Nat → Int) (h : List AEv), (∀ e ∈ h, AMem n e) →
    let aw := runA (AWorld.ofWorld (worldNew n tol offs p fi alive0 colls0 pens0)) h
    aw.w.g.hasSets = true → ∀ t, t < 6 → ∀ d, d < n →
      (∃ q ∈ aw.pend, q.t = t ∧ q.d = d ∧ q.gen = aw.gen) ∨ (aw.w.g.sets t).isAlive d = aw.w.g.alive t d

/-- **Deliveries in any order converge on the dialer's state** — proved for every history in which
no dialer flag is written *while a policy switch sits between building its sets and registering
them* (`AOk`; everything else is free: any number of updates in flight about the same pair,
deliveries overtaking each other, policy switches, penalty changes, restores and selections in
between, updates that outlive the sets they captured).  Then each set agrees with the flag on every
(domain, member) not explained by an update in flight; all the index / cached-best invariants hold
(`GMInv`), so every selection theorem of section D applies at every point of the schedule.
`_partial`: the `AOk` side condition, which the code does not enforce. -/
theorem deliveries_agree_except_pending_partial (n : Nat) (tol : Int) (offs : Nat → Int) (p : Policy)
    (fi : Int) (alive0 : Nat → Nat → Bool) (colls0 : Nat → Nat → Coll) (pens0 : Nat → Nat → Int)
    (h : List AEv) (hok : AOk n (AWorld.ofWorld (worldNew n tol offs p fi alive0 colls0 pens0)) h) :
    let aw := runA (AWorld.ofWorld (worldNew n tol offs p fi alive0 colls0 pens0)) h
    (aw.w.g.hasSets = true → ∀ t, t < 6 → ∀ d, d < n →
      (∃ q ∈ aw.pend, q.t = t ∧ q.d = d ∧ q.gen = aw.gen) ∨ (aw.w.g.sets t).isAlive d = aw.w.g.alive t d) ∧
    (disagreements aw).filter (fun x => !explained aw x.1 x.2) = [] ∧
    (aw.w.g.policy ≠ .fixed → ∀ (rnd : Nat → Nat → Nat → Nat) (t : NetType) (strict : Bool) (excl : Option Nat),
      (∀ x, select rnd aw.w.g t strict excl = .ok x →
        (∃ ty ∈ chain t aw.w.g.policy, Admitted aw.w.g excl ty x) ∨
        (strict = false ∧ (∀ ty ∈ chain t aw.w.g.policy, ∀ e ∈ (aw.w.g.sets ty.index).entries, excl = some e.d) ∧
          ∃ ty ∈ chain t.flip aw.w.g.policy, Admitted aw.w.g excl ty x) ∨
        (strict = true ∧ aw.w.g.n = 1 ∧ x = ⟨0, dialTimeout, (preferAlt aw.w.g 0 t).index⟩ ∧
          ∀ ty ∈ chain t aw.w.g.policy, ∀ e ∈ (aw.w.g.sets ty.index).entries, excl = some e.d)) ∧
      (select rnd aw.w.g t strict excl = .error .noAlive ↔
        aw.w.g.n ≠ 0 ∧ ¬ (strict = true ∧ aw.w.g.n = 1) ∧
        ∀ ty ∈ tried aw.w.g t strict, ∀ e ∈ (aw.w.g.sets ty.index).entries, excl = some e.d)) := by
  intro aw
  have hi : AInv n aw := ainv_run h _ (ainv_init (wm_new n tol offs p fi alive0 colls0 pens0)) hok
  have hbi := fun ty => (hi.gm.sets ty).1.bestIn
  refine ⟨fun hh t ht d hd => hi.agree hh t ht d (by rw [hi.hn]; exact hd), unexplained_nil hi, ?_⟩
  intro hp rnd t strict excl
  exact ⟨fun x hs => select_ok_full hp hbi hs, select_noAlive_iff hp hbi⟩

/-- **… with no side condition when policy switches are atomic** (`sync (.policy …)`, as every switch
that keeps or drops the sets is, and as the sequential model treats all of them): every history of
reports taken and delivered in any order, members only. -/
theorem deliveries_agree_with_atomic_policy_switches (n : Nat) (tol : Int) (offs : Nat → Int) (p : Policy)
    (fi : Int) (alive0 : Nat → Nat → Bool) (colls0 : Nat → Nat → Coll) (pens0 : Nat → Nat → Int)
    (h : List AEv) (hm : ∀ e ∈ h, AMem n e) (hat : ∀ e ∈ h, e.isSplit = false) :
    let aw := runA (AWorld.ofWorld (worldNew n tol offs p fi alive0 colls0 pens0)) h
    aw.w.g.hasSets = true → ∀ t, t < 6 → ∀ d, d < n →
      (∃ q ∈ aw.pend, q.t = t ∧ q.d = d ∧ q.gen = aw.gen) ∨ (aw.w.g.sets t).isAlive d = aw.w.g.alive t d :=
  (deliveries_agree_except_pending_partial n tol offs p fi alive0 colls0 pens0 h
    (aok_of_atomic h _ rfl hm hat)).1

/-- **Quiescence**: once every update has been delivered, the sets agree with the flags outright
(`group_sets_agree_with_flags` for the concurrent report paths). -/
theorem quiescent_sets_agree_with_flags (n : Nat) (tol : Int) (offs : Nat → Int) (p : Policy)
    (fi : Int) (alive0 : Nat → Nat → Bool) (colls0 : Nat → Nat → Coll) (pens0 : Nat → Nat → Int)
    (h : List AEv) (hok : AOk n (AWorld.ofWorld (worldNew n tol offs p fi alive0 colls0 pens0)) h) :
    let aw := runA (AWorld.ofWorld (worldNew n tol offs p fi alive0 colls0 pens0)) h
    aw.pend = [] → aw.w.g.hasSets = true → ∀ t, t < 6 → ∀ d, d < n →
      (aw.w.g.sets t).isAlive d = aw.w.g.alive t d := by
  intro aw hp hh t ht d hd
  rcases (deliveries_agree_except_pending_partial n tol offs p fi alive0 colls0 pens0 h hok).1 hh t ht d hd
    with ⟨q, hq, _⟩ | h2
  · rw [hp] at hq; cases hq
  · exact h2

-- non-vacuity: two updates about (tcp4, node 1) cross — "dead" is taken first, "alive, 40 ns" second, and
-- they are delivered in the opposite order; in between the set disagrees with the flag (explained by the
-- update in flight), at the end it agrees: node 1 alive with its sample.
example :
    let w0 := worldNew 2 0 (fun _ => 0) .minLast 0 (fun _ _ => true) (fun _ _ => Coll.empty) (fun _ _ => 0)
    let h : List AEv := [.mark 0 2 1 false, .obs 1 2 1 40, .deliver 1, .deliver 0]
    AOk 2 (AWorld.ofWorld w0) h ∧
    ((runA (AWorld.ofWorld w0) (h.take 1)).w.g.sets 2).isAlive 1 = true ∧
    (runA (AWorld.ofWorld w0) (h.take 1)).w.g.alive 2 1 = false ∧
    (runA (AWorld.ofWorld w0) h).pend = [] ∧
    ((runA (AWorld.ofWorld w0) h).w.g.sets 2).isAlive 1 = true ∧
    getMin ((runA (AWorld.ofWorld w0) h).w.g.sets 2) none = (some 1, 40) := by
  intro w0 h
  refine ⟨aok_of_atomic _ _ rfl ?_ ?_, by decide, by decide, by decide, by decide, by decide⟩
  · intro e he
    simp only [h, List.mem_cons, List.mem_nil_iff, or_false] at he
    rcases he with rfl | rfl | rfl | rfl <;> simp [AMem]
  · intro e he
    simp only [h, List.mem_cons, List.mem_nil_iff, or_false] at he
    rcases he with rfl | rfl | rfl | rfl <;> rfl

-- why `AOk` is needed — the open finding, in the model: a `fixed → min` switch builds the dns-udp4 set
-- (node 1 alive), then node 1 is reported dead for dns-udp4 while the remaining sets are built; the sets
-- are registered afterwards.  Nobody told the new set: it believes node 1 alive, the flag says dead, and
-- no update is in flight.  (Replayed on the real code in stream `c15race`.)
example :
    let w0 := worldNew 2 0 (fun _ => 0) .fixed 0 (fun _ _ => true) (fun _ _ => Coll.empty) (fun _ _ => 0)
    let h : List AEv := [.pbegin .minLast 0, .pbuild, .pbuild, .pbuild, .sync (.told 0 1 false),
      .pbuild, .pbuild, .pbuild, .pend]
    let aw := runA (AWorld.ofWorld w0) h
    aw.w.g.hasSets = true ∧ aw.pend = [] ∧ (aw.w.g.sets 0).isAlive 1 = true ∧ aw.w.g.alive 0 1 = false ∧
    disagreements aw = [(0, 1)] := by decide

/-! ### G2. the callback window of a notification

`notifyLatencyChange` does all its writes, then `mu.Unlock(); aliveChangeCallback(v); mu.Lock()`,
then only logs — since `fix:` 0a25f68 without reading the set.  `CState` = the set + the window a notification is parked in; steps: a notification
takes `notifyMu` and runs up to its window (`begin`; refused while another one is parked), the
callback returns and the rest of the call runs (`finish`), `SetSelectionPolicy` (`mu` only: also
inside a window), readers (`read`: selections, any time). -/

/-- **Every interleaving is a sequential history**: whatever the schedule of notifications, windows,
policy switches and readers, the set seen at any point is the set the sequential model reaches by the
notifications and policy switches that got their lock so far, in lock order.  Hence every statement
of sections A–C holds at every point of every interleaving; spelled out: no panic point reached, the
index map is the inverse of the entries array, the cached best is alive, and under a min policy it is
nil exactly when nobody is alive. -/
theorem interleavings_refine_sequential (n : Nat) (tol : Int) (offs : Nat → Int) (p : Policy)
    (tr : List CEv) (hm : ∀ e ∈ tr, CMem n e) :
    let c := runC (CState.init (ASet.init n tol offs p)) tr
    let hseq := seqOf (CState.init (ASet.init n tol offs p)) tr
    c.s = runSet (ASet.init n tol offs p) hseq ∧ HistMem n hseq ∧
    c.s.panicked = false ∧
    (∀ k e, c.s.entries[k]? = some e → e.d < n ∧ c.s.idx e.d = Slot.at k) ∧
    (∀ d k, d < n → c.s.idx d = Slot.at k → ∃ e, c.s.entries[k]? = some e ∧ e.d = d) ∧
    (∀ d, c.s.minD = some d → ∃ e ∈ c.s.entries, e.d = d) ∧
    (c.s.policy.isMin = true → (c.s.minD = none ↔ c.s.entries = [])) := by
  intro c hseq
  have h1 : c.s = runSet (ASet.init n tol offs p) hseq := runC_state_eq_seq tr _
  have h2 : HistMem n hseq := seqOf_histMem tr _ hm
  have hi := index_consistent n tol offs p hseq h2
  have hb := best_is_alive_and_nil_iff_nobody_alive n tol offs p hseq h2
  simp only at hi hb
  rw [← h1] at hi hb
  exact ⟨h1, h2, hi.1, hi.2.1, hi.2.2.1, hb.1, hb.2.1⟩

-- regression witness of `fix:` 0a25f68 (former finding c15-policy-switch-in-callback-window-nil-deref): node 0
-- dead, then revived without a latency (window open, callback value `true`), `SetSelectionPolicy(random)`
-- inside the window resets the cached best, the callback returns.  The rest of the call no longer reads
-- `minLatency.dialer` (nil here): the model has no crash state, and the schedule is replayed on the real
-- code in stream `c15race` on every run (a panic there is reported under that key).
example :
    let tr : List CEv := [.begin 0 false none, .begin 0 true none, .setPolicy .random (fun _ => none), .read, .finish]
    (runC (CState.init (ASet.init 1 0 (fun _ => 0) .minLast)) (tr.take 2)).win = some ⟨true⟩ ∧
    (runC (CState.init (ASet.init 1 0 (fun _ => 0) .minLast)) (tr.take 2)).s.minD = some 0 ∧
    (runC (CState.init (ASet.init 1 0 (fun _ => 0) .minLast)) tr).win = none ∧
    (runC (CState.init (ASet.init 1 0 (fun _ => 0) .minLast)) tr).s.minD = none ∧
    (runC (CState.init (ASet.init 1 0 (fun _ => 0) .minLast)) tr).s.isAlive 0 = true := by decide

end DaeVerif.C15.Props
