import DaeVerif.C15.Proofs
/-!
# C15 — property theorems

Statements a reader should audit (namespace `DaeVerif.C15.Props`); the definitions they mention
(`ASet`, `notify`, `setPolicy`, `runSet`, `getMin`, `getRand`, `Group`, `select`, `tried`, …) are
the executable model in `Model.lean` — the same definitions the driver `c15drv` runs against the
real code.  Hypothesis predicates (`HistMem`, `HistOk`/`NotifyOk`/`SetPolicyOk`, `GInv`) and the
lemmas are in `Proofs.lean`.

Reading guide.  `s.entries` = `aliveEntries` (what the set believes alive, with the cached sorting
latency `sl` = measurement + `add_latency` offset, `0` while unmeasured); `s.idx` =
`dialerToIndex`; `s.minD/s.minL` = the cached best; `s.lat` = `dialerToLatency`.
`beats tol sl L` = "`sl` is better than `L`, by at least `tol`".
-/
namespace DaeVerif.C15.Props
open DaeVerif.C15

/-! ## A. the internal index after every history -/

/-- **Index consistency, all histories.** After any sequence of notifications (alive or not, with
or without a latency, any values) and policy switches that only name members, none of the
`Panicf`/out-of-range points was reached, `dialerToIndex` is exactly the inverse of the
`aliveEntries` array, and no dialer occupies two slots.  No assumption on latencies, offsets or
tolerance. -/
theorem index_consistent (n : Nat) (tol : Int) (offs : Nat → Int) (p : Policy) (h : List SetEv)
    (hm : HistMem n h) :
    let s := runSet (ASet.init n tol offs p) h
    s.panicked = false ∧
    (∀ k e, s.entries[k]? = some e → e.d < n ∧ s.idx e.d = Slot.at k) ∧
    (∀ d k, d < n → s.idx d = Slot.at k → ∃ e, s.entries[k]? = some e ∧ e.d = d) ∧
    (∀ (j k : Nat) (e e' : Entry), s.entries[j]? = some e → s.entries[k]? = some e' → e.d = e'.d → j = k) := by
  intro s
  obtain ⟨hi, hn⟩ := idxInv_run h (ASet.init n tol offs p) (idxInv_init n tol offs p) hm
  have hn' : s.n = n := hn
  have hb : ∀ k e, s.entries[k]? = some e → e.d < n ∧ s.idx e.d = Slot.at k := by
    intro k e he
    have := hi.bwd k e.d (by rw [ds_getElem?]; show Option.map _ (s.entries[k]?) = _; rw [he]; rfl)
    exact ⟨hn' ▸ this.1, this.2⟩
  refine ⟨hi.noPanic, hb, ?_, ?_⟩
  · intro d k hd hk
    have := hi.fwd d k (by rw [hn']; exact hd) hk
    rw [ds_getElem?] at this
    change Option.map _ (s.entries[k]?) = _ at this
    cases hq : s.entries[k]? with
    | none => rw [hq] at this; cases this
    | some e => rw [hq] at this; exact ⟨e, rfl, by simpa using this⟩
  · intro j k e e' hj hk hd
    have h1 := (hb j e hj).2
    have h2 := (hb k e' hk).2
    rw [hd, h2] at h1
    cases h1; rfl

-- non-vacuity: a history with a swap-remove in the middle satisfies the hypothesis and ends non-trivially
example : HistMem 3 [.notify 0 true none, .notify 1 true (some 5), .notify 2 true none, .notify 0 false none] ∧
    (runSet (ASet.init 3 0 (fun _ => 0) .minLast)
      [.notify 0 true none, .notify 1 true (some 5), .notify 2 true none, .notify 0 false none]).entries
      = [⟨2, 0⟩, ⟨1, 5⟩] := by
  constructor
  · simp [HistMem]
  · decide

/-! ## B. the cached best, the tolerance rule (min policies) -/

/-- **The invariant behind B/C**, for all histories that respect `HistOk` (members only; a
dialer the set has a latency for keeps reporting one; sorting latency + tolerance below the
`time.Hour` sentinel) and any tolerance `≥ 0`:
* the cached best is a member of the alive list, and is `nil` exactly when the list is empty (min
  policies) / always `nil` (random);
* every alive entry's cached sorting latency is measurement + offset (0 while unmeasured);
* **tolerance bound**: no alive entry *with a measurement* beats the cached best latency by the
  tolerance or more;
* the cached best latency is the best's own sorting latency, except for the optimistic "first
  alive, never measured" choice, whose cached latency is still `time.Hour`. -/
theorem alive_set_invariant (n : Nat) (tol : Int) (offs : Nat → Int) (p : Policy) (h : List SetEv)
    (ht : 0 ≤ tol) (hok : HistOk (ASet.init n tol offs p) h) :
    let s := runSet (ASet.init n tol offs p) h
    (∀ d, s.minD = some d → ∃ e ∈ s.entries, e.d = d ∧ (e.sl = s.minL ∨ (s.minL = hour ∧ s.lat d = none))) ∧
    (s.policy.isMin = true → (s.minD = none ↔ s.entries = [])) ∧
    (s.policy.isMin = false → s.minD = none) ∧
    (s.policy.isMin = true → ∀ e ∈ s.entries, e.sl = expSl s e.d) ∧
    (s.policy.isMin = true → ∀ e ∈ s.entries, s.lat e.d ≠ none → ¬ beats s.tol e.sl s.minL) := by
  intro s
  have hs : SInv s := sinv_run h _ (sinv_init n tol offs p ht) hok
  refine ⟨hs.best, ?_, hs.nonMin, hs.latCons, hs.tolBound⟩
  intro hm
  constructor
  · exact hs.nilEmpty hm
  · intro he
    cases hD : s.minD with
    | none => rfl
    | some d =>
      obtain ⟨e, hmem, _⟩ := hs.best d hD
      rw [he] at hmem; cases hmem

-- non-vacuity: tolerance 30; node 1 measures 80 against the best's 100 — no switch (20 < 30) —
-- then 70 — switch.
example : HistOk (ASet.init 2 30 (fun _ => 0) .minLast)
      [.notify 0 true (some 100), .notify 1 true (some 80), .notify 1 true (some 70)] ∧
    (runSet (ASet.init 2 30 (fun _ => 0) .minLast) [.notify 0 true (some 100), .notify 1 true (some 80)]).minD = some 0 ∧
    (runSet (ASet.init 2 30 (fun _ => 0) .minLast)
      [.notify 0 true (some 100), .notify 1 true (some 80), .notify 1 true (some 70)]).minD = some 1 := by
  refine ⟨⟨⟨by decide, by intros; simp, by intro r h; cases h; decide⟩,
           ⟨by decide, by intros; simp, by intro r h; cases h; decide⟩,
           ⟨by decide, by intros; simp, by intro r h; cases h; decide⟩, trivial⟩, by decide, by decide⟩

/-- **What `GetMinLatency(nil)` hands out** (state form; `SInv s` holds after every history by
`alive_set_invariant`'s proof): an alive node; the latency returned with it is that node's sorting
latency (or `time.Hour` for the never-measured first choice); and no alive node with a measurement
beats that latency by the tolerance or more. -/
theorem min_policy_returns_unbeaten_alive {s : ASet} (hs : SInv s) (hm : s.policy.isMin = true)
    {d : Nat} {L : Int} (h : getMin s none = (some d, L)) :
    (∃ e ∈ s.entries, e.d = d ∧ (e.sl = L ∨ (L = hour ∧ s.lat d = none))) ∧
    (∀ e ∈ s.entries, s.lat e.d ≠ none → ¬ beats s.tol e.sl L) :=
  ⟨getMin_best_latency hs h hm, getMin_tolerance hs hm h⟩

/-- `GetMinLatency(excluded)`: never the excluded node, always an alive one; `nil` exactly when
every alive node is the excluded one. -/
theorem getMin_respects_exclusion {s : ASet} (hs : SInv s) (excl : Option Nat) :
    (∀ d L, getMin s excl = (some d, L) → (∃ e ∈ s.entries, e.d = d) ∧ excl ≠ some d) ∧
    ((getMin s excl).1 = none ↔ ∀ e ∈ s.entries, excl = some e.d) :=
  ⟨fun _ _ h => getMin_some hs h, getMin_none_iff hs excl⟩

/-- with the cached best excluded, the answer is a true minimum over the other alive nodes -/
theorem getMin_excluding_best_is_minimum {s : ASet} {b d : Nat} {L : Int} (hD : s.minD = some b)
    (h : getMin s (some b) = (some d, L)) :
    (⟨d, L⟩ : Entry) ∈ s.entries ∧ d ≠ b ∧ ∀ e ∈ s.entries, e.d ≠ b → L ≤ e.sl :=
  getMin_excluded_is_min hD h

/-! ## C. random -/

/-- **random returns only alive, non-excluded nodes — for every value of the random source** —
and returns `nil` only when there is none. -/
theorem random_returns_alive (rnd : Nat → Nat) (s : ASet) (excl : Option Nat) :
    (∀ d, getRand rnd s excl = some d → (∃ e ∈ s.entries, e.d = d) ∧ excl ≠ some d) ∧
    (getRand rnd s excl = none ↔ ∀ e ∈ s.entries, excl = some e.d) := by
  constructor
  · intro d h; exact (mem_randCands s excl d).mp (getRand_mem h)
  · rw [getRand_none_iff]
    constructor
    · intro h e he
      apply Classical.byContradiction
      intro hne
      have : e.d ∈ randCands s excl := (mem_randCands s excl e.d).mpr ⟨⟨e, he, rfl⟩, hne⟩
      rw [h] at this; cases this
    · intro h
      apply List.eq_nil_iff_forall_not_mem.mpr
      intro d hd
      obtain ⟨⟨e, he, hed⟩, hne⟩ := (mem_randCands s excl d).mp hd
      exact hne (by rw [← hed]; exact h e he)

example : getRand (fun _ => 7) ⟨3, 0, fun _ => 0, .random, fun _ => .init, fun _ => none,
    [⟨0, 0⟩, ⟨1, 0⟩, ⟨2, 0⟩], none, hour, false⟩ (some 1) = some 0 := by decide

/-! ## D. the group: `SelectWithExclusionResult` -/

/-- **fixed(i) always returns the i-th node** (whatever is alive, whatever is excluded). -/
theorem fixed_returns_ith (rnd : Nat → Nat → Nat → Nat) (g : Group) (t : NetType) (strict : Bool)
    (excl : Option Nat) (hp : g.policy = .fixed) (h0 : 0 ≤ g.fixedIdx) (h1 : g.fixedIdx < g.n) :
    ∃ sel, select rnd g t strict excl = .ok ⟨g.fixedIdx.toNat, 0, sel⟩ :=
  ⟨_, select_fixed rnd g t strict excl hp h0 h1⟩

/-- **Selection returns a node the group believes alive for one of the domains it may consult**
(`tried`: the requested type; for data UDP then DNS-UDP, then TCP, of the same family; and the same
chain for the other family when `strict = false`), **never the excluded node** — the only other
answer is the single-node last resort (strict call, one-node group, nothing selectable for the
requested chain), which hands out node 0 with latency `dialer.Timeout`.  Random and min policies,
every value of the random source. -/
theorem select_returns_alive_of_tried_type {rnd : Nat → Nat → Nat → Nat} {g : Group} {t : NetType}
    {strict : Bool} {excl : Option Nat} (hg : GInv g) (hp : g.policy ≠ .fixed) {x : SelOk}
    (h : select rnd g t strict excl = .ok x) :
    (∃ ty ∈ tried g t strict, (∃ e ∈ (g.sets ty.index).entries, e.d = x.d) ∧ excl ≠ some x.d) ∨
    (strict = true ∧ g.n = 1 ∧ x.d = 0 ∧ x.lat = dialTimeout ∧
      ∀ ty ∈ chain t g.policy, ∀ e ∈ (g.sets ty.index).entries, excl = some e.d) := by
  have hhs : g.hasSets = true := by rw [hg.hasSets]; cases hq : g.policy <;> simp_all [needsAlive]
  rcases select_ok hp (fun ty => (hg.sets hhs ty).1) h with ⟨ty, hty, h1, h2, _⟩ | h'
  · exact Or.inl ⟨ty, hty, h1, h2⟩
  · exact Or.inr h'

/-- **The excluded node is returned only under `fixed` or as the single-node last resort.** -/
theorem excluded_never_returned_unless_fixed_or_last_resort {rnd : Nat → Nat → Nat → Nat} {g : Group}
    {t : NetType} {strict : Bool} {d : Nat} (hg : GInv g) {x : SelOk}
    (h : select rnd g t strict (some d) = .ok x) (hx : x.d = d) :
    g.policy = .fixed ∨ (strict = true ∧ g.n = 1 ∧ x.lat = dialTimeout) := by
  by_cases hp : g.policy = .fixed
  · exact Or.inl hp
  · rcases select_returns_alive_of_tried_type hg hp h with ⟨_, _, _, hne⟩ | ⟨a, b, _, c, _⟩
    · exact absurd (by rw [hx]) hne
    · exact Or.inr ⟨a, b, c⟩

/-- **"no alive dialer" exactly when no consulted domain has a selectable node** (an alive node
other than the excluded one), the group is non-empty, and the last resort does not apply.  In
particular: whenever some consulted domain has such a node, a node is returned. -/
theorem no_alive_error_iff_all_tried_empty {rnd : Nat → Nat → Nat → Nat} {g : Group} {t : NetType}
    {strict : Bool} {excl : Option Nat} (hg : GInv g) (hp : g.policy ≠ .fixed) :
    select rnd g t strict excl = .error .noAlive ↔
      g.n ≠ 0 ∧ ¬ (strict = true ∧ g.n = 1) ∧
      ∀ ty ∈ tried g t strict, ∀ e ∈ (g.sets ty.index).entries, excl = some e.d := by
  have hhs : g.hasSets = true := by rw [hg.hasSets]; cases hq : g.policy <;> simp_all [needsAlive]
  exact select_noAlive_iff hp (fun ty => (hg.sets hhs ty).1)

/-- **min policies at group level**: the node returned without exclusion is the cached best of
the admitting domain, and no alive measured node of that domain beats the returned latency by the
tolerance or more. -/
theorem select_min_is_unbeaten {rnd : Nat → Nat → Nat → Nat} {g : Group} {t : NetType}
    {strict : Bool} (hg : GInv g) (hm : g.policy.isMin = true) {x : SelOk}
    (h : select rnd g t strict none = .ok x) (hnl : x.lat ≠ dialTimeout) :
    ∃ ty ∈ tried g t strict, getMin (g.sets ty.index) none = (some x.d, x.lat) ∧
      ∀ e ∈ (g.sets ty.index).entries, (g.sets ty.index).lat e.d ≠ none →
        ¬ beats (g.sets ty.index).tol e.sl x.lat := by
  have hp : g.policy ≠ .fixed := by intro h; rw [h] at hm; cases hm
  have hhs : g.hasSets = true := by rw [hg.hasSets]; cases hq : g.policy <;> simp_all [needsAlive]
  rcases select_ok hp (fun ty => (hg.sets hhs ty).1) h with ⟨ty, hty, _, _, h3⟩ | ⟨_, _, _, hl, _⟩
  · have hgm := h3 hm
    have hpol : (g.sets ty.index).policy.isMin = true := by rw [(hg.sets hhs ty.index).2]; exact hm
    exact ⟨ty, hty, hgm, getMin_tolerance (hg.sets hhs ty.index).1 hpol hgm⟩
  · exact absurd hl hnl

/-- **The driver's deterministic form covers every answer**: whatever the random source, the
answer of `select` is one of the answers listed by `selectAll` (which is what `c15drv` prints and
the real code's answers are compared with); errors coincide. -/
theorem select_mem_selectAll (rnd : Nat → Nat → Nat → Nat) (g : Group) (t : NetType) (strict : Bool)
    (excl : Option Nat) :
    match select rnd g t strict excl with
    | .ok x => ∃ l, selectAll g t strict excl = .ok l ∧ x ∈ l
    | .error e => selectAll g t strict excl = .error e :=
  select_mem_all rnd g t strict excl

end DaeVerif.C15.Props
