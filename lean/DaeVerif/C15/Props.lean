import DaeVerif.C15.Proofs
namespace DaeVerif.C15.Props
open DaeVerif.C15

theorem placeholder_gate_refl (tol x : Int) (h : 0 ≤ tol) (hx : x < tol) : gate tol x x = true := by
  simp [gate, hx]

end DaeVerif.C15.Props
