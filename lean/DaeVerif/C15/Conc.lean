import DaeVerif.C15.Model
/-!
# C15 — the concurrent parts: executable model (core-only)

Three places where the sequential model of `Model.lean` treats as one atomic step what the code does
in several, each a transition system of its own here (what a step of the real code is, is decided by
its locks):

* **A. reports are taken and delivered separately** (`connectivity_check.go`): `markAvailable` /
  `markUnavailableInternal` / `markAvailableTraffic` write the dialer's flag (and latency collection)
  under the dialer's lock and *return* a `collectionUpdate` holding the sets registered at that
  moment; `informDialerGroupUpdate(update)` runs later, after the lock is released, and — since
  `fix:` 13e43e7 — each set reads the dialer's flag and latency snapshot *at delivery*
  (`NotifyAliveState`), under the set's `notifyMu`.  Probe pool and data path run these concurrently:
  deliveries can overtake each other.  `AWorld` = world + the updates taken and not yet delivered.
* **B. a policy switch that has to build the sets** (`DialerGroup.SetSelectionPolicy`, `fixed` →
  `random`/`min*`; also `NewDialerGroup`): `buildSelectionState` builds the six sets one after the
  other from the members' flags, *then* `registerAliveDialerSets` makes the dialers tell them.
* **C. the callback window of a notification** (`alive_dialer_set.go`): `notifyLatencyChange` does
  all its writes, then `mu.Unlock(); aliveChangeCallback(v); mu.Lock()`, then only logs (since `fix:`
  0a25f68 without reading the set).  Inside the
  window readers (selections) and `SetSelectionPolicy` (needs `mu` only) run; other notifications of
  the same set wait on `notifyMu`.
-/
namespace DaeVerif.C15

/-! ## A + B. updates in flight, sets under construction -/

/-- a `collectionUpdate` taken and not yet handed to `informDialerGroupUpdate` -/
structure Pend where
  id : Nat          -- name given by the harness
  t : Nat           -- health domain (type index)
  d : Nat           -- dialer
  gen : Nat         -- which generation of the group's sets `update.aliveDialerGroups` captured
deriving DecidableEq, Repr

/-- `buildSelectionState` in progress: the sets built so far (`upto` of six) -/
structure Staged where
  p : Policy
  fixedIdx : Int
  upto : Nat
  sets : Nat → ASet

structure AWorld where
  w : World
  gen : Nat                  -- bumped whenever a fresh family of six sets is installed
  pend : List Pend
  staged : Option Staged

def AWorld.ofWorld (w : World) : AWorld := ⟨w, 0, [], none⟩

inductive AEv where
  /-- an event of the sequential model: taken and delivered in one go (`stepWcb`) -/
  | sync (e : WEv)
  /-- `markUnavailableInternal` / `markAvailableTraffic`: the flag becomes `a`; update `id` is in flight -/
  | mark (id t d : Nat) (a : Bool)
  /-- `markAvailable(l)`: sample stored, flag raised; update `id` is in flight -/
  | obs (id t d : Nat) (l : Int)
  /-- `informDialerGroupUpdate(update id)`: the captured sets read the dialer's state *now* -/
  | deliver (id : Nat)
  /-- `DialerGroup.SetSelectionPolicy` enters; when it has to build sets it does so step by step -/
  | pbegin (p : Policy) (fixedIdx : Int)
  /-- `buildSelectionState` builds the next set from the members' current flags -/
  | pbuild
  /-- `registerAliveDialerSets` + `selectionState.Store` -/
  | pend

/-- the dialer-side flag alone (no set is told) -/
def setFlag (w : World) (t d : Nat) (a : Bool) : World :=
  { w with g := { w.g with alive := upd w.g.alive t (upd (w.g.alive t) d a) } }

/-- one set of `buildSelectionState(policy, true)`: `NewAliveDialerSet(…, setAlive=false)`, then told
every member's current flag -/
def buildOne (g : Group) (p : Policy) (snap : Nat → Option Int) (t : Nat) : ASet × List Bool :=
  let r0 := ASet.new g.n g.tol g.offs p false snap
  let r1 := notifyAll r0.1 (List.range g.n) (g.alive t) snap
  (r1.1, r0.2 ++ r1.2)

/-- delivery of an update: only the sets the update captured are told — they are still the group's
sets exactly when no fresh family was installed since (`gen`) and the group still has sets -/
def deliverP (aw : AWorld) (p : Pend) : World × List GCb :=
  if aw.w.g.hasSets && p.gen == aw.gen then toldStep aw.w p.t p.d (aw.w.g.alive p.t p.d)
  else (aw.w, [])

def stepAcb (aw : AWorld) : AEv → AWorld × List GCb
  | .sync e =>
    match e, aw.staged with
    | .policy _ _, some _ => (aw, [])      -- `selectionStateMu` is held by the switch in progress
    | _, _ =>
      let r := stepWcb aw.w e
      ({ aw with w := r.1, gen := if !aw.w.g.hasSets && r.1.g.hasSets then aw.gen + 1 else aw.gen }, r.2)
  | .mark id t d a =>
    ({ aw with w := setFlag aw.w t d a, pend := aw.pend ++ [⟨id, t, d, aw.gen⟩] }, [])
  | .obs id t d l =>
    let w1 := { aw.w with colls := upd aw.w.colls t (upd (aw.w.colls t) d ((aw.w.colls t d).append l)) }
    ({ aw with w := setFlag w1 t d true, pend := aw.pend ++ [⟨id, t, d, aw.gen⟩] }, [])
  | .deliver id =>
    match aw.pend.find? (fun p => p.id == id) with
    | none => (aw, [])
    | some p =>
      let r := deliverP aw p
      ({ aw with w := r.1, pend := aw.pend.erase p }, r.2)
  | .pbegin p fi =>
    match aw.staged with
    | some _ => (aw, [])
    | none =>
      if !needsAlive aw.w.g.policy && needsAlive p then
        ({ aw with staged := some ⟨p, fi, 0, fun _ => ASet.init aw.w.g.n aw.w.g.tol aw.w.g.offs p⟩ }, [])
      else
        let r := stepWcb aw.w (.policy p fi)
        ({ aw with w := r.1 }, r.2)
  | .pbuild =>
    match aw.staged with
    | some st =>
      if st.upto < 6 then
        let r := buildOne aw.w.g st.p (fun d => aw.w.snap st.p st.upto d) st.upto
        ({ aw with staged := some { st with upto := st.upto + 1, sets := upd st.sets st.upto r.1 } },
         r.2.map (fun b => ⟨b, st.upto, false⟩))
      else (aw, [])
    | none => (aw, [])
  | .pend =>
    match aw.staged with
    | some st =>
      if st.upto = 6 then
        ({ aw with w := { aw.w with g := { aw.w.g with policy := st.p, fixedIdx := st.fixedIdx,
                                                       hasSets := true, sets := st.sets } },
                   gen := aw.gen + 1, staged := none }, [])
      else (aw, [])
    | none => (aw, [])

def stepA (aw : AWorld) (e : AEv) : AWorld := (stepAcb aw e).1

def runA (aw : AWorld) (h : List AEv) : AWorld := h.foldl stepA aw

/-- the (domain, member) pairs whose set membership differs from the dialer-side flag -/
def disagreements (aw : AWorld) : List (Nat × Nat) :=
  if aw.w.g.hasSets then
    (List.range 6).flatMap fun t =>
      (List.range aw.w.g.n).filterMap fun d =>
        if (aw.w.g.sets t).isAlive d != aw.w.g.alive t d then some (t, d) else none
  else []

/-- an update about `(t, d)` that captured the group's current sets is still in flight -/
def explained (aw : AWorld) (t d : Nat) : Bool :=
  aw.pend.any fun p => p.t == t && p.d == d && p.gen == aw.gen

/-! ## C. the callback window of one set -/

/-- the window a notification is parked in -/
structure Win where
  cb : Bool          -- the value handed to `aliveChangeCallback`
deriving DecidableEq, Repr

/-- Since `fix:` 0a25f68 the rest of the call after the window reads nothing of the set any more (the
"Group selects dialer" line names the dialer of the notification, not `a.minLatency.dialer`, which a
policy switch inside the window may have reset to nil): the state is the set and the open window. -/
structure CState where
  s : ASet
  win : Option Win

inductive CEv where
  /-- a notification takes `notifyMu` and runs up to its window (to its end when no callback fires) -/
  | begin (d : Nat) (alive : Bool) (snap : Option Int)
  /-- the callback returns, the rest of the call (logging) runs, `notifyMu` is released -/
  | finish
  /-- `SetSelectionPolicy`: takes `mu` only, so it also runs inside a window -/
  | setPolicy (p : Policy) (snapAll : Nat → Option Int)
  /-- `GetMinLatency` / `GetRandExcluded` / `Len` / `SortingLatency` (read lock): any time -/
  | read

def stepC (c : CState) : CEv → CState
  | .begin d alive snap =>
    match c.win with
    | some _ => c                            -- waits on `notifyMu`: not a step of the system
    | none =>
      let r := notify c.s d alive snap
      { c with s := r.1,
               win := r.2.head?.map (fun v => ⟨v⟩) }
  | .finish =>
    match c.win with
    | some _ => { c with win := none }
    | none => c
  | .setPolicy p sa => { c with s := setPolicy c.s p sa }
  | .read => c

def runC (c : CState) (tr : List CEv) : CState := tr.foldl stepC c

def CState.init (s : ASet) : CState := ⟨s, none⟩

/-- the sequential history a concurrent trace amounts to: every notification that got `notifyMu`
and every policy switch, in the order of their locked segments (a `begin` issued while another
notification is parked in its window is not a step: it waits) -/
def seqOf : CState → List CEv → List SetEv
  | _, [] => []
  | c, e :: tr =>
    (match e, c.win with
      | .begin d a sn, none => [SetEv.notify d a sn]
      | .setPolicy p sa, _ => [SetEv.setPolicy p sa]
      | _, _ => []) ++ seqOf (stepC c e) tr

end DaeVerif.C15
