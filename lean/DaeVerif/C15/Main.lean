import DaeVerif.C15.Conc
import DaeVerif.Common.Proto
/-! Line-protocol driver for C15 (op grammar: see harness/overlay/component/outbound/c15_test.go). -/
open DaeVerif DaeVerif.C15 DaeVerif.Proto

/-- driver state: before `group` only the dialers exist (their collections, flags, penalties);
afterwards everything lives in the model's `AWorld` (world + updates in flight + sets under
construction) and every event is a `stepAcb` (a sequential event `e` is `.sync e` = `stepWcb`). -/
structure DState where
  n : Nat
  w : Option AWorld
  colls : Nat → Nat → Coll      -- [type][dialer], before the group exists
  alive : Nat → Nat → Bool
  pens : Nat → Nat → Int

def DState.empty (n : Nat) : DState :=
  ⟨n, none, fun _ _ => Coll.empty, fun _ _ => true, fun _ _ => 0⟩

def parseInt? (s : String) : Option Int := s.toInt?

def parsePolicy? : String → Option Policy
  | "random" => some .random
  | "fixed" => some .fixed
  | "min" => some .minLast
  | "min_avg10" => some .minAvg10
  | "min_moving_avg" => some .minMovAvg
  | _ => none

def policyStr : Policy → String
  | .random => "random" | .fixed => "fixed" | .minLast => "min"
  | .minAvg10 => "min_avg10" | .minMovAvg => "min_moving_avg"

def parseExcl? (s : String) : Option (Option Nat) :=
  if s = "-" then some none else s.toNat?.map some

def optNatStr : Option Nat → String
  | none => "nil"
  | some d => toString d

def cbStr (c : GCb) : String :=
  toString c.typ ++ (if c.alive then "+" else "-") ++ (if c.isInit then "i" else "")

def cbsStr (cs : List GCb) : String := "cb=[" ++ ",".intercalate (cs.map cbStr) ++ "]"

def sortNat (l : List Nat) : List Nat := (l.toArray.qsort (· < ·)).toList

/-- `dialer.Timeout` prints as `T` (the harness prints `T` for whatever the constant is in the code) -/
def latStr (l : Int) : String := if l = dialTimeout then "T" else toString l

/-- the latency handed out next to "nobody" is a placeholder: not printed -/
def minStr (r : Option Nat × Int) : String :=
  match r.1 with
  | none => "nil"
  | some d => toString d ++ ":" ++ toString r.2

/-- observable dump of one set -/
def setDump (s : ASet) : String :=
  let ds := List.range s.n
  let alive := sortNat (s.entries.map (·.d))
  "len=" ++ toString s.entries.length ++
  " alive=" ++ ",".intercalate (alive.map toString) ++
  " best=" ++ minStr (getMin s none) ++
  " ex=" ++ ",".intercalate (ds.map fun d => minStr (getMin s (some d))) ++
  " sl=" ++ ",".intercalate (ds.map fun d => if s.isAlive d then toString (sortingLatency s d) else "-") ++
  " lt=" ++ ",".intercalate (ds.map fun d => match s.lat d with | some v => toString v | none => "-") ++
  " pol=" ++ policyStr s.policy ++
  " inv=" ++ boolStr s.idxOk ++ boolStr s.bestAliveOk ++ boolStr s.nilIffEmptyOk ++
  (if s.panicked then " PANIC" else "")

def groupDump (g : Group) : String :=
  if g.hasSets then " | ".intercalate ((List.range 6).map fun t => setDump (g.sets t))
  else "nosets"

def parseOffs (s : String) : Option (List Int) :=
  if s = "-" then some [] else (s.splitOn ",").mapM parseInt?

/-- `starSel`: the reported admitting domain is outside the statement for `fixed` and for the
single-node last resort (latency `T`): printed as `*` -/
def resStrS (starSel : Bool) : Except SelErr (List SelOk) → String
  | .ok l => "ok " ++ ",".intercalate (l.map fun r =>
      s!"{r.d}:{latStr r.lat}:{if starSel || r.lat = dialTimeout then "*" else toString r.sel}")
  | .error .noAlive => "err=noalive"
  | .error _ => "err=other"

def resStr : Except SelErr (List SelOk) → String
  | .ok l => "ok " ++ ",".intercalate (l.map fun r => s!"{r.d}:{r.lat}:{r.sel}")
  | .error .noAlive => "err=noalive"
  | .error _ => "err=other"

/-- `choose`: node, admitting domain, and the family actually dialled
(`endpointNetworkTypeForSelection`: the admitting domain's family) -/
def resStrNoLat : Except SelErr (List SelOk) → String
  | .ok l => "ok " ++ ",".intercalate (l.map fun r => s!"{r.d}:{r.sel}:{if r.sel % 2 = 1 then 6 else 4}")
  | e => resStr e

def parseNetType? (l4 ip dns dom : String) : Option NetType := do
  let udp ← (if l4 = "u" then some true else if l4 = "t" then some false else none)
  let ip6 ← (if ip = "6" then some true else if ip = "4" then some false else none)
  let isDns ← (if dns = "1" then some true else if dns = "0" then some false else none)
  let d ← (match dom with | "0" => some UdpDom.unset | "1" => some UdpDom.dns | "2" => some UdpDom.data | _ => none)
  pure ⟨udp, ip6, isDns, d⟩

/-- apply a world event and print callbacks + the dump of domain `t` (or all domains) -/
def worldEvA (st : DState) (w : AWorld) (e : AEv) (dumpT : Option Nat) : DState × String :=
  let r := stepAcb w e
  let g := r.1.w.g
  let dump := match dumpT with
    | some t => if g.hasSets then setDump (g.sets t) else "nosets"
    | none => groupDump g
  ({ st with w := some r.1 }, cbsStr r.2 ++ " " ++ dump)

def worldEv (st : DState) (w : AWorld) (e : WEv) (dumpT : Option Nat) : DState × String :=
  worldEvA st w (.sync e) dumpT

def handle (st : DState) (line : String) : DState × String :=
  match words line with
  | ["world", n] =>
    match n.toNat? with
    | some n => (DState.empty n, "ok")
    | none => (st, "bad-op")
  | ["group", tol, pol, fi, offs] =>
    match parseInt? tol, parsePolicy? pol, parseInt? fi, parseOffs offs with
    | some tol, some p, some fi, some offs =>
      let snap := fun t d => (st.colls t d).snapshot p (st.pens t d)
      let cbs := (gNew st.n tol (fun d => offs.getD d 0) p fi st.alive snap).2
      let w := worldNew st.n tol (fun d => offs.getD d 0) p fi st.alive st.colls st.pens
      ({ st with w := some (AWorld.ofWorld w) }, cbsStr cbs ++ " " ++ groupDump w.g)
    | _, _, _, _ => (st, "bad-op")
  | ["sample", t, d, l] =>
    match t.toNat?, d.toNat?, parseInt? l with
    | some t, some d, some l =>
      match st.w with
      | some w => worldEv st w (.sample t d l) (some t)
      | none =>
        ({ st with colls := upd st.colls t (upd (st.colls t) d ((st.colls t d).append l)),
                   alive := upd st.alive t (upd (st.alive t) d true) }, "nogroup")
    | _, _, _ => (st, "bad-op")
  | ["told", t, d, a] =>
    match t.toNat?, d.toNat? with
    | some t, some d =>
      match st.w with
      | some w => worldEv st w (.told t d (a = "1")) (some t)
      | none => ({ st with alive := upd st.alive t (upd (st.alive t) d (a = "1")) }, "nogroup")
    | _, _ => (st, "bad-op")
  | ["pen", t, d, v] =>
    match t.toNat?, d.toNat?, parseInt? v with
    | some t, some d, some v =>
      match st.w with
      | some w => ({ st with w := some (stepA w (.sync (.pen t d v))) }, "ok")
      | none => ({ st with pens := upd st.pens t (upd (st.pens t) d v) }, "ok")
    | _, _, _ => (st, "bad-op")
  | ["same", t] =>
    match st.w, t.toNat? with
    | some w, some t => (st, cbsStr [] ++ " " ++ (if w.w.g.hasSets then setDump (w.w.g.sets t) else "nosets"))
    | none, some _ => (st, "nogroup")
    | _, _ => (st, "bad-op")
  | ["restore", d, snap] =>
    -- snap = six groups `alive;movAvg;l1,l2,...` separated by `|`, in type order
    let parseColl (g : String) : Option (Bool × Coll) :=
      match g.splitOn ";" with
      | [a, ma, ls] => do
        let ma ← parseInt? ma
        let lats ← if ls = "" then some [] else (ls.splitOn ",").mapM parseInt?
        pure (a = "1", ⟨lats, ma⟩)
      | _ => none
    match st.w, d.toNat?, (snap.splitOn "|").mapM parseColl with
    | some w, some d, some cs =>
      if cs.length = 6 then
        worldEv st w (.restore d (fun t => (cs.getD t (false, Coll.empty)).2) (fun t => (cs.getD t (false, Coll.empty)).1)) none
      else (st, "bad-op")
    | _, _, _ => (st, "bad-op")
  | ["capture"] =>
    match st.w with
    | some w =>
      (st, "fb=" ++ ",".intercalate ((List.range 6).map fun t =>
        let c := sortNat (captureFallbackAll w.w.g t).eraseDups
        if c.isEmpty then "-" else "/".intercalate (c.map toString)))
    | none => (st, "bad-op")
  | ["floor", fbs] =>
    match st.w, ((fbs.splitOn ",").mapM fun x => if x = "-" then some (none : Option Nat) else x.toNat?.map some) with
    | some w, some fb =>
      let r := floorW w.w (fun t => (fb.getD t none))
      ({ st with w := some { w with w := r.1 } }, cbsStr r.2 ++ " " ++ groupDump r.1.g)
    | _, _ => (st, "bad-op")
  | ["dial", mode, out, dom, rr, l4, s6, d6, excl, b0] =>
    -- the real routeDial: mode i|p|c, outbound u|r|x, domain n|d|l, routed-outbound-reserved 0|1,
    -- l4 u|t, src/dst family 4|6, exclusion, dial outcome of the first attempt o|u|e
    let mode? : Option DialMode := match mode with | "i" => some .ip | "p" => some .domainPlus | "c" => some .domainCao | _ => none
    let out? : Option OutKind := match out with | "u" => some .user | "r" => some .reserved | "x" => some .routing | _ => none
    let dom? : Option DomKind := match dom with | "n" => some .none | "d" => some .name | "l" => some .ipLiteral | _ => none
    let b0? : Option DialOutcome := match b0 with | "o" => some .ok | "u" => some .unreachable | "e" => some .otherErr | _ => none
    match st.w, mode?, out?, dom?, b0?, parseExcl? excl with
    | some w, some m, some o, some dm, some b, some ex =>
      let strict := dialStrict m o dm (rr = "1")
      let nt := dialSelType (l4 = "u") (s6 = "6") (d6 = "6")
      let r := routeDialAll w.w nt strict ex b
      let isOk : Except SelErr (List SelOk) → Bool := fun a => match a with | .ok _ => true | .error _ => false
      let dials := (r.2.2.filter isOk).length
      let last := match r.2.2.getLast? with | some a => resStrNoLat a | none => "?"
      ({ st with w := some { w with w := r.1 } }, "strict=" ++ boolStr strict ++ " dials=" ++ toString dials ++ " last=" ++ last ++
        " " ++ cbsStr r.2.1 ++ " " ++ groupDump r.1.g)
    | _, _, _, _, _, _ => (st, "bad-op")
  | ["mark", id, t, d, a] =>
    match st.w, id.toNat?, t.toNat?, d.toNat? with
    | some w, some id, some t, some d => worldEvA st w (.mark id t d (a = "1")) (some t)
    | _, _, _, _ => (st, "bad-op")
  | ["obs", id, t, d, l] =>
    match st.w, id.toNat?, t.toNat?, d.toNat?, parseInt? l with
    | some w, some id, some t, some d, some l => worldEvA st w (.obs id t d l) (some t)
    | _, _, _, _, _ => (st, "bad-op")
  | ["deliver", id] =>
    match st.w, id.toNat? with
    | some w, some id =>
      match w.pend.find? (fun p => p.id == id) with
      | some p => worldEvA st w (.deliver id) (some p.t)
      | none => (st, "nopend")
    | _, _ => (st, "bad-op")
  | ["agree"] =>
    match st.w with
    | some w =>
      let ds := disagreements w
      let f := fun (l : List (Nat × Nat)) => ",".intercalate (l.map fun x => s!"{x.1}:{x.2}")
      (st, "dis=" ++ f ds ++ " unexp=" ++ f (ds.filter fun x => !explained w x.1 x.2))
    | none => (st, "bad-op")
  | ["pbegin", pol, fi] =>
    match st.w, parsePolicy? pol, parseInt? fi with
    | some w, some p, some fi => worldEvA st w (.pbegin p fi) none
    | _, _, _ => (st, "bad-op")
  | ["pbuild"] =>
    match st.w with
    | some w => let r := stepAcb w .pbuild; ({ st with w := some r.1 }, cbsStr r.2 ++ " ok")
    | none => (st, "bad-op")
  | ["pend"] =>
    match st.w with
    | some w => worldEvA st w .pend none
    | none => (st, "bad-op")
  | ["policy", pol, fi] =>
    match st.w, parsePolicy? pol, parseInt? fi with
    | some w, some p, some fi => worldEv st w (.policy p fi) none
    | _, _, _ => (st, "bad-op")
  | [op, l4, ip, dns, dom, strict, excl] =>
    match st.w.map (·.w.g), parseNetType? l4 ip dns dom, parseExcl? excl with
    | some g, some nt, some ex =>
      if op = "sel" then (st, resStrS (g.policy == .fixed) (selectAll g nt (strict = "1") ex))
      else if op = "choose" then (st, resStrNoLat (chooseSelectAll g nt (strict = "1") ex))
      else (st, "bad-op")
    | _, _, _ => (st, "bad-op")
  | ["rand", t, excl] =>
    match st.w.map (·.w.g), t.toNat?, parseExcl? excl with
    | some g, some t, some ex =>
      (st, "cands=" ++ ",".intercalate ((sortNat (randCands (g.sets t) ex)).map toString))
    | _, _, _ => (st, "bad-op")
  | _ => (st, "bad-op")

def main : IO Unit := lineLoopS (DState.empty 0) handle
