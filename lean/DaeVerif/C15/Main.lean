import DaeVerif.C15.Model
import DaeVerif.Common.Proto
/-! Line-protocol driver for C15 (op grammar: see harness/overlay/component/outbound/c15_test.go). -/
open DaeVerif DaeVerif.C15 DaeVerif.Proto

structure World where
  n : Nat
  g : Option Group
  colls : Nat → Nat → Coll      -- [type][dialer]
  alive : Nat → Nat → Bool
  pens : Nat → Nat → Int

def World.empty (n : Nat) : World :=
  ⟨n, none, fun _ _ => Coll.empty, fun _ _ => true, fun _ _ => 0⟩

def parseInt? (s : String) : Option Int := s.toInt?

def parsePolicy? : String → Option Policy
  | "random" => some .random
  | "fixed" => some .fixed
  | "min" => some .minLast
  | "min_avg10" => some .minAvg10
  | "min_moving_avg" => some .minMovAvg
  | _ => none

def policyStr : Policy → String
  | .random => "random" | .fixed => "fixed" | .minLast => "min"
  | .minAvg10 => "min_avg10" | .minMovAvg => "min_moving_avg"

def parseExcl? (s : String) : Option (Option Nat) :=
  if s = "-" then some none else s.toNat?.map some

def optNatStr : Option Nat → String
  | none => "nil"
  | some d => toString d

def cbStr (c : GCb) : String :=
  toString c.typ ++ (if c.alive then "+" else "-") ++ (if c.isInit then "i" else "")

def cbsStr (cs : List GCb) : String := "cb=[" ++ ",".intercalate (cs.map cbStr) ++ "]"

def sortNat (l : List Nat) : List Nat := (l.toArray.qsort (· < ·)).toList

def minStr (r : Option Nat × Int) : String := optNatStr r.1 ++ ":" ++ toString r.2

/-- observable dump of one set -/
def setDump (s : ASet) : String :=
  let ds := List.range s.n
  let alive := sortNat (s.entries.map (·.d))
  "len=" ++ toString s.entries.length ++
  " alive=" ++ ",".intercalate (alive.map toString) ++
  " best=" ++ minStr (getMin s none) ++
  " ex=" ++ ",".intercalate (ds.map fun d => minStr (getMin s (some d))) ++
  " sl=" ++ ",".intercalate (ds.map fun d => toString (sortingLatency s d)) ++
  " pol=" ++ policyStr s.policy ++
  " inv=" ++ boolStr s.idxOk ++ boolStr s.bestAliveOk ++ boolStr s.nilIffEmptyOk ++
  (if s.panicked then " PANIC" else "")

def snapOf (w : World) (p : Policy) (t d : Nat) : Option Int :=
  (w.colls t d).snapshot p (w.pens t d)

def groupDump (g : Group) : String :=
  if g.hasSets then " | ".intercalate ((List.range 6).map fun t => setDump (g.sets t))
  else "nosets"

def parseOffs (s : String) : Option (List Int) :=
  if s = "-" then some [] else (s.splitOn ",").mapM parseInt?

def resStr : Except SelErr (List SelOk) → String
  | .ok l => "ok " ++ ",".intercalate (l.map fun r => s!"{r.d}:{r.lat}:{r.sel}")
  | .error .noDialers => "err=nodialers"
  | .error .noAlive => "err=noalive"
  | .error .outOfRange => "err=range"
  | .error .unsupported => "err=unsupported"

def resStrNoLat : Except SelErr (List SelOk) → String
  | .ok l => "ok " ++ ",".intercalate (l.map fun r => s!"{r.d}:{r.sel}")
  | e => resStr e

def parseNetType? (l4 ip dns dom : String) : Option NetType := do
  let udp ← (if l4 = "u" then some true else if l4 = "t" then some false else none)
  let ip6 ← (if ip = "6" then some true else if ip = "4" then some false else none)
  let isDns ← (if dns = "1" then some true else if dns = "0" then some false else none)
  let d ← (match dom with | "0" => some UdpDom.unset | "1" => some UdpDom.dns | "2" => some UdpDom.data | _ => none)
  pure ⟨udp, ip6, isDns, d⟩

def tellSet (w : World) (t d : Nat) (alive : Bool) : World × String :=
  let w1 := { w with alive := upd w.alive t (upd (w.alive t) d alive) }
  match w.g with
  | none => (w1, "nogroup")
  | some g =>
    let r := gNotify g t d alive (snapOf w1 g.policy t d)
    ({ w1 with g := some r.1 }, cbsStr r.2 ++ " " ++ (if r.1.hasSets then setDump (r.1.sets t) else "nosets"))

def handle (w : World) (line : String) : World × String :=
  match words line with
  | ["world", n] =>
    match n.toNat? with
    | some n => (World.empty n, "ok")
    | none => (w, "bad-op")
  | ["group", tol, pol, fi, offs] =>
    match parseInt? tol, parsePolicy? pol, parseInt? fi, parseOffs offs with
    | some tol, some p, some fi, some offs =>
      let r := gNew w.n tol (fun d => offs.getD d 0) p fi w.alive (fun t d => snapOf w p t d)
      ({ w with g := some r.1 }, cbsStr r.2 ++ " " ++ groupDump r.1)
    | _, _, _, _ => (w, "bad-op")
  | ["sample", t, d, l] =>
    match t.toNat?, d.toNat?, parseInt? l with
    | some t, some d, some l =>
      let w1 := { w with colls := upd w.colls t (upd (w.colls t) d ((w.colls t d).append l)) }
      tellSet w1 t d true
    | _, _, _ => (w, "bad-op")
  | ["told", t, d, a] =>
    match t.toNat?, d.toNat? with
    | some t, some d => tellSet w t d (a = "1")
    | _, _ => (w, "bad-op")
  | ["pen", t, d, v] =>
    match t.toNat?, d.toNat?, parseInt? v with
    | some t, some d, some v => ({ w with pens := upd w.pens t (upd (w.pens t) d v) }, "ok")
    | _, _, _ => (w, "bad-op")
  | ["policy", pol, fi] =>
    match w.g, parsePolicy? pol, parseInt? fi with
    | some g, some p, some fi =>
      let r := gSetPolicy g p fi (fun t d => snapOf w p t d)
      ({ w with g := some r.1 }, cbsStr r.2 ++ " " ++ groupDump r.1)
    | _, _, _ => (w, "bad-op")
  | [op, l4, ip, dns, dom, strict, excl] =>
    match w.g, parseNetType? l4 ip dns dom, parseExcl? excl with
    | some g, some nt, some ex =>
      if op = "sel" then (w, resStr (selectAll g nt (strict = "1") ex))
      else if op = "choose" then (w, resStrNoLat (chooseSelectAll g nt (strict = "1") ex))
      else (w, "bad-op")
    | _, _, _ => (w, "bad-op")
  | ["rand", t, excl] =>
    match w.g, t.toNat?, parseExcl? excl with
    | some g, some t, some ex =>
      (w, "cands=" ++ ",".intercalate ((sortNat (randCands (g.sets t) ex)).map toString))
    | _, _, _ => (w, "bad-op")
  | _ => (w, "bad-op")

def main : IO Unit := lineLoopS (World.empty 0) handle
