import DaeVerif.C15.Model
/-! Helper definitions and lemmas for C15 (invariants of the alive set and their preservation). -/
namespace DaeVerif.C15

def ASet.ds (s : ASet) : List Nat := s.entries.map (·.d)

structure IdxInv (s : ASet) : Prop where
  fwd : ∀ d k, d < s.n → s.idx d = .at k → s.ds[k]? = some d
  bwd : ∀ k d, s.ds[k]? = some d → d < s.n ∧ s.idx d = .at k
  noPanic : s.panicked = false

theorem idxInv_init (n : Nat) (tol : Int) (offs : Nat → Int) (p : Policy) :
    IdxInv (ASet.init n tol offs p) := by
  constructor
  · intro d k hd h
    have hd' : d < n := hd
    simp [ASet.init, hd'] at h
  · intro k d h; simp [ASet.init, ASet.ds] at h
  · rfl

theorem idxInv_join (s : ASet) (d : Nat) (h : IdxInv s) (hd : d < s.n) (hn : ∀ k, s.idx d ≠ .at k) :
    IdxInv (join s d) := by
  have hf := h.fwd
  have hb := h.bwd
  constructor
  · intro d' k hd' hk
    simp only [join, upd] at hk
    simp only [ASet.ds, join, List.map_append, List.map_cons, List.map_nil] at *
    grind
  · intro k d' hk
    simp only [ASet.ds, join, List.map_append, List.map_cons, List.map_nil, upd] at *
    grind
  · exact h.noPanic


theorem ds_length (s : ASet) : s.ds.length = s.entries.length := by simp [ASet.ds]

theorem ds_getElem? (s : ASet) (k : Nat) : s.ds[k]? = (s.entries[k]?).map (·.d) := by
  simp [ASet.ds]

theorem idxInv_removeAt (s : ASet) (d k : Nat) (h : IdxInv s) (hd : d < s.n) (hk : s.idx d = .at k) :
    IdxInv (removeAt s d k) := by
  have hf := h.fwd
  have hb := h.bwd
  have hp := h.noPanic
  have hdk := hf d k hd hk
  have hlen := ds_length s
  have hklt : k < s.entries.length := by
    have := (List.getElem?_eq_some_iff.mp hdk).1; omega
  unfold removeAt
  rw [if_neg (by omega)]
  simp only
  by_cases hlast : k < s.entries.length - 1
  · rw [if_pos hlast]
    have hsw : s.ds[s.entries.length - 1]? = some (s.entries.getD (s.entries.length - 1) default).d := by
      rw [ds_getElem?, List.getD_eq_getElem?_getD]
      have : s.entries.length - 1 < s.entries.length := by omega
      simp [List.getElem?_eq_getElem this]
    have hswb := hb _ _ hsw
    have hne : (s.entries.getD (s.entries.length - 1) default).d ≠ d := by
      intro he; rw [he] at hswb; rw [hk] at hswb; cases hswb.2; omega
    rw [if_neg hne]
    constructor
    · intro d' k' hd' hk'
      simp only [upd] at hk'
      simp only [ASet.ds, List.map_dropLast, List.map_set] at *
      grind
    · intro k' d' hk'
      simp only [ASet.ds, List.map_dropLast, List.map_set, upd] at *
      grind
    · exact hp
  · rw [if_neg hlast]
    constructor
    · intro d' k' hd' hk'
      simp only [upd] at hk'
      simp only [ASet.ds, List.map_dropLast] at *
      grind
    · intro k' d' hk'
      simp only [ASet.ds, List.map_dropLast, upd] at *
      grind
    · exact hp


theorem idxInv_congr {s s' : ASet} (h : IdxInv s) (hn : s'.n = s.n) (hi : s'.idx = s.idx)
    (hds : s'.ds = s.ds) (hp : s'.panicked = s.panicked) : IdxInv s' := by
  constructor
  · intro d k hd hk; rw [hds]; rw [hn] at hd; rw [hi] at hk; exact h.fwd d k hd hk
  · intro k d hk; rw [hds] at hk; rw [hn, hi]; exact h.bwd k d hk
  · rw [hp]; exact h.noPanic

theorem mem_entries_iff (s : ASet) (e : Entry) : e ∈ s.entries ↔ ∃ k : Nat, s.entries[k]? = some e :=
  List.mem_iff_getElem?

theorem idx_of_mem {s : ASet} (h : IdxInv s) {e : Entry} (he : e ∈ s.entries) :
    e.d < s.n ∧ ∃ k, s.idx e.d = .at k ∧ s.entries[k]? = some e := by
  obtain ⟨k, hk⟩ := List.mem_iff_getElem?.mp he
  have : s.ds[k]? = some e.d := by rw [ds_getElem?, hk]; rfl
  have := h.bwd k e.d this
  exact ⟨this.1, k, this.2, hk⟩

theorem entries_inj {s : ASet} (h : IdxInv s) {e1 e2 : Entry} (h1 : e1 ∈ s.entries) (h2 : e2 ∈ s.entries)
    (hd : e1.d = e2.d) : e1 = e2 := by
  obtain ⟨_, k1, hk1, hg1⟩ := idx_of_mem h h1
  obtain ⟨_, k2, hk2, hg2⟩ := idx_of_mem h h2
  rw [hd, hk2] at hk1
  cases hk1
  rw [hg1] at hg2
  exact Option.some.inj hg2

theorem alive_iff {s : ASet} (h : IdxInv s) {d : Nat} (hd : d < s.n) :
    (∃ k, s.idx d = .at k) ↔ ∃ e ∈ s.entries, e.d = d := by
  constructor
  · rintro ⟨k, hk⟩
    have := h.fwd d k hd hk
    rw [ds_getElem?] at this
    cases hg : s.entries[k]? with
    | none => simp [hg] at this
    | some e =>
      simp [hg] at this
      exact ⟨e, List.mem_iff_getElem?.mpr ⟨k, hg⟩, this⟩
  · rintro ⟨e, he, hed⟩
    obtain ⟨_, k, hk, _⟩ := idx_of_mem h he
    exact ⟨k, hed ▸ hk⟩

theorem mem_join (s : ASet) (d : Nat) (e : Entry) :
    e ∈ (join s d).entries ↔ e ∈ s.entries ∨ e = ⟨d, 0⟩ := by
  simp [join]

theorem mem_removeAt {s : ASet} {d k : Nat} (h : IdxInv s) (hd : d < s.n) (hk : s.idx d = .at k) (e : Entry) :
    e ∈ (removeAt s d k).entries ↔ e ∈ s.entries ∧ e.d ≠ d := by
  have hf := h.fwd
  have hb := h.bwd
  have hdk := hf d k hd hk
  have hlen := ds_length s
  have hklt : k < s.entries.length := by
    have := (List.getElem?_eq_some_iff.mp hdk).1; omega
  unfold removeAt
  rw [if_neg (by omega)]
  simp only
  have hsw : s.ds[s.entries.length - 1]? = some (s.entries.getD (s.entries.length - 1) default).d := by
    rw [ds_getElem?, List.getD_eq_getElem?_getD]
    have : s.entries.length - 1 < s.entries.length := by omega
    simp [List.getElem?_eq_getElem this]
  have hswb := hb _ _ hsw
  simp only [List.mem_iff_getElem?]
  simp only [ASet.ds, List.getElem?_map] at hf hb hdk hsw
  by_cases hlast : k < s.entries.length - 1
  · rw [if_pos hlast]
    have hne : (s.entries.getD (s.entries.length - 1) default).d ≠ d := by
      intro he; rw [he] at hswb; rw [hk] at hswb; cases hswb.2; omega
    rw [if_neg hne]
    simp only
    constructor
    · rintro ⟨j, hj⟩
      grind
    · rintro ⟨⟨j, hj⟩, hne'⟩
      by_cases hjl : j = s.entries.length - 1
      · refine ⟨k, ?_⟩
        grind
      · refine ⟨j, ?_⟩
        grind
  · rw [if_neg hlast]
    simp only
    constructor
    · rintro ⟨j, hj⟩
      grind
    · rintro ⟨⟨j, hj⟩, hne'⟩
      refine ⟨j, ?_⟩
      grind


/-- accumulator invariant of the minimum scans w.r.t. the entries already seen:
nothing chosen yet ⇔ no candidate seen (then the latency is still the start value `time.Hour`);
otherwise the choice is a seen candidate and a true minimum over the seen candidates. -/
def ScanP (excl : Option Nat) (seen : List Entry) (acc : Option Nat × Int) : Prop :=
  (acc.1 = none → ∀ e ∈ seen, excl = some e.d) ∧
  (acc.1 = none → acc.2 = hour) ∧
  (∀ d, acc.1 = some d → (⟨d, acc.2⟩ : Entry) ∈ seen ∧ excl ≠ some d) ∧
  (∀ e ∈ seen, excl ≠ some e.d → acc.2 ≤ e.sl)

theorem scan_fold (excl : Option Nat) (es : List Entry) :
    ∀ (seen : List Entry) (acc : Option Nat × Int), ScanP excl seen acc →
      ScanP excl (seen ++ es) (es.foldl (scanStep excl) acc) := by
  induction es with
  | nil => intro seen acc h; simpa using h
  | cons e es ih =>
    intro seen acc h
    have : seen ++ e :: es = (seen ++ [e]) ++ es := by simp
    rw [this, List.foldl_cons]
    apply ih
    obtain ⟨h1, h2, h3, h4⟩ := h
    unfold scanStep
    by_cases hex : excl = some e.d
    · rw [if_pos hex]
      refine ⟨?_, h2, ?_, ?_⟩
      · intro hn e' he'
        simp at he'
        rcases he' with he' | he'
        · exact h1 hn e' he'
        · subst he'; exact hex
      · intro d hd; have := h3 d hd; simp [this]
      · intro e' he' hc
        simp at he'
        rcases he' with he' | he'
        · exact h4 e' he' hc
        · subst he'; contradiction
    · rw [if_neg hex]
      have take : ScanP excl (seen ++ [e]) (some e.d, e.sl) ↔ (∀ e' ∈ seen, excl ≠ some e'.d → e.sl ≤ e'.sl) := by
        constructor
        · intro hp e' he' hc; exact hp.2.2.2 e' (by simp [he']) hc
        · intro hmin
          refine ⟨by simp, by simp, ?_, ?_⟩
          · intro d hd
            simp at hd
            subst hd
            simp
            exact hex
          · intro e' he' hc'
            simp at he'
            rcases he' with he' | he'
            · exact hmin e' he' hc'
            · subst he'; simp
      by_cases hn : acc.1 = none
      · have hc : (acc.1.isNone || decide (e.sl < acc.2)) = true := by simp [hn]
        rw [if_pos hc]
        apply take.mpr
        intro e' he' hc'
        exact absurd (h1 hn e' he') hc'
      · by_cases hlt : e.sl < acc.2
        · have hc : (acc.1.isNone || decide (e.sl < acc.2)) = true := by simp [hlt]
          rw [if_pos hc]
          apply take.mpr
          intro e' he' hc'
          have := h4 e' he' hc'
          omega
        · have hc : ¬ (acc.1.isNone || decide (e.sl < acc.2)) = true := by
            cases hq : acc.1 with
            | none => exact absurd hq hn
            | some x => simp [hlt]
          rw [if_neg hc]
          refine ⟨fun h => absurd h hn, fun h => absurd h hn, ?_, ?_⟩
          · intro d hd; have := h3 d hd; simp [this]
          · intro e' he' hc'
            simp at he'
            rcases he' with he' | he'
            · exact h4 e' he' hc'
            · subst he'; omega

theorem scanMin_spec (es : List Entry) (excl : Option Nat) : ScanP excl es (scanMin es excl) := by
  have := scan_fold excl es [] (none, hour) ⟨by simp, by simp, by simp, by simp⟩
  simpa [scanMin] using this

/-- the sorting latency the set should hold for an alive `d`: measurement + offset, `0` when unmeasured -/
def expSl (s : ASet) (d : Nat) : Int :=
  match s.lat d with
  | some r => r + s.offs d
  | none => 0

/-- the part of the invariant that does not mention the cached best -/
structure BInv (s : ASet) : Prop where
  idx : IdxInv s
  latCons : s.policy.isMin = true → ∀ e ∈ s.entries, e.sl = expSl s e.d

/-- `e` beats the cached best latency `L` by the tolerance or more -/
def beats (tol : Int) (sl L : Int) : Prop := sl < L ∧ sl + tol ≤ L

structure SInv (s : ASet) : Prop extends BInv s where
  nonMin : s.policy.isMin = false → s.minD = none
  nilHour : s.minD = none → s.minL = hour
  nilEmpty : s.policy.isMin = true → s.minD = none → s.entries = []
  tolBound : s.policy.isMin = true → ∀ e ∈ s.entries, s.lat e.d ≠ none → ¬ beats s.tol e.sl s.minL
  best : ∀ d, s.minD = some d →
    ∃ e ∈ s.entries, e.d = d ∧ (e.sl = s.minL ∨ (s.minL = hour ∧ s.lat d = none))

theorem hour_pos : (0 : Int) < hour := by decide

/-! ### record -/

theorem record_alive {s : ASet} {d k : Nat} (raw : Int) (h : IdxInv s) (hd : d < s.n) (hk : s.idx d = .at k) :
    record s d raw = { s with lat := upd s.lat d (some raw), entries := setSl s.entries k (raw + s.offs d) } := by
  have hdk := h.fwd d k hd hk
  have hklt : k < s.entries.length := by
    have := (List.getElem?_eq_some_iff.mp hdk).1; simpa [ASet.ds] using this
  unfold record
  rw [hk]
  simp only
  rw [if_neg (by omega)]

theorem record_dead {s : ASet} {d : Nat} (raw : Int) (hk : ∀ k, s.idx d ≠ .at k) :
    record s d raw = { s with lat := upd s.lat d (some raw) } := by
  unfold record
  split
  · rename_i k hk'; exact absurd hk' (hk k)
  · rfl

theorem ds_setSl (es : List Entry) (k : Nat) (sl : Int) : (setSl es k sl).map (·.d) = es.map (·.d) := by
  apply List.ext_getElem?
  intro i
  simp only [setSl, List.getElem?_map, List.getElem?_modify]
  cases es[i]? <;> simp <;> split <;> rfl

theorem mem_setSl {s : ASet} {d k : Nat} (h : IdxInv s) (hd : d < s.n) (hk : s.idx d = .at k) (sl : Int) (e : Entry) :
    e ∈ setSl s.entries k sl ↔ (e ∈ s.entries ∧ e.d ≠ d) ∨ e = ⟨d, sl⟩ := by
  have hf := h.fwd
  have hb := h.bwd
  have hdk := hf d k hd hk
  simp only [ASet.ds, List.getElem?_map] at hf hb hdk
  simp only [List.mem_iff_getElem?, setSl, List.getElem?_modify]
  constructor
  · rintro ⟨j, hj⟩
    cases hg : s.entries[j]? with
    | none => simp [hg] at hj
    | some e0 =>
      simp [hg] at hj
      by_cases hkj : k = j
      · subst hkj
        right
        rw [hg] at hdk; simp at hdk
        rw [if_pos rfl] at hj
        rw [← hj, ← hdk]
      · left
        rw [if_neg hkj] at hj
        subst hj
        refine ⟨⟨j, hg⟩, ?_⟩
        intro hed
        have := hb j e0.d (by simp [hg])
        rw [hed, hk] at this
        cases this.2
        exact hkj rfl
  · rintro (⟨⟨j, hj⟩, hne⟩ | he)
    · refine ⟨j, ?_⟩
      have hkj : k ≠ j := by
        intro hkj; subst hkj; rw [hj] at hdk; simp at hdk; exact hne hdk
      simp [hj, hkj]
    · refine ⟨k, ?_⟩
      cases hg : s.entries[k]? with
      | none => simp [hg] at hdk
      | some e0 =>
        rw [hg] at hdk; simp at hdk
        simp [he, ← hdk]


theorem idxInv_record {s : ASet} {d : Nat} (raw : Int) (h : IdxInv s) (hd : d < s.n) : IdxInv (record s d raw) := by
  cases hk : s.idx d with
  | «at» k =>
    rw [record_alive raw h hd hk]
    exact idxInv_congr h rfl rfl (by simp [ASet.ds, ds_setSl]) rfl
  | init => rw [record_dead raw (by simp [hk])]; exact idxInv_congr h rfl rfl rfl rfl
  | notAlive => rw [record_dead raw (by simp [hk])]; exact idxInv_congr h rfl rfl rfl rfl

/-- entries of `record`: the entry of `d` (if any) gets the new sorting latency, the others stay -/
theorem mem_record {s : ASet} {d : Nat} (raw : Int) (h : IdxInv s) (hd : d < s.n) (e : Entry) :
    e ∈ (record s d raw).entries ↔
      (e ∈ s.entries ∧ e.d ≠ d) ∨ (e = ⟨d, raw + s.offs d⟩ ∧ ∃ k, s.idx d = .at k) := by
  cases hk : s.idx d with
  | «at» k =>
    rw [record_alive raw h hd hk]
    simp only [mem_setSl h hd hk]
    simp
  | init =>
    rw [record_dead raw (by simp [hk])]
    have : ¬ ∃ e ∈ s.entries, e.d = d := by rw [← alive_iff h hd]; simp [hk]
    simp only [reduceCtorEq, exists_false, and_false, or_false]
    constructor
    · intro he; exact ⟨he, fun hed => this ⟨e, he, hed⟩⟩
    · exact fun h => h.1
  | notAlive =>
    rw [record_dead raw (by simp [hk])]
    have : ¬ ∃ e ∈ s.entries, e.d = d := by rw [← alive_iff h hd]; simp [hk]
    simp only [reduceCtorEq, exists_false, and_false, or_false]
    constructor
    · intro he; exact ⟨he, fun hed => this ⟨e, he, hed⟩⟩
    · exact fun h => h.1

theorem record_frame (s : ASet) (d : Nat) (raw : Int) :
    (record s d raw).n = s.n ∧ (record s d raw).tol = s.tol ∧ (record s d raw).offs = s.offs ∧
    (record s d raw).policy = s.policy ∧ (record s d raw).idx = s.idx ∧
    (record s d raw).lat = upd s.lat d (some raw) ∧ (record s d raw).minD = s.minD ∧
    (record s d raw).minL = s.minL := by
  unfold record
  split
  · split <;> simp
  · simp

theorem binv_record {s : ASet} {d : Nat} {raw : Int} (hi : IdxInv s) (hd : d < s.n)
    (hlc : s.policy.isMin = true → ∀ e ∈ s.entries, e.d ≠ d → e.sl = expSl s e.d) :
    BInv (record s d raw) := by
  obtain ⟨f1, f2, f3, f4, f5, f6, f7, f8⟩ := record_frame s d raw
  refine ⟨idxInv_record raw hi hd, ?_⟩
  · intro hm e he
    rw [f4] at hm
    rcases (mem_record raw hi hd e).mp he with ⟨he', hne⟩ | ⟨he', _⟩
    · rw [hlc hm e he' hne]
      simp [expSl, f6, f3, upd, hne]
    · subst he'
      simp [expSl, f6, f3, upd]

theorem binv_join {s : ASet} {d : Nat} (h : BInv s) (hd : d < s.n) (hn : ∀ k, s.idx d ≠ .at k)
    (hl : s.policy.isMin = true → s.lat d = none) : BInv (join s d) := by
  refine ⟨idxInv_join s d h.idx hd hn, ?_⟩
  · intro hm e he
    have hm' : s.policy.isMin = true := hm
    rcases (mem_join s d e).mp he with he | he
    · have := h.latCons hm' e he
      simpa [expSl, join] using this
    · subst he
      simp [expSl, join, hl hm']

theorem removeAt_frame0 (s : ASet) (d k : Nat) :
    (removeAt s d k).n = s.n ∧ (removeAt s d k).tol = s.tol ∧ (removeAt s d k).offs = s.offs ∧
    (removeAt s d k).policy = s.policy ∧ (removeAt s d k).lat = s.lat ∧
    (removeAt s d k).minD = s.minD ∧ (removeAt s d k).minL = s.minL := by
  unfold removeAt
  dsimp only
  repeat' split
  all_goals simp

theorem removeAt_frame {s : ASet} {d k : Nat} (h : IdxInv s) (hd : d < s.n) (hk : s.idx d = .at k) :
    (removeAt s d k).n = s.n ∧ (removeAt s d k).tol = s.tol ∧ (removeAt s d k).offs = s.offs ∧
    (removeAt s d k).policy = s.policy ∧ (removeAt s d k).lat = s.lat ∧
    (removeAt s d k).minD = s.minD ∧ (removeAt s d k).minL = s.minL ∧
    (∀ k', (removeAt s d k).idx d ≠ .at k') := by
  obtain ⟨f1, f2, f3, f4, f5, f6, f7⟩ := removeAt_frame0 s d k
  have hi := idxInv_removeAt s d k h hd hk
  have hmem := fun e => mem_removeAt h hd hk e
  refine ⟨f1, f2, f3, f4, f5, f6, f7, ?_⟩
  intro k' hk'
  have := (alive_iff hi (by rw [f1]; exact hd)).mp ⟨k', hk'⟩
  obtain ⟨e, he, hed⟩ := this
  exact ((hmem e).mp he).2 hed

theorem binv_removeAt {s : ASet} {d k : Nat} (h : BInv s) (hd : d < s.n) (hk : s.idx d = .at k) :
    BInv (removeAt s d k) := by
  obtain ⟨f1, f2, f3, f4, f5, f6, f7, f8⟩ := removeAt_frame h.idx hd hk
  refine ⟨idxInv_removeAt s d k h.idx hd hk, ?_⟩
  · intro hm e he
    rw [f4] at hm
    have := h.latCons hm e ((mem_removeAt h.idx hd hk e).mp he).1
    simpa [expSl, f5, f3] using this


theorem gate_iff (tol x cur : Int) : gate tol x cur = true ↔ x ≤ cur ∧ (cur < tol ∨ x ≤ cur - tol) := by
  simp [gate]

theorem binv_of_eq {s s' : ASet} (h : BInv s) (hn : s'.n = s.n) (ht : s'.tol = s.tol) (ho : s'.offs = s.offs)
    (hp : s'.policy = s.policy) (hi : s'.idx = s.idx) (hl : s'.lat = s.lat) (he : s'.entries = s.entries)
    (hpn : s'.panicked = s.panicked) : BInv s' := by
  refine ⟨idxInv_congr h.idx hn hi (by simp [ASet.ds, he]) hpn, ?_⟩
  · rw [hp, he]; intro hm e hee; rw [h.latCons hm e hee]; simp [expSl, hl, ho]

theorem sinv_calcMin_none {s : ASet} (hb : BInv s) (hnm : s.policy.isMin = true) (hD : s.minD = none) :
    SInv (calcMin s) := by
  have hsp := scanMin_spec s.entries none
  obtain ⟨h1, h2, h3, h4⟩ := hsp
  have hc : calcMin s = { s with minL := (scanMin s.entries none).2, minD := (scanMin s.entries none).1 } := by
    unfold calcMin; rw [hD]
  rw [hc]
  refine { toBInv := binv_of_eq hb rfl rfl rfl rfl rfl rfl rfl rfl, nonMin := ?_, nilHour := ?_, nilEmpty := ?_, tolBound := ?_, best := ?_ }
  · intro h; simp only at h; rw [hnm] at h; cases h
  · intro h; exact h2 h
  · intro _ h
    simp only at h ⊢
    apply List.eq_nil_iff_forall_not_mem.mpr
    intro e he
    exact absurd (h1 h e he) (by simp)
  · intro _ e he _ hbt
    simp only at he hbt
    have := h4 e he (by simp)
    unfold beats at hbt
    omega
  · intro d hd
    simp only at hd ⊢
    have := h3 d hd
    exact ⟨⟨d, (scanMin s.entries none).2⟩, this.1, rfl, Or.inl rfl⟩

theorem sinv_calcMin_some {s : ASet} {b : Nat} (hb : BInv s) (hnm : s.policy.isMin = true)
    (hD : s.minD = some b) (hbest : ∃ e ∈ s.entries, e.d = b ∧ e.sl = s.minL) : SInv (calcMin s) := by
  have hsp := scanMin_spec s.entries none
  obtain ⟨h1, h2, h3, h4⟩ := hsp
  obtain ⟨eb, heb, hebd, hebl⟩ := hbest
  have hsome : (scanMin s.entries none).1.isSome = true := by
    cases hr : (scanMin s.entries none).1 with
    | some m => rfl
    | none => exact absurd (h1 hr eb heb) (by simp)
  by_cases hg : gate s.tol (scanMin s.entries none).2 s.minL = true
  · have hc : calcMin s = { s with minL := (scanMin s.entries none).2, minD := (scanMin s.entries none).1 } := by
      unfold calcMin; rw [hD]; simp [hsome, hg]
    rw [hc]
    refine { toBInv := binv_of_eq hb rfl rfl rfl rfl rfl rfl rfl rfl, nonMin := ?_, nilHour := ?_, nilEmpty := ?_, tolBound := ?_, best := ?_ }
    · intro h; simp only at h; rw [hnm] at h; cases h
    · intro h; exact h2 h
    · intro _ h; simp only at h; rw [h] at hsome; cases hsome
    · intro _ e he _ hbt
      simp only at he hbt
      have := h4 e he (by simp)
      unfold beats at hbt
      omega
    · intro d hd
      simp only at hd ⊢
      have := h3 d hd
      exact ⟨⟨d, (scanMin s.entries none).2⟩, this.1, rfl, Or.inl rfl⟩
  · have hc : calcMin s = s := by
      unfold calcMin; rw [hD]; simp [hg]
    rw [hc]
    refine { toBInv := hb, nonMin := ?_, nilHour := ?_, nilEmpty := ?_, tolBound := ?_, best := ?_ }
    · intro h; rw [hnm] at h; cases h
    · intro h; rw [hD] at h; cases h
    · intro _ h; rw [hD] at h; cases h
    · intro _ e he _ hbt
      have := h4 e he (by simp)
      unfold beats at hbt
      apply hg
      rw [gate_iff]
      omega
    · intro d hd
      rw [hD] at hd; cases hd
      exact ⟨eb, heb, hebd, Or.inl hebl⟩


theorem sinv_decide2_alive {s s1 : ASet} {d : Nat} {raw : Int} (hs : SInv s) (hm : s.policy.isMin = true)
    (hb1 : BInv s1) (ft : s1.tol = s.tol) (fp : s1.policy = s.policy)
    (fl : s1.lat = upd s.lat d (some raw)) (fD : s1.minD = s.minD) (fL : s1.minL = s.minL)
    (hmem : ∀ e, e ∈ s1.entries ↔ (e ∈ s.entries ∧ e.d ≠ d) ∨ e = ⟨d, raw + s.offs d⟩) :
    SInv (decide2 s1 d true (raw + s.offs d) s.minL) := by
  have hm1 : s1.policy.isMin = true := by rw [fp]; exact hm
  have hdmem : (⟨d, raw + s.offs d⟩ : Entry) ∈ s1.entries := (hmem _).mpr (Or.inr rfl)
  unfold decide2
  by_cases hnil : s1.minD = none
  · -- no cached best: d is taken whatever its latency
    have hcond : (true && (s1.minD.isNone || gate s1.tol (raw + s.offs d) s1.minL)) = true := by simp [hnil]
    rw [if_pos hcond]
    have hemp : s.entries = [] := hs.nilEmpty hm (by rw [← fD]; exact hnil)
    refine { toBInv := binv_of_eq hb1 rfl rfl rfl rfl rfl rfl rfl rfl, nonMin := ?_, nilHour := ?_, nilEmpty := ?_, tolBound := ?_, best := ?_ }
    · intro h; simp only at h; rw [hm1] at h; cases h
    · intro h; cases h
    · intro _ h; cases h
    · intro _ e he _ hbt
      simp only at he hbt
      unfold beats at hbt
      rcases (hmem e).mp he with ⟨he', _⟩ | he'
      · rw [hemp] at he'; cases he'
      · subst he'; simp at hbt
    · intro d' hd'
      simp only at hd' ⊢
      cases hd'
      exact ⟨_, hdmem, rfl, Or.inl rfl⟩
  have hisn : s1.minD.isNone = false := by
    cases h : s1.minD with
    | none => exact absurd h hnil
    | some b => rfl
  by_cases hg : gate s1.tol (raw + s.offs d) s1.minL = true
  · -- switch to d
    have hcond : (true && (s1.minD.isNone || gate s1.tol (raw + s.offs d) s1.minL)) = true := by simp [hg]
    rw [if_pos hcond]
    refine { toBInv := binv_of_eq hb1 rfl rfl rfl rfl rfl rfl rfl rfl, nonMin := ?_, nilHour := ?_, nilEmpty := ?_, tolBound := ?_, best := ?_ }
    · intro h; simp only at h; rw [hm1] at h; cases h
    · intro h; cases h
    · intro _ h; cases h
    · intro _ e he hl hbt
      simp only at he hl hbt
      rw [gate_iff, ft, fL] at hg
      unfold beats at hbt
      rcases (hmem e).mp he with ⟨he', hne⟩ | he'
      · have hl' : s.lat e.d ≠ none := by rw [fl] at hl; simpa [upd, hne] using hl
        have := hs.tolBound hm e he' hl'
        unfold beats at this
        rw [ft] at hbt
        omega
      · subst he'; simp at hbt
    · intro d' hd'
      simp only at hd' ⊢
      cases hd'
      exact ⟨_, hdmem, rfl, Or.inl rfl⟩
  · have hcond : ¬ (true && (s1.minD.isNone || gate s1.tol (raw + s.offs d) s1.minL)) = true := by simp [hisn, hg]
    rw [if_neg hcond]
    simp only [Bool.not_true, Bool.false_or, if_true]
    have hg' := hg
    rw [gate_iff, ft, fL] at hg'
    by_cases hD : s1.minD = some d
    · rw [if_pos hD]
      by_cases hw : raw + s.offs d > s.minL
      · -- best worsened: recompute
        simp only [hw, decide_true, if_true]
        exact @sinv_calcMin_some { s1 with minL := raw + s.offs d } d
          (binv_of_eq hb1 rfl rfl rfl rfl rfl rfl rfl rfl) hm1 hD ⟨_, hdmem, rfl, rfl⟩
      · simp only [hw, decide_false, Bool.false_eq_true, if_false]
        refine { toBInv := binv_of_eq hb1 rfl rfl rfl rfl rfl rfl rfl rfl, nonMin := ?_, nilHour := ?_, nilEmpty := ?_, tolBound := ?_, best := ?_ }
        · intro h; simp only at h; rw [hm1] at h; cases h
        · intro h; simp only at h; rw [hD] at h; cases h
        · intro _ h; simp only at h; rw [hD] at h; cases h
        · intro _ e he hl hbt
          simp only at he hl hbt
          unfold beats at hbt
          rw [ft] at hbt
          rcases (hmem e).mp he with ⟨he', hne⟩ | he'
          · have hl' : s.lat e.d ≠ none := by rw [fl] at hl; simpa [upd, hne] using hl
            have := hs.tolBound hm e he' hl'
            unfold beats at this
            omega
          · subst he'; simp at hbt
        · intro d' hd'
          simp only at hd' ⊢
          rw [hD] at hd'; cases hd'
          exact ⟨_, hdmem, rfl, Or.inl rfl⟩
    · rw [if_neg hD]
      -- nothing changes except d's own entry
      have hDs : s.minD ≠ none := by rw [← fD]; exact hnil
      refine { toBInv := hb1, nonMin := ?_, nilHour := ?_, nilEmpty := ?_, tolBound := ?_, best := ?_ }
      · intro h; rw [hm1] at h; cases h
      · intro h; rw [fD] at h; exact absurd h hDs
      · intro _ h; rw [fD] at h; exact absurd h hDs
      · intro _ e he hl hbt
        unfold beats at hbt
        rw [ft, fL] at hbt
        rcases (hmem e).mp he with ⟨he', hne⟩ | he'
        · have hl' : s.lat e.d ≠ none := by rw [fl] at hl; simpa [upd, hne] using hl
          have := hs.tolBound hm e he' hl'
          unfold beats at this
          omega
        · subst he'
          simp only at hbt
          omega
      · intro b hb
        rw [fD] at hb hD
        obtain ⟨e, he, hed, hel⟩ := hs.best b hb
        have hne : e.d ≠ d := by rw [hed]; intro h; apply hD; rw [hb, h]
        refine ⟨e, (hmem e).mpr (Or.inl ⟨he, hne⟩), hed, ?_⟩
        rw [fL, fl]
        have : b ≠ d := by rw [← hed]; exact hne
        simpa [upd, this] using hel

theorem sinv_decide2_dead {s s1 : ASet} {d : Nat} {raw : Int} (hs : SInv s) (hm : s.policy.isMin = true)
    (hb1 : BInv s1) (ft : s1.tol = s.tol) (fp : s1.policy = s.policy)
    (fl : s1.lat = upd s.lat d (some raw)) (fD : s1.minD = s.minD) (fL : s1.minL = s.minL)
    (hmem : ∀ e, e ∈ s1.entries ↔ (e ∈ s.entries ∧ e.d ≠ d)) :
    SInv (decide2 s1 d false (raw + s.offs d) s.minL) := by
  have hm1 : s1.policy.isMin = true := by rw [fp]; exact hm
  unfold decide2
  simp only [Bool.false_and, Bool.false_eq_true, if_false, Bool.not_false, Bool.true_or, if_true]
  by_cases hD : s1.minD = some d
  · rw [if_pos hD]
    exact @sinv_calcMin_none { s1 with minL := raw + s.offs d, minD := none }
      (binv_of_eq hb1 rfl rfl rfl rfl rfl rfl rfl rfl) hm1 rfl
  · rw [if_neg hD]
    refine { toBInv := hb1, nonMin := ?_, nilHour := ?_, nilEmpty := ?_, tolBound := ?_, best := ?_ }
    · intro h; rw [hm1] at h; cases h
    · intro h; rw [fD] at h; rw [fL]; exact hs.nilHour h
    · intro _ h; rw [fD] at h
      have := hs.nilEmpty hm h
      apply List.eq_nil_iff_forall_not_mem.mpr
      intro e he
      have := ((hmem e).mp he).1
      simp_all
    · intro _ e he hl hbt
      rw [ft, fL] at hbt
      obtain ⟨he', hne⟩ := (hmem e).mp he
      have hl' : s.lat e.d ≠ none := by rw [fl] at hl; simpa [upd, hne] using hl
      exact hs.tolBound hm e he' hl' hbt
    · intro b hb
      rw [fD] at hb hD
      obtain ⟨e, he, hed, hel⟩ := hs.best b hb
      have hne : e.d ≠ d := by rw [hed]; intro h; apply hD; rw [hb, h]
      refine ⟨e, (hmem e).mpr ⟨he, hne⟩, hed, ?_⟩
      rw [fL, fl]
      have : b ≠ d := by rw [← hed]; exact hne
      simpa [upd, this] using hel


/-- what the caller of `NotifyLatencyChange` must respect for the full invariant:
the dialer is a member; a dialer whose latency the set has recorded (under the current policy)
keeps reporting one; sorting latency + tolerance stays below the `time.Hour` sentinel. -/
structure NotifyOk (s : ASet) (d : Nat) (snap : Option Int) : Prop where
  dlt : d < s.n
  mono : s.policy.isMin = true → s.lat d ≠ none → snap ≠ none

theorem sinv_of_nonmin {s : ASet} (hb : BInv s) (hp : s.policy.isMin = false) (hD : s.minD = none)
    (hL : s.minL = hour) : SInv s := by
  refine { toBInv := hb, nonMin := fun _ => hD, nilHour := fun _ => hL, nilEmpty := ?_, tolBound := ?_, best := ?_ }
  · intro h; rw [hp] at h; cases h
  · intro h; rw [hp] at h; cases h
  · intro d h; rw [hD] at h; cases h

theorem join_not_alive_mem {s : ASet} {d : Nat} (h : IdxInv s) (hd : d < s.n) (hn : ∀ k, s.idx d ≠ .at k) :
    ∀ e ∈ s.entries, e.d ≠ d := by
  intro e he hed
  obtain ⟨k, hk⟩ := (alive_iff h hd).mpr ⟨e, he, hed⟩
  exact hn k hk

theorem sinv_notify {s : ASet} {d : Nat} {alive : Bool} {snap : Option Int} (hs : SInv s)
    (ok : NotifyOk s d snap) : SInv (notify s d alive snap).1 := by
  have hi := hs.idx
  have hd := ok.dlt
  unfold notify
  simp only
  cases hm : s.policy.isMin
  · -- random / fixed: no measurements, no cached best
    simp only [Bool.false_eq_true, if_false]
    have hD := hs.nonMin hm
    have hL := hs.nilHour hD
    cases alive
    · cases hk : s.idx d with
      | «at» k =>
        simp only [phase1, Bool.false_eq_true, if_false, hk, hm, Bool.false_and, phase2]
        obtain ⟨f1, f2, f3, f4, f5, f6, f7, f8⟩ := removeAt_frame hi hd hk
        exact sinv_of_nonmin (binv_removeAt hs.toBInv hd hk) (by rw [f4]; exact hm) (by rw [f6]; exact hD) (by rw [f7]; exact hL)
      | init => simpa [phase1, hk, phase2] using hs
      | notAlive => simpa [phase1, hk, phase2] using hs
    · cases hk : s.idx d with
      | «at» k => simpa [phase1, hk, phase2, hm] using hs
      | init =>
        simp only [phase1, if_true, hk, phase2, join, hm, Bool.false_and, Bool.and_false, Bool.false_eq_true, if_false]
        exact sinv_of_nonmin (binv_join hs.toBInv hd (by simp [hk]) (by intro h; rw [hm] at h; cases h)) hm hD hL
      | notAlive =>
        simp only [phase1, if_true, hk, phase2, join, hm, Bool.false_and, Bool.and_false, Bool.false_eq_true, if_false]
        exact sinv_of_nonmin (binv_join hs.toBInv hd (by simp [hk]) (by intro h; rw [hm] at h; cases h)) hm hD hL
  · simp only [if_true]
    cases snap with
    | none =>
      have hlat : s.lat d = none := by
        have := ok.mono hm
        cases hl : s.lat d with
        | none => rfl
        | some r => exact absurd rfl (this (by simp [hl]))
      cases alive
      · -- death without a measurement
        by_cases hal : ∃ k, s.idx d = .at k
        · obtain ⟨k, hk⟩ := hal
          obtain ⟨f1, f2, f3, f4, f5, f6, f7, f8⟩ := removeAt_frame hi hd hk
          have hb1 := binv_removeAt hs.toBInv hd hk
          have hmem := fun e => mem_removeAt hi hd hk e
          by_cases hD : s.minD = some d
          · have e1 : (phase1 s d false none).1 = calcMin (resetBest (removeAt s d k)) := by
              simp [phase1, hk, hm, hD]
            have hfin : SInv (calcMin (resetBest (removeAt s d k))) :=
              sinv_calcMin_none (binv_of_eq hb1 rfl rfl rfl rfl rfl rfl rfl rfl) (by simp [resetBest, f4, hm]) rfl
            simp only [phase2, Bool.false_and, Bool.false_eq_true, if_false]
            rw [e1]; exact hfin
          · have e1 : (phase1 s d false none).1 = removeAt s d k := by
              simp [phase1, hk, hm, hD]
            simp only [phase2, Bool.false_and, Bool.false_eq_true, if_false]
            rw [e1]
            refine { toBInv := hb1, nonMin := ?_, nilHour := ?_, nilEmpty := ?_, tolBound := ?_, best := ?_ }
            · intro h; rw [f4, hm] at h; cases h
            · intro h; rw [f6] at h; rw [f7]; exact hs.nilHour h
            · intro _ h; rw [f6] at h
              have := hs.nilEmpty hm h
              apply List.eq_nil_iff_forall_not_mem.mpr
              intro e he
              have := ((hmem e).mp he).1
              simp_all
            · intro _ e he hl hbt
              rw [f2, f7] at hbt; rw [f5] at hl
              exact hs.tolBound hm e ((hmem e).mp he).1 hl hbt
            · intro b hb
              rw [f6] at hb
              obtain ⟨e, he, hed, hel⟩ := hs.best b hb
              have hne : e.d ≠ d := by rw [hed]; intro h; apply hD; rw [hb, h]
              exact ⟨e, (hmem e).mpr ⟨he, hne⟩, hed, by rw [f7, f5]; exact hel⟩
        · have e1 : (phase1 s d false none).1 = s := by
            cases hk : s.idx d with
            | «at» k => exact absurd ⟨k, hk⟩ hal
            | init => simp [phase1, hk]
            | notAlive => simp [phase1, hk]
          simp only [phase2, Bool.false_and, Bool.false_eq_true, if_false]
          rw [e1]; exact hs
      · -- alive without a measurement
        by_cases hal : ∃ k, s.idx d = .at k
        · obtain ⟨k, hk⟩ := hal
          have e1 : (phase1 s d true none).1 = s := by simp [phase1, hk]
          have hne : s.minD ≠ none := by
            intro h
            have := hs.nilEmpty hm h
            obtain ⟨e, he, _⟩ := (alive_iff hi hd).mp ⟨k, hk⟩
            simp [this] at he
          simp only [phase2]
          rw [e1]
          have : s.minD.isNone = false := by cases h : s.minD <;> simp_all
          simp only [this, Bool.and_false, Bool.false_eq_true, if_false]
          exact hs
        · have hn : ∀ k, s.idx d ≠ .at k := fun k hk => hal ⟨k, hk⟩
          have e1 : (phase1 s d true none).1 = join s d := by
            cases hk : s.idx d with
            | «at» k => exact absurd ⟨k, hk⟩ hal
            | init => simp [phase1, hk]
            | notAlive => simp [phase1, hk]
          have hbj := binv_join hs.toBInv hd hn (fun _ => hlat)
          simp only [phase2]
          rw [e1]
          cases hD : s.minD with
          | none =>
            have hemp := hs.nilEmpty hm hD
            have hL := hs.nilHour hD
            simp only [join, hm, hD, Option.isNone_none, Bool.and_self, if_true]
            refine { toBInv := binv_of_eq hbj rfl rfl rfl rfl rfl rfl rfl rfl, nonMin := ?_, nilHour := ?_, nilEmpty := ?_, tolBound := ?_, best := ?_ }
            · intro h; simp only at h; rw [hm] at h; cases h
            · intro h; cases h
            · intro _ h; cases h
            · intro _ e he hl
              simp only [hemp, List.nil_append, List.mem_singleton] at he hl
              subst he
              exact absurd hlat hl
            · intro b hb
              simp only at hb ⊢
              cases hb
              exact ⟨⟨d, 0⟩, by simp, rfl, Or.inr ⟨hL, hlat⟩⟩
          | some b =>
            simp only [join, hm, hD, Option.isNone_some, Bool.and_false, Bool.false_eq_true, if_false]
            refine { toBInv := binv_of_eq hbj rfl rfl rfl rfl rfl rfl rfl rfl, nonMin := ?_, nilHour := ?_, nilEmpty := ?_, tolBound := ?_, best := ?_ }
            · intro h; simp only at h; rw [hm] at h; cases h
            · intro h; cases h
            · intro _ h; cases h
            · intro _ e he hl hbt
              simp only at he hl hbt
              rcases List.mem_append.mp he with he | he
              · exact hs.tolBound hm e he hl hbt
              · simp only [List.mem_singleton] at he; subst he; exact absurd hlat hl
            · intro b' hb'
              simp only at hb' ⊢
              obtain ⟨e, he, hed, hel⟩ := hs.best b hD
              cases hb'
              exact ⟨e, by simp [he], hed, hel⟩
    | some raw =>
      cases alive
      · -- death / dead with a measurement
        by_cases hal : ∃ k, s.idx d = .at k
        · obtain ⟨k, hk⟩ := hal
          obtain ⟨f1, f2, f3, f4, f5, f6, f7, f8⟩ := removeAt_frame hi hd hk
          have hb0 := binv_removeAt hs.toBInv hd hk
          have e1 : (phase1 s d false (some raw)).1 = removeAt s d k := by
            simp [phase1, hk, hm]
          simp only [phase2]
          rw [e1, f3, f7]
          obtain ⟨g1, g2, g3, g4, g5, g6, g7, g8⟩ := record_frame (removeAt s d k) d raw
          have hd0 : d < (removeAt s d k).n := by rw [f1]; exact hd
          have hb1 : BInv (record (removeAt s d k) d raw) :=
            binv_record hb0.idx hd0 (fun h e he _ => hb0.latCons h e he)
          apply sinv_decide2_dead hs hm hb1 (by rw [g2, f2]) (by rw [g4, f4]) (by rw [g6, f5]) (by rw [g7, f6]) (by rw [g8, f7])
          intro e
          rw [mem_record raw hb0.idx hd0, mem_removeAt hi hd hk]
          constructor
          · rintro (⟨⟨h1, h2⟩, _⟩ | ⟨_, k', hk'⟩)
            · exact ⟨h1, h2⟩
            · exact absurd hk' (f8 k')
          · intro h; exact Or.inl ⟨h, h.2⟩
        · have hn : ∀ k, s.idx d ≠ .at k := fun k hk => hal ⟨k, hk⟩
          have e1 : (phase1 s d false (some raw)).1 = s := by
            cases hk : s.idx d with
            | «at» k => exact absurd ⟨k, hk⟩ hal
            | init => simp [phase1, hk]
            | notAlive => simp [phase1, hk]
          simp only [phase2]
          rw [e1]
          obtain ⟨g1, g2, g3, g4, g5, g6, g7, g8⟩ := record_frame s d raw
          have hb1 : BInv (record s d raw) :=
            binv_record hi hd (fun h e he _ => hs.latCons h e he)
          apply sinv_decide2_dead hs hm hb1 g2 g4 g6 g7 g8
          intro e
          rw [mem_record raw hi hd]
          constructor
          · rintro (⟨h1, h2⟩ | ⟨_, k', hk'⟩)
            · exact ⟨h1, h2⟩
            · exact absurd hk' (hn k')
          · intro h; exact Or.inl h
      · -- alive with a measurement
        by_cases hal : ∃ k, s.idx d = .at k
        · obtain ⟨k, hk⟩ := hal
          have e1 : (phase1 s d true (some raw)).1 = s := by simp [phase1, hk]
          simp only [phase2]
          rw [e1]
          obtain ⟨g1, g2, g3, g4, g5, g6, g7, g8⟩ := record_frame s d raw
          have hb1 : BInv (record s d raw) :=
            binv_record hi hd (fun h e he _ => hs.latCons h e he)
          apply sinv_decide2_alive hs hm hb1 g2 g4 g6 g7 g8
          intro e
          rw [mem_record raw hi hd]
          constructor
          · rintro (h | ⟨h, _⟩)
            · exact Or.inl h
            · exact Or.inr h
          · rintro (h | h)
            · exact Or.inl h
            · exact Or.inr ⟨h, k, hk⟩
        · have hn : ∀ k, s.idx d ≠ .at k := fun k hk => hal ⟨k, hk⟩
          have e1 : (phase1 s d true (some raw)).1 = join s d := by
            cases hk : s.idx d with
            | «at» k => exact absurd ⟨k, hk⟩ hal
            | init => simp [phase1, hk]
            | notAlive => simp [phase1, hk]
          simp only [phase2]
          rw [e1]
          have hij := idxInv_join s d hi hd hn
          have hdj : d < (join s d).n := hd
          obtain ⟨g1, g2, g3, g4, g5, g6, g7, g8⟩ := record_frame (join s d) d raw
          have hold := join_not_alive_mem hi hd hn
          have hb1 : BInv (record (join s d) d raw) := by
            apply binv_record hij hdj
            intro h e he hne
            rcases (mem_join s d e).mp he with he | he
            · have := hs.latCons h e he
              simpa [expSl, join] using this
            · subst he; exact absurd rfl hne
          have : (join s d).offs = s.offs := rfl
          have hL : (join s d).minL = s.minL := rfl
          rw [this, hL]
          apply sinv_decide2_alive hs hm hb1 g2 g4 g6 g7 g8
          intro e
          rw [mem_record raw hij hdj]
          constructor
          · rintro (⟨h1, h2⟩ | ⟨h, _⟩)
            · rcases (mem_join s d e).mp h1 with h1 | h1
              · exact Or.inl ⟨h1, h2⟩
              · subst h1; exact absurd rfl h2
            · exact Or.inr h
          · rintro (⟨h1, h2⟩ | h)
            · exact Or.inl ⟨(mem_join s d e).mpr (Or.inl h1), h2⟩
            · refine Or.inr ⟨h, s.entries.length, ?_⟩
              simp [join, upd]


def snapSl (s : ASet) (snapAll : Nat → Option Int) (d : Nat) : Int :=
  match snapAll d with
  | some raw => raw + s.offs d
  | none => 0

theorem resnap_spec (s : ASet) (snapAll : Nat → Option Int) :
    ∀ (es : List Entry) (lat : Nat → Option Int),
      (resnap s snapAll es lat).1.map (·.d) = es.map (·.d) ∧
      (∀ e' ∈ (resnap s snapAll es lat).1, e'.sl = snapSl s snapAll e'.d) ∧
      (∀ x, (resnap s snapAll es lat).2 x =
        if x ∈ es.map (·.d) then (match snapAll x with | some raw => some raw | none => lat x) else lat x) := by
  intro es
  induction es with
  | nil => intro lat; simp [resnap]
  | cons e es ih =>
    intro lat
    cases hsn : snapAll e.d with
    | some raw =>
      obtain ⟨h1, h2, h3⟩ := ih (upd lat e.d (some raw))
      simp only [resnap, hsn]
      refine ⟨by simp [h1], ?_, ?_⟩
      · intro e' he'
        simp only [List.mem_cons] at he'
        rcases he' with he' | he'
        · subst he'; simp [snapSl, hsn]
        · exact h2 e' he'
      · intro x
        rw [h3 x]
        simp only [List.map_cons, List.mem_cons, upd]
        by_cases hx : x = e.d
        · subst hx; simp [hsn]
        · simp [hx]
    | none =>
      obtain ⟨h1, h2, h3⟩ := ih lat
      simp only [resnap, hsn]
      refine ⟨by simp [h1], ?_, ?_⟩
      · intro e' he'
        simp only [List.mem_cons] at he'
        rcases he' with he' | he'
        · subst he'; simp [snapSl, hsn]
        · exact h2 e' he'
      · intro x
        rw [h3 x]
        simp only [List.map_cons, List.mem_cons]
        by_cases hx : x = e.d
        · subst hx; simp [hsn]
        · simp [hx]

theorem sinv_setPolicy {s : ASet} {p : Policy} {snapAll : Nat → Option Int} (hs : SInv s) :
    SInv (setPolicy s p snapAll) := by
  unfold setPolicy
  by_cases hp : s.policy = p
  · rw [if_pos hp]; exact hs
  · rw [if_neg hp]
    simp only
    cases hm : p.isMin
    · simp only [Bool.not_false, if_true]
      refine sinv_of_nonmin ?_ hm rfl rfl
      refine ⟨idxInv_congr hs.idx rfl rfl rfl rfl, ?_⟩
      intro h; simp only at h; rw [hm] at h; cases h
    · simp only [Bool.not_true, Bool.false_eq_true, if_false]
      obtain ⟨h1, h2, h3⟩ := resnap_spec { s with policy := p, lat := fun _ => none, minL := hour, minD := none }
        snapAll s.entries (fun _ => none)
      apply sinv_calcMin_none _ hm rfl
      refine ⟨idxInv_congr hs.idx rfl rfl (by simp only [ASet.ds]; exact h1) rfl, ?_⟩
      · intro _ e' he'
        simp only at he' ⊢
        have hsl := h2 e' he'
        have hdm : e'.d ∈ s.entries.map (·.d) := by
          rw [← h1]; exact List.mem_map.mpr ⟨e', he', rfl⟩
        rw [hsl]
        simp only [expSl, snapSl, h3 e'.d, hdm, if_true]
        cases snapAll e'.d <;> rfl


theorem calcMin_frame (s : ASet) :
    (calcMin s).n = s.n ∧ (calcMin s).tol = s.tol ∧ (calcMin s).offs = s.offs ∧
    (calcMin s).policy = s.policy ∧ (calcMin s).idx = s.idx ∧ (calcMin s).lat = s.lat ∧
    (calcMin s).entries = s.entries ∧ (calcMin s).panicked = s.panicked := by
  unfold calcMin
  dsimp only
  repeat' split
  all_goals simp

theorem decide2_frame (s : ASet) (d : Nat) (alive : Bool) (sl bakL : Int) :
    (decide2 s d alive sl bakL).n = s.n ∧ (decide2 s d alive sl bakL).idx = s.idx ∧
    (decide2 s d alive sl bakL).entries = s.entries ∧ (decide2 s d alive sl bakL).panicked = s.panicked ∧
    (decide2 s d alive sl bakL).policy = s.policy ∧ (decide2 s d alive sl bakL).tol = s.tol ∧
    (decide2 s d alive sl bakL).offs = s.offs ∧ (decide2 s d alive sl bakL).lat = s.lat := by
  unfold decide2
  dsimp only
  split
  · simp
  · split
    · split
      · split
        · obtain ⟨a, b, c, e, f, g, h, i⟩ := calcMin_frame { s with minL := sl }
          simp [a, b, c, e, f, g, h, i]
        · obtain ⟨a, b, c, e, f, g, h, i⟩ := calcMin_frame { s with minL := sl, minD := none }
          simp [a, b, c, e, f, g, h, i]
      · simp
    · simp

theorem idxInv_phase1 {s : ASet} {d : Nat} (alive : Bool) (snap : Option Int) (h : IdxInv s) (hd : d < s.n) :
    IdxInv (phase1 s d alive snap).1 ∧ (phase1 s d alive snap).1.n = s.n := by
  unfold phase1
  cases alive
  · simp only [Bool.false_eq_true, if_false]
    cases hk : s.idx d with
    | «at» k =>
      simp only
      obtain ⟨f1, _⟩ := removeAt_frame0 s d k
      have hr := idxInv_removeAt s d k h hd hk
      split
      · obtain ⟨a, b, c, e, f, g, hh, i⟩ := calcMin_frame (resetBest (removeAt s d k))
        exact ⟨idxInv_congr hr (by rw [a]; rfl) (by rw [f]; rfl) (by simp only [ASet.ds, hh]; rfl) (by rw [i]; rfl),
          by rw [a]; exact f1⟩
      · exact ⟨hr, f1⟩
    | init => exact ⟨h, rfl⟩
    | notAlive => exact ⟨h, rfl⟩
  · simp only [if_true]
    cases hk : s.idx d with
    | «at» k => exact ⟨h, rfl⟩
    | init => exact ⟨idxInv_join s d h hd (by simp [hk]), rfl⟩
    | notAlive => exact ⟨idxInv_join s d h hd (by simp [hk]), rfl⟩

theorem idxInv_phase2 {s : ASet} {d : Nat} (alive : Bool) (snap : Option Int) (h : IdxInv s) (hd : d < s.n) :
    IdxInv (phase2 s d alive snap).1 ∧ (phase2 s d alive snap).1.n = s.n := by
  unfold phase2
  cases snap with
  | none =>
    simp only
    split
    · exact ⟨idxInv_congr h rfl rfl rfl rfl, rfl⟩
    · exact ⟨h, rfl⟩
  | some raw =>
    simp only
    obtain ⟨a, b, c, e, _⟩ := decide2_frame (record s d raw) d alive (raw + s.offs d) s.minL
    obtain ⟨g1, _⟩ := record_frame s d raw
    exact ⟨idxInv_congr (idxInv_record raw h hd) a b (by simp only [ASet.ds, c]) e, by rw [a, g1]⟩

theorem idxInv_notify {s : ASet} {d : Nat} (alive : Bool) (snap : Option Int) (h : IdxInv s) (hd : d < s.n) :
    IdxInv (notify s d alive snap).1 ∧ (notify s d alive snap).1.n = s.n := by
  unfold notify
  simp only
  obtain ⟨h1, n1⟩ := idxInv_phase1 alive (if s.policy.isMin = true then snap else none) h hd
  obtain ⟨h2, n2⟩ := idxInv_phase2 alive (if s.policy.isMin = true then snap else none) h1 (by rw [n1]; exact hd)
  exact ⟨h2, by rw [n2, n1]⟩

theorem idxInv_setPolicy {s : ASet} (p : Policy) (snapAll : Nat → Option Int) (h : IdxInv s) :
    IdxInv (setPolicy s p snapAll) ∧ (setPolicy s p snapAll).n = s.n := by
  unfold setPolicy
  split
  · exact ⟨h, rfl⟩
  · simp only
    split
    · exact ⟨idxInv_congr h rfl rfl rfl rfl, rfl⟩
    · obtain ⟨h1, _, _⟩ := resnap_spec { s with policy := p, lat := fun _ => none, minL := hour, minD := none }
        snapAll s.entries (fun _ => none)
      obtain ⟨a, b, c, e, f, g, hh, i⟩ := calcMin_frame
        { s with policy := p, lat := (resnap { s with policy := p, lat := fun _ => none, minL := hour, minD := none } snapAll s.entries (fun _ => none)).2,
                 minL := hour, minD := none,
                 entries := (resnap { s with policy := p, lat := fun _ => none, minL := hour, minD := none } snapAll s.entries (fun _ => none)).1 }
      refine ⟨idxInv_congr h (by rw [a]) (by rw [f]) ?_ (by rw [i]), by rw [a]⟩
      simp only [ASet.ds, hh]
      exact h1

/-- every `notify` of the history names a member of the set -/
def HistMem (n : Nat) : List SetEv → Prop
  | [] => True
  | .notify d _ _ :: es => d < n ∧ HistMem n es
  | .setPolicy _ _ :: es => HistMem n es

theorem idxInv_run (h : List SetEv) : ∀ (s : ASet), IdxInv s → HistMem s.n h →
    IdxInv (runSet s h) ∧ (runSet s h).n = s.n := by
  induction h with
  | nil => intro s hs _; exact ⟨hs, rfl⟩
  | cons e es ih =>
    intro s hs hm
    cases e with
    | notify d a sn =>
      obtain ⟨hd, hm'⟩ := hm
      obtain ⟨h1, n1⟩ := idxInv_notify a sn hs hd
      obtain ⟨h2, n2⟩ := ih (notify s d a sn).1 h1 (by rw [n1]; exact hm')
      exact ⟨h2, by rw [← n1]; exact n2⟩
    | setPolicy p sa =>
      obtain ⟨h1, n1⟩ := idxInv_setPolicy p sa hs
      obtain ⟨h2, n2⟩ := ih (setPolicy s p sa) h1 (by rw [n1]; exact hm)
      exact ⟨h2, by rw [← n1]; exact n2⟩

/-- per-event hypotheses of the full invariant -/
def EvOk (s : ASet) : SetEv → Prop
  | .notify d _ sn => NotifyOk s d sn
  | .setPolicy _ _ => True

def HistOk : ASet → List SetEv → Prop
  | _, [] => True
  | s, e :: es => EvOk s e ∧ HistOk (stepSet s e) es

theorem sinv_step {s : ASet} {e : SetEv} (hs : SInv s) (ok : EvOk s e) : SInv (stepSet s e) := by
  cases e with
  | notify d a sn => exact sinv_notify hs ok
  | setPolicy p sa => exact sinv_setPolicy hs

theorem sinv_run (h : List SetEv) : ∀ (s : ASet), SInv s → HistOk s h → SInv (runSet s h) := by
  induction h with
  | nil => intro s hs _; exact hs
  | cons e es ih =>
    intro s hs hok
    exact ih (stepSet s e) (sinv_step hs hok.1) hok.2

theorem sinv_init (n : Nat) (tol : Int) (offs : Nat → Int) (p : Policy) :
    SInv (ASet.init n tol offs p) := by
  refine { idx := idxInv_init n tol offs p, latCons := ?_, nonMin := ?_, nilHour := ?_, nilEmpty := ?_, tolBound := ?_, best := ?_ }
  all_goals simp [ASet.init]


/-! ### GetMinLatency -/

theorem getMin_cases (s : ASet) (excl : Option Nat) :
    (∃ b, s.minD = some b ∧ excl ≠ some b ∧ getMin s excl = (some b, s.minL)) ∨
    ((s.minD = none ∨ excl = s.minD) ∧
      getMin s excl = (if (scanMin s.entries excl).1.isSome then scanMin s.entries excl else (none, hour))) := by
  unfold getMin
  cases hD : s.minD with
  | none => right; simp
  | some b =>
    by_cases he : excl = some b
    · right; simp [he]
    · left; exact ⟨b, rfl, he, by simp [he]⟩

/-- the cached best, if any, is a member of the alive list -/
def BestIn (s : ASet) : Prop := ∀ d, s.minD = some d → ∃ e ∈ s.entries, e.d = d

theorem getMin_some' {s : ASet} (hb : BestIn s)
    {excl : Option Nat} {d : Nat} {L : Int}
    (h : getMin s excl = (some d, L)) : (∃ e ∈ s.entries, e.d = d) ∧ excl ≠ some d := by
  rcases getMin_cases s excl with ⟨b, hb', hne, hg⟩ | ⟨_, hg⟩
  · rw [hg] at h
    have hbd : b = d := by simpa using congrArg (·.1) h
    subst hbd
    exact ⟨hb b hb', hne⟩
  · rw [hg] at h
    obtain ⟨_, _, h3, _⟩ := scanMin_spec s.entries excl
    split at h
    · have := h3 d (by rw [h])
      exact ⟨⟨_, this.1, rfl⟩, this.2⟩
    · cases h

theorem getMin_some {s : ASet} (hs : SInv s) {excl : Option Nat} {d : Nat} {L : Int}
    (h : getMin s excl = (some d, L)) : (∃ e ∈ s.entries, e.d = d) ∧ excl ≠ some d := by
  rcases getMin_cases s excl with ⟨b, hb, hne, hg⟩ | ⟨_, hg⟩
  · rw [hg] at h
    have hbd : b = d := by simpa using congrArg (·.1) h
    subst hbd
    obtain ⟨e, he, hed, _⟩ := hs.best b hb
    exact ⟨⟨e, he, hed⟩, hne⟩
  · rw [hg] at h
    obtain ⟨_, _, h3, _⟩ := scanMin_spec s.entries excl
    split at h
    · have := h3 d (by rw [h])
      exact ⟨⟨_, this.1, rfl⟩, this.2⟩
    · cases h

theorem getMin_none_iff' {s : ASet} (hbi : BestIn s)
    (excl : Option Nat) :
    (getMin s excl).1 = none ↔ ∀ e ∈ s.entries, excl = some e.d := by
  obtain ⟨h1, h2, h3, h4⟩ := scanMin_spec s.entries excl
  rcases getMin_cases s excl with ⟨b, hb, hne, hg⟩ | ⟨hc, hg⟩
  · rw [hg]
    simp only [reduceCtorEq, false_iff]
    intro hall
    obtain ⟨e, he, hed⟩ := hbi b hb
    exact hne (by rw [← hed]; exact hall e he)
  · rw [hg]
    constructor
    · intro hn e he
      have hsn : (scanMin s.entries excl).1 = none := by
        cases hq : (scanMin s.entries excl).1 with
        | none => rfl
        | some x => simp [hq] at hn
      exact h1 hsn e he
    · intro hall
      cases hq : (scanMin s.entries excl).1 with
      | none => simp [hq]
      | some x =>
        have := h3 x hq
        exact absurd (hall _ this.1) this.2

theorem SInv.bestIn {s : ASet} (hs : SInv s) : BestIn s :=
  fun d hd => by obtain ⟨e, he, hed, _⟩ := hs.best d hd; exact ⟨e, he, hed⟩

theorem getMin_none_iff {s : ASet} (hs : SInv s) (excl : Option Nat) :
    (getMin s excl).1 = none ↔ ∀ e ∈ s.entries, excl = some e.d :=
  getMin_none_iff' (fun d hd => by obtain ⟨e, he, hed, _⟩ := hs.best d hd; exact ⟨e, he, hed⟩) excl

/-- the latency returned with the cached best is the best's own sorting latency, unless the best
is the optimistic "first alive, never measured" choice (then it is `time.Hour`) -/
theorem getMin_best_latency {s : ASet} (hs : SInv s) {d : Nat} {L : Int}
    (h : getMin s none = (some d, L)) (hm : s.policy.isMin = true) :
    ∃ e ∈ s.entries, e.d = d ∧ (e.sl = L ∨ (L = hour ∧ s.lat d = none)) := by
  rcases getMin_cases s none with ⟨b, hb, _, hg⟩ | ⟨hc, hg⟩
  · rw [hg] at h
    have hbd : b = d := by simpa using congrArg (·.1) h
    have hL : s.minL = L := by simpa using congrArg (·.2) h
    subst hbd; subst hL
    exact hs.best b hb
  · rcases hc with hc | hc
    · have := hs.nilEmpty hm hc
      rw [hg, this] at h
      simp [scanMin] at h
    · have := hs.nilEmpty hm hc.symm
      rw [hg, this] at h
      simp [scanMin] at h

theorem getMin_tolerance {s : ASet} (hs : SInv s) (hm : s.policy.isMin = true) {d : Nat} {L : Int}
    (h : getMin s none = (some d, L)) :
    ∀ e ∈ s.entries, s.lat e.d ≠ none → ¬ beats s.tol e.sl L := by
  rcases getMin_cases s none with ⟨b, hb, _, hg⟩ | ⟨hc, hg⟩
  · rw [hg] at h
    have hL : s.minL = L := by simpa using congrArg (·.2) h
    subst hL
    exact hs.tolBound hm
  · have hD : s.minD = none := by rcases hc with hc | hc; exact hc; exact hc.symm
    have := hs.nilEmpty hm hD
    rw [hg, this] at h
    simp [scanMin] at h

/-- with the cached best excluded, the answer is a true minimum over the other alive entries -/
theorem getMin_excluded_is_min {s : ASet} {b d : Nat} {L : Int} (hD : s.minD = some b)
    (h : getMin s (some b) = (some d, L)) :
    (⟨d, L⟩ : Entry) ∈ s.entries ∧ d ≠ b ∧ ∀ e ∈ s.entries, e.d ≠ b → L ≤ e.sl := by
  obtain ⟨_, _, h3, h4⟩ := scanMin_spec s.entries (some b)
  rcases getMin_cases s (some b) with ⟨b', hb', hne, _⟩ | ⟨_, hg⟩
  · rw [hD] at hb'; cases hb'; exact absurd rfl hne
  · rw [hg] at h
    split at h
    · have h1 : (scanMin s.entries (some b)).1 = some d := by rw [h]
      have h2 : (scanMin s.entries (some b)).2 = L := by rw [h]
      have := h3 d h1
      rw [h2] at this
      refine ⟨this.1, fun hdb => this.2 (by rw [hdb]), ?_⟩
      intro e he hne
      have := h4 e he (by simp; exact fun h => hne h.symm)
      rw [h2] at this
      exact this
    · cases h

/-! ### GetRandExcluded -/

theorem reservoir_fold (rnd : Nat → Nat) (x : Nat) (es : List Entry) :
    ∀ (seen : List Entry) (acc : Option Nat × Nat),
      ((acc.2 = 0 → acc.1 = none ∧ ∀ e ∈ seen, e.d = x) ∧
       (acc.2 ≠ 0 → ∃ d, acc.1 = some d ∧ d ≠ x ∧ ∃ e ∈ seen, e.d = d)) →
      let r := es.foldl (reservoirStep rnd x) acc
      ((r.2 = 0 → r.1 = none ∧ ∀ e ∈ seen ++ es, e.d = x) ∧
       (r.2 ≠ 0 → ∃ d, r.1 = some d ∧ d ≠ x ∧ ∃ e ∈ seen ++ es, e.d = d)) := by
  induction es with
  | nil => intro seen acc h; simpa using h
  | cons e es ih =>
    intro seen acc h
    have hs : seen ++ e :: es = (seen ++ [e]) ++ es := by simp
    rw [hs, List.foldl_cons]
    apply ih
    obtain ⟨h0, h1⟩ := h
    unfold reservoirStep
    by_cases hex : e.d = x
    · rw [if_pos hex]
      constructor
      · intro hz
        obtain ⟨a, b⟩ := h0 hz
        refine ⟨a, ?_⟩
        intro e' he'
        simp at he'
        rcases he' with he' | he'
        · exact b e' he'
        · subst he'; exact hex
      · intro hz
        obtain ⟨d, a, b, e', he', c⟩ := h1 hz
        exact ⟨d, a, b, e', by simp [he'], c⟩
    · rw [if_neg hex]
      simp only
      split
      · exact ⟨by simp, fun _ => ⟨e.d, rfl, hex, e, by simp, rfl⟩⟩
      · rename_i hr
        constructor
        · simp
        · intro _
          by_cases hz : acc.2 = 0
          · simp [hz] at hr
            omega
          · obtain ⟨d, a, b, e', he', c⟩ := h1 hz
            exact ⟨d, a, b, e', by simp [he'], c⟩

theorem getRand_mem {rnd : Nat → Nat} {s : ASet} {excl : Option Nat} {d : Nat}
    (h : getRand rnd s excl = some d) : d ∈ randCands s excl := by
  unfold getRand at h
  split at h
  · cases h
  · cases excl with
    | none =>
      simp only at h
      cases hq : s.entries[rnd s.entries.length % s.entries.length]? with
      | none => simp [hq] at h
      | some e =>
        simp [hq] at h
        simp only [randCands, List.mem_filter, List.mem_map]
        exact ⟨⟨e, List.mem_iff_getElem?.mpr ⟨_, hq⟩, h⟩, by simp⟩
    | some x =>
      simp only at h
      have := reservoir_fold rnd x s.entries [] (none, 0) ⟨by simp, by simp⟩
      simp only [List.nil_append] at this
      obtain ⟨h0, h1⟩ := this
      by_cases hz : (s.entries.foldl (reservoirStep rnd x) (none, 0)).2 = 0
      · rw [(h0 hz).1] at h; cases h
      · obtain ⟨d', a, b, e, he, c⟩ := h1 hz
        rw [a] at h; cases h
        simp only [randCands, List.mem_filter, List.mem_map]
        exact ⟨⟨e, he, c⟩, by simp; exact fun h => b h.symm⟩

theorem getRand_none_iff (rnd : Nat → Nat) (s : ASet) (excl : Option Nat) :
    getRand rnd s excl = none ↔ randCands s excl = [] := by
  unfold getRand
  by_cases hemp : s.entries = []
  · simp [hemp, randCands]
  · have hne : s.entries.isEmpty = false := by simp [hemp]
    simp only [hne, Bool.false_eq_true, if_false]
    cases excl with
    | none =>
      simp only
      have hpos : 0 < s.entries.length := List.length_pos_iff.mpr hemp
      have hlt : rnd s.entries.length % s.entries.length < s.entries.length := Nat.mod_lt _ hpos
      constructor
      · intro h
        rw [List.getElem?_eq_getElem hlt] at h
        simp at h
      · intro h
        simp only [randCands] at h
        have : s.entries.map (·.d) = [] := by
          have := List.filter_eq_nil_iff.mp h
          cases hq : s.entries.map (·.d) with
          | nil => rfl
          | cons a l => have := this a (by rw [hq]; simp); simp at this
        simp at this
        exact absurd this hemp
    | some x =>
      simp only
      have := reservoir_fold rnd x s.entries [] (none, 0) ⟨by simp, by simp⟩
      simp only [List.nil_append] at this
      obtain ⟨h0, h1⟩ := this
      constructor
      · intro h
        by_cases hz : (s.entries.foldl (reservoirStep rnd x) (none, 0)).2 = 0
        · have := (h0 hz).2
          simp only [randCands]
          apply List.filter_eq_nil_iff.mpr
          intro d hd
          obtain ⟨e, he, hed⟩ := List.mem_map.mp hd
          simp [← hed, this e he]
        · obtain ⟨d', a, _⟩ := h1 hz
          rw [a] at h; cases h
      · intro h
        by_cases hz : (s.entries.foldl (reservoirStep rnd x) (none, 0)).2 = 0
        · exact (h0 hz).1
        · obtain ⟨d', a, b, e, he, c⟩ := h1 hz
          have : d' ∈ randCands s (some x) := by
            simp only [randCands, List.mem_filter, List.mem_map]
            exact ⟨⟨e, he, c⟩, by simp; exact fun h => b h.symm⟩
          rw [h] at this; cases this

theorem mem_randCands (s : ASet) (excl : Option Nat) (d : Nat) :
    d ∈ randCands s excl ↔ (∃ e ∈ s.entries, e.d = d) ∧ excl ≠ some d := by
  simp [randCands]


theorem firstPick_some {α} {pick : NetType → Option α} {ts : List NetType} {ty : NetType} {x : α}
    (h : firstPick pick ts = some (ty, x)) : ty ∈ ts ∧ pick ty = some x := by
  induction ts with
  | nil => simp [firstPick] at h
  | cons t ts ih =>
    unfold firstPick at h
    cases hp : pick t with
    | some y =>
      rw [hp] at h
      simp only [Option.some.injEq, Prod.mk.injEq] at h
      obtain ⟨h1, h2⟩ := h
      subst h1; subst h2
      exact ⟨by simp, hp⟩
    | none =>
      rw [hp] at h
      have := ih h
      exact ⟨by simp [this.1], this.2⟩

theorem firstPick_none {α} {pick : NetType → Option α} {ts : List NetType} :
    firstPick pick ts = none ↔ ∀ ty ∈ ts, pick ty = none := by
  induction ts with
  | nil => simp [firstPick]
  | cons t ts ih =>
    unfold firstPick
    cases hp : pick t with
    | some y => simp [hp]
    | none => simp [hp, ih]

/-- the group invariant: the six sets exist exactly for the policies that need them, each
satisfies the set invariant and runs the group's policy -/
structure GInv (g : Group) : Prop where
  hasSets : g.hasSets = needsAlive g.policy
  sets : g.hasSets = true → ∀ t, SInv (g.sets t) ∧ (g.sets t).policy = g.policy ∧
    (g.sets t).n = g.n ∧ (g.sets t).tol = g.tol ∧ (g.sets t).offs = g.offs

/-- what `_select` answers under the three kinds of policy -/
theorem select1_fixed (rnd : Nat → Nat → Nat) (g : Group) (t : NetType) (fi : Int) (excl : Option Nat) :
    select1 rnd g t .fixed fi excl =
      if g.n = 0 then .error .noDialers
      else if fi < 0 ∨ (g.n : Int) ≤ fi then .error .outOfRange
      else .ok ⟨fi.toNat, 0, (preferAlt g fi.toNat t).index⟩ := by
  unfold select1; rfl

theorem select1_random (rnd : Nat → Nat → Nat) (g : Group) (t : NetType) (fi : Int) (excl : Option Nat) :
    select1 rnd g t .random fi excl =
      if g.n = 0 then .error .noDialers
      else match firstPick (fun ty => getRand (rnd ty.index) (g.sets ty.index) excl) (chain t .random) with
        | some (ty, d) => .ok ⟨d, 0, (preferAlt g d ty).index⟩
        | none => .error .noAlive := by
  unfold select1; rfl

theorem select1_min (rnd : Nat → Nat → Nat) (g : Group) (t : NetType) (p : Policy) (hp : p.isMin = true)
    (fi : Int) (excl : Option Nat) :
    select1 rnd g t p fi excl =
      if g.n = 0 then .error .noDialers
      else match firstPick (fun ty =>
          let r := getMin (g.sets ty.index) excl
          r.1.map (fun d => (d, r.2))) (chain t p) with
        | some (ty, (d, l)) => .ok ⟨d, l, (preferAlt g d ty).index⟩
        | none => .error .noAlive := by
  cases p <;> simp [Policy.isMin] at hp <;> (unfold select1; rfl)

/-- `_select` under an alive-state policy: an answer comes from the first consulted domain that
has a non-excluded alive member; "no alive" exactly when no consulted domain has one. -/
theorem select1_spec {rnd : Nat → Nat → Nat} {g : Group} {t : NetType} {p : Policy} {fi : Int}
    {excl : Option Nat} (hp : p ≠ .fixed) (hs : ∀ ty, BestIn (g.sets ty)) :
    (∀ x, select1 rnd g t p fi excl = .ok x →
      ∃ ty ∈ chain t p, (∃ e ∈ (g.sets ty.index).entries, e.d = x.d) ∧ excl ≠ some x.d ∧
        (p.isMin = true → getMin (g.sets ty.index) excl = (some x.d, x.lat)) ∧
        x.sel = (preferAlt g x.d ty).index) ∧
    (select1 rnd g t p fi excl = .error .noAlive ↔
      g.n ≠ 0 ∧ ∀ ty ∈ chain t p, ∀ e ∈ (g.sets ty.index).entries, excl = some e.d) ∧
    (∀ e, select1 rnd g t p fi excl = .error e → e = .noAlive ∨ (e = .noDialers ∧ g.n = 0)) := by
  by_cases hr : p = .random
  · subst hr
    rw [select1_random]
    by_cases hn : g.n = 0
    · simp [hn]
    · simp only [hn, if_false]
      cases hf : firstPick (fun ty => getRand (rnd ty.index) (g.sets ty.index) excl) (chain t .random) with
      | some r =>
        obtain ⟨ty, d⟩ := r
        obtain ⟨hty, hpick⟩ := firstPick_some hf
        have hmem := (mem_randCands _ _ _).mp (getRand_mem hpick)
        refine ⟨?_, ?_, ?_⟩
        · intro x hx
          simp only [Except.ok.injEq] at hx
          subst hx
          exact ⟨ty, hty, hmem.1, hmem.2, by simp [Policy.isMin], rfl⟩
        · simp only [reduceCtorEq, ne_eq, false_iff, not_and]
          intro _ hall
          obtain ⟨e, he, hed⟩ := hmem.1
          exact hmem.2 (by rw [← hed]; exact hall ty hty e he)
        · intro e he; cases he
      | none =>
        have hall := firstPick_none.mp hf
        refine ⟨(by intro x hx; cases hx), ?_, (by intro e he; cases he; exact Or.inl rfl)⟩
        simp only [true_iff]
        refine ⟨hn, ?_⟩
        intro ty hty e he
        have := (getRand_none_iff _ _ _).mp (hall ty hty)
        apply Classical.byContradiction
        intro hne
        have : e.d ∈ randCands (g.sets ty.index) excl := (mem_randCands _ _ _).mpr ⟨⟨e, he, rfl⟩, hne⟩
        simp_all
  · have hm : p.isMin = true := by cases p <;> simp_all [Policy.isMin]
    rw [select1_min rnd g t p hm]
    by_cases hn : g.n = 0
    · simp [hn]
    · simp only [hn, if_false]
      cases hf : firstPick (fun ty =>
          let r := getMin (g.sets ty.index) excl
          r.1.map (fun d => (d, r.2))) (chain t p) with
      | some r =>
        obtain ⟨ty, d, l⟩ := r
        obtain ⟨hty, hpick⟩ := firstPick_some hf
        simp only at hpick
        have hgm : getMin (g.sets ty.index) excl = (some d, l) := by
          cases hq : getMin (g.sets ty.index) excl with
          | mk a b =>
            rw [hq] at hpick
            cases a with
            | none => simp at hpick
            | some a => simp at hpick; rw [hpick.1, hpick.2]
        have hal := getMin_some' (hs ty.index) hgm
        refine ⟨?_, ?_, ?_⟩
        · intro x hx
          simp only [Except.ok.injEq] at hx
          subst hx
          exact ⟨ty, hty, hal.1, hal.2, fun _ => hgm, rfl⟩
        · simp only [reduceCtorEq, ne_eq, false_iff, not_and]
          intro _ hall
          obtain ⟨e, he, hed⟩ := hal.1
          exact hal.2 (by rw [← hed]; exact hall ty hty e he)
        · intro e he; cases he
      | none =>
        have hall := firstPick_none.mp hf
        refine ⟨(by intro x hx; cases hx), ?_, (by intro e he; cases he; exact Or.inl rfl)⟩
        simp only [true_iff]
        refine ⟨hn, ?_⟩
        intro ty hty
        have := hall ty hty
        simp only [Option.map_eq_none_iff] at this
        exact (getMin_none_iff' (hs ty.index) excl).mp this


theorem mem_tried (g : Group) (t : NetType) (strict : Bool) (ty : NetType) :
    ty ∈ tried g t strict ↔ ty ∈ chain t g.policy ∨ (strict = false ∧ ty ∈ chain t.flip g.policy) := by
  unfold tried
  cases strict <;> simp

theorem select_fixed (rnd : Nat → Nat → Nat → Nat) (g : Group) (t : NetType) (strict : Bool)
    (excl : Option Nat) (hp : g.policy = .fixed) (h0 : 0 ≤ g.fixedIdx) (h1 : g.fixedIdx < g.n) :
    select rnd g t strict excl = .ok ⟨g.fixedIdx.toNat, 0, (preferAlt g g.fixedIdx.toNat t).index⟩ := by
  unfold select
  rw [hp, select1_fixed]
  have hn : g.n ≠ 0 := by omega
  have hr : ¬ (g.fixedIdx < 0 ∨ (g.n : Int) ≤ g.fixedIdx) := by omega
  simp [hn, hr]

/-- the answer of the last resort (`_select` with `fixed(0)` in a one-node group) -/
theorem select1_lastResort (rnd : Nat → Nat → Nat) (g : Group) (t : NetType) (excl : Option Nat) (hn : g.n = 1) :
    select1 rnd g t .fixed 0 excl = .ok ⟨0, 0, (preferAlt g 0 t).index⟩ := by
  rw [select1_fixed]
  simp [hn]

theorem select_ok {rnd : Nat → Nat → Nat → Nat} {g : Group} {t : NetType} {strict : Bool}
    {excl : Option Nat} (hp : g.policy ≠ .fixed) (hs : ∀ ty, BestIn (g.sets ty)) {x : SelOk}
    (h : select rnd g t strict excl = .ok x) :
    (∃ ty ∈ tried g t strict, (∃ e ∈ (g.sets ty.index).entries, e.d = x.d) ∧ excl ≠ some x.d ∧
      (g.policy.isMin = true → getMin (g.sets ty.index) excl = (some x.d, x.lat))) ∨
    (strict = true ∧ g.n = 1 ∧ x.d = 0 ∧ x.lat = dialTimeout ∧
      ∀ ty ∈ chain t g.policy, ∀ e ∈ (g.sets ty.index).entries, excl = some e.d) := by
  obtain ⟨a1, b1, c1⟩ := select1_spec (rnd := rnd 0) (g := g) (t := t) (fi := g.fixedIdx) (excl := excl) hp hs
  obtain ⟨a2, b2, c2⟩ := select1_spec (rnd := rnd 1) (g := g) (t := t.flip) (fi := g.fixedIdx) (excl := excl) hp hs
  unfold select at h
  cases h1 : select1 (rnd 0) g t g.policy g.fixedIdx excl with
  | ok r =>
    rw [h1] at h
    simp only [Except.ok.injEq] at h
    subst h
    obtain ⟨ty, hty, hal⟩ := a1 r h1
    exact Or.inl ⟨ty, (mem_tried g t strict ty).mpr (Or.inl hty), hal.1, hal.2.1, hal.2.2.1⟩
  | error e =>
    rw [h1] at h
    rcases c1 e h1 with he | ⟨he, hn⟩
    · subst he
      simp only at h
      cases strict
      · simp only [Bool.not_false, if_true] at h
        obtain ⟨ty, hty, hal⟩ := a2 x h
        exact Or.inl ⟨ty, (mem_tried g t false ty).mpr (Or.inr ⟨rfl, hty⟩), hal.1, hal.2.1, hal.2.2.1⟩
      · simp only [Bool.not_true, Bool.false_eq_true, if_false] at h
        by_cases hn : g.n = 1
        · rw [if_pos hn, select1_lastResort _ _ _ _ hn] at h
          simp only [Except.ok.injEq] at h
          subst h
          exact Or.inr ⟨rfl, hn, rfl, rfl, (b1.mp h1).2⟩
        · rw [if_neg hn] at h; cases h
    · subst he; simp only at h; cases h

theorem select_noAlive_iff {rnd : Nat → Nat → Nat → Nat} {g : Group} {t : NetType} {strict : Bool}
    {excl : Option Nat} (hp : g.policy ≠ .fixed) (hs : ∀ ty, BestIn (g.sets ty)) :
    select rnd g t strict excl = .error .noAlive ↔
      g.n ≠ 0 ∧ ¬ (strict = true ∧ g.n = 1) ∧
      ∀ ty ∈ tried g t strict, ∀ e ∈ (g.sets ty.index).entries, excl = some e.d := by
  obtain ⟨a1, b1, c1⟩ := select1_spec (rnd := rnd 0) (g := g) (t := t) (fi := g.fixedIdx) (excl := excl) hp hs
  obtain ⟨a2, b2, c2⟩ := select1_spec (rnd := rnd 1) (g := g) (t := t.flip) (fi := g.fixedIdx) (excl := excl) hp hs
  unfold select
  cases h1 : select1 (rnd 0) g t g.policy g.fixedIdx excl with
  | ok r =>
    simp only [reduceCtorEq, false_iff, not_and]
    intro hn _ hall
    obtain ⟨ty, hty, ⟨e, he, hed⟩, hne, _⟩ := a1 r h1
    exact hne (by rw [← hed]; exact hall ty ((mem_tried g t strict ty).mpr (Or.inl hty)) e he)
  | error e =>
    rcases c1 e h1 with he | ⟨he, hn⟩
    · subst he
      obtain ⟨hn, hall1⟩ := b1.mp h1
      simp only
      cases strict
      · simp only [Bool.not_false, if_true, Bool.false_eq_true, false_and, not_false_eq_true, true_and]
        rw [b2]
        constructor
        · rintro ⟨_, hall2⟩
          refine ⟨hn, ?_⟩
          intro ty hty
          rcases (mem_tried g t false ty).mp hty with h | ⟨_, h⟩
          · exact hall1 ty h
          · exact hall2 ty h
        · rintro ⟨_, hall⟩
          exact ⟨hn, fun ty hty => hall ty ((mem_tried g t false ty).mpr (Or.inr ⟨rfl, hty⟩))⟩
      · simp only [Bool.not_true, Bool.false_eq_true, if_false, true_and]
        by_cases hn1 : g.n = 1
        · rw [if_pos hn1, select1_lastResort _ _ _ _ hn1]
          simp [hn1]
        · rw [if_neg hn1]
          simp only [true_iff]
          refine ⟨hn, hn1, ?_⟩
          intro ty hty
          rcases (mem_tried g t true ty).mp hty with h | ⟨h, _⟩
          · exact hall1 ty h
          · cases h
    · subst he
      simp [hn]

/-! ### `select` against the deterministic "all answers" form printed by the driver -/

theorem firstPick_rel {α β} {p1 : NetType → Option α} {p2 : NetType → Option β} (R : α → β → Prop)
    (hrel : ∀ ty, (p1 ty = none ∧ p2 ty = none) ∨ (∃ a b, p1 ty = some a ∧ p2 ty = some b ∧ R a b))
    (ts : List NetType) :
    (firstPick p1 ts = none ∧ firstPick p2 ts = none) ∨
    (∃ ty a b, firstPick p1 ts = some (ty, a) ∧ firstPick p2 ts = some (ty, b) ∧ R a b) := by
  induction ts with
  | nil => left; simp [firstPick]
  | cons t ts ih =>
    unfold firstPick
    rcases hrel t with ⟨h1, h2⟩ | ⟨a, b, h1, h2, hr⟩
    · rw [h1, h2]; exact ih
    · rw [h1, h2]; right; exact ⟨t, a, b, rfl, rfl, hr⟩

theorem select1_mem_all (rnd : Nat → Nat → Nat) (g : Group) (t : NetType) (p : Policy) (fi : Int)
    (excl : Option Nat) :
    match select1 rnd g t p fi excl with
    | .ok x => ∃ l, select1All g t p fi excl = .ok l ∧ x ∈ l
    | .error e => select1All g t p fi excl = .error e := by
  by_cases hr : p = .random
  · subst hr
    rw [select1_random]
    unfold select1All
    simp only
    by_cases hn : g.n = 0
    · simp [hn]
    · simp only [hn, if_false]
      have := firstPick_rel (p1 := fun ty => getRand (rnd ty.index) (g.sets ty.index) excl)
        (p2 := fun ty => if (randCands (g.sets ty.index) excl).isEmpty then none else some (randCands (g.sets ty.index) excl))
        (fun d c => d ∈ c) (by
          intro ty
          cases hq : getRand (rnd ty.index) (g.sets ty.index) excl with
          | none =>
            left
            have := (getRand_none_iff _ _ _).mp hq
            simp [this]
          | some d =>
            right
            have hm := getRand_mem hq
            have hne : (randCands (g.sets ty.index) excl).isEmpty = false := by
              cases hc : randCands (g.sets ty.index) excl with
              | nil => rw [hc] at hm; cases hm
              | cons a l => rfl
            exact ⟨d, _, rfl, by simp [hne], hm⟩) (chain t .random)
      rcases this with ⟨h1, h2⟩ | ⟨ty, a, b, h1, h2, hr⟩
      · rw [h1, h2]
      · rw [h1, h2]
        simp only
        exact ⟨_, rfl, List.mem_map.mpr ⟨a, hr, rfl⟩⟩
  · have : select1All g t p fi excl = (select1 (fun _ _ => 0) g t p fi excl).map (fun r => [r]) := by
      cases p <;> simp_all [select1All]
    rw [this]
    have hindep : select1 rnd g t p fi excl = select1 (fun _ _ => 0) g t p fi excl := by
      cases p <;> first | exact absurd rfl hr | rfl
    rw [hindep]
    cases select1 (fun _ _ => 0) g t p fi excl with
    | ok x => exact ⟨[x], rfl, by simp⟩
    | error e => rfl

theorem select_mem_all (rnd : Nat → Nat → Nat → Nat) (g : Group) (t : NetType) (strict : Bool)
    (excl : Option Nat) :
    match select rnd g t strict excl with
    | .ok x => ∃ l, selectAll g t strict excl = .ok l ∧ x ∈ l
    | .error e => selectAll g t strict excl = .error e := by
  have m0 := select1_mem_all (rnd 0) g t g.policy g.fixedIdx excl
  have m1 := select1_mem_all (rnd 1) g t.flip g.policy g.fixedIdx excl
  have m2 := select1_mem_all (rnd 1) g t .fixed 0 excl
  unfold select selectAll
  cases h0 : select1 (rnd 0) g t g.policy g.fixedIdx excl with
  | ok x =>
    rw [h0] at m0
    obtain ⟨l, hl, hx⟩ := m0
    rw [hl]
    exact ⟨l, rfl, hx⟩
  | error e =>
    rw [h0] at m0
    simp only at m0
    rw [m0]
    cases e with
    | noAlive =>
      simp only
      cases strict
      · simp only [Bool.not_false, if_true]
        exact m1
      · simp only [Bool.not_true, Bool.false_eq_true, if_false]
        by_cases hn : g.n = 1
        · simp only [hn, if_true]
          cases h2 : select1 (rnd 1) g t .fixed 0 excl with
          | ok x =>
            rw [h2] at m2
            obtain ⟨l, hl, hx⟩ := m2
            rw [hl]
            exact ⟨_, rfl, List.mem_map.mpr ⟨x, hx, rfl⟩⟩
          | error e =>
            rw [h2] at m2
            simp only at m2
            rw [m2]
        · simp [hn]
    | noDialers => rfl
    | outOfRange => rfl
    | unsupported => rfl


/-- the state on which the measured branch decides, and what it contains -/
theorem notify_some_eq {s : ASet} {d : Nat} {alive : Bool} {raw : Int} (hs : SInv s)
    (hm : s.policy.isMin = true) (ok : NotifyOk s d (some raw)) :
    ∃ s1, (notify s d alive (some raw)).1 = decide2 s1 d alive (raw + s.offs d) s.minL ∧
      BInv s1 ∧ s1.tol = s.tol ∧ s1.policy = s.policy ∧ s1.lat = upd s.lat d (some raw) ∧
      s1.minD = s.minD ∧ s1.minL = s.minL ∧
      (∀ e, e ∈ s1.entries ↔ (e ∈ s.entries ∧ e.d ≠ d) ∨ (alive = true ∧ e = ⟨d, raw + s.offs d⟩)) := by
  have hi := hs.idx
  have hd := ok.dlt
  unfold notify
  simp only [hm, if_true]
  cases alive
  · by_cases hal : ∃ k, s.idx d = .at k
    · obtain ⟨k, hk⟩ := hal
      obtain ⟨f1, f2, f3, f4, f5, f6, f7, f8⟩ := removeAt_frame hi hd hk
      have hb0 := binv_removeAt hs.toBInv hd hk
      have e1 : (phase1 s d false (some raw)).1 = removeAt s d k := by simp [phase1, hk, hm]
      obtain ⟨g1, g2, g3, g4, g5, g6, g7, g8⟩ := record_frame (removeAt s d k) d raw
      have hd0 : d < (removeAt s d k).n := by rw [f1]; exact hd
      have hb1 : BInv (record (removeAt s d k) d raw) :=
        binv_record hb0.idx hd0 (fun h e he _ => hb0.latCons h e he)
      refine ⟨record (removeAt s d k) d raw, ?_, hb1, by rw [g2, f2], by rw [g4, f4], by rw [g6, f5], by rw [g7, f6], by rw [g8, f7], ?_⟩
      · simp only [phase2]; rw [e1, f3, f7]
      · intro e
        rw [mem_record raw hb0.idx hd0, mem_removeAt hi hd hk]
        constructor
        · rintro (⟨⟨h1, h2⟩, _⟩ | ⟨_, k', hk'⟩)
          · exact Or.inl ⟨h1, h2⟩
          · exact absurd hk' (f8 k')
        · rintro (h | ⟨h, _⟩)
          · exact Or.inl ⟨h, h.2⟩
          · cases h
    · have hn : ∀ k, s.idx d ≠ .at k := fun k hk => hal ⟨k, hk⟩
      have e1 : (phase1 s d false (some raw)).1 = s := by
        cases hk : s.idx d with
        | «at» k => exact absurd ⟨k, hk⟩ hal
        | init => simp [phase1, hk]
        | notAlive => simp [phase1, hk]
      obtain ⟨g1, g2, g3, g4, g5, g6, g7, g8⟩ := record_frame s d raw
      have hb1 : BInv (record s d raw) :=
        binv_record hi hd (fun h e he _ => hs.latCons h e he)
      refine ⟨record s d raw, ?_, hb1, g2, g4, g6, g7, g8, ?_⟩
      · simp only [phase2]; rw [e1]
      · intro e
        rw [mem_record raw hi hd]
        constructor
        · rintro (⟨h1, h2⟩ | ⟨_, k', hk'⟩)
          · exact Or.inl ⟨h1, h2⟩
          · exact absurd hk' (hn k')
        · rintro (h | ⟨h, _⟩)
          · exact Or.inl h
          · cases h
  · by_cases hal : ∃ k, s.idx d = .at k
    · obtain ⟨k, hk⟩ := hal
      have e1 : (phase1 s d true (some raw)).1 = s := by simp [phase1, hk]
      obtain ⟨g1, g2, g3, g4, g5, g6, g7, g8⟩ := record_frame s d raw
      have hb1 : BInv (record s d raw) :=
        binv_record hi hd (fun h e he _ => hs.latCons h e he)
      refine ⟨record s d raw, ?_, hb1, g2, g4, g6, g7, g8, ?_⟩
      · simp only [phase2]; rw [e1]
      · intro e
        rw [mem_record raw hi hd]
        constructor
        · rintro (h | ⟨h, _⟩)
          · exact Or.inl h
          · exact Or.inr ⟨rfl, h⟩
        · rintro (h | ⟨_, h⟩)
          · exact Or.inl h
          · exact Or.inr ⟨h, k, hk⟩
    · have hn : ∀ k, s.idx d ≠ .at k := fun k hk => hal ⟨k, hk⟩
      have e1 : (phase1 s d true (some raw)).1 = join s d := by
        cases hk : s.idx d with
        | «at» k => exact absurd ⟨k, hk⟩ hal
        | init => simp [phase1, hk]
        | notAlive => simp [phase1, hk]
      have hij := idxInv_join s d hi hd hn
      have hdj : d < (join s d).n := hd
      obtain ⟨g1, g2, g3, g4, g5, g6, g7, g8⟩ := record_frame (join s d) d raw
      have hb1 : BInv (record (join s d) d raw) := by
        apply binv_record hij hdj
        intro h e he hne
        rcases (mem_join s d e).mp he with he | he
        · have := hs.latCons h e he
          simpa [expSl, join] using this
        · subst he; exact absurd rfl hne
      refine ⟨record (join s d) d raw, ?_, hb1, g2, g4, g6, g7, g8, ?_⟩
      · simp only [phase2]; rw [e1]; rfl
      · intro e
        rw [mem_record raw hij hdj]
        constructor
        · rintro (⟨h1, h2⟩ | ⟨h, _⟩)
          · rcases (mem_join s d e).mp h1 with h1 | h1
            · exact Or.inl ⟨h1, h2⟩
            · subst h1; exact absurd rfl h2
          · exact Or.inr ⟨rfl, h⟩
        · rintro (⟨h1, h2⟩ | ⟨_, h⟩)
          · exact Or.inl ⟨(mem_join s d e).mpr (Or.inl h1), h2⟩
          · refine Or.inr ⟨h, s.entries.length, ?_⟩
            simp [join, upd]

/-- when `calcMin` replaces a non-nil cached best, the new one passed the gate against it -/
theorem calcMin_change {s : ASet} {b b' : Nat} (hD : s.minD = some b) (hD' : (calcMin s).minD = some b')
    (hne : b ≠ b') :
    (⟨b', (calcMin s).minL⟩ : Entry) ∈ s.entries ∧ gate s.tol (calcMin s).minL s.minL = true := by
  obtain ⟨_, _, h3, _⟩ := scanMin_spec s.entries none
  unfold calcMin at hD' ⊢
  rw [hD] at hD' ⊢
  simp only at hD' ⊢
  split at hD'
  · rename_i hc
    simp only [Bool.and_eq_true] at hc
    rw [if_pos (by simp [hc])]
    simp only at hD' ⊢
    exact ⟨(h3 b' hD').1, hc.2⟩
  · rw [hD] at hD'; cases hD'; exact absurd rfl hne

/-- **the tolerance rule as a relation between consecutive states** (one notification) -/
theorem switch_notify {s : ASet} {d : Nat} {alive : Bool} {snap : Option Int} (hs : SInv s)
    (hm : s.policy.isMin = true) (ok : NotifyOk s d snap) {b b' : Nat}
    (hb : s.minD = some b) (hb' : (notify s d alive snap).1.minD = some b') (hne : b ≠ b') :
    (¬ ∃ e ∈ (notify s d alive snap).1.entries, e.d = b) ∨
    (notify s d alive snap).1.lat b = none ∨
    (∃ eb ∈ (notify s d alive snap).1.entries, ∃ eb' ∈ (notify s d alive snap).1.entries,
      eb.d = b ∧ eb'.d = b' ∧ eb'.sl ≤ eb.sl ∧ (eb'.sl + s.tol ≤ eb.sl ∨ eb.sl < s.tol)) := by
  have hi := hs.idx
  have hd := ok.dlt
  cases snap with
  | some raw =>
    obtain ⟨s1, heq, hb1, ft, fp, fl, fD, fL, hmem⟩ := notify_some_eq (alive := alive) hs hm ok
    rw [heq] at hb' ⊢
    obtain ⟨_, _, fe, _, _, _, _, flat⟩ := decide2_frame s1 d alive (raw + s.offs d) s.minL
    rw [fe, flat]
    unfold decide2 at hb'
    cases alive
    · -- dead: only change is "best died"
      simp only [Bool.false_and, Bool.false_eq_true, if_false, Bool.not_false, Bool.true_or, if_true] at hb'
      by_cases hD : s1.minD = some d
      · left
        rintro ⟨e, he, hed⟩
        rw [fD, hb] at hD
        cases hD
        rcases (hmem e).mp he with ⟨_, h⟩ | ⟨h, _⟩
        · exact h hed
        · cases h
      · rw [if_neg hD, fD, hb] at hb'; cases hb'; exact absurd rfl hne
    · have hisn : s1.minD.isNone = false := by rw [fD, hb]; rfl
      simp only [Bool.true_and, Bool.not_true, Bool.false_or, hisn] at hb'
      obtain ⟨eb, heb, hebd, hebl⟩ := hs.best b hb
      by_cases hg : gate s1.tol (raw + s.offs d) s1.minL = true
      · rw [if_pos hg] at hb'
        simp only [Option.some.injEq] at hb'
        subst hb'
        have hbd : eb.d ≠ d := by rw [hebd]; exact hne
        rcases hebl with hebl | ⟨_, hl⟩
        · right; right
          rw [gate_iff, ft, fL] at hg
          refine ⟨eb, (hmem eb).mpr (Or.inl ⟨heb, hbd⟩), ⟨d, raw + s.offs d⟩, (hmem _).mpr (Or.inr ⟨rfl, rfl⟩), hebd, rfl, ?_, ?_⟩
          · simp only; omega
          · simp only; omega
        · right; left
          rw [fl]; simp [upd, hne, hl]
      · rw [if_neg hg] at hb'
        by_cases hD : s1.minD = some d
        · rw [if_pos hD] at hb'
          have hbd : b = d := by rw [fD, hb] at hD; cases hD; rfl
          subst hbd
          by_cases hw : raw + s.offs b > s.minL
          · simp only [hw, decide_true, if_true] at hb'
            obtain ⟨hmemb, hgate⟩ := calcMin_change (s := { s1 with minL := raw + s.offs b }) hD hb' hne
            right; right
            rw [gate_iff] at hgate
            simp only at hmemb hgate
            refine ⟨⟨b, raw + s.offs b⟩, (hmem _).mpr (Or.inr ⟨rfl, rfl⟩), _, hmemb, rfl, rfl, ?_, ?_⟩
            · simp only; omega
            · simp only; omega
          · simp only [hw, decide_false, Bool.false_eq_true, if_false] at hb'
            rw [hD] at hb'; cases hb'; exact absurd rfl hne
        · rw [if_neg hD, fD, hb] at hb'; cases hb'; exact absurd rfl hne
  | none =>
    -- without a measurement the cached best changes only when it is the node that died
    have hlat : s.lat d = none := by
      have := ok.mono hm
      cases hl : s.lat d with
      | none => rfl
      | some r => exact absurd rfl (this (by simp [hl]))
    unfold notify at hb' ⊢
    simp only [hm, if_true] at hb' ⊢
    cases alive
    · by_cases hal : ∃ k, s.idx d = .at k
      · obtain ⟨k, hk⟩ := hal
        by_cases hD : s.minD = some d
        · have e1 : (phase1 s d false none).1 = calcMin (resetBest (removeAt s d k)) := by
            simp [phase1, hk, hm, hD]
          simp only [phase2, Bool.false_and, Bool.false_eq_true, if_false] at hb' ⊢
          rw [e1]
          left
          obtain ⟨_, _, _, _, _, _, fe, _⟩ := calcMin_frame (resetBest (removeAt s d k))
          rw [fe]
          rintro ⟨e, he, hed⟩
          have : b = d := by rw [hb] at hD; cases hD; rfl
          subst this
          exact ((mem_removeAt hi hd hk e).mp he).2 hed
        · have e1 : (phase1 s d false none).1 = removeAt s d k := by
            simp [phase1, hk, hm, hD]
          simp only [phase2, Bool.false_and, Bool.false_eq_true, if_false] at hb'
          rw [e1, (removeAt_frame0 s d k).2.2.2.2.2.1, hb] at hb'
          cases hb'; exact absurd rfl hne
      · have e1 : (phase1 s d false none).1 = s := by
          cases hk : s.idx d with
          | «at» k => exact absurd ⟨k, hk⟩ hal
          | init => simp [phase1, hk]
          | notAlive => simp [phase1, hk]
        simp only [phase2, Bool.false_and, Bool.false_eq_true, if_false] at hb'
        rw [e1, hb] at hb'
        cases hb'; exact absurd rfl hne
    · have hnn : s.minD.isNone = false := by rw [hb]; rfl
      by_cases hal : ∃ k, s.idx d = .at k
      · obtain ⟨k, hk⟩ := hal
        have e1 : (phase1 s d true none).1 = s := by simp [phase1, hk]
        simp only [phase2] at hb'
        rw [e1] at hb'
        simp only [hnn, Bool.and_false, Bool.false_eq_true, if_false] at hb'
        rw [hb] at hb'; cases hb'; exact absurd rfl hne
      · have e1 : (phase1 s d true none).1 = join s d := by
          cases hk : s.idx d with
          | «at» k => exact absurd ⟨k, hk⟩ hal
          | init => simp [phase1, hk]
          | notAlive => simp [phase1, hk]
        simp only [phase2] at hb'
        rw [e1] at hb'
        have : (join s d).minD.isNone = false := hnn
        simp only [this, Bool.and_false, Bool.false_eq_true, if_false] at hb'
        have : (join s d).minD = s.minD := rfl
        rw [this, hb] at hb'; cases hb'; exact absurd rfl hne


theorem phase1_frame (s : ASet) (d : Nat) (alive : Bool) (snap : Option Int) :
    (phase1 s d alive snap).1.n = s.n ∧ (phase1 s d alive snap).1.tol = s.tol ∧
    (phase1 s d alive snap).1.offs = s.offs ∧ (phase1 s d alive snap).1.policy = s.policy ∧
    (phase1 s d alive snap).1.lat = s.lat := by
  unfold phase1
  cases alive
  · simp only [Bool.false_eq_true, if_false]
    cases hk : s.idx d with
    | «at» k =>
      simp only
      obtain ⟨a1, a2, a3, a4, a5, _⟩ := removeAt_frame0 s d k
      split
      · obtain ⟨b1, b2, b3, b4, _, b6, _⟩ := calcMin_frame (resetBest (removeAt s d k))
        exact ⟨by rw [b1]; exact a1, by rw [b2]; exact a2, by rw [b3]; exact a3, by rw [b4]; exact a4, by rw [b6]; exact a5⟩
      · exact ⟨a1, a2, a3, a4, a5⟩
    | init => simp
    | notAlive => simp
  · simp only [if_true]
    cases hk : s.idx d <;> simp [join]

theorem phase2_frame (s : ASet) (d : Nat) (alive : Bool) (snap : Option Int) :
    (phase2 s d alive snap).1.n = s.n ∧ (phase2 s d alive snap).1.tol = s.tol ∧
    (phase2 s d alive snap).1.offs = s.offs ∧ (phase2 s d alive snap).1.policy = s.policy ∧
    (phase2 s d alive snap).1.lat = (match snap with | some raw => upd s.lat d (some raw) | none => s.lat) := by
  unfold phase2
  cases snap with
  | none => simp only; split <;> simp
  | some raw =>
    simp only
    obtain ⟨a, _, _, _, b, c, e, f⟩ := decide2_frame (record s d raw) d alive (raw + s.offs d) s.minL
    obtain ⟨g1, g2, g3, g4, _, g6, _⟩ := record_frame s d raw
    rw [a, b, c, e, f, g1, g2, g3, g4, g6]
    simp

theorem notify_frame (s : ASet) (d : Nat) (alive : Bool) (snap : Option Int) :
    (notify s d alive snap).1.n = s.n ∧ (notify s d alive snap).1.tol = s.tol ∧
    (notify s d alive snap).1.offs = s.offs ∧ (notify s d alive snap).1.policy = s.policy ∧
    (∀ x, (notify s d alive snap).1.lat x ≠ none → s.lat x ≠ none ∨ (x = d ∧ snap ≠ none)) := by
  unfold notify
  simp only
  obtain ⟨a1, a2, a3, a4, a5⟩ := phase1_frame s d alive (if s.policy.isMin = true then snap else none)
  obtain ⟨b1, b2, b3, b4, b5⟩ := phase2_frame (phase1 s d alive (if s.policy.isMin = true then snap else none)).1 d alive
    (if s.policy.isMin = true then snap else none)
  refine ⟨by rw [b1, a1], by rw [b2, a2], by rw [b3, a3], by rw [b4, a4], ?_⟩
  intro x hx
  rw [b5, a5] at hx
  cases hm : s.policy.isMin
  · simp [hm] at hx; exact Or.inl hx
  · simp only [hm, if_true] at hx
    cases snap with
    | none => exact Or.inl hx
    | some raw =>
      simp only [upd] at hx
      by_cases hxd : x = d
      · exact Or.inr ⟨hxd, by simp⟩
      · simp [hxd] at hx; exact Or.inl hx

theorem setPolicy_frame (s : ASet) (p : Policy) (snapAll : Nat → Option Int) :
    (setPolicy s p snapAll).n = s.n ∧ (setPolicy s p snapAll).tol = s.tol ∧
    (setPolicy s p snapAll).offs = s.offs ∧ (setPolicy s p snapAll).policy = p := by
  unfold setPolicy
  split
  · rename_i h; simp [h]
  · simp only
    split
    · simp
    · obtain ⟨a, b, c, e, _⟩ := calcMin_frame
        { s with policy := p, lat := (resnap { s with policy := p, lat := fun _ => none, minL := hour, minD := none } snapAll s.entries (fun _ => none)).2,
                 minL := hour, minD := none,
                 entries := (resnap { s with policy := p, lat := fun _ => none, minL := hour, minD := none } snapAll s.entries (fun _ => none)).1 }
      rw [a, b, c, e]
      simp

/-! ### `notifyAll` (construction of a set) -/

theorem notifyAll_fst (alive : Nat → Bool) (snap : Nat → Option Int) (ds : List Nat) :
    ∀ (s : ASet) (c : List Bool),
      (ds.foldl (fun (acc : ASet × List Bool) d =>
          let r := notify acc.1 d (alive d) (snap d); (r.1, acc.2 ++ r.2)) (s, c)).1 =
      (ds.foldl (fun (acc : ASet × List Bool) d =>
          let r := notify acc.1 d (alive d) (snap d); (r.1, acc.2 ++ r.2)) (s, [])).1 := by
  induction ds with
  | nil => intro s c; rfl
  | cons d ds ih =>
    intro s c
    simp only [List.foldl_cons]
    rw [ih _ (c ++ _), ih _ ([] ++ _)]

theorem notifyAll_cons (s : ASet) (d : Nat) (ds : List Nat) (alive : Nat → Bool) (snap : Nat → Option Int) :
    (notifyAll s (d :: ds) alive snap).1 = (notifyAll (notify s d (alive d) (snap d)).1 ds alive snap).1 := by
  unfold notifyAll
  simp only [List.foldl_cons]
  exact notifyAll_fst alive snap ds (notify s d (alive d) (snap d)).1 ([] ++ (notify s d (alive d) (snap d)).2)

/-- a set with the group's parameters, the group's policy and a lat map that only knows
measurements the snapshot function confirms -/
structure Good (n : Nat) (tol : Int) (offs : Nat → Int) (p : Policy) (s : ASet) : Prop where
  inv : SInv s
  pol : s.policy = p
  hn : s.n = n
  ht : s.tol = tol
  ho : s.offs = offs

theorem good_notifyAll {n : Nat} {tol : Int} {offs : Nat → Int} {p : Policy} (snap : Nat → Option Int)
    (alive : Nat → Bool) :
    ∀ (ds : List Nat) (s : ASet), (∀ d ∈ ds, d < n) → Good n tol offs p s →
      (∀ x, s.lat x ≠ none → snap x ≠ none) →
      Good n tol offs p (notifyAll s ds alive snap).1 ∧
      (∀ x, (notifyAll s ds alive snap).1.lat x ≠ none → snap x ≠ none) := by
  intro ds
  induction ds with
  | nil => intro s _ hg hl; exact ⟨hg, hl⟩
  | cons d ds ih =>
    intro s hds hg hl
    rw [notifyAll_cons]
    obtain ⟨f1, f2, f3, f4, f5⟩ := notify_frame s d (alive d) (snap d)
    have ok : NotifyOk s d (snap d) := ⟨by rw [hg.hn]; exact hds d (by simp), fun _ h => hl d h⟩
    apply ih
    · intro d' hd'; exact hds d' (by simp [hd'])
    · exact ⟨sinv_notify hg.inv ok, by rw [f4, hg.pol], by rw [f1, hg.hn], by rw [f2, hg.ht], by rw [f3, hg.ho]⟩
    · intro x hx
      rcases f5 x hx with h | ⟨h1, h2⟩
      · exact hl x h
      · rw [h1]; exact h2

theorem good_init (n : Nat) (tol : Int) (offs : Nat → Int) (p : Policy) :
    Good n tol offs p (ASet.init n tol offs p) :=
  ⟨sinv_init n tol offs p, rfl, rfl, rfl, rfl⟩

theorem good_built {n : Nat} {tol : Int} {offs : Nat → Int} (p : Policy)
    (snap : Nat → Option Int) (alive : Nat → Bool) :
    Good n tol offs p (notifyAll (ASet.new n tol offs p false snap).1 (List.range n) alive snap).1 := by
  have h0 := good_notifyAll (p := p) snap (fun _ => false) (List.range n) (ASet.init n tol offs p)
    (by intro d hd; exact List.mem_range.mp hd) (good_init n tol offs p) (by intro x hx; simp [ASet.init] at hx)
  have h1 := good_notifyAll (p := p) snap alive (List.range n) (ASet.new n tol offs p false snap).1
    (by intro d hd; exact List.mem_range.mp hd) h0.1 h0.2
  exact h1.1

theorem good_buildSets (g : Group) (p : Policy) (snap : Nat → Nat → Option Int) :
    ∀ t, Good g.n g.tol g.offs p ((buildSets g p snap).1 t) := by
  unfold buildSets
  have key : ∀ (ts : List Nat) (acc : (Nat → ASet) × List GCb),
      (∀ t, Good g.n g.tol g.offs p (acc.1 t)) →
      ∀ t, Good g.n g.tol g.offs p ((ts.foldl (fun acc t =>
        let r0 := ASet.new g.n g.tol g.offs p false (snap t)
        let r1 := notifyAll r0.1 (List.range g.n) (g.alive t) (snap t)
        (upd acc.1 t r1.1, acc.2 ++ (r0.2 ++ r1.2).map (fun b => (⟨b, t, false⟩ : GCb)))) acc).1 t) := by
    intro ts
    induction ts with
    | nil => intro acc h; exact h
    | cons t ts ih =>
      intro acc h
      simp only [List.foldl_cons]
      apply ih
      intro t'
      simp only [upd]
      split
      · exact good_built p (snap t) (g.alive t)
      · exact h t'
  exact key (List.range 6) _ (fun _ => good_init g.n g.tol g.offs p)

/-! ### the group invariant over all histories -/

/-- per-event hypothesis at group level: notifications name members, and a dialer a set has a
latency for (under the current policy) keeps reporting one. Policy switches are unconstrained. -/
def GEvOk (g : Group) : GEv → Prop
  | .notify t d _ sn => g.hasSets = true → NotifyOk (g.sets t) d sn
  | .setPolicy _ _ _ => True

def GHistOk : Group → List GEv → Prop
  | _, [] => True
  | g, e :: es => GEvOk g e ∧ GHistOk (stepG g e) es

theorem ginv_of_good {g : Group} (h1 : g.hasSets = needsAlive g.policy)
    (h2 : g.hasSets = true → ∀ t, Good g.n g.tol g.offs g.policy (g.sets t)) : GInv g :=
  ⟨h1, fun hh t => ⟨(h2 hh t).inv, (h2 hh t).pol, (h2 hh t).hn, (h2 hh t).ht, (h2 hh t).ho⟩⟩

theorem ginv_gNew (n : Nat) (tol : Int) (offs : Nat → Int) (p : Policy) (fi : Int)
    (alive : Nat → Nat → Bool) (snap : Nat → Nat → Option Int) :
    GInv (gNew n tol offs p fi alive snap).1 := by
  unfold gNew
  simp only
  cases hna : needsAlive p
  · simp only [Bool.false_eq_true, if_false]
    exact ginv_of_good (by simp [hna]) (by intro h; cases h)
  · simp only [if_true]
    refine ginv_of_good (by simp [hna]) ?_
    intro _ t
    exact good_buildSets (⟨n, tol, offs, p, fi, false, fun _ => ASet.init n tol offs p, alive⟩ : Group) p snap t

theorem ginv_step {g : Group} {e : GEv} (hg : GInv g) (ok : GEvOk g e) : GInv (stepG g e) := by
  cases e with
  | notify t d a sn =>
    simp only [stepG, gNotify]
    cases hh : g.hasSets
    · simp only [Bool.false_eq_true, if_false]
      exact ⟨by have := hg.hasSets; rw [hh] at this; exact this, by intro h; cases h⟩
    · simp only [if_true]
      have okn : NotifyOk (g.sets t) d sn := ok hh
      obtain ⟨f1, f2, f3, f4, _⟩ := notify_frame (g.sets t) d a sn
      obtain ⟨i1, i2, i3, i4, i5⟩ := hg.sets hh t
      refine ⟨by have := hg.hasSets; rw [hh] at this; exact this, ?_⟩
      intro _ t'
      simp only [upd]
      split
      · exact ⟨sinv_notify i1 okn, by rw [f4, i2], by rw [f1, i3], by rw [f2, i4], by rw [f3, i5]⟩
      · exact hg.sets hh t'
  | setPolicy p fi snap =>
    simp only [stepG, gSetPolicy]
    cases h1 : needsAlive g.policy <;> cases h2 : needsAlive p
    · simp only
      refine ⟨by simp only; rw [h2, ← h1]; exact hg.hasSets, ?_⟩
      intro h; simp only at h; rw [hg.hasSets, h1] at h; cases h
    · simp only
      refine ginv_of_good (by simp [h2]) ?_
      intro _ t
      exact good_buildSets g p snap t
    · simp only
      exact ⟨by simp [h2], by intro h; cases h⟩
    · simp only
      have hh : g.hasSets = true := by rw [hg.hasSets, h1]
      refine ⟨by simp only; rw [h2]; exact hh, ?_⟩
      intro _ t
      obtain ⟨i1, i2, i3, i4, i5⟩ := hg.sets hh t
      simp only
      split
      · obtain ⟨f1, f2, f3, f4⟩ := setPolicy_frame (g.sets t) p (snap t)
        exact ⟨sinv_setPolicy i1, f4, by rw [f1, i3], by rw [f2, i4], by rw [f3, i5]⟩
      · rename_i hpp
        have : g.policy = p := by
          apply Classical.byContradiction; intro h; exact hpp h
        exact ⟨i1, by rw [i2, this], i3, i4, i5⟩

theorem ginv_run (h : List GEv) : ∀ (g : Group), GInv g → GHistOk g h → GInv (runG g h) := by
  induction h with
  | nil => intro g hg _; exact hg
  | cons e es ih =>
    intro g hg hok
    exact ih (stepG g e) (ginv_step hg hok.1) hok.2


/-! ### the hypothesis-free part: the cached best is always a member of the alive list

Needs nothing but "notifications name members": no assumption on latencies, offsets, tolerance,
or on the order in which measurements appear. -/

structure MInv (s : ASet) : Prop where
  idx : IdxInv s
  nonMin : s.policy.isMin = false → s.minD = none
  bestIn : ∀ d, s.minD = some d → ∃ e ∈ s.entries, e.d = d

theorem calcMin_bestIn {s : ASet} (h : ∀ d, s.minD = some d → ∃ e ∈ s.entries, e.d = d) :
    ∀ d, (calcMin s).minD = some d → ∃ e ∈ (calcMin s).entries, e.d = d := by
  obtain ⟨_, _, h3, _⟩ := scanMin_spec s.entries none
  obtain ⟨_, _, _, _, _, _, fe, _⟩ := calcMin_frame s
  intro d hd
  rw [fe]
  unfold calcMin at hd
  dsimp only at hd
  split at hd
  · exact ⟨_, (h3 d hd).1, rfl⟩
  · split at hd
    · exact ⟨_, (h3 d hd).1, rfl⟩
    · exact h d hd

theorem minv_init (n : Nat) (tol : Int) (offs : Nat → Int) (p : Policy) : MInv (ASet.init n tol offs p) :=
  ⟨idxInv_init n tol offs p, fun _ => rfl, by intro d h; simp [ASet.init] at h⟩

theorem minv_notify {s : ASet} {d : Nat} (alive : Bool) (snap : Option Int) (hs : MInv s) (hd : d < s.n) :
    MInv (notify s d alive snap).1 := by
  have hi := hs.idx
  obtain ⟨hi', _⟩ := idxInv_notify alive snap hi hd
  obtain ⟨_, _, _, fpol, _⟩ := notify_frame s d alive snap
  refine ⟨hi', ?_, ?_⟩
  · -- random / fixed: the cached best stays nil
    intro hm
    rw [fpol] at hm
    have hD := hs.nonMin hm
    unfold notify
    simp only [hm, Bool.false_eq_true, if_false]
    have p1 : (phase1 s d alive none).1.minD = none ∧ (phase1 s d alive none).1.policy = s.policy := by
      refine ⟨?_, (phase1_frame s d alive none).2.2.2.1⟩
      unfold phase1
      cases alive
      · simp only [Bool.false_eq_true, if_false, hm, Bool.false_and]
        cases hk : s.idx d with
        | «at» k => simp only; rw [(removeAt_frame0 s d k).2.2.2.2.2.1]; exact hD
        | init => exact hD
        | notAlive => exact hD
      · simp only [if_true]
        cases hk : s.idx d <;> simp [join, hD]
    unfold phase2
    simp only [p1.2, hm, Bool.false_and, Bool.and_false, Bool.false_eq_true, if_false]
    exact p1.1
  · intro b hb
    by_cases hm : s.policy.isMin = true
    · unfold notify at hb ⊢
      simp only [hm, if_true] at hb ⊢
      cases snap with
      | none =>
        cases alive
        · by_cases hal : ∃ k, s.idx d = .at k
          · obtain ⟨k, hk⟩ := hal
            by_cases hD : s.minD = some d
            · have e1 : (phase1 s d false none).1 = calcMin (resetBest (removeAt s d k)) := by
                simp [phase1, hk, hm, hD]
              simp only [phase2, Bool.false_and, Bool.false_eq_true, if_false] at hb ⊢
              rw [e1] at hb ⊢
              exact calcMin_bestIn (by intro d' h; simp [resetBest] at h) b hb
            · have e1 : (phase1 s d false none).1 = removeAt s d k := by
                simp [phase1, hk, hm, hD]
              simp only [phase2, Bool.false_and, Bool.false_eq_true, if_false] at hb ⊢
              rw [e1] at hb ⊢
              rw [(removeAt_frame0 s d k).2.2.2.2.2.1] at hb
              obtain ⟨e, he, hed⟩ := hs.bestIn b hb
              have hne : e.d ≠ d := by rw [hed]; intro h; apply hD; rw [hb, h]
              exact ⟨e, (mem_removeAt hi hd hk e).mpr ⟨he, hne⟩, hed⟩
          · have e1 : (phase1 s d false none).1 = s := by
              cases hk : s.idx d with
              | «at» k => exact absurd ⟨k, hk⟩ hal
              | init => simp [phase1, hk]
              | notAlive => simp [phase1, hk]
            simp only [phase2, Bool.false_and, Bool.false_eq_true, if_false] at hb ⊢
            rw [e1] at hb ⊢
            exact hs.bestIn b hb
        · by_cases hal : ∃ k, s.idx d = .at k
          · obtain ⟨k, hk⟩ := hal
            have e1 : (phase1 s d true none).1 = s := by simp [phase1, hk]
            simp only [phase2] at hb ⊢
            rw [e1] at hb ⊢
            split at hb
            · rw [if_pos (by assumption)]
              simp only at hb ⊢
              cases hb
              exact (alive_iff hi hd).mp ⟨k, hk⟩
            · rw [if_neg (by assumption)]
              exact hs.bestIn b hb
          · have e1 : (phase1 s d true none).1 = join s d := by
              cases hk : s.idx d with
              | «at» k => exact absurd ⟨k, hk⟩ hal
              | init => simp [phase1, hk]
              | notAlive => simp [phase1, hk]
            simp only [phase2] at hb ⊢
            rw [e1] at hb ⊢
            split at hb
            · rw [if_pos (by assumption)]
              simp only at hb ⊢
              cases hb
              exact ⟨⟨d, 0⟩, by simp [join], rfl⟩
            · rw [if_neg (by assumption)]
              obtain ⟨e, he, hed⟩ := hs.bestIn b hb
              exact ⟨e, (mem_join s d e).mpr (Or.inl he), hed⟩
      | some raw =>
        -- entries after phase1 + record, in terms of the old ones
        have key : ∃ s1, (phase2 (phase1 s d alive (some raw)).1 d alive (some raw)).1
              = decide2 s1 d alive (raw + s.offs d) s.minL ∧ s1.minD = s.minD ∧
            (∀ e ∈ s.entries, e.d ≠ d → ∃ e' ∈ s1.entries, e'.d = e.d) ∧
            (alive = true → ∃ e' ∈ s1.entries, e'.d = d) := by
          cases alive
          · by_cases hal : ∃ k, s.idx d = .at k
            · obtain ⟨k, hk⟩ := hal
              obtain ⟨f1, f2, f3, f4, f5, f6, f7, f8⟩ := removeAt_frame hi hd hk
              have hi0 := idxInv_removeAt s d k hi hd hk
              have hd0 : d < (removeAt s d k).n := by rw [f1]; exact hd
              have e1 : (phase1 s d false (some raw)).1 = removeAt s d k := by simp [phase1, hk, hm]
              obtain ⟨g1, g2, g3, g4, g5, g6, g7, g8⟩ := record_frame (removeAt s d k) d raw
              refine ⟨record (removeAt s d k) d raw, by simp only [phase2]; rw [e1, f3, f7], by rw [g7, f6], ?_, by intro h; cases h⟩
              intro e he hne
              exact ⟨e, (mem_record raw hi0 hd0 e).mpr (Or.inl ⟨(mem_removeAt hi hd hk e).mpr ⟨he, hne⟩, hne⟩), rfl⟩
            · have e1 : (phase1 s d false (some raw)).1 = s := by
                cases hk : s.idx d with
                | «at» k => exact absurd ⟨k, hk⟩ hal
                | init => simp [phase1, hk]
                | notAlive => simp [phase1, hk]
              obtain ⟨g1, g2, g3, g4, g5, g6, g7, g8⟩ := record_frame s d raw
              refine ⟨record s d raw, by simp only [phase2]; rw [e1], g7, ?_, by intro h; cases h⟩
              intro e he hne
              exact ⟨e, (mem_record raw hi hd e).mpr (Or.inl ⟨he, hne⟩), rfl⟩
          · by_cases hal : ∃ k, s.idx d = .at k
            · obtain ⟨k, hk⟩ := hal
              have e1 : (phase1 s d true (some raw)).1 = s := by simp [phase1, hk]
              obtain ⟨g1, g2, g3, g4, g5, g6, g7, g8⟩ := record_frame s d raw
              refine ⟨record s d raw, by simp only [phase2]; rw [e1], g7, ?_, ?_⟩
              · intro e he hne
                exact ⟨e, (mem_record raw hi hd e).mpr (Or.inl ⟨he, hne⟩), rfl⟩
              · intro _
                exact ⟨_, (mem_record raw hi hd _).mpr (Or.inr ⟨rfl, k, hk⟩), rfl⟩
            · have hn : ∀ k, s.idx d ≠ .at k := fun k hk => hal ⟨k, hk⟩
              have e1 : (phase1 s d true (some raw)).1 = join s d := by
                cases hk : s.idx d with
                | «at» k => exact absurd ⟨k, hk⟩ hal
                | init => simp [phase1, hk]
                | notAlive => simp [phase1, hk]
              have hij := idxInv_join s d hi hd hn
              have hdj : d < (join s d).n := hd
              obtain ⟨g1, g2, g3, g4, g5, g6, g7, g8⟩ := record_frame (join s d) d raw
              refine ⟨record (join s d) d raw, by simp only [phase2]; rw [e1]; rfl, by rw [g7]; rfl, ?_, ?_⟩
              · intro e he hne
                exact ⟨e, (mem_record raw hij hdj e).mpr (Or.inl ⟨(mem_join s d e).mpr (Or.inl he), hne⟩), rfl⟩
              · intro _
                exact ⟨_, (mem_record raw hij hdj _).mpr (Or.inr ⟨rfl, s.entries.length, by simp [join, upd]⟩), rfl⟩
        obtain ⟨s1, heq, fD, hold, hnew⟩ := key
        rw [heq] at hb ⊢
        obtain ⟨_, _, fe, _⟩ := decide2_frame s1 d alive (raw + s.offs d) s.minL
        rw [fe]
        have hold' : ∀ b, s.minD = some b → b ≠ d → ∃ e' ∈ s1.entries, e'.d = b := by
          intro b hb hne
          obtain ⟨e, he, hed⟩ := hs.bestIn b hb
          obtain ⟨e', he', hed'⟩ := hold e he (by rw [hed]; exact hne)
          exact ⟨e', he', by rw [hed', hed]⟩
        unfold decide2 at hb
        split at hb
        · rename_i hc
          simp only [Bool.and_eq_true] at hc
          simp only at hb; cases hb
          exact hnew hc.1
        · split at hb
          · rename_i hD
            split at hb
            · -- recomputed
              rename_i hc
              have := calcMin_bestIn (s := if alive = true then { s1 with minL := raw + s.offs d } else { s1 with minL := raw + s.offs d, minD := none })
                (by
                  cases alive
                  · intro d' h; simp at h
                  · intro d' h
                    simp only [if_true] at h ⊢
                    rw [hD] at h; cases h
                    exact hnew rfl) b hb
              obtain ⟨e, he, hed⟩ := this
              obtain ⟨_, _, _, _, _, _, fe2, _⟩ := calcMin_frame (if alive = true then { s1 with minL := raw + s.offs d } else { s1 with minL := raw + s.offs d, minD := none })
              rw [fe2] at he
              refine ⟨e, ?_, hed⟩
              cases alive <;> simpa using he
            · rename_i hc
              simp only at hb
              rw [hD] at hb; cases hb
              have hal : alive = true := by
                cases alive
                · simp at hc
                · rfl
              exact hnew hal
          · rename_i hD
            rw [fD] at hb hD
            exact hold' b hb (by intro h; apply hD; rw [hb, h])
    · -- non-min: nil
      have hm' : s.policy.isMin = false := by cases h : s.policy.isMin <;> simp_all
      have : (notify s d alive snap).1.minD = none := by
        have hD := hs.nonMin hm'
        unfold notify
        simp only [hm', Bool.false_eq_true, if_false]
        have p1 : (phase1 s d alive none).1.minD = none ∧ (phase1 s d alive none).1.policy = s.policy := by
          refine ⟨?_, (phase1_frame s d alive none).2.2.2.1⟩
          unfold phase1
          cases alive
          · simp only [Bool.false_eq_true, if_false, hm', Bool.false_and]
            cases hk : s.idx d with
            | «at» k => simp only; rw [(removeAt_frame0 s d k).2.2.2.2.2.1]; exact hD
            | init => exact hD
            | notAlive => exact hD
          · simp only [if_true]
            cases hk : s.idx d <;> simp [join, hD]
        unfold phase2
        simp only [p1.2, hm', Bool.false_and, Bool.and_false, Bool.false_eq_true, if_false]
        exact p1.1
      rw [this] at hb; cases hb


theorem minv_setPolicy {s : ASet} (p : Policy) (snapAll : Nat → Option Int) (hs : MInv s) :
    MInv (setPolicy s p snapAll) := by
  obtain ⟨hi', _⟩ := idxInv_setPolicy p snapAll hs.idx
  obtain ⟨_, _, _, fp⟩ := setPolicy_frame s p snapAll
  unfold setPolicy at fp ⊢
  by_cases hp : s.policy = p
  · rw [if_pos hp]; exact hs
  · rw [if_neg hp] at fp ⊢
    simp only at fp ⊢
    cases hm : p.isMin
    · simp only [Bool.not_false, if_true]
      exact ⟨idxInv_congr hs.idx rfl rfl rfl rfl, fun _ => rfl, by intro d h; cases h⟩
    · simp only [hm, Bool.not_true, Bool.false_eq_true, if_false] at fp ⊢
      have hi2 := hi'
      unfold setPolicy at hi2
      rw [if_neg hp] at hi2
      simp only [hm, Bool.not_true, Bool.false_eq_true, if_false] at hi2
      refine ⟨hi2, ?_, ?_⟩
      · intro h; rw [fp, hm] at h; cases h
      · exact calcMin_bestIn (by intro d h; cases h)

theorem minv_run (h : List SetEv) : ∀ (s : ASet), MInv s → HistMem s.n h → MInv (runSet s h) := by
  induction h with
  | nil => intro s hs _; exact hs
  | cons e es ih =>
    intro s hs hm
    cases e with
    | notify d a sn =>
      obtain ⟨hd, hm'⟩ := hm
      have n1 := (notify_frame s d a sn).1
      exact ih (notify s d a sn).1 (minv_notify a sn hs hd) (by rw [n1]; exact hm')
    | setPolicy p sa =>
      have n1 := (setPolicy_frame s p sa).1
      exact ih (setPolicy s p sa) (minv_setPolicy p sa hs) (by rw [n1]; exact hm)

/-! ### group level, hypothesis-free part -/

structure GMInv (g : Group) : Prop where
  hasSets : g.hasSets = needsAlive g.policy
  sets : ∀ t, MInv (g.sets t) ∧ (g.sets t).n = g.n

theorem minv_notifyAll (alive : Nat → Bool) (snap : Nat → Option Int) :
    ∀ (ds : List Nat) (s : ASet), (∀ d ∈ ds, d < s.n) → MInv s →
      MInv (notifyAll s ds alive snap).1 ∧ (notifyAll s ds alive snap).1.n = s.n := by
  intro ds
  induction ds with
  | nil => intro s _ hs; exact ⟨hs, rfl⟩
  | cons d ds ih =>
    intro s hds hs
    rw [notifyAll_cons]
    have n1 := (notify_frame s d (alive d) (snap d)).1
    obtain ⟨h1, h2⟩ := ih (notify s d (alive d) (snap d)).1 (by intro d' hd'; rw [n1]; exact hds d' (by simp [hd']))
      (minv_notify (alive d) (snap d) hs (hds d (by simp)))
    exact ⟨h1, by rw [h2, n1]⟩

theorem minv_built (n : Nat) (tol : Int) (offs : Nat → Int) (p : Policy) (snap : Nat → Option Int)
    (alive : Nat → Bool) :
    MInv (notifyAll (ASet.new n tol offs p false snap).1 (List.range n) alive snap).1 ∧
    (notifyAll (ASet.new n tol offs p false snap).1 (List.range n) alive snap).1.n = n := by
  obtain ⟨h0, n0⟩ := minv_notifyAll (fun _ => false) snap (List.range n) (ASet.init n tol offs p)
    (by intro d hd; exact List.mem_range.mp hd) (minv_init n tol offs p)
  have n0' : (ASet.new n tol offs p false snap).1.n = n := n0
  obtain ⟨h1, n1⟩ := minv_notifyAll alive snap (List.range n) (ASet.new n tol offs p false snap).1
    (by intro d hd; rw [n0']; exact List.mem_range.mp hd) h0
  exact ⟨h1, by rw [n1, n0']⟩

theorem minv_buildSets (g : Group) (p : Policy) (snap : Nat → Nat → Option Int) :
    ∀ t, MInv ((buildSets g p snap).1 t) ∧ ((buildSets g p snap).1 t).n = g.n := by
  unfold buildSets
  have key : ∀ (ts : List Nat) (acc : (Nat → ASet) × List GCb),
      (∀ t, MInv (acc.1 t) ∧ (acc.1 t).n = g.n) →
      ∀ t, MInv ((ts.foldl (fun acc t =>
        let r0 := ASet.new g.n g.tol g.offs p false (snap t)
        let r1 := notifyAll r0.1 (List.range g.n) (g.alive t) (snap t)
        (upd acc.1 t r1.1, acc.2 ++ (r0.2 ++ r1.2).map (fun b => (⟨b, t, false⟩ : GCb)))) acc).1 t) ∧
        ((ts.foldl (fun acc t =>
        let r0 := ASet.new g.n g.tol g.offs p false (snap t)
        let r1 := notifyAll r0.1 (List.range g.n) (g.alive t) (snap t)
        (upd acc.1 t r1.1, acc.2 ++ (r0.2 ++ r1.2).map (fun b => (⟨b, t, false⟩ : GCb)))) acc).1 t).n = g.n := by
    intro ts
    induction ts with
    | nil => intro acc h; exact h
    | cons t ts ih =>
      intro acc h
      simp only [List.foldl_cons]
      apply ih
      intro t'
      simp only [upd]
      split
      · exact minv_built g.n g.tol g.offs p (snap t) (g.alive t)
      · exact h t'
  exact key (List.range 6) _ (fun _ => ⟨minv_init g.n g.tol g.offs p, rfl⟩)

/-- every `notify` of a group history names a member -/
def GHistMem (n : Nat) : List GEv → Prop
  | [] => True
  | .notify _ d _ _ :: es => d < n ∧ GHistMem n es
  | .setPolicy _ _ _ :: es => GHistMem n es

theorem gminv_gNew (n : Nat) (tol : Int) (offs : Nat → Int) (p : Policy) (fi : Int)
    (alive : Nat → Nat → Bool) (snap : Nat → Nat → Option Int) :
    GMInv (gNew n tol offs p fi alive snap).1 ∧ (gNew n tol offs p fi alive snap).1.n = n := by
  unfold gNew
  simp only
  cases hna : needsAlive p
  · simp only [Bool.false_eq_true, if_false]
    exact ⟨⟨by simp [hna], fun _ => ⟨minv_init n tol offs p, rfl⟩⟩, trivial⟩
  · simp only [if_true]
    exact ⟨⟨by simp [hna], minv_buildSets (⟨n, tol, offs, p, fi, false, fun _ => ASet.init n tol offs p, alive⟩ : Group) p snap⟩, trivial⟩

theorem gminv_step {g : Group} {e : GEv} (hg : GMInv g) (hm : GHistMem g.n [e]) :
    GMInv (stepG g e) ∧ (stepG g e).n = g.n := by
  cases e with
  | notify t d a sn =>
    have hd : d < g.n := hm.1
    simp only [stepG, gNotify]
    cases hh : g.hasSets
    · simp only [Bool.false_eq_true, if_false]
      exact ⟨⟨by have := hg.hasSets; rw [hh] at this; exact this, hg.sets⟩, trivial⟩
    · simp only [if_true]
      refine ⟨⟨by have := hg.hasSets; rw [hh] at this; exact this, ?_⟩, trivial⟩
      intro t'
      simp only [upd]
      split
      · obtain ⟨i1, i2⟩ := hg.sets t
        exact ⟨minv_notify a sn i1 (by rw [i2]; exact hd), by rw [(notify_frame (g.sets t) d a sn).1, i2]⟩
      · exact hg.sets t'
  | setPolicy p fi snap =>
    simp only [stepG, gSetPolicy]
    cases h1 : needsAlive g.policy <;> cases h2 : needsAlive p
    · simp only
      exact ⟨⟨by simp only; rw [h2, ← h1]; exact hg.hasSets, hg.sets⟩, trivial⟩
    · simp only
      exact ⟨⟨by simp [h2], minv_buildSets g p snap⟩, trivial⟩
    · simp only
      exact ⟨⟨by simp [h2], hg.sets⟩, trivial⟩
    · simp only
      have hh : g.hasSets = true := by rw [hg.hasSets, h1]
      refine ⟨⟨by simp only; rw [h2]; exact hh, ?_⟩, trivial⟩
      intro t
      obtain ⟨i1, i2⟩ := hg.sets t
      simp only
      split
      · exact ⟨minv_setPolicy p (snap t) i1, by rw [(setPolicy_frame (g.sets t) p (snap t)).1, i2]⟩
      · exact ⟨i1, i2⟩

theorem gminv_run (h : List GEv) : ∀ (g : Group), GMInv g → GHistMem g.n h → GMInv (runG g h) := by
  induction h with
  | nil => intro g hg _; exact hg
  | cons e es ih =>
    intro g hg hm
    have hm1 : GHistMem g.n [e] := by
      cases e with
      | notify t d a sn => exact ⟨hm.1, trivial⟩
      | setPolicy p fi sn => trivial
    obtain ⟨h1, h2⟩ := gminv_step hg hm1
    refine ih (stepG g e) h1 ?_
    rw [h2]
    cases e with
    | notify t d a sn => exact hm.2
    | setPolicy p fi sn => exact hm

/-! ### selection with only the hypothesis-free invariant -/

theorem select1_ok_alive {rnd : Nat → Nat → Nat} {g : Group} {t : NetType} {p : Policy} {fi : Int}
    {excl : Option Nat} (hp : p ≠ .fixed) (hs : ∀ ty, MInv (g.sets ty)) {x : SelOk}
    (h : select1 rnd g t p fi excl = .ok x) :
    ∃ ty ∈ chain t p, (∃ e ∈ (g.sets ty.index).entries, e.d = x.d) ∧ excl ≠ some x.d := by
  by_cases hr : p = .random
  · subst hr
    rw [select1_random] at h
    by_cases hn : g.n = 0
    · simp [hn] at h
    · simp only [hn, if_false] at h
      cases hf : firstPick (fun ty => getRand (rnd ty.index) (g.sets ty.index) excl) (chain t .random) with
      | some r =>
        obtain ⟨ty, d⟩ := r
        obtain ⟨hty, hpick⟩ := firstPick_some hf
        have hmem := (mem_randCands _ _ _).mp (getRand_mem hpick)
        rw [hf] at h
        simp only [Except.ok.injEq] at h
        subst h
        exact ⟨ty, hty, hmem.1, hmem.2⟩
      | none => rw [hf] at h; cases h
  · have hm : p.isMin = true := by cases p <;> simp_all [Policy.isMin]
    rw [select1_min rnd g t p hm] at h
    by_cases hn : g.n = 0
    · simp [hn] at h
    · simp only [hn, if_false] at h
      cases hf : firstPick (fun ty =>
          let r := getMin (g.sets ty.index) excl
          r.1.map (fun d => (d, r.2))) (chain t p) with
      | some r =>
        obtain ⟨ty, d, l⟩ := r
        obtain ⟨hty, hpick⟩ := firstPick_some hf
        simp only at hpick
        have hgm : getMin (g.sets ty.index) excl = (some d, l) := by
          cases hq : getMin (g.sets ty.index) excl with
          | mk a b =>
            rw [hq] at hpick
            cases a with
            | none => simp at hpick
            | some a => simp at hpick; rw [hpick.1, hpick.2]
        have hal := getMin_some' (hs ty.index).bestIn hgm
        rw [hf] at h
        simp only [Except.ok.injEq] at h
        subst h
        exact ⟨ty, hty, hal.1, hal.2⟩
      | none => rw [hf] at h; cases h

theorem select_ok_alive {rnd : Nat → Nat → Nat → Nat} {g : Group} {t : NetType} {strict : Bool}
    {excl : Option Nat} (hp : g.policy ≠ .fixed) (hs : ∀ ty, MInv (g.sets ty)) {x : SelOk}
    (h : select rnd g t strict excl = .ok x) :
    (∃ ty ∈ tried g t strict, (∃ e ∈ (g.sets ty.index).entries, e.d = x.d) ∧ excl ≠ some x.d) ∨
    (strict = true ∧ g.n = 1 ∧ x.d = 0 ∧ x.lat = dialTimeout) := by
  unfold select at h
  cases h1 : select1 (rnd 0) g t g.policy g.fixedIdx excl with
  | ok r =>
    rw [h1] at h
    simp only [Except.ok.injEq] at h
    subst h
    obtain ⟨ty, hty, hal⟩ := select1_ok_alive hp hs h1
    exact Or.inl ⟨ty, (mem_tried g t strict ty).mpr (Or.inl hty), hal⟩
  | error e =>
    rw [h1] at h
    cases e with
    | noAlive =>
      simp only at h
      cases strict
      · simp only [Bool.not_false, if_true] at h
        obtain ⟨ty, hty, hal⟩ := select1_ok_alive hp hs h
        exact Or.inl ⟨ty, (mem_tried g t false ty).mpr (Or.inr ⟨rfl, hty⟩), hal⟩
      · simp only [Bool.not_true, Bool.false_eq_true, if_false] at h
        by_cases hn : g.n = 1
        · rw [if_pos hn, select1_lastResort _ _ _ _ hn] at h
          simp only [Except.ok.injEq] at h
          subst h
          exact Or.inr ⟨rfl, hn, rfl, rfl⟩
        · rw [if_neg hn] at h; cases h
    | noDialers => cases h
    | outOfRange => cases h
    | unsupported => cases h


theorem chooseSelect_cases (rnd : Nat → Nat → Nat → Nat → Nat) (g : Group) (t : NetType) (strict : Bool)
    (excl : Option Nat) :
    chooseSelect rnd g t strict excl = select (rnd 0) g t strict excl ∨
    (select (rnd 0) g t strict excl = .error .noAlive ∧
      chooseSelect rnd g t strict excl = select (rnd 1) g t.flip false excl) := by
  unfold chooseSelect
  cases h : select (rnd 0) g t strict excl with
  | ok x => left; rfl
  | error e => cases e <;> simp


theorem firstPick_prefix {α} {pick : NetType → Option α} {ts : List NetType} {ty : NetType} {x : α}
    (h : firstPick pick ts = some (ty, x)) :
    ∃ pre post, ts = pre ++ ty :: post ∧ pick ty = some x ∧ ∀ ty' ∈ pre, pick ty' = none := by
  induction ts with
  | nil => simp [firstPick] at h
  | cons t ts ih =>
    unfold firstPick at h
    cases hp : pick t with
    | some y =>
      rw [hp] at h
      simp only [Option.some.injEq, Prod.mk.injEq] at h
      obtain ⟨h1, h2⟩ := h
      subst h1; subst h2
      exact ⟨[], ts, rfl, hp, by simp⟩
    | none =>
      rw [hp] at h
      obtain ⟨pre, post, e, hx, hpre⟩ := ih h
      refine ⟨t :: pre, post, by rw [e]; rfl, hx, ?_⟩
      intro ty' hty'
      simp only [List.mem_cons] at hty'
      rcases hty' with h | h
      · rw [h]; exact hp
      · exact hpre ty' h

/-- `_select` consults the domains in order: the admitting domain is the first one of the chain
with a selectable (alive, not excluded) member. -/
theorem select1_first_selectable {rnd : Nat → Nat → Nat} {g : Group} {t : NetType} {p : Policy} {fi : Int}
    {excl : Option Nat} (hp : p ≠ .fixed) (hs : ∀ ty, BestIn (g.sets ty)) {x : SelOk}
    (h : select1 rnd g t p fi excl = .ok x) :
    ∃ pre ty post, chain t p = pre ++ ty :: post ∧
      ((∃ e ∈ (g.sets ty.index).entries, e.d = x.d) ∧ excl ≠ some x.d) ∧
      ∀ ty' ∈ pre, ∀ e ∈ (g.sets ty'.index).entries, excl = some e.d := by
  by_cases hr : p = .random
  · subst hr
    rw [select1_random] at h
    by_cases hn : g.n = 0
    · simp [hn] at h
    · simp only [hn, if_false] at h
      cases hf : firstPick (fun ty => getRand (rnd ty.index) (g.sets ty.index) excl) (chain t .random) with
      | some r =>
        obtain ⟨ty, d⟩ := r
        obtain ⟨pre, post, e, hpick, hpre⟩ := firstPick_prefix hf
        have hmem := (mem_randCands _ _ _).mp (getRand_mem hpick)
        rw [hf] at h
        simp only [Except.ok.injEq] at h
        subst h
        refine ⟨pre, ty, post, e, hmem, ?_⟩
        intro ty' hty' e' he'
        have := (getRand_none_iff _ _ _).mp (hpre ty' hty')
        apply Classical.byContradiction
        intro hne
        have : e'.d ∈ randCands (g.sets ty'.index) excl := (mem_randCands _ _ _).mpr ⟨⟨e', he', rfl⟩, hne⟩
        simp_all
      | none => rw [hf] at h; cases h
  · have hm : p.isMin = true := by cases p <;> simp_all [Policy.isMin]
    rw [select1_min rnd g t p hm] at h
    by_cases hn : g.n = 0
    · simp [hn] at h
    · simp only [hn, if_false] at h
      cases hf : firstPick (fun ty =>
          let r := getMin (g.sets ty.index) excl
          r.1.map (fun d => (d, r.2))) (chain t p) with
      | some r =>
        obtain ⟨ty, d, l⟩ := r
        obtain ⟨pre, post, e, hpick, hpre⟩ := firstPick_prefix hf
        simp only at hpick
        have hgm : getMin (g.sets ty.index) excl = (some d, l) := by
          cases hq : getMin (g.sets ty.index) excl with
          | mk a b =>
            rw [hq] at hpick
            cases a with
            | none => simp at hpick
            | some a => simp at hpick; rw [hpick.1, hpick.2]
        have hal := getMin_some' (hs ty.index) hgm
        rw [hf] at h
        simp only [Except.ok.injEq] at h
        subst h
        refine ⟨pre, ty, post, e, hal, ?_⟩
        intro ty' hty'
        have := hpre ty' hty'
        simp only [Option.map_eq_none_iff] at this
        exact (getMin_none_iff' (hs ty'.index) excl).mp this
      | none => rw [hf] at h; cases h

/-- the documented order of the data-UDP chain -/
theorem chain_data_udp (ip6 isDns : Bool) (p : Policy) (hp : p ≠ .fixed) :
    (chain ⟨true, ip6, isDns, .data⟩ p).map NetType.index =
      [4 + (if ip6 then 1 else 0), 0 + (if ip6 then 1 else 0), 2 + (if ip6 then 1 else 0)] := by
  cases p <;> cases ip6 <;> cases isDns <;> first | exact absurd rfl hp | rfl

/-! ### the dialer side: a measurement, once there, stays -/

theorem append_lats_ne_nil (c : Coll) (l : Int) : (c.append l).lats ≠ [] := by
  simp only [Coll.append]
  split
  · rename_i hlen
    intro hq
    have h1 := congrArg List.length hq
    rw [List.length_drop] at h1
    simp only [List.length_nil] at h1
    omega
  · simp

theorem snapshot_stays (c : Coll) (p : Policy) (pen pen' l : Int) (hl : 1 ≤ l)
    (h : (c.snapshot p pen).isSome = true) : ((c.append l).snapshot p pen').isSome = true := by
  have hne := append_lats_ne_nil c l
  cases p with
  | random => simp [Coll.snapshot] at h
  | fixed => simp [Coll.snapshot] at h
  | minLast =>
    simp only [Coll.snapshot, Option.isSome_map]
    exact List.getLast?_isSome.mpr hne
  | minAvg10 =>
    simp only [Coll.snapshot]
    have : (c.append l).lats.isEmpty = false := by
      cases hq : (c.append l).lats with
      | nil => exact absurd hq hne
      | cons a b => rfl
    simp [this]
  | minMovAvg =>
    simp only [Coll.snapshot] at h ⊢
    have hpos : c.movAvg > 0 := by
      by_cases hp : c.movAvg > 0
      · exact hp
      · simp [hp] at h
    have : (c.append l).movAvg > 0 := by
      simp only [Coll.append]
      rw [Int.tdiv_eq_ediv_of_nonneg (by omega)]
      omega
    simp [this]


/-! ### hypothesis-free: under a min policy the cached best is nil only when nobody is alive -/

/-- `NE s`: min policy, cached best nil ⇒ the alive list is empty -/
def NE (s : ASet) : Prop := s.policy.isMin = true → s.minD = none → s.entries = []

theorem calcMin_none_nil {s : ASet} (hD : s.minD = none) (h : (calcMin s).minD = none) : s.entries = [] := by
  obtain ⟨h1, _, _, _⟩ := scanMin_spec s.entries none
  unfold calcMin at h
  rw [hD] at h
  simp only at h
  apply List.eq_nil_iff_forall_not_mem.mpr
  intro e he
  exact absurd (h1 h e he) (by simp)

theorem calcMin_some_ne {s : ASet} {b : Nat} (hD : s.minD = some b) : (calcMin s).minD ≠ none := by
  unfold calcMin
  rw [hD]
  simp only
  split
  · rename_i hc
    simp only [Bool.and_eq_true] at hc
    intro h
    simp only at h
    rw [h] at hc
    simp at hc
  · rw [hD]; simp

theorem decide2_alive_ne (s : ASet) (d : Nat) (sl bakL : Int) : (decide2 s d true sl bakL).minD ≠ none := by
  unfold decide2
  cases hD : s.minD with
  | none => simp
  | some b =>
    simp only [Bool.true_and, Option.isNone_some, Bool.false_or, Bool.not_true]
    split
    · simp
    · split
      · rename_i hbd
        split
        · simp only [if_true]
          exact calcMin_some_ne (s := { s with minL := sl, minD := some b }) (b := b) rfl
        · simp [hD]
      · simp [hD]

theorem ne_notify {s : ASet} {d : Nat} (alive : Bool) (snap : Option Int) (hs : MInv s) (hne : NE s)
    (hd : d < s.n) : NE (notify s d alive snap).1 := by
  have hi := hs.idx
  obtain ⟨_, _, _, fpol, _⟩ := notify_frame s d alive snap
  intro hm' hD'
  have hm : s.policy.isMin = true := by rw [← fpol]; exact hm'
  unfold notify at hD' ⊢
  simp only [hm, if_true] at hD' ⊢
  cases alive
  · -- a death (or a notification about a dead node)
    cases snap with
    | none =>
      by_cases hal : ∃ k, s.idx d = .at k
      · obtain ⟨k, hk⟩ := hal
        by_cases hD : s.minD = some d
        · have e1 : (phase1 s d false none).1 = calcMin (resetBest (removeAt s d k)) := by
            simp [phase1, hk, hm, hD]
          simp only [phase2, Bool.false_and, Bool.false_eq_true, if_false] at hD' ⊢
          rw [e1] at hD' ⊢
          rw [(calcMin_frame _).2.2.2.2.2.2.1]
          exact calcMin_none_nil (s := resetBest (removeAt s d k)) rfl hD'
        · have e1 : (phase1 s d false none).1 = removeAt s d k := by
            simp [phase1, hk, hm, hD]
          simp only [phase2, Bool.false_and, Bool.false_eq_true, if_false] at hD' ⊢
          rw [e1] at hD' ⊢
          rw [(removeAt_frame0 s d k).2.2.2.2.2.1] at hD'
          have hemp := hne hm hD'
          apply List.eq_nil_iff_forall_not_mem.mpr
          intro e he
          have := ((mem_removeAt hi hd hk e).mp he).1
          rw [hemp] at this; cases this
      · have e1 : (phase1 s d false none).1 = s := by
          cases hk : s.idx d with
          | «at» k => exact absurd ⟨k, hk⟩ hal
          | init => simp [phase1, hk]
          | notAlive => simp [phase1, hk]
        simp only [phase2, Bool.false_and, Bool.false_eq_true, if_false] at hD' ⊢
        rw [e1] at hD' ⊢
        exact hne hm hD'
    | some raw =>
      -- state after phase1 + record: entries are the old ones without d
      have key : ∃ s1, (phase2 (phase1 s d false (some raw)).1 d false (some raw)).1
            = decide2 s1 d false (raw + s.offs d) s.minL ∧ s1.minD = s.minD ∧
          (∀ e' ∈ s1.entries, e' ∈ s.entries) := by
        by_cases hal : ∃ k, s.idx d = .at k
        · obtain ⟨k, hk⟩ := hal
          obtain ⟨f1, f2, f3, f4, f5, f6, f7, f8⟩ := removeAt_frame hi hd hk
          have hi0 := idxInv_removeAt s d k hi hd hk
          have hd0 : d < (removeAt s d k).n := by rw [f1]; exact hd
          have e1 : (phase1 s d false (some raw)).1 = removeAt s d k := by simp [phase1, hk, hm]
          obtain ⟨g1, g2, g3, g4, g5, g6, g7, g8⟩ := record_frame (removeAt s d k) d raw
          refine ⟨record (removeAt s d k) d raw, by simp only [phase2]; rw [e1, f3, f7], by rw [g7, f6], ?_⟩
          intro e' he'
          rcases (mem_record raw hi0 hd0 e').mp he' with ⟨h1, _⟩ | ⟨_, k', hk'⟩
          · exact ((mem_removeAt hi hd hk e').mp h1).1
          · exact absurd hk' (f8 k')
        · have hn : ∀ k, s.idx d ≠ .at k := fun k hk => hal ⟨k, hk⟩
          have e1 : (phase1 s d false (some raw)).1 = s := by
            cases hk : s.idx d with
            | «at» k => exact absurd ⟨k, hk⟩ hal
            | init => simp [phase1, hk]
            | notAlive => simp [phase1, hk]
          obtain ⟨g1, g2, g3, g4, g5, g6, g7, g8⟩ := record_frame s d raw
          refine ⟨record s d raw, by simp only [phase2]; rw [e1], g7, ?_⟩
          intro e' he'
          rcases (mem_record raw hi hd e').mp he' with ⟨h1, _⟩ | ⟨_, k', hk'⟩
          · exact h1
          · exact absurd hk' (hn k')
      obtain ⟨s1, heq, fD, hsub⟩ := key
      rw [heq] at hD' ⊢
      obtain ⟨_, _, fe, _⟩ := decide2_frame s1 d false (raw + s.offs d) s.minL
      rw [fe]
      unfold decide2 at hD'
      simp only [Bool.false_and, Bool.false_eq_true, if_false, Bool.not_false, Bool.true_or, if_true] at hD'
      by_cases hD : s1.minD = some d
      · rw [if_pos hD] at hD'
        exact calcMin_none_nil (s := { s1 with minL := raw + s.offs d, minD := none }) rfl hD'
      · rw [if_neg hD, fD] at hD'
        have hemp := hne hm hD'
        apply List.eq_nil_iff_forall_not_mem.mpr
        intro e he
        have := hsub e he
        rw [hemp] at this; cases this
  · -- alive = true: afterwards the cached best is never nil
    exfalso
    cases snap with
    | none =>
      simp only [phase2] at hD'
      have hp1 : (phase1 s d true none).1.policy = s.policy := (phase1_frame s d true none).2.2.2.1
      rw [hp1, hm] at hD'
      cases hq : (phase1 s d true none).1.minD with
      | none => simp [hq] at hD'
      | some b => simp [hq] at hD'
    | some raw =>
      simp only [phase2] at hD'
      exact decide2_alive_ne _ d _ _ hD'

theorem ne_setPolicy {s : ASet} (p : Policy) (snapAll : Nat → Option Int) (hne : NE s) :
    NE (setPolicy s p snapAll) := by
  unfold setPolicy
  by_cases hp : s.policy = p
  · rw [if_pos hp]; exact hne
  · rw [if_neg hp]
    simp only
    cases hm : p.isMin
    · simp only [Bool.not_false, if_true]
      intro h; simp only at h; rw [hm] at h; cases h
    · simp only [Bool.not_true, Bool.false_eq_true, if_false]
      intro _ hD
      rw [(calcMin_frame _).2.2.2.2.2.2.1]
      exact calcMin_none_nil rfl hD

theorem ne_run (h : List SetEv) : ∀ (s : ASet), MInv s → NE s → HistMem s.n h → NE (runSet s h) := by
  induction h with
  | nil => intro s _ hne _; exact hne
  | cons e es ih =>
    intro s hs hne hm
    cases e with
    | notify d a sn =>
      obtain ⟨hd, hm'⟩ := hm
      have n1 := (notify_frame s d a sn).1
      exact ih (notify s d a sn).1 (minv_notify a sn hs hd) (ne_notify a sn hs hne hd) (by rw [n1]; exact hm')
    | setPolicy p sa =>
      have n1 := (setPolicy_frame s p sa).1
      exact ih (setPolicy s p sa) (minv_setPolicy p sa hs) (ne_setPolicy p sa hne) (by rw [n1]; exact hm)


/-- the hypothesis-free group invariant holds after every history that only names members -/
theorem gminv_after (n : Nat) (tol : Int) (offs : Nat → Int) (p : Policy) (fi : Int)
    (alive0 : Nat → Nat → Bool) (snap0 : Nat → Nat → Option Int) (h : List GEv) (hm : GHistMem n h) :
    GMInv (runG (gNew n tol offs p fi alive0 snap0).1 h) := by
  obtain ⟨h0, n0⟩ := gminv_gNew n tol offs p fi alive0 snap0
  exact gminv_run h _ h0 (by rw [n0]; exact hm)

theorem runSet_tol (h : List SetEv) : ∀ (s0 : ASet), (runSet s0 h).tol = s0.tol := by
  induction h with
  | nil => intro s0; rfl
  | cons e es ih =>
    intro s0
    show (runSet (stepSet s0 e) es).tol = s0.tol
    rw [ih]
    cases e with
    | notify d a sn => exact (notify_frame s0 d a sn).2.1
    | setPolicy p sa => exact (setPolicy_frame s0 p sa).2.1


/-! ### membership of the alive list = what the set was last told -/

theorem isAlive_iff (s : ASet) (x : Nat) : s.isAlive x = true ↔ ∃ e ∈ s.entries, e.d = x := by
  simp [ASet.isAlive]

theorem phase2_ds {s : ASet} {d : Nat} (alive : Bool) (snap : Option Int) (h : IdxInv s) (hd : d < s.n) :
    (phase2 s d alive snap).1.ds = s.ds := by
  unfold phase2
  cases snap with
  | none => simp only; split <;> rfl
  | some raw =>
    simp only
    obtain ⟨_, _, c, _⟩ := decide2_frame (record s d raw) d alive (raw + s.offs d) s.minL
    simp only [ASet.ds, c]
    cases hk : s.idx d with
    | «at» k => rw [record_alive raw h hd hk]; simp [ds_setSl]
    | init => rw [record_dead raw (by simp [hk])]
    | notAlive => rw [record_dead raw (by simp [hk])]

theorem mem_ds (s : ASet) (x : Nat) : x ∈ s.ds ↔ ∃ e ∈ s.entries, e.d = x := by
  simp [ASet.ds]

/-- after `NotifyLatencyChange(d, alive)` the alive list contains `d` iff `alive`; other members unchanged -/
theorem alive_notify {s : ASet} {d : Nat} (alive : Bool) (snap : Option Int) (h : IdxInv s) (hd : d < s.n) (x : Nat) :
    (∃ e ∈ (notify s d alive snap).1.entries, e.d = x) ↔
      (if x = d then alive = true else ∃ e ∈ s.entries, e.d = x) := by
  unfold notify
  simp only
  obtain ⟨h1, n1⟩ := idxInv_phase1 alive (if s.policy.isMin = true then snap else none) h hd
  rw [← mem_ds, phase2_ds alive _ h1 (by rw [n1]; exact hd), mem_ds]
  generalize (if s.policy.isMin = true then snap else none) = sn
  unfold phase1
  cases alive
  · simp only [Bool.false_eq_true, if_false]
    cases hk : s.idx d with
    | «at» k =>
      simp only
      have hmem := fun e => mem_removeAt h hd hk e
      have key : (∃ e ∈ (removeAt s d k).entries, e.d = x) ↔ (if x = d then False else ∃ e ∈ s.entries, e.d = x) := by
        constructor
        · rintro ⟨e, he, hed⟩
          obtain ⟨he', hne⟩ := (hmem e).mp he
          have : x ≠ d := by rw [← hed]; exact hne
          simp only [this, if_false]
          exact ⟨e, he', hed⟩
        · intro hx
          by_cases hxd : x = d
          · simp [hxd] at hx
          · simp only [hxd, if_false] at hx
            obtain ⟨e, he, hed⟩ := hx
            exact ⟨e, (hmem e).mpr ⟨he, by rw [hed]; exact hxd⟩, hed⟩
      split
      · rw [(calcMin_frame _).2.2.2.2.2.2.1]
        exact key
      · exact key
    | init =>
      have : ¬ ∃ e ∈ s.entries, e.d = d := by rw [← alive_iff h hd]; simp [hk]
      simp only
      by_cases hxd : x = d
      · subst hxd; simp [this]
      · simp [hxd]
    | notAlive =>
      have : ¬ ∃ e ∈ s.entries, e.d = d := by rw [← alive_iff h hd]; simp [hk]
      simp only
      by_cases hxd : x = d
      · subst hxd; simp [this]
      · simp [hxd]
  · simp only [if_true]
    cases hk : s.idx d with
    | «at» k =>
      have : ∃ e ∈ s.entries, e.d = d := (alive_iff h hd).mp ⟨k, hk⟩
      simp only
      by_cases hxd : x = d
      · subst hxd; simp [this]
      · simp [hxd]
    | init =>
      simp only
      by_cases hxd : x = d
      · subst hxd; simp [join]
      · simp only [hxd, if_false, join, List.mem_append, List.mem_singleton]
        constructor
        · rintro ⟨e, he | he, hed⟩
          · exact ⟨e, he, hed⟩
          · subst he; exact absurd hed.symm hxd
        · rintro ⟨e, he, hed⟩; exact ⟨e, Or.inl he, hed⟩
    | notAlive =>
      simp only
      by_cases hxd : x = d
      · subst hxd; simp [join]
      · simp only [hxd, if_false, join, List.mem_append, List.mem_singleton]
        constructor
        · rintro ⟨e, he | he, hed⟩
          · exact ⟨e, he, hed⟩
          · subst he; exact absurd hed.symm hxd
        · rintro ⟨e, he, hed⟩; exact ⟨e, Or.inl he, hed⟩

theorem isAlive_notify {s : ASet} {d : Nat} (alive : Bool) (snap : Option Int) (h : IdxInv s) (hd : d < s.n) (x : Nat) :
    (notify s d alive snap).1.isAlive x = if x = d then alive else s.isAlive x := by
  have := alive_notify alive snap h hd x
  rw [← isAlive_iff, ← isAlive_iff] at this
  by_cases hxd : x = d
  · simp only [hxd, if_true] at this ⊢
    cases alive <;> cases hq : (notify s d _ snap).1.isAlive d <;> simp_all
  · simp only [hxd, if_false] at this ⊢
    cases hq : (notify s d alive snap).1.isAlive x <;> cases hr : s.isAlive x <;> simp_all

theorem isAlive_setPolicy {s : ASet} (p : Policy) (snapAll : Nat → Option Int) (x : Nat) :
    (setPolicy s p snapAll).isAlive x = s.isAlive x := by
  have hds : (setPolicy s p snapAll).ds = s.ds := by
    unfold setPolicy
    split
    · rfl
    · simp only
      split
      · rfl
      · obtain ⟨h1, _, _⟩ := resnap_spec { s with policy := p, lat := fun _ => none, minL := hour, minD := none }
          snapAll s.entries (fun _ => none)
        simp only [ASet.ds, (calcMin_frame _).2.2.2.2.2.2.1]
        exact h1
  have : ∀ (s : ASet), s.isAlive x = decide (x ∈ s.ds) := by
    intro s
    cases hq : s.isAlive x
    · have : ¬ (∃ e ∈ s.entries, e.d = x) := by rw [← isAlive_iff]; simp [hq]
      simp [mem_ds, this]
    · have := (isAlive_iff s x).mp hq
      simp [mem_ds, this]
  rw [this, this, hds]

/-- what the set was last told about `d` (none = never told) -/
def lastTold (d : Nat) : List SetEv → Option Bool
  | [] => none
  | .notify d' a _ :: es =>
    match lastTold d es with
    | some b => some b
    | none => if d' = d then some a else none
  | .setPolicy _ _ :: es => lastTold d es

theorem isAlive_run (x : Nat) (h : List SetEv) : ∀ (s : ASet), IdxInv s → HistMem s.n h →
    (runSet s h).isAlive x = (lastTold x h).getD (s.isAlive x) := by
  induction h with
  | nil => intro s _ _; rfl
  | cons e es ih =>
    intro s hs hm
    cases e with
    | notify d a sn =>
      obtain ⟨hd, hm'⟩ := hm
      obtain ⟨h1, n1⟩ := idxInv_notify a sn hs hd
      have := ih (notify s d a sn).1 h1 (by rw [n1]; exact hm')
      show (runSet (notify s d a sn).1 es).isAlive x = _
      rw [this, isAlive_notify a sn hs hd x]
      simp only [lastTold]
      cases lastTold x es with
      | some b => rfl
      | none =>
        by_cases hxd : d = x
        · subst hxd; simp
        · have : ¬ x = d := fun h => hxd h.symm
          simp [hxd, this]
    | setPolicy p sa =>
      obtain ⟨h1, n1⟩ := idxInv_setPolicy p sa hs
      have := ih (setPolicy s p sa) h1 (by rw [n1]; exact hm)
      show (runSet (setPolicy s p sa) es).isAlive x = _
      rw [this, isAlive_setPolicy]
      rfl


theorem isAlive_notifyAll (alive : Nat → Bool) (snap : Nat → Option Int) (x : Nat) :
    ∀ (ds : List Nat) (s : ASet), (∀ d ∈ ds, d < s.n) → IdxInv s →
      (notifyAll s ds alive snap).1.isAlive x = if x ∈ ds then alive x else s.isAlive x := by
  intro ds
  induction ds with
  | nil => intro s _ _; simp [notifyAll]
  | cons d ds ih =>
    intro s hds hs
    rw [notifyAll_cons]
    obtain ⟨h1, n1⟩ := idxInv_notify (alive d) (snap d) hs (hds d (by simp))
    rw [ih _ (by intro d' hd'; rw [n1]; exact hds d' (by simp [hd'])) h1, isAlive_notify _ _ hs (hds d (by simp))]
    by_cases hx : x ∈ ds
    · simp [hx]
    · by_cases hxd : x = d
      · subst hxd; simp [hx]
      · simp [hx, hxd]

/-- the set `buildSelectionState` builds for type `t` -/
def builtSet (g : Group) (p : Policy) (snap : Nat → Nat → Option Int) (t : Nat) : ASet :=
  (notifyAll (ASet.new g.n g.tol g.offs p false (snap t)).1 (List.range g.n) (g.alive t) (snap t)).1

theorem buildSets_eq (g : Group) (p : Policy) (snap : Nat → Nat → Option Int) (t : Nat) :
    (buildSets g p snap).1 t = if t < 6 then builtSet g p snap t else ASet.init g.n g.tol g.offs p := by
  unfold buildSets
  have key : ∀ (ts : List Nat) (acc : (Nat → ASet) × List GCb),
      ((ts.foldl (fun acc t =>
        let r0 := ASet.new g.n g.tol g.offs p false (snap t)
        let r1 := notifyAll r0.1 (List.range g.n) (g.alive t) (snap t)
        (upd acc.1 t r1.1, acc.2 ++ (r0.2 ++ r1.2).map (fun b => (⟨b, t, false⟩ : GCb)))) acc).1 t) =
        if t ∈ ts then builtSet g p snap t else acc.1 t := by
    intro ts
    induction ts with
    | nil => intro acc; simp
    | cons t' ts ih =>
      intro acc
      simp only [List.foldl_cons]
      rw [ih]
      by_cases h1 : t ∈ ts
      · simp [h1]
      · simp only [h1, if_false, upd, List.mem_cons]
        by_cases h2 : t = t'
        · subst h2; simp [builtSet]
        · simp [h2]
  rw [key]
  simp [List.mem_range]

theorem builtSet_isAlive (g : Group) (p : Policy) (snap : Nat → Nat → Option Int) (t d : Nat) (hd : d < g.n) :
    (builtSet g p snap t).isAlive d = g.alive t d := by
  unfold builtSet
  obtain ⟨h0, n0⟩ := minv_notifyAll (fun _ => false) (snap t) (List.range g.n) (ASet.init g.n g.tol g.offs p)
    (by intro d hd; exact List.mem_range.mp hd) (minv_init g.n g.tol g.offs p)
  have n0' : (ASet.new g.n g.tol g.offs p false (snap t)).1.n = g.n := n0
  have h0' : IdxInv (ASet.new g.n g.tol g.offs p false (snap t)).1 := h0.idx
  rw [isAlive_notifyAll (g.alive t) (snap t) d (List.range g.n) (ASet.new g.n g.tol g.offs p false (snap t)).1
    (by intro d' hd'; rw [n0']; exact List.mem_range.mp hd') h0']
  simp [List.mem_range, hd]

/-- every set's alive list agrees with the members' alive flags -/
def Agree (g : Group) : Prop :=
  g.hasSets = true → ∀ t, t < 6 → ∀ d, d < g.n → (g.sets t).isAlive d = g.alive t d

theorem agree_gNew (n : Nat) (tol : Int) (offs : Nat → Int) (p : Policy) (fi : Int)
    (alive : Nat → Nat → Bool) (snap : Nat → Nat → Option Int) :
    Agree (gNew n tol offs p fi alive snap).1 := by
  unfold gNew
  simp only
  cases hna : needsAlive p
  · simp only [Bool.false_eq_true, if_false]
    intro h; cases h
  · simp only [if_true]
    intro _ t ht d hd
    simp only
    rw [buildSets_eq, if_pos ht]
    exact builtSet_isAlive (⟨n, tol, offs, p, fi, false, fun _ => ASet.init n tol offs p, alive⟩ : Group) p snap t d hd

theorem agree_step {g : Group} {e : GEv} (hg : GMInv g) (ha : Agree g) (hm : GHistMem g.n [e]) :
    Agree (stepG g e) := by
  cases e with
  | notify t d a sn =>
    have hd : d < g.n := hm.1
    simp only [stepG, gNotify]
    cases hh : g.hasSets
    · simp only [Bool.false_eq_true, if_false]
      intro h; cases h
    · simp only [if_true]
      intro _ t' ht' d' hd'
      simp only [upd]
      obtain ⟨i1, i2⟩ := hg.sets t
      by_cases h1 : t' = t
      · subst h1
        simp only [if_true]
        rw [isAlive_notify a sn i1.idx (by rw [i2]; exact hd)]
        by_cases h2 : d' = d
        · simp [h2, upd]
        · simp only [h2, if_false, upd]
          exact ha hh t' ht' d' hd'
      · simp only [h1, if_false]
        exact ha hh t' ht' d' hd'
  | setPolicy p fi snap =>
    simp only [stepG, gSetPolicy]
    cases h1 : needsAlive g.policy <;> cases h2 : needsAlive p
    · simp only; exact ha
    · simp only
      intro _ t ht d hd
      simp only
      rw [buildSets_eq, if_pos ht]
      exact builtSet_isAlive g p snap t d hd
    · simp only; intro h; cases h
    · simp only
      have hh : g.hasSets = true := by rw [hg.hasSets, h1]
      intro _ t ht d hd
      simp only
      split
      · rw [isAlive_setPolicy]; exact ha hh t ht d hd
      · exact ha hh t ht d hd

theorem agree_run (h : List GEv) : ∀ (g : Group), GMInv g → Agree g → GHistMem g.n h → Agree (runG g h) := by
  induction h with
  | nil => intro g _ ha _; exact ha
  | cons e es ih =>
    intro g hg ha hm
    have hm1 : GHistMem g.n [e] := by
      cases e with
      | notify t d a sn => exact ⟨hm.1, trivial⟩
      | setPolicy p fi sn => trivial
    obtain ⟨h1, h2⟩ := gminv_step hg hm1
    refine ih (stepG g e) h1 (agree_step hg ha hm1) ?_
    rw [h2]
    cases e with
    | notify t d a sn => exact hm.2
    | setPolicy p fi sn => exact hm


/-- what it means that domain `ty` admitted the answer `x` -/
def Admitted (g : Group) (excl : Option Nat) (ty : NetType) (x : SelOk) : Prop :=
  (∃ e ∈ (g.sets ty.index).entries, e.d = x.d) ∧ excl ≠ some x.d ∧
  (g.policy.isMin = true → getMin (g.sets ty.index) excl = (some x.d, x.lat)) ∧
  x.sel = (preferAlt g x.d ty).index

/-- structure of a successful `SelectWithExclusionResult` under random/min: admitted by the
requested chain; or — only when not strict and the requested chain has nothing selectable — by
the other family's chain; or the single-node last resort. -/
theorem select_ok_full {rnd : Nat → Nat → Nat → Nat} {g : Group} {t : NetType} {strict : Bool}
    {excl : Option Nat} (hp : g.policy ≠ .fixed) (hs : ∀ ty, BestIn (g.sets ty)) {x : SelOk}
    (h : select rnd g t strict excl = .ok x) :
    (∃ ty ∈ chain t g.policy, Admitted g excl ty x) ∨
    (strict = false ∧ (∀ ty ∈ chain t g.policy, ∀ e ∈ (g.sets ty.index).entries, excl = some e.d) ∧
      ∃ ty ∈ chain t.flip g.policy, Admitted g excl ty x) ∨
    (strict = true ∧ g.n = 1 ∧ x = ⟨0, dialTimeout, (preferAlt g 0 t).index⟩ ∧
      ∀ ty ∈ chain t g.policy, ∀ e ∈ (g.sets ty.index).entries, excl = some e.d) := by
  obtain ⟨a1, b1, c1⟩ := select1_spec (rnd := rnd 0) (g := g) (t := t) (fi := g.fixedIdx) (excl := excl) hp hs
  obtain ⟨a2, b2, c2⟩ := select1_spec (rnd := rnd 1) (g := g) (t := t.flip) (fi := g.fixedIdx) (excl := excl) hp hs
  unfold select at h
  cases h1 : select1 (rnd 0) g t g.policy g.fixedIdx excl with
  | ok r =>
    rw [h1] at h
    simp only [Except.ok.injEq] at h
    subst h
    obtain ⟨ty, hty, hal⟩ := a1 r h1
    exact Or.inl ⟨ty, hty, hal⟩
  | error e =>
    rw [h1] at h
    rcases c1 e h1 with he | ⟨he, hn⟩
    · subst he
      simp only at h
      cases strict
      · simp only [Bool.not_false, if_true] at h
        obtain ⟨ty, hty, hal⟩ := a2 x h
        exact Or.inr (Or.inl ⟨rfl, (b1.mp h1).2, ty, hty, hal⟩)
      · simp only [Bool.not_true, Bool.false_eq_true, if_false] at h
        by_cases hn : g.n = 1
        · rw [if_pos hn, select1_lastResort _ _ _ _ hn] at h
          simp only [Except.ok.injEq] at h
          subst h
          exact Or.inr (Or.inr ⟨rfl, hn, rfl, (b1.mp h1).2⟩)
        · rw [if_neg hn] at h; cases h
    · subst he; simp only at h; cases h

/-- under random/min the only errors are "no alive" and, for an empty group, "no dialers" -/
theorem select_error_cases {rnd : Nat → Nat → Nat → Nat} {g : Group} {t : NetType} {strict : Bool}
    {excl : Option Nat} (hp : g.policy ≠ .fixed) (hs : ∀ ty, BestIn (g.sets ty)) {e : SelErr}
    (h : select rnd g t strict excl = .error e) : e = .noAlive ∨ (e = .noDialers ∧ g.n = 0) := by
  obtain ⟨_, _, c1⟩ := select1_spec (rnd := rnd 0) (g := g) (t := t) (fi := g.fixedIdx) (excl := excl) hp hs
  obtain ⟨_, _, c2⟩ := select1_spec (rnd := rnd 1) (g := g) (t := t.flip) (fi := g.fixedIdx) (excl := excl) hp hs
  unfold select at h
  cases h1 : select1 (rnd 0) g t g.policy g.fixedIdx excl with
  | ok r => rw [h1] at h; cases h
  | error e1 =>
    rw [h1] at h
    rcases c1 e1 h1 with he | ⟨he, hn⟩
    · subst he
      simp only at h
      cases strict
      · simp only [Bool.not_false, if_true] at h
        exact c2 e h
      · simp only [Bool.not_true, Bool.false_eq_true, if_false] at h
        by_cases hn : g.n = 1
        · rw [if_pos hn, select1_lastResort _ _ _ _ hn] at h; cases h
        · rw [if_neg hn] at h; cases h; exact Or.inl rfl
    · subst he
      simp only at h
      cases h
      exact Or.inr ⟨rfl, hn⟩

theorem preferAlt_spec (g : Group) (d : Nat) (t : NetType) :
    (preferAlt g d t = t ∨ preferAlt g d t = t.flip) ∧
    (g.alive t.index d = true ∨ g.alive t.flip.index d = true → g.alive (preferAlt g d t).index d = true) ∧
    (g.alive t.index d = true → preferAlt g d t = t) := by
  unfold preferAlt
  cases h1 : g.alive t.index d <;> cases h2 : g.alive t.flip.index d <;> simp [h1, h2]

/-- the tolerance bound for `GetMinLatency(excluded)`: no alive measured node other than the
excluded one beats the returned latency by the tolerance or more -/
theorem getMin_tolerance_excl {s : ASet} (hs : SInv s) (hm : s.policy.isMin = true) {excl : Option Nat}
    {d : Nat} {L : Int} (h : getMin s excl = (some d, L)) :
    ∀ e ∈ s.entries, s.lat e.d ≠ none → excl ≠ some e.d → ¬ beats s.tol e.sl L := by
  obtain ⟨_, _, h3, h4⟩ := scanMin_spec s.entries excl
  rcases getMin_cases s excl with ⟨b, hb, _, hg⟩ | ⟨hc, hg⟩
  · rw [hg] at h
    have hL : s.minL = L := by simpa using congrArg (·.2) h
    subst hL
    intro e he hl _
    exact hs.tolBound hm e he hl
  · rw [hg] at h
    split at h
    · have h2 : (scanMin s.entries excl).2 = L := by rw [h]
      intro e he _ hne hbt
      have := h4 e he hne
      rw [h2] at this
      unfold beats at hbt
      omega
    · cases h


/-! ### world level: histories of samples discharge `mono` -/

theorem snapshot_isSome_pen (c : Coll) (p : Policy) (pen pen' : Int) :
    (c.snapshot p pen).isSome = (c.snapshot p pen').isSome := by
  cases p <;> simp [Coll.snapshot] <;> split <;> rfl

theorem setPolicy_lat {s : ASet} (p : Policy) (sa : Nat → Option Int) (x : Nat)
    (h : (setPolicy s p sa).lat x ≠ none) : (s.policy = p ∧ s.lat x ≠ none) ∨ sa x ≠ none := by
  unfold setPolicy at h
  by_cases hp : s.policy = p
  · rw [if_pos hp] at h; exact Or.inl ⟨hp, h⟩
  · rw [if_neg hp] at h
    simp only at h
    cases hm : p.isMin
    · simp [hm] at h
    · simp only [hm, Bool.not_true, Bool.false_eq_true, if_false] at h
      obtain ⟨_, _, h3⟩ := resnap_spec { s with policy := p, lat := fun _ => none, minL := hour, minD := none }
        sa s.entries (fun _ => none)
      rw [(calcMin_frame _).2.2.2.2.2.1] at h
      simp only at h
      rw [h3 x] at h
      right
      intro hn
      rw [hn] at h
      simp at h

theorem builtSet_good (g : Group) (p : Policy) (snap : Nat → Nat → Option Int) (t : Nat) :
    Good g.n g.tol g.offs p (builtSet g p snap t) ∧
    (∀ x, (builtSet g p snap t).lat x ≠ none → snap t x ≠ none) := by
  unfold builtSet
  have h0 := good_notifyAll (p := p) (snap t) (fun _ => false) (List.range g.n) (ASet.init g.n g.tol g.offs p)
    (by intro d hd; exact List.mem_range.mp hd) (good_init g.n g.tol g.offs p) (by intro x hx; simp [ASet.init] at hx)
  exact good_notifyAll (p := p) (snap t) (g.alive t) (List.range g.n) (ASet.new g.n g.tol g.offs p false (snap t)).1
    (by intro d hd; exact List.mem_range.mp hd) h0.1 h0.2

/-- every `sample`/`told` names a member and samples are positive durations (≥ 1 ns) -/
def WHistOk (n : Nat) : List WEv → Prop
  | [] => True
  | .sample _ d l :: es => d < n ∧ 1 ≤ l ∧ WHistOk n es
  | .told _ d _ :: es => d < n ∧ WHistOk n es
  | .pen _ _ _ :: es => WHistOk n es
  | .policy _ _ :: es => WHistOk n es
  | .restore _ _ _ :: _ => False   -- a reload hand-over is not a sample history (see `winv_restore`)

/-- a latency a set has recorded is backed by the dialer's collection (under the group's policy) -/
def Link (w : World) : Prop :=
  w.g.hasSets = true → ∀ t d, (w.g.sets t).lat d ≠ none →
    ((w.colls t d).snapshot w.g.policy 0).isSome = true

structure WInv (n : Nat) (w : World) : Prop where
  ginv : GInv w.g
  link : Link w
  hn : w.g.n = n

theorem isSome_ne_none {α} (o : Option α) : o.isSome = true ↔ o ≠ none := by
  cases o <;> simp

theorem winv_new (n : Nat) (tol : Int) (offs : Nat → Int) (p : Policy) (fi : Int)
    (alive : Nat → Nat → Bool) (colls : Nat → Nat → Coll) (pens : Nat → Nat → Int) :
    WInv n (worldNew n tol offs p fi alive colls pens) := by
  refine ⟨ginv_gNew _ _ _ _ _ _ _, ?_, ?_⟩
  · unfold Link worldNew gNew
    simp only
    cases hna : needsAlive p
    · simp only [Bool.false_eq_true, if_false]; intro h; cases h
    · simp only [if_true]
      intro _ t d hl
      rw [buildSets_eq] at hl
      split at hl
      · have := (builtSet_good (⟨n, tol, offs, p, fi, false, fun _ => ASet.init n tol offs p, alive⟩ : Group) p
          (fun t d => (colls t d).snapshot p (pens t d)) t).2 d hl
        rw [snapshot_isSome_pen _ _ 0 (pens t d), isSome_ne_none]
        exact this
      · simp [ASet.init] at hl
  · unfold worldNew gNew; simp only; split <;> rfl

theorem gNotify_frame (g : Group) (t d : Nat) (a : Bool) (sn : Option Int) :
    (gNotify g t d a sn).1.n = g.n ∧ (gNotify g t d a sn).1.policy = g.policy ∧
    (gNotify g t d a sn).1.hasSets = g.hasSets ∧
    (gNotify g t d a sn).1.sets = (if g.hasSets then upd g.sets t (notify (g.sets t) d a sn).1 else g.sets) := by
  unfold gNotify
  cases g.hasSets <;> simp

theorem winv_notify {n : Nat} {w : World} (hw : WInv n w) {t d : Nat} (a : Bool) (hd : d < n)
    (hsnap : ((w.colls t d).snapshot w.g.policy 0).isSome = true → (w.snap w.g.policy t d).isSome = true) :
    WInv n { w with g := (gNotify w.g t d a (w.snap w.g.policy t d)).1 } := by
  obtain ⟨f1, f2, f3, f4⟩ := gNotify_frame w.g t d a (w.snap w.g.policy t d)
  have ok : GEvOk w.g (.notify t d a (w.snap w.g.policy t d)) := by
    intro hh
    obtain ⟨i1, i2, i3, i4, i5⟩ := hw.ginv.sets hh t
    refine ⟨by rw [i3, hw.hn]; exact hd, ?_⟩
    intro _ hl
    have := hsnap (hw.link hh t d hl)
    exact (isSome_ne_none _).mp this
  refine ⟨ginv_step hw.ginv ok, ?_, by show (gNotify w.g t d a _).1.n = n; rw [f1]; exact hw.hn⟩
  intro hh t' d' hl
  simp only at hh hl ⊢
  rw [f3] at hh
  rw [f2]
  rw [f4, hh] at hl
  simp only [if_true, upd] at hl
  by_cases ht : t' = t
  · subst ht
    simp only [if_true] at hl
    rcases (notify_frame (w.g.sets t') d a (w.snap w.g.policy t' d)).2.2.2.2 d' hl with h | ⟨h1, h2⟩
    · exact hw.link hh t' d' h
    · subst h1
      have : (w.snap w.g.policy t' d').isSome = true := (isSome_ne_none _).mpr h2
      unfold World.snap at this
      rw [snapshot_isSome_pen _ _ 0 (w.pens t' d')]
      exact this
  · simp only [ht, if_false] at hl
    exact hw.link hh t' d' hl

theorem winv_step {n : Nat} {w : World} {e : WEv} (hw : WInv n w) (ok : WHistOk n [e]) :
    WInv n (stepW w e) := by
  cases e with
  | told t d a =>
    have hd : d < n := ok.1
    show WInv n { w with g := (gNotify w.g t d a (w.snap w.g.policy t d)).1 }
    exact winv_notify hw a hd (by
      intro h; unfold World.snap; rw [snapshot_isSome_pen _ _ (w.pens t d) 0]; exact h)
  | sample t d l =>
    obtain ⟨hd, hl, _⟩ := ok
    -- the world with the sample appended still satisfies the invariant (sets untouched so far)
    have hw1 : WInv n { w with colls := upd w.colls t (upd (w.colls t) d ((w.colls t d).append l)) } := by
      refine ⟨hw.ginv, ?_, hw.hn⟩
      intro hh t' d' hlat
      simp only at hh hlat ⊢
      have := hw.link hh t' d' hlat
      simp only [upd]
      by_cases ht : t' = t
      · subst ht
        by_cases hdd : d' = d
        · subst hdd
          simp only [if_true, upd]
          exact snapshot_stays _ _ 0 0 l hl this
        · simp only [if_true, upd, hdd, if_false]; exact this
      · simp only [ht, if_false]; exact this
    show WInv n { ({ w with colls := upd w.colls t (upd (w.colls t) d ((w.colls t d).append l)) } : World) with
      g := (gNotify w.g t d true (World.snap { w with colls := upd w.colls t (upd (w.colls t) d ((w.colls t d).append l)) } w.g.policy t d)).1 }
    exact winv_notify hw1 true hd (by
      intro h; unfold World.snap; rw [snapshot_isSome_pen _ _ _ 0]; exact h)
  | pen t d v =>
    show WInv n { w with pens := upd w.pens t (upd (w.pens t) d v) }
    exact ⟨hw.ginv, hw.link, hw.hn⟩
  | restore d cs al => exact ok.elim
  | policy p fi =>
    show WInv n { w with g := (gSetPolicy w.g p fi (fun t d => w.snap p t d)).1 }
    have hg' : GInv (gSetPolicy w.g p fi (fun t d => w.snap p t d)).1 :=
      ginv_step (e := .setPolicy p fi (fun t d => w.snap p t d)) hw.ginv trivial
    refine ⟨hg', ?_, ?_⟩
    · intro hh t d hl
      simp only at hh hl ⊢
      have key : ∀ x, w.snap p t x ≠ none → ((w.colls t x).snapshot p 0).isSome = true := by
        intro x hx
        unfold World.snap at hx
        rw [snapshot_isSome_pen _ _ 0 (w.pens t x)]
        exact (isSome_ne_none _).mpr hx
      unfold gSetPolicy at hh hl ⊢
      cases h1 : needsAlive w.g.policy <;> cases h2 : needsAlive p
      · simp only [h1, h2] at hh; rw [hw.ginv.hasSets, h1] at hh; cases hh
      · simp only [h1, h2] at hl ⊢
        rw [buildSets_eq] at hl
        split at hl
        · exact key d ((builtSet_good w.g p (fun t d => w.snap p t d) t).2 d hl)
        · simp [ASet.init] at hl
      · simp only [h1, h2] at hh; cases hh
      · simp only [h1, h2] at hl ⊢
        have hhs : w.g.hasSets = true := by rw [hw.ginv.hasSets, h1]
        obtain ⟨i1, i2, _⟩ := hw.ginv.sets hhs t
        split at hl
        · rcases setPolicy_lat p (fun d => w.snap p t d) d hl with ⟨hp, hold⟩ | hs
          · have := hw.link hhs t d hold
            rw [← i2, hp] at this
            exact this
          · exact key d hs
        · rename_i hpp
          have hpe : w.g.policy = p := by
            apply Classical.byContradiction; intro h; exact hpp h
          have := hw.link hhs t d hl
          rw [hpe] at this
          exact this
    · show (gSetPolicy w.g p fi _).1.n = n
      unfold gSetPolicy
      cases needsAlive w.g.policy <;> cases needsAlive p <;> exact hw.hn

theorem winv_run {n : Nat} (h : List WEv) : ∀ (w : World), WInv n w → WHistOk n h → WInv n (runW w h) := by
  induction h with
  | nil => intro w hw _; exact hw
  | cons e es ih =>
    intro w hw ok
    have ok1 : WHistOk n [e] := by
      cases e with
      | sample t d l => exact ⟨ok.1, ok.2.1, trivial⟩
      | told t d a => exact ⟨ok.1, trivial⟩
      | pen t d v => trivial
      | policy p fi => trivial
      | restore d cs al => exact ok.elim
    have okr : WHistOk n es := by
      cases e with
      | sample t d l => exact ok.2.2
      | told t d a => exact ok.2
      | pen t d v => exact ok
      | policy p fi => exact ok
      | restore d cs al => exact ok.elim
    exact ih (stepW w e) (winv_step hw ok1) okr


/-! ### completeness of the "all answers" form: every listed answer is produced by some random source -/

/-- number of reservoir candidates (entries other than `x`) -/
def nCands (x : Nat) (es : List Entry) : Nat := (es.filter (fun e => e.d != x)).length

theorem reservoir_count (rnd : Nat → Nat) (x : Nat) (es : List Entry) :
    ∀ acc : Option Nat × Nat, (es.foldl (reservoirStep rnd x) acc).2 = acc.2 + nCands x es := by
  induction es with
  | nil => intro acc; simp [nCands]
  | cons e es ih =>
    intro acc
    rw [List.foldl_cons, ih]
    unfold reservoirStep nCands
    by_cases h : e.d = x
    · simp [h]
    · have : (e.d != x) = true := by simp [h]
      simp only [h, if_false, List.filter_cons, this, if_true, List.length_cons]
      split <;> simp <;> omega

/-- with `rnd k = 1` for every `k > j` (and `j ≥ 1`) a choice made at count `≥ j` is never replaced -/
theorem reservoir_keeps (rnd : Nat → Nat) (x j : Nat) (hj : 1 ≤ j) (hr : ∀ k, j < k → rnd k = 1)
    (es : List Entry) : ∀ (c : Option Nat) (cnt : Nat), j ≤ cnt →
      (es.foldl (reservoirStep rnd x) (c, cnt)).1 = c := by
  induction es with
  | nil => intro c cnt _; rfl
  | cons e es ih =>
    intro c cnt hc
    rw [List.foldl_cons]
    unfold reservoirStep
    by_cases h : e.d = x
    · simp only [h, if_true]; exact ih c cnt hc
    · simp only [h, if_false]
      have h1 : rnd (cnt + 1) = 1 := hr _ (by omega)
      have h2 : ¬ (1 % (cnt + 1) = 0) := by
        have : 1 < cnt + 1 := by omega
        rw [Nat.mod_eq_of_lt this]; omega
      rw [h1, if_neg h2]
      exact ih c (cnt + 1) (by omega)

theorem getRand_complete {s : ASet} {excl : Option Nat} {c : Nat} (hc : c ∈ randCands s excl) :
    ∃ rnd, getRand rnd s excl = some c := by
  obtain ⟨⟨e0, he0, hd0⟩, hne⟩ := (mem_randCands s excl c).mp hc
  have hne' : s.entries.isEmpty = false := by
    cases hq : s.entries with
    | nil => rw [hq] at he0; cases he0
    | cons a l => rfl
  unfold getRand
  simp only [hne', Bool.false_eq_true, if_false]
  cases excl with
  | none =>
    obtain ⟨i, hi⟩ := List.mem_iff_getElem?.mp he0
    have hlt : i < s.entries.length := (List.getElem?_eq_some_iff.mp hi).1
    refine ⟨fun _ => i, ?_⟩
    simp only [Nat.mod_eq_of_lt hlt, hi, Option.map_some, hd0]
  | some x =>
    have hcx : c ≠ x := fun h => hne (by rw [h])
    obtain ⟨pre, post, hsplit⟩ := List.append_of_mem he0
    let j := nCands x pre + 1
    refine ⟨fun k => if k ≤ j then 0 else 1, ?_⟩
    simp only
    rw [hsplit, List.foldl_append, List.foldl_cons]
    have hcnt := reservoir_count (fun k => if k ≤ j then 0 else 1) x pre (none, 0)
    -- state after the prefix: count = j - 1
    generalize hst : pre.foldl (reservoirStep (fun k => if k ≤ j then 0 else 1) x) (none, 0) = st at hcnt
    have h2 : st.2 = j - 1 := by simp [hcnt, j]
    have hstep : reservoirStep (fun k => if k ≤ j then 0 else 1) x st e0 = (some c, j) := by
      unfold reservoirStep
      have : ¬ e0.d = x := by rw [hd0]; exact hcx
      simp only [this, if_false, h2]
      have hj : j - 1 + 1 = j := by simp [j]
      rw [hj]
      simp [hd0]
    rw [hstep]
    exact reservoir_keeps _ x j (by simp [j]) (by intro k hk; simp; omega) post (some c) j (Nat.le_refl _)

theorem firstPick_transfer {α β} {p1 : NetType → Option α} {p2 : NetType → Option β} {ts : List NetType}
    {ty : NetType} {c : β} {d : α} (hnone : ∀ ty', p2 ty' = none → p1 ty' = none)
    (h2 : firstPick p2 ts = some (ty, c)) (h1 : p1 ty = some d) : firstPick p1 ts = some (ty, d) := by
  induction ts with
  | nil => simp [firstPick] at h2
  | cons t ts ih =>
    unfold firstPick at h2 ⊢
    cases hp : p2 t with
    | some c' =>
      rw [hp] at h2
      simp only [Option.some.injEq, Prod.mk.injEq] at h2
      obtain ⟨ht, _⟩ := h2
      subst ht
      rw [h1]
    | none =>
      rw [hp] at h2
      rw [hnone t hp]
      exact ih h2

theorem select1All_complete (g : Group) (t : NetType) (p : Policy) (fi : Int) (excl : Option Nat)
    {l : List SelOk} (hl : select1All g t p fi excl = .ok l) {x : SelOk} (hx : x ∈ l) :
    ∃ r : Nat → Nat, select1 (fun _ => r) g t p fi excl = .ok x := by
  by_cases hr : p = .random
  · subst hr
    unfold select1All at hl
    simp only at hl
    by_cases hn : g.n = 0
    · simp [hn] at hl
    · simp only [hn, if_false] at hl
      cases hf : firstPick (fun ty =>
          let c := randCands (g.sets ty.index) excl
          if c.isEmpty then none else some c) (chain t .random) with
      | none => rw [hf] at hl; cases hl
      | some r0 =>
        obtain ⟨ty, c⟩ := r0
        rw [hf] at hl
        simp only [Except.ok.injEq] at hl
        subst hl
        obtain ⟨d, hd, hxd⟩ := List.mem_map.mp hx
        obtain ⟨_, hpick⟩ := firstPick_some hf
        simp only at hpick
        have hc : c = randCands (g.sets ty.index) excl := by
          split at hpick
          · cases hpick
          · exact (Option.some.inj hpick).symm
        rw [hc] at hd
        obtain ⟨r, hr⟩ := getRand_complete hd
        refine ⟨r, ?_⟩
        rw [select1_random]
        simp only [hn, if_false]
        have := firstPick_transfer (p1 := fun ty => getRand r (g.sets ty.index) excl)
          (p2 := fun ty =>
            let c := randCands (g.sets ty.index) excl
            if c.isEmpty then none else some c) (by
            intro ty' h'
            simp only at h'
            apply (getRand_none_iff _ _ _).mpr
            split at h'
            · rename_i he; simpa using he
            · cases h') hf hr
        rw [this]
        simp only
        rw [← hxd]
  · have hall : select1All g t p fi excl = (select1 (fun _ _ => 0) g t p fi excl).map (fun r => [r]) := by
      cases p <;> simp_all [select1All]
    rw [hall] at hl
    refine ⟨fun _ => 0, ?_⟩
    cases hs : select1 (fun _ _ => 0) g t p fi excl with
    | error e => rw [hs] at hl; cases hl
    | ok y =>
      rw [hs] at hl
      simp only [Except.map, Except.ok.injEq] at hl
      subst hl
      simp only [List.mem_singleton] at hx
      subst hx
      rfl

theorem selectAll_complete (g : Group) (t : NetType) (strict : Bool) (excl : Option Nat)
    {l : List SelOk} (hl : selectAll g t strict excl = .ok l) {x : SelOk} (hx : x ∈ l) :
    ∃ rnd, select rnd g t strict excl = .ok x := by
  have m0 := fun r => select1_mem_all (fun _ => r) g t g.policy g.fixedIdx excl
  unfold selectAll at hl
  cases h0 : select1All g t g.policy g.fixedIdx excl with
  | ok l0 =>
    rw [h0] at hl
    simp only [Except.ok.injEq] at hl
    subst hl
    obtain ⟨r, hr⟩ := select1All_complete g t g.policy g.fixedIdx excl h0 hx
    refine ⟨fun _ _ => r, ?_⟩
    unfold select
    rw [hr]
  | error e =>
    rw [h0] at hl
    -- the first `_select` errs for every random source
    have herr : ∀ r : Nat → Nat, select1 (fun _ => r) g t g.policy g.fixedIdx excl = .error e := by
      intro r
      have := m0 r
      cases hq : select1 (fun _ => r) g t g.policy g.fixedIdx excl with
      | ok y => rw [hq] at this; obtain ⟨l', hl', _⟩ := this; rw [h0] at hl'; cases hl'
      | error e' => rw [hq] at this; simp only at this; rw [h0] at this; cases this; rfl
    cases e with
    | noAlive =>
      simp only at hl
      cases strict
      · simp only [Bool.not_false, if_true] at hl
        obtain ⟨r, hr⟩ := select1All_complete g t.flip g.policy g.fixedIdx excl hl hx
        refine ⟨fun _ _ => r, ?_⟩
        unfold select
        rw [herr r]
        simp only [Bool.not_false, if_true]
        exact hr
      · simp only [Bool.not_true, Bool.false_eq_true, if_false] at hl
        by_cases hn : g.n = 1
        · simp only [hn, if_true] at hl
          cases h2 : select1All g t .fixed 0 excl with
          | error e2 => rw [h2] at hl; cases hl
          | ok l2 =>
            rw [h2] at hl
            simp only [Except.ok.injEq] at hl
            subst hl
            obtain ⟨y, hy, hxy⟩ := List.mem_map.mp hx
            obtain ⟨r, hr⟩ := select1All_complete g t .fixed 0 excl h2 hy
            refine ⟨fun _ _ => r, ?_⟩
            unfold select
            rw [herr r]
            simp only [Bool.not_true, Bool.false_eq_true, if_false, hn, if_true]
            rw [hr]
            simp only
            rw [← hxy]
        · simp [hn] at hl
    | noDialers => cases hl
    | outOfRange => cases hl
    | unsupported => cases hl


/-! ### reload hand-over: what survives -/

theorem winv_told {n : Nat} {w : World} (hw : WInv n w) (t : Nat) {d : Nat} (a : Bool) (hd : d < n) :
    WInv n (toldStep w t d a).1 := by
  show WInv n { w with g := (gNotify w.g t d a (w.snap w.g.policy t d)).1 }
  exact winv_notify hw a hd (by
    intro h; unfold World.snap; rw [snapshot_isSome_pen _ _ (w.pens t d) 0]; exact h)

theorem toldStep_frame (w : World) (t d : Nat) (a : Bool) :
    (toldStep w t d a).1.colls = w.colls ∧ (toldStep w t d a).1.pens = w.pens := ⟨rfl, rfl⟩

/-- the side condition under which a restored snapshot keeps `mono`: wherever a set has recorded a
latency for `d` (under the group's policy), the restored collection still has one -/
def RestoreOk (w : World) (d : Nat) (cs : Nat → Coll) : Prop :=
  w.g.hasSets = true → ∀ t, t < 6 → (w.g.sets t).lat d ≠ none →
    ((cs t).snapshot w.g.policy 0).isSome = true

theorem winv_fold_told {n : Nat} {d : Nat} (al : Nat → Bool) (hd : d < n) (ts : List Nat) :
    ∀ (acc : World × List GCb), WInv n acc.1 →
      WInv n (ts.foldl (fun (acc : World × List GCb) t =>
        let r := toldStep acc.1 t d (al t)
        (r.1, acc.2 ++ r.2)) acc).1 := by
  induction ts with
  | nil => intro acc h; exact h
  | cons t ts ih =>
    intro acc h
    simp only [List.foldl_cons]
    exact ih _ (winv_told h t (al t) hd)

theorem winv_restore {n : Nat} {w : World} (hw : WInv n w) {d : Nat} (hd : d < n) (cs : Nat → Coll)
    (al : Nat → Bool) (ok : RestoreOk w d cs) : WInv n (stepW w (.restore d cs al)) := by
  unfold stepW stepWcb
  apply winv_fold_told al hd restoreOrder
  refine ⟨hw.ginv, ?_, hw.hn⟩
  intro hh t' d' hl
  simp only at hh hl ⊢
  by_cases ht : t' < 6
  · simp only [ht, if_true, upd]
    by_cases hdd : d' = d
    · subst hdd
      simp only [if_true]
      exact ok hh t' ht hl
    · simp only [hdd, if_false]
      exact hw.link hh t' d' hl
  · simp only [ht, if_false]
    exact hw.link hh t' d' hl

theorem winv_floor {n : Nat} {w : World} (hw : WInv n w) (fb : Nat → Option Nat)
    (hfb : ∀ t d, fb t = some d → d < n) : WInv n (floorW w fb).1 := by
  unfold floorW
  have key : ∀ (ts : List Nat) (acc : World × List GCb), WInv n acc.1 →
      WInv n (ts.foldl (floorStep fb) acc).1 := by
    intro ts
    induction ts with
    | nil => intro acc h; exact h
    | cons t ts ih =>
      intro acc h
      simp only [List.foldl_cons]
      apply ih
      unfold floorStep
      simp only
      split
      · cases hq : fb t with
        | some d =>
          simp only
          exact winv_told h t true (hfb t d hq)
        | none =>
          simp only
          by_cases hn : acc.1.g.n > 0
          · simp only [hn, if_true]
            have : 0 < n := by rw [← h.hn]; exact hn
            exact winv_told h t true this
          · simp only [hn, if_false]
            exact h
      · exact h
  exact key (List.range 6) (w, []) hw

/-! the hypothesis-free part (all full-strength selection theorems) across every world event -/

structure WM (n : Nat) (w : World) : Prop where
  gm : GMInv w.g
  agree : Agree w.g
  hn : w.g.n = n

theorem wm_gstep {n : Nat} {w : World} (hw : WM n w) (e : GEv) (hm : GHistMem n [e]) (w' : World)
    (hg : w'.g = stepG w.g e) : WM n w' := by
  have hm' : GHistMem w.g.n [e] := by rw [hw.hn]; exact hm
  obtain ⟨h1, h2⟩ := gminv_step hw.gm hm'
  exact ⟨by rw [hg]; exact h1, by rw [hg]; exact agree_step hw.gm hw.agree hm', by rw [hg, h2]; exact hw.hn⟩

theorem wm_told {n : Nat} {w : World} (hw : WM n w) (t : Nat) {d : Nat} (a : Bool) (hd : d < n) :
    WM n (toldStep w t d a).1 :=
  wm_gstep hw (.notify t d a (w.snap w.g.policy t d)) ⟨hd, trivial⟩ _ rfl

/-- every world event names a member -/
def WMem (n : Nat) : WEv → Prop
  | .sample _ d _ => d < n
  | .told _ d _ => d < n
  | .pen _ _ _ => True
  | .policy _ _ => True
  | .restore d _ _ => d < n

theorem wm_step {n : Nat} {w : World} {e : WEv} (hw : WM n w) (hm : WMem n e) : WM n (stepW w e) := by
  cases e with
  | sample t d l =>
    exact wm_gstep (w := { w with colls := upd w.colls t (upd (w.colls t) d ((w.colls t d).append l)) })
      ⟨hw.gm, hw.agree, hw.hn⟩ (.notify t d true _) ⟨hm, trivial⟩ _ rfl
  | told t d a => exact wm_told hw t a hm
  | pen t d v => exact ⟨hw.gm, hw.agree, hw.hn⟩
  | policy p fi => exact wm_gstep hw (.setPolicy p fi (fun t d => w.snap p t d)) trivial _ rfl
  | restore d cs al =>
    unfold stepW stepWcb
    have key : ∀ (ts : List Nat) (acc : World × List GCb), WM n acc.1 →
        WM n (ts.foldl (fun (acc : World × List GCb) t =>
          let r := toldStep acc.1 t d (al t)
          (r.1, acc.2 ++ r.2)) acc).1 := by
      intro ts
      induction ts with
      | nil => intro acc h; exact h
      | cons t ts ih =>
        intro acc h
        simp only [List.foldl_cons]
        exact ih _ (wm_told h t (al t) hm)
    exact key restoreOrder _ ⟨hw.gm, hw.agree, hw.hn⟩

theorem wm_floor {n : Nat} {w : World} (hw : WM n w) (fb : Nat → Option Nat)
    (hfb : ∀ t d, fb t = some d → d < n) : WM n (floorW w fb).1 := by
  unfold floorW
  have key : ∀ (ts : List Nat) (acc : World × List GCb), WM n acc.1 →
      WM n (ts.foldl (floorStep fb) acc).1 := by
    intro ts
    induction ts with
    | nil => intro acc h; exact h
    | cons t ts ih =>
      intro acc h
      simp only [List.foldl_cons]
      apply ih
      unfold floorStep
      simp only
      split
      · cases hq : fb t with
        | some d => simp only; exact wm_told h t true (hfb t d hq)
        | none =>
          simp only
          by_cases hn : acc.1.g.n > 0
          · simp only [hn, if_true]
            have : 0 < n := by rw [← h.hn]; exact hn
            exact wm_told h t true this
          · simp only [hn, if_false]
            exact h
      · exact h
  exact key (List.range 6) (w, []) hw

theorem wm_new (n : Nat) (tol : Int) (offs : Nat → Int) (p : Policy) (fi : Int)
    (alive : Nat → Nat → Bool) (colls : Nat → Nat → Coll) (pens : Nat → Nat → Int) :
    WM n (worldNew n tol offs p fi alive colls pens) := by
  obtain ⟨h0, n0⟩ := gminv_gNew n tol offs p fi alive (fun t d => (colls t d).snapshot p (pens t d))
  exact ⟨h0, agree_gNew _ _ _ _ _ _ _, n0⟩

/-- the captured fallback names members -/
theorem captureFallback_lt {n : Nat} {w : World} (hw : WM n w) (rnd : Nat → Nat → Nat → Nat → Nat)
    (hp : w.g.policy ≠ .fixed) (t d : Nat) (h : captureFallback rnd w.g t = some d) : d < n := by
  unfold captureFallback at h
  cases hs : select (rnd t) w.g (stdType t) false none with
  | error e => rw [hs] at h; cases h
  | ok x =>
    rw [hs] at h
    simp only [Option.some.injEq] at h
    subst h
    rcases select_ok hp (fun ty => (hw.gm.sets ty).1.bestIn) hs with ⟨ty, _, ⟨e, he, hed⟩, _⟩ | ⟨hstr, _⟩
    · obtain ⟨hmi, hnn⟩ := hw.gm.sets ty.index
      obtain ⟨hlt, _⟩ := idx_of_mem hmi.idx he
      rw [hnn, hw.hn, hed] at hlt
      exact hlt
    · cases hstr


/-- world histories with reload: every event names a member, samples are ≥ 1 ns, and a restore
satisfies `RestoreOk` in the state in which it happens -/
def WOk (n : Nat) : World → List WEv → Prop
  | _, [] => True
  | w, e :: es =>
    (match e with
      | .sample _ d l => d < n ∧ 1 ≤ l
      | .told _ d _ => d < n
      | .pen _ _ _ => True
      | .policy _ _ => True
      | .restore d cs _ => d < n ∧ RestoreOk w d cs) ∧ WOk n (stepW w e) es

theorem winv_runOk {n : Nat} (h : List WEv) : ∀ (w : World), WInv n w → WOk n w h → WInv n (runW w h) := by
  induction h with
  | nil => intro w hw _; exact hw
  | cons e es ih =>
    intro w hw ok
    obtain ⟨ok1, okr⟩ := ok
    refine ih (stepW w e) ?_ okr
    cases e with
    | sample t d l => exact winv_step hw ⟨ok1.1, ok1.2, trivial⟩
    | told t d a => exact winv_step hw ⟨ok1, trivial⟩
    | pen t d v => exact winv_step (e := .pen t d v) hw trivial
    | policy p fi => exact winv_step (e := .policy p fi) hw trivial
    | restore d cs al => exact winv_restore hw ok1.1 cs al ok1.2

/-- a restore onto a dialer for which no set has recorded a latency (a fresh generation) is fine -/
theorem restoreOk_of_unrecorded (w : World) (d : Nat) (cs : Nat → Coll)
    (h : ∀ t, t < 6 → (w.g.sets t).lat d = none) : RestoreOk w d cs := by
  intro _ t ht hl
  exact absurd (h t ht) hl

theorem wm_run {n : Nat} (h : List WEv) : ∀ (w : World), WM n w → (∀ e ∈ h, WMem n e) → WM n (runW w h) := by
  induction h with
  | nil => intro w hw _; exact hw
  | cons e es ih =>
    intro w hw hm
    exact ih (stepW w e) (wm_step hw (hm e (by simp))) (fun e' he' => hm e' (by simp [he']))


/-- in a world satisfying `WInv` (every world reached by a sample history), the next report or
sample about a member is an admissible notification for the set of its domain -/
theorem notifyOk_of_winv {n : Nat} {w : World} (hw : WInv n w) (hh : w.g.hasSets = true) {t d : Nat}
    (hd : d < n) (snap : Option Int)
    (hs : ((w.colls t d).snapshot w.g.policy 0).isSome = true → snap ≠ none) :
    NotifyOk (w.g.sets t) d snap := by
  obtain ⟨i1, i2, i3, _⟩ := hw.ginv.sets hh t
  refine ⟨by rw [i3, hw.hn]; exact hd, ?_⟩
  intro _ hl
  exact hs (hw.link hh t d hl)

/-- the sets of domain `t` after `toldStep` -/
theorem toldStep_sets (w : World) (hh : w.g.hasSets = true) (t d : Nat) (a : Bool) :
    (toldStep w t d a).1.g.sets t = (notify (w.g.sets t) d a (w.snap w.g.policy t d)).1 := by
  unfold toldStep
  simp only
  rw [(gNotify_frame w.g t d a _).2.2.2, hh]
  simp [upd]

/-- **switch rule, world level** -/
theorem switch_world {n : Nat} {w : World} (hw : WInv n w) (hh : w.g.hasSets = true)
    (hm : w.g.policy.isMin = true) {t d : Nat} (a : Bool) (hd : d < n) {b b' : Nat}
    (hs : ((w.colls t d).snapshot w.g.policy 0).isSome = true → w.snap w.g.policy t d ≠ none)
    (hb : (w.g.sets t).minD = some b) (hb' : ((toldStep w t d a).1.g.sets t).minD = some b') (hne : b ≠ b') :
    let s' := (toldStep w t d a).1.g.sets t
    (¬ ∃ e ∈ s'.entries, e.d = b) ∨ s'.lat b = none ∨
    (∃ eb ∈ s'.entries, ∃ eb' ∈ s'.entries, eb.d = b ∧ eb'.d = b' ∧ eb'.sl ≤ eb.sl ∧
      (eb'.sl + (w.g.sets t).tol ≤ eb.sl ∨ eb.sl < (w.g.sets t).tol)) := by
  intro s'
  obtain ⟨i1, i2, _⟩ := hw.ginv.sets hh t
  have ok := notifyOk_of_winv hw hh hd (w.snap w.g.policy t d) hs
  have hsm : (w.g.sets t).policy.isMin = true := by rw [i2]; exact hm
  have e := toldStep_sets w hh t d a
  have : s' = (notify (w.g.sets t) d a (w.snap w.g.policy t d)).1 := e
  rw [this]
  rw [e] at hb'
  exact switch_notify i1 hsm ok hb hb' hne

end DaeVerif.C15
