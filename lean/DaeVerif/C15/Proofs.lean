import DaeVerif.C15.Model
namespace DaeVerif.C15

def ASet.ds (s : ASet) : List Nat := s.entries.map (·.d)

structure IdxInv (s : ASet) : Prop where
  fwd : ∀ d k, d < s.n → s.idx d = .at k → s.ds[k]? = some d
  bwd : ∀ k d, s.ds[k]? = some d → d < s.n ∧ s.idx d = .at k
  noPanic : s.panicked = false

theorem idxInv_init (n : Nat) (tol : Int) (offs : Nat → Int) (p : Policy) :
    IdxInv (ASet.init n tol offs p) := by
  constructor
  · intro d k hd h
    have hd' : d < n := hd
    simp [ASet.init, hd'] at h
  · intro k d h; simp [ASet.init, ASet.ds] at h
  · rfl

theorem idxInv_join (s : ASet) (d : Nat) (h : IdxInv s) (hd : d < s.n) (hn : ∀ k, s.idx d ≠ .at k) :
    IdxInv (join s d) := by
  have hf := h.fwd
  have hb := h.bwd
  constructor
  · intro d' k hd' hk
    simp only [join, upd] at hk
    simp only [ASet.ds, join, List.map_append, List.map_cons, List.map_nil] at *
    grind
  · intro k d' hk
    simp only [ASet.ds, join, List.map_append, List.map_cons, List.map_nil, upd] at *
    grind
  · exact h.noPanic

end DaeVerif.C15

namespace DaeVerif.C15

theorem ds_length (s : ASet) : s.ds.length = s.entries.length := by simp [ASet.ds]

theorem ds_getElem? (s : ASet) (k : Nat) : s.ds[k]? = (s.entries[k]?).map (·.d) := by
  simp [ASet.ds]

theorem idxInv_removeAt (s : ASet) (d k : Nat) (h : IdxInv s) (hd : d < s.n) (hk : s.idx d = .at k) :
    IdxInv (removeAt s d k) := by
  have hf := h.fwd
  have hb := h.bwd
  have hp := h.noPanic
  have hdk := hf d k hd hk
  have hlen := ds_length s
  have hklt : k < s.entries.length := by
    have := (List.getElem?_eq_some_iff.mp hdk).1; omega
  unfold removeAt
  rw [if_neg (by omega)]
  simp only
  by_cases hlast : k < s.entries.length - 1
  · rw [if_pos hlast]
    have hsw : s.ds[s.entries.length - 1]? = some (s.entries.getD (s.entries.length - 1) default).d := by
      rw [ds_getElem?, List.getD_eq_getElem?_getD]
      have : s.entries.length - 1 < s.entries.length := by omega
      simp [List.getElem?_eq_getElem this]
    have hswb := hb _ _ hsw
    have hne : (s.entries.getD (s.entries.length - 1) default).d ≠ d := by
      intro he; rw [he] at hswb; rw [hk] at hswb; cases hswb.2; omega
    rw [if_neg hne]
    constructor
    · intro d' k' hd' hk'
      simp only [upd] at hk'
      simp only [ASet.ds, List.map_dropLast, List.map_set] at *
      grind
    · intro k' d' hk'
      simp only [ASet.ds, List.map_dropLast, List.map_set, upd] at *
      grind
    · exact hp
  · rw [if_neg hlast]
    constructor
    · intro d' k' hd' hk'
      simp only [upd] at hk'
      simp only [ASet.ds, List.map_dropLast] at *
      grind
    · intro k' d' hk'
      simp only [ASet.ds, List.map_dropLast, upd] at *
      grind
    · exact hp

end DaeVerif.C15

namespace DaeVerif.C15

theorem idxInv_congr {s s' : ASet} (h : IdxInv s) (hn : s'.n = s.n) (hi : s'.idx = s.idx)
    (hds : s'.ds = s.ds) (hp : s'.panicked = s.panicked) : IdxInv s' := by
  constructor
  · intro d k hd hk; rw [hds]; rw [hn] at hd; rw [hi] at hk; exact h.fwd d k hd hk
  · intro k d hk; rw [hds] at hk; rw [hn, hi]; exact h.bwd k d hk
  · rw [hp]; exact h.noPanic

theorem mem_entries_iff (s : ASet) (e : Entry) : e ∈ s.entries ↔ ∃ k : Nat, s.entries[k]? = some e :=
  List.mem_iff_getElem?

theorem idx_of_mem {s : ASet} (h : IdxInv s) {e : Entry} (he : e ∈ s.entries) :
    e.d < s.n ∧ ∃ k, s.idx e.d = .at k ∧ s.entries[k]? = some e := by
  obtain ⟨k, hk⟩ := List.mem_iff_getElem?.mp he
  have : s.ds[k]? = some e.d := by rw [ds_getElem?, hk]; rfl
  have := h.bwd k e.d this
  exact ⟨this.1, k, this.2, hk⟩

theorem entries_inj {s : ASet} (h : IdxInv s) {e1 e2 : Entry} (h1 : e1 ∈ s.entries) (h2 : e2 ∈ s.entries)
    (hd : e1.d = e2.d) : e1 = e2 := by
  obtain ⟨_, k1, hk1, hg1⟩ := idx_of_mem h h1
  obtain ⟨_, k2, hk2, hg2⟩ := idx_of_mem h h2
  rw [hd, hk2] at hk1
  cases hk1
  rw [hg1] at hg2
  exact Option.some.inj hg2

theorem alive_iff {s : ASet} (h : IdxInv s) {d : Nat} (hd : d < s.n) :
    (∃ k, s.idx d = .at k) ↔ ∃ e ∈ s.entries, e.d = d := by
  constructor
  · rintro ⟨k, hk⟩
    have := h.fwd d k hd hk
    rw [ds_getElem?] at this
    cases hg : s.entries[k]? with
    | none => simp [hg] at this
    | some e =>
      simp [hg] at this
      exact ⟨e, List.mem_iff_getElem?.mpr ⟨k, hg⟩, this⟩
  · rintro ⟨e, he, hed⟩
    obtain ⟨_, k, hk, _⟩ := idx_of_mem h he
    exact ⟨k, hed ▸ hk⟩

theorem mem_join (s : ASet) (d : Nat) (e : Entry) :
    e ∈ (join s d).entries ↔ e ∈ s.entries ∨ e = ⟨d, 0⟩ := by
  simp [join]

theorem mem_removeAt {s : ASet} {d k : Nat} (h : IdxInv s) (hd : d < s.n) (hk : s.idx d = .at k) (e : Entry) :
    e ∈ (removeAt s d k).entries ↔ e ∈ s.entries ∧ e.d ≠ d := by
  have hf := h.fwd
  have hb := h.bwd
  have hdk := hf d k hd hk
  have hlen := ds_length s
  have hklt : k < s.entries.length := by
    have := (List.getElem?_eq_some_iff.mp hdk).1; omega
  unfold removeAt
  rw [if_neg (by omega)]
  simp only
  have hsw : s.ds[s.entries.length - 1]? = some (s.entries.getD (s.entries.length - 1) default).d := by
    rw [ds_getElem?, List.getD_eq_getElem?_getD]
    have : s.entries.length - 1 < s.entries.length := by omega
    simp [List.getElem?_eq_getElem this]
  have hswb := hb _ _ hsw
  simp only [List.mem_iff_getElem?]
  simp only [ASet.ds, List.getElem?_map] at hf hb hdk hsw
  by_cases hlast : k < s.entries.length - 1
  · rw [if_pos hlast]
    have hne : (s.entries.getD (s.entries.length - 1) default).d ≠ d := by
      intro he; rw [he] at hswb; rw [hk] at hswb; cases hswb.2; omega
    rw [if_neg hne]
    simp only
    constructor
    · rintro ⟨j, hj⟩
      grind
    · rintro ⟨⟨j, hj⟩, hne'⟩
      by_cases hjl : j = s.entries.length - 1
      · refine ⟨k, ?_⟩
        grind
      · refine ⟨j, ?_⟩
        grind
  · rw [if_neg hlast]
    simp only
    constructor
    · rintro ⟨j, hj⟩
      grind
    · rintro ⟨⟨j, hj⟩, hne'⟩
      refine ⟨j, ?_⟩
      grind

end DaeVerif.C15
