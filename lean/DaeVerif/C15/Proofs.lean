import DaeVerif.C15.Model
namespace DaeVerif.C15
end DaeVerif.C15
