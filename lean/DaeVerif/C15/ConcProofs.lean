import DaeVerif.C15.Proofs
import DaeVerif.C15.Conc
/-! # C15 — lemmas about the concurrent parts (`Conc.lean`) -/
namespace DaeVerif.C15

/-! ## A/B. updates in flight, sets under construction -/

/-- "the set agrees with the flag, or `E` explains why not" -/
def AgreeX (E : Nat → Nat → Prop) (g : Group) : Prop :=
  g.hasSets = true → ∀ t, t < 6 → ∀ d, d < g.n → E t d ∨ (g.sets t).isAlive d = g.alive t d

theorem AgreeX.mono {E E' : Nat → Nat → Prop} {g : Group} (h : ∀ t d, E t d → E' t d) (ha : AgreeX E g) :
    AgreeX E' g := by
  intro hh t ht d hd
  rcases ha hh t ht d hd with h1 | h2
  · exact Or.inl (h t d h1)
  · exact Or.inr h2

theorem agreeX_notify {E : Nat → Nat → Prop} {g : Group} (hg : GMInv g) (ha : AgreeX E g)
    (t : Nat) {d : Nat} (a : Bool) (sn : Option Int) (hd : d < g.n) :
    AgreeX E (stepG g (.notify t d a sn)) := by
  simp only [stepG, gNotify]
  cases hh : g.hasSets
  · simp only [Bool.false_eq_true, if_false]
    intro h; cases h
  · simp only [if_true]
    intro _ t' ht' d' hd'
    simp only [upd]
    obtain ⟨i1, i2⟩ := hg.sets t
    by_cases h1 : t' = t
    · subst h1
      simp only [if_true]
      rw [isAlive_notify a sn i1.idx (by rw [i2]; exact hd)]
      by_cases h2 : d' = d
      · right; simp [h2, upd]
      · simp only [h2, if_false, upd]
        exact ha hh t' ht' d' hd'
    · simp only [h1, if_false]
      exact ha hh t' ht' d' hd'

/-- the pair just told agrees afterwards, whatever was the case before -/
theorem agree_pair_notify {g : Group} (hg : GMInv g) (hh : g.hasSets = true)
    (t : Nat) {d : Nat} (a : Bool) (sn : Option Int) (hd : d < g.n) :
    ((stepG g (.notify t d a sn)).sets t).isAlive d = (stepG g (.notify t d a sn)).alive t d := by
  simp only [stepG, gNotify, hh, if_true, upd]
  obtain ⟨i1, i2⟩ := hg.sets t
  rw [isAlive_notify a sn i1.idx (by rw [i2]; exact hd)]
  simp

theorem agreeX_setPolicy {E : Nat → Nat → Prop} {g : Group} (hg : GMInv g) (ha : AgreeX E g)
    (p : Policy) (fi : Int) (snap : Nat → Nat → Option Int) :
    AgreeX E (stepG g (.setPolicy p fi snap)) := by
  simp only [stepG, gSetPolicy]
  cases h1 : needsAlive g.policy <;> cases h2 : needsAlive p
  · simp only; exact ha
  · simp only
    intro _ t ht d hd
    simp only
    right
    rw [buildSets_eq, if_pos ht]
    exact builtSet_isAlive g p snap t d hd
  · simp only; intro h; cases h
  · simp only
    have hh : g.hasSets = true := by rw [hg.hasSets, h1]
    intro _ t ht d hd
    simp only
    split
    · rw [isAlive_setPolicy]; exact ha hh t ht d hd
    · exact ha hh t ht d hd

/-- a group without sets: after a policy switch either still none, or a freshly built family that
agrees with every flag -/
theorem agreeX_setPolicy_fresh {E : Nat → Nat → Prop} {g : Group} (hg : GMInv g) (hh : g.hasSets = false)
    (p : Policy) (fi : Int) (snap : Nat → Nat → Option Int) :
    AgreeX E (stepG g (.setPolicy p fi snap)) := by
  have h1 : needsAlive g.policy = false := by rw [← hg.hasSets]; exact hh
  simp only [stepG, gSetPolicy, h1]
  cases h2 : needsAlive p
  · simp only
    intro h; simp only at h; rw [hh] at h; cases h
  · simp only
    intro _ t ht d hd
    simp only
    right
    rw [buildSets_eq, if_pos ht]
    exact builtSet_isAlive g p snap t d hd

/-- every event names a member -/
def AMem (n : Nat) : AEv → Prop
  | .sync e => WMem n e
  | .mark _ _ d _ => d < n
  | .obs _ _ d _ => d < n
  | _ => True

/-- the event writes a dialer-side flag -/
def AEv.writesFlag : AEv → Bool
  | .sync (.sample _ _ _) => true
  | .sync (.told _ _ _) => true
  | .sync (.restore _ _ _) => true
  | .mark _ _ _ _ => true
  | .obs _ _ _ _ => true
  | _ => false

/-- the event is one of the three steps of a policy switch taken apart -/
def AEv.isSplit : AEv → Bool
  | .pbegin _ _ => true
  | .pbuild => true
  | .pend => true
  | _ => false

/-- an update about `(t, d)` that captured the group's current sets is in flight -/
def Expl (aw : AWorld) (t d : Nat) : Prop := ∃ p ∈ aw.pend, p.t = t ∧ p.d = d ∧ p.gen = aw.gen

structure AInv (n : Nat) (aw : AWorld) : Prop where
  gm : GMInv aw.w.g
  hn : aw.w.g.n = n
  agree : AgreeX (Expl aw) aw.w.g
  pendMem : ∀ p ∈ aw.pend, p.d < n
  staged : ∀ st, aw.staged = some st →
    aw.w.g.hasSets = false ∧ needsAlive st.p = true ∧ st.upto ≤ 6 ∧
    (∀ t, MInv (st.sets t) ∧ (st.sets t).n = n) ∧
    (∀ t, t < st.upto → ∀ d, d < n → (st.sets t).isAlive d = aw.w.g.alive t d)

theorem ainv_init {n : Nat} {w : World} (hw : WM n w) : AInv n (AWorld.ofWorld w) :=
  ⟨hw.gm, hw.hn, fun hh t ht d hd => Or.inr (hw.agree hh t ht d hd), (by intro p hp; cases hp),
   (by intro st h; cases h)⟩

/-! ### one world event, as far as `GMInv`, the size, `hasSets` and `AgreeX` go -/

theorem told_gm {n : Nat} {w : World} (hg : GMInv w.g) (hn : w.g.n = n) (t : Nat) {d : Nat} (a : Bool)
    (hd : d < n) :
    GMInv (toldStep w t d a).1.g ∧ (toldStep w t d a).1.g.n = n ∧
    (toldStep w t d a).1.g.hasSets = w.g.hasSets := by
  have hm' : GHistMem w.g.n [GEv.notify t d a (w.snap w.g.policy t d)] := ⟨by rw [hn]; exact hd, trivial⟩
  obtain ⟨h1, h2⟩ := gminv_step hg hm'
  exact ⟨h1, by rw [← hn]; exact h2, (gNotify_frame w.g t d a _).2.2.1⟩

theorem told_agreeX {n : Nat} {E : Nat → Nat → Prop} {w : World} (hg : GMInv w.g) (hn : w.g.n = n)
    (ha : AgreeX E w.g) (t : Nat) {d : Nat} (a : Bool) (hd : d < n) :
    AgreeX E (toldStep w t d a).1.g :=
  agreeX_notify hg ha t a (w.snap w.g.policy t d) (by rw [hn]; exact hd)

/-- a run of `toldStep`s about one dialer (what `restore` does) -/
theorem toldFold_inv {n : Nat} {E : Nat → Nat → Prop} (d : Nat) (al : Nat → Bool) (hd : d < n) :
    ∀ (ts : List Nat) (acc : World × List GCb),
      GMInv acc.1.g → acc.1.g.n = n → AgreeX E acc.1.g →
      let r := ts.foldl (fun (acc : World × List GCb) t =>
          let r := toldStep acc.1 t d (al t)
          (r.1, acc.2 ++ r.2)) acc
      GMInv r.1.g ∧ r.1.g.n = n ∧ AgreeX E r.1.g ∧ r.1.g.hasSets = acc.1.g.hasSets := by
  intro ts
  induction ts with
  | nil => intro acc h1 h2 h3; exact ⟨h1, h2, h3, rfl⟩
  | cons t ts ih =>
    intro acc h1 h2 h3
    simp only [List.foldl_cons]
    obtain ⟨a1, a2, a3⟩ := told_gm h1 h2 t (al t) hd
    have a4 := told_agreeX (E := E) h1 h2 h3 t (al t) hd
    obtain ⟨b1, b2, b3, b4⟩ := ih (((toldStep acc.1 t d (al t)).1, acc.2 ++ (toldStep acc.1 t d (al t)).2)) a1 a2 a4
    exact ⟨b1, b2, b3, by rw [b4]; exact a3⟩

/-- one sequential world event other than a policy switch: invariants kept, `hasSets` unchanged -/
theorem stepW_nonpolicy {n : Nat} {E : Nat → Nat → Prop} {w : World} {e : WEv} (hg : GMInv w.g)
    (hn : w.g.n = n) (ha : AgreeX E w.g) (hm : WMem n e) (hnp : ∀ p fi, e ≠ .policy p fi) :
    GMInv (stepW w e).g ∧ (stepW w e).g.n = n ∧ AgreeX E (stepW w e).g ∧
    (stepW w e).g.hasSets = w.g.hasSets := by
  cases e with
  | sample t d l =>
    let w1 : World := { w with colls := upd w.colls t (upd (w.colls t) d ((w.colls t d).append l)) }
    have e1 : stepW w (.sample t d l) = (toldStep w1 t d true).1 := rfl
    rw [e1]
    obtain ⟨a1, a2, a3⟩ := told_gm (w := w1) hg hn t true hm
    exact ⟨a1, a2, told_agreeX (w := w1) hg hn ha t true hm, a3⟩
  | told t d a =>
    obtain ⟨a1, a2, a3⟩ := told_gm hg hn t a hm
    exact ⟨a1, a2, told_agreeX hg hn ha t a hm, a3⟩
  | pen t d v => exact ⟨hg, hn, ha, rfl⟩
  | policy p fi => exact absurd rfl (hnp p fi)
  | restore d cs al =>
    let w1 : World := { w with colls := fun t => if t < 6 then upd (w.colls t) d (cs t) else w.colls t }
    exact toldFold_inv (E := E) d al hm restoreOrder (w1, []) hg hn ha

theorem stepW_policy {n : Nat} {w : World} (hg : GMInv w.g) (hn : w.g.n = n) (p : Policy) (fi : Int) :
    GMInv (stepW w (.policy p fi)).g ∧ (stepW w (.policy p fi)).g.n = n := by
  have e1 : (stepW w (.policy p fi)).g = stepG w.g (.setPolicy p fi (fun t d => w.snap p t d)) := rfl
  rw [e1]
  obtain ⟨h1, h2⟩ := gminv_step (e := .setPolicy p fi (fun t d => w.snap p t d)) hg trivial
  exact ⟨h1, by rw [h2]; exact hn⟩

/-! ### `buildOne` is the set `buildSelectionState` builds -/

theorem buildOne_eq (g : Group) (p : Policy) (snap : Nat → Nat → Option Int) (t : Nat) :
    (buildOne g p (snap t) t).1 = builtSet g p snap t := rfl

theorem builtSet_minv (g : Group) (p : Policy) (snap : Nat → Nat → Option Int) (t : Nat) (ht : t < 6) :
    MInv (builtSet g p snap t) ∧ (builtSet g p snap t).n = g.n := by
  have := minv_buildSets g p snap t
  rw [buildSets_eq, if_pos ht] at this
  exact this

/-! ### one step of the asynchronous world -/

/-- hypothesis of the `_partial` theorem: every event names a member, and no dialer flag is written
while a policy switch is between building its sets and registering them -/
def AOk (n : Nat) : AWorld → List AEv → Prop
  | _, [] => True
  | aw, e :: es => (AMem n e ∧ (aw.staged.isSome = true → e.writesFlag = false)) ∧ AOk n (stepA aw e) es

theorem expl_of_gen_pend {aw aw' : AWorld} (hg : aw'.gen = aw.gen) (hp : ∀ p ∈ aw.pend, p ∈ aw'.pend) :
    ∀ t d, Expl aw t d → Expl aw' t d := by
  intro t d ⟨p, hp1, h1, h2, h3⟩
  exact ⟨p, hp p hp1, h1, h2, by rw [hg]; exact h3⟩

theorem setFlag_g (w : World) (t d : Nat) (a : Bool) :
    (setFlag w t d a).g.sets = w.g.sets ∧ (setFlag w t d a).g.hasSets = w.g.hasSets ∧
    (setFlag w t d a).g.n = w.g.n ∧ (setFlag w t d a).g.policy = w.g.policy := ⟨rfl, rfl, rfl, rfl⟩

theorem gminv_setFlag {w : World} (hg : GMInv w.g) (t d : Nat) (a : Bool) : GMInv (setFlag w t d a).g :=
  ⟨hg.hasSets, hg.sets⟩

/-- a flag write together with a fresh update in flight about that pair -/
theorem ainv_flagWrite {n : Nat} {aw : AWorld} (h : AInv n aw) (hs : aw.staged = none) (w1 : World)
    (hw1 : w1.g = aw.w.g) (id t d : Nat) (a : Bool) (hd : d < n) :
    AInv n { aw with w := setFlag w1 t d a, pend := aw.pend ++ [⟨id, t, d, aw.gen⟩] } := by
  have hg1 : GMInv w1.g := by rw [hw1]; exact h.gm
  refine ⟨gminv_setFlag hg1 t d a, by show w1.g.n = n; rw [hw1]; exact h.hn, ?_, ?_, ?_⟩
  · intro hh t' ht' d' hd'
    have hh' : aw.w.g.hasSets = true := by rw [← hw1]; exact hh
    have hd'' : d' < aw.w.g.n := by rw [← hw1]; exact hd'
    by_cases hp : t' = t ∧ d' = d
    · left
      exact ⟨⟨id, t, d, aw.gen⟩, by simp, hp.1.symm, hp.2.symm, rfl⟩
    · rcases h.agree hh' t' ht' d' hd'' with ⟨p, hp1, h1, h2, h3⟩ | h2
      · left; exact ⟨p, by simp [hp1], h1, h2, h3⟩
      · right
        show (w1.g.sets t').isAlive d' = upd w1.g.alive t (upd (w1.g.alive t) d a) t' d'
        rw [hw1, h2]
        simp only [upd]
        by_cases h1 : t' = t
        · subst h1
          have : ¬ d' = d := fun hx => hp ⟨rfl, hx⟩
          simp [upd, this]
        · simp [h1]
  · intro p hp
    simp only [List.mem_append, List.mem_singleton] at hp
    rcases hp with hp | rfl
    · exact h.pendMem p hp
    · exact hd
  · intro st hst
    simp only at hst
    rw [hs] at hst; cases hst

theorem ainv_step {n : Nat} {aw : AWorld} {e : AEv} (h : AInv n aw) (hm : AMem n e)
    (hq : aw.staged.isSome = true → e.writesFlag = false) : AInv n (stepA aw e) := by
  cases e with
  | sync ev =>
    cases hst : aw.staged with
    | some st =>
      obtain ⟨s1, s2, s3, s4, s5⟩ := h.staged st hst
      have hnw : (AEv.sync ev).writesFlag = false := hq (by rw [hst]; rfl)
      cases ev with
      | policy p fi =>
        have : stepA aw (.sync (.policy p fi)) = aw := by simp [stepA, stepAcb, hst]
        rw [this]; exact h
      | pen t d v =>
        have e1 : stepA aw (.sync (.pen t d v)) =
            { aw with w := stepW aw.w (.pen t d v),
                      gen := if !aw.w.g.hasSets && (stepW aw.w (.pen t d v)).g.hasSets then aw.gen + 1 else aw.gen } := by
          simp [stepA, stepAcb, hst, stepW]
        rw [e1]
        have hhs : (stepW aw.w (.pen t d v)).g = aw.w.g := rfl
        have hgen : (if !aw.w.g.hasSets && (stepW aw.w (.pen t d v)).g.hasSets then aw.gen + 1 else aw.gen) = aw.gen := by
          rw [hhs, s1]; rfl
        rw [hgen]
        exact ⟨h.gm, h.hn, h.agree, h.pendMem, fun st' hst' => h.staged st' (by simpa using hst')⟩
      | sample t d l => cases hnw
      | told t d a => cases hnw
      | restore d cs al => cases hnw
    | none =>
      by_cases hpol : ∃ p fi, ev = .policy p fi
      · obtain ⟨p, fi, rfl⟩ := hpol
        have e1 : stepA aw (.sync (.policy p fi)) =
            { aw with w := stepW aw.w (.policy p fi),
                      gen := if !aw.w.g.hasSets && (stepW aw.w (.policy p fi)).g.hasSets then aw.gen + 1 else aw.gen } := by
          simp [stepA, stepAcb, hst, stepW]
        rw [e1]
        obtain ⟨g1, g2⟩ := stepW_policy h.gm h.hn p fi
        refine ⟨g1, g2, ?_, h.pendMem, by intro st' hst'; simp only at hst'; rw [hst] at hst'; cases hst'⟩
        have e2 : (stepW aw.w (.policy p fi)).g = stepG aw.w.g (.setPolicy p fi (fun t d => aw.w.snap p t d)) := rfl
        cases hh : aw.w.g.hasSets
        · show AgreeX _ (stepW aw.w (.policy p fi)).g
          rw [e2]
          exact agreeX_setPolicy_fresh h.gm hh p fi _
        · show AgreeX _ (stepW aw.w (.policy p fi)).g
          rw [e2]
          have := agreeX_setPolicy h.gm h.agree p fi (fun t d => aw.w.snap p t d)
          refine AgreeX.mono ?_ this
          intro t d ⟨q, hq1, h1, h2, h3⟩
          exact ⟨q, hq1, h1, h2, by simp only [hh]; simpa using h3⟩
      · have hnp : ∀ p fi, ev ≠ .policy p fi := fun p fi hx => hpol ⟨p, fi, hx⟩
        have e1 : stepA aw (.sync ev) =
            { aw with w := stepW aw.w ev,
                      gen := if !aw.w.g.hasSets && (stepW aw.w ev).g.hasSets then aw.gen + 1 else aw.gen } := by
          cases ev with
          | policy p fi => exact absurd rfl (hnp p fi)
          | sample t d l => simp [stepA, stepAcb, hst, stepW]
          | told t d a => simp [stepA, stepAcb, hst, stepW]
          | pen t d v => simp [stepA, stepAcb, hst, stepW]
          | restore d cs al => simp [stepA, stepAcb, hst, stepW]
        rw [e1]
        obtain ⟨g1, g2, g3, g4⟩ := stepW_nonpolicy (E := Expl aw) h.gm h.hn h.agree hm hnp
        have hgen : (if !aw.w.g.hasSets && (stepW aw.w ev).g.hasSets then aw.gen + 1 else aw.gen) = aw.gen := by
          rw [g4]; cases aw.w.g.hasSets <;> rfl
        rw [hgen]
        exact ⟨g1, g2, AgreeX.mono (fun t d hx => hx) g3, h.pendMem,
          by intro st' hst'; simp only at hst'; rw [hst] at hst'; cases hst'⟩
  | mark id t d a =>
    have hs : aw.staged = none := by
      cases hst : aw.staged with
      | none => rfl
      | some st => have := hq (by rw [hst]; rfl); cases this
    exact ainv_flagWrite h hs aw.w rfl id t d a hm
  | obs id t d l =>
    have hs : aw.staged = none := by
      cases hst : aw.staged with
      | none => rfl
      | some st => have := hq (by rw [hst]; rfl); cases this
    exact ainv_flagWrite h hs
      { aw.w with colls := upd aw.w.colls t (upd (aw.w.colls t) d ((aw.w.colls t d).append l)) } rfl id t d true hm
  | deliver id =>
    cases hf : aw.pend.find? (fun p => p.id == id) with
    | none =>
      have : stepA aw (.deliver id) = aw := by simp [stepA, stepAcb, hf]
      rw [this]; exact h
    | some p =>
      have hp : p ∈ aw.pend := List.mem_of_find?_eq_some hf
      have e1 : stepA aw (.deliver id) = { aw with w := (deliverP aw p).1, pend := aw.pend.erase p } := by
        simp [stepA, stepAcb, hf]
      rw [e1]
      have hd : p.d < n := h.pendMem p hp
      have hpm : ∀ q ∈ aw.pend.erase p, q.d < n := fun q hq' => h.pendMem q (List.mem_of_mem_erase hq')
      by_cases hc : (aw.w.g.hasSets && p.gen == aw.gen) = true
      · have hh : aw.w.g.hasSets = true := by
          cases hx : aw.w.g.hasSets
          · rw [hx] at hc; cases hc
          · rfl
        have hgen : p.gen = aw.gen := by
          rw [hh] at hc; simpa using hc
        have e2 : (deliverP aw p).1 = (toldStep aw.w p.t p.d (aw.w.g.alive p.t p.d)).1 := by
          unfold deliverP; rw [if_pos hc]
        rw [e2]
        obtain ⟨a1, a2, a3⟩ := told_gm h.gm h.hn p.t (aw.w.g.alive p.t p.d) hd
        refine ⟨a1, a2, ?_, hpm, ?_⟩
        · have base := told_agreeX (E := Expl aw) h.gm h.hn h.agree p.t (aw.w.g.alive p.t p.d) hd
          intro hh' t ht d' hd'
          by_cases hpair : t = p.t ∧ d' = p.d
          · right
            obtain ⟨rfl, rfl⟩ := hpair
            exact agree_pair_notify h.gm hh p.t _ _ (by rw [h.hn]; exact hd)
          · rcases base hh' t ht d' hd' with ⟨q, hq1, h1, h2, h3⟩ | h2
            · left
              have hne : q ≠ p := by
                intro hx; subst hx; exact hpair ⟨h1.symm, h2.symm⟩
              exact ⟨q, (List.mem_erase_of_ne hne).mpr hq1, h1, h2, h3⟩
            · exact Or.inr h2
        · intro st hst
          have hs := h.staged st hst
          rw [hh] at hs; cases hs.1
      · have e2 : (deliverP aw p).1 = aw.w := by
          unfold deliverP; rw [if_neg hc]
        rw [e2]
        refine ⟨h.gm, h.hn, ?_, hpm, h.staged⟩
        intro hh t ht d' hd'
        rcases h.agree hh t ht d' hd' with ⟨q, hq1, h1, h2, h3⟩ | h2
        · left
          have hne : q ≠ p := by
            intro hx; subst hx
            apply hc
            show (aw.w.g.hasSets && q.gen == aw.gen) = true
            rw [hh, h3]; simp
          exact ⟨q, (List.mem_erase_of_ne hne).mpr hq1, h1, h2, h3⟩
        · exact Or.inr h2
  | pbegin p fi =>
    cases hst : aw.staged with
    | some st =>
      have : stepA aw (.pbegin p fi) = aw := by simp [stepA, stepAcb, hst]
      rw [this]; exact h
    | none =>
      by_cases hc : (!needsAlive aw.w.g.policy && needsAlive p) = true
      · have e1 : stepA aw (.pbegin p fi) =
            { aw with staged := some ⟨p, fi, 0, fun _ => ASet.init aw.w.g.n aw.w.g.tol aw.w.g.offs p⟩ } := by
          simp only [stepA, stepAcb, hst, hc, if_true]
        rw [e1]
        have h1 : needsAlive aw.w.g.policy = false := by
          cases hx : needsAlive aw.w.g.policy
          · rfl
          · rw [hx] at hc; cases hc
        have h2 : needsAlive p = true := by rw [h1] at hc; simpa using hc
        refine ⟨h.gm, h.hn, h.agree, h.pendMem, ?_⟩
        intro st' hst'
        simp only [Option.some.injEq] at hst'
        subst hst'
        refine ⟨by rw [h.gm.hasSets]; exact h1, h2, Nat.zero_le _, fun _ => ⟨minv_init _ _ _ _, h.hn⟩, ?_⟩
        intro t ht; exact absurd ht (Nat.not_lt_zero _)
      · have e1 : stepA aw (.pbegin p fi) = { aw with w := stepW aw.w (.policy p fi) } := by
          simp only [stepA, stepAcb, hst, hc]
          rfl
        rw [e1]
        obtain ⟨g1, g2⟩ := stepW_policy h.gm h.hn p fi
        refine ⟨g1, g2, ?_, h.pendMem, by intro st' hst'; simp only at hst'; rw [hst] at hst'; cases hst'⟩
        have e2 : (stepW aw.w (.policy p fi)).g = stepG aw.w.g (.setPolicy p fi (fun t d => aw.w.snap p t d)) := rfl
        show AgreeX _ (stepW aw.w (.policy p fi)).g
        rw [e2]
        -- not (fixed → needs): either the sets are kept, or there are none afterwards
        cases hh : aw.w.g.hasSets
        · -- no sets before; `needsAlive p` must be false, so none afterwards
          have h1 : needsAlive aw.w.g.policy = false := by rw [← h.gm.hasSets]; exact hh
          have h2 : needsAlive p = false := by
            cases hx : needsAlive p
            · rfl
            · rw [h1, hx] at hc; exact absurd rfl hc
          intro hx
          simp only [stepG, gSetPolicy, h1, h2] at hx
          rw [hh] at hx; cases hx
        · exact AgreeX.mono (fun t d hx => hx) (agreeX_setPolicy h.gm h.agree p fi _)
  | pbuild =>
    cases hst : aw.staged with
    | none =>
      have : stepA aw .pbuild = aw := by simp [stepA, stepAcb, hst]
      rw [this]; exact h
    | some st =>
      obtain ⟨s1, s2, s3, s4, s5⟩ := h.staged st hst
      by_cases hu : st.upto < 6
      · have e1 : stepA aw .pbuild =
            { aw with staged := some ⟨st.p, st.fixedIdx, st.upto + 1,
                upd st.sets st.upto (buildOne aw.w.g st.p (fun d => aw.w.snap st.p st.upto d) st.upto).1⟩ } := by
          simp only [stepA, stepAcb, hst, hu, if_true]
        rw [e1]
        refine ⟨h.gm, h.hn, h.agree, h.pendMem, ?_⟩
        intro st' hst'
        simp only [Option.some.injEq] at hst'
        subst hst'
        have hb : (buildOne aw.w.g st.p (fun d => aw.w.snap st.p st.upto d) st.upto).1 =
            builtSet aw.w.g st.p (fun t d => aw.w.snap st.p t d) st.upto := rfl
        refine ⟨s1, s2, hu, ?_, ?_⟩
        · intro t
          simp only [upd]
          split
          · rw [hb]
            obtain ⟨m1, m2⟩ := builtSet_minv aw.w.g st.p (fun t d => aw.w.snap st.p t d) st.upto hu
            exact ⟨m1, by rw [m2]; exact h.hn⟩
          · exact s4 t
        · intro t ht d hd
          simp only [upd]
          split
          · rename_i heq
            rw [hb, heq]
            exact builtSet_isAlive aw.w.g st.p _ st.upto d (by rw [h.hn]; exact hd)
          · rename_i hne
            have ht' : t < st.upto + 1 := ht
            exact s5 t (by omega) d hd
      · have : stepA aw .pbuild = aw := by simp [stepA, stepAcb, hst, hu]
        rw [this]; exact h
  | pend =>
    cases hst : aw.staged with
    | none =>
      have : stepA aw .pend = aw := by simp [stepA, stepAcb, hst]
      rw [this]; exact h
    | some st =>
      obtain ⟨s1, s2, s3, s4, s5⟩ := h.staged st hst
      by_cases hu : st.upto = 6
      · have e1 : stepA aw .pend =
            { aw with w := { aw.w with g := { aw.w.g with policy := st.p, fixedIdx := st.fixedIdx,
                                                          hasSets := true, sets := st.sets } },
                      gen := aw.gen + 1, staged := none } := by
          simp only [stepA, stepAcb, hst, hu, if_true]
        rw [e1]
        refine ⟨⟨by show true = needsAlive st.p; rw [s2], fun t => ⟨(s4 t).1, by rw [(s4 t).2]; exact h.hn.symm⟩⟩,
          h.hn, ?_, h.pendMem, by intro st' hst'; cases hst'⟩
        intro _ t ht d hd
        right
        exact s5 t (by rw [hu]; exact ht) d (by rw [← h.hn]; exact hd)
      · have : stepA aw .pend = aw := by simp [stepA, stepAcb, hst, hu]
        rw [this]; exact h

theorem ainv_run {n : Nat} (h : List AEv) : ∀ (aw : AWorld), AInv n aw → AOk n aw h → AInv n (runA aw h) := by
  induction h with
  | nil => intro aw ha _; exact ha
  | cons e es ih =>
    intro aw ha ok
    exact ih (stepA aw e) (ainv_step ha ok.1.1 ok.1.2) ok.2

/-- without split policy switches nothing is ever under construction -/
theorem staged_none_step {aw : AWorld} {e : AEv} (hs : aw.staged = none) (he : e.isSplit = false) :
    (stepA aw e).staged = none := by
  cases e with
  | sync ev => cases ev <;> simp [stepA, stepAcb, hs]
  | mark id t d a => simp [stepA, stepAcb, hs]
  | obs id t d l => simp [stepA, stepAcb, hs]
  | deliver id =>
    simp only [stepA, stepAcb]
    split <;> simp [hs]
  | pbegin p fi => cases he
  | pbuild => cases he
  | pend => cases he

theorem aok_of_atomic {n : Nat} (h : List AEv) : ∀ (aw : AWorld), aw.staged = none →
    (∀ e ∈ h, AMem n e) → (∀ e ∈ h, e.isSplit = false) → AOk n aw h := by
  induction h with
  | nil => intro _ _ _ _; trivial
  | cons e es ih =>
    intro aw hs hm ha
    refine ⟨⟨hm e (by simp), by intro hx; rw [hs] at hx; cases hx⟩, ?_⟩
    exact ih (stepA aw e) (staged_none_step hs (ha e (by simp))) (fun e' he' => hm e' (by simp [he']))
      (fun e' he' => ha e' (by simp [he']))

/-- the executable oracle the driver prints (`unexp=`) is empty whenever `AInv` holds -/
theorem unexplained_nil {n : Nat} {aw : AWorld} (h : AInv n aw) :
    (disagreements aw).filter (fun x => !explained aw x.1 x.2) = [] := by
  apply List.filter_eq_nil_iff.mpr
  intro x hx
  unfold disagreements at hx
  cases hh : aw.w.g.hasSets with
  | false => rw [hh] at hx; simp at hx
  | true =>
    rw [hh] at hx
    simp only [if_true, List.mem_flatMap, List.mem_range, List.mem_filterMap] at hx
    obtain ⟨t, ht, d, hd, hx⟩ := hx
    by_cases hdis : ((aw.w.g.sets t).isAlive d != aw.w.g.alive t d) = true
    · rw [if_pos hdis] at hx
      simp only [Option.some.injEq] at hx
      subst hx
      rcases h.agree hh t ht d hd with ⟨p, hp, h1, h2, h3⟩ | h2
      · have : explained aw t d = true := by
          unfold explained
          exact List.any_eq_true.mpr ⟨p, hp, by simp [h1, h2, h3]⟩
        simp [this]
      · rw [h2] at hdis; simp at hdis
    · rw [if_neg hdis] at hx; cases hx

/-! ## C. the callback window -/

def CMem (n : Nat) : CEv → Prop
  | .begin d _ _ => d < n
  | _ => True

theorem runC_cons (c : CState) (e : CEv) (tr : List CEv) :
    runC c (e :: tr) = runC (stepC c e) tr := rfl

/-- the set a concurrent trace leaves behind is the set its sequential history leaves behind -/
theorem runC_state_eq_seq (tr : List CEv) : ∀ (c : CState),
    (runC c tr).s = runSet c.s (seqOf c tr) := by
  induction tr with
  | nil => intro c; rfl
  | cons e tr ih =>
    intro c
    rw [runC_cons, ih (stepC c e)]
    cases e with
    | «begin» d a sn =>
      cases hw : c.win with
      | none =>
        have e1 : (stepC c (.begin d a sn)).s = (notify c.s d a sn).1 := by simp [stepC, hw]
        simp only [seqOf, hw, runSet, List.singleton_append, List.foldl_cons, stepSet]
        rw [e1]
      | some wn =>
        have e1 : stepC c (.begin d a sn) = c := by simp [stepC, hw]
        simp only [seqOf, hw, List.nil_append]
        rw [e1]
    | finish =>
      have e1 : (stepC c .finish).s = c.s := by
        cases hw : c.win <;> simp [stepC, hw]
      simp only [seqOf, List.nil_append]
      rw [e1]
    | setPolicy p sa =>
      simp only [seqOf, runSet, List.singleton_append, List.foldl_cons, stepSet]
      rfl
    | read =>
      simp only [seqOf, List.nil_append]
      rfl

theorem seqOf_histMem {n : Nat} (tr : List CEv) : ∀ (c : CState),
    (∀ e ∈ tr, CMem n e) → HistMem n (seqOf c tr) := by
  induction tr with
  | nil => intro c _; trivial
  | cons e tr ih =>
    intro c hm
    have hrest := ih (stepC c e) (fun e' he' => hm e' (by simp [he']))
    cases e with
    | «begin» d a sn =>
      cases hw : c.win with
      | none =>
        simp only [seqOf, hw, List.singleton_append]
        exact ⟨hm (.begin d a sn) (by simp), hrest⟩
      | some wn =>
        simp only [seqOf, hw, List.nil_append]; exact hrest
    | finish => simp only [seqOf, List.nil_append]; exact hrest
    | setPolicy p sa => simp only [seqOf, List.singleton_append]; exact hrest
    | read => simp only [seqOf, List.nil_append]; exact hrest

/-! ## D. `routeDial` -/

theorem select_ok_lt {rnd : Nat → Nat → Nat → Nat} {g : Group} (hg : GMInv g) {t : NetType}
    {strict : Bool} {excl : Option Nat} {x : SelOk} (h : select rnd g t strict excl = .ok x) : x.d < g.n := by
  by_cases hp : g.policy = .fixed
  · unfold select at h
    rw [hp, select1_fixed] at h
    by_cases hn : g.n = 0
    · simp [hn] at h
    · by_cases hr : g.fixedIdx < 0 ∨ (g.n : Int) ≤ g.fixedIdx
      · simp [hn, hr] at h
      · simp only [hn, hr, if_false] at h
        simp only [Except.ok.injEq] at h
        subst h
        simp only
        omega
  · rcases select_ok hp (fun ty => (hg.sets ty).1.bestIn) h with ⟨ty, _, ⟨e, he, hed⟩, _⟩ | ⟨_, hn1, hx0, _⟩
    · obtain ⟨hmi, hnn⟩ := hg.sets ty.index
      obtain ⟨hlt, _⟩ := idx_of_mem hmi.idx he
      rw [hnn, hed] at hlt
      exact hlt
    · rw [hx0, hn1]; exact Nat.one_pos

theorem chooseSelectAll_cases (g : Group) (t : NetType) (strict : Bool) (excl : Option Nat)
    {l : List SelOk} (h : chooseSelectAll g t strict excl = .ok l) :
    selectAll g t strict excl = .ok l ∨
    (selectAll g t strict excl = .error .noAlive ∧ selectAll g t.flip false excl = .ok l) := by
  unfold chooseSelectAll at h
  cases h0 : selectAll g t strict excl with
  | ok l0 => rw [h0] at h; left; exact h
  | error e =>
    rw [h0] at h
    cases e with
    | noAlive => right; exact ⟨rfl, h⟩
    | noDialers => cases h
    | outOfRange => cases h
    | unsupported => cases h

theorem chooseSelectAll_lt {g : Group} (hg : GMInv g) {t : NetType} {strict : Bool} {excl : Option Nat}
    {l : List SelOk} (h : chooseSelectAll g t strict excl = .ok l) {x : SelOk} (hx : x ∈ l) : x.d < g.n := by
  rcases chooseSelectAll_cases g t strict excl h with h1 | ⟨_, h2⟩
  · obtain ⟨rnd, hr⟩ := selectAll_complete g t strict excl h1 hx
    exact select_ok_lt hg hr
  · obtain ⟨rnd, hr⟩ := selectAll_complete g t.flip false excl h2 hx
    exact select_ok_lt hg hr

end DaeVerif.C15
