/-!
# C15 — alive-set selection, policies, tolerance: executable model

Mirror of
* `component/outbound/dialer/alive_dialer_set.go` (`AliveDialerSet`: `NotifyLatencyChange`,
  `calcMinLatency`, `GetMinLatency`, `GetRandExcluded`, `SetSelectionPolicy`, `SortingLatency`),
* the latency side of a dialer's per-type `collection` (`LatenciesN`, moving average,
  `snapshotLatencyForPolicy`),
* `component/outbound/dialer_group.go` (`NewDialerGroup`/`buildSelectionState`,
  `SetSelectionPolicy`, `_select`, `selectionNetworkTypes`, `SelectWithExclusionResult`,
  `preferAlternateSelectionNetworkType`),
* the selection part of `control/dial.go` `chooseProxyDialer`.

Dialers are numbered `0..n-1` (their position in `DialerGroup.Dialers`); `time.Duration` is `Int`
nanoseconds (no overflow modelled).  Go maps keyed by `*Dialer` are total functions `Nat → _`
whose value at a missing key is Go's zero value.  Core-only (links as `lean_exe`).
-/
namespace DaeVerif.C15

/-- `time.Hour`: the "no latency yet / nobody" sentinel of the code. -/
def hour : Int := 3600000000000
/-- `dialer.Timeout` (latency reported by the single-node last resort). -/
def dialTimeout : Int := 10000000000

inductive Policy where
  | random | fixed | minLast | minAvg10 | minMovAvg
deriving DecidableEq, Repr, Inhabited

/-- `isMinLatencyPolicy` -/
def Policy.isMin : Policy → Bool
  | .minLast | .minAvg10 | .minMovAvg => true
  | _ => false

/-- value of `dialerToIndex[d]`: `-Init`, `-NotAlive`, or an index into `aliveEntries`. -/
inductive Slot where
  | init | notAlive | at (k : Nat)
deriving DecidableEq, Repr, Inhabited

/-- `aliveEntry` -/
structure Entry where
  d : Nat
  sl : Int
deriving DecidableEq, Repr, Inhabited

/-- `AliveDialerSet`.  `panicked` records that one of the `log.Panicf` / index-out-of-range
points of the Go code was reached. -/
structure ASet where
  n : Nat
  tol : Int
  offs : Nat → Int            -- dialerToLatencyOffset
  policy : Policy
  idx : Nat → Slot            -- dialerToIndex
  lat : Nat → Option Int      -- dialerToLatency
  entries : List Entry        -- aliveEntries
  minD : Option Nat           -- minLatency.dialer
  minL : Int                  -- minLatency.sortingLatency
  panicked : Bool

def upd {α} (f : Nat → α) (d : Nat) (v : α) : Nat → α := fun x => if x = d then v else f x

/-- the switch gate against a non-nil cached best: `x <= cur && (cur < tol || x <= cur - tol)`
(with no cached best an alive measured dialer is always taken, see `decide2`) -/
def gate (tol x cur : Int) : Bool :=
  decide (x ≤ cur) && (decide (cur < tol) || decide (x ≤ cur - tol))

def scanStep (excl : Option Nat) (acc : Option Nat × Int) (e : Entry) : Option Nat × Int :=
  if excl = some e.d then acc
  else if acc.1.isNone || decide (e.sl < acc.2) then (some e.d, e.sl) else acc

/-- the `for i := range a.aliveEntries` minimum scans: `if best == nil || sl < bestLatency`
(strict `<`; `time.Hour` is only the start value returned when nobody qualifies). -/
def scanMin (es : List Entry) (excl : Option Nat) : Option Nat × Int :=
  es.foldl (scanStep excl) (none, hour)

/-- `calcMinLatency` -/
def calcMin (s : ASet) : ASet :=
  let r := scanMin s.entries none
  match s.minD with
  | none => { s with minL := r.2, minD := r.1 }
  | some _ =>
    if r.1.isSome && gate s.tol r.2 s.minL then { s with minL := r.2, minD := r.1 } else s

/-- swap-remove of the entry at `k` (the entry of dialer `d`). -/
def removeAt (s : ASet) (d k : Nat) : ASet :=
  if s.entries.length ≤ k then { s with panicked := true }
  else
    let lastIdx := s.entries.length - 1
    let idx1 := upd s.idx d Slot.notAlive
    if k < lastIdx then
      let sw := s.entries.getD lastIdx default
      if sw.d = d then { s with idx := idx1, panicked := true }
      else { s with idx := upd idx1 sw.d (Slot.at k), entries := (s.entries.set k sw).dropLast }
    else { s with idx := idx1, entries := s.entries.dropLast }

def setSl (es : List Entry) (k : Nat) (sl : Int) : List Entry :=
  es.modify k (fun e => { e with sl := sl })

/-- not alive -> alive: append an entry with sorting latency 0 -/
def join (s : ASet) (d : Nat) : ASet :=
  { s with idx := upd s.idx d (Slot.at s.entries.length), entries := s.entries ++ [⟨d, 0⟩] }

/-- `minLatency.dialer = nil; minLatency.sortingLatency = time.Hour` -/
def resetBest (s : ASet) : ASet := { s with minD := none, minL := hour }

/-- `dialerToLatency[d] = raw`, and the entry's sorting latency when `d` is alive -/
def record (s : ASet) (d : Nat) (raw : Int) : ASet :=
  match s.idx d with
  | .at k =>
    if s.entries.length ≤ k then { s with lat := upd s.lat d (some raw), panicked := true }
    else { s with lat := upd s.lat d (some raw), entries := setSl s.entries k (raw + s.offs d) }
  | _ => { s with lat := upd s.lat d (some raw) }

/-- first half of `NotifyLatencyChange`: join / swap-remove (+ the "best died without a
measurement" recomputation). -/
def phase1 (s : ASet) (d : Nat) (alive : Bool) (snap : Option Int) : ASet × List Bool :=
  if alive then
    match s.idx d with
    | .at _ => (s, [])
    | _ => (join s d, [])
  else
    match s.idx d with
    | .at k =>
      let removedBest := s.policy.isMin && snap.isNone && (s.minD == some d)
      let s1 := removeAt s d k
      if removedBest then
        let s2 := calcMin (resetBest s1)
        (s2, if s2.minD.isNone then [false] else [])
      else (s1, [])
    | _ => (s, [])

/-- the decision after a measurement was recorded (`s` = state with the measurement stored,
`bakL` = cached best latency before) -/
def decide2 (s : ASet) (d : Nat) (alive : Bool) (sl bakL : Int) : ASet :=
  if alive && (s.minD.isNone || gate s.tol sl s.minL) then { s with minL := sl, minD := some d }
  else if s.minD = some d then
    let s3 := { s with minL := sl }
    if !alive || decide (sl > bakL) then
      calcMin (if alive then s3 else { s3 with minD := none })
    else s3
  else s

/-- the `aliveChangeCallback` calls of the measured branch -/
def cbsOf (bakD newD : Option Nat) : List Bool :=
  if newD = bakD then []
  else if newD.isSome then (if bakD.isNone then [true] else [])
  else [false]

/-- second half: `if hasLatency {…} else if alive && minPolicy && minLatency.dialer == nil {…}` -/
def phase2 (s : ASet) (d : Nat) (alive : Bool) (snap : Option Int) : ASet × List Bool :=
  match snap with
  | some raw =>
    let s2 := decide2 (record s d raw) d alive (raw + s.offs d) s.minL
    (s2, cbsOf s.minD s2.minD)
  | none =>
    if alive && s.policy.isMin && s.minD.isNone then ({ s with minD := some d }, [true])
    else (s, [])

/-- `NotifyLatencyChange(dialer, alive)`; `snap0` is what `snapshotLatencyForPolicy` returns at that
moment (`none` = `hasLatency == false`).  Returns the new state and the `aliveChangeCallback`
invocations in order. -/
def notify (s : ASet) (d : Nat) (alive : Bool) (snap0 : Option Int) : ASet × List Bool :=
  let snap := if s.policy.isMin then snap0 else none
  let p1 := phase1 s d alive snap
  let p2 := phase2 p1.1 d alive snap
  (p2.1, p1.2 ++ p2.2)

/-- `recomputeSelectionStateLocked` body for min policies: re-read every alive entry. -/
def resnap (s : ASet) (snapAll : Nat → Option Int) : List Entry → (Nat → Option Int) →
    List Entry × (Nat → Option Int)
  | [], lat => ([], lat)
  | e :: es, lat =>
    match snapAll e.d with
    | some raw =>
      let r := resnap s snapAll es (upd lat e.d (some raw))
      (⟨e.d, raw + s.offs e.d⟩ :: r.1, r.2)
    | none =>
      let r := resnap s snapAll es lat
      (⟨e.d, 0⟩ :: r.1, r.2)

/-- `SetSelectionPolicy` -/
def setPolicy (s : ASet) (p : Policy) (snapAll : Nat → Option Int) : ASet :=
  if s.policy = p then s
  else
    let s1 := { s with policy := p, lat := fun _ => none, minL := hour, minD := none }
    if !p.isMin then s1
    else
      let r := resnap s1 snapAll s1.entries s1.lat
      calcMin { s1 with entries := r.1, lat := r.2 }

def ASet.init (n : Nat) (tol : Int) (offs : Nat → Int) (p : Policy) : ASet :=
  { n := n, tol := tol, offs := offs, policy := p,
    idx := fun d => if d < n then Slot.init else Slot.at 0,
    lat := fun _ => none, entries := [], minD := none, minL := hour, panicked := false }

/-- run `notify` for dialers `ds` in order, collecting callbacks. -/
def notifyAll (s : ASet) (ds : List Nat) (alive : Nat → Bool) (snap : Nat → Option Int) :
    ASet × List Bool :=
  ds.foldl (fun acc d => let r := notify acc.1 d (alive d) (snap d); (r.1, acc.2 ++ r.2)) (s, [])

/-- `NewAliveDialerSet(…, setAlive)` -/
def ASet.new (n : Nat) (tol : Int) (offs : Nat → Int) (p : Policy) (setAlive : Bool)
    (snap : Nat → Option Int) : ASet × List Bool :=
  notifyAll (ASet.init n tol offs p) (List.range n) (fun _ => setAlive) snap

/-- `GetMinLatency(excluded)` -/
def getMin (s : ASet) (excl : Option Nat) : Option Nat × Int :=
  if s.minD.isSome && decide (excl ≠ s.minD) then (s.minD, s.minL)
  else
    let r := scanMin s.entries excl
    if r.1.isSome then r else (none, hour)

/-- the candidates of `GetRandExcluded(excluded)` -/
def randCands (s : ASet) (excl : Option Nat) : List Nat :=
  (s.entries.map (·.d)).filter (fun d => decide (excl ≠ some d))

/-- reservoir sampling loop state: (chosen, candidateCount) -/
def reservoirStep (rnd : Nat → Nat) (x : Nat) (acc : Option Nat × Nat) (e : Entry) : Option Nat × Nat :=
  if e.d = x then acc
  else
    let c := acc.2 + 1
    if rnd c % c = 0 then (some e.d, c) else (acc.1, c)

/-- `GetRandExcluded(excluded)` with the random source made explicit: `rnd k` is the raw value
behind the `fastrand.Intn(k)` call (`Intn(k) = rnd k % k`). -/
def getRand (rnd : Nat → Nat) (s : ASet) (excl : Option Nat) : Option Nat :=
  if s.entries.isEmpty then none
  else match excl with
    | none => (s.entries[rnd s.entries.length % s.entries.length]?).map (·.d)
    | some x => (s.entries.foldl (reservoirStep rnd x) (none, 0)).1

/-- `SortingLatency(d)` -/
def sortingLatency (s : ASet) (d : Nat) : Int :=
  match s.idx d with
  | .at k => if d < s.n ∧ k < s.entries.length then (s.entries.getD k default).sl
             else (s.lat d).getD 0 + s.offs d
  | _ => (s.lat d).getD 0 + s.offs d

def ASet.isAlive (s : ASet) (d : Nat) : Bool := s.entries.any (fun e => e.d == d)

/-! ### histories of one set -/

/-- what can happen to an `AliveDialerSet` after construction -/
inductive SetEv where
  | notify (d : Nat) (alive : Bool) (snap : Option Int)
  | setPolicy (p : Policy) (snapAll : Nat → Option Int)

def stepSet (s : ASet) : SetEv → ASet
  | .notify d a sn => (notify s d a sn).1
  | .setPolicy p sa => setPolicy s p sa

def runSet (s : ASet) (h : List SetEv) : ASet := h.foldl stepSet s

/-! ### executable forms of the headline invariants (printed by the driver, `inv=` field) -/

/-- `dialerToIndex` is the inverse of `aliveEntries` -/
def ASet.idxOk (s : ASet) : Bool :=
  (List.range s.entries.length).all (fun k =>
    let e := s.entries.getD k default
    decide (e.d < s.n) && (s.idx e.d == Slot.at k)) &&
  (List.range s.n).all (fun d =>
    match s.idx d with
    | .at k => decide (k < s.entries.length) && ((s.entries.getD k default).d == d)
    | _ => true)

/-- the cached best is a member of the alive list -/
def ASet.bestAliveOk (s : ASet) : Bool :=
  match s.minD with
  | none => true
  | some d => s.isAlive d

/-- min policies: cached best is nil exactly when nobody is alive; other policies: always nil -/
def ASet.nilIffEmptyOk (s : ASet) : Bool :=
  if s.policy.isMin then s.minD.isSome == !s.entries.isEmpty else s.minD.isNone

/-! ## dialer side: the latency part of a `collection` -/

structure Coll where
  lats : List Int      -- the samples still inside the 10-slot ring, oldest first
  movAvg : Int
deriving Repr, Inhabited

def Coll.empty : Coll := ⟨[], 0⟩

/-- `markAvailable`: `Latencies10.AppendLatency(l)`, `MovingAverage = (MovingAverage + l) / 2` -/
def Coll.append (c : Coll) (l : Int) : Coll :=
  let ls := c.lats ++ [l]
  ⟨if ls.length > 10 then ls.drop 1 else ls, Int.tdiv (c.movAvg + l) 2⟩

/-- `snapshotLatencyForPolicy` (`pen` = `getBackoffPenaltyForType`) -/
def Coll.snapshot (c : Coll) (p : Policy) (pen : Int) : Option Int :=
  match p with
  | .minLast => c.lats.getLast?.map (· + pen)
  | .minAvg10 =>
    if c.lats.isEmpty then none else some (Int.tdiv c.lats.sum (c.lats.length : Int) + pen)
  | .minMovAvg => if c.movAvg > 0 then some (c.movAvg + pen) else none
  | _ => none

/-! ## the group -/

inductive UdpDom where
  | unset | dns | data
deriving DecidableEq, Repr, Inhabited

/-- `dialer.NetworkType` (IpVersion restricted to "4"/"6": anything else panics in `Index()`). -/
structure NetType where
  udp : Bool
  ip6 : Bool
  isDns : Bool
  dom : UdpDom
deriving DecidableEq, Repr, Inhabited

/-- `EffectiveUdpHealthDomain` -/
def NetType.effDom (t : NetType) : UdpDom :=
  if !t.udp then .unset else if t.dom ≠ .unset then t.dom else .data

/-- `Index()` renumbered in `StandardHealthKeys` order:
0 dns-udp4, 1 dns-udp6, 2 tcp4, 3 tcp6, 4 data-udp4, 5 data-udp6. -/
def NetType.index (t : NetType) : Nat :=
  (if !t.udp then 2 else if t.effDom = .dns then 0 else 4) + (if t.ip6 then 1 else 0)

def NetType.flip (t : NetType) : NetType := { t with ip6 := !t.ip6 }

/-- `HealthKey.NetworkType()` for the i-th standard key -/
def stdType (i : Nat) : NetType :=
  let ip6 := i % 2 = 1
  if i / 2 = 0 then ⟨true, ip6, true, .dns⟩
  else if i / 2 = 1 then ⟨false, ip6, false, .unset⟩
  else ⟨true, ip6, false, .data⟩

/-- `DialerGroup` + the dialer-side `Alive` flags of its members. -/
structure Group where
  n : Nat
  tol : Int
  offs : Nat → Int
  policy : Policy
  fixedIdx : Int
  hasSets : Bool                 -- `policyNeedsAliveState(policy)`: the six sets exist
  sets : Nat → ASet              -- by type index 0..5
  alive : Nat → Nat → Bool       -- `Dialers[d].MustGetAlive(type)`

/-- group-level `aliveChangeCallback(alive, networkType, isInit)` record -/
structure GCb where
  alive : Bool
  typ : Nat
  isInit : Bool
deriving DecidableEq, Repr

def needsAlive : Policy → Bool
  | .fixed => false
  | _ => true

/-- `buildSelectionState(policy, true)`: six fresh sets (`setAlive=false`), each then told every
member's current alive flag.  `snap t d` = the dialer's snapshot for type `t` under `p`. -/
def buildSets (g : Group) (p : Policy) (snap : Nat → Nat → Option Int) :
    (Nat → ASet) × List GCb :=
  (List.range 6).foldl (fun acc t =>
    let r0 := ASet.new g.n g.tol g.offs p false (snap t)
    let r1 := notifyAll r0.1 (List.range g.n) (g.alive t) (snap t)
    (upd acc.1 t r1.1, acc.2 ++ (r0.2 ++ r1.2).map (fun b => ⟨b, t, false⟩)))
    (fun _ => ASet.init g.n g.tol g.offs p, [])

/-- `NewDialerGroup` (all members' flags given) -/
def gNew (n : Nat) (tol : Int) (offs : Nat → Int) (p : Policy) (fixedIdx : Int)
    (alive : Nat → Nat → Bool) (snap : Nat → Nat → Option Int) : Group × List GCb :=
  let g0 : Group := { n := n, tol := tol, offs := offs, policy := p, fixedIdx := fixedIdx,
                      hasSets := false, sets := fun _ => ASet.init n tol offs p, alive := alive }
  let initCbs := (List.range 6).map (fun t => (⟨true, t, true⟩ : GCb))
  if needsAlive p then
    let r := buildSets g0 p snap
    ({ g0 with hasSets := true, sets := r.1 }, r.2 ++ initCbs)
  else (g0, initCbs)

/-- a dialer tells its registered sets: `collection.Alive = alive; informDialerGroupUpdate` -/
def gNotify (g : Group) (t d : Nat) (alive : Bool) (snap : Option Int) : Group × List GCb :=
  let g1 := { g with alive := upd g.alive t (upd (g.alive t) d alive) }
  if g.hasSets then
    let r := notify (g.sets t) d alive snap
    ({ g1 with sets := upd g.sets t r.1 }, r.2.map (fun b => ⟨b, t, false⟩))
  else (g1, [])

/-- `DialerGroup.SetSelectionPolicy` -/
def gSetPolicy (g : Group) (p : Policy) (fixedIdx : Int) (snap : Nat → Nat → Option Int) :
    Group × List GCb :=
  match needsAlive g.policy, needsAlive p with
  | true, true =>
    let sets := if g.policy ≠ p then (fun t => setPolicy (g.sets t) p (snap t)) else g.sets
    ({ g with policy := p, fixedIdx := fixedIdx, sets := sets }, [])
  | false, false => ({ g with policy := p, fixedIdx := fixedIdx }, [])
  | false, true =>
    let r := buildSets g p snap
    ({ g with policy := p, fixedIdx := fixedIdx, hasSets := true, sets := r.1 }, r.2)
  | true, false => ({ g with policy := p, fixedIdx := fixedIdx, hasSets := false }, [])

/-! ### histories of a group -/

inductive GEv where
  | notify (t d : Nat) (alive : Bool) (snap : Option Int)
  | setPolicy (p : Policy) (fixedIdx : Int) (snap : Nat → Nat → Option Int)

def stepG (g : Group) : GEv → Group
  | .notify t d a sn => (gNotify g t d a sn).1
  | .setPolicy p fi sn => (gSetPolicy g p fi sn).1

def runG (g : Group) (h : List GEv) : Group := h.foldl stepG g

/-! ### the world: a group together with the dialer-side latency collections of its members

This is what the driver runs: the snapshots handed to the sets are *computed* from the samples
(`Coll.snapshot`), not free inputs. -/

structure World where
  g : Group
  colls : Nat → Nat → Coll      -- [type][dialer]
  pens : Nat → Nat → Int        -- backoff penalty [type][dialer]

/-- `snapshotLatencyForPolicy` of dialer `d` for domain `t` under policy `p` -/
def World.snap (w : World) (p : Policy) (t d : Nat) : Option Int :=
  (w.colls t d).snapshot p (w.pens t d)

inductive WEv where
  | sample (t d : Nat) (l : Int)          -- successful probe: `markAvailable(l)` + inform
  | told (t d : Nat) (alive : Bool)       -- failure / traffic report after which the sets are told `alive`
  | pen (t d : Nat) (v : Int)             -- the dialer's backoff penalty for the domain changed
  | policy (p : Policy) (fixedIdx : Int)  -- `DialerGroup.SetSelectionPolicy`
  /-- `Dialer.RestoreHealthSnapshot` (reload hand-over): the six collections of dialer `d` are
  replaced by `cs` / the flags by `al`, then every registered set is told, in collection-slot order
  (the two TCP slots are visited twice because of the TCP-DNS alias slots 0/1). -/
  | restore (d : Nat) (cs : Nat → Coll) (al : Nat → Bool)

/-- the order in which `RestoreHealthSnapshot` walks `d.collections[0..7]`, in type indices:
slot 0/1 = TCP-DNS aliases of tcp4/tcp6, 2/3 = dns-udp4/6, 4/5 = tcp4/6, 6/7 = data-udp4/6 -/
def restoreOrder : List Nat := [2, 3, 0, 1, 2, 3, 4, 5]

/-- the sets of domain `t` are told `alive` about dialer `d` (flag set, snapshot read from the
dialer's collection): the common tail of every report, of `MarkAliveForReloadFallback`, and of each
notification of `RestoreHealthSnapshot` -/
def toldStep (w : World) (t d : Nat) (a : Bool) : World × List GCb :=
  let r := gNotify w.g t d a (w.snap w.g.policy t d)
  ({ w with g := r.1 }, r.2)

/-- one world event: new world and the group-level callbacks it fired -/
def stepWcb (w : World) : WEv → World × List GCb
  | .sample t d l =>
    let w1 := { w with colls := upd w.colls t (upd (w.colls t) d ((w.colls t d).append l)) }
    let r := gNotify w1.g t d true (w1.snap w1.g.policy t d)
    ({ w1 with g := r.1 }, r.2)
  | .told t d a => toldStep w t d a
  | .pen t d v => ({ w with pens := upd w.pens t (upd (w.pens t) d v) }, [])
  | .policy p fi =>
    let r := gSetPolicy w.g p fi (fun t d => w.snap p t d)
    ({ w with g := r.1 }, r.2)
  | .restore d cs al =>
    let w1 := { w with colls := fun t => if t < 6 then upd (w.colls t) d (cs t) else w.colls t }
    restoreOrder.foldl (fun (acc : World × List GCb) t =>
      let r := toldStep acc.1 t d (al t)
      (r.1, acc.2 ++ r.2)) (w1, [])

def stepW (w : World) (e : WEv) : World := (stepWcb w e).1

def runW (w : World) (h : List WEv) : World := h.foldl stepW w

/-! ### reload hand-over helpers of the group (`dialer_group.go` 155-200) -/

/-- one type of `EnsureReloadSelectionFloor`: a set that exists and is empty gets the recorded
fallback (or `Dialers[0]`) marked alive — `MarkAliveForReloadFallback` = flag + told alive -/
def floorStep (fb : Nat → Option Nat) (acc : World × List GCb) (t : Nat) : World × List GCb :=
  let g := acc.1.g
  if g.hasSets && (g.sets t).entries.isEmpty then
    let cand : Option Nat := match fb t with
      | some d => some d
      | none => if g.n > 0 then some 0 else none
    match cand with
    | some d =>
      let r := toldStep acc.1 t d true
      (r.1, acc.2 ++ r.2)
    | none => acc
  else acc

/-- `EnsureReloadSelectionFloor(fallback)` -/
def floorW (w : World) (fb : Nat → Option Nat) : World × List GCb :=
  (List.range 6).foldl (floorStep fb) (w, [])

/-- `NewDialerGroup` over dialers that already carry `colls`/`pens`/alive flags -/
def worldNew (n : Nat) (tol : Int) (offs : Nat → Int) (p : Policy) (fixedIdx : Int)
    (alive : Nat → Nat → Bool) (colls : Nat → Nat → Coll) (pens : Nat → Nat → Int) : World :=
  { g := (gNew n tol offs p fixedIdx alive (fun t d => (colls t d).snapshot p (pens t d))).1,
    colls := colls, pens := pens }

inductive SelErr where
  | noDialers | noAlive | outOfRange | unsupported
deriving DecidableEq, Repr

structure SelOk where
  d : Nat
  lat : Int
  sel : Nat          -- index of the admitting health domain (`selectedNetworkType.Index()`)
deriving DecidableEq, Repr

/-- `selectionNetworkTypes`: the requested type, then for data UDP: DNS-UDP and TCP of the same family -/
def chain (t : NetType) (p : Policy) : List NetType :=
  if p = .fixed || !t.udp || t.effDom ≠ .data then [t]
  else [t, ⟨true, t.ip6, true, .dns⟩, ⟨false, t.ip6, false, .unset⟩]

/-- `preferAlternateSelectionNetworkType` -/
def preferAlt (g : Group) (d : Nat) (t : NetType) : NetType :=
  if g.alive t.index d then t
  else if g.alive t.flip.index d then t.flip else t

/-- first type of the chain whose pick is non-nil -/
def firstPick {α} (pick : NetType → Option α) : List NetType → Option (NetType × α)
  | [] => none
  | t :: ts => match pick t with
    | some x => some (t, x)
    | none => firstPick pick ts

/-- `_select`; `rnd i` drives the `GetRandExcluded` call on the i-th type tried. -/
def select1 (rnd : Nat → Nat → Nat) (g : Group) (t : NetType) (p : Policy) (fixedIdx : Int)
    (excl : Option Nat) : Except SelErr SelOk :=
  if g.n = 0 then .error .noDialers
  else match p with
    | .random =>
      let ts := chain t p
      match firstPick (fun ty => getRand (rnd ty.index) (g.sets ty.index) excl) ts with
      | some (ty, d) => .ok ⟨d, 0, (preferAlt g d ty).index⟩
      | none => .error .noAlive
    | .fixed =>
      if fixedIdx < 0 ∨ (g.n : Int) ≤ fixedIdx then .error .outOfRange
      else .ok ⟨fixedIdx.toNat, 0, (preferAlt g fixedIdx.toNat t).index⟩
    | _ =>
      let ts := chain t p
      match firstPick (fun ty =>
          let r := getMin (g.sets ty.index) excl
          r.1.map (fun d => (d, r.2))) ts with
      | some (ty, (d, l)) => .ok ⟨d, l, (preferAlt g d ty).index⟩
      | none => .error .noAlive

/-- `SelectWithExclusionResult`; `rnd c` is the random source of the c-th `_select` call. -/
def select (rnd : Nat → Nat → Nat → Nat) (g : Group) (t : NetType) (strict : Bool)
    (excl : Option Nat) : Except SelErr SelOk :=
  match select1 (rnd 0) g t g.policy g.fixedIdx excl with
  | .ok r => .ok r
  | .error .noAlive =>
    if !strict then select1 (rnd 1) g t.flip g.policy g.fixedIdx excl
    else if g.n = 1 then
      match select1 (rnd 1) g t .fixed 0 excl with
      | .ok r => .ok { r with lat := dialTimeout }
      | .error e => .error e
    else .error .noAlive
  | .error e => .error e

/-- every health domain `SelectWithExclusionResult` may consult, in order -/
def tried (g : Group) (t : NetType) (strict : Bool) : List NetType :=
  chain t g.policy ++ (if strict then [] else chain t.flip g.policy)

/-- the selection made by `chooseProxyDialer`: on "no alive" retry the other family, non-strict. -/
def chooseSelect (rnd : Nat → Nat → Nat → Nat → Nat) (g : Group) (t : NetType) (strict : Bool)
    (excl : Option Nat) : Except SelErr SelOk :=
  match select (rnd 0) g t strict excl with
  | .error .noAlive => select (rnd 1) g t.flip false excl
  | r => r

/-! ### deterministic "all possible answers" form, what the driver prints

For `random` the answer is the list of every dialer the call may return (with the admitting
domain each would get); for the other policies a singleton.  `Props.select_mem_selectAll` ties
`select rnd` to it for every `rnd`. -/

def select1All (g : Group) (t : NetType) (p : Policy) (fixedIdx : Int) (excl : Option Nat) :
    Except SelErr (List SelOk) :=
  match p with
  | .random =>
    if g.n = 0 then .error .noDialers
    else
      match firstPick (fun ty =>
          let c := randCands (g.sets ty.index) excl
          if c.isEmpty then none else some c) (chain t p) with
      | some (ty, c) => .ok (c.map fun d => ⟨d, 0, (preferAlt g d ty).index⟩)
      | none => .error .noAlive
  | _ => (select1 (fun _ _ => 0) g t p fixedIdx excl).map (fun r => [r])

def selectAll (g : Group) (t : NetType) (strict : Bool) (excl : Option Nat) :
    Except SelErr (List SelOk) :=
  match select1All g t g.policy g.fixedIdx excl with
  | .ok r => .ok r
  | .error .noAlive =>
    if !strict then select1All g t.flip g.policy g.fixedIdx excl
    else if g.n = 1 then
      match select1All g t .fixed 0 excl with
      | .ok r => .ok (r.map fun x => { x with lat := dialTimeout })
      | .error e => .error e
    else .error .noAlive
  | .error e => .error e

def chooseSelectAll (g : Group) (t : NetType) (strict : Bool) (excl : Option Nat) :
    Except SelErr (List SelOk) :=
  match selectAll g t strict excl with
  | .error .noAlive => selectAll g t.flip false excl
  | r => r

/-! ### `control/dial.go`: from a flow to a selection, and `routeDial`'s retry -/

/-- the dial modes exercised here (`domain` with its DNS-knowledge probe is C18's subject) -/
inductive DialMode where
  | ip | domainPlus | domainCao
deriving DecidableEq, Repr

/-- what `p.Outbound` is: a user-defined group, a reserved outbound (direct/block), or the
"decide in the control plane" placeholder -/
inductive OutKind where
  | user | reserved | routing
deriving DecidableEq, Repr

/-- the sniffed domain: none, a name, or an IP literal -/
inductive DomKind where
  | none | name | ipLiteral
deriving DecidableEq, Repr

/-- `ChooseDialTarget` as far as selection cares: (shouldReroute, dialIp) -/
def chooseTarget (m : DialMode) (reserved : Bool) (dom : DomKind) : Bool × Bool :=
  if !reserved && dom != .none then
    match m with
    | .ip => (false, true)
    | .domainPlus => (false, dom == .ipLiteral)
    | .domainCao => (true, dom == .ipLiteral)
  else (false, true)

/-- `strictIpVersion` of `chooseProxyDialer`: after a re-route (by name, or because the kernel left
the decision to the control plane) the target — hence `dialIp` — is chosen again for the routed
outbound (`routedReserved` = the routed outbound is direct/block). -/
def dialStrict (m : DialMode) (out : OutKind) (dom : DomKind) (routedReserved : Bool) : Bool :=
  let r1 := chooseTarget m (out != .user) dom
  if r1.1 || out == .routing then (chooseTarget m routedReserved dom).2 else r1.2

/-- the selection network type: family of the destination, except that UDP follows the client -/
def dialSelType (udp src6 dst6 : Bool) : NetType :=
  ⟨udp, if udp && (src6 != dst6) then src6 else dst6, false, .data⟩

inductive DialOutcome where
  | ok | unreachable | otherErr
deriving DecidableEq, Repr

/-- domain `routeDial` reports dead after a forced-unreachable dial error: `SelectionNetworkTypeObj`
of the result = requested L4, the admitting domain's family, data domain for UDP -/
def endpointIdx (udp : Bool) (sel : Nat) : Nat := (if udp then 4 else 2) + sel % 2

/-- `routeDial` (deterministic form over `chooseSelectAll`): attempt 0; on a network-unreachable
dial error the chosen node is reported dead (forced) for the endpoint domain and one more attempt
is made.  Returns the new world, the callbacks, and the answers of the attempts. -/
def routeDialAll (w : World) (t : NetType) (strict : Bool) (excl : Option Nat) (b0 : DialOutcome) :
    World × List GCb × List (Except SelErr (List SelOk)) :=
  let a0 := chooseSelectAll w.g t strict excl
  match a0, b0 with
  | .ok [x], .unreachable =>
    let r := toldStep w (endpointIdx t.udp x.sel) x.d false
    (r.1, r.2, [a0, chooseSelectAll r.1.g t strict excl])
  | _, _ => (w, [], [a0])

/-! ### `CaptureReloadSelectionFallback` -/

/-- `CaptureReloadSelectionFallback`: per standard type the node a non-strict, exclusion-free
selection returns (nil on error) -/
def captureFallback (rnd : Nat → Nat → Nat → Nat → Nat) (g : Group) (t : Nat) : Option Nat :=
  match select (rnd t) g (stdType t) false none with
  | .ok x => some x.d
  | .error _ => none

/-- all nodes `CaptureReloadSelectionFallback` may record for type `t` (driver form) -/
def captureFallbackAll (g : Group) (t : Nat) : List Nat :=
  match selectAll g (stdType t) false none with
  | .ok l => l.map (·.d)
  | .error _ => []

end DaeVerif.C15
