import DaeVerif.C01.Outbound
/-!
# C01 — the values of a condition as the user writes them

`component/routing/function_parser.go` turns the parameter strings of a routing function into typed
values before the `add*` callbacks see them: `common.ParsePortRange` (ports), `strconv.ParseUint(v, 0, 8)`
(DSCP, through `UintParserFactory[uint8]`), `common.ParseMac`, and two literal switches (`tcp`/`udp`,
`4`/`6`).  This file models those functions on byte strings.  Core-only.
-/
namespace DaeVerif.C01

/-- decimal digits only, at least one (the digit loop of `strconv.Atoi` / `ParseUint(s, 10, …)`) -/
def decDigitsAux : List Nat → Nat → Option Nat
  | [], acc => some acc
  | c :: cs, acc => if 48 ≤ c ∧ c ≤ 57 then decDigitsAux cs (acc * 10 + (c - 48)) else none

def decDigits (s : List Nat) : Option Nat := if s = [] then none else decDigitsAux s 0

/-- `strconv.Atoi`: optional sign, decimal digits; `(negative, magnitude)` -/
def atoi : List Nat → Option (Bool × Nat)
  | 45 :: r => (decDigits r).map fun n => (true, n)
  | 43 :: r => (decDigits r).map fun n => (false, n)
  | s => (decDigits s).map fun n => (false, n)

/-- one field of `ParsePortRange`: non-empty, `Atoi`, `0 ≤ port ≤ 0xffff` -/
def portField (s : List Nat) : Option Nat :=
  if s = [] then none else
  match atoi s with
  | some (neg, n) => if n ≤ 0xffff ∧ (neg = false ∨ n = 0) then some n else none
  | none => none

/-- split at the first separator (`strings.SplitN(s, sep, 2)`) -/
def splitFirst (sep : Nat) : List Nat → List Nat × Option (List Nat)
  | [] => ([], none)
  | c :: cs => if c = sep then ([], some cs) else ((c :: (splitFirst sep cs).1), (splitFirst sep cs).2)

/-- `common.ParsePortRange`: `A` = `A-A`, `A-B`; inclusive, no ordering required -/
def parsePortRange (s : List Nat) : Option (Nat × Nat) :=
  match splitFirst 45 s with
  | (a, none) => (portField a).map fun lo => (lo, lo)
  | (a, some b) =>
    match portField a with
    | some lo => (portField b).map fun hi => (lo, hi)
    | none => none

/-- `strings.SplitN(s, ":", n)` -/
def splitN (sep : Nat) : Nat → List Nat → List (List Nat)
  | 0, _ => []
  | 1, s => [s]
  | n + 2, s =>
    match splitFirst sep s with
    | (a, none) => [a]
    | (a, some r) => a :: splitN sep (n + 1) r

def hexVal (c : Nat) : Option Nat :=
  if 48 ≤ c ∧ c ≤ 57 then some (c - 48)
  else if 97 ≤ c ∧ c ≤ 102 then some (c - 97 + 10)
  else if 65 ≤ c ∧ c ≤ 70 then some (c - 65 + 10)
  else none

/-- one field of `ParseMac`: `hex.DecodeString` giving exactly one byte -/
def macField : List Nat → Option Nat
  | [h, l] =>
    match hexVal h, hexVal l with
    | some x, some y => some (x * 16 + y)
    | _, _ => none
  | _ => none

def macFields : List (List Nat) → Nat → Option Nat
  | [], acc => some acc
  | f :: fs, acc =>
    match macField f with
    | some b => macFields fs (acc * 256 + b)
    | none => none

/-- `common.ParseMac`: six two-digit hex fields separated by `:`; the 48-bit value -/
def parseMac (s : List Nat) : Option Nat :=
  let fs := splitN 58 6 s
  if fs.length = 6 then macFields fs 0 else none

/-- `L4ProtoParserFactory`'s switch: `tcp` ↦ 1, `udp` ↦ 2, anything else contributes nothing -/
def l4Literal (s : List Nat) : Nat :=
  if s = [116, 99, 112] then 1 else if s = [117, 100, 112] then 2 else 0

/-- `IpVersionParserFactory`'s switch: `4` ↦ 1, `6` ↦ 2, anything else contributes nothing -/
def ipvLiteral (s : List Nat) : Nat :=
  if s = [52] then 1 else if s = [54] then 2 else 0

/-- `UintParserFactory[uint8]` (DSCP): `strconv.ParseUint(v, 0, 8)` -/
def parseDscp (s : List Nat) : Option Nat := parseUint0 8 s

/-! ### facts about the notation -/

theorem decDigitsAux_append (s : List Nat) (d : Nat) (hd : d ≤ 9) : ∀ acc,
    decDigitsAux (s ++ [48 + d]) acc = (decDigitsAux s acc).map fun n => n * 10 + d := by
  induction s with
  | nil =>
    intro acc
    have h1 : 48 ≤ 48 + d ∧ 48 + d ≤ 57 := by omega
    simp [decDigitsAux, h1]
  | cons c cs ih =>
    intro acc
    simp only [List.cons_append, decDigitsAux]
    split
    · exact ih _
    · rfl

/-- positional notation: appending a digit multiplies by ten and adds it -/
theorem decDigits_append_digit (s : List Nat) (d : Nat) (hs : s ≠ []) (hd : d ≤ 9) :
    decDigits (s ++ [48 + d]) = (decDigits s).map fun n => n * 10 + d := by
  unfold decDigits
  have : s ++ [48 + d] ≠ [] := by simp
  simp only [this, hs, if_false]
  exact decDigitsAux_append s d hd 0

/-- leading zeros do not change a decimal number (no octal reading for ports) -/
theorem decDigits_leading_zero (s : List Nat) (hs : s ≠ []) : decDigits (48 :: s) = decDigits s := by
  unfold decDigits
  simp [hs, decDigitsAux]

/-- a single port `A` is the range `A-A` -/
theorem parsePortRange_single (s : List Nat) (h : (splitFirst 45 s).2 = none) :
    parsePortRange s = (portField s).map fun lo => (lo, lo) := by
  unfold parsePortRange
  have hs : ∀ (t : List Nat), (splitFirst 45 t).2 = none → (splitFirst 45 t).1 = t := by
    intro t
    induction t with
    | nil => intro _; rfl
    | cons c cs ih =>
      unfold splitFirst
      by_cases hc : c = 45
      · simp [hc]
      · simp only [hc, if_false]
        intro h2
        rw [ih h2]
  have h1 := hs s h
  cases hsp : splitFirst 45 s with
  | mk a r =>
    rw [hsp] at h h1
    simp only at h h1
    subst h h1
    rfl

/-- whatever is accepted is a pair of 16-bit ports -/
theorem parsePortRange_bounds (s : List Nat) (lo hi : Nat) (h : parsePortRange s = some (lo, hi)) :
    lo ≤ 0xffff ∧ hi ≤ 0xffff := by
  have pf : ∀ t n, portField t = some n → n ≤ 0xffff := by
    intro t n ht
    unfold portField at ht
    split at ht
    · cases ht
    · split at ht
      · split at ht
        · rename_i hc; cases ht; exact hc.1
        · cases ht
      · cases ht
  unfold parsePortRange at h
  split at h
  · rename_i a hsp
    cases ha : portField a with
    | none => simp [ha] at h
    | some v =>
      simp only [ha, Option.map_some, Option.some.injEq, Prod.mk.injEq] at h
      obtain ⟨rfl, rfl⟩ := h
      exact ⟨pf a v ha, pf a v ha⟩
  · rename_i a b hsp
    cases ha : portField a with
    | none => simp [ha] at h
    | some v =>
      simp only [ha] at h
      cases hb : portField b with
      | none => simp [hb] at h
      | some w =>
        simp only [hb, Option.map_some, Option.some.injEq, Prod.mk.injEq] at h
        obtain ⟨rfl, rfl⟩ := h
        exact ⟨pf a v ha, pf b w hb⟩

end DaeVerif.C01
