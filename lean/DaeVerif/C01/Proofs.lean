import DaeVerif.C01.Model
import DaeVerif.C12.Props
/-! Helper lemmas for C01: each compiled condition means what the source condition says. -/
namespace DaeVerif.C01
open DaeVerif.RuleScan DaeVerif.C12

theorem any_flatMap' {α β} (l : List α) (f : α → List β) (q : β → Bool) :
    (l.flatMap f).any q = l.any fun x => (f x).any q := by
  induction l with
  | nil => rfl
  | cons a t ih => simp [List.flatMap_cons, List.any_append, ih]

theorem NE.toList_map {α β} (f : α → β) (l : NE α) : (l.map f).toList = l.toList.map f := rfl

/-- alternatives of a "one entry per key group" lowering -/
theorem any_group_entries {α} (ev : MCond → Bool) (mk : NE α → MCond) (gs : NE (NE α)) :
    ((gs.map mk).head :: (gs.map mk).tail).any ev = gs.toList.any fun g => ev (mk g) := by
  show ((gs.map mk).toList).any ev = _
  rw [NE.toList_map, List.any_map]; rfl

/-- alternatives of a "one entry per value" lowering -/
theorem flat_values {α} (gs : NE (NE α)) :
    gs.toList.flatMap NE.toList = gs.head.head :: (gs.head.tail ++ gs.tail.flatMap NE.toList) := by
  simp [NE.toList, List.flatMap_cons]

theorem any_value_entries {α} (ev : MCond → Bool) (mk : α → MCond) (gs : NE (NE α)) :
    (mk gs.head.head :: (gs.head.tail ++ gs.tail.flatMap NE.toList).map mk).any ev =
      (gs.toList.flatMap NE.toList).any fun v => ev (mk v) := by
  rw [flat_values, ← List.map_cons, List.any_map]; rfl

theorem trieMatch_eq_any_contains (ps : List Prefix) (a : Nat) (hps : ∀ p ∈ ps, p.WF)
    (ha : a < 2 ^ 128) : trieMatch ps a = ps.any fun pr => decide (contains pr a) := by
  rw [Bool.eq_iff_iff, Props.trie_matches_iff_contained ps a hps ha]
  simp [List.any_eq_true]

theorem macPrefix_WF (m : Nat) (h : m < 2 ^ 48) : (macPrefix m).WF := by
  unfold macPrefix Prefix.WF
  refine ⟨Nat.lt_trans h (by decide), by simp⟩

theorem contains_macPrefix (m a : Nat) : contains (macPrefix m) a ↔ a = m := by
  have := Props.host_route_exact (macPrefix m) a (by simp [macPrefix, Prefix.len128])
  simpa [macPrefix] using this

theorem trieMatch_mac (ms : List Nat) (a : Nat) (hms : ∀ m ∈ ms, m < 2 ^ 48) (ha : a < 2 ^ 128) :
    trieMatch (ms.map macPrefix) a = ms.any fun m => a == m := by
  rw [trieMatch_eq_any_contains _ _ _ ha, List.any_map]
  · congr 1; funext m
    simp only [Function.comp]
    rw [Bool.eq_iff_iff]; simp [contains_macPrefix]
  · intro p hp
    obtain ⟨m, hm, rfl⟩ := List.mem_map.mp hp
    exact macPrefix_WF m (hms m hm)

theorem orMask_foldl (acc : Nat) (l : List Nat) : l.foldl (· ||| ·) acc = acc ||| orMask l := by
  unfold orMask
  induction l generalizing acc with
  | nil => simp
  | cons a t ih => simp only [List.foldl_cons]; rw [ih, ih (0 ||| a)]; simp [Nat.or_assoc]

theorem orMask_cons (a : Nat) (l : List Nat) : orMask (a :: l) = a ||| orMask l := by
  show (a :: l).foldl (· ||| ·) 0 = _
  simp only [List.foldl_cons]; rw [orMask_foldl]; simp

theorem or_pos_iff (u v : Nat) : (u ||| v) > 0 ↔ u > 0 ∨ v > 0 := by
  constructor
  · intro h
    by_cases hu : u > 0
    · exact Or.inl hu
    · right
      have : u = 0 := by omega
      subst this; simpa using h
  · intro h
    rcases h with h | h
    · exact Nat.lt_of_lt_of_le h (Nat.left_le_or)
    · exact Nat.lt_of_lt_of_le h (Nat.right_le_or)

/-- For a protocol / version bit `x ∈ {1,2}` and literal bits `b ≤ 2`: the OR-ed mask test is
membership of the literal. -/
theorem mask_test (x : Nat) (hx : x = 1 ∨ x = 2) (l : List Nat) (hl : ∀ b ∈ l, b ≤ 2) :
    decide ((x &&& orMask l) > 0) = l.any fun b => b != 0 && b == x := by
  induction l with
  | nil => simp [orMask]
  | cons a t ih =>
    rw [orMask_cons, Nat.and_or_distrib_left, List.any_cons, ← ih (fun b hb => hl b (List.mem_cons_of_mem _ hb))]
    have ha : a ≤ 2 := hl a (List.mem_cons_self)
    have : decide ((x &&& a) > 0) = (a != 0 && a == x) := by
      rcases hx with rfl | rfl <;> (have : a = 0 ∨ a = 1 ∨ a = 2 := by omega) <;>
        rcases this with rfl | rfl | rfl <;> decide
    rw [← this, Bool.eq_iff_iff]
    simp only [decide_eq_true_eq, Bool.or_eq_true, or_pos_iff]

end DaeVerif.C01

namespace DaeVerif.C01
open DaeVerif.RuleScan DaeVerif.C12

theorem any_congr_mem {α} (l : List α) (f g : α → Bool) (h : ∀ x ∈ l, f x = g x) : l.any f = l.any g := by
  induction l with
  | nil => rfl
  | cons a t ih =>
    simp only [List.any_cons]
    rw [h a List.mem_cons_self, ih (fun x hx => h x (List.mem_cons_of_mem _ hx))]

theorem alts_compile (c : SCond) :
    (compileCond c).alts = (compileBody c.neg c.body).head :: (compileBody c.neg c.body).tail := rfl

theorem any_or_const {α} (l : List α) (f : α → Bool) (b : Bool) (hl : l ≠ []) :
    (l.any fun x => f x || b) = (l.any f || b) := by
  induction l with
  | nil => exact absurd rfl hl
  | cons a t ih =>
    cases t with
    | nil => simp
    | cons a' t' =>
      simp only [List.any_cons] at ih ⊢
      rw [ih (by simp)]
      cases f a <;> cases f a' <;> cases b <;> simp

/-- What the OR-chain of a compiled condition evaluates to, per function. -/
theorem any_alts_eq (p : Pkt) (hp : p.WF) (c : SCond) (hc : c.body.WF) :
    (compileCond c).alts.any (evalM p) =
      match c.body, c.neg with
      | .mac _, true => bodyHolds p c.body || p.mac == 0
      | _, _ => bodyHolds p c.body := by
  obtain ⟨hsrc, hdst, hmac, hl4, hipv⟩ := hp
  have hmac' : p.mac < 2 ^ 128 := Nat.lt_trans hmac (by decide)
  rw [alts_compile]
  cases c with
  | mk neg body =>
  cases body with
  | ip isDst gs =>
    cases isDst
    · simp only [compileBody, any_group_entries, bodyHolds, any_flatMap', evalM]
      apply any_congr_mem; intro g hg
      exact trieMatch_eq_any_contains _ _ (fun pr hpr => hc g hg pr hpr) hsrc
    · simp only [compileBody, any_group_entries, bodyHolds, any_flatMap', evalM]
      apply any_congr_mem; intro g hg
      exact trieMatch_eq_any_contains _ _ (fun pr hpr => hc g hg pr hpr) hdst
  | mac gs =>
    cases neg
    · simp only [compileBody, any_group_entries, bodyHolds, any_flatMap', evalM]
      apply any_congr_mem; intro g hg
      exact trieMatch_mac _ _ (fun m hm => hc g hg m hm) hmac'
    · simp only [compileBody, any_group_entries, bodyHolds, any_flatMap', evalM, if_true]
      rw [← any_or_const _ _ _ (by simp [NE.toList])]
      apply any_congr_mem; intro g hg
      rw [trieMatch_mac _ _ _ hmac']
      · simp [List.any_append]
      · intro m hm
        rcases List.mem_append.mp hm with h | h
        · exact hc g hg m h
        · simp at h; subst h; decide
  | port isDst gs =>
    cases isDst
    · have h := any_value_entries (evalM p) (fun r : Nat × Nat => MCond.srcPort r.1 r.2) gs
      simp only [compileBody, bodyHolds]
      refine h.trans ?_
      apply any_congr_mem; intro r _
      simp only [evalM, ge_iff_le]; rfl
    · have h := any_value_entries (evalM p) (fun r : Nat × Nat => MCond.port r.1 r.2) gs
      simp only [compileBody, bodyHolds]
      refine h.trans ?_
      apply any_congr_mem; intro r _
      simp only [evalM, ge_iff_le]; rfl
  | l4proto gs =>
    simp only [compileBody, any_group_entries, bodyHolds, any_flatMap', evalM]
    apply any_congr_mem; intro g hg
    exact mask_test p.l4 hl4 g.toList (fun b hb => hc g hg b hb)
  | ipversion gs =>
    simp only [compileBody, any_group_entries, bodyHolds, any_flatMap', evalM]
    apply any_congr_mem; intro g hg
    exact mask_test p.ipver hipv g.toList (fun b hb => hc g hg b hb)
  | pname gs =>
    have h := any_value_entries (evalM p) (fun s : List Nat => MCond.processName (pad16 s)) gs
    simp only [compileBody, bodyHolds]
    exact h
  | dscp gs =>
    have h := any_value_entries (evalM p) (fun v : Nat => MCond.dscp v) gs
    simp only [compileBody, bodyHolds]
    refine h.trans ?_
    apply any_congr_mem; intro v _
    exact Bool.beq_comm
  | domain gs =>
    simp only [compileBody, bodyHolds, evalM]
    show ((gs.map _).toList).any _ = _
    rw [NE.toList_map, List.any_map]; rfl

/-- **Per-condition correctness**: the OR-chain of match sets a condition lowers to, with the
chain's negation flag applied, holds exactly when the source condition holds. -/
theorem cond_correct (p : Pkt) (hp : p.WF) (c : SCond) (hc : c.body.WF) :
    condHolds (evalM p) (compileCond c) = scondHolds p c := by
  unfold condHolds
  rw [any_alts_eq p hp c hc]
  cases c with
  | mk neg body =>
  cases body <;> cases neg <;> simp only [scondHolds, compileCond, bne] <;>
    first
    | (generalize bodyHolds p _ = a; generalize (p.mac == 0) = b; cases a <;> cases b <;> rfl)
    | (generalize bodyHolds p _ = a; cases a <;> rfl)

theorem rule_correct (p : Pkt) (hp : p.WF) (r : SRule) (hr : r.WF) :
    ruleHolds (evalM p) (compileRule r) = sruleHolds p r := by
  unfold ruleHolds sruleHolds Rule.conds compileRule
  simp only
  rw [← List.map_cons, List.all_map]
  have : ∀ (l : List SCond), (∀ c ∈ l, c.body.WF) →
      l.all (condHolds (evalM p) ∘ compileCond) = l.all (scondHolds p) := by
    intro l hl
    induction l with
    | nil => rfl
    | cons a t ih =>
      simp only [List.all_cons, Function.comp]
      rw [cond_correct p hp a (hl a List.mem_cons_self)]
      congr 1
      exact ih (fun c hc => hl c (List.mem_cons_of_mem _ hc))
  exact this _ hr

/-- firstMatch over the compiled rules is the source-level specification. -/
theorem firstMatch_compile (p : Pkt) (hp : p.WF) (rules : List SRule) (hr : ∀ r ∈ rules, r.WF)
    (fb : Out) : ∀ must,
    (fun (x : Out × Bool) => ({ x.1 with must := x.1.must || x.2 } : Out))
      (firstMatch (evalM p) (rules.map compileRule) fb must) = firstMatchS p rules fb must := by
  induction rules with
  | nil => intro must; rfl
  | cons r rs ih =>
    intro must
    simp only [List.map_cons, firstMatch, firstMatchS]
    rw [rule_correct p hp r (hr r List.mem_cons_self)]
    have ih' := ih (fun r' h => hr r' (List.mem_cons_of_mem _ h))
    cases h : sruleHolds p r
    · simp only [Bool.false_eq_true, if_false]; exact ih' must
    · simp only [if_true]
      have : (compileRule r).out = r.out := rfl
      rw [this]
      cases r.out with
      | final o => rfl
      | mustRules => exact ih' true

end DaeVerif.C01
