import DaeVerif.Common.RuleScan
import DaeVerif.C12.Model
/-!
# C01 — first-match routing: model of `RulesBuilder.Apply` + the `RoutingMatcherBuilder.add*`
lowering and of `RoutingMatcher.Match` / `ControlPlane.Route`.

Two levels:
* **source level** (`SRule`, `scondHolds`, `firstMatchS`): the rules as the user wrote them, with the
  documented meaning of every condition — this is the specification;
* **compiled level** (`MCond`, `evalM`, `compileRule`, `RuleScan.lower`, `RuleScan.scanAux`): the
  match-set array the builder emits and the loop `Match` runs over it.
Core-only.
-/
namespace DaeVerif.C01
open DaeVerif.RuleScan DaeVerif.C12

/-- Non-empty list (a parsed function call always has ≥ 1 parameter, a key group ≥ 1 value). -/
structure NE (α : Type) where
  head : α
  tail : List α
deriving Repr

def NE.toList {α} (l : NE α) : List α := l.head :: l.tail
def NE.map {α β} (f : α → β) (l : NE α) : NE β := ⟨f l.head, l.tail.map f⟩

/-- The argument tuple of `RoutingMatcher.Match`. Addresses and the MAC are the big-endian values of
the 16-byte arrays (`mac` sits in bytes 10..15, i.e. the low 48 bits). `dom` is an oracle: the truth
of each `domain(...)` key group of the program for this packet's domain, in program order (the
meaning of those bits is property C11; the empty domain makes all of them false). -/
structure Pkt where
  src : Nat
  dst : Nat
  sport : Nat
  dport : Nat
  ipver : Nat          -- IpVersion_4 = 1, IpVersion_6 = 2
  l4 : Nat             -- L4ProtoType_TCP = 1, L4ProtoType_UDP = 2
  pname : List Nat     -- 16 bytes
  dscp : Nat
  mac : Nat
  dom : List Bool
deriving Repr

/-- What a hit returns: outbound id, fwmark, the rule's own must flag. -/
structure Out where
  outbound : Nat
  mark : Nat
  must : Bool
deriving Repr, DecidableEq

/-! ## Source level: the rules as written -/

/-- The body of one condition `f(...)`; the outer `NE` are the key groups in first-appearance
order (`groupParamValuesByKey`), the inner the values of a group. -/
inductive SBody where
  | ip (isDst : Bool) (groups : NE (NE Prefix))          -- dip / sip
  | mac (groups : NE (NE Nat))                           -- 48-bit MACs
  | port (isDst : Bool) (groups : NE (NE (Nat × Nat)))   -- inclusive ranges lo-hi
  | l4proto (groups : NE (NE Nat))                       -- literal: 1 = "tcp", 2 = "udp", 0 = anything else
  | ipversion (groups : NE (NE Nat))                     -- literal: 1 = "4", 2 = "6", 0 = anything else
  | pname (groups : NE (NE (List Nat)))                  -- byte strings of any length
  | dscp (groups : NE (NE Nat))
  | domain (groups : NE Nat)                             -- per key group: index into `Pkt.dom`
deriving Repr

structure SCond where
  neg : Bool
  body : SBody
deriving Repr

structure SRule where
  first : SCond
  rest : List SCond
  out : RuleOut Out     -- `.final o` or `.mustRules`

def pad16 (s : List Nat) : List Nat := (s.take 16) ++ List.replicate (16 - (s.take 16).length) 0

/-- Documented meaning of a condition body: some value matches. -/
def bodyHolds (p : Pkt) : SBody → Bool
  | .ip isDst gs => (gs.toList.flatMap NE.toList).any fun pr => decide (contains pr (if isDst then p.dst else p.src))
  | .mac gs => (gs.toList.flatMap NE.toList).any fun m => p.mac == m
  | .port isDst gs => (gs.toList.flatMap NE.toList).any fun r =>
      let x := if isDst then p.dport else p.sport
      decide (r.1 ≤ x ∧ x ≤ r.2)
  | .l4proto gs => (gs.toList.flatMap NE.toList).any fun b => b != 0 && b == p.l4
  | .ipversion gs => (gs.toList.flatMap NE.toList).any fun b => b != 0 && b == p.ipver
  | .pname gs => (gs.toList.flatMap NE.toList).any fun s => p.pname.headD 0 != 0 && pad16 s == p.pname
  | .dscp gs => (gs.toList.flatMap NE.toList).any fun v => v == p.dscp
  | .domain gs => gs.toList.any fun i => p.dom.getD i false

/-- `!` negates the whole condition; a negated MAC condition never matches a frame without a MAC. -/
def scondHolds (p : Pkt) (c : SCond) : Bool :=
  match c.body, c.neg with
  | .mac _, true => !(bodyHolds p c.body) && p.mac != 0
  | _, neg => bodyHolds p c.body != neg

def sruleHolds (p : Pkt) (r : SRule) : Bool := (r.first :: r.rest).all (scondHolds p)

/-- **The specification**: first rule, top to bottom, whose conditions all hold; `must_rules` only
sets the must flag and continues; fallback when no rule holds. Returns (outbound, mark, must). -/
def firstMatchS (p : Pkt) : List SRule → Out → Bool → Out
  | [], fb, must => { fb with must := fb.must || must }
  | r :: rs, fb, must =>
    if sruleHolds p r then
      match r.out with
      | .final o => { o with must := o.must || must }
      | .mustRules => firstMatchS p rs fb true
    else firstMatchS p rs fb must

/-! ## Compiled level: the match-set array -/

/-- Payload of one compiled match set (`compiledRoutingMatch`). -/
inductive MCond where
  | ipSet (ps : List Prefix)
  | srcIpSet (ps : List Prefix)
  | macSet (ps : List Prefix)
  | domainSet (i : Nat)
  | port (lo hi : Nat)
  | srcPort (lo hi : Nat)
  | ipVersion (mask : Nat)
  | l4Proto (mask : Nat)
  | processName (bytes : List Nat)
  | dscp (v : Nat)
  | fallback
deriving Repr

/-- The `switch match.matchType` of `RoutingMatcher.Match`. -/
def evalM (p : Pkt) : MCond → Bool
  | .ipSet ps => trieMatch ps p.dst
  | .srcIpSet ps => trieMatch ps p.src
  | .macSet ps => trieMatch ps p.mac
  | .domainSet i => p.dom.getD i false
  | .port lo hi => decide (p.dport ≥ lo ∧ p.dport ≤ hi)
  | .srcPort lo hi => decide (p.sport ≥ lo ∧ p.sport ≤ hi)
  | .ipVersion mask => (p.ipver &&& mask) > 0
  | .l4Proto mask => (p.l4 &&& mask) > 0
  | .processName bytes => p.pname.headD 0 != 0 && bytes == p.pname
  | .dscp v => p.dscp == v
  | .fallback => true

/-- `addSourceMac`: 16-byte form with the MAC in bytes 10..15, as a /128 prefix. -/
def macPrefix (m : Nat) : Prefix := ⟨false, m, 128⟩

def orMask (bits : List Nat) : Nat := bits.foldl (· ||| ·) 0

/-- The match sets one condition lowers to, in order (they are alternatives, chained by OR):
one per key group for ip / mac / l4proto / ipversion / domain, one per value for port / pname / dscp. -/
def compileBody (neg : Bool) : SBody → NE MCond
  | .ip true gs => gs.map fun g => .ipSet g.toList
  | .ip false gs => gs.map fun g => .srcIpSet g.toList
  | .mac gs => gs.map fun g =>
      .macSet ((if neg then g.toList ++ [0] else g.toList).map macPrefix)   -- zero MAC appended when negated
  | .port true gs => ⟨.port gs.head.head.1 gs.head.head.2,
      (gs.head.tail ++ gs.tail.flatMap NE.toList).map fun r => .port r.1 r.2⟩
  | .port false gs => ⟨.srcPort gs.head.head.1 gs.head.head.2,
      (gs.head.tail ++ gs.tail.flatMap NE.toList).map fun r => .srcPort r.1 r.2⟩
  | .l4proto gs => gs.map fun g => .l4Proto (orMask g.toList)
  | .ipversion gs => gs.map fun g => .ipVersion (orMask g.toList)
  | .pname gs => ⟨.processName (pad16 gs.head.head),
      (gs.head.tail ++ gs.tail.flatMap NE.toList).map fun s => .processName (pad16 s)⟩
  | .dscp gs => ⟨.dscp gs.head.head,
      (gs.head.tail ++ gs.tail.flatMap NE.toList).map fun v => .dscp v⟩
  | .domain gs => gs.map fun i => .domainSet i

def compileCond (c : SCond) : Cond MCond :=
  let alts := compileBody c.neg c.body
  ⟨c.neg, alts.head, alts.tail⟩

def compileRule (r : SRule) : Rule MCond Out :=
  ⟨compileCond r.first, r.rest.map compileCond, r.out⟩

/-- The compiled program: lowered rules followed by the fallback match set. -/
def compileProgram (rules : List SRule) (fb : Out) : List (Entry MCond Out) :=
  lower (rules.map compileRule) ++ [⟨.fallback, false, .final fb⟩]

/-- `RoutingMatcher.Match` on a compiled program: `none` = the "no match set hit" error. -/
def matchM (prog : List (Entry MCond Out)) (p : Pkt) : Option Out :=
  (scanAux (evalM p) prog false false false).map fun (o, must) => { o with must := o.must || must }

/-- `ControlPlane.Route`: IP version from the destination (`Is4() || Is4In6()`), given `Is4()` and
the 16-byte value. -/
def routeIpVersion (is4 : Bool) (dst16 : Nat) : Nat :=
  if is4 || dst16 / 2 ^ 32 == 0xffff then 1 else 2

/-- The arguments `ControlPlane.Route` receives: `netip.AddrPort`s (an address is either a 4-byte or a
16-byte value; `is4` = `Addr.Is4()`), the sniffed name's domain bits, the l4 protocol, and the kernel's
routing result (6-byte MAC, 16-byte process name, DSCP). -/
structure RouteArgs where
  srcIs4 : Bool
  src : Nat            -- 32-bit value when `srcIs4`, else the 128-bit value
  dstIs4 : Bool
  dst : Nat
  sport : Nat
  dport : Nat
  l4 : Nat
  pname : List Nat
  dscp : Nat
  mac6 : Nat           -- 48-bit value
  dom : List Bool
deriving Repr

/-- `netip.Addr.As16()`: IPv4 addresses in IPv4-mapped form. -/
def as16 (is4 : Bool) (a : Nat) : Nat := if is4 then mapped4 a else a

/-- What `Route` hands to `Match`: both addresses `As16()`, the IP version from the destination, the
MAC in bytes 10..15 of a 16-byte array (numerically: the 48-bit value itself). -/
def pktOfRoute (a : RouteArgs) : Pkt :=
  let dst16 := as16 a.dstIs4 a.dst
  ⟨as16 a.srcIs4 a.src, dst16, a.sport, a.dport, routeIpVersion a.dstIs4 dst16, a.l4, a.pname, a.dscp, a.mac6, a.dom⟩

/-- Well-formedness of what the generator / parser can produce. -/
def Pkt.WF (p : Pkt) : Prop :=
  p.src < 2 ^ 128 ∧ p.dst < 2 ^ 128 ∧ p.mac < 2 ^ 48 ∧ (p.l4 = 1 ∨ p.l4 = 2) ∧ (p.ipver = 1 ∨ p.ipver = 2)

def SBody.WF : SBody → Prop
  | .ip _ gs => ∀ g ∈ gs.toList, ∀ pr ∈ g.toList, pr.WF
  | .mac gs => ∀ g ∈ gs.toList, ∀ m ∈ g.toList, m < 2 ^ 48
  | .l4proto gs => ∀ g ∈ gs.toList, ∀ b ∈ g.toList, b ≤ 2
  | .ipversion gs => ∀ g ∈ gs.toList, ∀ b ∈ g.toList, b ≤ 2
  | _ => True

def SRule.WF (r : SRule) : Prop := ∀ c ∈ r.first :: r.rest, c.body.WF

end DaeVerif.C01
