import DaeVerif.C01.LpmIndex
import DaeVerif.C12.Props
/-! Proofs for `LpmIndex.lean`: every LPM match set's index points at a slot that holds its own
(canonicalised) set — whatever the hash function — so evaluating through the index is evaluating the
set itself. -/
namespace DaeVerif.C01
open DaeVerif.RuleScan DaeVerif.C12

/-- what one step guarantees about the index it returns -/
def SlotFact (tries : List (List Prefix)) (c : MCond) (idx : Option Nat) : Prop :=
  match slotOf c with
  | some vals => ∃ k, idx = some k ∧ tries[k]? = some vals
  | none => idx = none

theorem SlotFact.mono {tries ext : List (List Prefix)} {c : MCond} {idx : Option Nat}
    (h : SlotFact tries c idx) : SlotFact (tries ++ ext) c idx := by
  unfold SlotFact at h ⊢
  cases hs : slotOf c with
  | none => simpa [hs] using h
  | some vals =>
    simp only [hs] at h ⊢
    obtain ⟨k, hk, ht⟩ := h
    refine ⟨k, hk, ?_⟩
    rw [List.getElem?_append_left]
    · exact ht
    · exact (List.getElem?_eq_some_iff.mp ht).1

theorem inv_append_slot (b : Builder) (ps : List Prefix) (hinv : b.Inv) :
    (⟨b.tries ++ [ps], b.dedup⟩ : Builder).Inv := by
  intro h e he
  have := hinv h e he
  simp only
  rw [List.getElem?_append_left]
  · exact this
  · exact (List.getElem?_eq_some_iff.mp this).1

theorem lpmStep_spec (hash : List Prefix → Nat) (b : Builder) (c : MCond) (hinv : b.Inv) :
    (lpmStep hash b c).1.Inv ∧ (∃ ext, (lpmStep hash b c).1.tries = b.tries ++ ext) ∧
    SlotFact (lpmStep hash b c).1.tries c (lpmStep hash b c).2 := by
  cases c with
  | ipSet ps =>
    obtain ⟨h1, h2, h3⟩ := Builder.addSet_spec hash b ps hinv
    exact ⟨h1, h2, ⟨_, rfl, h3⟩⟩
  | srcIpSet ps =>
    obtain ⟨h1, h2, h3⟩ := Builder.addSet_spec hash b ps hinv
    exact ⟨h1, h2, ⟨_, rfl, h3⟩⟩
  | macSet ps =>
    refine ⟨inv_append_slot b ps hinv, ⟨[ps], rfl⟩, ⟨b.tries.length, rfl, ?_⟩⟩
    simp [lpmStep]
  | domainSet i => exact ⟨hinv, ⟨[], by simp [lpmStep]⟩, rfl⟩
  | port lo hi => exact ⟨hinv, ⟨[], by simp [lpmStep]⟩, rfl⟩
  | srcPort lo hi => exact ⟨hinv, ⟨[], by simp [lpmStep]⟩, rfl⟩
  | ipVersion m => exact ⟨hinv, ⟨[], by simp [lpmStep]⟩, rfl⟩
  | l4Proto m => exact ⟨hinv, ⟨[], by simp [lpmStep]⟩, rfl⟩
  | processName bs => exact ⟨hinv, ⟨[], by simp [lpmStep]⟩, rfl⟩
  | dscp v => exact ⟨hinv, ⟨[], by simp [lpmStep]⟩, rfl⟩
  | fallback => exact ⟨hinv, ⟨[], by simp [lpmStep]⟩, rfl⟩

theorem lpmRun_cons (hash : List Prefix → Nat) (b : Builder) (e : Entry MCond Out) (es : List (Entry MCond Out)) :
    lpmRun hash b (e :: es) =
      ((lpmRun hash (lpmStep hash b e.cond).1 es).1,
        (lpmStep hash b e.cond).2 :: (lpmRun hash (lpmStep hash b e.cond).1 es).2) := rfl

/-- **Invariant of the builder walk** (induction over the emitted array): the index column has the
array's length, slots are only ever appended, and every entry's index holds that entry's own set. -/
theorem lpmRun_spec (hash : List Prefix → Nat) (es : List (Entry MCond Out)) : ∀ (b : Builder), b.Inv →
    (lpmRun hash b es).2.length = es.length ∧
    (∃ ext, (lpmRun hash b es).1.tries = b.tries ++ ext) ∧
    (lpmRun hash b es).1.Inv ∧
    ∀ j (hj : j < es.length), SlotFact (lpmRun hash b es).1.tries es[j].cond ((lpmRun hash b es).2.getD j none) := by
  induction es with
  | nil => intro b hb; exact ⟨rfl, ⟨[], by simp [lpmRun]⟩, hb, fun j hj => absurd hj (by simp)⟩
  | cons e es ih =>
    intro b hb
    obtain ⟨hinv1, ⟨ext1, hext1⟩, hfact1⟩ := lpmStep_spec hash b e.cond hb
    obtain ⟨hlen, ⟨ext2, hext2⟩, hinv2, hall⟩ := ih (lpmStep hash b e.cond).1 hinv1
    rw [lpmRun_cons]
    refine ⟨by simp [hlen], ⟨ext1 ++ ext2, by simp only [hext2, hext1, List.append_assoc]⟩, hinv2, ?_⟩
    intro j hj
    cases j with
    | zero =>
      simp only [List.getElem_cons_zero, List.getD_cons_zero]
      rw [hext2]
      exact hfact1.mono
    | succ k =>
      simp only [List.getElem_cons_succ, List.getD_cons_succ]
      exact hall k (by simpa using hj)

/-- a slot that holds the canonical form of a set answers every query like the set itself -/
theorem trieMatch_slot (tries : List (List Prefix)) (c : MCond) (idx : Option Nat) (ps : List Prefix)
    (hs : slotOf c = some (canonicalize ps) ∨ slotOf c = some ps) (h : SlotFact tries c idx) (a : Nat) :
    trieMatch (slotAt tries idx) a = trieMatch ps a := by
  unfold SlotFact at h
  rcases hs with hs | hs
  · simp only [hs] at h
    obtain ⟨k, rfl, ht⟩ := h
    simp only [slotAt, ht, Option.getD_some]
    exact Props.canonicalize_same_set ps a
  · simp only [hs] at h
    obtain ⟨k, rfl, ht⟩ := h
    simp only [slotAt, ht, Option.getD_some]

/-- **LPM indices.** Building the LPM slots as the builder does (shared through any hash function,
collisions included) and evaluating address / MAC match sets through their `lpmIndex`, domain sets
through their position, is the position-free model. -/
theorem matchL_eq_matchM (hash : List Prefix → Nat) (rules : List SRule) (fb : Out) (p : Pkt) :
    matchL hash rules fb p = matchM (compileProgram rules fb) p := by
  unfold matchL matchBuilt buildL matchM
  obtain ⟨h1, h2⟩ := emitAll_spec (compileProgram rules fb) ⟨[], []⟩
  simp only [List.nil_append, List.length_nil] at h1 h2
  simp only [h1, h2]
  congr 1
  apply scanIdx_eq_scanAux
  intro j hj
  simp only [Nat.zero_add]
  obtain ⟨_, _, _, hall⟩ := lpmRun_spec hash (compileProgram rules fb) Builder.empty Builder.inv_empty
  have hf := hall j hj
  unfold evalL
  cases hc : (compileProgram rules fb)[j].cond with
  | ipSet ps =>
    simp only [evalM]; rw [hc] at hf
    exact trieMatch_slot _ _ _ ps (Or.inl rfl) hf p.dst
  | srcIpSet ps =>
    simp only [evalM]; rw [hc] at hf
    exact trieMatch_slot _ _ _ ps (Or.inl rfl) hf p.src
  | macSet ps =>
    simp only [evalM]; rw [hc] at hf
    exact trieMatch_slot _ _ _ ps (Or.inr rfl) hf p.mac
  | domainSet g =>
    simp only [evalM]
    have := bitmap_at_position p (compileProgram rules fb) 0 j hj g hc
    simpa using this
  | port lo hi => rfl
  | srcPort lo hi => rfl
  | ipVersion m => rfl
  | l4Proto m => rfl
  | processName bs => rfl
  | dscp v => rfl
  | fallback => rfl

/-- the "bad lpm index" error of `Match` is unreachable on a built program: every index the builder
writes is inside the slot table -/
theorem lpm_index_in_range (hash : List Prefix → Nat) (rules : List SRule) (fb : Out) (j k : Nat)
    (hj : j < (compileProgram rules fb).length)
    (hk : (buildL hash rules fb).idxs.getD j none = some k) :
    k < (buildL hash rules fb).tries.length := by
  obtain ⟨_, _, _, hall⟩ := lpmRun_spec hash (compileProgram rules fb) Builder.empty Builder.inv_empty
  have hf := hall j hj
  unfold buildL at hk ⊢
  simp only at hk ⊢
  unfold SlotFact at hf
  cases hs : slotOf (compileProgram rules fb)[j].cond with
  | none => simp only [hs] at hf; rw [hf] at hk; cases hk
  | some vals =>
    simp only [hs] at hf
    obtain ⟨k', hk', ht⟩ := hf
    rw [hk'] at hk
    cases hk
    exact (List.getElem?_eq_some_iff.mp ht).1

/-- two address match sets read the same slot only when they list the same set of prefixes -/
theorem shared_slot_same_set (hash : List Prefix → Nat) (rules : List SRule) (fb : Out) (i j k : Nat)
    (hi : i < (compileProgram rules fb).length) (hj : j < (compileProgram rules fb).length)
    (ps qs : List Prefix)
    (hci : slotOf (compileProgram rules fb)[i].cond = some ps)
    (hcj : slotOf (compileProgram rules fb)[j].cond = some qs)
    (hki : (buildL hash rules fb).idxs.getD i none = some k)
    (hkj : (buildL hash rules fb).idxs.getD j none = some k) : ps = qs := by
  obtain ⟨_, _, _, hall⟩ := lpmRun_spec hash (compileProgram rules fb) Builder.empty Builder.inv_empty
  have hfi := hall i hi
  have hfj := hall j hj
  unfold buildL at hki hkj
  simp only at hki hkj
  unfold SlotFact at hfi hfj
  simp only [hci] at hfi
  simp only [hcj] at hfj
  obtain ⟨k1, hk1, ht1⟩ := hfi
  obtain ⟨k2, hk2, ht2⟩ := hfj
  rw [hk1] at hki; rw [hk2] at hkj
  cases hki; cases hkj
  rw [ht1] at ht2
  exact Option.some.inj ht2

end DaeVerif.C01
