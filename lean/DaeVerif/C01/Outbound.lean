import DaeVerif.C01.Model
/-!
# C01 — the outbound of a rule as the user writes it

`config/patch.go patchMustOutbound` rewrites an outbound written `must_<name>[(params)]` into
`<name>(params, must)` (the word `must_rules` is reserved and left alone in rules), and
`component/routing/matcher_builder.go ParseOutbound` reads the parameters: `mark: <number>` (parsed by
`strconv.ParseUint(val, 0, 32)`, the last one wins), the bare word `must`, anything else is an error.

This file models both, on the structured form the configuration walker hands over (a name and a list of
`key: val` parameters, as bytes), including Go's base-0 number syntax (`0x`, `0o`, `0b`, leading `0` =
octal, `_` separators checked by `underscoreOK`).  Core-only.
-/
namespace DaeVerif.C01

/-- `config_parser.Function` of an outbound: its name and its parameters in text order (key, value),
as bytes. -/
structure OFunc where
  name : List Nat
  params : List (List Nat × List Nat)
deriving Repr, DecidableEq

def sMustPrefix : List Nat := [109, 117, 115, 116, 95]                          -- "must_"
def sMust : List Nat := [109, 117, 115, 116]                                    -- "must"
def sMark : List Nat := [109, 97, 114, 107]                                     -- "mark"
def sMustRules : List Nat := [109, 117, 115, 116, 95, 114, 117, 108, 101, 115]  -- "must_rules"

/-! ## `strconv.ParseUint(s, 0, bits)` -/

/-- Go's `lower(c) = c | ('x' - 'X')`. -/
def lowerB (c : Nat) : Nat := c ||| 32

/-- value of a digit character in any base up to 36 (the `switch` of the digit loop) -/
def digitVal (c : Nat) : Option Nat :=
  if 48 ≤ c ∧ c ≤ 57 then some (c - 48)
  else if 97 ≤ lowerB c ∧ lowerB c ≤ 122 then some (lowerB c - 97 + 10)
  else none

/-- base prefix of a base-0 literal: `(base, remaining digits)` -/
def splitBase : List Nat → Nat × List Nat
  | 48 :: c :: d :: rest =>
    if lowerB c = 98 then (2, d :: rest)
    else if lowerB c = 111 then (8, d :: rest)
    else if lowerB c = 120 then (16, d :: rest)
    else (8, c :: d :: rest)
  | 48 :: rest => (8, rest)
  | s => (10, s)

/-- the digit loop (base 0: `_` is skipped here and checked afterwards); `none` = syntax error -/
def digitsVal (base : Nat) : List Nat → Nat → Option Nat
  | [], acc => some acc
  | c :: cs, acc =>
    if c = 95 then digitsVal base cs acc
    else match digitVal c with
      | some d => if d < base then digitsVal base cs (acc * base + d) else none
      | none => none

/-- `strconv.underscoreOK`, state `i`: 0 = `^` (start), 1 = digit (or base prefix), 2 = `_`, 3 = other -/
def underscoreLoop (hex : Bool) : List Nat → Nat → Bool
  | [], i => i != 2
  | c :: cs, i =>
    if (48 ≤ c ∧ c ≤ 57) ∨ (hex ∧ 97 ≤ lowerB c ∧ lowerB c ≤ 102) then underscoreLoop hex cs 1
    else if c = 95 then (if i != 1 then false else underscoreLoop hex cs 2)
    else if i = 2 then false
    else underscoreLoop hex cs 3

def underscoreOK (s : List Nat) : Bool :=
  let s := match s with
    | 45 :: r => r
    | 43 :: r => r
    | s => s
  match s with
  | 48 :: c :: r =>
    if lowerB c = 98 ∨ lowerB c = 111 ∨ lowerB c = 120 then underscoreLoop (lowerB c = 120) r 1
    else underscoreLoop false s 0
  | s => underscoreLoop false s 0

/-- `strconv.ParseUint(s, 0, bits)`; `none` = any error (syntax or range). -/
def parseUint0 (bits : Nat) (s : List Nat) : Option Nat :=
  if s = [] then none else
  let (base, ds) := splitBase s
  match digitsVal base ds 0 with
  | some n =>
    if n < 2 ^ bits ∧ (!(s.contains 95) || underscoreOK s) then some n else none
  | none => none

/-! ## `patchMustOutbound` -/

/-- the loop body over `params.Routing.Rules[i].Outbound` -/
def patchRuleOutbound (f : OFunc) : OFunc :=
  if sMustPrefix.isPrefixOf f.name then
    if f.name = sMustRules then f
    else ⟨f.name.drop 5, f.params ++ [([], sMust)]⟩
  else f

/-- the fallback branch (no `must_rules` exception there) -/
def patchFallbackOutbound (f : OFunc) : OFunc :=
  if sMustPrefix.isPrefixOf f.name then ⟨f.name.drop 5, f.params ++ [([], sMust)]⟩ else f

/-! ## `ParseOutbound` -/

/-- `routing.Outbound`: name, mark, must -/
structure POut where
  name : List Nat
  mark : Nat
  must : Bool
deriving Repr, DecidableEq

/-- one iteration of the `for _, p := range rawOutbound.Params` loop -/
def paramStep (o : POut) (p : List Nat × List Nat) : Option POut :=
  if p.1 = sMark then
    match parseUint0 32 p.2 with
    | some m => some { o with mark := m }
    | none => none
  else if p.1 = [] then
    if p.2 = sMust then some { o with must := true } else none
  else none

def paramLoop : List (List Nat × List Nat) → POut → Option POut
  | [], o => some o
  | p :: ps, o =>
    match paramStep o p with
    | some o' => paramLoop ps o'
    | none => none

def parseOutbound (f : OFunc) : Option POut := paramLoop f.params ⟨f.name, 0, false⟩

/-- What a rule's outbound text means to the builder: patch, then parse. -/
def ruleOutbound (f : OFunc) : Option POut := parseOutbound (patchRuleOutbound f)
def fallbackOutbound (f : OFunc) : Option POut := parseOutbound (patchFallbackOutbound f)

/-! ## The documented meaning (specification) -/

/-- a parameter is acceptable: `mark: <32-bit number>` or the bare word `must` -/
def paramOk (p : List Nat × List Nat) : Bool :=
  if p.1 = sMark then (parseUint0 32 p.2).isSome
  else p.1 = [] && p.2 = sMust

def isMustParam (p : List Nat × List Nat) : Bool := p.1 = [] && p.2 = sMust

/-- the marks written, in order -/
def marksOf (ps : List (List Nat × List Nat)) : List Nat :=
  ps.filterMap fun p => if p.1 = sMark then parseUint0 32 p.2 else none

/-- Specification of an outbound `name(params)` without any `must_` business: every parameter must be
acceptable; must = the word `must` appears; mark = the last mark written, 0 when none. -/
def plainMeaning (name : List Nat) (ps : List (List Nat × List Nat)) (must0 : Bool) : Option POut :=
  if ps.all paramOk then some ⟨name, (marksOf ps).getLast?.getD 0, must0 || ps.any isMustParam⟩ else none

/-- Specification of a rule's outbound: `must_<n>` is `<n>` with must set (only ONE prefix is removed,
as a prefix), `must_rules` is itself. -/
def ruleMeaning (f : OFunc) : Option POut :=
  if sMustPrefix.isPrefixOf f.name ∧ f.name ≠ sMustRules then plainMeaning (f.name.drop 5) f.params true
  else plainMeaning f.name f.params false

def fallbackMeaning (f : OFunc) : Option POut :=
  if sMustPrefix.isPrefixOf f.name then plainMeaning (f.name.drop 5) f.params true
  else plainMeaning f.name f.params false

/-! ## The group table (`NewControlPlane`: `outboundName2Id`) -/

def indexOfAux (n : List Nat) : List (List Nat) → Nat → Option Nat
  | [], _ => none
  | x :: xs, i => if x = n then some i else indexOfAux n xs (i + 1)

/-- id of a group = its position in `[direct, block, groups in configuration order …]` -/
def indexOf (names : List (List Nat)) (n : List Nat) : Option Nat := indexOfAux n names 0

def hasDup : List (List Nat) → Bool
  | [] => false
  | x :: xs => xs.contains x || hasDup xs

/-- `NewControlPlane`: more than `OutboundUserDefinedMax` (0xFB) outbounds are refused, and so is a
repeated name; otherwise ids are positions. -/
def assignIds (names : List (List Nat)) : Option (List Nat → Option Nat) :=
  if names.length > 0xFB then none
  else if hasDup names then none
  else some (indexOf names)

/-! ## Resolution to what the match set stores -/

/-- `outboundToId` for a rule tail: the reserved word, else the group table (`none` = "outbound (group)
not found"). -/
def resolveRuleOut (name2id : List Nat → Option Nat) (f : OFunc) : Option (DaeVerif.RuleScan.RuleOut Out) :=
  match ruleOutbound f with
  | none => none
  | some o =>
    if o.name = sMustRules then some .mustRules
    else match name2id o.name with
      | some id => some (.final ⟨id, o.mark, o.must⟩)
      | none => none

def resolveFallback (name2id : List Nat → Option Nat) (f : OFunc) : Option Out :=
  match fallbackOutbound f with
  | none => none
  | some o =>
    match name2id o.name with
    | some id => some ⟨id, o.mark, o.must⟩
    | none => none

/-! ## A routing section with its outbounds as written -/

/-- a rule whose conditions are typed and whose outbound is text -/
structure TRule where
  first : SCond
  rest : List SCond
  out : OFunc

def resolveRule (name2id : List Nat → Option Nat) (t : TRule) : Option SRule :=
  (resolveRuleOut name2id t.out).map fun o => ⟨t.first, t.rest, o⟩

/-- `RulesBuilder.Apply`'s outbound handling over the whole section: the first unacceptable outbound
fails the build -/
def resolveRules (name2id : List Nat → Option Nat) : List TRule → Option (List SRule)
  | [] => some []
  | t :: ts =>
    match resolveRule name2id t, resolveRules name2id ts with
    | some r, some rs => some (r :: rs)
    | _, _ => none

end DaeVerif.C01
