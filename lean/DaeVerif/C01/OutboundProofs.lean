import DaeVerif.C01.Outbound
/-! Helper lemmas for the outbound model: the parameter loop computes the documented meaning. -/
namespace DaeVerif.C01

theorem paramStep_ok (o : POut) (p : List Nat × List Nat) :
    paramStep o p =
      if paramOk p then
        some ⟨o.name, ((marksOf [p]).getLast?.getD o.mark), o.must || isMustParam p⟩
      else none := by
  unfold paramStep paramOk isMustParam marksOf
  by_cases hk : p.1 = sMark
  · have hne : ¬ p.1 = [] := by rw [hk]; decide
    simp only [hk, if_true, List.filterMap_cons, List.filterMap_nil]
    cases hm : parseUint0 32 p.2 with
    | none => simp
    | some m =>
      have : (sMark = ([] : List Nat)) = False := by simp [sMark]
      simp [this]
  · simp only [hk, if_false, List.filterMap_cons, List.filterMap_nil]
    by_cases he : p.1 = []
    · by_cases hv : p.2 = sMust
      · simp [he, hv]
      · simp [he, hv]
    · simp [he]

theorem marksOf_cons (p : List Nat × List Nat) (ps : List (List Nat × List Nat)) :
    marksOf (p :: ps) = marksOf [p] ++ marksOf ps := by
  unfold marksOf
  simp only [List.filterMap_cons, List.filterMap_nil]
  split <;> simp

theorem getLast_append_getD (a b : List Nat) (d : Nat) :
    (a ++ b).getLast?.getD d = b.getLast?.getD (a.getLast?.getD d) := by
  cases b with
  | nil => simp
  | cons x xs =>
    rw [List.getLast?_append]
    simp [Option.getD, Option.or]
    cases h : (x :: xs).getLast? with
    | none => simp [List.getLast?_eq_none_iff] at h
    | some v => simp

/-- The `ParseOutbound` loop: error iff some parameter is unacceptable; otherwise the last mark wins
and `must` is set iff the word appears (or was already set). -/
theorem paramLoop_meaning (ps : List (List Nat × List Nat)) : ∀ (o : POut),
    paramLoop ps o =
      if ps.all paramOk then
        some ⟨o.name, (marksOf ps).getLast?.getD o.mark, o.must || ps.any isMustParam⟩
      else none := by
  induction ps with
  | nil => intro o; simp [paramLoop, marksOf]
  | cons p ps ih =>
    intro o
    unfold paramLoop
    rw [paramStep_ok]
    by_cases hp : paramOk p = true
    · simp only [hp, if_true, List.all_cons, Bool.true_and]
      rw [ih]
      by_cases hall : ps.all paramOk = true
      · simp only [hall, if_true]
        rw [marksOf_cons p ps, getLast_append_getD]
        simp [List.any_cons, Bool.or_assoc]
      · simp [hall]
    · simp [hp]

theorem paramOk_must : paramOk ([], sMust) = true := by decide
theorem isMustParam_must : isMustParam ([], sMust) = true := by decide
theorem marksOf_must : marksOf [(([] : List Nat), sMust)] = [] := by decide

theorem marksOf_append (a b : List (List Nat × List Nat)) : marksOf (a ++ b) = marksOf a ++ marksOf b := by
  unfold marksOf; simp [List.filterMap_append]

/-- appending the word `must` to the parameters = the same outbound with must set -/
theorem paramLoop_append_must (ps : List (List Nat × List Nat)) (name : List Nat) :
    paramLoop (ps ++ [([], sMust)]) ⟨name, 0, false⟩ = plainMeaning name ps true := by
  rw [paramLoop_meaning]
  unfold plainMeaning
  simp only [List.all_append, List.all_cons, List.all_nil, paramOk_must, Bool.and_true,
    List.any_append, List.any_cons, List.any_nil, isMustParam_must, Bool.or_true, Bool.or_false,
    marksOf_append, marksOf_must, List.append_nil, Bool.true_or]

theorem paramLoop_plain (ps : List (List Nat × List Nat)) (name : List Nat) :
    paramLoop ps ⟨name, 0, false⟩ = plainMeaning name ps false := by
  rw [paramLoop_meaning]; rfl

/-! ### the group table -/

theorem indexOfAux_range (n : List Nat) (xs : List (List Nat)) : ∀ i k,
    indexOfAux n xs i = some k → i ≤ k ∧ k < i + xs.length := by
  induction xs with
  | nil => intro i k h; simp [indexOfAux] at h
  | cons x xs ih =>
    intro i k h
    unfold indexOfAux at h
    split at h
    · cases h; simp
    · have := ih (i + 1) k h
      simp only [List.length_cons]; omega

/-- every id `NewControlPlane` assigns is a user id: below the reserved values 0xFC.. -/
theorem assignIds_range (names : List (List Nat)) (f : List Nat → Option Nat) (h : assignIds names = some f)
    (n : List Nat) (id : Nat) (hid : f n = some id) : id < 0xFB := by
  unfold assignIds at h
  split at h
  · cases h
  · split at h
    · cases h
    · cases h
      rename_i hlen _
      have := indexOfAux_range n names 0 id hid
      omega

theorem resolveRuleOut_range (f : List Nat → Option Nat) (hf : ∀ n id, f n = some id → id < 0xFB)
    (o : OFunc) (out : Out) (h : resolveRuleOut f o = some (.final out)) : out.outbound < 0xFB := by
  unfold resolveRuleOut at h
  split at h
  · cases h
  · split at h
    · cases h
    · split at h
      · rename_i id hid
        cases h
        exact hf _ id hid
      · cases h

theorem resolveFallback_range (f : List Nat → Option Nat) (hf : ∀ n id, f n = some id → id < 0xFB)
    (o : OFunc) (out : Out) (h : resolveFallback f o = some out) : out.outbound < 0xFB := by
  unfold resolveFallback at h
  split at h
  · cases h
  · split at h
    · rename_i id hid
      cases h
      exact hf _ id hid
    · cases h

theorem resolveRules_mem (f : List Nat → Option Nat) (ts : List TRule) : ∀ (rs : List SRule),
    resolveRules f ts = some rs → ∀ r ∈ rs, ∃ t ∈ ts, resolveRule f t = some r := by
  induction ts with
  | nil => intro rs h r hr; simp [resolveRules] at h; subst h; simp at hr
  | cons t ts ih =>
    intro rs h r hr
    unfold resolveRules at h
    split at h
    · rename_i r0 rs0 h1 h2
      cases h
      rcases List.mem_cons.mp hr with rfl | hr'
      · exact ⟨t, List.mem_cons_self, h1⟩
      · obtain ⟨t', ht', hres⟩ := ih rs0 h2 r hr'
        exact ⟨t', List.mem_cons_of_mem _ ht', hres⟩
    · cases h

end DaeVerif.C01
