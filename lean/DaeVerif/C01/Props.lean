import DaeVerif.C01.Proofs
import DaeVerif.C01.Position
import DaeVerif.C01.Encoding
import DaeVerif.C01.OutboundProofs
import DaeVerif.C01.LpmIndexProofs
import DaeVerif.C01.Text
/-!
# C01 — property theorems (first-match routing semantics)
-/
namespace DaeVerif.C01.Props
open DaeVerif.RuleScan DaeVerif.C12 DaeVerif.C01

/-- **Headline.** For every rule list, fallback and packet, running the `Match` loop over the
match-set array the builder emits yields exactly the decision of the first rule, top to bottom,
whose `&&`-joined conditions all hold (values are alternatives, `!` negates the condition,
`must_rules` only sets the must flag and continues, fallback otherwise): outbound, mark and must. -/
theorem match_is_first_match (rules : List SRule) (fb : Out) (p : Pkt) (hp : p.WF)
    (hr : ∀ r ∈ rules, r.WF) :
    matchM (compileProgram rules fb) p = some (firstMatchS p rules fb false) := by
  unfold matchM compileProgram
  rw [scan_lower (evalM p) MCond.fallback rfl fb (rules.map compileRule) false]
  simp only [Option.map_some]
  exact congrArg some (firstMatch_compile p hp rules hr fb false)

/-- **Headline, as the code runs it.** `Match` evaluates a `domain(...)` match set by testing bit `i`
of the domain bitmap, `i` being the loop index, and the builder registers every domain key group
under `RuleIndex = len(b.rules)`: with this position bookkeeping modelled (`matchAt`), the decision is
still the first-match specification. -/
theorem match_by_position_is_first_match (rules : List SRule) (fb : Out) (p : Pkt) (hp : p.WF)
    (hr : ∀ r ∈ rules, r.WF) : matchAt rules fb p = some (firstMatchS p rules fb false) := by
  rw [matchAt_eq_matchM]; exact match_is_first_match rules fb p hp hr

-- non-vacuity: a concrete two-rule program and packet satisfy the hypotheses, and the theorem's
-- right-hand side is the second rule's outbound
def exRules : List SRule :=
  [⟨⟨true, .port true ⟨⟨(80, 80), [(443, 443)]⟩, []⟩⟩, [], .final ⟨2, 7, false⟩⟩,
   ⟨⟨false, .ip true ⟨⟨⟨true, mapped4 0x0a000000, 8⟩, []⟩, []⟩⟩, [⟨false, .l4proto ⟨⟨1, []⟩, []⟩⟩], .mustRules⟩,
   ⟨⟨false, .mac ⟨⟨0x0242ac110002, []⟩, []⟩⟩, [], .final ⟨3, 0, false⟩⟩]
def exPkt : Pkt := ⟨mapped4 0xc0a80001, mapped4 0x0a010203, 40000, 80, 1, 1,
  [0x63,0x75,0x72,0x6c,0,0,0,0,0,0,0,0,0,0,0,0], 0, 0x0242ac110002, []⟩
example : exPkt.WF ∧ (∀ r ∈ exRules, r.WF) ∧
    matchM (compileProgram exRules ⟨0, 0, false⟩) exPkt = some ⟨3, 0, true⟩ := by
  refine ⟨by unfold Pkt.WF exPkt mapped4; decide, ?_, by decide⟩
  intro r hr
  simp only [exRules, List.mem_cons, List.not_mem_nil, or_false] at hr
  rcases hr with rfl | rfl | rfl <;> intro c hc <;>
    simp only [List.mem_cons, List.not_mem_nil, or_false] at hc
  · subst hc; trivial
  · rcases hc with rfl | rfl
    · intro g hg pr hpr
      simp only [NE.toList, List.mem_cons, List.not_mem_nil, or_false] at hg hpr
      subst hg; simp only [List.not_mem_nil, or_false] at hpr; subst hpr
      unfold Prefix.WF mapped4; decide
    · intro g hg b hb
      simp only [NE.toList, List.mem_cons, List.not_mem_nil, or_false] at hg hb
      subst hg; simp only [List.not_mem_nil, or_false] at hb; subst hb; decide
  · subst hc
    intro g hg m hm
    simp only [NE.toList, List.mem_cons, List.not_mem_nil, or_false] at hg hm
    subst hg; simp only [List.not_mem_nil, or_false] at hm; subst hm; decide

/-- Every compiled condition (an OR-chain of match sets plus the chain's negation) means exactly
what the source condition says — CIDR containment with IPv4 as IPv4-mapped, inclusive port ranges,
tcp/udp and 4/6 sets, exact MAC, exact DSCP, process name on 16 bytes, domain bit. -/
theorem condition_meaning (p : Pkt) (hp : p.WF) (c : SCond) (hc : c.body.WF) :
    condHolds (evalM p) (compileCond c) = scondHolds p c := cond_correct p hp c hc

/-- Inclusive port ranges: both boundaries match, their outer neighbours do not. -/
theorem port_range_inclusive (p : Pkt) (lo hi : Nat) :
    bodyHolds p (.port true ⟨⟨(lo, hi), []⟩, []⟩) = decide (lo ≤ p.dport ∧ p.dport ≤ hi) := by
  simp [bodyHolds, NE.toList]

/-- A negated MAC condition never matches a frame without a MAC (zero MAC), whatever the list. -/
theorem negated_mac_never_matches_zero_mac (p : Pkt) (gs : NE (NE Nat)) (h0 : p.mac = 0) :
    scondHolds p ⟨true, .mac gs⟩ = false := by
  simp [scondHolds, h0]

/-- … and otherwise is the plain negation of "the MAC is in the list". -/
theorem negated_mac_nonzero (p : Pkt) (gs : NE (NE Nat)) (h0 : p.mac ≠ 0) :
    scondHolds p ⟨true, .mac gs⟩ = !((gs.toList.flatMap NE.toList).any fun m => p.mac == m) := by
  simp [scondHolds, bodyHolds, h0]

/-- The process name is compared only when one is known (first byte non-zero). -/
theorem pname_unknown_never_matches (p : Pkt) (gs : NE (NE (List Nat))) (h0 : p.pname.headD 0 = 0) :
    bodyHolds p (.pname gs) = false := by
  simp only [bodyHolds, h0]
  simp

/-- An l4proto / ipversion condition whose literals are all unknown never matches (and its negation
always does). -/
theorem unknown_literals_never_match (p : Pkt) (gs : NE (NE Nat))
    (h : ∀ g ∈ gs.toList, ∀ b ∈ g.toList, b = 0) :
    bodyHolds p (.l4proto gs) = false ∧ bodyHolds p (.ipversion gs) = false := by
  constructor <;>
  · simp only [bodyHolds, any_flatMap', List.any_eq_false, List.any_eq_true, not_exists, not_and]
    intro g hg b hb
    simp [h g hg b hb]

/-- IPv4 destinations are matched in IPv4-mapped form: `dip(a.b.c.d/n)` holds iff the packet's
destination is `::ffff:x` with `x` inside the IPv4 prefix. -/
theorem dip_ipv4_mapped (p : Pkt) (net bits x : Nat) (hb : bits ≤ 32) (hd : p.dst = mapped4 x) :
    bodyHolds p (.ip true ⟨⟨⟨true, mapped4 net, bits⟩, []⟩, []⟩) = decide (x / 2 ^ (32 - bits) = net / 2 ^ (32 - bits)) := by
  simp only [bodyHolds, NE.toList, List.flatMap_cons, List.flatMap_nil, List.append_nil, List.any_cons,
    List.any_nil, Bool.or_false, if_true, hd]
  rw [Bool.eq_iff_iff]; simp only [decide_eq_true_eq]
  exact C12.Props.ipv4_as_mapped net bits x hb

/-- `must_rules` only sets the must flag and continues with the next rule. -/
theorem must_rules_continues (p : Pkt) (r : SRule) (rs : List SRule) (fb : Out) (must : Bool)
    (hh : sruleHolds p r = true) (ho : r.out = .mustRules) :
    firstMatchS p (r :: rs) fb must = firstMatchS p rs fb true := by
  simp [firstMatchS, hh, ho]

/-- A rule that does not hold is skipped without any effect. -/
theorem non_matching_rule_skipped (p : Pkt) (r : SRule) (rs : List SRule) (fb : Out) (must : Bool)
    (hh : sruleHolds p r = false) : firstMatchS p (r :: rs) fb must = firstMatchS p rs fb must := by
  simp [firstMatchS, hh]

/-- The first holding final rule decides: its outbound and mark, must = own flag or an earlier
`must_rules`. -/
theorem first_final_decides (p : Pkt) (r : SRule) (rs : List SRule) (fb o : Out) (must : Bool)
    (hh : sruleHolds p r = true) (ho : r.out = .final o) :
    firstMatchS p (r :: rs) fb must = { o with must := o.must || must } := by
  simp [firstMatchS, hh, ho]

/-! ## The byte-encoded array (what `Match` really walks) -/

/-- **Headline on the byte form.** With every rule's and the fallback's outbound id at most
`OutboundUserDefinedMax` (0xFB) — which `NewControlPlane` guarantees by refusing more outbounds than
that — the `Match` loop over the array with its tails stored as ONE byte (user id / 0xFC `must_rules`
/ 0xFE OR / 0xFF AND, recovered by the two mask tests of the code) decides as the first-match
specification. -/
theorem match_bytes_is_first_match (rules : List SRule) (fb : Out) (p : Pkt) (hp : p.WF)
    (hr : ∀ r ∈ rules, r.WF) (ho : OutsOk rules fb) :
    matchBytes rules fb p = some (firstMatchS p rules fb false) := by
  unfold matchBytes
  rw [scanB_encode (evalM p) _ (tailOk_compileProgram rules fb ho)]
  exact match_is_first_match rules fb p hp hr

/-- The hypothesis is necessary: an outbound id inside the reserved range changes the structure of
the program.  Rule `dport(80) -> <outbound 0xFC>` is read back as `-> must_rules`: a packet to port 80
is sent to the fallback (with must set) instead of outbound 0xFC. -/
theorem outbound_in_reserved_range_misroutes :
    let rules : List SRule := [⟨⟨false, .port true ⟨⟨(80, 80), []⟩, []⟩⟩, [], .final ⟨0xFC, 0, false⟩⟩]
    let p : Pkt := ⟨0, 0, 1, 80, 1, 1, List.replicate 16 0, 0, 0, []⟩
    matchBytes rules ⟨0, 0, false⟩ p = some ⟨0, 0, true⟩ ∧
    firstMatchS p rules ⟨0, 0, false⟩ false = ⟨0xFC, 0, false⟩ := by
  decide

-- non-vacuity of `OutsOk`: the example program above (outbounds 2, 3, fallback 0)
example : OutsOk exRules ⟨0, 0, false⟩ := by
  refine ⟨by decide, ?_⟩
  intro r hr o ho
  simp only [exRules, List.mem_cons, List.not_mem_nil, or_false] at hr
  rcases hr with rfl | rfl | rfl <;> simp at ho <;> subst ho <;> decide

/-! ## `Route`'s marshalling -/

/-- `ipversion(4)` holds for a packet as `Route` marshals it iff the destination is an IPv4 address or
an IPv4-mapped IPv6 address; `ipversion(6)` iff it is neither (exactly one of the two always holds). -/
theorem route_ipversion_condition (a : RouteArgs) (hd : a.dstIs4 = true → a.dst < 2 ^ 32) :
    (bodyHolds (pktOfRoute a) (.ipversion ⟨⟨1, []⟩, []⟩) = true ↔
      (a.dstIs4 = true ∨ a.dst / 2 ^ 32 = 0xffff)) ∧
    (bodyHolds (pktOfRoute a) (.ipversion ⟨⟨2, []⟩, []⟩) = true ↔
      ¬ (a.dstIs4 = true ∨ a.dst / 2 ^ 32 = 0xffff)) := by
  have hm : ∀ x, x < 2 ^ 32 → mapped4 x / 2 ^ 32 = 0xffff := by
    intro x hx; unfold mapped4; omega
  cases h4 : a.dstIs4
  · by_cases hv : a.dst / 2 ^ 32 = 0xffff <;>
      simp [bodyHolds, NE.toList, pktOfRoute, routeIpVersion, as16, h4, hv]
  · have := hm a.dst (hd h4)
    simp [bodyHolds, NE.toList, pktOfRoute, routeIpVersion, as16, h4, this]

/-- A packet as `Route` marshals it is well-formed (so the headline theorems apply to every call of
`Route` with 4- or 16-byte addresses, a 6-byte MAC and l4 ∈ {tcp, udp}). -/
theorem route_packet_wf (a : RouteArgs) (hs4 : a.srcIs4 = true → a.src < 2 ^ 32)
    (hs6 : a.srcIs4 = false → a.src < 2 ^ 128) (hd4 : a.dstIs4 = true → a.dst < 2 ^ 32)
    (hd6 : a.dstIs4 = false → a.dst < 2 ^ 128) (hm : a.mac6 < 2 ^ 48) (hl : a.l4 = 1 ∨ a.l4 = 2) :
    (pktOfRoute a).WF := by
  have hm4 : ∀ x, x < 2 ^ 32 → mapped4 x < 2 ^ 128 := by intro x hx; unfold mapped4; omega
  refine ⟨?_, ?_, hm, hl, ?_⟩
  · simp only [pktOfRoute, as16]; cases h : a.srcIs4
    · simpa [h] using hs6 h
    · simpa [h] using hm4 _ (hs4 h)
  · simp only [pktOfRoute, as16]; cases h : a.dstIs4
    · simpa [h] using hd6 h
    · simpa [h] using hm4 _ (hd4 h)
  · simp only [pktOfRoute, routeIpVersion]; split <;> simp

/-- End to end from `Route`'s arguments: the decision is the first-match specification evaluated on
the marshalled packet. -/
theorem route_is_first_match (rules : List SRule) (fb : Out) (a : RouteArgs)
    (hs4 : a.srcIs4 = true → a.src < 2 ^ 32) (hs6 : a.srcIs4 = false → a.src < 2 ^ 128)
    (hd4 : a.dstIs4 = true → a.dst < 2 ^ 32) (hd6 : a.dstIs4 = false → a.dst < 2 ^ 128)
    (hm : a.mac6 < 2 ^ 48) (hl : a.l4 = 1 ∨ a.l4 = 2)
    (hr : ∀ r ∈ rules, r.WF) (ho : OutsOk rules fb) :
    matchBytes rules fb (pktOfRoute a) = some (firstMatchS (pktOfRoute a) rules fb false) :=
  match_bytes_is_first_match rules fb _ (route_packet_wf a hs4 hs6 hd4 hd6 hm hl) hr ho

/-! ## The documented special cases, at the compiled level
(the same facts as above, stated about what `Match` evaluates, via `condition_meaning`) -/

theorem compiled_negated_mac_never_matches_zero_mac (p : Pkt) (hp : p.WF) (gs : NE (NE Nat))
    (hg : ∀ g ∈ gs.toList, ∀ m ∈ g.toList, m < 2 ^ 48) (h0 : p.mac = 0) :
    condHolds (evalM p) (compileCond ⟨true, .mac gs⟩) = false := by
  rw [condition_meaning p hp ⟨true, .mac gs⟩ hg]; exact negated_mac_never_matches_zero_mac p gs h0

theorem compiled_pname_unknown_never_matches (p : Pkt) (hp : p.WF) (gs : NE (NE (List Nat)))
    (h0 : p.pname.headD 0 = 0) : condHolds (evalM p) (compileCond ⟨false, .pname gs⟩) = false := by
  rw [condition_meaning p hp ⟨false, .pname gs⟩ trivial]
  simp [scondHolds, pname_unknown_never_matches p gs h0]

theorem compiled_port_range_inclusive (p : Pkt) (hp : p.WF) (lo hi : Nat) :
    condHolds (evalM p) (compileCond ⟨false, .port true ⟨⟨(lo, hi), []⟩, []⟩⟩) =
      decide (lo ≤ p.dport ∧ p.dport ≤ hi) := by
  rw [condition_meaning p hp ⟨false, .port true ⟨⟨(lo, hi), []⟩, []⟩⟩ trivial]
  simp [scondHolds, port_range_inclusive]

/-- the first rule decides when it holds and is final — on the compiled program -/
theorem compiled_first_final_decides (p : Pkt) (hp : p.WF) (r : SRule) (rs : List SRule) (fb o : Out)
    (hr : ∀ x ∈ r :: rs, x.WF) (hh : sruleHolds p r = true) (ho : r.out = .final o) :
    matchM (compileProgram (r :: rs) fb) p = some o := by
  rw [match_is_first_match _ fb p hp hr, first_final_decides p r rs fb o false hh ho]
  simp

/-! ## LPM slots: address and MAC match sets read through `lpmIndex` -/

/-- **Headline with every indirection of the code in place.** The builder assigns each `ip` / `sip` /
`mac` match set an LPM slot (address sets canonicalised and shared through the hash map `lpmDedup`, a
hash hit verified by comparison; MAC sets never shared) and `Match` queries the slot by index, domain
sets by position.  Whatever the hash function — collisions included — the decision is the first-match
specification. -/
theorem match_by_lpm_index_is_first_match (hash : List Prefix → Nat) (rules : List SRule) (fb : Out)
    (p : C01.Pkt) (hp : p.WF) (hr : ∀ r ∈ rules, r.WF) :
    matchL hash rules fb p = some (firstMatchS p rules fb false) := by
  rw [matchL_eq_matchM]; exact match_is_first_match rules fb p hp hr

-- non-vacuity, with the WORST hash function (everything collides): two different address sets and a
-- repeated one (under the other direction); the repeated set shares slot 0, the colliding one gets its own
example :
    let rules : List SRule :=
      [⟨⟨false, .ip true ⟨⟨⟨true, mapped4 0x0a000000, 8⟩, []⟩, []⟩⟩, [], .final ⟨2, 0, false⟩⟩,
       ⟨⟨false, .ip false ⟨⟨⟨true, mapped4 0x0a000000, 8⟩, []⟩, []⟩⟩, [], .final ⟨3, 0, false⟩⟩,
       ⟨⟨false, .ip false ⟨⟨⟨true, mapped4 0x0b000000, 8⟩, []⟩, []⟩⟩, [], .final ⟨4, 0, false⟩⟩]
    (buildL (fun _ => 0) rules ⟨0, 0, false⟩).idxs = [some 0, some 0, some 1, none] ∧
    matchL (fun _ => 0) rules ⟨0, 0, false⟩
      ⟨mapped4 0x0b010203, mapped4 0x01010101, 1, 2, 1, 1, List.replicate 16 0, 0, 0, []⟩ = some ⟨4, 0, false⟩ := by
  decide

/-- The "bad lpm index" error branch of `Match` is unreachable on a built program. -/
theorem lpm_index_in_range (hash : List Prefix → Nat) (rules : List SRule) (fb : Out) (j k : Nat)
    (hj : j < (compileProgram rules fb).length)
    (hk : (buildL hash rules fb).idxs.getD j none = some k) :
    k < (buildL hash rules fb).tries.length := C01.lpm_index_in_range hash rules fb j k hj hk

/-- Two match sets read the same LPM slot only when they list the same (canonical) set. -/
theorem shared_slot_same_set (hash : List Prefix → Nat) (rules : List SRule) (fb : Out) (i j k : Nat)
    (hi : i < (compileProgram rules fb).length) (hj : j < (compileProgram rules fb).length)
    (ps qs : List Prefix)
    (hci : slotOf (compileProgram rules fb)[i].cond = some ps)
    (hcj : slotOf (compileProgram rules fb)[j].cond = some qs)
    (hki : (buildL hash rules fb).idxs.getD i none = some k)
    (hkj : (buildL hash rules fb).idxs.getD j none = some k) : ps = qs :=
  C01.shared_slot_same_set hash rules fb i j k hi hj ps qs hci hcj hki hkj

/-! ## The outbound as written: `must_` prefix, `(must)`, `mark:` -/

/-- `patchMustOutbound` + `ParseOutbound` on a rule's outbound compute the documented meaning: the
name with ONE `must_` prefix removed (as a prefix; `must_rules` is reserved), must = prefix or the word
`must`, mark = the last `mark:` written (a 32-bit number in Go's base-0 syntax), and an error exactly
when some parameter is neither. -/
theorem rule_outbound_meaning (f : OFunc) : ruleOutbound f = ruleMeaning f := by
  by_cases hp : sMustPrefix.isPrefixOf f.name = true
  · by_cases hr : f.name = sMustRules
    · have e1 : patchRuleOutbound f = f := by unfold patchRuleOutbound; rw [if_pos hp, if_pos hr]
      have e2 : ruleMeaning f = plainMeaning f.name f.params false := by
        unfold ruleMeaning; rw [if_neg]; exact fun h => h.2 hr
      unfold ruleOutbound; rw [e1, e2]; unfold parseOutbound; exact paramLoop_plain _ _
    · have e1 : patchRuleOutbound f = ⟨f.name.drop 5, f.params ++ [([], sMust)]⟩ := by
        unfold patchRuleOutbound; rw [if_pos hp, if_neg hr]
      have e2 : ruleMeaning f = plainMeaning (f.name.drop 5) f.params true := by
        unfold ruleMeaning; rw [if_pos]; exact ⟨hp, hr⟩
      unfold ruleOutbound; rw [e1, e2]; unfold parseOutbound; exact paramLoop_append_must _ _
  · have e1 : patchRuleOutbound f = f := by unfold patchRuleOutbound; rw [if_neg hp]
    have e2 : ruleMeaning f = plainMeaning f.name f.params false := by
      unfold ruleMeaning; rw [if_neg]; exact fun h => hp h.1
    unfold ruleOutbound; rw [e1, e2]; unfold parseOutbound; exact paramLoop_plain _ _

/-- … and on the fallback (where `must_rules` has no special reading). -/
theorem fallback_outbound_meaning (f : OFunc) : fallbackOutbound f = fallbackMeaning f := by
  by_cases hp : sMustPrefix.isPrefixOf f.name = true
  · have e1 : patchFallbackOutbound f = ⟨f.name.drop 5, f.params ++ [([], sMust)]⟩ := by
      unfold patchFallbackOutbound; rw [if_pos hp]
    have e2 : fallbackMeaning f = plainMeaning (f.name.drop 5) f.params true := by
      unfold fallbackMeaning; rw [if_pos hp]
    unfold fallbackOutbound; rw [e1, e2]; unfold parseOutbound; exact paramLoop_append_must _ _
  · have e1 : patchFallbackOutbound f = f := by unfold patchFallbackOutbound; rw [if_neg hp]
    have e2 : fallbackMeaning f = plainMeaning f.name f.params false := by
      unfold fallbackMeaning; rw [if_neg hp]
    unfold fallbackOutbound; rw [e1, e2]; unfold parseOutbound; exact paramLoop_plain _ _

/-- `must_<n>(ps)` is `<n>(ps)` with must set — whatever `<n>` begins with (the prefix is removed once,
as a prefix, not as a set of characters). -/
theorem must_prefix_sets_must (n : List Nat) (ps : List (List Nat × List Nat))
    (hn : sMustPrefix ++ n ≠ sMustRules) :
    ruleOutbound ⟨sMustPrefix ++ n, ps⟩ = plainMeaning n ps true := by
  rw [rule_outbound_meaning]
  unfold ruleMeaning
  have h1 : sMustPrefix.isPrefixOf (sMustPrefix ++ n) = true := by
    rw [List.isPrefixOf_iff_prefix]; exact List.prefix_append _ _
  have h2 : (sMustPrefix ++ n).drop 5 = n := by
    have : sMustPrefix.length = 5 := rfl
    rw [← this, List.drop_left]
  simp only [h1, hn, ne_eq, not_false_eq_true, and_self, if_true, h2]

-- non-vacuity: `must_us_proxy(mark: 0x10)` is `us_proxy` with must and mark 16 — the name keeps its
-- own leading `u`, `s`, `_`
example : ruleOutbound ⟨sMustPrefix ++ [117, 115, 95, 112], [(sMark, [48, 120, 49, 48])]⟩ =
    some ⟨[117, 115, 95, 112], 16, true⟩ := by decide

/-- `must_rules` stays `must_rules` (it is not the group `rules` with must). -/
theorem must_rules_reserved (ps : List (List Nat × List Nat)) :
    ruleOutbound ⟨sMustRules, ps⟩ = plainMeaning sMustRules ps false := by
  rw [rule_outbound_meaning]
  unfold ruleMeaning
  have : ¬ (sMustPrefix.isPrefixOf sMustRules = true ∧ sMustRules ≠ sMustRules) := fun h => h.2 rfl
  simp only [this, if_false]

/-- the last mark written wins; `must` anywhere among the parameters sets must -/
theorem last_mark_wins (name : List Nat) (ps : List (List Nat × List Nat)) (v : List Nat) (m : Nat)
    (hps : ps.all paramOk = true) (hv : parseUint0 32 v = some m) :
    plainMeaning name (ps ++ [(sMark, v)]) false = some ⟨name, m, ps.any isMustParam⟩ := by
  have hok : paramOk (sMark, v) = true := by simp [paramOk, hv]
  have hnm : isMustParam (sMark, v) = false := by simp [isMustParam, sMark]
  have hmk : marksOf [(sMark, v)] = [m] := by simp [marksOf, hv]
  unfold plainMeaning
  simp only [List.all_append, hps, List.all_cons, hok, List.all_nil, Bool.and_self, if_true,
    marksOf_append, hmk, List.any_append, List.any_cons, hnm, List.any_nil, Bool.or_false, Bool.false_or]
  simp

example : (([] : List (List Nat × List Nat)).all paramOk = true) ∧ parseUint0 32 [48, 55, 55] = some 63 := by decide

/-! ## The group table and the reserved outbound values -/

/-- Every id `NewControlPlane` assigns (it refuses more than 0xFB outbounds) is below the reserved
values, so a routing section resolved through that table satisfies the hypothesis `OutsOk` of
`match_bytes_is_first_match`: the one-byte tails can never be misread. -/
theorem resolved_program_outs_ok (names : List (List Nat)) (n2i : List Nat → Option Nat)
    (hn : assignIds names = some n2i) (ts : List TRule) (tfb : OFunc) (rules : List SRule) (fb : Out)
    (hr : resolveRules n2i ts = some rules) (hf : resolveFallback n2i tfb = some fb) : OutsOk rules fb := by
  have hrange := assignIds_range names n2i hn
  refine ⟨Nat.le_of_lt (by
    have := resolveFallback_range n2i hrange tfb fb hf
    unfold obUserDefinedMax; omega), ?_⟩
  intro r hr' o ho
  obtain ⟨t, _, ht⟩ := resolveRules_mem n2i ts rules hr r hr'
  unfold resolveRule at ht
  cases hres : resolveRuleOut n2i t.out with
  | none => simp [hres] at ht
  | some ro =>
    simp only [hres, Option.map_some, Option.some.injEq] at ht
    subst ht
    simp only at ho
    subst ho
    have := resolveRuleOut_range n2i hrange t.out o hres
    unfold obUserDefinedMax; omega

/-- **End to end from the text of the outbounds and `Route`'s arguments.** For a routing section whose
outbounds are resolved as the code resolves them (`patchMustOutbound`, `ParseOutbound`, the group table
of `NewControlPlane`), the byte-level `Match` loop on the marshalled packet decides as the first-match
specification — no side condition on outbound ids is left. -/
theorem route_text_is_first_match (names : List (List Nat)) (n2i : List Nat → Option Nat)
    (hn : assignIds names = some n2i) (ts : List TRule) (tfb : OFunc) (rules : List SRule) (fb : Out)
    (hrs : resolveRules n2i ts = some rules) (hf : resolveFallback n2i tfb = some fb)
    (a : RouteArgs)
    (hs4 : a.srcIs4 = true → a.src < 2 ^ 32) (hs6 : a.srcIs4 = false → a.src < 2 ^ 128)
    (hd4 : a.dstIs4 = true → a.dst < 2 ^ 32) (hd6 : a.dstIs4 = false → a.dst < 2 ^ 128)
    (hm : a.mac6 < 2 ^ 48) (hl : a.l4 = 1 ∨ a.l4 = 2) (hr : ∀ r ∈ rules, r.WF) :
    matchBytes rules fb (pktOfRoute a) = some (firstMatchS (pktOfRoute a) rules fb false) :=
  route_is_first_match rules fb a hs4 hs6 hd4 hd6 hm hl hr
    (resolved_program_outs_ok names n2i hn ts tfb rules fb hrs hf)

-- non-vacuity: a three-name table, the rule outbound `must_g(mark: 7)`, fallback `direct`
example :
    let names : List (List Nat) := [[100], [98], [103]]
    (assignIds names).isSome = true ∧
    (match resolveRuleOut (indexOf names) ⟨sMustPrefix ++ [103], [(sMark, [55])]⟩ with
      | some (.final o) => o == ⟨2, 7, true⟩
      | _ => false) = true ∧
    resolveFallback (indexOf names) ⟨[100], []⟩ = some ⟨0, 0, false⟩ := by
  decide

/-- the group table refuses more than 0xFB outbounds … -/
theorem group_table_refuses_too_many (names : List (List Nat)) (h : names.length > 0xFB) :
    assignIds names = none := by
  unfold assignIds; rw [if_pos h]

/-- … and accepts every table of at most 0xFB distinct names, ids being positions -/
theorem group_table_accepts (names : List (List Nat)) (h : names.length ≤ 0xFB) (hd : hasDup names = false) :
    assignIds names = some (indexOf names) := by
  unfold assignIds; rw [if_neg (by omega), hd]; rfl

example : hasDup [[100], [98], [103]] = false ∧ indexOf [[100], [98], [103]] [103] = some 2 := by decide

/-! ## Values as written -/

/-- ports: `A` is `A-A`; decimal only, leading zeros ignored (no octal reading); both ends within 16 bits -/
theorem port_text_single (s : List Nat) (h : (splitFirst 45 s).2 = none) :
    parsePortRange s = (portField s).map fun lo => (lo, lo) := parsePortRange_single s h

theorem port_text_bounds (s : List Nat) (lo hi : Nat) (h : parsePortRange s = some (lo, hi)) :
    lo ≤ 0xffff ∧ hi ≤ 0xffff := parsePortRange_bounds s lo hi h

theorem port_text_leading_zero (s : List Nat) (hs : s ≠ []) : decDigits (48 :: s) = decDigits s :=
  decDigits_leading_zero s hs

/-- the notation at its corners: `080` is eighty, `0-65535` everything, `65536`, `80-` and `0x50` are
refused; DSCP is read with Go's base-0 syntax, so `010` is eight (octal), `0x2e` forty-six, `256` refused;
MACs are six two-digit hex fields in either letter case -/
theorem value_text_examples :
    parsePortRange [48, 56, 48] = some (80, 80) ∧
    parsePortRange [48, 45, 54, 53, 53, 51, 53] = some (0, 65535) ∧
    parsePortRange [54, 53, 53, 51, 54] = none ∧
    parsePortRange [56, 48, 45] = none ∧
    parsePortRange [48, 120, 53, 48] = none ∧
    parseDscp [48, 49, 48] = some 8 ∧
    parseDscp [48, 120, 50, 101] = some 46 ∧
    parseDscp [50, 53, 54] = none ∧
    parseMac [48, 50, 58, 52, 50, 58, 65, 99, 58, 49, 49, 58, 48, 48, 58, 48, 50] = some 0x0242ac110002 ∧
    parseMac [50, 58, 52, 50, 58, 65, 99, 58, 49, 49, 58, 48, 48, 58, 48, 50] = none := by
  decide

end DaeVerif.C01.Props
