import DaeVerif.C01.Proofs
import DaeVerif.C01.Position
import DaeVerif.C01.Encoding
/-!
# C01 — property theorems (first-match routing semantics)
-/
namespace DaeVerif.C01.Props
open DaeVerif.RuleScan DaeVerif.C12 DaeVerif.C01

/-- **Headline.** For every rule list, fallback and packet, running the `Match` loop over the
match-set array the builder emits yields exactly the decision of the first rule, top to bottom,
whose `&&`-joined conditions all hold (values are alternatives, `!` negates the condition,
`must_rules` only sets the must flag and continues, fallback otherwise): outbound, mark and must. -/
theorem match_is_first_match (rules : List SRule) (fb : Out) (p : Pkt) (hp : p.WF)
    (hr : ∀ r ∈ rules, r.WF) :
    matchM (compileProgram rules fb) p = some (firstMatchS p rules fb false) := by
  unfold matchM compileProgram
  rw [scan_lower (evalM p) MCond.fallback rfl fb (rules.map compileRule) false]
  simp only [Option.map_some]
  exact congrArg some (firstMatch_compile p hp rules hr fb false)

/-- **Headline, as the code runs it.** `Match` evaluates a `domain(...)` match set by testing bit `i`
of the domain bitmap, `i` being the loop index, and the builder registers every domain key group
under `RuleIndex = len(b.rules)`: with this position bookkeeping modelled (`matchAt`), the decision is
still the first-match specification. -/
theorem match_by_position_is_first_match (rules : List SRule) (fb : Out) (p : Pkt) (hp : p.WF)
    (hr : ∀ r ∈ rules, r.WF) : matchAt rules fb p = some (firstMatchS p rules fb false) := by
  rw [matchAt_eq_matchM]; exact match_is_first_match rules fb p hp hr

-- non-vacuity: a concrete two-rule program and packet satisfy the hypotheses, and the theorem's
-- right-hand side is the second rule's outbound
def exRules : List SRule :=
  [⟨⟨true, .port true ⟨⟨(80, 80), [(443, 443)]⟩, []⟩⟩, [], .final ⟨2, 7, false⟩⟩,
   ⟨⟨false, .ip true ⟨⟨⟨true, mapped4 0x0a000000, 8⟩, []⟩, []⟩⟩, [⟨false, .l4proto ⟨⟨1, []⟩, []⟩⟩], .mustRules⟩,
   ⟨⟨false, .mac ⟨⟨0x0242ac110002, []⟩, []⟩⟩, [], .final ⟨3, 0, false⟩⟩]
def exPkt : Pkt := ⟨mapped4 0xc0a80001, mapped4 0x0a010203, 40000, 80, 1, 1,
  [0x63,0x75,0x72,0x6c,0,0,0,0,0,0,0,0,0,0,0,0], 0, 0x0242ac110002, []⟩
example : exPkt.WF ∧ (∀ r ∈ exRules, r.WF) ∧
    matchM (compileProgram exRules ⟨0, 0, false⟩) exPkt = some ⟨3, 0, true⟩ := by
  refine ⟨by unfold Pkt.WF exPkt mapped4; decide, ?_, by decide⟩
  intro r hr
  simp only [exRules, List.mem_cons, List.not_mem_nil, or_false] at hr
  rcases hr with rfl | rfl | rfl <;> intro c hc <;>
    simp only [List.mem_cons, List.not_mem_nil, or_false] at hc
  · subst hc; trivial
  · rcases hc with rfl | rfl
    · intro g hg pr hpr
      simp only [NE.toList, List.mem_cons, List.not_mem_nil, or_false] at hg hpr
      subst hg; simp only [List.not_mem_nil, or_false] at hpr; subst hpr
      unfold Prefix.WF mapped4; decide
    · intro g hg b hb
      simp only [NE.toList, List.mem_cons, List.not_mem_nil, or_false] at hg hb
      subst hg; simp only [List.not_mem_nil, or_false] at hb; subst hb; decide
  · subst hc
    intro g hg m hm
    simp only [NE.toList, List.mem_cons, List.not_mem_nil, or_false] at hg hm
    subst hg; simp only [List.not_mem_nil, or_false] at hm; subst hm; decide

/-- Every compiled condition (an OR-chain of match sets plus the chain's negation) means exactly
what the source condition says — CIDR containment with IPv4 as IPv4-mapped, inclusive port ranges,
tcp/udp and 4/6 sets, exact MAC, exact DSCP, process name on 16 bytes, domain bit. -/
theorem condition_meaning (p : Pkt) (hp : p.WF) (c : SCond) (hc : c.body.WF) :
    condHolds (evalM p) (compileCond c) = scondHolds p c := cond_correct p hp c hc

/-- Inclusive port ranges: both boundaries match, their outer neighbours do not. -/
theorem port_range_inclusive (p : Pkt) (lo hi : Nat) :
    bodyHolds p (.port true ⟨⟨(lo, hi), []⟩, []⟩) = decide (lo ≤ p.dport ∧ p.dport ≤ hi) := by
  simp [bodyHolds, NE.toList]

/-- A negated MAC condition never matches a frame without a MAC (zero MAC), whatever the list. -/
theorem negated_mac_never_matches_zero_mac (p : Pkt) (gs : NE (NE Nat)) (h0 : p.mac = 0) :
    scondHolds p ⟨true, .mac gs⟩ = false := by
  simp [scondHolds, h0]

/-- … and otherwise is the plain negation of "the MAC is in the list". -/
theorem negated_mac_nonzero (p : Pkt) (gs : NE (NE Nat)) (h0 : p.mac ≠ 0) :
    scondHolds p ⟨true, .mac gs⟩ = !((gs.toList.flatMap NE.toList).any fun m => p.mac == m) := by
  simp [scondHolds, bodyHolds, h0]

/-- The process name is compared only when one is known (first byte non-zero). -/
theorem pname_unknown_never_matches (p : Pkt) (gs : NE (NE (List Nat))) (h0 : p.pname.headD 0 = 0) :
    bodyHolds p (.pname gs) = false := by
  simp only [bodyHolds, h0]
  simp

/-- An l4proto / ipversion condition whose literals are all unknown never matches (and its negation
always does). -/
theorem unknown_literals_never_match (p : Pkt) (gs : NE (NE Nat))
    (h : ∀ g ∈ gs.toList, ∀ b ∈ g.toList, b = 0) :
    bodyHolds p (.l4proto gs) = false ∧ bodyHolds p (.ipversion gs) = false := by
  constructor <;>
  · simp only [bodyHolds, any_flatMap', List.any_eq_false, List.any_eq_true, not_exists, not_and]
    intro g hg b hb
    simp [h g hg b hb]

/-- IPv4 destinations are matched in IPv4-mapped form: `dip(a.b.c.d/n)` holds iff the packet's
destination is `::ffff:x` with `x` inside the IPv4 prefix. -/
theorem dip_ipv4_mapped (p : Pkt) (net bits x : Nat) (hb : bits ≤ 32) (hd : p.dst = mapped4 x) :
    bodyHolds p (.ip true ⟨⟨⟨true, mapped4 net, bits⟩, []⟩, []⟩) = decide (x / 2 ^ (32 - bits) = net / 2 ^ (32 - bits)) := by
  simp only [bodyHolds, NE.toList, List.flatMap_cons, List.flatMap_nil, List.append_nil, List.any_cons,
    List.any_nil, Bool.or_false, if_true, hd]
  rw [Bool.eq_iff_iff]; simp only [decide_eq_true_eq]
  exact C12.Props.ipv4_as_mapped net bits x hb

/-- `must_rules` only sets the must flag and continues with the next rule. -/
theorem must_rules_continues (p : Pkt) (r : SRule) (rs : List SRule) (fb : Out) (must : Bool)
    (hh : sruleHolds p r = true) (ho : r.out = .mustRules) :
    firstMatchS p (r :: rs) fb must = firstMatchS p rs fb true := by
  simp [firstMatchS, hh, ho]

/-- A rule that does not hold is skipped without any effect. -/
theorem non_matching_rule_skipped (p : Pkt) (r : SRule) (rs : List SRule) (fb : Out) (must : Bool)
    (hh : sruleHolds p r = false) : firstMatchS p (r :: rs) fb must = firstMatchS p rs fb must := by
  simp [firstMatchS, hh]

/-- The first holding final rule decides: its outbound and mark, must = own flag or an earlier
`must_rules`. -/
theorem first_final_decides (p : Pkt) (r : SRule) (rs : List SRule) (fb o : Out) (must : Bool)
    (hh : sruleHolds p r = true) (ho : r.out = .final o) :
    firstMatchS p (r :: rs) fb must = { o with must := o.must || must } := by
  simp [firstMatchS, hh, ho]

/-! ## The byte-encoded array (what `Match` really walks) -/

/-- **Headline on the byte form.** With every rule's and the fallback's outbound id at most
`OutboundUserDefinedMax` (0xFB) — which `NewControlPlane` guarantees by refusing more outbounds than
that — the `Match` loop over the array with its tails stored as ONE byte (user id / 0xFC `must_rules`
/ 0xFE OR / 0xFF AND, recovered by the two mask tests of the code) decides as the first-match
specification. -/
theorem match_bytes_is_first_match (rules : List SRule) (fb : Out) (p : Pkt) (hp : p.WF)
    (hr : ∀ r ∈ rules, r.WF) (ho : OutsOk rules fb) :
    matchBytes rules fb p = some (firstMatchS p rules fb false) := by
  unfold matchBytes
  rw [scanB_encode (evalM p) _ (tailOk_compileProgram rules fb ho)]
  exact match_is_first_match rules fb p hp hr

/-- The hypothesis is necessary: an outbound id inside the reserved range changes the structure of
the program.  Rule `dport(80) -> <outbound 0xFC>` is read back as `-> must_rules`: a packet to port 80
is sent to the fallback (with must set) instead of outbound 0xFC. -/
theorem outbound_in_reserved_range_misroutes :
    let rules : List SRule := [⟨⟨false, .port true ⟨⟨(80, 80), []⟩, []⟩⟩, [], .final ⟨0xFC, 0, false⟩⟩]
    let p : Pkt := ⟨0, 0, 1, 80, 1, 1, List.replicate 16 0, 0, 0, []⟩
    matchBytes rules ⟨0, 0, false⟩ p = some ⟨0, 0, true⟩ ∧
    firstMatchS p rules ⟨0, 0, false⟩ false = ⟨0xFC, 0, false⟩ := by
  decide

-- non-vacuity of `OutsOk`: the example program above (outbounds 2, 3, fallback 0)
example : OutsOk exRules ⟨0, 0, false⟩ := by
  refine ⟨by decide, ?_⟩
  intro r hr o ho
  simp only [exRules, List.mem_cons, List.not_mem_nil, or_false] at hr
  rcases hr with rfl | rfl | rfl <;> simp at ho <;> subst ho <;> decide

/-! ## `Route`'s marshalling -/

/-- `ipversion(4)` holds for a packet as `Route` marshals it iff the destination is an IPv4 address or
an IPv4-mapped IPv6 address; `ipversion(6)` iff it is neither (exactly one of the two always holds). -/
theorem route_ipversion_condition (a : RouteArgs) (hd : a.dstIs4 = true → a.dst < 2 ^ 32) :
    (bodyHolds (pktOfRoute a) (.ipversion ⟨⟨1, []⟩, []⟩) = true ↔
      (a.dstIs4 = true ∨ a.dst / 2 ^ 32 = 0xffff)) ∧
    (bodyHolds (pktOfRoute a) (.ipversion ⟨⟨2, []⟩, []⟩) = true ↔
      ¬ (a.dstIs4 = true ∨ a.dst / 2 ^ 32 = 0xffff)) := by
  have hm : ∀ x, x < 2 ^ 32 → mapped4 x / 2 ^ 32 = 0xffff := by
    intro x hx; unfold mapped4; omega
  cases h4 : a.dstIs4
  · by_cases hv : a.dst / 2 ^ 32 = 0xffff <;>
      simp [bodyHolds, NE.toList, pktOfRoute, routeIpVersion, as16, h4, hv]
  · have := hm a.dst (hd h4)
    simp [bodyHolds, NE.toList, pktOfRoute, routeIpVersion, as16, h4, this]

/-- A packet as `Route` marshals it is well-formed (so the headline theorems apply to every call of
`Route` with 4- or 16-byte addresses, a 6-byte MAC and l4 ∈ {tcp, udp}). -/
theorem route_packet_wf (a : RouteArgs) (hs4 : a.srcIs4 = true → a.src < 2 ^ 32)
    (hs6 : a.srcIs4 = false → a.src < 2 ^ 128) (hd4 : a.dstIs4 = true → a.dst < 2 ^ 32)
    (hd6 : a.dstIs4 = false → a.dst < 2 ^ 128) (hm : a.mac6 < 2 ^ 48) (hl : a.l4 = 1 ∨ a.l4 = 2) :
    (pktOfRoute a).WF := by
  have hm4 : ∀ x, x < 2 ^ 32 → mapped4 x < 2 ^ 128 := by intro x hx; unfold mapped4; omega
  refine ⟨?_, ?_, hm, hl, ?_⟩
  · simp only [pktOfRoute, as16]; cases h : a.srcIs4
    · simpa [h] using hs6 h
    · simpa [h] using hm4 _ (hs4 h)
  · simp only [pktOfRoute, as16]; cases h : a.dstIs4
    · simpa [h] using hd6 h
    · simpa [h] using hm4 _ (hd4 h)
  · simp only [pktOfRoute, routeIpVersion]; split <;> simp

/-- End to end from `Route`'s arguments: the decision is the first-match specification evaluated on
the marshalled packet. -/
theorem route_is_first_match (rules : List SRule) (fb : Out) (a : RouteArgs)
    (hs4 : a.srcIs4 = true → a.src < 2 ^ 32) (hs6 : a.srcIs4 = false → a.src < 2 ^ 128)
    (hd4 : a.dstIs4 = true → a.dst < 2 ^ 32) (hd6 : a.dstIs4 = false → a.dst < 2 ^ 128)
    (hm : a.mac6 < 2 ^ 48) (hl : a.l4 = 1 ∨ a.l4 = 2)
    (hr : ∀ r ∈ rules, r.WF) (ho : OutsOk rules fb) :
    matchBytes rules fb (pktOfRoute a) = some (firstMatchS (pktOfRoute a) rules fb false) :=
  match_bytes_is_first_match rules fb _ (route_packet_wf a hs4 hs6 hd4 hd6 hm hl) hr ho

/-! ## The documented special cases, at the compiled level
(the same facts as above, stated about what `Match` evaluates, via `condition_meaning`) -/

theorem compiled_negated_mac_never_matches_zero_mac (p : Pkt) (hp : p.WF) (gs : NE (NE Nat))
    (hg : ∀ g ∈ gs.toList, ∀ m ∈ g.toList, m < 2 ^ 48) (h0 : p.mac = 0) :
    condHolds (evalM p) (compileCond ⟨true, .mac gs⟩) = false := by
  rw [condition_meaning p hp ⟨true, .mac gs⟩ hg]; exact negated_mac_never_matches_zero_mac p gs h0

theorem compiled_pname_unknown_never_matches (p : Pkt) (hp : p.WF) (gs : NE (NE (List Nat)))
    (h0 : p.pname.headD 0 = 0) : condHolds (evalM p) (compileCond ⟨false, .pname gs⟩) = false := by
  rw [condition_meaning p hp ⟨false, .pname gs⟩ trivial]
  simp [scondHolds, pname_unknown_never_matches p gs h0]

theorem compiled_port_range_inclusive (p : Pkt) (hp : p.WF) (lo hi : Nat) :
    condHolds (evalM p) (compileCond ⟨false, .port true ⟨⟨(lo, hi), []⟩, []⟩⟩) =
      decide (lo ≤ p.dport ∧ p.dport ≤ hi) := by
  rw [condition_meaning p hp ⟨false, .port true ⟨⟨(lo, hi), []⟩, []⟩⟩ trivial]
  simp [scondHolds, port_range_inclusive]

/-- the first rule decides when it holds and is final — on the compiled program -/
theorem compiled_first_final_decides (p : Pkt) (hp : p.WF) (r : SRule) (rs : List SRule) (fb o : Out)
    (hr : ∀ x ∈ r :: rs, x.WF) (hh : sruleHolds p r = true) (ho : r.out = .final o) :
    matchM (compileProgram (r :: rs) fb) p = some o := by
  rw [match_is_first_match _ fb p hp hr, first_final_decides p r rs fb o false hh ho]
  simp

end DaeVerif.C01.Props
