import DaeVerif.C01.Position
/-!
# C01 — LPM slots: what an address / MAC match set really reads

In the code an `ip` / `sip` / `mac` match set does not carry its prefixes: it carries `lpmIndex`, and
`Match` queries `m.lpmMatcher[lpmIndex]`.  The builder assigns the index while it walks the program:
`addIp` / `addSourceIp` canonicalise the set (sort, drop duplicates) and share one slot between equal
canonical sets through the hash map `lpmDedup` (a hash hit is verified with `prefixesEqual`, a collision
gets a fresh slot), `addSourceMac` always appends a fresh slot.  `BuildUserspace` builds one trie per
slot.

This file runs C12's model of that sharing machine (`C12.Builder`) over the emitted match sets in
program order and evaluates each LPM match set through its index (`matchL`).  `LpmIndexProofs.lean`
proves that this is the position-free model whatever the hash function.  Core-only.
-/
namespace DaeVerif.C01
open DaeVerif.RuleScan DaeVerif.C12

/-- one `add*` call's effect on the LPM bookkeeping: new builder state and the `lpmIndex` written into
the match set (`none` for the match types that have none) -/
def lpmStep (hash : List Prefix → Nat) (b : Builder) : MCond → Builder × Option Nat
  | .ipSet ps => ((b.addSet hash ps).1, some (b.addSet hash ps).2)
  | .srcIpSet ps => ((b.addSet hash ps).1, some (b.addSet hash ps).2)
  | .macSet ps => (⟨b.tries ++ [ps], b.dedup⟩, some b.tries.length)
  | _ => (b, none)

/-- the builder walking the whole emitted array, in order -/
def lpmRun (hash : List Prefix → Nat) : Builder → List (Entry MCond Out) → Builder × List (Option Nat)
  | b, [] => (b, [])
  | b, e :: es =>
    ((lpmRun hash (lpmStep hash b e.cond).1 es).1,
      (lpmStep hash b e.cond).2 :: (lpmRun hash (lpmStep hash b e.cond).1 es).2)

/-- what the slot of a match set has to hold -/
def slotOf : MCond → Option (List Prefix)
  | .ipSet ps => some (canonicalize ps)
  | .srcIpSet ps => some (canonicalize ps)
  | .macSet ps => some ps
  | _ => none

/-- `m.lpmMatcher[lpmIndex]` (a missing slot is the code's "bad lpm index" error; `lpm_indices_in_range`
shows it cannot happen — here it reads as the empty trie) -/
def slotAt (tries : List (List Prefix)) (idx : Option Nat) : List Prefix :=
  match idx with
  | some k => (tries[k]?).getD []
  | none => []

/-- The `switch` of `Match` at loop index `i`, LPM sets through their index, domain sets through the
bitmap bit of their position. -/
def evalL (tries : List (List Prefix)) (idxs : List (Option Nat)) (regs : List (Nat × Nat)) (p : Pkt)
    (i : Nat) (c : MCond) : Bool :=
  match c with
  | .ipSet _ => trieMatch (slotAt tries (idxs.getD i none)) p.dst
  | .srcIpSet _ => trieMatch (slotAt tries (idxs.getD i none)) p.src
  | .macSet _ => trieMatch (slotAt tries (idxs.getD i none)) p.mac
  | .domainSet _ => bitmapBit regs p i
  | c => evalM p c

/-- the built matcher: the array, the `lpmIndex` column, the tries, the domain registrations -/
structure LBuilt where
  entries : List (Entry MCond Out)
  idxs : List (Option Nat)
  tries : List (List Prefix)
  regs : List (Nat × Nat)

def buildL (hash : List Prefix → Nat) (rules : List SRule) (fb : Out) : LBuilt :=
  let es := compileProgram rules fb
  let st := emitAll ⟨[], []⟩ es
  let r := lpmRun hash Builder.empty es
  ⟨st.entries, r.2, r.1.tries, st.regs⟩

def matchBuilt (b : LBuilt) (p : Pkt) : Option Out :=
  (scanIdx (evalL b.tries b.idxs b.regs p) 0 b.entries false false false).map
    fun (o, must) => { o with must := o.must || must }

/-- `Match` with every indirection of the code in place: positions for domain sets, LPM indices for
address and MAC sets. -/
def matchL (hash : List Prefix → Nat) (rules : List SRule) (fb : Out) (p : Pkt) : Option Out :=
  matchBuilt (buildL hash rules fb) p

end DaeVerif.C01
