import DaeVerif.C01.Model
/-!
# C01 — match-set positions

The real `Match` does not read a stored set index for `domain(...)` match sets: it tests bit `i` of
the domain bitmap, where `i` is the loop index, and the builder registers each domain key group with
`RuleIndex: len(b.rules)` at the moment the set is appended.  This file models both (the incremental
builder `emitAll` and the index-aware loop `scanIdx`) and proves that they agree with the
position-free model of `Model.lean`.
-/
namespace DaeVerif.C01
open DaeVerif.RuleScan

/-- Builder state: the match sets appended so far and the registered domain sets
(`simulatedDomainSet`: RuleIndex ↦ key group). -/
structure BState where
  entries : List (Entry MCond Out)
  regs : List (Nat × Nat)

/-- `appendRule`, with `addDomain`'s `RuleIndex: len(b.rules)` registration. -/
def emit (st : BState) (e : Entry MCond Out) : BState :=
  match e.cond with
  | .domainSet g => ⟨st.entries ++ [e], st.regs ++ [(st.entries.length, g)]⟩
  | _ => ⟨st.entries ++ [e], st.regs⟩

def emitAll (st : BState) (es : List (Entry MCond Out)) : BState := es.foldl emit st

/-- Bit `i` of `MatchDomainBitmap(domain)`: some set registered under index `i` matches. -/
def bitmapBit (regs : List (Nat × Nat)) (p : Pkt) (i : Nat) : Bool :=
  regs.any fun r => r.1 == i && p.dom.getD r.2 false

/-- The `switch` of `Match` at loop index `i`. -/
def evalAt (regs : List (Nat × Nat)) (p : Pkt) (i : Nat) (c : MCond) : Bool :=
  match c with
  | .domainSet _ => bitmapBit regs p i
  | c => evalM p c

/-- The `Match` loop with its index. -/
def scanIdx (ev : Nat → MCond → Bool) : Nat → List (Entry MCond Out) → (good bad must : Bool) → Option (Out × Bool)
  | _, [], _, _, _ => none
  | i, e :: es, good, bad, must =>
    let good' := if bad || good then good else ev i e.cond
    match e.tail with
    | .or => scanIdx ev (i + 1) es good' bad must
    | .and => scanIdx ev (i + 1) es false (bad || (good' == e.neg)) must
    | .mustRules =>
      if bad || (good' == e.neg) then scanIdx ev (i + 1) es false false must
      else scanIdx ev (i + 1) es false false true
    | .final o =>
      if bad || (good' == e.neg) then scanIdx ev (i + 1) es false false must
      else some (o, must)

/-- `Match` as the code runs it: built incrementally, evaluated by position. -/
def matchAt (rules : List SRule) (fb : Out) (p : Pkt) : Option Out :=
  let st := emitAll ⟨[], []⟩ (compileProgram rules fb)
  (scanIdx (evalAt st.regs p) 0 st.entries false false false).map fun (o, must) => { o with must := o.must || must }

/-! ## proofs -/

theorem scanIdx_eq_scanAux (ev : Nat → MCond → Bool) (ev' : MCond → Bool) (es : List (Entry MCond Out)) :
    ∀ (i : Nat) (good bad must : Bool),
      (∀ j (hj : j < es.length), ev (i + j) es[j].cond = ev' es[j].cond) →
      scanIdx ev i es good bad must = scanAux ev' es good bad must := by
  induction es with
  | nil => intro i good bad must _; rfl
  | cons e es ih =>
    intro i good bad must h
    have h0 : ev i e.cond = ev' e.cond := h 0 (Nat.zero_lt_succ _)
    have hs : ∀ j (hj : j < es.length), ev (i + 1 + j) es[j].cond = ev' es[j].cond := by
      intro j hj
      have := h (j + 1) (by simp; omega)
      simpa [Nat.add_assoc, Nat.add_comm 1 j] using this
    unfold scanIdx scanAux
    simp only [h0]
    cases e.tail <;> simp only [ih (i + 1) _ _ _ hs]

/-- registrations of a list of entries starting at position `base` -/
def regsOf : Nat → List (Entry MCond Out) → List (Nat × Nat)
  | _, [] => []
  | base, e :: es =>
    match e.cond with
    | .domainSet g => (base, g) :: regsOf (base + 1) es
    | _ => regsOf (base + 1) es

theorem regsOf_cons_dom (b g : Nat) (e : Entry MCond Out) (es : List (Entry MCond Out))
    (h : e.cond = .domainSet g) : regsOf b (e :: es) = (b, g) :: regsOf (b + 1) es := by
  rw [regsOf]; simp only [h]

theorem regsOf_cons_other (b : Nat) (e : Entry MCond Out) (es : List (Entry MCond Out))
    (h : ∀ g, e.cond ≠ .domainSet g) : regsOf b (e :: es) = regsOf (b + 1) es := by
  rw [regsOf]
  cases hc : e.cond <;> simp only []
  exact absurd hc (h _)

theorem emit_dom (st : BState) (e : Entry MCond Out) (g : Nat) (h : e.cond = .domainSet g) :
    emit st e = ⟨st.entries ++ [e], st.regs ++ [(st.entries.length, g)]⟩ := by
  unfold emit; simp only [h]

theorem emit_other (st : BState) (e : Entry MCond Out) (h : ∀ g, e.cond ≠ .domainSet g) :
    emit st e = ⟨st.entries ++ [e], st.regs⟩ := by
  unfold emit
  cases hc : e.cond <;> simp only []
  exact absurd hc (h _)

theorem dom_or_other (c : MCond) : (∃ g, c = .domainSet g) ∨ (∀ g, c ≠ .domainSet g) := by
  cases c <;> first | (left; exact ⟨_, rfl⟩) | (right; intro g h; cases h)

theorem emitAll_spec (es : List (Entry MCond Out)) : ∀ (st : BState),
    (emitAll st es).entries = st.entries ++ es ∧
    (emitAll st es).regs = st.regs ++ regsOf st.entries.length es := by
  induction es with
  | nil => intro st; simp [emitAll, regsOf]
  | cons e es ih =>
    intro st
    have : emitAll st (e :: es) = emitAll (emit st e) es := rfl
    rw [this]
    obtain ⟨h1, h2⟩ := ih (emit st e)
    rw [h1, h2]
    rcases dom_or_other e.cond with ⟨g, hg⟩ | ho
    · rw [emit_dom st e g hg, regsOf_cons_dom _ g e es hg]
      simp [List.append_assoc]
    · rw [emit_other st e ho, regsOf_cons_other _ e es ho]
      simp [List.append_assoc]

theorem regsOf_index_ge (es : List (Entry MCond Out)) : ∀ base, ∀ r ∈ regsOf base es, base ≤ r.1 := by
  induction es with
  | nil => intro base r hr; simp [regsOf] at hr
  | cons e es ih =>
    intro base r hr
    rcases dom_or_other e.cond with ⟨g, hg⟩ | ho
    · rw [regsOf_cons_dom _ g e es hg] at hr
      rcases List.mem_cons.mp hr with h | h
      · subst h; exact Nat.le_refl _
      · have := ih (base + 1) r h; omega
    · rw [regsOf_cons_other _ e es ho] at hr
      have := ih (base + 1) r hr; omega

/-- The bitmap bit at the position of an entry: the oracle bit of that entry's own key group when it
is a domain set. -/
theorem bitmap_at_position (p : Pkt) (es : List (Entry MCond Out)) : ∀ base j (hj : j < es.length) g,
    es[j].cond = .domainSet g → bitmapBit (regsOf base es) p (base + j) = p.dom.getD g false := by
  induction es with
  | nil => intro base j hj; simp at hj
  | cons e es ih =>
    intro base j hj g hg
    cases j with
    | zero =>
      simp only [List.getElem_cons_zero] at hg
      rw [regsOf_cons_dom _ g e es hg]
      unfold bitmapBit
      simp only [List.any_cons, Nat.add_zero, beq_self_eq_true, Bool.true_and]
      have : ((regsOf (base + 1) es).any fun r => r.1 == base && p.dom.getD r.2 false) = false := by
        rw [List.any_eq_false]
        intro r hr
        have := regsOf_index_ge es (base + 1) r hr
        have : (r.1 == base) = false := by simp; omega
        simp [this]
      rw [this, Bool.or_false]
    | succ k =>
      simp only [List.getElem_cons_succ] at hg
      have ih' := ih (base + 1) k (by simpa using hj) g hg
      have e1 : base + (k + 1) = base + 1 + k := by omega
      rw [e1]
      rcases dom_or_other e.cond with ⟨g0, hg0⟩ | ho
      · rw [regsOf_cons_dom _ g0 e es hg0]
        unfold bitmapBit at ih' ⊢
        simp only [List.any_cons]
        have : (base == base + 1 + k) = false := by simp; omega
        simp only [this, Bool.false_and, Bool.false_or]
        exact ih'
      · rw [regsOf_cons_other _ e es ho]; exact ih'

/-- **Positions.** Building incrementally (domain sets registered under `len(b.rules)`) and evaluating
domain sets by loop index is the same as the position-free model. -/
theorem matchAt_eq_matchM (rules : List SRule) (fb : Out) (p : Pkt) :
    matchAt rules fb p = matchM (compileProgram rules fb) p := by
  unfold matchAt matchM
  obtain ⟨h1, h2⟩ := emitAll_spec (compileProgram rules fb) ⟨[], []⟩
  simp only [List.nil_append, List.length_nil] at h1 h2
  simp only [h1, h2]
  congr 1
  apply scanIdx_eq_scanAux
  intro j hj
  simp only [Nat.zero_add]
  unfold evalAt
  cases hc : (compileProgram rules fb)[j].cond <;> simp only [evalM]
  rename_i g
  have := bitmap_at_position p (compileProgram rules fb) 0 j hj g hc
  simpa using this

end DaeVerif.C01
