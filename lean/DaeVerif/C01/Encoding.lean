import DaeVerif.C01.Position
/-!
# C01 — the byte-encoded match-set array

In the code a match set does not carry a structured tail: it carries ONE byte `outbound` that is
either a user outbound id, or one of the reserved values `must_rules` (0xFC), logical OR (0xFE),
logical AND (0xFF), and `Match` recovers the structure with two tests
(`outbound != OutboundLogicalOr`, `outbound & OutboundLogicalMask != OutboundLogicalMask`) and one
comparison (`outbound == OutboundMustRules`).  `scanB` is that loop on the byte form, literally;
`scanB_encode` shows that it is the structured scan of `RuleScan` exactly when every rule's outbound
id stays below the reserved range (`≤ 0xFB = OutboundUserDefinedMax`, which `NewControlPlane`
enforces by refusing more than that many outbounds), and `outbound_in_reserved_range_misroutes` shows
the hypothesis is necessary.
-/
namespace DaeVerif.C01
open DaeVerif.RuleScan

def obMustRules : Nat := 0xFC
def obLogicalOr : Nat := 0xFE
def obLogicalAnd : Nat := 0xFF
def obLogicalMask : Nat := 0xFE
def obUserDefinedMax : Nat := 0xFB

/-- one compiled match set with its tail as the code stores it -/
structure BEntry (κ : Type) where
  cond : κ
  neg : Bool
  outbound : Nat
  mark : Nat
  must : Bool

def encodeEntry {κ : Type} (e : Entry κ Out) : BEntry κ :=
  match e.tail with
  | .or => ⟨e.cond, e.neg, obLogicalOr, 0, false⟩
  | .and => ⟨e.cond, e.neg, obLogicalAnd, 0, false⟩
  | .mustRules => ⟨e.cond, e.neg, obMustRules, 0, false⟩
  | .final o => ⟨e.cond, e.neg, o.outbound, o.mark, o.must⟩

/-- `RoutingMatcher.Match`'s loop body on the byte form (control/routing_matcher_userspace.go). -/
def scanB {κ : Type} (ev : κ → Bool) : List (BEntry κ) → (good bad must : Bool) → Option (Out × Bool)
  | [], _, _, _ => none
  | e :: es, good, bad, must =>
    let good1 := if bad || good then good else ev e.cond
    -- `if outbound != OutboundLogicalOr { if goodSubrule == match.not { badRule = true }; goodSubrule = false }`
    let bad1 := if e.outbound != obLogicalOr then (bad || (good1 == e.neg)) else bad
    let good2 := if e.outbound != obLogicalOr then false else good1
    -- `if outbound&OutboundLogicalMask != OutboundLogicalMask { … }`
    if e.outbound &&& obLogicalMask != obLogicalMask then
      if !bad1 then
        if e.outbound == obMustRules then scanB ev es good2 bad1 true
        else some (⟨e.outbound, e.mark, e.must⟩, must)
      else scanB ev es good2 false must
    else scanB ev es good2 bad1 must

def TailOk : Tail Out → Prop
  | .final o => o.outbound ≤ obUserDefinedMax
  | _ => True

theorem user_outbound_not_reserved (n : Nat) (h : n ≤ obUserDefinedMax) :
    n ≠ obLogicalOr ∧ n &&& obLogicalMask ≠ obLogicalMask ∧ n ≠ obMustRules := by
  unfold obUserDefinedMax at h
  refine ⟨by unfold obLogicalOr; omega, ?_, by unfold obMustRules; omega⟩
  intro hh
  have := @Nat.and_le_left n obLogicalMask
  rw [hh] at this
  unfold obLogicalMask at this
  omega

/-- The byte-level loop is the structured scan as long as user outbound ids stay out of the
reserved range. -/
theorem scanB_encode {κ : Type} (ev : κ → Bool) (prog : List (Entry κ Out))
    (hok : ∀ e ∈ prog, TailOk e.tail) (good bad must : Bool) :
    scanB ev (prog.map encodeEntry) good bad must = scanAux ev prog good bad must := by
  induction prog generalizing good bad must with
  | nil => rfl
  | cons e es ih =>
    have hes : ∀ e ∈ es, TailOk e.tail := fun x hx => hok x (List.mem_cons_of_mem _ hx)
    have he := hok e List.mem_cons_self
    cases ht : e.tail with
    | or =>
      simp only [List.map_cons, encodeEntry, ht, scanB, scanAux]
      have h1 : (obLogicalOr != obLogicalOr) = false := by decide
      have h2 : (obLogicalOr &&& obLogicalMask != obLogicalMask) = false := by decide
      simp only [h1, h2]
      exact ih hes _ _ _
    | and =>
      simp only [List.map_cons, encodeEntry, ht, scanB, scanAux]
      have h1 : (obLogicalAnd != obLogicalOr) = true := by decide
      have h2 : (obLogicalAnd &&& obLogicalMask != obLogicalMask) = false := by decide
      simp only [h1, h2]
      exact ih hes _ _ _
    | mustRules =>
      simp only [List.map_cons, encodeEntry, ht, scanB, scanAux]
      have h1 : (obMustRules != obLogicalOr) = true := by decide
      have h2 : (obMustRules &&& obLogicalMask != obLogicalMask) = true := by decide
      have h3 : (obMustRules == obMustRules) = true := by decide
      simp only [h1, h2, h3]
      by_cases hb : (bad || ((if (bad || good) = true then good else ev e.cond) == e.neg)) = true
      · simp only [hb]; exact ih hes _ _ _
      · simp only [Bool.not_eq_true] at hb
        simp only [hb]
        exact ih hes _ _ _
    | final o =>
      rw [ht] at he
      obtain ⟨n1, n2, n3⟩ := user_outbound_not_reserved o.outbound he
      simp only [List.map_cons, encodeEntry, ht, scanB, scanAux]
      have h1 : (o.outbound != obLogicalOr) = true := by simpa using n1
      have h2 : (o.outbound &&& obLogicalMask != obLogicalMask) = true := by simpa using n2
      have h3 : (o.outbound == obMustRules) = false := by simpa using n3
      simp only [h1, h2, h3]
      by_cases hb : (bad || ((if (bad || good) = true then good else ev e.cond) == e.neg)) = true
      · simp only [hb]; exact ih hes _ _ _
      · simp only [Bool.not_eq_true] at hb
        simp only [hb]
        rfl

/-- `Match` on the byte-encoded array the builder emits. -/
def matchBytes (rules : List SRule) (fb : Out) (p : Pkt) : Option Out :=
  (scanB (evalM p) ((compileProgram rules fb).map encodeEntry) false false false).map
    fun (o, must) => { o with must := o.must || must }

def OutsOk (rules : List SRule) (fb : Out) : Prop :=
  fb.outbound ≤ obUserDefinedMax ∧
  ∀ r ∈ rules, ∀ o, r.out = .final o → o.outbound ≤ obUserDefinedMax

theorem tailOk_lowerAlts {κ : Type} (neg : Bool) (last : Tail Out) (hl : TailOk last) (ks : List κ) :
    ∀ k, ∀ e ∈ lowerAlts neg last k ks, TailOk e.tail := by
  induction ks with
  | nil => intro k e he; simp only [lowerAlts, List.mem_cons, List.not_mem_nil, or_false] at he; subst he; exact hl
  | cons k' ks ih =>
    intro k e he
    simp only [lowerAlts, List.mem_cons] at he
    rcases he with rfl | he
    · trivial
    · exact ih k' e he

theorem tailOk_lowerConds {κ : Type} (out : Tail Out) (ho : TailOk out) (cs : List (Cond κ)) :
    ∀ c, ∀ e ∈ lowerConds out c cs, TailOk e.tail := by
  induction cs with
  | nil => intro c e he; exact tailOk_lowerAlts c.neg out ho c.rest c.first e he
  | cons c' cs ih =>
    intro c e he
    simp only [lowerConds, List.mem_append] at he
    rcases he with he | he
    · exact tailOk_lowerAlts c.neg .and trivial c.rest c.first e he
    · exact ih c' e he

theorem tailOk_compileProgram (rules : List SRule) (fb : Out) (h : OutsOk rules fb) :
    ∀ e ∈ compileProgram rules fb, TailOk e.tail := by
  intro e he
  simp only [compileProgram, List.mem_append, List.mem_cons, List.not_mem_nil, or_false] at he
  rcases he with he | rfl
  · simp only [lower, List.mem_flatMap, List.mem_map] at he
    obtain ⟨r', ⟨r, hr, rfl⟩, he⟩ := he
    refine tailOk_lowerConds _ ?_ _ _ e he
    simp only [compileRule]
    cases ho : r.out with
    | mustRules => trivial
    | final o => exact h.2 r hr o ho
  · exact h.1

end DaeVerif.C01
