import DaeVerif.C01.Model
import DaeVerif.C01.Position
import DaeVerif.C01.Encoding
import DaeVerif.C01.Outbound
import DaeVerif.C01.Text
import DaeVerif.C01.LpmIndex
import DaeVerif.Compose.Model
import DaeVerif.Common.Proto
/-!
Line-protocol driver for C01.  Stateful: a `prog` line installs the current program, `pkt` lines
are evaluated against it.

    prog <fbOut> <fbMark> <fbMust> <nRules> { R (F <out> <mark> <must> | M) <nConds> { C <fn> <neg> <nGroups> { G <nVals> val* } } }
    pkt <src32hex> <dst32hex> <sport> <dport> <ipver> <l4> <pname32hex> <dscp> <mac32hex> <dombits|->
    route <is4> <dst32hex>

Values may be given as the TEXT the user wrote (`TP<hex>` port, `TD<hex>` DSCP, `TM<hex>` MAC, `TL<hex>`
l4proto literal, `TV<hex>` ipversion literal; `T?-` = the empty string): the model parses them
(`Text.lean`); an unparsable one makes the program a builder error.  A trailing section
`O <n> { <namehex> <np> { <keyhex|-> <valhex|-> } }` gives the outbounds of the rules and the fallback as
written (`Outbound.lean`), resolved through the group table of the last `outs <n> <namehex>*` line.
Other lines: `ob R|F <namehex> <np> {k v}` (one outbound, patched and parsed), `lpmsets` (the prefix
set every LPM match set reads through its index), `swap` (exchange the current and the previous
program: two generations alive at once).
-/
open DaeVerif DaeVerif.Proto DaeVerif.RuleScan DaeVerif.C12 DaeVerif.C01 DaeVerif.Compose

abbrev P (α : Type) := List String → Option (α × List String)

def pNat : P Nat
  | t :: ts => t.toNat?.map (·, ts)
  | [] => none

def pTok : P String
  | t :: ts => some (t, ts)
  | [] => none

def pMany {α} (p : P α) : Nat → P (List α)
  | 0, ts => some ([], ts)
  | n + 1, ts => do
    let (a, ts) ← p ts
    let (as, ts) ← pMany p n ts
    pure (a :: as, ts)

def pNE {α} (p : P α) (n : Nat) : P (NE α) := fun ts => do
  let (l, ts) ← pMany p n ts
  match l with
  | a :: as => pure (⟨a, as⟩, ts)
  | [] => none

def pPrefix : P Prefix := fun ts => do
  let (tok, ts) ← pTok ts
  match tok.splitOn "/" with
  | [l, b] =>
    let bits ← b.toNat?
    match l.splitOn ":" with
    | ["4", h] => let a ← hexToNat? h; pure (⟨true, mapped4 a, bits⟩, ts)
    | ["6", h] => let a ← hexToNat? h; pure (⟨false, a, bits⟩, ts)
    | _ => none
  | _ => none

/-- bytes of a text token `T?<hex>` (`T?-` = empty) -/
def textOf (tok : String) : Option (List Nat) :=
  let h := String.ofList (tok.toList.drop 2)
  if h = "-" then some [] else hexToBytes? h

def isT (k : Char) (tok : String) : Bool := tok.toList.take 2 == ['T', k]

/-- a value given as text that the real parser functions refuse (the whole program is then a builder
error) -/
def invalidTok (tok : String) : Bool :=
  if isT 'P' tok then (match textOf tok with | some b => (parsePortRange b).isNone | none => true)
  else if isT 'D' tok then (match textOf tok with | some b => (parseDscp b).isNone | none => true)
  else if isT 'M' tok then (match textOf tok with | some b => (parseMac b).isNone | none => true)
  else false

def pRange : P (Nat × Nat) := fun ts => do
  let (tok, ts) ← pTok ts
  if isT 'P' tok then
    pure (((textOf tok).bind parsePortRange).getD (1, 0), ts)
  else
  match tok.splitOn "-" with
  | [a, b] => let x ← a.toNat?; let y ← b.toNat?; pure ((x, y), ts)
  | _ => none

def pHexNat : P Nat := fun ts => do
  let (tok, ts) ← pTok ts
  if isT 'M' tok then
    pure (((textOf tok).bind parseMac).getD 0, ts)
  else
  let v ← hexToNat? tok
  pure (v, ts)

def pDscp : P Nat := fun ts => do
  let (tok, ts) ← pTok ts
  if isT 'D' tok then pure (((textOf tok).bind parseDscp).getD 0, ts)
  else (tok.toNat?).map (·, ts)

def pL4 : P Nat := fun ts => do
  let (tok, ts) ← pTok ts
  if isT 'L' tok then pure (((textOf tok).map l4Literal).getD 0, ts)
  else (tok.toNat?).map (·, ts)

def pIpv : P Nat := fun ts => do
  let (tok, ts) ← pTok ts
  if isT 'V' tok then pure (((textOf tok).map ipvLiteral).getD 0, ts)
  else (tok.toNat?).map (·, ts)

def pBytes : P (List Nat) := fun ts => do
  let (tok, ts) ← pTok ts
  if tok = "-" then pure ([], ts) else
  let v ← hexToBytes? tok
  pure (v, ts)

/-- `G <n> v*` -/
def pGroup {α} (pv : P α) : P (NE α) := fun ts => do
  match ts with
  | "G" :: ts =>
    let (n, ts) ← pNat ts
    pNE pv n ts
  | _ => none

def pGroups {α} (pv : P α) (n : Nat) : P (NE (NE α)) := pNE (pGroup pv) n

def pCond : P SCond := fun ts => do
  match ts with
  | "C" :: fn :: negS :: ts =>
    let neg := negS = "1"
    let (ng, ts) ← pNat ts
    let mk (b : SBody) (ts : List String) : Option (SCond × List String) := some (⟨neg, b⟩, ts)
    match fn with
    | "dip" => let (g, ts) ← pGroups pPrefix ng ts; mk (.ip true g) ts
    | "sip" => let (g, ts) ← pGroups pPrefix ng ts; mk (.ip false g) ts
    | "dport" => let (g, ts) ← pGroups pRange ng ts; mk (.port true g) ts
    | "sport" => let (g, ts) ← pGroups pRange ng ts; mk (.port false g) ts
    | "l4proto" => let (g, ts) ← pGroups pL4 ng ts; mk (.l4proto g) ts
    | "ipversion" => let (g, ts) ← pGroups pIpv ng ts; mk (.ipversion g) ts
    | "mac" => let (g, ts) ← pGroups pHexNat ng ts; mk (.mac g) ts
    | "pname" => let (g, ts) ← pGroups pBytes ng ts; mk (.pname g) ts
    | "dscp" => let (g, ts) ← pGroups pDscp ng ts; mk (.dscp g) ts
    | "domain" =>
      -- each key group: G 1 <oracle index>
      let (g, ts) ← pGroups pNat ng ts
      mk (.domain (g.map fun x => x.head)) ts
    | _ => none
  | _ => none

def pRule : P SRule := fun ts => do
  match ts with
  | "R" :: "F" :: ts =>
    let (o, ts) ← pNat ts
    let (m, ts) ← pNat ts
    let (mu, ts) ← pNat ts
    let (nc, ts) ← pNat ts
    let (cs, ts) ← pNE pCond nc ts
    pure (⟨cs.head, cs.tail, .final ⟨o, m, mu == 1⟩⟩, ts)
  | "R" :: "M" :: ts =>
    let (nc, ts) ← pNat ts
    let (cs, ts) ← pNE pCond nc ts
    pure (⟨cs.head, cs.tail, .mustRules⟩, ts)
  | _ => none

/-- `<kind> <npats> pat*`, pat = `<hex|->` for full/suffix/keyword, `<rxId>` for regex -/
def pDGroup : P (C11.Kind × List C11.Pat) := fun ts => do
  let (k, ts) ← pTok ts
  let (n, ts) ← pNat ts
  match k with
  | "regex" =>
    let (ids, ts) ← pMany pNat n ts
    pure ((.regex, ids.map fun i => ⟨[], true, i⟩), ts)
  | _ =>
    let kind : C11.Kind := if k = "full" then .full else if k = "suffix" then .suffix else if k = "keyword" then .keyword else .unknown
    let (ps, ts) ← pMany pBytes n ts
    pure ((kind, ps.map fun b => ⟨b, true, 0⟩), ts)

def pDGroups : P (List (C11.Kind × List C11.Pat)) := fun ts =>
  match ts with
  | "D" :: ts => do
    let (n, ts) ← pNat ts
    pMany pDGroup n ts
  | _ => some ([], ts)

def pProg : P (List SRule × Out) := fun ts => do
  let (o, ts) ← pNat ts
  let (m, ts) ← pNat ts
  let (mu, ts) ← pNat ts
  let (n, ts) ← pNat ts
  let (rs, ts) ← pMany pRule n ts
  pure ((rs, ⟨o, m, mu == 1⟩), ts)

def pPkt (ts : List String) : Option C01.Pkt := do
  match ts with
  | [src, dst, sp, dp, ipv, l4, pn, dscp, mac, dom] =>
    let src ← hexToNat? src
    let dst ← hexToNat? dst
    let pn ← hexToBytes? pn
    let mac ← hexToNat? mac
    let dom := if dom = "-" then [] else dom.toList.map (· == '1')
    pure ⟨src, dst, ← sp.toNat?, ← dp.toNat?, ← ipv.toNat?, ← l4.toNat?, pn, ← dscp.toNat?, mac, dom⟩
  | _ => none

/-- raw `Route` arguments: `<srcIs4> <srchex> <dstIs4> <dsthex> sport dport l4 pname dscp mac6hex dom` -/
def pRoute (ts : List String) : Option RouteArgs := do
  match ts with
  | [s4, src, d4, dst, sp, dp, l4, pn, dscp, mac, dom] =>
    let src ← hexToNat? src
    let dst ← hexToNat? dst
    let pn ← hexToBytes? pn
    let mac ← hexToNat? mac
    let dom := if dom = "-" then [] else dom.toList.map (· == '1')
    pure ⟨s4 == "1", src, d4 == "1", dst, ← sp.toNat?, ← dp.toNat?, ← l4.toNat?, pn, ← dscp.toNat?, mac, dom⟩
  | _ => none

/-- `<namehex|-> <np> { <keyhex|-> <valhex|-> }` -/
def pOFunc : P OFunc := fun ts => do
  let (nm, ts) ← pBytes ts
  let (np, ts) ← pNat ts
  let (ps, ts) ← pMany (fun ts => do
    let (k, ts) ← pBytes ts
    let (v, ts) ← pBytes ts
    pure ((k, v), ts)) np ts
  pure (⟨nm, ps⟩, ts)

def pOSection : P (List OFunc) := fun ts =>
  match ts with
  | "O" :: ts => do
    let (n, ts) ← pNat ts
    pMany pOFunc n ts
  | _ => some ([], ts)

/-- diagnostics only (evidence: which rule decided); not part of any theorem -/
def hitIndex (p : C01.Pkt) : List SRule → Nat → Option Nat
  | [], _ => none
  | r :: rs, i =>
    if sruleHolds p r then
      match r.out with
      | .final _ => some i
      | .mustRules => hitIndex p rs (i + 1)
    else hitIndex p rs (i + 1)

/-- one installed program (a generation) -/
structure Gen where
  groups : List (C11.Kind × List C11.Pat) := []
  built : Option C11.Built := none       -- the real-matcher model, built once per program
  rules : List SRule := []
  fb : Out := ⟨0, 0, false⟩
  lb : LBuilt := ⟨[], [], [], []⟩         -- positions + LPM slots, built once per program (real FNV hash)
  ok : Bool := false                     -- the program was accepted

structure St where
  diag : Bool := false
  cur : Gen := {}
  prev : Gen := {}
  /-- `consts.MaxMatchSetLen` as the harness read it from the real code (`limit N` line) -/
  limit : Nat := 1024
  /-- the group table (`outboundName2Id`): position = id -/
  names : List (List Nat) := []

def outStr : Option Out → String
  | some o => s!"out={o.outbound} mark={o.mark} must={boolStr o.must}"
  | none => "err"

/-- optional trailing `N <namehex|-> <rxid,rxid,..|->`: the packet's domain name and the regex
patterns Go's regexp matched, for the composed (real domain matcher) path -/
def splitName (ts : List String) : List String × Option (String × String) :=
  match ts.reverse with
  | rx :: nm :: "N" :: rest => (rest.reverse, some (nm, rx))
  | _ => (ts, none)

def evalPkt (diag : Bool) (st : Gen) (p : C01.Pkt) (nameTok : Option (String × String)) : String :=
  let real : String := match nameTok, st.built with
    | some (nm, rx), some b =>
      if nm = "-" then
        -- no domain known: `Match` does not ask the domain matcher (Compose.empty_name_satisfies_no_domain_condition)
        let r := matchGuarded b ⟨st.rules, st.fb, st.groups⟩ p [] []
        if r == matchAt st.rules st.fb p then "" else " EMPTY-NAME-DIFFERS " ++ outStr r
      else
      match hexToBytes? nm with
      | some name =>
        let rxHits := if rx = "-" then [] else (rx.splitOn ",").filterMap String.toNat?
        let r := matchWithBuilt b ⟨st.rules, st.fb, st.groups⟩ p name rxHits
        if r == matchAt st.rules st.fb p then "" else " REAL-MATCHER-DIFFERS " ++ outStr r
      | none => " bad-name"
    | _, _ => ""
  -- the compiled-level scan by position (as the code runs it), the byte-encoded loop, the scan through
  -- the LPM indices of the builder (real FNV hash) and the source-level specification are all
  -- evaluated; they are proved equal (Props.match_by_position_is_first_match,
  -- Props.match_bytes_is_first_match, Props.match_by_lpm_index_is_first_match); the driver prints the
  -- scan and flags any difference
  let a := matchAt st.rules st.fb p
  let b := firstMatchS p st.rules st.fb false
  let c := matchBytes st.rules st.fb p
  let l := matchBuilt st.lb p
  let d := if diag then (match hitIndex p st.rules 0 with
    | some i => s!" hit={i}/{st.rules.length}"
    | none => s!" hit=fb/{st.rules.length}") else ""
  outStr a ++ (if a == some b then "" else " SPEC-DIFFERS " ++ outStr (some b))
    ++ (if c == a then "" else " BYTES-DIFFER " ++ outStr c)
    ++ (if l == a then "" else " LPM-DIFFERS " ++ outStr l) ++ real ++ d

def sameRuleOut : RuleOut Out → RuleOut Out → Bool
  | .mustRules, .mustRules => true
  | .final a, .final b => a == b
  | _, _ => false

/-- the outbounds as written against the typed program: `(unresolvable, first disagreement)` -/
def checkOuts (names : List (List Nat)) (rules : List SRule) (fb : Out) (os : List OFunc) : Bool × Option Nat :=
  let n2i := indexOf names
  let rec go : List SRule → List OFunc → Nat → Bool × Option Nat
    | [], [f], i =>
      match resolveFallback n2i f with
      | none => (true, none)
      | some o => (false, if o == fb then none else some i)
    | r :: rs, f :: fs, i =>
      match resolveRuleOut n2i f with
      | none => (true, none)
      | some o =>
        let (bad, d) := go rs fs (i + 1)
        (bad, if sameRuleOut o r.out then d else some i)
    | _, _, i => (false, some i)
  if os.isEmpty then (false, none) else go rules os 0

def hexW (w n : Nat) : String :=
  String.ofList ((List.range w).map fun i => nibble (n / 16 ^ (w - 1 - i) % 16))

def insertPair (x : Nat × Nat) : List (Nat × Nat) → List (Nat × Nat)
  | [] => [x]
  | y :: ys =>
    if x.1 < y.1 ∨ (x.1 = y.1 ∧ x.2 < y.2) then x :: y :: ys
    else if x = y then y :: ys
    else y :: insertPair x ys

/-- the address set a slot describes, in a normal form: sorted unique `<addr as 16 bytes>/<length in the
128-bit space>` -/
def slotStr (ps : List Prefix) : String :=
  -- only the network bits matter
  let pairs := (ps.map fun p => (p.addr / 2 ^ (128 - p.len128) * 2 ^ (128 - p.len128), p.len128)).foldr insertPair []
  ",".intercalate (pairs.map fun x => hexW 32 x.1 ++ "/" ++ toString x.2)

def insertStr (x : String) : List String → List String
  | [] => [x]
  | y :: ys => if x < y then x :: y :: ys else y :: insertStr x ys

def lpmSetsStr (lb : LBuilt) : String :=
  let rec go : List (Entry MCond Out) → Nat → List String
    | [], _ => []
    | e :: es, i =>
      let k := match e.cond with
        | .ipSet _ => some "d"
        | .srcIpSet _ => some "s"
        | .macSet _ => some "m"
        | _ => none
      match k with
      | some k => (k ++ ":" ++ slotStr (slotAt lb.tries (lb.idxs.getD i none))) :: go es (i + 1)
      | none => go es (i + 1)
  -- the optimizers may reorder the conditions of a rule: the program's sets as a sorted multiset
  let l := (go lb.entries 0).foldr insertStr []
  s!"n={l.length} " ++ ";".intercalate l

def pobStr : Option POut → String
  | some o => s!"name={if o.name.isEmpty then "-" else bytesToHex o.name} mark={o.mark} must={boolStr o.must}"
  | none => "err"

def step (st : St) (line : String) : St × String :=
  match words line with
  | "prog" :: ts =>
    match pProg ts with
    | some ((rules, fb), rest) =>
      match pDGroups rest with
      | some (groups, rest) =>
        match pOSection rest with
        | some (os, []) =>
          let prog := compileProgram rules fb
          let P : DProgram := ⟨rules, fb, groups⟩
          let built := match (C11.Matcher.replay st.limit (addCalls P)).build with
            | .ok b => some b
            | .error _ => none
          let (unres, differs) := checkOuts st.names rules fb os
          let invalid := ts.any invalidTok || unres
          -- a value or an outbound the real parser functions refuse is an error of the builder's `Lower`
          -- step, before anything else; then the builder refuses a program of more than MaxMatchSetLen
          -- (`st.limit`) match sets, fallback entry included; `BuildUserspace` additionally fails when the
          -- domain matcher cannot be built
          let lb := if invalid then ⟨[], [], [], []⟩ else buildL hashLpmSet rules fb
          let verdict := if invalid then "err:builder"
             else if prog.length > st.limit then "err:build" else if built.isSome then "ok" else "err:build"
          let g : Gen := { groups := groups, built := built, rules := rules, fb := fb, lb := lb, ok := verdict == "ok" }
          -- `prev` is the last ACCEPTED program before this one (the generation still serving traffic)
          ({ st with cur := g, prev := if st.cur.ok then st.cur else st.prev },
            verdict
            ++ (match differs with
                | some i => if invalid then "" else s!" OUTBOUND-DIFFERS {i}"
                | none => ""))
        | _ => (st, "bad-op")
      | _ => (st, "bad-op")
    | _ => (st, "bad-op")
  | "pkt" :: ts =>
    let (ts, nameTok) := splitName ts
    match pPkt ts with
    | some p => (st, evalPkt st.diag st.cur p nameTok)
    | none => (st, "bad-op")
  | "rpkt" :: ts =>
    -- a packet given as the raw arguments of `ControlPlane.Route`: the marshalling is the model's
    let (ts, nameTok) := splitName ts
    match pRoute ts with
    | some a => (st, evalPkt st.diag st.cur (pktOfRoute a) nameTok)
    | none => (st, "bad-op")
  | ["swap"] => ({ st with cur := st.prev, prev := st.cur }, "swapped")
  | ["lpmsets"] => (st, lpmSetsStr st.cur.lb)
  | "ids" :: ts =>
    -- `NewControlPlane`'s group table for the given outbound names: `ok n=<count>` / `err`; with a trailing
    -- `? <namehex>`: the id of that name
    match (ts.takeWhile (· ≠ "?")).mapM (fun t => if t = "-" then some [] else hexToBytes? t) with
    | some names =>
      match assignIds names, ts.dropWhile (· ≠ "?") with
      | none, _ => (st, "err")
      | some _, [] => (st, s!"ok n={names.length}")
      | some f, [_, q] =>
        match hexToBytes? q with
        | some qn => (st, s!"ok n={names.length} id=" ++ (match f qn with | some i => toString i | none => "-"))
        | none => (st, "bad-op")
      | _, _ => (st, "bad-op")
    | none => (st, "bad-op")
  | "outs" :: n :: ts =>
    match n.toNat?, (ts.mapM fun t => if t = "-" then some [] else hexToBytes? t) with
    | some k, some names => if names.length = k then ({ st with names := names }, s!"outs={k}") else (st, "bad-op")
    | _, _ => (st, "bad-op")
  | "ob" :: kind :: ts =>
    match pOFunc ts with
    | some (f, []) =>
      let (a, b) := if kind = "F" then (fallbackOutbound f, fallbackMeaning f) else (ruleOutbound f, ruleMeaning f)
      (st, pobStr a ++ (if a == b then "" else " SPEC-DIFFERS " ++ pobStr b))
    | _ => (st, "bad-op")
  | ["limit", n] =>
    match n.toNat? with
    | some k => ({ st with limit := k }, s!"limit={k}")
    | none => (st, "bad-op")
  | _ => (st, "bad-op")

def main (args : List String) : IO Unit := lineLoopS ({ diag := args.contains "--diag" } : St) step
