import DaeVerif.C01.Model
import DaeVerif.C01.Position
import DaeVerif.C01.Encoding
import DaeVerif.Compose.Model
import DaeVerif.Common.Proto
/-!
Line-protocol driver for C01.  Stateful: a `prog` line installs the current program, `pkt` lines
are evaluated against it.

    prog <fbOut> <fbMark> <fbMust> <nRules> { R (F <out> <mark> <must> | M) <nConds> { C <fn> <neg> <nGroups> { G <nVals> val* } } }
    pkt <src32hex> <dst32hex> <sport> <dport> <ipver> <l4> <pname32hex> <dscp> <mac32hex> <dombits|->
    route <is4> <dst32hex>
-/
open DaeVerif DaeVerif.Proto DaeVerif.RuleScan DaeVerif.C12 DaeVerif.C01 DaeVerif.Compose

abbrev P (α : Type) := List String → Option (α × List String)

def pNat : P Nat
  | t :: ts => t.toNat?.map (·, ts)
  | [] => none

def pTok : P String
  | t :: ts => some (t, ts)
  | [] => none

def pMany {α} (p : P α) : Nat → P (List α)
  | 0, ts => some ([], ts)
  | n + 1, ts => do
    let (a, ts) ← p ts
    let (as, ts) ← pMany p n ts
    pure (a :: as, ts)

def pNE {α} (p : P α) (n : Nat) : P (NE α) := fun ts => do
  let (l, ts) ← pMany p n ts
  match l with
  | a :: as => pure (⟨a, as⟩, ts)
  | [] => none

def pPrefix : P Prefix := fun ts => do
  let (tok, ts) ← pTok ts
  match tok.splitOn "/" with
  | [l, b] =>
    let bits ← b.toNat?
    match l.splitOn ":" with
    | ["4", h] => let a ← hexToNat? h; pure (⟨true, mapped4 a, bits⟩, ts)
    | ["6", h] => let a ← hexToNat? h; pure (⟨false, a, bits⟩, ts)
    | _ => none
  | _ => none

def pRange : P (Nat × Nat) := fun ts => do
  let (tok, ts) ← pTok ts
  match tok.splitOn "-" with
  | [a, b] => let x ← a.toNat?; let y ← b.toNat?; pure ((x, y), ts)
  | _ => none

def pHexNat : P Nat := fun ts => do
  let (tok, ts) ← pTok ts
  let v ← hexToNat? tok
  pure (v, ts)

def pBytes : P (List Nat) := fun ts => do
  let (tok, ts) ← pTok ts
  if tok = "-" then pure ([], ts) else
  let v ← hexToBytes? tok
  pure (v, ts)

/-- `G <n> v*` -/
def pGroup {α} (pv : P α) : P (NE α) := fun ts => do
  match ts with
  | "G" :: ts =>
    let (n, ts) ← pNat ts
    pNE pv n ts
  | _ => none

def pGroups {α} (pv : P α) (n : Nat) : P (NE (NE α)) := pNE (pGroup pv) n

def pCond : P SCond := fun ts => do
  match ts with
  | "C" :: fn :: negS :: ts =>
    let neg := negS = "1"
    let (ng, ts) ← pNat ts
    let mk (b : SBody) (ts : List String) : Option (SCond × List String) := some (⟨neg, b⟩, ts)
    match fn with
    | "dip" => let (g, ts) ← pGroups pPrefix ng ts; mk (.ip true g) ts
    | "sip" => let (g, ts) ← pGroups pPrefix ng ts; mk (.ip false g) ts
    | "dport" => let (g, ts) ← pGroups pRange ng ts; mk (.port true g) ts
    | "sport" => let (g, ts) ← pGroups pRange ng ts; mk (.port false g) ts
    | "l4proto" => let (g, ts) ← pGroups pNat ng ts; mk (.l4proto g) ts
    | "ipversion" => let (g, ts) ← pGroups pNat ng ts; mk (.ipversion g) ts
    | "mac" => let (g, ts) ← pGroups pHexNat ng ts; mk (.mac g) ts
    | "pname" => let (g, ts) ← pGroups pBytes ng ts; mk (.pname g) ts
    | "dscp" => let (g, ts) ← pGroups pNat ng ts; mk (.dscp g) ts
    | "domain" =>
      -- each key group: G 1 <oracle index>
      let (g, ts) ← pGroups pNat ng ts
      mk (.domain (g.map fun x => x.head)) ts
    | _ => none
  | _ => none

def pRule : P SRule := fun ts => do
  match ts with
  | "R" :: "F" :: ts =>
    let (o, ts) ← pNat ts
    let (m, ts) ← pNat ts
    let (mu, ts) ← pNat ts
    let (nc, ts) ← pNat ts
    let (cs, ts) ← pNE pCond nc ts
    pure (⟨cs.head, cs.tail, .final ⟨o, m, mu == 1⟩⟩, ts)
  | "R" :: "M" :: ts =>
    let (nc, ts) ← pNat ts
    let (cs, ts) ← pNE pCond nc ts
    pure (⟨cs.head, cs.tail, .mustRules⟩, ts)
  | _ => none

/-- `<kind> <npats> pat*`, pat = `<hex|->` for full/suffix/keyword, `<rxId>` for regex -/
def pDGroup : P (C11.Kind × List C11.Pat) := fun ts => do
  let (k, ts) ← pTok ts
  let (n, ts) ← pNat ts
  match k with
  | "regex" =>
    let (ids, ts) ← pMany pNat n ts
    pure ((.regex, ids.map fun i => ⟨[], true, i⟩), ts)
  | _ =>
    let kind : C11.Kind := if k = "full" then .full else if k = "suffix" then .suffix else if k = "keyword" then .keyword else .unknown
    let (ps, ts) ← pMany pBytes n ts
    pure ((kind, ps.map fun b => ⟨b, true, 0⟩), ts)

def pDGroups : P (List (C11.Kind × List C11.Pat)) := fun ts =>
  match ts with
  | "D" :: ts => do
    let (n, ts) ← pNat ts
    pMany pDGroup n ts
  | _ => some ([], ts)

def pProg : P (List SRule × Out) := fun ts => do
  let (o, ts) ← pNat ts
  let (m, ts) ← pNat ts
  let (mu, ts) ← pNat ts
  let (n, ts) ← pNat ts
  let (rs, ts) ← pMany pRule n ts
  pure ((rs, ⟨o, m, mu == 1⟩), ts)

def pPkt (ts : List String) : Option Pkt := do
  match ts with
  | [src, dst, sp, dp, ipv, l4, pn, dscp, mac, dom] =>
    let src ← hexToNat? src
    let dst ← hexToNat? dst
    let pn ← hexToBytes? pn
    let mac ← hexToNat? mac
    let dom := if dom = "-" then [] else dom.toList.map (· == '1')
    pure ⟨src, dst, ← sp.toNat?, ← dp.toNat?, ← ipv.toNat?, ← l4.toNat?, pn, ← dscp.toNat?, mac, dom⟩
  | _ => none

/-- raw `Route` arguments: `<srcIs4> <srchex> <dstIs4> <dsthex> sport dport l4 pname dscp mac6hex dom` -/
def pRoute (ts : List String) : Option RouteArgs := do
  match ts with
  | [s4, src, d4, dst, sp, dp, l4, pn, dscp, mac, dom] =>
    let src ← hexToNat? src
    let dst ← hexToNat? dst
    let pn ← hexToBytes? pn
    let mac ← hexToNat? mac
    let dom := if dom = "-" then [] else dom.toList.map (· == '1')
    pure ⟨s4 == "1", src, d4 == "1", dst, ← sp.toNat?, ← dp.toNat?, ← l4.toNat?, pn, ← dscp.toNat?, mac, dom⟩
  | _ => none

/-- diagnostics only (evidence: which rule decided); not part of any theorem -/
def hitIndex (p : Pkt) : List SRule → Nat → Option Nat
  | [], _ => none
  | r :: rs, i =>
    if sruleHolds p r then
      match r.out with
      | .final _ => some i
      | .mustRules => hitIndex p rs (i + 1)
    else hitIndex p rs (i + 1)

structure St where
  diag : Bool := false
  groups : List (C11.Kind × List C11.Pat) := []
  built : Option C11.Built := none       -- the real-matcher model, built once per program
  prog : List (Entry MCond Out) := []
  rules : List SRule := []
  fb : Out := ⟨0, 0, false⟩
  /-- `consts.MaxMatchSetLen` as the harness read it from the real code (`limit N` line) -/
  limit : Nat := 1024

def outStr : Option Out → String
  | some o => s!"out={o.outbound} mark={o.mark} must={boolStr o.must}"
  | none => "err"

/-- optional trailing `N <namehex|-> <rxid,rxid,..|->`: the packet's domain name and the regex
patterns Go's regexp matched, for the composed (real domain matcher) path -/
def splitName (ts : List String) : List String × Option (String × String) :=
  match ts.reverse with
  | rx :: nm :: "N" :: rest => (rest.reverse, some (nm, rx))
  | _ => (ts, none)

def evalPkt (st : St) (p : Pkt) (nameTok : Option (String × String)) : String :=
  let real : String := match nameTok, st.built with
    | some (nm, rx), some b =>
      if nm = "-" then
        -- no domain known: `Match` does not ask the domain matcher (Compose.empty_name_satisfies_no_domain_condition)
        let r := matchGuarded b ⟨st.rules, st.fb, st.groups⟩ p [] []
        if r == matchAt st.rules st.fb p then "" else " EMPTY-NAME-DIFFERS " ++ outStr r
      else
      match hexToBytes? nm with
      | some name =>
        let rxHits := if rx = "-" then [] else (rx.splitOn ",").filterMap String.toNat?
        let r := matchWithBuilt b ⟨st.rules, st.fb, st.groups⟩ p name rxHits
        if r == matchAt st.rules st.fb p then "" else " REAL-MATCHER-DIFFERS " ++ outStr r
      | none => " bad-name"
    | _, _ => ""
  -- the compiled-level scan by position (as the code runs it), the byte-encoded loop and the
  -- source-level specification are all evaluated; they are proved equal
  -- (Props.match_by_position_is_first_match, Props.match_bytes_is_first_match); the driver prints the
  -- scan and flags any difference
  let a := matchAt st.rules st.fb p
  let b := firstMatchS p st.rules st.fb false
  let c := matchBytes st.rules st.fb p
  let d := if st.diag then (match hitIndex p st.rules 0 with
    | some i => s!" hit={i}/{st.rules.length}"
    | none => s!" hit=fb/{st.rules.length}") else ""
  outStr a ++ (if a == some b then "" else " SPEC-DIFFERS " ++ outStr (some b))
    ++ (if c == a then "" else " BYTES-DIFFER " ++ outStr c) ++ real ++ d

def step (st : St) (line : String) : St × String :=
  match words line with
  | "prog" :: ts =>
    match pProg ts with
    | some ((rules, fb), rest) =>
      match pDGroups rest with
      | some (groups, []) =>
        let prog := compileProgram rules fb
        let P : DProgram := ⟨rules, fb, groups⟩
        let built := match (C11.Matcher.replay st.limit (addCalls P)).build with
          | .ok b => some b
          | .error _ => none
        -- the builder refuses a program of more than MaxMatchSetLen (`st.limit`) match sets, fallback entry
        -- included; `BuildUserspace` additionally fails when the domain matcher cannot be built
        ({ st with prog := prog, rules := rules, fb := fb, groups := groups, built := built },
          if prog.length > st.limit then "err:build" else if built.isSome then "ok" else "err:build")
      | _ => (st, "bad-op")
    | _ => (st, "bad-op")
  | "pkt" :: ts =>
    let (ts, nameTok) := splitName ts
    match pPkt ts with
    | some p => (st, evalPkt st p nameTok)
    | none => (st, "bad-op")
  | "rpkt" :: ts =>
    -- a packet given as the raw arguments of `ControlPlane.Route`: the marshalling is the model's
    let (ts, nameTok) := splitName ts
    match pRoute ts with
    | some a => (st, evalPkt st (pktOfRoute a) nameTok)
    | none => (st, "bad-op")
  | ["limit", n] =>
    match n.toNat? with
    | some k => ({ st with limit := k }, s!"limit={k}")
    | none => (st, "bad-op")
  | _ => (st, "bad-op")

def main (args : List String) : IO Unit := lineLoopS ({ diag := args.contains "--diag" } : St) step
