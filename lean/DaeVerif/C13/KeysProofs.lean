import DaeVerif.C13.Keys
namespace DaeVerif.C13.Keys

theorem dialKey_src (dom force : Bool) (sc : Scope) (d : Decision) :
    (dialKey dom sc force d).src = d.src ∧ (dialKey dom sc force d).scope = sc := by
  unfold dialKey symKey coneKey; split <;> exact ⟨rfl, rfl⟩

theorem dialKey_dst (dom force : Bool) (sc : Scope) (d : Decision) :
    (dialKey dom sc force d).dst = if dialSymmetric dom force d then d.dst else AP.zero := by
  unfold dialKey dialSymmetric symKey coneKey; split <;> simp_all

end DaeVerif.C13.Keys
