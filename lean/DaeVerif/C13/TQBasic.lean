import DaeVerif.C13.TQ
/-!
# C13 (a) — invariant of the repaired task-queue protocol: definitions and update lemmas
-/
namespace DaeVerif.C13.TQ

/-! ### field projections of the state updates -/

section upd
variable (s : St)

@[simp] theorem setPc_prods (p i : Nat) (pc : PPC) :
    (setPc s p pc).prods i = if i = p then { s.prods p with pc := pc } else s.prods i := rfl
@[simp] theorem setPc_map (p : Nat) (pc : PPC) : (setPc s p pc).map = s.map := rfl
@[simp] theorem setPc_nq (p : Nat) (pc : PPC) : (setPc s p pc).nq = s.nq := rfl
@[simp] theorem setPc_qs (p : Nat) (pc : PPC) : (setPc s p pc).qs = s.qs := rfl
@[simp] theorem setPc_nch (p : Nat) (pc : PPC) : (setPc s p pc).nch = s.nch := rfl
@[simp] theorem setPc_chans (p : Nat) (pc : PPC) : (setPc s p pc).chans = s.chans := rfl
@[simp] theorem setPc_pool (p : Nat) (pc : PPC) : (setPc s p pc).pool = s.pool := rfl
@[simp] theorem setPc_np (p : Nat) (pc : PPC) : (setPc s p pc).np = s.np := rfl
@[simp] theorem setPc_accepted (p : Nat) (pc : PPC) : (setPc s p pc).accepted = s.accepted := rfl
@[simp] theorem setPc_done (p : Nat) (pc : PPC) : (setPc s p pc).done = s.done := rfl

@[simp] theorem setQ_qs (q i : Nat) (Q : Queue) :
    (setQ s q Q).qs i = if i = q then Q else s.qs i := rfl
@[simp] theorem setQ_map (q : Nat) (Q : Queue) : (setQ s q Q).map = s.map := rfl
@[simp] theorem setQ_nq (q : Nat) (Q : Queue) : (setQ s q Q).nq = s.nq := rfl
@[simp] theorem setQ_prods (q : Nat) (Q : Queue) : (setQ s q Q).prods = s.prods := rfl
@[simp] theorem setQ_nch (q : Nat) (Q : Queue) : (setQ s q Q).nch = s.nch := rfl
@[simp] theorem setQ_chans (q : Nat) (Q : Queue) : (setQ s q Q).chans = s.chans := rfl
@[simp] theorem setQ_pool (q : Nat) (Q : Queue) : (setQ s q Q).pool = s.pool := rfl
@[simp] theorem setQ_np (q : Nat) (Q : Queue) : (setQ s q Q).np = s.np := rfl
@[simp] theorem setQ_accepted (q : Nat) (Q : Queue) : (setQ s q Q).accepted = s.accepted := rfl
@[simp] theorem setQ_done (q : Nat) (Q : Queue) : (setQ s q Q).done = s.done := rfl

@[simp] theorem setChan_chans (c i : Nat) (l : List Nat) :
    (setChan s c l).chans i = if i = c then l else s.chans i := rfl
@[simp] theorem setChan_map (c : Nat) (l : List Nat) : (setChan s c l).map = s.map := rfl
@[simp] theorem setChan_nq (c : Nat) (l : List Nat) : (setChan s c l).nq = s.nq := rfl
@[simp] theorem setChan_qs (c : Nat) (l : List Nat) : (setChan s c l).qs = s.qs := rfl
@[simp] theorem setChan_prods (c : Nat) (l : List Nat) : (setChan s c l).prods = s.prods := rfl
@[simp] theorem setChan_nch (c : Nat) (l : List Nat) : (setChan s c l).nch = s.nch := rfl
@[simp] theorem setChan_pool (c : Nat) (l : List Nat) : (setChan s c l).pool = s.pool := rfl
@[simp] theorem setChan_np (c : Nat) (l : List Nat) : (setChan s c l).np = s.np := rfl
@[simp] theorem setChan_accepted (c : Nat) (l : List Nat) : (setChan s c l).accepted = s.accepted := rfl
@[simp] theorem setChan_done (c : Nat) (l : List Nat) : (setChan s c l).done = s.done := rfl

@[simp] theorem setMap_map (k i : Nat) (v : Option Nat) :
    (setMap s k v).map i = if i = k then v else s.map i := rfl
@[simp] theorem setMap_nq (k : Nat) (v : Option Nat) : (setMap s k v).nq = s.nq := rfl
@[simp] theorem setMap_qs (k : Nat) (v : Option Nat) : (setMap s k v).qs = s.qs := rfl
@[simp] theorem setMap_prods (k : Nat) (v : Option Nat) : (setMap s k v).prods = s.prods := rfl
@[simp] theorem setMap_nch (k : Nat) (v : Option Nat) : (setMap s k v).nch = s.nch := rfl
@[simp] theorem setMap_chans (k : Nat) (v : Option Nat) : (setMap s k v).chans = s.chans := rfl
@[simp] theorem setMap_pool (k : Nat) (v : Option Nat) : (setMap s k v).pool = s.pool := rfl
@[simp] theorem setMap_np (k : Nat) (v : Option Nat) : (setMap s k v).np = s.np := rfl
@[simp] theorem setMap_accepted (k : Nat) (v : Option Nat) : (setMap s k v).accepted = s.accepted := rfl
@[simp] theorem setMap_done (k : Nat) (v : Option Nat) : (setMap s k v).done = s.done := rfl

@[simp] theorem newChan_chans (i : Nat) : (newChan s).chans i = if i = s.nch then [] else s.chans i := rfl
@[simp] theorem newChan_nch : (newChan s).nch = s.nch + 1 := rfl
@[simp] theorem newChan_map : (newChan s).map = s.map := rfl
@[simp] theorem newChan_nq : (newChan s).nq = s.nq := rfl
@[simp] theorem newChan_qs : (newChan s).qs = s.qs := rfl
@[simp] theorem newChan_prods : (newChan s).prods = s.prods := rfl
@[simp] theorem newChan_pool : (newChan s).pool = s.pool := rfl
@[simp] theorem newChan_np : (newChan s).np = s.np := rfl
@[simp] theorem newChan_accepted : (newChan s).accepted = s.accepted := rfl
@[simp] theorem newChan_done : (newChan s).done = s.done := rfl

@[simp] theorem setPool_pool (l : List Nat) : (setPool s l).pool = l := rfl
@[simp] theorem setPool_map (l : List Nat) : (setPool s l).map = s.map := rfl
@[simp] theorem setPool_nq (l : List Nat) : (setPool s l).nq = s.nq := rfl
@[simp] theorem setPool_qs (l : List Nat) : (setPool s l).qs = s.qs := rfl
@[simp] theorem setPool_prods (l : List Nat) : (setPool s l).prods = s.prods := rfl
@[simp] theorem setPool_nch (l : List Nat) : (setPool s l).nch = s.nch := rfl
@[simp] theorem setPool_chans (l : List Nat) : (setPool s l).chans = s.chans := rfl
@[simp] theorem setPool_np (l : List Nat) : (setPool s l).np = s.np := rfl
@[simp] theorem setPool_accepted (l : List Nat) : (setPool s l).accepted = s.accepted := rfl
@[simp] theorem setPool_done (l : List Nat) : (setPool s l).done = s.done := rfl

@[simp] theorem addQueue_nq (k : Nat) (ch : Nat) : (addQueue s k ch).nq = s.nq + 1 := rfl
@[simp] theorem addQueue_qs (k : Nat) (ch : Nat) (i : Nat) :
    (addQueue s k ch).qs i = if i = s.nq then ⟨k, ch, [], false, 0, .idle⟩ else s.qs i := rfl
@[simp] theorem addQueue_map (k : Nat) (ch : Nat) (i : Nat) :
    (addQueue s k ch).map i = if i = k then some s.nq else s.map i := rfl
@[simp] theorem addQueue_prods (k : Nat) (ch : Nat) : (addQueue s k ch).prods = s.prods := rfl
@[simp] theorem addQueue_nch (k : Nat) (ch : Nat) : (addQueue s k ch).nch = s.nch := rfl
@[simp] theorem addQueue_chans (k : Nat) (ch : Nat) : (addQueue s k ch).chans = s.chans := rfl
@[simp] theorem addQueue_pool (k : Nat) (ch : Nat) : (addQueue s k ch).pool = s.pool := rfl
@[simp] theorem addQueue_np (k : Nat) (ch : Nat) : (addQueue s k ch).np = s.np := rfl
@[simp] theorem addQueue_accepted (k : Nat) (ch : Nat) : (addQueue s k ch).accepted = s.accepted := rfl
@[simp] theorem addQueue_done (k : Nat) (ch : Nat) : (addQueue s k ch).done = s.done := rfl

@[simp] theorem logAccept_accepted (k : Nat) (t : Nat) (i : Nat) :
    (logAccept s k t).accepted i = if i = k then s.accepted k ++ [t] else s.accepted i := rfl
@[simp] theorem logAccept_map (k : Nat) (t : Nat) : (logAccept s k t).map = s.map := rfl
@[simp] theorem logAccept_nq (k : Nat) (t : Nat) : (logAccept s k t).nq = s.nq := rfl
@[simp] theorem logAccept_qs (k : Nat) (t : Nat) : (logAccept s k t).qs = s.qs := rfl
@[simp] theorem logAccept_prods (k : Nat) (t : Nat) : (logAccept s k t).prods = s.prods := rfl
@[simp] theorem logAccept_nch (k : Nat) (t : Nat) : (logAccept s k t).nch = s.nch := rfl
@[simp] theorem logAccept_chans (k : Nat) (t : Nat) : (logAccept s k t).chans = s.chans := rfl
@[simp] theorem logAccept_pool (k : Nat) (t : Nat) : (logAccept s k t).pool = s.pool := rfl
@[simp] theorem logAccept_np (k : Nat) (t : Nat) : (logAccept s k t).np = s.np := rfl
@[simp] theorem logAccept_done (k : Nat) (t : Nat) : (logAccept s k t).done = s.done := rfl

@[simp] theorem logDone_done (k : Nat) (t : Nat) (i : Nat) :
    (logDone s k t).done i = if i = k then s.done k ++ [t] else s.done i := rfl
@[simp] theorem logDone_map (k : Nat) (t : Nat) : (logDone s k t).map = s.map := rfl
@[simp] theorem logDone_nq (k : Nat) (t : Nat) : (logDone s k t).nq = s.nq := rfl
@[simp] theorem logDone_qs (k : Nat) (t : Nat) : (logDone s k t).qs = s.qs := rfl
@[simp] theorem logDone_prods (k : Nat) (t : Nat) : (logDone s k t).prods = s.prods := rfl
@[simp] theorem logDone_nch (k : Nat) (t : Nat) : (logDone s k t).nch = s.nch := rfl
@[simp] theorem logDone_chans (k : Nat) (t : Nat) : (logDone s k t).chans = s.chans := rfl
@[simp] theorem logDone_pool (k : Nat) (t : Nat) : (logDone s k t).pool = s.pool := rfl
@[simp] theorem logDone_np (k : Nat) (t : Nat) : (logDone s k t).np = s.np := rfl
@[simp] theorem logDone_accepted (k : Nat) (t : Nat) : (logDone s k t).accepted = s.accepted := rfl

@[simp] theorem addProd_np (k : Nat) : (addProd s k).np = s.np + 1 := rfl
@[simp] theorem addProd_prods (k : Nat) (i : Nat) :
    (addProd s k).prods i = if i = s.np then ⟨k, .start⟩ else s.prods i := rfl
@[simp] theorem addProd_map (k : Nat) : (addProd s k).map = s.map := rfl
@[simp] theorem addProd_nq (k : Nat) : (addProd s k).nq = s.nq := rfl
@[simp] theorem addProd_qs (k : Nat) : (addProd s k).qs = s.qs := rfl
@[simp] theorem addProd_nch (k : Nat) : (addProd s k).nch = s.nch := rfl
@[simp] theorem addProd_chans (k : Nat) : (addProd s k).chans = s.chans := rfl
@[simp] theorem addProd_pool (k : Nat) : (addProd s k).pool = s.pool := rfl
@[simp] theorem addProd_accepted (k : Nat) : (addProd s k).accepted = s.accepted := rfl
@[simp] theorem addProd_done (k : Nat) : (addProd s k).done = s.done := rfl

end upd

/-! ### counting producers -/

/-- number of `i < n` with `f i` -/
def cnt : Nat → (Nat → Bool) → Nat
  | 0, _ => 0
  | n + 1, f => cnt n f + (if f n then 1 else 0)

theorem cnt_congr : ∀ (n : Nat) (f g : Nat → Bool), (∀ i, i < n → f i = g i) → cnt n f = cnt n g := by
  intro n
  induction n with
  | zero => intros; rfl
  | succ n ih =>
    intro f g h
    simp only [cnt]
    rw [ih f g (fun i hi => h i (by omega)), h n (by omega)]

theorem cnt_update : ∀ (n : Nat) (f : Nat → Bool) (p : Nat) (b : Bool), p < n →
    cnt n (fun i => if i = p then b else f i) + (if f p then 1 else 0) = cnt n f + (if b then 1 else 0) := by
  intro n
  induction n with
  | zero => intro f p b h; omega
  | succ n ih =>
    intro f p b h
    simp only [cnt]
    by_cases hp : p = n
    · subst hp
      have : cnt p (fun i => if i = p then b else f i) = cnt p f :=
        cnt_congr p _ _ (fun i hi => by simp [Nat.ne_of_lt hi])
      rw [this]; simp; omega
    · have := ih f p b (by omega)
      have hn : n ≠ p := fun h => hp h.symm
      simp only [hn, if_false]
      omega

theorem cnt_pos_of : ∀ (n : Nat) (f : Nat → Bool) (p : Nat), p < n → f p = true → 1 ≤ cnt n f := by
  intro n
  induction n with
  | zero => intro f p h; omega
  | succ n ih =>
    intro f p h hf
    simp only [cnt]
    by_cases hp : p = n
    · subst hp; simp [hf]
    · have := ih f p (by omega) hf; omega

theorem cnt_zero_of : ∀ (n : Nat) (f : Nat → Bool), (∀ i, i < n → f i = false) → cnt n f = 0 := by
  intro n
  induction n with
  | zero => intros; rfl
  | succ n ih =>
    intro f h
    simp only [cnt]; rw [ih f (fun i hi => h i (by omega)), h n (by omega)]; rfl

theorem cnt_eq_zero : ∀ (n : Nat) (f : Nat → Bool), cnt n f = 0 → ∀ i, i < n → f i = false := by
  intro n
  induction n with
  | zero => intro f _ i hi; omega
  | succ n ih =>
    intro f h i hi
    simp only [cnt] at h
    by_cases hin : i = n
    · subst hin
      cases hf : f i
      · rfl
      · simp [hf] at h
    · exact ih f (by omega) i (by omega)

/-- producers that hold a reference on queue q and have not enqueued yet -/
def holders (s : St) (q : Nat) : Nat := cnt s.np (fun p => decide ((s.prods p).pc = .enq q))

/-! ### predicates on program counters -/

/-- the producer's pc mentions queue q -/
def PcQ : PPC → Nat → Prop
  | .fastRead q', q | .fastCas q' _, q | .putBack _ q', q | .slowRead q', q | .slowCas q' _, q
  | .slowDel q', q | .addRef q', q | .enq q', q | .rel q', q => q' = q
  | _, _ => False

/-- the producer privately holds channel c -/
def PcC : PPC → Nat → Prop
  | .los c', c | .putBack c' _, c => c' = c
  | _, _ => False

/-- the convoy has claimed the queue (`refs` is the sentinel) -/
def Claimed : CPC → Prop
  | .del | .recycle | .loadChk | .restore | .exited => True
  | _ => False

/-- the convoy knows the table no longer maps the key to its queue -/
def Gone : CPC → Prop
  | .recycle | .loadChk | .exited => True
  | _ => False

def execN : CPC → Nat
  | .exec _ => 1
  | _ => 0

instance : DecidablePred Claimed := fun c => by cases c <;> simp [Claimed] <;> infer_instance
instance : DecidablePred Gone := fun c => by cases c <;> simp [Gone] <;> infer_instance

/-- the producer has enqueued its task -/
def Enqueued : PPC → Prop
  | .rel _ | .done => True
  | _ => False

/-! ### the invariant (repaired protocol) -/

/-- facts about one queue -/
structure QInv (s : St) (q : Nat) : Prop where
  ch_lt : (s.qs q).ch < s.nch
  /-- `refs` is negative exactly from the claiming CAS on -/
  phase : (s.qs q).refs < 0 ↔ Claimed (s.qs q).cpc
  /-- an unclaimed queue is the one the table maps its key to -/
  live_map : 0 ≤ (s.qs q).refs → s.map (s.qs q).key = some q
  gone : Gone (s.qs q).cpc → s.map (s.qs q).key ≠ some q
  no_restore : (s.qs q).cpc ≠ .restore
  ch_pool : (s.qs q).cpc ≠ .exited → (s.qs q).ch ∉ s.pool
  /-- `refs` bounds in-flight producers + queued + running tasks (the point of fix 4640436) -/
  refs_ge : 0 ≤ (s.qs q).refs →
    ((holders s q + (s.chans (s.qs q).ch).length + (s.qs q).ovf.length + execN (s.qs q).cpc : Nat) : Int)
      ≤ (s.qs q).refs
  claimed_hold : (s.qs q).refs < 0 → holders s q = 0 ∧ (s.qs q).ovf = []
  claimed_chan : (s.qs q).refs < 0 → (s.qs q).cpc ≠ .exited → s.chans (s.qs q).ch = []
  mode : (s.qs q).ovfMode = false → (s.qs q).ovf = []

/-- facts about one producer -/
structure PInv (s : St) (p : Nat) : Prop where
  pc_q : ∀ q, PcQ (s.prods p).pc q → q < s.nq ∧ (s.qs q).key = (s.prods p).key
  pc_c : ∀ c, PcC (s.prods p).pc c → c < s.nch ∧ c ∉ s.pool ∧ s.chans c = [] ∧
    ∀ q, q < s.nq → (s.qs q).cpc ≠ .exited → (s.qs q).ch ≠ c
  addref_idle : ∀ q, (s.prods p).pc = .addRef q → (s.qs q).cpc = .idle
  cas_nonneg : ∀ q r, ((s.prods p).pc = .fastCas q r ∨ (s.prods p).pc = .slowCas q r) → 0 ≤ r
  /-- a producer about to `CompareAndDelete` has seen the queue claimed (and claims are final) -/
  del_claimed : ∀ q, (s.prods p).pc = .slowDel q → (s.qs q).refs < 0

/-- global facts -/
structure GInv (s : St) : Prop where
  map_lt : ∀ k q, s.map k = some q → q < s.nq ∧ (s.qs q).key = k
  pool_lt : ∀ c, c ∈ s.pool → c < s.nch
  pool_nodup : s.pool.Nodup
  /-- a recycled channel is empty -/
  pool_empty : ∀ c, c ∈ s.pool → s.chans c = []
  ch_inj : ∀ q1 q2, q1 < s.nq → q2 < s.nq → q1 ≠ q2 → (s.qs q1).cpc ≠ .exited →
    (s.qs q2).cpc ≠ .exited → (s.qs q1).ch ≠ (s.qs q2).ch
  held_uniq : ∀ p p', p < s.np → p' < s.np → ∀ c, PcC (s.prods p).pc c → PcC (s.prods p').pc c → p = p'
  addref_uniq : ∀ p p', p < s.np → p' < s.np → ∀ q, (s.prods p).pc = .addRef q →
    (s.prods p').pc = .addRef q → p = p'
  /-- nothing lost, duplicated or reordered -/
  main : ∀ k, s.done k ++ pending s k = s.accepted k
  acc : ∀ k t, t ∈ s.accepted k → t < s.np ∧ (s.prods t).key = k ∧ Enqueued (s.prods t).pc
  acc_nodup : ∀ k, (s.accepted k).Nodup

structure Inv (s : St) : Prop where
  q : ∀ q, q < s.nq → QInv s q
  p : ∀ p, p < s.np → PInv s p
  g : GInv s

theorem inv_init : Inv init := by
  refine ⟨?_, ?_, ?_⟩
  · intro q hq; simp [init] at hq
  · intro p hp; simp [init] at hp
  · constructor <;> simp [init, pending]

/-! ### frame lemmas -/

theorem QInv.frame {s s' : St} {q : Nat} (h : QInv s q) (hq : s'.qs q = s.qs q) (hn : s.nch ≤ s'.nch)
    (hm : s'.map (s.qs q).key = some q ↔ s.map (s.qs q).key = some q)
    (hp : (s.qs q).cpc ≠ .exited → (s.qs q).ch ∈ s'.pool → (s.qs q).ch ∈ s.pool)
    (hh : holders s' q = holders s q)
    (hc : (s.qs q).cpc ≠ .exited → s'.chans (s.qs q).ch = s.chans (s.qs q).ch) : QInv s' q := by
  have hne : 0 ≤ (s.qs q).refs → (s.qs q).cpc ≠ .exited := by
    intro h0 he
    have : (s.qs q).refs < 0 := h.phase.mpr (by rw [he]; trivial)
    omega
  constructor
  · rw [hq]; exact Nat.lt_of_lt_of_le h.ch_lt hn
  · rw [hq]; exact h.phase
  · rw [hq]; intro h0; exact hm.mpr (h.live_map h0)
  · rw [hq]; intro hg hm'; exact h.gone hg (hm.mp hm')
  · rw [hq]; exact h.no_restore
  · rw [hq]; intro he hin; exact h.ch_pool he (hp he hin)
  · rw [hq, hh]; intro h0; rw [hc (hne h0)]; exact h.refs_ge h0
  · rw [hq, hh]; exact h.claimed_hold
  · rw [hq]; intro h0 he; rw [hc he]; exact h.claimed_chan h0 he
  · rw [hq]; exact h.mode

theorem PInv.frame {s s' : St} {p : Nat} (h : PInv s p) (hp : s'.prods p = s.prods p)
    (hnq : s.nq ≤ s'.nq) (hkey : ∀ q, q < s.nq → (s'.qs q).key = (s.qs q).key)
    (hnch : s.nch ≤ s'.nch)
    (hpool : ∀ c, PcC (s.prods p).pc c → c ∈ s'.pool → c ∈ s.pool)
    (hch : ∀ c, PcC (s.prods p).pc c → s'.chans c = s.chans c)
    (hown : ∀ c, PcC (s.prods p).pc c → ∀ q, q < s'.nq → (s'.qs q).cpc ≠ .exited → (s'.qs q).ch = c →
      q < s.nq ∧ (s.qs q).cpc ≠ .exited ∧ (s.qs q).ch = c)
    (hidle : ∀ q, (s.prods p).pc = .addRef q → (s'.qs q).cpc = (s.qs q).cpc)
    (hdel : ∀ q, (s.prods p).pc = .slowDel q → (s.qs q).refs < 0 → (s'.qs q).refs < 0) : PInv s' p := by
  constructor
  · rw [hp]; intro q hq
    obtain ⟨a, b⟩ := h.pc_q q hq
    exact ⟨Nat.lt_of_lt_of_le a hnq, by rw [hkey q a]; exact b⟩
  · rw [hp]; intro c hc
    obtain ⟨a, b, c', d⟩ := h.pc_c c hc
    refine ⟨Nat.lt_of_lt_of_le a hnch, fun hin => b (hpool c hc hin), by rw [hch c hc]; exact c', ?_⟩
    intro q hq he heq
    obtain ⟨x, y, z⟩ := hown c hc q hq he heq
    exact d q x y z
  · rw [hp]; intro q hq; rw [hidle q hq]; exact h.addref_idle q hq
  · rw [hp]; exact h.cas_nonneg
  · rw [hp]; intro q hq; exact hdel q hq (h.del_claimed q hq)

theorem pending_frame {s s' : St} {k : Nat} (hm : s'.map k = s.map k)
    (hq : ∀ q, s.map k = some q → s'.qs q = s.qs q ∧ s'.chans (s.qs q).ch = s.chans (s.qs q).ch) :
    pending s' k = pending s k := by
  unfold pending
  rw [hm]
  cases hmk : s.map k with
  | none => rfl
  | some q =>
    obtain ⟨a, b⟩ := hq q hmk
    simp only [a, b]

theorem holders_upd (s s' : St) (p : Nat) (q : Nat) (hp : p < s.np) (hn : s'.np = s.np)
    (hpr : ∀ i, i ≠ p → (s'.prods i).pc = (s.prods i).pc) :
    holders s' q + (if (s.prods p).pc = .enq q then 1 else 0)
      = holders s q + (if (s'.prods p).pc = .enq q then 1 else 0) := by
  unfold holders
  rw [hn]
  have h1 : cnt s.np (fun i => decide ((s'.prods i).pc = .enq q))
      = cnt s.np (fun i => if i = p then decide ((s'.prods p).pc = .enq q) else decide ((s.prods i).pc = .enq q)) := by
    apply cnt_congr
    intro i _
    by_cases hi : i = p
    · subst hi; simp
    · simp [hi, hpr i hi]
  rw [h1]
  have := cnt_update s.np (fun i => decide ((s.prods i).pc = .enq q)) p (decide ((s'.prods p).pc = .enq q)) hp
  simp only [decide_eq_true_eq] at this
  exact this

theorem holders_same (s s' : St) (q : Nat) (hn : s'.np = s.np)
    (hpr : ∀ i, i < s.np → (s'.prods i).pc = (s.prods i).pc) : holders s' q = holders s q := by
  unfold holders
  rw [hn]
  apply cnt_congr
  intro i hi
  rw [hpr i hi]

theorem holders_pos {s : St} {p : Nat} {q : Nat} (hp : p < s.np) (h : (s.prods p).pc = .enq q) :
    1 ≤ holders s q :=
  cnt_pos_of s.np _ p hp (by simp [h])

end DaeVerif.C13.TQ
