import DaeVerif.C13.TQConv2
/-! C13 (a) — invariant preservation: idle GC (claim, delete, recycle) and spawning a producer -/
namespace DaeVerif.C13.TQ

/-- the claiming `CAS(refs, 0, sentinel)` succeeds: with refs = 0 nothing is queued, running or
in flight -/
theorem inv_claim {s : St} (h : Inv s) (q : Nat) (hq : q < s.nq)
    (hcpc : (s.qs q).cpc = .claim) (hrefs : (s.qs q).refs = 0) :
    Inv (setQ s q { s.qs q with refs := sentinel, cpc := .del }) := by
  have g := h.g
  have hQ := h.q q hq
  have hne : (s.qs q).cpc ≠ .exited := by rw [hcpc]; simp
  have hidle : (s.qs q).cpc ≠ .idle := by rw [hcpc]; simp
  have hge := hQ.refs_ge (by omega)
  rw [hrefs, hcpc] at hge
  simp [execN] at hge
  have hh0 : holders s q = 0 := by omega
  have hch0 : s.chans (s.qs q).ch = [] := by
    have : (s.chans (s.qs q).ch).length = 0 := by omega
    exact List.eq_nil_of_length_eq_zero this
  have hov0 : (s.qs q).ovf = [] := by
    have : (s.qs q).ovf.length = 0 := by omega
    exact List.eq_nil_of_length_eq_zero this
  have hmapq := hQ.live_map (by omega)
  refine ⟨?_, ?_, ?_⟩
  · intro q' hq'
    have hq0 : q' < s.nq := hq'
    by_cases hqq : q' = q
    · subst hqq
      constructor
      · simp; exact hQ.ch_lt
      · simp [Claimed, sentinel]
      · simp [sentinel]
      · simp [Gone]
      · simp
      · simp; exact hQ.ch_pool hne
      · simp [sentinel]
      · rw [holders_setQ]; intro _; exact ⟨hh0, by simpa using hov0⟩
      · simp; intro _; exact hch0
      · simp; exact hQ.mode
    · apply (h.q q' hq0).frame
      · simp [hqq]
      · exact Nat.le_refl _
      · exact Iff.rfl
      · exact fun _ x => x
      · exact holders_setQ _ _ _ _
      · intro _; rfl
  · intro i hi
    have hi' : i < s.np := hi
    refine (h.p i hi').frame_setQ q _ rfl rfl ?_ ?_ ?_ ?_
    · intro _; exact hne
    · intro e; exact absurd e hidle
    · intro _ q' hq' e
      subst e
      exact hidle ((h.p i hi').addref_idle q' hq')
    · intro hlt; omega
  · apply g.frame
    · rfl
    · intro k q' hm'; exact hm'
    · intro q'; simp only [setQ_qs]; by_cases hqq : q' = q
      · subst hqq; simp
      · simp [hqq]
    · intro q'; simp only [setQ_qs]; by_cases hqq : q' = q
      · subst hqq; simp
      · simp [hqq]
    · intro q' he; simp only [setQ_qs] at he; by_cases hqq : q' = q
      · subst hqq; exact hne
      · simpa [hqq] using he
    · exact g.pool_lt
    · exact g.pool_nodup
    · exact g.pool_empty
    · exact g.held_uniq
    · exact g.addref_uniq
    · refine main_frame g ?_ ?_ ?_
      · rfl
      · rfl
      intro k
      unfold pending
      simp only [setQ_map, setQ_chans]
      cases s.map k with
      | none => rfl
      | some q' =>
        simp only [setQ_qs]
        by_cases hqq : q' = q
        · subst hqq; simp [cur, hcpc]
        · simp [hqq]
    · exact g.acc
    · exact g.acc_nodup

/-- the convoy's `CompareAndDelete(key, q)` succeeds -/
theorem inv_delOk {s : St} (h : Inv s) (q : Nat) (hq : q < s.nq)
    (hcpc : (s.qs q).cpc = .del) (hm : s.map (s.qs q).key = some q) :
    Inv (setCpc (setMap s (s.qs q).key none) q .recycle) := by
  have g := h.g
  have hQ := h.q q hq
  have hne : (s.qs q).cpc ≠ .exited := by rw [hcpc]; simp
  have hidle : (s.qs q).cpc ≠ .idle := by rw [hcpc]; simp
  have hlt : (s.qs q).refs < 0 := hQ.phase.mpr (by rw [hcpc]; simp [Claimed])
  have hhold : ∀ q', holders (setCpc (setMap s (s.qs q).key none) q .recycle) q' = holders s q' :=
    fun q' => holders_same _ _ _ rfl (fun _ _ => rfl)
  refine ⟨?_, ?_, ?_⟩
  · intro q' hq'
    have hq0 : q' < s.nq := hq'
    by_cases hqq : q' = q
    · subst hqq
      constructor
      · simp [setCpc]; exact hQ.ch_lt
      · simp [setCpc, Claimed]; exact hlt
      · simp [setCpc]; first | exact hlt | (intro h0; omega)
      · simp [setCpc]
      · simp [setCpc]
      · simp [setCpc]; exact hQ.ch_pool hne
      · simp [setCpc]; first | exact hlt | (intro h0; omega)
      · rw [hhold]; simp [setCpc]; intro _; exact hQ.claimed_hold hlt
      · simp [setCpc]; intro _; exact hQ.claimed_chan hlt hne
      · simp [setCpc]; exact hQ.mode
    · apply (h.q q' hq0).frame
      · simp [setCpc, hqq]
      · exact Nat.le_refl _
      · simp only [setCpc, setQ_map, setMap_map]
        by_cases hk : (s.qs q').key = (s.qs q).key
        · simp [hk, hm]; exact fun e => hqq e.symm
        · simp [hk]
      · exact fun _ x => x
      · exact hhold q'
      · intro _; rfl
  · intro i hi
    have hi' : i < s.np := hi
    refine (h.p i hi').frame (s' := setCpc (setMap s (s.qs q).key none) q .recycle)
      rfl (Nat.le_refl _) ?_ (Nat.le_refl _) (fun _ _ x => x) (fun _ _ => rfl) ?_ ?_ ?_
    · intro q' _; simp only [setCpc, setQ_qs, setMap_qs]; by_cases hqq : q' = q
      · subst hqq; simp
      · simp [hqq]
    · intro c _ q' hq' he heq
      simp only [setCpc, setQ_qs, setMap_qs] at he heq
      by_cases hqq : q' = q
      · subst hqq; simp at heq; exact ⟨hq', hne, heq⟩
      · simp [hqq] at he heq; exact ⟨hq', he, heq⟩
    · intro q' hq'
      have : q' ≠ q := by intro e; subst e; exact hidle ((h.p i hi').addref_idle q' hq')
      simp [setCpc, this]
    · intro q' _ hlt'
      simp only [setCpc, setQ_qs, setMap_qs]; by_cases hqq : q' = q
      · subst hqq; simpa using hlt'
      · simpa [hqq] using hlt'
  · apply g.frame
    · rfl
    · intro k q' hmk
      simp only [setCpc, setQ_map, setMap_map] at hmk
      by_cases hk : k = (s.qs q).key
      · simp [hk] at hmk
      · simpa [hk] using hmk
    · intro q'; simp only [setCpc, setQ_qs, setMap_qs]; by_cases hqq : q' = q
      · subst hqq; simp
      · simp [hqq]
    · intro q'; simp only [setCpc, setQ_qs, setMap_qs]; by_cases hqq : q' = q
      · subst hqq; simp
      · simp [hqq]
    · intro q' he; simp only [setCpc, setQ_qs, setMap_qs] at he; by_cases hqq : q' = q
      · subst hqq; exact hne
      · simpa [hqq] using he
    · exact g.pool_lt
    · exact g.pool_nodup
    · exact g.pool_empty
    · exact g.held_uniq
    · exact g.addref_uniq
    · intro k
      show s.done k ++ pending (setCpc (setMap s (s.qs q).key none) q .recycle) k = s.accepted k
      by_cases hk : k = (s.qs q).key
      · have hold := g.main k
        have h1 : pending s k = [] := by
          unfold pending; rw [hk, hm]
          simp [cur, hcpc, hQ.claimed_chan hlt hne, (hQ.claimed_hold hlt).2]
        have h2 : pending (setCpc (setMap s (s.qs q).key none) q .recycle) k = [] := by
          unfold pending; simp [setCpc, hk]
        rw [h2]; rw [h1] at hold; exact hold
      · have : pending (setCpc (setMap s (s.qs q).key none) q .recycle) k = pending s k := by
          refine pending_frame ?_ ?_
          · simp [setCpc, hk]
          · intro q' hmk
            obtain ⟨a, b⟩ := g.map_lt k q' hmk
            have hqq : q' ≠ q := by intro e; subst e; exact hk b.symm
            exact ⟨by simp [setCpc, hqq], rfl⟩
        rw [this]; exact g.main k
    · exact g.acc
    · exact g.acc_nodup

/-- `queueChPool.Put(q.ch)` and the convoy returns -/
theorem inv_recycle {s : St} (h : Inv s) (q : Nat) (hq : q < s.nq)
    (hcpc : (s.qs q).cpc = .recycle) :
    Inv (setCpc (setPool s (s.pool ++ [(s.qs q).ch])) q .exited) := by
  have g := h.g
  have hQ := h.q q hq
  have hne : (s.qs q).cpc ≠ .exited := by rw [hcpc]; simp
  have hidle : (s.qs q).cpc ≠ .idle := by rw [hcpc]; simp
  have hlt : (s.qs q).refs < 0 := hQ.phase.mpr (by rw [hcpc]; simp [Claimed])
  have hnotmap : s.map (s.qs q).key ≠ some q := hQ.gone (by rw [hcpc]; simp [Gone])
  have hch0 := hQ.claimed_chan hlt hne
  have hnp := hQ.ch_pool hne
  have hhold : ∀ q', holders (setCpc (setPool s (s.pool ++ [(s.qs q).ch])) q .exited) q' = holders s q' :=
    fun q' => holders_same _ _ _ rfl (fun _ _ => rfl)
  refine ⟨?_, ?_, ?_⟩
  · intro q' hq'
    have hq0 : q' < s.nq := hq'
    by_cases hqq : q' = q
    · subst hqq
      constructor
      · simp [setCpc]; exact hQ.ch_lt
      · simp [setCpc, Claimed]; exact hlt
      · simp [setCpc]; first | exact hlt | (intro h0; omega)
      · simp [setCpc]; intro _; exact hnotmap
      · simp [setCpc]
      · simp [setCpc]
      · simp [setCpc]; first | exact hlt | (intro h0; omega)
      · rw [hhold]; simp [setCpc]; intro _; exact hQ.claimed_hold hlt
      · simp [setCpc]
      · simp [setCpc]; exact hQ.mode
    · apply (h.q q' hq0).frame
      · simp [setCpc, hqq]
      · exact Nat.le_refl _
      · exact Iff.rfl
      · intro he hin
        simp [setCpc] at hin
        cases hin with
        | inl h1 => exact h1
        | inr h1 => exact absurd h1 (g.ch_inj q' q hq0 hq hqq he hne)
      · exact hhold q'
      · intro _; rfl
  · intro i hi
    have hi' : i < s.np := hi
    refine (h.p i hi').frame (s' := setCpc (setPool s (s.pool ++ [(s.qs q).ch])) q .exited)
      rfl (Nat.le_refl _) ?_ (Nat.le_refl _) ?_ (fun _ _ => rfl) ?_ ?_ ?_
    · intro q' _; simp only [setCpc, setQ_qs, setPool_qs]; by_cases hqq : q' = q
      · subst hqq; simp
      · simp [hqq]
    · intro c hc hin
      simp [setCpc] at hin
      cases hin with
      | inl h1 => exact h1
      | inr h1 => exact absurd h1.symm (((h.p i hi').pc_c c hc).2.2.2 q hq hne)
    · intro c _ q' hq' he heq
      simp only [setCpc, setQ_qs, setPool_qs] at he heq
      by_cases hqq : q' = q
      · subst hqq; simp at he
      · simp [hqq] at he heq; exact ⟨hq', he, heq⟩
    · intro q' hq'
      have : q' ≠ q := by intro e; subst e; exact hidle ((h.p i hi').addref_idle q' hq')
      simp [setCpc, this]
    · intro q' _ hlt'
      simp only [setCpc, setQ_qs, setPool_qs]; by_cases hqq : q' = q
      · subst hqq; simpa using hlt'
      · simpa [hqq] using hlt'
  · apply g.frame
    · rfl
    · intro k q' hmk; exact hmk
    · intro q'; simp only [setCpc, setQ_qs, setPool_qs]; by_cases hqq : q' = q
      · subst hqq; simp
      · simp [hqq]
    · intro q'; simp only [setCpc, setQ_qs, setPool_qs]; by_cases hqq : q' = q
      · subst hqq; simp
      · simp [hqq]
    · intro q' he; simp only [setCpc, setQ_qs, setPool_qs] at he; by_cases hqq : q' = q
      · subst hqq; simp at he
      · simpa [hqq] using he
    · intro x hx
      simp [setCpc] at hx
      cases hx with
      | inl h1 => exact g.pool_lt x h1
      | inr h1 => subst h1; exact hQ.ch_lt
    · show (s.pool ++ [(s.qs q).ch]).Nodup
      rw [List.nodup_append]
      refine ⟨g.pool_nodup, by simp, ?_⟩
      intro a ha b hb
      simp at hb; subst hb
      intro hab; subst hab; exact hnp ha
    · intro x hx
      simp [setCpc] at hx
      cases hx with
      | inl h1 => exact g.pool_empty x h1
      | inr h1 => subst h1; exact hch0
    · exact g.held_uniq
    · exact g.addref_uniq
    · refine main_frame g ?_ ?_ ?_
      · rfl
      · rfl
      intro k
      refine pending_frame ?_ ?_
      · rfl
      · intro q' hmk
        obtain ⟨a, b⟩ := g.map_lt k q' hmk
        have hqq : q' ≠ q := by intro e; subst e; rw [b] at hnotmap; exact hnotmap hmk
        exact ⟨by simp [setCpc, hqq], rfl⟩
    · exact g.acc
    · exact g.acc_nodup

/-- a new `EmitTask` call starts -/
theorem inv_spawn {s : St} (h : Inv s) (k : Nat) : Inv (addProd s k) := by
  have g := h.g
  have hhold : ∀ q, holders (addProd s k) q = holders s q := by
    intro q
    unfold holders
    show cnt (s.np + 1) (fun p => decide (((addProd s k).prods p).pc = .enq q))
      = cnt s.np (fun p => decide ((s.prods p).pc = .enq q))
    have e1 : cnt (s.np + 1) (fun p => decide (((addProd s k).prods p).pc = .enq q))
        = cnt s.np (fun p => decide (((addProd s k).prods p).pc = .enq q))
          + (if decide (((addProd s k).prods s.np).pc = .enq q) then 1 else 0) := rfl
    rw [e1]
    have e2 : cnt s.np (fun p => decide (((addProd s k).prods p).pc = .enq q))
        = cnt s.np (fun p => decide ((s.prods p).pc = .enq q)) :=
      cnt_congr _ _ _ (fun i hi => by have : i ≠ s.np := Nat.ne_of_lt hi; simp [this])
    rw [e2]; simp
  refine ⟨?_, ?_, ?_⟩
  · intro q hq
    have hq0 : q < s.nq := hq
    apply (h.q q hq0).frame
    · rfl
    · exact Nat.le_refl _
    · exact Iff.rfl
    · exact fun _ x => x
    · exact hhold q
    · intro _; rfl
  · intro i hi
    have hi' : i < s.np + 1 := hi
    by_cases hin : i = s.np
    · subst hin
      constructor
      · intro q hq; simp [PcQ] at hq
      · intro c hc; simp [PcC] at hc
      · intro q hq; simp at hq
      · intro q r hc; simp at hc
      · intro q hq; simp at hq
    · have hi0 : i < s.np := by omega
      exact (h.p i hi0).frame_same (by simp [hin]) rfl rfl rfl rfl rfl
  · constructor
    · exact g.map_lt
    · exact g.pool_lt
    · exact g.pool_nodup
    · exact g.pool_empty
    · exact g.ch_inj
    · intro i i' hi hi' c hc hc'
      have hi0 : i < s.np + 1 := hi
      have hi0' : i' < s.np + 1 := hi'
      simp only [addProd_prods] at hc hc'
      by_cases hin : i = s.np
      · simp [hin, PcC] at hc
      · by_cases hin' : i' = s.np
        · simp [hin', PcC] at hc'
        · simp [hin] at hc; simp [hin'] at hc'
          exact g.held_uniq i i' (by omega) (by omega) c hc hc'
    · intro i i' hi hi' q hq hq'
      have hi0 : i < s.np + 1 := hi
      have hi0' : i' < s.np + 1 := hi'
      simp only [addProd_prods] at hq hq'
      by_cases hin : i = s.np
      · simp [hin] at hq
      · by_cases hin' : i' = s.np
        · simp [hin'] at hq'
        · simp [hin] at hq; simp [hin'] at hq'
          exact g.addref_uniq i i' (by omega) (by omega) q hq hq'
    · refine main_frame g ?_ ?_ ?_
      · rfl
      · rfl
      intro k'
      refine pending_frame ?_ ?_
      · rfl
      · intro _ _; exact ⟨rfl, rfl⟩
    · intro k' t ht
      obtain ⟨a, b, c⟩ := g.acc k' t ht
      have : t ≠ s.np := Nat.ne_of_lt a
      refine ⟨by show t < s.np + 1; omega, ?_, ?_⟩
      · simp [this]; exact b
      · simp [this]; exact c
    · exact g.acc_nodup

end DaeVerif.C13.TQ
