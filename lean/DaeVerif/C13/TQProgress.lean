import DaeVerif.C13.TQStep
/-!
# C13 (a) — bounded progress of the repaired task-queue protocol

`tq_never_stranded` says that waiting work keeps its queue alive; this file adds how long the wait can
be, in steps of the convoy (the only assumption about the Go scheduler left is that the convoy goroutine
gets scheduled at all): when flow `k` has a waiting task `t` at the head of its queue and the convoy is
not running another task, then after AT MOST FIVE steps of that convoy — interleaved with any number of
steps of any producers and any other convoys, with the idle timer firing or spurious wake-ups arriving at
any moment — the convoy is running `t`.  The idle-GC path cannot intervene: its emptiness re-checks fail
and the claiming CAS fails (`refs ≥ 1`, fix 4640436).
-/
namespace DaeVerif.C13.TQ

/-- upper bound on the number of own steps from this pc to `exec` while work is waiting -/
def rank : CPC → Nat
  | .exec _ => 0
  | .popOvf => 1
  | .top => 2
  | .chk1 => 3
  | .claim => 3
  | .idle => 3
  | .chk3 => 4
  | .wait => 4
  | .chk2 => 5
  | _ => 1

theorem rank_le_five (c : CPC) : rank c ≤ 5 := by cases c <;> simp [rank]

theorem rank_pos (c : CPC) (h : ∀ t, c ≠ .exec t) : 1 ≤ rank c := by
  cases c <;> simp [rank]
  exact h _ rfl

/-- flow `k`'s queue is `q`, its convoy is not running a task, and `t` is the oldest waiting task -/
structure Head (s : St) (k q t : Nat) : Prop where
  map : s.map k = some q
  notExec : ∀ t', (s.qs q).cpc ≠ .exec t'
  head : ∃ rest, s.chans (s.qs q).ch ++ (s.qs q).ovf = t :: rest

theorem head_of_pending {s : St} {k q t : Nat} {rest : List Nat} (hm : s.map k = some q)
    (hne : ∀ t', (s.qs q).cpc ≠ .exec t') (hp : pending s k = t :: rest) : Head s k q t := by
  refine ⟨hm, hne, rest, ?_⟩
  unfold pending at hp
  rw [hm] at hp
  have : cur (s.qs q) = [] := by
    unfold cur
    cases hc : (s.qs q).cpc <;> simp
    exact absurd hc (hne _)
  simpa [this] using hp

theorem Head.frame {s s' : St} {k q t : Nat} (h : Head s k q t) (hm : s'.map k = some q)
    (hc : (s'.qs q).cpc = (s.qs q).cpc ∨ ((s.qs q).cpc = .idle ∧ (s'.qs q).cpc = .top))
    (hl : ∃ suf, s'.chans (s'.qs q).ch ++ (s'.qs q).ovf = s.chans (s.qs q).ch ++ (s.qs q).ovf ++ suf) :
    Head s' k q t ∧ rank (s'.qs q).cpc ≤ rank (s.qs q).cpc := by
  obtain ⟨rest, hr⟩ := h.head
  obtain ⟨suf, hs⟩ := hl
  refine ⟨⟨hm, ?_, rest ++ suf, by rw [hs, hr]; rfl⟩, ?_⟩
  · intro t' ht'
    rcases hc with hc | ⟨_, hc⟩
    · exact h.notExec t' (by rw [← hc]; exact ht')
    · rw [hc] at ht'; cases ht'
  · rcases hc with hc | ⟨h1, h2⟩
    · rw [hc]; exact Nat.le_refl _
    · rw [h1, h2]; simp [rank]

/-- the queue of a flow with waiting work is in its unclaimed phase -/
theorem Head.live {s : St} {k q t : Nat} (h : Head s k q t) (hi : Inv s) :
    q < s.nq ∧ (s.qs q).key = k ∧ 0 ≤ (s.qs q).refs ∧ ¬ Claimed (s.qs q).cpc ∧ 1 ≤ (s.qs q).refs := by
  obtain ⟨hq, hk⟩ := hi.g.map_lt k q h.map
  have hQ := hi.q q hq
  obtain ⟨rest, hr⟩ := h.head
  have hnn : 0 ≤ (s.qs q).refs := by
    by_cases hneg : (s.qs q).refs < 0
    · exfalso
      have hovf := (hQ.claimed_hold hneg).2
      by_cases hex : (s.qs q).cpc = .exited
      · have := hQ.gone (by rw [hex]; trivial)
        rw [hk] at this; exact this h.map
      · have := hQ.claimed_chan hneg hex
        rw [this, hovf] at hr; cases hr
    · omega
  have hnc : ¬ Claimed (s.qs q).cpc := fun hc => by
    have := hQ.phase.mpr hc; omega
  refine ⟨hq, hk, hnn, hnc, ?_⟩
  have hge := hQ.refs_ge hnn
  have hlen : 1 ≤ (s.chans (s.qs q).ch).length + (s.qs q).ovf.length := by
    have := congrArg List.length hr
    simp at this; omega
  omega

/-- **One step of the flow's own convoy** starts the head task or gets strictly closer to it. -/
theorem own_step {cfg : Cfg} (hcfg : cfg.Repaired) {s s' : St} {k q t : Nat} (hi : Inv s) (h : Head s k q t)
    (sel : Sel) (hs : stepConv cfg s q sel = some s') :
    (s'.qs q).cpc = .exec t ∨ (Head s' k q t ∧ rank (s'.qs q).cpc < rank (s.qs q).cpc) := by
  obtain ⟨hq, hk, hnn, hnc, hpos⟩ := h.live hi
  obtain ⟨rest, hr⟩ := h.head
  have hrep : cfg.popRepolls = true := hcfg.2
  unfold stepConv at hs
  simp only [hq, if_true] at hs
  -- a step that only moves the pc keeps the head
  have keep : ∀ pc, (∀ t', pc ≠ CPC.exec t') → Head (setCpc s q pc) k q t := by
    intro pc hpc
    refine ⟨h.map, ?_, rest, ?_⟩
    · intro t'; simp [setCpc]; exact hpc t'
    · simpa [setCpc] using hr
  cases hc : (s.qs q).cpc <;> simp only [hc] at hs
  case idle => cases hs
  case exec t' => exact absurd hc (h.notExec t')
  case top =>
    cases hch : s.chans (s.qs q).ch with
    | nil =>
      simp only [hch] at hs; injection hs with hs; subst hs
      exact Or.inr ⟨keep _ (by intro t'; simp), by simp [setCpc, rank]⟩
    | cons a l =>
      simp only [hch] at hs; injection hs with hs; subst hs
      rw [hch] at hr; simp at hr
      left; simp [setCpc, hr.1]
  case popOvf =>
    simp only [hrep, if_true] at hs
    cases hch : s.chans (s.qs q).ch with
    | cons a l =>
      simp only [hch] at hs; injection hs with hs; subst hs
      rw [hch] at hr; simp at hr
      left; simp [setCpc, hr.1]
    | nil =>
      simp only [hch] at hs
      cases hov : (s.qs q).ovf with
      | nil => rw [hch, hov] at hr; cases hr
      | cons a l =>
        simp only [hov] at hs; injection hs with hs; subst hs
        rw [hch, hov] at hr; simp at hr
        left; simp [hr.1]
  case wait =>
    cases sel with
    | recv =>
      simp only at hs
      cases hch : s.chans (s.qs q).ch with
      | nil => simp [hch] at hs
      | cons a l =>
        simp only [hch] at hs; injection hs with hs; subst hs
        rw [hch] at hr; simp at hr
        left; simp [setCpc, hr.1]
    | wake =>
      simp only at hs
      have : ¬ (s.qs q).refs < 0 := by omega
      simp only [this, if_false] at hs; injection hs with hs; subst hs
      exact Or.inr ⟨keep _ (by intro t'; simp), by simp [setCpc, rank]⟩
    | timer =>
      simp only at hs; injection hs with hs; subst hs
      exact Or.inr ⟨keep _ (by intro t'; simp), by simp [setCpc, rank]⟩
  case chk1 =>
    have : (s.qs q).refs > 0 := by omega
    simp only [this, if_true] at hs; injection hs with hs; subst hs
    exact Or.inr ⟨keep _ (by intro t'; simp), by simp [setCpc, rank]⟩
  case chk2 =>
    split at hs <;> (injection hs with hs; subst hs)
    · exact Or.inr ⟨keep _ (by intro t'; simp), by simp [setCpc, rank]⟩
    · exact Or.inr ⟨keep _ (by intro t'; simp), by simp [setCpc, rank]⟩
  case chk3 =>
    split at hs <;> (injection hs with hs; subst hs)
    · exact Or.inr ⟨keep _ (by intro t'; simp), by simp [setCpc, rank]⟩
    · exact Or.inr ⟨keep _ (by intro t'; simp), by simp [setCpc, rank]⟩
  case claim =>
    have : ¬ (s.qs q).refs = 0 := by omega
    simp only [this, if_false] at hs; injection hs with hs; subst hs
    exact Or.inr ⟨keep _ (by intro t'; simp), by simp [setCpc, rank]⟩
  case del => exact absurd (by rw [hc]; trivial) hnc
  case recycle => exact absurd (by rw [hc]; trivial) hnc
  case loadChk => exact absurd (by rw [hc]; trivial) hnc
  case restore => exact absurd (by rw [hc]; trivial) hnc
  case exited => exact absurd (by rw [hc]; trivial) hnc


/-- **A step of another convoy** does not touch the flow's queue. -/
theorem other_conv {cfg : Cfg} {s s' : St} {k q t : Nat} (hi : Inv s) (h : Head s k q t)
    (q' : Nat) (hne : q' ≠ q) (sel : Sel) (hs : stepConv cfg s q' sel = some s') :
    Head s' k q t ∧ rank (s'.qs q).cpc ≤ rank (s.qs q).cpc := by
  obtain ⟨hq, hk, hnn, hnc, hpos⟩ := h.live hi
  have hqe : (s.qs q).cpc ≠ .exited := fun he => hnc (by rw [he]; trivial)
  unfold stepConv at hs
  by_cases hq' : q' < s.nq
  · simp only [hq', if_true] at hs
    have hch : (s.qs q').cpc ≠ .exited → (s.qs q).ch ≠ (s.qs q').ch := fun he =>
      hi.g.ch_inj q q' hq hq' (Ne.symm hne) hqe he
    have hqq : q ≠ q' := Ne.symm hne
    have hmap : s.map (s.qs q').key = some q' → k ≠ (s.qs q').key := by
      intro hm hkk; rw [← hkk, h.map] at hm; injection hm with hm; exact hne hm.symm
    cases hc : (s.qs q').cpc <;> simp only [hc] at hs
    all_goals (try cases sel)
    all_goals (repeat' split at hs)
    all_goals first
      | (cases hs; done)
      | (injection hs with hs; subst hs
         have hch' := hch (by rw [hc]; simp)
         apply h.frame
         · first
             | (simpa [setCpc] using h.map)
             | (simp [setCpc]; exact ⟨hmap (by assumption), h.map⟩)
         · left; simp [setCpc, hqq]
         · exact ⟨[], by simp [setCpc, hqq, hch']⟩)
  · simp [hq'] at hs


/-- **A step of a producer** appends behind the head at most. -/
theorem other_prod {cfg : Cfg} (hcfg : cfg.Repaired) {s s' : St} {k q t : Nat} (hi : Inv s) (h : Head s k q t)
    (p : Nat) (c : Option Nat) (hs : stepProd cfg s p c = some s') :
    Head s' k q t ∧ rank (s'.qs q).cpc ≤ rank (s.qs q).cpc := by
  obtain ⟨hq, hk, hnn, hnc, hpos⟩ := h.live hi
  have hqe : (s.qs q).cpc ≠ .exited := fun he => hnc (by rw [he]; trivial)
  have hQ := hi.q q hq
  unfold stepProd at hs
  by_cases hp : p < s.np
  · simp only [hp, if_true] at hs
    have hP := hi.p p hp
    -- steps that only move the producer's pc
    have plain : ∀ pc, Head (setPc s p pc) k q t ∧ rank ((setPc s p pc).qs q).cpc ≤ rank (s.qs q).cpc :=
      fun pc => h.frame h.map (Or.inl rfl) ⟨[], by simp⟩
    -- a successful CAS on some queue
    have cas : ∀ q' r pc, Head (setPc (setRefs s q' r) p pc) k q t ∧
        rank ((setPc (setRefs s q' r) p pc).qs q).cpc ≤ rank (s.qs q).cpc := by
      intro q' r pc
      refine Head.frame h (by exact h.map) ?_ ?_
      · left; by_cases hqq : q = q' <;> simp [setRefs, hqq]
      · refine ⟨[], ?_⟩; by_cases hqq : q = q' <;> simp [setRefs, hqq]
    cases hpc : (s.prods p).pc <;> simp only [hpc] at hs
    case start => split at hs <;> (injection hs with hs; subst hs; exact plain _)
    case fastRead q' => split at hs <;> (injection hs with hs; subst hs; exact plain _)
    case fastCas q' r =>
      split at hs <;> (injection hs with hs; subst hs)
      · exact cas _ _ _
      · exact plain _
    case create =>
      cases c with
      | none =>
        simp only at hs; injection hs with hs; subst hs
        refine Head.frame h (by exact h.map) (Or.inl rfl) ?_
        refine ⟨[], ?_⟩
        have : (s.qs q).ch ≠ s.nch := Nat.ne_of_lt hQ.ch_lt
        simp [this]
      | some ch =>
        simp only at hs
        split at hs
        · injection hs with hs; subst hs
          exact h.frame h.map (Or.inl rfl) ⟨[], by simp⟩
        · cases hs
    case los ch =>
      cases hm : s.map (s.prods p).key with
      | some q' => simp only [hm] at hs; injection hs with hs; subst hs; exact plain _
      | none =>
        simp only [hm] at hs; injection hs with hs; subst hs
        have hkk : k ≠ (s.prods p).key := by intro hkk; rw [← hkk, h.map] at hm; cases hm
        have hqn : q ≠ s.nq := Nat.ne_of_lt hq
        apply h.frame
        · simp [hkk]; exact h.map
        · left; simp [hqn]
        · exact ⟨[], by simp [hqn]⟩
    case putBack ch q' =>
      injection hs with hs; subst hs
      exact h.frame h.map (Or.inl rfl) ⟨[], by simp⟩
    case slowRead q' => split at hs <;> (injection hs with hs; subst hs; exact plain _)
    case slowCas q' r =>
      split at hs <;> (injection hs with hs; subst hs)
      · exact cas _ _ _
      · exact plain _
    case slowDel q' =>
      have hcl := hP.del_claimed q' hpc
      split at hs <;> (injection hs with hs; subst hs)
      · rename_i hm
        have hkk : k ≠ (s.prods p).key := by
          intro hkk; rw [← hkk, h.map] at hm; injection hm with hm; subst hm; omega
        apply h.frame
        · simp [hkk]; exact h.map
        · left; simp
        · exact ⟨[], by simp⟩
      · exact plain _
    case addRef q' =>
      injection hs with hs; subst hs
      have hidle := hP.addref_idle q' hpc
      refine Head.frame h (by exact h.map) ?_ ?_
      · by_cases hqq : q = q'
        · subst hqq; right; exact ⟨hidle, by simp⟩
        · left; simp [hqq]
      · refine ⟨[], ?_⟩; by_cases hqq : q = q' <;> simp [hqq]
    case enq q' =>
      injection hs with hs; subst hs
      obtain ⟨hq'lt, _⟩ := hP.pc_q q' (by rw [hpc]; simp [PcQ])
      have hQ' := hi.q q' hq'lt
      have hhold : 1 ≤ holders s q' := holders_pos hp hpc
      have hq'live : (s.qs q').cpc ≠ .exited := by
        intro he
        have : (s.qs q').refs < 0 := hQ'.phase.mpr (by rw [he]; trivial)
        have := (hQ'.claimed_hold this).1; omega
      unfold enqueue
      simp only []
      by_cases hqq : q = q'
      · subst hqq
        by_cases hmode : (s.qs q).ovfMode = true
        · simp only [hmode, if_true]
          refine Head.frame h (by exact h.map) ?_ ?_
          · left; simp
          · exact ⟨[p], by simp⟩
        · have hm' : (s.qs q).ovfMode = false := by simpa using hmode
          simp only [hm', Bool.false_eq_true, if_false]
          have hov : (s.qs q).ovf = [] := hQ.mode hm'
          by_cases hcap : (s.chans (s.qs q).ch).length < cfg.cap
          · simp only [hcap, if_true]
            refine Head.frame h (by exact h.map) ?_ ?_
            · left; simp
            · exact ⟨[p], by simp [hov]⟩
          · simp only [hcap, if_false]
            refine Head.frame h (by exact h.map) ?_ ?_
            · left; simp
            · exact ⟨[p], by simp⟩
      · have hch : (s.qs q).ch ≠ (s.qs q').ch := hi.g.ch_inj q q' hq hq'lt hqq hqe hq'live
        by_cases hmode : (s.qs q').ovfMode = true
        · simp only [hmode, if_true]
          refine Head.frame h (by exact h.map) ?_ ?_
          · left; simp [hqq]
          · exact ⟨[], by simp [hqq]⟩
        · have hm' : (s.qs q').ovfMode = false := by simpa using hmode
          simp only [hm', Bool.false_eq_true, if_false]
          by_cases hcap : (s.chans (s.qs q').ch).length < cfg.cap
          · simp only [hcap, if_true]
            refine Head.frame h (by exact h.map) ?_ ?_
            · left; simp
            · exact ⟨[], by simp [hch]⟩
          · simp only [hcap, if_false]
            refine Head.frame h (by exact h.map) ?_ ?_
            · left; simp [hqq]
            · exact ⟨[], by simp [hqq]⟩
    case rel q' =>
      simp only [hcfg.1, if_true] at hs; injection hs with hs; subst hs; exact plain _
    case done => cases hs
  · simp [hp] at hs

/-- any step that is not a step of the flow's own convoy -/
theorem other_step {cfg : Cfg} (hcfg : cfg.Repaired) {s s' : St} {k q t : Nat} (hi : Inv s) (h : Head s k q t)
    (a : Act) (hne : ∀ sel, a ≠ .conv q sel) (hs : step cfg s a = some s') :
    Head s' k q t ∧ rank (s'.qs q).cpc ≤ rank (s.qs q).cpc := by
  cases a with
  | spawn k' =>
    simp only [step] at hs; injection hs with hs; subst hs
    exact h.frame h.map (Or.inl rfl) ⟨[], by simp⟩
  | prod p c => exact other_prod hcfg hi h p c hs
  | conv q' sel =>
    have : q' ≠ q := fun e => hne sel (by rw [e])
    exact other_conv hi h q' this sel hs

/-- number of steps of convoy `q` in a schedule -/
def convSteps (q : Nat) : List Act → Nat
  | [] => 0
  | .conv q' _ :: as => (if q' = q then 1 else 0) + convSteps q as
  | _ :: as => convSteps q as

/-- **Bounded progress.**  From a state in which `t` heads flow `k`'s queue and the convoy is not running
a task, every schedule that contains at least `rank` (≤ 5) steps of that convoy passes through a state in
which the convoy runs `t`, and does so before the convoy has made more than `rank` steps. -/
theorem head_runs {cfg : Cfg} (hcfg : cfg.Repaired) (k q t : Nat) :
    ∀ (as : List Act) (s s' : St), Inv s → Head s k q t → rank (s.qs q).cpc ≤ convSteps q as →
      run cfg s as = some s' →
      ∃ as₁ as₂ s₁, as = as₁ ++ as₂ ∧ run cfg s as₁ = some s₁ ∧ (s₁.qs q).cpc = .exec t ∧
        convSteps q as₁ ≤ rank (s.qs q).cpc := by
  intro as
  induction as with
  | nil =>
    intro s s' _ h hr _
    simp only [convSteps, Nat.le_zero] at hr
    exfalso
    cases hc : (s.qs q).cpc <;> rw [hc] at hr <;> simp [rank] at hr
    exact h.notExec _ hc
  | cons a as ih =>
    intro s s' hi h hr hrun
    simp only [run] at hrun
    cases hst : step cfg s a with
    | none => simp [hst] at hrun
    | some s1 =>
      simp only [hst] at hrun
      have hi1 := inv_step hcfg hi a hst
      by_cases hown : ∃ sel, a = .conv q sel
      · obtain ⟨sel, rfl⟩ := hown
        simp only [step] at hst
        simp only [convSteps, if_true] at hr
        rcases own_step hcfg hi h sel hst with hex | ⟨h1, hlt⟩
        · refine ⟨[.conv q sel], as, s1, rfl, by simp [run, step, hst], hex, ?_⟩
          have := rank_pos _ h.notExec
          simp only [convSteps, if_true]; omega
        · obtain ⟨as₁, as₂, s₁, e, r, x, b⟩ := ih s1 s' hi1 h1 (by omega) hrun
          refine ⟨.conv q sel :: as₁, as₂, s₁, by rw [e]; rfl, by simp [run, step, hst, r], x, ?_⟩
          simp only [convSteps, if_true]; omega
      · have hne : ∀ sel, a ≠ .conv q sel := fun sel e => hown ⟨sel, e⟩
        obtain ⟨h1, hle⟩ := other_step hcfg hi h a hne hst
        have hcs : ∀ l, convSteps q (a :: l) = convSteps q l := by
          intro l
          cases a with
          | spawn _ => rfl
          | prod _ _ => rfl
          | conv q' sel =>
            have : q' ≠ q := fun e => hne sel (by rw [e])
            simp [convSteps, this]
        rw [hcs] at hr
        obtain ⟨as₁, as₂, s₁, e, r, x, b⟩ := ih s1 s' hi1 h1 (by omega) hrun
        refine ⟨a :: as₁, as₂, s₁, by rw [e]; rfl, by simp [run, hst, r], x, ?_⟩
        rw [hcs]; omega

/-- a running task is finished — logged as done for its flow — by the convoy's next step -/
theorem exec_finishes {cfg : Cfg} (hcfg : cfg.Repaired) {s : St} {q t : Nat} (hq : q < s.nq)
    (hc : (s.qs q).cpc = .exec t) (sel : Sel) :
    ∃ s', stepConv cfg s q sel = some s' ∧ s'.done (s.qs q).key = s.done (s.qs q).key ++ [t] ∧
      (s'.qs q).cpc = .top := by
  unfold stepConv
  simp only [hq, if_true, hc, hcfg.1]
  exact ⟨_, rfl, by simp, by simp⟩

end DaeVerif.C13.TQ
