import DaeVerif.C13.EP
/-! C13 (d) — endpoint pool: closing discipline and what never goes back, over all histories -/
namespace DaeVerif.C13.EP

/-- the transport of an endpoint is closed together with the endpoint, once -/
def CloseOk (E : Ep) : Prop :=
  (E.closed = false → E.connCloses = 0) ∧
  (E.closed = true → E.connCloses = if E.failed then 0 else 1)

def AllOk (s : St) : Prop := ∀ e, e < s.neps → CloseOk (s.eps e)

/-- what never goes back: ids stay allocated; dead stays dead; closed stays closed; an endpoint's
key and kind never change -/
def Later (s s' : St) : Prop :=
  s.neps ≤ s'.neps ∧ ∀ e, e < s.neps →
    ((s.eps e).dead = true → (s'.eps e).dead = true) ∧
    ((s.eps e).closed = true → (s'.eps e).closed = true) ∧
    (s'.eps e).failed = (s.eps e).failed ∧ (s'.eps e).key = (s.eps e).key

theorem Later.refl (s : St) : Later s s := ⟨Nat.le_refl _, fun _ _ => ⟨id, id, rfl, rfl⟩⟩

theorem Later.trans {a b c : St} (h1 : Later a b) (h2 : Later b c) : Later a c := by
  refine ⟨Nat.le_trans h1.1 h2.1, ?_⟩
  intro e he
  obtain ⟨x1, x2, x3, x4⟩ := h1.2 e he
  obtain ⟨y1, y2, y3, y4⟩ := h2.2 e (Nat.lt_of_lt_of_le he h1.1)
  exact ⟨fun h => y1 (x1 h), fun h => y2 (x2 h), y3.trans x3, y4.trans x4⟩

/-- the two facts travel together -/
def Good (s s' : St) : Prop := (AllOk s → AllOk s') ∧ Later s s'

theorem Good.refl (s : St) : Good s s := ⟨id, Later.refl s⟩
theorem Good.trans {a b c : St} (h1 : Good a b) (h2 : Good b c) : Good a c :=
  ⟨fun h => h2.1 (h1.1 h), h1.2.trans h2.2⟩

/-- states that agree on the endpoint table -/
theorem Good.of_eps {s s' : St} (hn : s'.neps = s.neps) (he : s'.eps = s.eps) : Good s s' := by
  refine ⟨?_, ?_, ?_⟩
  · intro h e hlt; rw [hn] at hlt; rw [he]; exact h e hlt
  · omega
  · intro e _; rw [he]; exact ⟨id, id, rfl, rfl⟩

@[simp] theorem setEp_eps (s : St) (e i : Nat) (E : Ep) : (setEp s e E).eps i = if i = e then E else s.eps i := rfl
@[simp] theorem setEp_neps (s : St) (e : Nat) (E : Ep) : (setEp s e E).neps = s.neps := rfl
@[simp] theorem setEp_pool (s : St) (e : Nat) (E : Ep) : (setEp s e E).pool = s.pool := rfl
@[simp] theorem setPool_eps (s : St) (k : Nat) (v) : (setPool s k v).eps = s.eps := rfl
@[simp] theorem setPool_neps (s : St) (k : Nat) (v) : (setPool s k v).neps = s.neps := rfl
@[simp] theorem setPool_pool (s : St) (k i : Nat) (v) : (setPool s k v).pool i = if i = k then v else s.pool i := rfl
@[simp] theorem setTrk_eps (s : St) (o : Nat) (t) : (setTrk s o t).eps = s.eps := rfl
@[simp] theorem setTrk_neps (s : St) (o : Nat) (t) : (setTrk s o t).neps = s.neps := rfl
@[simp] theorem setTrk_pool (s : St) (o : Nat) (t) : (setTrk s o t).pool = s.pool := rfl
@[simp] theorem setDrn_eps (s : St) (o : Nat) (t) : (setDrn s o t).eps = s.eps := rfl
@[simp] theorem setDrn_neps (s : St) (o : Nat) (t) : (setDrn s o t).neps = s.neps := rfl
@[simp] theorem setDrn_pool (s : St) (o : Nat) (t) : (setDrn s o t).pool = s.pool := rfl

/-- rewriting one endpoint record without touching its closing state -/
theorem Good.setEp (s : St) (e : Nat) (E : Ep)
    (h1 : E.closed = (s.eps e).closed) (h2 : E.connCloses = (s.eps e).connCloses)
    (h3 : E.failed = (s.eps e).failed) (h4 : E.key = (s.eps e).key)
    (h5 : (s.eps e).dead = true → E.dead = true) : Good s (setEp s e E) := by
  refine ⟨?_, Nat.le_refl _, ?_⟩
  · intro h i hi
    simp only [setEp_eps]
    by_cases hie : i = e
    · subst hie
      simp only [if_true]
      have := h i hi
      unfold CloseOk at this ⊢
      rw [h1, h2, h3]; exact this
    · simp [hie]; exact h i hi
  · intro i _
    simp only [setEp_eps]
    by_cases hie : i = e
    · subst hie; simp only [if_true]; exact ⟨h5, fun h => by rw [h1]; exact h, h3, h4⟩
    · simp [hie]

theorem releaseCs_good (s : St) (e : Nat) : (releaseCs s e).eps = s.eps ∧ (releaseCs s e).neps = s.neps ∧
    (releaseCs s e).pool = s.pool := by
  unfold releaseCs
  split
  · exact ⟨rfl, rfl, rfl⟩
  · split
    · split <;> exact ⟨rfl, rfl, rfl⟩
    · exact ⟨rfl, rfl, rfl⟩

theorem releaseDrain_good (s : St) (e : Nat) : (releaseDrain s e).eps = s.eps ∧ (releaseDrain s e).neps = s.neps ∧
    (releaseDrain s e).pool = s.pool := by
  unfold releaseDrain
  split <;> exact ⟨rfl, rfl, rfl⟩

theorem closeEp_eps_other (s : St) (e i : Nat) (h : i ≠ e) : (closeEp s e).eps i = s.eps i := by
  unfold closeEp
  split
  · rfl
  · simp only [setEp_eps, h, if_false]
    rw [(releaseDrain_good _ e).1, (releaseCs_good s e).1]

theorem closeEp_neps (s : St) (e : Nat) : (closeEp s e).neps = s.neps := by
  unfold closeEp
  split
  · rfl
  · simp only [setEp_neps]
    rw [(releaseDrain_good _ e).2.1, (releaseCs_good s e).2.1]

theorem closeEp_pool (s : St) (e : Nat) : (closeEp s e).pool = s.pool := by
  unfold closeEp
  split
  · rfl
  · simp only [setEp_pool]
    rw [(releaseDrain_good _ e).2.2, (releaseCs_good s e).2.2]

/-- the record of the closed endpoint -/
theorem closeEp_eps_self (s : St) (e : Nat) :
    (closeEp s e).eps e = if (s.eps e).closed then s.eps e else closedRecord (s.eps e) := by
  unfold closeEp
  split
  · rfl
  · simp

theorem Good.closeEp (s : St) (e : Nat) : Good s (closeEp s e) := by
  refine ⟨?_, by rw [closeEp_neps]; exact Nat.le_refl _, ?_⟩
  · intro h i hi
    rw [closeEp_neps] at hi
    by_cases hie : i = e
    · subst hie
      rw [closeEp_eps_self]
      have := h i hi
      unfold CloseOk at this ⊢
      by_cases hc : (s.eps i).closed = true
      · simpa [hc] using this
      · have hc' : (s.eps i).closed = false := by simpa using hc
        have h0 := this.1 hc'
        simp only [hc', Bool.false_eq_true, if_false, closedRecord, h0]
        refine ⟨by simp, ?_⟩
        intro _
        by_cases hf : (s.eps i).failed = true <;> simp [hf]
    · rw [closeEp_eps_other s e i hie]; exact h i hi
  · intro i _
    by_cases hie : i = e
    · subst hie
      rw [closeEp_eps_self]
      by_cases hc : (s.eps i).closed = true
      · simp [hc]
      · have hc' : (s.eps i).closed = false := by simpa using hc
        simp [hc', closedRecord]
    · rw [closeEp_eps_other s e i hie]; exact ⟨id, id, rfl, rfl⟩

theorem Good.setPool (s : St) (k : Nat) (v : Option Nat) : Good s (setPool s k v) := Good.of_eps rfl rfl
theorem Good.setTrk (s : St) (k : Nat) (v) : Good s (setTrk s k v) := Good.of_eps rfl rfl
theorem Good.setDrn (s : St) (k : Nat) (v) : Good s (setDrn s k v) := Good.of_eps rfl rfl

theorem markDead_good (s : St) (e : Nat) : Good s (markDead s e) := by
  unfold markDead
  exact Good.setEp s e _ rfl rfl rfl rfl (fun _ => rfl)

theorem selfRemove_good (s : St) (e : Nat) : Good s (selfRemove s e) := by
  unfold selfRemove
  split
  · exact Good.setPool _ _ _
  · exact Good.refl s

theorem retire_good (s : St) (e : Nat) : Good s (retire s e) := by
  unfold retire
  exact Good.trans (markDead_good s e) (Good.trans (selfRemove_good _ e) (Good.closeEp _ e))

/-- after `retire` the endpoint is dead, closed, and the pool does not map its key to it -/
theorem retire_spec (s : St) (e : Nat) :
    ((retire s e).eps e).dead = true ∧ ((retire s e).eps e).closed = true ∧
    (retire s e).pool (s.eps e).key ≠ some e := by
  unfold retire
  have hclosed : ∀ t : St, ((closeEp t e).eps e).closed = true := by
    intro t; rw [closeEp_eps_self]; by_cases hc : (t.eps e).closed = true <;> simp [hc, closedRecord]
  have hdead : ∀ t : St, (t.eps e).dead = true → ((closeEp t e).eps e).dead = true := by
    intro t h; rw [closeEp_eps_self]; by_cases hc : (t.eps e).closed = true <;> simp [hc, h, closedRecord]
  have hsr : (selfRemove (markDead s e) e).eps = (markDead s e).eps := by
    unfold selfRemove; split <;> rfl
  have hkey : ((markDead s e).eps e).key = (s.eps e).key := by simp [markDead]
  refine ⟨?_, hclosed _, ?_⟩
  · apply hdead; rw [hsr]; simp [markDead]
  · rw [closeEp_pool]
    unfold selfRemove
    rw [hkey]
    split
    · simp
    · rename_i h; exact h

theorem foldl_good {α} (f : St → α → St) (hf : ∀ s a, Good s (f s a)) :
    ∀ (l : List α) (s : St), Good s (l.foldl f s) := by
  intro l
  induction l with
  | nil => intro s; exact Good.refl s
  | cons a l ih => intro s; exact Good.trans (hf s a) (ih _)

theorem epochCounter_good (s : St) (d : Nat) : Good s (epochCounter s d).1 := by
  unfold epochCounter
  split
  · exact Good.refl s
  · exact Good.of_eps rfl rfl

theorem transferTuples_good (s : St) (ks : List Nat) (o po : Nat) : Good s (transferTuples s ks o po) :=
  Good.of_eps rfl rfl

theorem adoptOwner_good (s : St) (e : Nat) (owner : Option Nat) : Good s (adoptOwner s e owner) := by
  unfold adoptOwner
  cases owner with
  | none => exact Good.refl s
  | some o =>
    simp only
    have key : ∀ t : St, t.neps = s.neps → t.eps = s.eps →
        Good s (setEp t e { (s.eps e) with owner := some o }) := by
      intro t hn he
      refine Good.trans (Good.of_eps hn he) ?_
      apply Good.setEp <;> (rw [he]) <;> first | rfl | exact id
    split
    · split
      · exact key _ rfl rfl
      · exact key _ rfl rfl
    · exact key _ rfl rfl

theorem adoptDrain_good (s : St) (e : Nat) (drain : Option Nat) : Good s (adoptDrain s e drain) := by
  unfold adoptDrain
  cases drain with
  | none => exact Good.refl s
  | some d =>
    simp only
    split
    · exact Good.refl s
    · have h1 : (releaseDrain (setDrn s d (Drain.step (s.drn d) .acquire)) e).eps = s.eps := by
        rw [(releaseDrain_good _ e).1]; rfl
      have h2 : (releaseDrain (setDrn s d (Drain.step (s.drn d) .acquire)) e).neps = s.neps := by
        rw [(releaseDrain_good _ e).2.1]; rfl
      refine Good.trans (Good.of_eps h2 h1) ?_
      apply Good.setEp <;> (rw [h1]) <;> first | rfl | exact id

theorem adopt_good (s : St) (e : Nat) (owner drain : Option Nat) : Good s (adopt s e owner drain) := by
  unfold adopt
  split
  · exact Good.refl s
  · exact Good.trans (adoptOwner_good s e owner) (adoptDrain_good _ e drain)

/-! ### every operation is `Good` -/

theorem dropStale_good (s : St) (k : Nat) : Good s (dropStale s k) := by
  unfold dropStale
  split
  · exact Good.trans (Good.setPool _ _ _) (Good.closeEp _ _)
  · exact Good.refl s

theorem acquireTicket_good (s : St) (drain : Option Nat) : Good s (acquireTicket s drain).1 := by
  unfold acquireTicket
  split
  · exact Good.setDrn _ _ _
  · exact Good.refl s

/-- publishing a new, open endpoint record -/
theorem allocEp_good (s : St) (E : Ep) (h1 : E.closed = false) (h2 : E.connCloses = 0) : Good s (allocEp s E) := by
  have heps : ∀ i, (allocEp s E).eps i = if i = s.neps then E else s.eps i := fun _ => rfl
  have hn : (allocEp s E).neps = s.neps + 1 := rfl
  refine ⟨?_, ?_, ?_⟩
  · intro h i hi
    rw [hn] at hi
    rw [heps]
    by_cases hin : i = s.neps
    · simp only [hin, if_true]; unfold CloseOk; simp [h1, h2]
    · simp only [hin, if_false]; exact h i (by omega)
  · rw [hn]; omega
  · intro i hi
    have hin : i ≠ s.neps := Nat.ne_of_lt hi
    rw [heps, if_neg hin]
    exact ⟨id, id, rfl, rfl⟩

theorem getOrCreate_good (s : St) (k : Nat) (sym : Bool) (nat : Nat) (owner drain : Option Nat) (d : Nat)
    (out : DialOutcome) : Good s (getOrCreate s k sym nat owner drain d out).1 := by
  unfold getOrCreate
  split
  · exact Good.refl s
  · split
    · rename_i e _
      refine Good.trans ?_ (adopt_good _ e owner drain)
      apply Good.setEp
      · unfold updateNatTimeout; split <;> rfl
      · unfold updateNatTimeout; split <;> rfl
      · unfold updateNatTimeout; split <;> rfl
      · unfold updateNatTimeout; split <;> rfl
      · unfold updateNatTimeout; split <;> exact id
    · cases out with
      | failNoAlive => exact dropStale_good s k
      | failGeneric =>
        exact Good.trans (dropStale_good s k) (allocEp_good _ _ (by simp [failureEntry]) (by simp [failureEntry, dummyEp]))
      | ok =>
        refine Good.trans (Good.trans (dropStale_good s k)
          (Good.trans (epochCounter_good _ d) (acquireTicket_good _ drain))) ?_
        exact allocEp_good _ _ (by simp [createRecord, freshEp]) (by simp [createRecord, freshEp])

theorem refreshTtl_fields (tmin : Nat) (E : Ep) (now : Nat) :
    (refreshTtl tmin E now).closed = E.closed ∧ (refreshTtl tmin E now).connCloses = E.connCloses ∧
    (refreshTtl tmin E now).failed = E.failed ∧ (refreshTtl tmin E now).key = E.key ∧
    (refreshTtl tmin E now).dead = E.dead := by
  unfold refreshTtl
  split
  · simp
  · simp only
    split <;> (split <;> simp)

theorem preWrite_fields (tmin : Nat) (E : Ep) (now : Nat) :
    (preWrite tmin E now).closed = E.closed ∧ (preWrite tmin E now).connCloses = E.connCloses ∧
    (preWrite tmin E now).failed = E.failed ∧ (preWrite tmin E now).key = E.key ∧ (preWrite tmin E now).dead = E.dead := by
  unfold preWrite
  have := refreshTtl_fields tmin { E with wrote := if E.hasReply then E.wrote else true } now
  simpa using this

theorem onReply_fields (tmin : Nat) (E : Ep) (now : Nat) :
    (onReply tmin E now).closed = E.closed ∧ (onReply tmin E now).connCloses = E.connCloses ∧
    (onReply tmin E now).failed = E.failed ∧ (onReply tmin E now).key = E.key ∧ (onReply tmin E now).dead = E.dead := by
  unfold onReply
  split
  · simp
  · exact refreshTtl_fields tmin E now

theorem writeTo_good (s : St) (e : Nat) (out : WriteOutcome) : Good s (writeTo s e out).1 := by
  unfold writeTo
  obtain ⟨a, b, c, d, f⟩ := preWrite_fields s.ttlMin (s.eps e) s.now
  split
  · exact Good.refl s
  · cases out with
    | err =>
      show Good s (retire (setEp s e (preWrite s.ttlMin (s.eps e) s.now)) e)
      exact Good.trans (Good.setEp s e _ a b c d (by rw [f]; exact id)) (retire_good _ e)
    | ok =>
      show Good s (setEp s e { (preWrite s.ttlMin (s.eps e) s.now) with hasSent := true })
      exact Good.setEp s e { (preWrite s.ttlMin (s.eps e) s.now) with hasSent := true } a b c d
        (by show _ → (preWrite s.ttlMin (s.eps e) s.now).dead = true; rw [f]; exact id)
    | short =>
      show Good s (retire (setEp s e { (preWrite s.ttlMin (s.eps e) s.now) with hasSent := true }) e)
      exact Good.trans
        (Good.setEp s e { (preWrite s.ttlMin (s.eps e) s.now) with hasSent := true } a b c d
          (by show _ → (preWrite s.ttlMin (s.eps e) s.now).dead = true; rw [f]; exact id))
        (retire_good _ e)

theorem reply_good (s : St) (e : Nat) (ok : Bool) : Good s (reply s e ok) := by
  unfold reply
  obtain ⟨a, b, c, d, f⟩ := onReply_fields s.ttlMin (s.eps e) s.now
  split
  · exact Good.refl s
  · split
    · exact Good.refl s
    · split
      · exact Good.setEp s e _ a b c d (by rw [f]; exact id)
      · exact Good.trans (Good.setEp s e _ a b c d (by rw [f]; exact id)) (retire_good _ e)

theorem readError_good (s : St) (e : Nat) : Good s (readError s e) := by
  unfold readError; split
  · exact Good.refl s
  · exact retire_good s e

theorem remove_good (s : St) (k e : Nat) : Good s (remove s k e) := by
  unfold remove; split
  · exact Good.trans (Good.setPool _ _ _) (Good.closeEp _ _)
  · exact Good.closeEp _ _

theorem janitorOne_good (t : Nat) (s : St) (ke : Nat × Nat) : Good s (janitorOne t s ke) := by
  unfold janitorOne; split
  · exact Good.trans (Good.setPool _ _ _) (Good.closeEp _ _)
  · exact Good.refl s

theorem janitor_good (n : Nat) (s : St) (t : Nat) : Good s (janitor n s t) := by
  unfold janitor
  have := foldl_good (janitorOne t) (janitorOne_good t) (pooled s n) s
  exact this

theorem tickJanitor_good (n : Nat) (s : St) : Good s (tickJanitor n s) := by
  unfold tickJanitor
  refine Good.trans (Good.of_eps (s' := { s with now := s.nextJanitor }) rfl rfl) ?_
  exact Good.trans (janitor_good n _ _) (Good.of_eps rfl rfl)

theorem runJanitors_good (n target : Nat) : ∀ (fuel : Nat) (s : St), Good s (runJanitors n target fuel s) := by
  intro fuel
  induction fuel with
  | zero => intro s; exact Good.refl s
  | succ f ih =>
    intro s
    simp only [runJanitors]
    split
    · exact Good.trans (tickJanitor_good n s) (ih _)
    · exact Good.refl s

theorem advance_good (n fuel : Nat) (s : St) (dt : Nat) : Good s (advance n fuel s dt) := by
  unfold advance
  exact Good.trans (runJanitors_good n _ fuel s) (Good.of_eps rfl rfl)

theorem invalidate_good (s : St) (d : Nat) : Good s (invalidate s d).1 := by
  unfold invalidate
  simp only
  unfold invalBump
  refine Good.trans (epochCounter_good s d)
    (Good.trans (Good.of_eps (s := (epochCounter s d).1) (s' := bumpEpoch (epochCounter s d).1 (epochCounter s d).2) rfl rfl) ?_)
  exact foldl_good retire retire_good _ _

theorem clearIndex_good (s : St) : Good s (clearIndex s) := by
  refine ⟨?_, Nat.le_refl _, ?_⟩
  · intro h e he; exact h e he
  · intro e _; exact ⟨id, id, rfl, rfl⟩

theorem reset_good (n : Nat) (s : St) : Good s (reset n s) := by
  unfold reset
  refine Good.trans (foldl_good resetOne ?_ (pooled s n) s) (Good.trans (clearIndex_good _) (Good.of_eps rfl rfl))
  intro t ke
  unfold resetOne
  split
  · exact Good.trans (Good.setPool _ _ _) (Good.closeEp _ _)
  · exact Good.refl t

theorem track_good (s : St) (e j : Nat) : Good s (track s e j) := by
  unfold track
  split
  · exact Good.refl s
  · split
    · exact Good.refl s
    · split
      · exact Good.refl s
      · exact Good.trans
          (Good.setEp s e { (s.eps e) with tuples := (s.eps e).tuples ++ newTupleKeys (s.eps e) j } rfl rfl rfl rfl id)
          (Good.setTrk _ _ _)

theorem step_good (s : St) (op : Op) : Good s (step s op) := by
  cases op with
  | goc k sym nat owner drain d out => exact getOrCreate_good s k sym nat owner drain d out
  | write e out => exact writeTo_good s e out
  | reply e ok => exact reply_good s e ok
  | readErr e => exact readError_good s e
  | remove k e => exact remove_good s k e
  | close e => exact Good.closeEp s e
  | advance dt => exact advance_good _ _ s dt
  | invalidate d => exact invalidate_good s d
  | reset => exact reset_good _ s
  | track e j => exact track_good s e j
  | invalBump d =>
    show Good s (invalBump s d)
    unfold invalBump
    exact Good.trans (epochCounter_good s d)
      (Good.of_eps (s := (epochCounter s d).1) (s' := bumpEpoch (epochCounter s d).1 (epochCounter s d).2) rfl rfl)
  | markDead e => exact markDead_good s e
  | selfRemove e => exact selfRemove_good s e
  | prepCreate k drain d =>
    show Good s (countDial (prepCreate s k drain d))
    unfold prepCreate
    exact Good.trans (Good.trans (dropStale_good s k) (Good.trans (epochCounter_good _ d) (acquireTicket_good _ drain)))
      (Good.of_eps rfl rfl)
  | publish E =>
    show Good s (if E.closed = false ∧ E.connCloses = 0 ∧ E.tuples = [] then publishEp s E else s)
    split
    · rename_i h
      -- same endpoint table as `allocEp`, only the dial counter differs
      exact Good.trans (allocEp_good s E h.1 h.2.1) (Good.of_eps (s := allocEp s E) (s' := publishEp s E) rfl rfl)
    · exact Good.refl s
  | register e =>
    show Good s (register s e)
    unfold register
    split
    · exact Good.setEp s e _ rfl rfl rfl rfl id
    · exact Good.trans (Good.setEp s e { (s.eps e) with registered := true } rfl rfl rfl rfl id) (retire_good _ e)
  | transportDone d =>
    show Good s (transportDone s d)
    unfold transportDone
    exact Good.trans (foldl_good retire retire_good _ _) (Good.of_eps rfl rfl)

theorem run_good : ∀ (ops : List Op) (s : St), Good s (run s ops) := by
  intro ops
  induction ops with
  | nil => intro s; exact Good.refl s
  | cons op ops ih => intro s; exact Good.trans (step_good s op) (ih _)

theorem allOk_init : AllOk init := by intro e he; simp [init] at he

end DaeVerif.C13.EP
