import DaeVerif.C13.EP
/-! C13 (d) — endpoint pool: closing discipline and what never goes back, over all histories -/
namespace DaeVerif.C13.EP

/-- the transport of an endpoint is closed together with the endpoint, once -/
def CloseOk (E : Ep) : Prop :=
  (E.closed = false → E.connCloses = 0) ∧
  (E.closed = true → E.connCloses = if E.failed then 0 else 1)

def AllOk (s : St) : Prop := ∀ e, e < s.neps → CloseOk (s.eps e)

/-- what never goes back: ids stay allocated; dead stays dead; closed stays closed; an endpoint's
key and kind never change -/
def Later (s s' : St) : Prop :=
  s.neps ≤ s'.neps ∧ ∀ e, e < s.neps →
    ((s.eps e).dead = true → (s'.eps e).dead = true) ∧
    ((s.eps e).closed = true → (s'.eps e).closed = true) ∧
    (s'.eps e).failed = (s.eps e).failed ∧ (s'.eps e).key = (s.eps e).key

theorem Later.refl (s : St) : Later s s := ⟨Nat.le_refl _, fun _ _ => ⟨id, id, rfl, rfl⟩⟩

theorem Later.trans {a b c : St} (h1 : Later a b) (h2 : Later b c) : Later a c := by
  refine ⟨Nat.le_trans h1.1 h2.1, ?_⟩
  intro e he
  obtain ⟨x1, x2, x3, x4⟩ := h1.2 e he
  obtain ⟨y1, y2, y3, y4⟩ := h2.2 e (Nat.lt_of_lt_of_le he h1.1)
  exact ⟨fun h => y1 (x1 h), fun h => y2 (x2 h), y3.trans x3, y4.trans x4⟩

/-- the two facts travel together -/
def Good (s s' : St) : Prop := (AllOk s → AllOk s') ∧ Later s s'

theorem Good.refl (s : St) : Good s s := ⟨id, Later.refl s⟩
theorem Good.trans {a b c : St} (h1 : Good a b) (h2 : Good b c) : Good a c :=
  ⟨fun h => h2.1 (h1.1 h), h1.2.trans h2.2⟩

/-- states that agree on the endpoint table -/
theorem Good.of_eps {s s' : St} (hn : s'.neps = s.neps) (he : s'.eps = s.eps) : Good s s' := by
  refine ⟨?_, ?_, ?_⟩
  · intro h e hlt; rw [hn] at hlt; rw [he]; exact h e hlt
  · omega
  · intro e _; rw [he]; exact ⟨id, id, rfl, rfl⟩

@[simp] theorem setEp_eps (s : St) (e i : Nat) (E : Ep) : (setEp s e E).eps i = if i = e then E else s.eps i := rfl
@[simp] theorem setEp_neps (s : St) (e : Nat) (E : Ep) : (setEp s e E).neps = s.neps := rfl
@[simp] theorem setEp_pool (s : St) (e : Nat) (E : Ep) : (setEp s e E).pool = s.pool := rfl
@[simp] theorem setPool_eps (s : St) (k : Nat) (v) : (setPool s k v).eps = s.eps := rfl
@[simp] theorem setPool_neps (s : St) (k : Nat) (v) : (setPool s k v).neps = s.neps := rfl
@[simp] theorem setPool_pool (s : St) (k i : Nat) (v) : (setPool s k v).pool i = if i = k then v else s.pool i := rfl
@[simp] theorem setTrk_eps (s : St) (o : Nat) (t) : (setTrk s o t).eps = s.eps := rfl
@[simp] theorem setTrk_neps (s : St) (o : Nat) (t) : (setTrk s o t).neps = s.neps := rfl
@[simp] theorem setTrk_pool (s : St) (o : Nat) (t) : (setTrk s o t).pool = s.pool := rfl
@[simp] theorem setDrn_eps (s : St) (o : Nat) (t) : (setDrn s o t).eps = s.eps := rfl
@[simp] theorem setDrn_neps (s : St) (o : Nat) (t) : (setDrn s o t).neps = s.neps := rfl
@[simp] theorem setDrn_pool (s : St) (o : Nat) (t) : (setDrn s o t).pool = s.pool := rfl

/-- rewriting one endpoint record without touching its closing state -/
theorem Good.setEp (s : St) (e : Nat) (E : Ep)
    (h1 : E.closed = (s.eps e).closed) (h2 : E.connCloses = (s.eps e).connCloses)
    (h3 : E.failed = (s.eps e).failed) (h4 : E.key = (s.eps e).key)
    (h5 : (s.eps e).dead = true → E.dead = true) : Good s (setEp s e E) := by
  refine ⟨?_, Nat.le_refl _, ?_⟩
  · intro h i hi
    simp only [setEp_eps]
    by_cases hie : i = e
    · subst hie
      simp only [if_true]
      have := h i hi
      unfold CloseOk at this ⊢
      rw [h1, h2, h3]; exact this
    · simp [hie]; exact h i hi
  · intro i _
    simp only [setEp_eps]
    by_cases hie : i = e
    · subst hie; simp only [if_true]; exact ⟨h5, fun h => by rw [h1]; exact h, h3, h4⟩
    · simp [hie]

theorem closeEp_eps_other (s : St) (e i : Nat) (h : i ≠ e) : (closeEp s e).eps i = s.eps i := by
  unfold closeEp
  split
  · rfl
  · simp only [setEp_eps, h, if_false]
    split <;> (try split) <;> (try split) <;> (try split) <;> simp

theorem closeEp_neps (s : St) (e : Nat) : (closeEp s e).neps = s.neps := by
  unfold closeEp
  split
  · rfl
  · simp only [setEp_neps]
    split <;> (try split) <;> (try split) <;> (try split) <;> simp

/-- the record of the closed endpoint -/
theorem closeEp_eps_self (s : St) (e : Nat) :
    (closeEp s e).eps e =
      if (s.eps e).closed then s.eps e
      else { (s.eps e) with closed := true, expiresAt := 0, csClosed := true, tuples := [],
                            connCloses := if (s.eps e).failed then (s.eps e).connCloses else (s.eps e).connCloses + 1,
                            drain := none, ticket := none } := by
  unfold closeEp
  split
  · rfl
  · simp

theorem Good.closeEp (s : St) (e : Nat) : Good s (closeEp s e) := by
  refine ⟨?_, by rw [closeEp_neps]; exact Nat.le_refl _, ?_⟩
  · intro h i hi
    rw [closeEp_neps] at hi
    by_cases hie : i = e
    · subst hie
      rw [closeEp_eps_self]
      have := h i hi
      unfold CloseOk at this ⊢
      by_cases hc : (s.eps i).closed = true
      · simp [hc]; simpa [hc] using this
      · have hc' : (s.eps i).closed = false := by simpa using hc
        have h0 := this.1 hc'
        simp [hc', h0]
        split <;> simp
    · rw [closeEp_eps_other s e i hie]; exact h i hi
  · intro i _
    by_cases hie : i = e
    · subst hie
      rw [closeEp_eps_self]
      by_cases hc : (s.eps i).closed = true
      · simp [hc]
      · have hc' : (s.eps i).closed = false := by simpa using hc
        simp [hc']
    · rw [closeEp_eps_other s e i hie]; exact ⟨id, id, rfl, rfl⟩

theorem Good.setPool (s : St) (k : Nat) (v : Option Nat) : Good s (setPool s k v) := Good.of_eps rfl rfl
theorem Good.setTrk (s : St) (k : Nat) (v) : Good s (setTrk s k v) := Good.of_eps rfl rfl
theorem Good.setDrn (s : St) (k : Nat) (v) : Good s (setDrn s k v) := Good.of_eps rfl rfl

theorem Good.retire (s : St) (e : Nat) : Good s (retire s e) := by
  unfold retire
  refine Good.trans (Good.setEp s e _ rfl rfl rfl rfl (fun _ => rfl)) ?_
  split
  · exact Good.trans (Good.setPool _ _ _) (Good.closeEp _ _)
  · exact Good.closeEp _ _

/-- after `retire` the endpoint is dead, closed, and the pool does not map its key to it -/
theorem retire_spec (s : St) (e : Nat) :
    ((retire s e).eps e).dead = true ∧ ((retire s e).eps e).closed = true ∧
    (retire s e).pool (s.eps e).key ≠ some e := by
  unfold retire
  have hclosed : ∀ t : St, ((closeEp t e).eps e).closed = true := by
    intro t; rw [closeEp_eps_self]; by_cases hc : (t.eps e).closed = true <;> simp [hc]
  have hdead : ∀ t : St, (t.eps e).dead = true → ((closeEp t e).eps e).dead = true := by
    intro t h; rw [closeEp_eps_self]; by_cases hc : (t.eps e).closed = true <;> simp [hc, h]
  have hpool : ∀ t : St, (closeEp t e).pool = t.pool := by
    intro t; unfold closeEp
    split
    · rfl
    · simp only [setEp_pool]
      split <;> (try split) <;> (try split) <;> (try split) <;> simp
  refine ⟨?_, ?_, ?_⟩
  · split <;> (apply hdead; simp)
  · split <;> exact hclosed _
  · split
    · rw [hpool]; simp
    · rename_i h; rw [hpool]; simpa using h

theorem foldl_good {α} (f : St → α → St) (hf : ∀ s a, Good s (f s a)) :
    ∀ (l : List α) (s : St), Good s (l.foldl f s) := by
  intro l
  induction l with
  | nil => intro s; exact Good.refl s
  | cons a l ih => intro s; exact Good.trans (hf s a) (ih _)

theorem epochCounter_good (s : St) (d : Nat) : Good s (epochCounter s d).1 := by
  unfold epochCounter
  split
  · exact Good.refl s
  · exact Good.of_eps rfl rfl

theorem adopt_good (s : St) (e : Nat) (owner drain : Option Nat) : Good s (adopt s e owner drain) := by
  unfold adopt
  split
  · exact Good.refl s
  · -- every branch rewrites only tracker / drain tables and the owner / drain / ticket fields of e
    have key : ∀ (t : St) (E : Ep), t.neps = s.neps → t.eps = s.eps →
        E.closed = (s.eps e).closed → E.connCloses = (s.eps e).connCloses → E.failed = (s.eps e).failed →
        E.key = (s.eps e).key → E.dead = (s.eps e).dead → Good s (setEp t e E) := by
      intro t E hn he h1 h2 h3 h4 h5
      refine Good.trans (Good.of_eps hn he) ?_
      apply Good.setEp <;> (rw [he]) <;> first | assumption | (intro h; rw [h5]; exact h)
    cases owner with
    | none =>
      cases drain with
      | none => exact key s _ rfl rfl rfl rfl rfl rfl rfl
      | some d =>
        simp only
        split
        · exact key s _ rfl rfl rfl rfl rfl rfl rfl
        · split <;> exact key _ _ rfl rfl rfl rfl rfl rfl rfl
    | some o =>
      simp only
      cases drain with
      | none =>
        simp only
        split
        · split <;> exact key _ _ rfl rfl rfl rfl rfl rfl rfl
        · exact key _ _ rfl rfl rfl rfl rfl rfl rfl
      | some d =>
        simp only
        split
        · split
          · split <;> exact key _ _ rfl rfl rfl rfl rfl rfl rfl
          · exact key _ _ rfl rfl rfl rfl rfl rfl rfl
        · split
          · split <;> (split <;> exact key _ _ rfl rfl rfl rfl rfl rfl rfl)
          · split <;> exact key _ _ rfl rfl rfl rfl rfl rfl rfl

end DaeVerif.C13.EP
