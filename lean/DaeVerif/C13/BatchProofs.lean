import DaeVerif.C13.Batch
namespace DaeVerif.C13.Batch

/-- the buffers the slots own -/
def owned (l : List (Option Nat)) : List Nat := l.filterMap id

theorem mem_owned {l : List (Option Nat)} {b : Nat} : b ∈ owned l ↔ some b ∈ l := by
  unfold owned; simp

/-- buffers owned by slots are allocated ones, pairwise different, and never one that a task owns -/
def Inv (s : St) : Prop :=
  (∀ b, some b ∈ s.slots → b < s.nbuf) ∧ (owned s.slots).Nodup ∧
  (∀ b, b ∈ s.taken → b < s.nbuf ∧ some b ∉ s.slots)

theorem fill_spec : ∀ (l : List (Option Nat)) (n : Nat),
    n ≤ (fill l n).2 ∧ (∀ b, some b ∈ (fill l n).1 → some b ∈ l ∨ (n ≤ b ∧ b < (fill l n).2)) := by
  intro l
  induction l with
  | nil => intro n; simp [fill]
  | cons a l ih =>
    intro n
    cases a with
    | some b =>
      simp only [fill]
      obtain ⟨h1, h2⟩ := ih n
      refine ⟨h1, ?_⟩
      intro x hx
      simp only [List.mem_cons] at hx
      cases hx with
      | inl e => left; rw [e]; exact List.mem_cons_self
      | inr e => cases h2 x e with
        | inl h => left; exact List.mem_cons_of_mem _ h
        | inr h => right; exact h
    | none =>
      simp only [fill]
      obtain ⟨h1, h2⟩ := ih (n + 1)
      refine ⟨by omega, ?_⟩
      intro x hx
      simp only [List.mem_cons] at hx
      cases hx with
      | inl e => injection e with e; right; omega
      | inr e => cases h2 x e with
        | inl h => left; exact List.mem_cons_of_mem _ h
        | inr h => right; omega

theorem fill_nodup : ∀ (l : List (Option Nat)) (n : Nat), (∀ b, some b ∈ l → b < n) → (owned l).Nodup →
    (owned (fill l n).1).Nodup := by
  intro l
  induction l with
  | nil => intro n _ _; simp [fill, owned]
  | cons a l ih =>
    intro n hlt hnd
    cases a with
    | some b =>
      simp only [fill]
      have hnd' : (owned l).Nodup ∧ b ∉ owned l := by
        simp only [owned, List.filterMap_cons, id] at hnd
        exact ⟨(List.nodup_cons.mp hnd).2, (List.nodup_cons.mp hnd).1⟩
      have ih' := ih n (fun x hx => hlt x (List.mem_cons_of_mem _ hx)) hnd'.1
      show (owned (some b :: (fill l n).1)).Nodup
      simp only [owned, List.filterMap_cons, id]
      refine List.nodup_cons.mpr ⟨?_, ih'⟩
      intro hin
      have hin' : some b ∈ (fill l n).1 := mem_owned.mp hin
      cases (fill_spec l n).2 b hin' with
      | inl e => exact hnd'.2 (mem_owned.mpr e)
      | inr e => have := hlt b List.mem_cons_self; omega
    | none =>
      simp only [fill]
      have hnd' : (owned l).Nodup := by simpa [owned] using hnd
      have ih' := ih (n + 1) (fun x hx => Nat.lt_succ_of_lt (hlt x (List.mem_cons_of_mem _ hx))) hnd'
      show (owned (some n :: (fill l (n + 1)).1)).Nodup
      simp only [owned, List.filterMap_cons, id]
      refine List.nodup_cons.mpr ⟨?_, ih'⟩
      intro hin
      have hin' : some n ∈ (fill l (n + 1)).1 := mem_owned.mp hin
      cases (fill_spec l (n + 1)).2 n hin' with
      | inl e => have := hlt n (List.mem_cons_of_mem _ e); omega
      | inr e => omega

theorem store_other (bufs : Nat → List Nat) : ∀ (slots : List (Option Nat)) (ps : List (List Nat)) (x : Nat),
    some x ∉ slots → store bufs slots ps x = bufs x := by
  intro slots
  induction slots with
  | nil => intro ps x _; cases ps <;> rfl
  | cons a slots ih =>
    intro ps x hx
    cases a with
    | none => cases ps <;> rfl
    | some b =>
      cases ps with
      | nil => rfl
      | cons p ps =>
        simp only [store]
        have hne : x ≠ b := by intro e; apply hx; rw [e]; exact List.mem_cons_self
        simp only [hne, if_false]
        exact ih ps x (fun h => hx (List.mem_cons_of_mem _ h))

theorem inv_init (n : Nat) : Inv (init n) := by
  refine ⟨?_, ?_, ?_⟩
  · intro b hb; simp [init] at hb
  · have : owned (List.replicate n (none : Option Nat)) = [] := by
      unfold owned; induction n with
      | zero => rfl
      | succ n ih => simp [List.replicate_succ, ih]
    show (owned (List.replicate n none)).Nodup
    rw [this]; exact List.nodup_nil
  · intro b hb; simp [init] at hb

theorem inv_readBatch {s : St} (h : Inv s) (pkts : List (List Nat)) : Inv (readBatch s pkts) := by
  obtain ⟨h1, hnd, h2⟩ := h
  obtain ⟨f1, f2⟩ := fill_spec s.slots s.nbuf
  refine ⟨?_, fill_nodup s.slots s.nbuf h1 hnd, ?_⟩
  · intro b hb
    cases f2 b hb with
    | inl e => exact Nat.lt_of_lt_of_le (h1 b e) f1
    | inr e => exact e.2
  · intro b hb
    obtain ⟨a, c⟩ := h2 b hb
    refine ⟨Nat.lt_of_lt_of_le a f1, ?_⟩
    intro hin
    cases f2 b hin with
    | inl e => exact c e
    | inr e => exact absurd a (by omega)

/-- a buffer a task owns is not touched by any later `ReadBatch` -/
theorem readBatch_keeps_taken {s : St} (h : Inv s) (pkts : List (List Nat)) (b : Nat) (hb : b ∈ s.taken) :
    (readBatch s pkts).bufs b = s.bufs b := by
  have hi := inv_readBatch h pkts
  exact store_other _ _ _ _ ((hi.2.2 b hb).2)

theorem owned_set_none : ∀ (l : List (Option Nat)) (i b : Nat), l[i]? = some (some b) → (owned l).Nodup →
    (∀ x, some x ∈ l.set i none → some x ∈ l ∧ x ≠ b) ∧ (owned (l.set i none)).Nodup := by
  intro l
  induction l with
  | nil => intro i b h; simp at h
  | cons a l ih =>
    intro i b h hnd
    cases i with
    | zero =>
      simp at h; subst h
      simp only [List.set_cons_zero]
      have hnd' : (owned l).Nodup ∧ b ∉ owned l := by
        simp only [owned, List.filterMap_cons, id] at hnd
        exact ⟨(List.nodup_cons.mp hnd).2, (List.nodup_cons.mp hnd).1⟩
      refine ⟨?_, by simpa [owned] using hnd'.1⟩
      intro x hx
      simp only [List.mem_cons] at hx
      cases hx with
      | inl e => cases e
      | inr e => exact ⟨List.mem_cons_of_mem _ e, fun hxb => hnd'.2 (mem_owned.mpr (hxb ▸ e))⟩
    | succ n =>
      simp at h
      simp only [List.set_cons_succ]
      cases a with
      | none =>
        have hnd' : (owned l).Nodup := by simpa [owned] using hnd
        obtain ⟨i1, i2⟩ := ih n b h hnd'
        refine ⟨?_, by simpa [owned] using i2⟩
        intro x hx
        simp only [List.mem_cons] at hx
        cases hx with
        | inl e => cases e
        | inr e => exact ⟨List.mem_cons_of_mem _ (i1 x e).1, (i1 x e).2⟩
      | some c =>
        have hnd' : (owned l).Nodup ∧ c ∉ owned l := by
          simp only [owned, List.filterMap_cons, id] at hnd
          exact ⟨(List.nodup_cons.mp hnd).2, (List.nodup_cons.mp hnd).1⟩
        obtain ⟨i1, i2⟩ := ih n b h hnd'.1
        have hbl : some b ∈ l := List.mem_of_getElem? h
        refine ⟨?_, ?_⟩
        · intro x hx
          simp only [List.mem_cons] at hx
          cases hx with
          | inl e =>
            injection e with e; subst e
            exact ⟨List.mem_cons_self, fun hxb => hnd'.2 (mem_owned.mpr (hxb ▸ hbl))⟩
          | inr e => exact ⟨List.mem_cons_of_mem _ (i1 x e).1, (i1 x e).2⟩
        · show (owned (some c :: l.set n none)).Nodup
          simp only [owned, List.filterMap_cons, id]
          refine List.nodup_cons.mpr ⟨?_, i2⟩
          intro hin
          exact hnd'.2 (mem_owned.mpr (i1 c (mem_owned.mp hin)).1)

theorem inv_take {s : St} (h : Inv s) (i : Nat) : Inv (take s i).1 := by
  obtain ⟨h1, hnd, h2⟩ := h
  unfold take
  split
  · rename_i b hb
    obtain ⟨m1, m2⟩ := owned_set_none s.slots i b hb hnd
    refine ⟨fun x hx => h1 x (m1 x hx).1, m2, ?_⟩
    intro x hx
    simp only [List.mem_cons] at hx
    cases hx with
    | inl e =>
      subst e
      exact ⟨h1 x (List.mem_of_getElem? hb), fun hin => (m1 x hin).2 rfl⟩
    | inr e => exact ⟨(h2 x e).1, fun hin => (h2 x e).2 (m1 x hin).1⟩
  · exact ⟨h1, hnd, h2⟩

theorem run_inv : ∀ (ops : List Op) (s : St), Inv s → Inv (run s ops) := by
  intro ops
  induction ops with
  | nil => intro s h; exact h
  | cons op ops ih =>
    intro s h
    cases op with
    | read pkts => exact ih _ (inv_readBatch h pkts)
    | take i => exact ih _ (inv_take h i)

end DaeVerif.C13.Batch
