import DaeVerif.C13.Batch
namespace DaeVerif.C13.Batch

/-- buffers owned by slots are allocated ones, and never one that a task owns -/
def Inv (s : St) : Prop :=
  (∀ b, some b ∈ s.slots → b < s.nbuf) ∧ (∀ b, b ∈ s.taken → b < s.nbuf ∧ some b ∉ s.slots)

theorem fill_spec : ∀ (l : List (Option Nat)) (n : Nat),
    n ≤ (fill l n).2 ∧ (∀ b, some b ∈ (fill l n).1 → some b ∈ l ∨ (n ≤ b ∧ b < (fill l n).2)) := by
  intro l
  induction l with
  | nil => intro n; simp [fill]
  | cons a l ih =>
    intro n
    cases a with
    | some b =>
      simp only [fill]
      obtain ⟨h1, h2⟩ := ih n
      refine ⟨h1, ?_⟩
      intro x hx
      simp only [List.mem_cons] at hx
      cases hx with
      | inl e => left; rw [e]; exact List.mem_cons_self
      | inr e => cases h2 x e with
        | inl h => left; exact List.mem_cons_of_mem _ h
        | inr h => right; exact h
    | none =>
      simp only [fill]
      obtain ⟨h1, h2⟩ := ih (n + 1)
      refine ⟨by omega, ?_⟩
      intro x hx
      simp only [List.mem_cons] at hx
      cases hx with
      | inl e => injection e with e; right; omega
      | inr e => cases h2 x e with
        | inl h => left; exact List.mem_cons_of_mem _ h
        | inr h => right; omega

theorem store_other (bufs : Nat → List Nat) : ∀ (slots : List (Option Nat)) (ps : List (List Nat)) (x : Nat),
    some x ∉ slots → store bufs slots ps x = bufs x := by
  intro slots
  induction slots with
  | nil => intro ps x _; cases ps <;> rfl
  | cons a slots ih =>
    intro ps x hx
    cases a with
    | none => cases ps <;> rfl
    | some b =>
      cases ps with
      | nil => rfl
      | cons p ps =>
        simp only [store]
        have hne : x ≠ b := by intro e; apply hx; rw [e]; exact List.mem_cons_self
        simp only [hne, if_false]
        exact ih ps x (fun h => hx (List.mem_cons_of_mem _ h))

theorem inv_init (n : Nat) : Inv (init n) := by
  constructor
  · intro b hb; simp [init] at hb
  · intro b hb; simp [init] at hb

theorem inv_readBatch {s : St} (h : Inv s) (pkts : List (List Nat)) : Inv (readBatch s pkts) := by
  obtain ⟨h1, h2⟩ := h
  obtain ⟨f1, f2⟩ := fill_spec s.slots s.nbuf
  constructor
  · intro b hb
    cases f2 b hb with
    | inl e => exact Nat.lt_of_lt_of_le (h1 b e) f1
    | inr e => exact e.2
  · intro b hb
    obtain ⟨a, c⟩ := h2 b hb
    refine ⟨Nat.lt_of_lt_of_le a f1, ?_⟩
    intro hin
    cases f2 b hin with
    | inl e => exact c e
    | inr e => exact absurd a (by omega)

/-- a buffer a task owns is not touched by any later `ReadBatch` -/
theorem readBatch_keeps_taken {s : St} (h : Inv s) (pkts : List (List Nat)) (b : Nat) (hb : b ∈ s.taken) :
    (readBatch s pkts).bufs b = s.bufs b := by
  have hi := inv_readBatch h pkts
  exact store_other _ _ _ _ ((hi.2 b hb).2)

theorem inv_take {s : St} (h : Inv s) (i : Nat) : Inv (take s i).1 := by
  obtain ⟨h1, h2⟩ := h
  unfold take
  split
  · rename_i b hb
    constructor
    · intro x hx
      exact h1 x (List.mem_of_mem_set hx |> fun m => by
        cases m with
        | inl e => exact e
        | inr e => cases e)
    · intro x hx
      simp only [List.mem_cons] at hx
      sorry
  · exact ⟨h1, h2⟩

end DaeVerif.C13.Batch
