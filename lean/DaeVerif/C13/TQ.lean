/-!
# C13 (a) — the per-flow UDP task queues (`control/udp_task_pool.go`) as an interleaving
transition system

Threads:

* **producers** — one per `EmitTask(key, task)` call (`acquireQueue`, `enqueue`, and — in the
  legacy protocol — the release `refs.Add(-1)`);
* **convoys** — one per `UdpTaskQueue` (`convoy()`: pop ready task, run it, else wait; on the idle
  timer: emptiness check, claim `CAS(refs,0,sentinel)`, `CompareAndDelete`, recycle the channel).

Every model action is ONE access to shared memory of the real code (a `sync.Map` operation, an
atomic load / CAS / add on `refs`, a channel operation, a `sync.Pool` Get/Put, one `enqueueMu`
critical section); the program counters name the point *before* the next access.  The yield points
of build tag `verif` sit at (a subset of) these points, which is how the correspondence harness
forces model schedules on the real goroutines.

`Cfg` selects the protocol: `fixedCfg` is the code as it is in /repo (refs counts queued and
running tasks; `popOverflowTask` re-polls the channel under `enqueueMu`); the two legacy switches
reproduce the code before the fixes and are used only for the witness theorems in `Props.lean`
and by the harness' revert tests.

Deliberate abstractions (see design_notes/C13.md): the `wake` channel is not modelled — a waiting
convoy may take a (possibly spurious) wake-up at any time, which only adds behaviours; the idle
timer may fire whenever the convoy waits; `sync.Pool` is a bag from which `Get` takes any element
or makes a fresh channel; `Close`/`Reset`/task panics are outside the property's quantifier.

Core Lean only.
-/
namespace DaeVerif.C13.TQ

abbrev Key := Nat
abbrev Task := Nat     -- a task is identified with the producer (EmitTask call) that carries it
abbrev QId := Nat
abbrev ChId := Nat
abbrev PId := Nat

structure Cfg where
  /-- channel capacity (`UdpTaskQueueLength`) -/
  cap : Nat
  /-- fix 4640436: `refs` also counts queued and running tasks (EmitTask does not decrement,
  the convoy decrements after running a task) -/
  gcCountsQueued : Bool
  /-- fix 351fba0: `popOverflowTask` re-polls the channel under `enqueueMu` -/
  popRepolls : Bool
  deriving DecidableEq, Repr

def fixedCfg : Cfg := ⟨128, true, true⟩

/-- the value `CAS(refs, 0, -1000000)` writes -/
def sentinel : Int := -1000000

/-- producer program counter: the point before its next shared access -/
inductive PPC
  | start                       -- before `p.queues.Load(key)`
  | fastRead (q : Nat)          -- fast loop, before `refs := q.refs.Load()`
  | fastCas (q : Nat) (r : Int) -- before `CompareAndSwap(refs, refs+1)`
  | create                      -- label createNew, before `queueChPool.Get()`
  | los (c : Nat)              -- holding channel c, before `LoadOrStore(key, newQ)`
  | putBack (c : Nat) (q : Nat) -- LoadOrStore found q, before `queueChPool.Put(ch)`
  | slowRead (q : Nat)
  | slowCas (q : Nat) (r : Int)
  | slowDel (q : Nat)           -- saw refs < 0, before `CompareAndDelete(key, q)`
  | addRef (q : Nat)            -- stored the new queue, before `refs.Add(1)` and `go convoy()`
  | enq (q : Nat)               -- holds a reference, before `enqueue`
  | rel (q : Nat)               -- enqueued (legacy: before `refs.Add(-1)`)
  | done
  deriving DecidableEq, Repr

/-- convoy program counter -/
inductive CPC
  | idle            -- queue stored, `go convoy()` not executed yet
  | top             -- loop top, before the lock-free poll of the channel
  | popOvf          -- the poll found the channel empty, before `popOverflowTask`
  | exec (t : Nat) -- running task t (until it returns and — fixed protocol — `refs.Add(-1)`)
  | wait            -- blocked in `select { <-ch; <-wake; <-timer.C }`
  | chk1            -- timer fired, before `refs.Load()`
  | chk2            -- before `len(q.ch)`
  | chk3            -- before `overflowLen.Load()`
  | claim           -- emptiness check passed, before `CAS(refs, 0, sentinel)`
  | del             -- claimed, before `CompareAndDelete(key, q)`
  | recycle         -- before `queueChPool.Put(q.ch)`
  | loadChk         -- delete failed, before `queues.Load(key)`
  | restore         -- mapping still points to q, before `refs.Store(0)`
  | exited
  deriving DecidableEq, Repr

structure Queue where
  key : Nat
  ch : Nat
  ovf : List Nat
  ovfMode : Bool
  refs : Int
  cpc : CPC
  deriving DecidableEq, Repr

structure Prod where
  key : Nat
  pc : PPC
  deriving DecidableEq, Repr

structure St where
  map : Nat → Option Nat
  nq : Nat
  qs : Nat → Queue
  nch : Nat
  chans : Nat → List Nat
  pool : List Nat
  np : Nat
  prods : Nat → Prod
  /-- ghost: tasks in the order their `enqueue` critical section ran, per flow key -/
  accepted : Nat → List Nat
  /-- ghost: tasks in the order they finished, per key of the queue whose convoy ran them -/
  done : Nat → List Nat

def dummyQ : Queue := ⟨0, 0, [], false, 0, .exited⟩

def init : St :=
  { map := fun _ => none, nq := 0, qs := fun _ => dummyQ, nch := 0, chans := fun _ => [],
    pool := [], np := 0, prods := fun _ => ⟨0, .done⟩, accepted := fun _ => [], done := fun _ => [] }

/-! ### state updates -/

def setPc (s : St) (p : Nat) (pc : PPC) : St :=
  { s with prods := fun i => if i = p then { s.prods p with pc := pc } else s.prods i }

def setQ (s : St) (q : Nat) (Q : Queue) : St :=
  { s with qs := fun i => if i = q then Q else s.qs i }

def setChan (s : St) (c : Nat) (l : List Nat) : St :=
  { s with chans := fun i => if i = c then l else s.chans i }

def setMap (s : St) (k : Nat) (v : Option Nat) : St :=
  { s with map := fun i => if i = k then v else s.map i }

/-- a fresh, empty channel `s.nch` (`sync.Pool.New`) -/
def newChan (s : St) : St :=
  { s with nch := s.nch + 1, chans := fun i => if i = s.nch then [] else s.chans i }

def setPool (s : St) (l : List Nat) : St := { s with pool := l }

/-- `LoadOrStore` stores a new queue `s.nq` for key k with channel ch -/
def addQueue (s : St) (k : Nat) (ch : Nat) : St :=
  { s with nq := s.nq + 1,
           qs := fun i => if i = s.nq then ⟨k, ch, [], false, 0, .idle⟩ else s.qs i,
           map := fun i => if i = k then some s.nq else s.map i }

def logAccept (s : St) (k : Nat) (t : Nat) : St :=
  { s with accepted := fun i => if i = k then s.accepted k ++ [t] else s.accepted i }

def logDone (s : St) (k : Nat) (t : Nat) : St :=
  { s with done := fun i => if i = k then s.done k ++ [t] else s.done i }

def addProd (s : St) (k : Nat) : St :=
  { s with np := s.np + 1, prods := fun i => if i = s.np then ⟨k, .start⟩ else s.prods i }

def setCpc (s : St) (q : Nat) (pc : CPC) : St := setQ s q { s.qs q with cpc := pc }
def setRefs (s : St) (q : Nat) (r : Int) : St := setQ s q { s.qs q with refs := r }

/-- `(*UdpTaskQueue).enqueue` — one `enqueueMu` critical section -/
def enqueue (cfg : Cfg) (s : St) (q : Nat) (t : Nat) : St :=
  let Q := s.qs q
  if Q.ovfMode then setQ s q { Q with ovf := Q.ovf ++ [t] }
  else if (s.chans Q.ch).length < cfg.cap then setChan s Q.ch (s.chans Q.ch ++ [t])
  else setQ s q { Q with ovfMode := true, ovf := Q.ovf ++ [t] }

/-- choice made by the environment at a convoy's `select` -/
inductive Sel | recv | wake | timer
  deriving DecidableEq, Repr

inductive Act
  /-- a new `EmitTask(k, ·)` call starts -/
  | spawn (k : Nat)
  /-- producer p performs its next access; `c` is consulted only at `queueChPool.Get()`:
  `some c` = the pool hands out channel c, `none` = `New` makes a fresh one -/
  | prod (p : Nat) (c : Option Nat)
  /-- convoy of queue q performs its next access; `sel` is consulted only at the `select` -/
  | conv (q : Nat) (sel : Sel)
  deriving DecidableEq, Repr

def stepProd (cfg : Cfg) (s : St) (p : Nat) (c : Option Nat) : Option St :=
  if p < s.np then
    let k := (s.prods p).key
    match (s.prods p).pc with
    | .start =>
      match s.map k with
      | some q => some (setPc s p (.fastRead q))
      | none => some (setPc s p .create)
    | .fastRead q =>
      if (s.qs q).refs < 0 then some (setPc s p .create)
      else some (setPc s p (.fastCas q (s.qs q).refs))
    | .fastCas q r =>
      if (s.qs q).refs = r then some (setPc (setRefs s q (r + 1)) p (.enq q))
      else some (setPc s p (.fastRead q))
    | .create =>
      match c with
      | none => some (setPc (newChan s) p (.los s.nch))
      | some ch =>
        if ch ∈ s.pool then some (setPc (setPool s (s.pool.erase ch)) p (.los ch)) else none
    | .los ch =>
      match s.map k with
      | some q => some (setPc s p (.putBack ch q))
      | none => some (setPc (addQueue s k ch) p (.addRef s.nq))
    | .putBack ch q => some (setPc (setPool s (s.pool ++ [ch])) p (.slowRead q))
    | .slowRead q =>
      if (s.qs q).refs < 0 then some (setPc s p (.slowDel q))
      else some (setPc s p (.slowCas q (s.qs q).refs))
    | .slowCas q r =>
      if (s.qs q).refs = r then some (setPc (setRefs s q (r + 1)) p (.enq q))
      else some (setPc s p (.slowRead q))
    | .slowDel q =>
      if s.map k = some q then some (setPc (setMap s k none) p .create)
      else some (setPc s p .create)
    | .addRef q =>
      some (setPc (setQ s q { s.qs q with refs := (s.qs q).refs + 1, cpc := .top }) p (.enq q))
    | .enq q =>
      some (setPc (logAccept (enqueue cfg s q p) k p) p (.rel q))
    | .rel q =>
      if cfg.gcCountsQueued then some (setPc s p .done)
      else some (setPc (setRefs s q ((s.qs q).refs - 1)) p .done)
    | .done => none
  else none

def stepConv (cfg : Cfg) (s : St) (q : Nat) (sel : Sel) : Option St :=
  if q < s.nq then
    let Q := s.qs q
    match Q.cpc with
    | .idle => none
    | .top =>
      match s.chans Q.ch with
      | t :: rest => some (setCpc (setChan s Q.ch rest) q (.exec t))
      | [] => some (setCpc s q .popOvf)
    | .popOvf =>
      match (if cfg.popRepolls then s.chans Q.ch else []) with
      | t :: rest => some (setCpc (setChan s Q.ch rest) q (.exec t))
      | [] =>
        match Q.ovf with
        | [] => some (setQ s q { Q with ovfMode := false, cpc := .wait })
        | t :: rest =>
          some (setQ s q { Q with ovf := rest, ovfMode := if rest = [] then false else Q.ovfMode,
                                   cpc := .exec t })
    | .exec t =>
      if cfg.gcCountsQueued then some (setQ (logDone s Q.key t) q { Q with refs := Q.refs - 1, cpc := .top })
      else some (setQ (logDone s Q.key t) q { Q with cpc := .top })
    | .wait =>
      match sel with
      | .recv =>
        match s.chans Q.ch with
        | t :: rest => some (setCpc (setChan s Q.ch rest) q (.exec t))
        | [] => none
      | .wake => if Q.refs < 0 then some (setCpc s q .exited) else some (setCpc s q .top)
      | .timer => some (setCpc s q .chk1)
    | .chk1 => if Q.refs > 0 then some (setCpc s q .top) else some (setCpc s q .chk2)
    | .chk2 => if (s.chans Q.ch).length > 0 then some (setCpc s q .top) else some (setCpc s q .chk3)
    | .chk3 => if Q.ovf.length > 0 then some (setCpc s q .top) else some (setCpc s q .claim)
    | .claim =>
      if Q.refs = 0 then some (setQ s q { Q with refs := sentinel, cpc := .del })
      else some (setCpc s q .top)
    | .del =>
      if s.map Q.key = some q then some (setCpc (setMap s Q.key none) q .recycle)
      else some (setCpc s q .loadChk)
    | .recycle => some (setCpc (setPool s (s.pool ++ [Q.ch])) q .exited)
    | .loadChk =>
      if s.map Q.key = some q then some (setCpc s q .restore) else some (setCpc s q .recycle)
    | .restore => some (setQ s q { Q with refs := 0, cpc := .top })
    | .exited => none
  else none

def step (cfg : Cfg) (s : St) : Act → Option St
  | .spawn k =>
    some (addProd s k)
  | .prod p c => stepProd cfg s p c
  | .conv q sel => stepConv cfg s q sel

/-- run a schedule; `none` when some action was not enabled -/
def run (cfg : Cfg) : St → List Act → Option St
  | s, [] => some s
  | s, a :: as => match step cfg s a with
    | some s' => run cfg s' as
    | none => none

inductive Reachable (cfg : Cfg) : St → Prop
  | init : Reachable cfg init
  | step {s s' : St} (a : Act) : Reachable cfg s → step cfg s a = some s' → Reachable cfg s'

/-! ### observations -/

/-- the task a convoy is running -/
def cur (Q : Queue) : List Task := match Q.cpc with | .exec t => [t] | _ => []

/-- tasks accepted for flow k and not finished yet, in queue order: running task, channel,
overflow of the queue the table maps k to -/
def pending (s : St) (k : Nat) : List Task :=
  match s.map k with
  | some q => cur (s.qs q) ++ s.chans (s.qs q).ch ++ (s.qs q).ovf
  | none => []

def executing (s : St) (q : Nat) : Bool := match (s.qs q).cpc with | .exec _ => true | _ => false

end DaeVerif.C13.TQ
