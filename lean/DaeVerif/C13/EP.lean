import DaeVerif.C13.Tracker
import DaeVerif.C13.Drain
/-!
# C13 (d) — the UDP endpoint pool (`control/udp_endpoint_pool.go`): life cycle of an endpoint

A sequential specification: every exported operation of the pool / endpoint is one step (the
lock structure that makes them atomic — shard `RWMutex`, creation mutex, `closeOnce`,
`udpConnStateMu` — is discussed in design_notes/C13.md; the two concurrency windows that matter,
concurrent first packets and retire-vs-recreate, are replayed on the real code through the yield
points).  Time is explicit (`now`, nanoseconds since the pool was created); the janitor runs at
every multiple of 250 ms that `advance` crosses.  The conn-state tracker of every generation
(`owner`) and the drain tracker of every generation are the models of parts (b) and (c), so the
endpoint's use of them can be checked against their client discipline.

Endpoints are dialled through *direct* dialers (no proxy address): `effectiveUdpEndpointNatTimeout`
is the identity and the initial-reply guard is on.  Core Lean only.
-/
namespace DaeVerif.C13.EP

/-- `udpEndpointJanitorInterval` -/
def janitorInterval : Nat := 250000000  -- default; the harness reports the value the code uses
/-- `ttlRefreshMinInterval` -/
def ttlRefreshMin : Nat := 200000000
/-- lifetime of a negative-cache entry (`cacheFailureLocked`) -/
def failureTtl : Nat := 2000000000

structure Ep where
  key : Nat
  /-- negative-cache entry (`failed`, no conn, no dialer) -/
  failed : Bool
  dead : Bool
  /-- `closeOnce` has fired -/
  closed : Bool
  /-- ghost: how many times the transport conn's `Close()` ran -/
  connCloses : Nat
  expiresAt : Nat
  lastRefresh : Nat
  natTimeout : Nat
  hasSent : Bool
  hasReply : Bool
  /-- a pending reply peer is remembered (`rememberPendingReplyPeer`) -/
  wrote : Bool
  /-- the pool key is destination-bound and the replies come from that destination -/
  symmetric : Bool
  dialer : Nat
  gen : Nat
  /-- the epoch counter object `dialerGenerationRef` points to -/
  ctr : Nat
  tuples : List Nat
  csClosed : Bool
  owner : Option Nat
  drain : Option Nat
  ticket : Option Nat
  /-- in the dialer's bucket and the transport's bucket (`registerEndpoint`; `Close` unregisters) -/
  registered : Bool
  /-- the transport (`TransportLifecycle.TransportDone()` channel) the conn was dialled over -/
  transport : Nat
  deriving DecidableEq, Repr

def dummyEp : Ep :=
  ⟨0, false, true, true, 0, 0, 0, 0, false, false, false, false, 0, 0, 0, [], true, none, none, none, false, 0⟩

structure St where
  now : Nat
  nextJanitor : Nat
  pool : Nat → Option Nat
  neps : Nat
  eps : Nat → Ep
  /-- epoch counter objects (`*atomic.Uint64`), `Reset` forgets which one is current -/
  nctr : Nat
  ctrVal : Nat → Nat
  curCtr : Nat → Option Nat
  trk : Nat → Tracker.St
  drn : Nat → Drain.St
  /-- ghost: transport dials performed -/
  dials : Nat
  /-- per dialer: how many of its transports have ended (new conns ride on the next one) -/
  tgen : Nat → Nat := fun _ => 0
  /-- the pool's tuning constants (janitor period, TTL-refresh throttle, negative-cache lifetime);
  the harness reads them off the real code, so retuning them is not a disagreement -/
  janitorIv : Nat := janitorInterval
  ttlMin : Nat := ttlRefreshMin
  failTtl : Nat := failureTtl

def init : St :=
  { now := 0, nextJanitor := janitorInterval, pool := fun _ => none, neps := 0, eps := fun _ => dummyEp,
    nctr := 0, ctrVal := fun _ => 0, curCtr := fun _ => none,
    trk := fun _ => Tracker.init, drn := fun _ => Drain.init, dials := 0 }

def setEp (s : St) (e : Nat) (E : Ep) : St := { s with eps := fun i => if i = e then E else s.eps i }
def setPool (s : St) (k : Nat) (v : Option Nat) : St := { s with pool := fun i => if i = k then v else s.pool i }
def setTrk (s : St) (o : Nat) (t : Tracker.St) : St := { s with trk := fun i => if i = o then t else s.trk i }
def setDrn (s : St) (d : Nat) (t : Drain.St) : St := { s with drn := fun i => if i = d then t else s.drn i }

/-- `IsExpired(now)` -/
def Ep.isExpired (E : Ep) (now : Nat) : Bool := 0 < E.expiresAt && E.expiresAt ≤ now

/-- `endpointGenerationCurrent` (failure entries have no dialer: always current) -/
def genCurrent (s : St) (E : Ep) : Bool := E.failed || E.gen == s.ctrVal E.ctr

/-- `endpointSurvivesDialerInvalidation` -/
def Ep.survives (E : Ep) : Bool := E.hasSent || E.hasReply

/-- may the pool hand this entry out (`Get`, and the reuse branch of `GetOrCreate`) -/
def usable (s : St) (E : Ep) : Bool := !E.failed && !E.dead && (genCurrent s E || E.survives)

/-- `RefreshTtlWithTime(now)` (throttled) -/
def refreshTtl (tmin : Nat) (E : Ep) (now : Nat) : Ep :=
  if E.natTimeout = 0 then E
  else
    let minI := if E.natTimeout > 10 * tmin then E.natTimeout / 50 else tmin
    if now - E.lastRefresh < minI then E
    else { E with lastRefresh := now, expiresAt := now + E.natTimeout }

/-- `UpdateNatTimeout(t)` -/
def updateNatTimeout (E : Ep) (now t : Nat) : Ep :=
  if t = 0 then E else { E with natTimeout := t, lastRefresh := now, expiresAt := now + t }

/-- `controlPlaneCore.ReleaseUdpConnStateTuples(keys)`: BeginRelease, (kernel delete), FinalizeRelease -/
def releaseTuples (t : Tracker.St) (ks : List Nat) : Tracker.St :=
  let r := Tracker.step t (.begin ks)
  (Tracker.step r.1 (.finalize r.2)).1

/-- `releaseTrackedUdpConnState`: the tracker side (the endpoint record is updated by `closeEp`) -/
def releaseCs (s : St) (e : Nat) : St :=
  if (s.eps e).csClosed then s
  else match (s.eps e).owner with
    | some o => if (s.eps e).tuples = [] then s else setTrk s o (releaseTuples (s.trk o) (s.eps e).tuples)
    | none => s

/-- `drainRelease()` of endpoint e -/
def releaseDrain (s : St) (e : Nat) : St :=
  match (s.eps e).drain, (s.eps e).ticket with
  | some d, some t => setDrn s d (Drain.step (s.drn d) (.release t))
  | _, _ => s

/-- the endpoint record after `closeOnce` ran -/
def closedRecord (E : Ep) : Ep :=
  { E with closed := true, expiresAt := 0, csClosed := true, tuples := [],
           connCloses := if E.failed then E.connCloses else E.connCloses + 1,
           drain := none, ticket := none, registered := false }

/-- `(*UdpEndpoint).Close()` -/
def closeEp (s : St) (e : Nat) : St :=
  if (s.eps e).closed then s
  else setEp (releaseDrain (releaseCs s e) e) e (closedRecord (s.eps e))

def markDead (s : St) (e : Nat) : St := setEp s e { (s.eps e) with dead := true, expiresAt := 1 }

/-- `selfRemoveFromPool`: only if the pool still maps the key to this endpoint -/
def selfRemove (s : St) (e : Nat) : St :=
  if s.pool (s.eps e).key = some e then setPool s (s.eps e).key none else s

/-- `retire()`: mark dead, leave the pool, close -/
def retire (s : St) (e : Nat) : St := closeEp (selfRemove (markDead s e) e) e

/-- `dialerEpochCounter(d)`: the current counter object of dialer d, made on first use -/
def epochCounter (s : St) (d : Nat) : St × Nat :=
  match s.curCtr d with
  | some c => (s, c)
  | none =>
    ({ s with nctr := s.nctr + 1, ctrVal := fun i => if i = s.nctr then 0 else s.ctrVal i,
              curCtr := fun i => if i = d then some s.nctr else s.curCtr i }, s.nctr)

/-- `TransferRetainedUdpConnStateTuplesFrom`: Retain in the new tracker, Forget in the old one -/
def transferTuples (s : St) (ks : List Nat) (o po : Nat) : St :=
  let cur := ks.foldl (fun t k => (Tracker.step t (.retain k)).1) (s.trk o)
  let prev := ks.foldl (fun t k => (Tracker.step t (.forget k)).1) (s.trk po)
  setTrk (setTrk s o cur) po prev

/-- the owner part of `adoptGeneration` -/
def adoptOwner (s : St) (e : Nat) (owner : Option Nat) : St :=
  match owner with
  | none => s
  | some o =>
    let s1 := match (s.eps e).owner with
      | some po => if po ≠ o ∧ (s.eps e).tuples ≠ [] then transferTuples s (s.eps e).tuples o po else s
      | none => s
    setEp s1 e { (s.eps e) with owner := some o }

/-- the drain-ticket part of `adoptGeneration` -/
def adoptDrain (s : St) (e : Nat) (drain : Option Nat) : St :=
  match drain with
  | none => s
  | some d =>
    if (s.eps e).drain = some d then s
    else
      let s1 := setDrn s d (Drain.step (s.drn d) .acquire)
      let s2 := releaseDrain s1 e
      setEp s2 e { (s.eps e) with drain := some d, ticket := some (s.drn d).released.length }

/-- `adoptGeneration(owner, tracker)` on a reused endpoint -/
def adopt (s : St) (e : Nat) (owner drain : Option Nat) : St :=
  if (s.eps e).csClosed then s else adoptDrain (adoptOwner s e owner) e drain

inductive DialOutcome | ok | failGeneric | failNoAlive
  deriving DecidableEq, Repr

inductive GocResult
  | hit (e : Nat) | created (e : Nat) | errFailed | errDial
  deriving DecidableEq, Repr

/-- the entry the pool would hand out for key k (`Get`, and the reuse branch of `GetOrCreate`) -/
def reuseOf (s : St) (k : Nat) : Option Nat :=
  match s.pool k with
  | some e => if usable s (s.eps e) then some e else none
  | none => none

/-- an unexpired negative-cache entry sits under key k -/
def blockedBy (s : St) (k : Nat) : Bool :=
  match s.pool k with
  | some e => (s.eps e).failed && !(s.eps e).isExpired s.now
  | none => false

/-- stale entry (expired failure, dead, invalidated before traffic): drop and close it -/
def dropStale (s : St) (k : Nat) : St :=
  match s.pool k with
  | some e => closeEp (setPool s k none) e
  | none => s

/-- a new endpoint object is published under its key (one transport dial was attempted) -/
def allocEp (s : St) (E : Ep) : St :=
  setPool (setEp { s with neps := s.neps + 1, dials := s.dials + 1 } s.neps E) E.key (some s.neps)

/-- `cacheFailureLocked`: negative-cache entry for 2 s -/
def failureEntry (k now ttl : Nat) : Ep :=
  { dummyEp with key := k, failed := true, dead := false, closed := false, csClosed := false,
                 expiresAt := now + ttl }

/-- `DrainTracker.Acquire()` for a new endpoint -/
def acquireTicket (s : St) (drain : Option Nat) : St × Option Nat :=
  match drain with
  | some dr => (setDrn s dr (Drain.step (s.drn dr) .acquire), some (s.drn dr).released.length)
  | none => (s, none)

def freshEp (k : Nat) (sym : Bool) (nat now : Nat) (owner drain : Option Nat) (d gen c : Nat)
    (tk : Option Nat) (tr : Nat) : Ep :=
  { key := k, failed := false, dead := false, closed := false, connCloses := 0,
    expiresAt := now + nat, lastRefresh := now, natTimeout := nat,
    hasSent := false, hasReply := false, wrote := false, symmetric := sym,
    dialer := d, gen := gen, ctr := c, tuples := [], csClosed := false,
    owner := owner, drain := drain, ticket := tk, registered := true, transport := tr }

/-- the state in which the new endpoint record is built: stale entry dropped, epoch counter of
the dialer present, drain ticket taken -/
def prepCreate (s : St) (k : Nat) (drain : Option Nat) (d : Nat) : St :=
  (acquireTicket (epochCounter (dropStale s k) d).1 drain).1

/-- the transport new conns of dialer d ride on -/
def transportId (s : St) (d : Nat) : Nat := d * 100000 + s.tgen d + 1

/-- the endpoint object `createEndpointLocked` builds after a successful dial: the generation is the
dialer's epoch *at that moment* (it may be stale by the time the object is published) -/
def createRecord (s : St) (k : Nat) (sym : Bool) (nat : Nat) (owner drain : Option Nat) (d : Nat) : Ep :=
  freshEp k sym nat (prepCreate s k drain d).now owner drain d
    ((epochCounter (dropStale s k) d).1.ctrVal (epochCounter (dropStale s k) d).2)
    (epochCounter (dropStale s k) d).2
    (acquireTicket (epochCounter (dropStale s k) d).1 drain).2
    (transportId s d)

/-- the dial has happened (yield point `create.beforePublish`) -/
def countDial (s : St) : St := { s with dials := s.dials + 1 }

/-- `shard.pool[key] = ue` (and registration in the dialer's bucket) -/
def publishEp (s : St) (E : Ep) : St :=
  setPool (setEp { s with neps := s.neps + 1 } s.neps E) E.key (some s.neps)

/-- creation = dial, then publish; between the two the pool does not know the endpoint yet -/
theorem allocEp_split (s : St) (E : Ep) : allocEp s E = publishEp (countDial s) E := rfl

/-- `GetOrCreate(key, {NatTimeout, ConnStateOwner, DrainTracker})`; `sym` = the key is
destination-bound; `d` = the dialer `GetDialOption` selects -/
def getOrCreate (s : St) (k : Nat) (sym : Bool) (nat : Nat) (owner drain : Option Nat) (d : Nat)
    (out : DialOutcome) : St × GocResult :=
  if blockedBy s k then (s, .errFailed)
  else match reuseOf s k with
  | some e => (adopt (setEp s e (updateNatTimeout (s.eps e) s.now nat)) e owner drain, .hit e)
  | none =>
    match out with
    | .failNoAlive => (dropStale s k, .errDial)
    | .failGeneric => (allocEp (dropStale s k) (failureEntry k (dropStale s k).now s.failTtl), .errDial)
    | .ok =>
      (allocEp (prepCreate s k drain d) (createRecord s k sym nat owner drain d),
       .created (prepCreate s k drain d).neps)

/-- `Get(key)` -/
def get (s : St) (k : Nat) : Option Nat := reuseOf s k

inductive WriteOutcome | ok | err | short
  deriving DecidableEq, Repr

/-- the record after the bookkeeping `WriteTo` does before touching the transport -/
def preWrite (tmin : Nat) (E : Ep) (now : Nat) : Ep :=
  refreshTtl tmin { E with wrote := if E.hasReply then E.wrote else true } now

/-- `WriteTo`; returns whether the call succeeded -/
def writeTo (s : St) (e : Nat) (out : WriteOutcome) : St × Bool :=
  if (s.eps e).dead then (s, false)
  else match out with
    | .err => (retire (setEp s e (preWrite s.ttlMin (s.eps e) s.now)) e, false)
    | .ok => (setEp s e { (preWrite s.ttlMin (s.eps e) s.now) with hasSent := true }, true)
    | .short => (retire (setEp s e { (preWrite s.ttlMin (s.eps e) s.now) with hasSent := true }) e, false)

/-- `markReplied` / `RefreshTtlWithTime` on an accepted reply -/
def onReply (tmin : Nat) (E : Ep) (now : Nat) : Ep :=
  if !E.hasReply then { E with hasReply := true, wrote := false, lastRefresh := now, expiresAt := now + E.natTimeout }
  else refreshTtl tmin E now

/-- the transport delivers a reply from the peer the client wrote to; `handlerOk` = the reply
handler (reinjection to the client) succeeds -/
def reply (s : St) (e : Nat) (handlerOk : Bool) : St :=
  if (s.eps e).closed then s                      -- the read loop has ended with the conn
  else if !(s.eps e).hasReply && !((s.eps e).wrote || (s.eps e).symmetric) then s   -- unmatched initial reply: dropped
  else if handlerOk then setEp s e (onReply s.ttlMin (s.eps e) s.now)
  else retire (setEp s e (onReply s.ttlMin (s.eps e) s.now)) e

/-- the transport's `ReadFrom` fails hard (not a normal close) -/
def readError (s : St) (e : Nat) : St :=
  if (s.eps e).closed then s else retire s e

/-- `Remove(key, ue)` -/
def remove (s : St) (k e : Nat) : St :=
  if s.pool k = some e then closeEp (setPool s k none) e else closeEp s e

/-- entries the janitor / Reset walk over: the pool as a list of (key, endpoint), keys `< nkeys` -/
def pooled (s : St) (nkeys : Nat) : List (Nat × Nat) :=
  (List.range nkeys).filterMap fun k => (s.pool k).map fun e => (k, e)

/-- the janitor's verdict on one entry at tick time t -/
def janitorOne (t : Nat) (s : St) (ke : Nat × Nat) : St :=
  -- (the walk holds the shard lock: the entry it looks at is the current one)
  if s.pool ke.1 = some ke.2 ∧
     ((s.eps ke.2).isExpired t || (!genCurrent s (s.eps ke.2) && !(s.eps ke.2).survives)) = true
  then closeEp (setPool s ke.1 none) ke.2 else s

/-- one janitor pass at tick time `t` -/
def janitor (nkeys : Nat) (s : St) (t : Nat) : St := (pooled s nkeys).foldl (janitorOne t) s

def tickJanitor (nkeys : Nat) (s : St) : St :=
  { (janitor nkeys { s with now := s.nextJanitor } s.nextJanitor) with
    nextJanitor := s.nextJanitor + s.janitorIv }

/-- the janitor runs at every tick up to `target` -/
def runJanitors (nkeys : Nat) (target : Nat) : Nat → St → St
  | 0, s => s
  | fuel + 1, s => if s.nextJanitor ≤ target then runJanitors nkeys target fuel (tickJanitor nkeys s) else s

/-- `time.Sleep(dt)` -/
def advance (nkeys : Nat) (fuel : Nat) (s : St) (dt : Nat) : St :=
  { (runJanitors nkeys (s.now + dt) fuel s) with now := s.now + dt }

def bumpEpoch (s : St) (c : Nat) : St :=
  { s with ctrVal := fun i => if i = c then s.ctrVal c + 1 else s.ctrVal i }

/-- the dialer's bucket (registered endpoints; `Close` unregisters) restricted to those that did not
carry traffic -/
def victims (s : St) (d : Nat) : List Nat :=
  (List.range s.neps).filter fun e =>
    !(s.eps e).failed && (s.eps e).registered && (s.eps e).dialer == d && !(s.eps e).survives

/-- first half of `InvalidateDialerNetworkType(d)`: `counter.Add(1)` (yield point
`invalidate.afterEpochBump`); from here on endpoints of the old generation that never carried
traffic are unusable although they are still alive and pooled -/
def invalBump (s : St) (d : Nat) : St := bumpEpoch (epochCounter s d).1 (epochCounter s d).2

/-- the dialer's bucket as `InvalidateDialerNetworkType` snapshots it: registered, not yet closed -/
def bucket (s : St) (d : Nat) : List Nat :=
  (List.range s.neps).filter fun e => !(s.eps e).failed && (s.eps e).registered && (s.eps e).dialer == d

/-- `InvalidateDialerNetworkType(d)` as one step: bump, then retire (mark dead; leave the pool;
close — `retire = closeEp ∘ selfRemove ∘ markDead`) every bucket member that carried no traffic -/
def invalidate (s : St) (d : Nat) : St × Nat :=
  ((victims (invalBump s d) d).foldl retire (invalBump s d), (victims (invalBump s d) d).length)

/-- the pool's reverse indexes are emptied (`Reset()`): nobody is registered any more -/
def clearIndex (s : St) : St := { s with eps := fun e => { (s.eps e) with registered := false } }

/-- the endpoints riding on dialer d's current transport (`udpEndpointTransportBucket`) -/
def tvictims (s : St) (d : Nat) : List Nat :=
  (List.range s.neps).filter fun e => (s.eps e).registered && (s.eps e).transport == transportId s d

/-- the transport ends (`watchTransportLifecycle`): every endpoint on it is retired, traffic or not -/
def transportDone (s : St) (d : Nat) : St :=
  { ((tvictims s d).foldl retire s) with tgen := fun i => if i = d then s.tgen d + 1 else s.tgen i }

/-- `registerEndpoint(ue)` (after the table write and the yield point `create.afterPublish`): the
endpoint enters its dialer's bucket and its transport's bucket — even when somebody has closed it in
between (it then stays in the dialer's bucket).  If the transport has ended meanwhile the watcher of
the new bucket fires at once and retires the endpoint. -/
def register (s : St) (e : Nat) : St :=
  if (s.eps e).transport = transportId s (s.eps e).dialer then setEp s e { (s.eps e) with registered := true }
  else retire (setEp s e { (s.eps e) with registered := true }) e

def resetOne (s : St) (ke : Nat × Nat) : St :=
  if s.pool ke.1 = some ke.2 then closeEp (setPool s ke.1 none) ke.2 else s

/-- `Reset()` -/
def reset (nkeys : Nat) (s : St) : St :=
  { clearIndex ((pooled s nkeys).foldl resetOne s) with curCtr := fun _ => none }

def newTupleKeys (E : Ep) (j : Nat) : List Nat := [2 * j, 2 * j + 1].filter fun k => !E.tuples.contains k

/-- `TrackUdpConnStateTuplePair`: pair `j` stands for the two tuples `2j`, `2j+1` -/
def track (s : St) (e : Nat) (j : Nat) : St :=
  if (s.eps e).csClosed then s
  else match (s.eps e).owner with
    | none => s
    | some o =>
      if newTupleKeys (s.eps e) j = [] then s
      else
        setTrk (setEp s e { (s.eps e) with tuples := (s.eps e).tuples ++ newTupleKeys (s.eps e) j }) o
          ((newTupleKeys (s.eps e) j).foldl (fun t k => (Tracker.step t (.retain k)).1) (s.trk o))

/-! ### histories -/

inductive Op
  | goc (k : Nat) (sym : Bool) (nat : Nat) (owner drain : Option Nat) (d : Nat) (out : DialOutcome)
  | write (e : Nat) (out : WriteOutcome)
  | reply (e : Nat) (handlerOk : Bool)
  | readErr (e : Nat)
  | remove (k e : Nat)
  | close (e : Nat)
  | advance (dt : Nat)
  | invalidate (d : Nat)
  | reset
  | track (e j : Nat)
  -- the steps `InvalidateDialerNetworkType`, `retire` and a creation consist of, on their own: the
  -- harness parks the real calls between them (yield points invalidate.afterEpochBump,
  -- retire.afterMarkDead / afterSelfRemove, create.beforePublish), so histories may interleave
  -- anything there
  | invalBump (d : Nat)
  | markDead (e : Nat)
  | selfRemove (e : Nat)
  | prepCreate (k : Nat) (drain : Option Nat) (d : Nat)
  /-- publish an endpoint object built earlier (its generation may be stale by now); only open,
  never-closed objects that track no tuple yet are ever published -/
  | publish (E : Ep)
  | register (e : Nat)
  | transportDone (d : Nat)
  deriving DecidableEq, Repr

/-- number of pool keys the janitor / Reset enumerate (the model's key universe) -/
def nkeys : Nat := 6

def step (s : St) : Op → St
  | .goc k sym nat owner drain d out => (getOrCreate s k sym nat owner drain d out).1
  | .write e out => (writeTo s e out).1
  | .reply e ok => reply s e ok
  | .readErr e => readError s e
  | .remove k e => remove s k e
  | .close e => closeEp s e
  | .advance dt => advance nkeys (dt / (s.janitorIv + 1) + 2) s dt
  | .invalidate d => (invalidate s d).1
  | .reset => reset nkeys s
  | .track e j => track s e j
  | .invalBump d => invalBump s d
  | .markDead e => markDead s e
  | .selfRemove e => selfRemove s e
  | .prepCreate k drain d => countDial (prepCreate s k drain d)
  | .publish E => if E.closed = false ∧ E.connCloses = 0 ∧ E.tuples = [] then publishEp s E else s
  | .register e => register s e
  | .transportDone d => transportDone s d

def run : St → List Op → St
  | s, [] => s
  | s, op :: ops => run (step s op) ops

end DaeVerif.C13.EP
