import DaeVerif.C13.TQProd2
import DaeVerif.C13.TQProd3
import DaeVerif.C13.TQProd4
import DaeVerif.C13.TQProd5
import DaeVerif.C13.TQConv3
/-! C13 (a) — every step of the repaired protocol preserves the invariant -/
namespace DaeVerif.C13.TQ

/-- the protocol of /repo: refs counts queued tasks, popOverflowTask re-polls the channel -/
def Cfg.Repaired (cfg : Cfg) : Prop := cfg.gcCountsQueued = true ∧ cfg.popRepolls = true

theorem inv_stepProd {cfg : Cfg} (hcfg : cfg.Repaired) {s s' : St} (h : Inv s) (p : Nat) (c : Option Nat)
    (hs : stepProd cfg s p c = some s') : Inv s' := by
  unfold stepProd at hs
  by_cases hp : p < s.np
  · simp only [hp, if_true] at hs
    have hP := h.p p hp
    cases hpc : (s.prods p).pc with
    | start =>
      simp only [hpc] at hs
      cases hm : s.map (s.prods p).key with
      | none =>
        simp only [hm] at hs; injection hs with hs; subst hs
        apply inv_setPc_plain h p hp <;> simp [hpc, PcQ, PcC, Enqueued]
      | some q =>
        simp only [hm] at hs; injection hs with hs; subst hs
        have := h.g.map_lt _ q hm
        apply inv_setPc_plain h p hp <;> simp [hpc, PcQ, PcC, Enqueued]
        exact this
    | fastRead q =>
      simp only [hpc] at hs
      have hq := hP.pc_q q (by rw [hpc]; simp [PcQ])
      by_cases hr : (s.qs q).refs < 0
      · simp only [hr, if_true] at hs; injection hs with hs; subst hs
        apply inv_setPc_plain h p hp <;> simp [hpc, PcQ, PcC, Enqueued]
      · simp only [hr, if_false] at hs; injection hs with hs; subst hs
        apply inv_setPc_plain h p hp <;> simp [hpc, PcQ, PcC, Enqueued]
        · exact hq
        · omega
    | fastCas q r =>
      simp only [hpc] at hs
      have hq := hP.pc_q q (by rw [hpc]; simp [PcQ])
      by_cases hr : (s.qs q).refs = r
      · simp only [hr, if_true] at hs; injection hs with hs; subst hs
        exact inv_cas h p hp q r (Or.inl hpc) hr
      · simp only [hr, if_false] at hs; injection hs with hs; subst hs
        apply inv_setPc_plain h p hp <;> simp [hpc, PcQ, PcC, Enqueued]
        exact hq
    | create =>
      simp only [hpc] at hs
      cases c with
      | none =>
        simp only at hs; injection hs with hs; subst hs
        exact inv_newChan h p hp hpc
      | some ch =>
        simp only at hs
        by_cases hin : ch ∈ s.pool
        · simp only [hin, if_true] at hs; injection hs with hs; subst hs
          exact inv_takeChan h p hp hpc ch hin
        · simp [hin] at hs
    | los ch =>
      simp only [hpc] at hs
      cases hm : s.map (s.prods p).key with
      | none =>
        simp only [hm] at hs; injection hs with hs; subst hs
        exact inv_store h p hp ch hpc hm
      | some q =>
        simp only [hm] at hs; injection hs with hs; subst hs
        have := h.g.map_lt _ q hm
        apply inv_setPc_plain h p hp <;> simp [hpc, PcQ, PcC, Enqueued]
        exact this
    | putBack ch q =>
      simp only [hpc] at hs; injection hs with hs; subst hs
      exact inv_putBack h p hp ch q hpc
    | slowRead q =>
      simp only [hpc] at hs
      have hq := hP.pc_q q (by rw [hpc]; simp [PcQ])
      by_cases hr : (s.qs q).refs < 0
      · simp only [hr, if_true] at hs; injection hs with hs; subst hs
        apply inv_setPc_plain h p hp <;> simp [hpc, PcQ, PcC, Enqueued]
        · exact hq
        · exact hr
      · simp only [hr, if_false] at hs; injection hs with hs; subst hs
        apply inv_setPc_plain h p hp <;> simp [hpc, PcQ, PcC, Enqueued]
        · exact hq
        · omega
    | slowCas q r =>
      simp only [hpc] at hs
      have hq := hP.pc_q q (by rw [hpc]; simp [PcQ])
      by_cases hr : (s.qs q).refs = r
      · simp only [hr, if_true] at hs; injection hs with hs; subst hs
        exact inv_cas h p hp q r (Or.inr hpc) hr
      · simp only [hr, if_false] at hs; injection hs with hs; subst hs
        apply inv_setPc_plain h p hp <;> simp [hpc, PcQ, PcC, Enqueued]
        exact hq
    | slowDel q =>
      simp only [hpc] at hs
      by_cases hm : s.map (s.prods p).key = some q
      · simp only [hm, if_true] at hs; injection hs with hs; subst hs
        exact inv_slowDelOk h p hp q hpc hm
      · simp only [hm, if_false] at hs; injection hs with hs; subst hs
        apply inv_setPc_plain h p hp <;> simp [hpc, PcQ, PcC, Enqueued]
    | addRef q =>
      simp only [hpc] at hs; injection hs with hs; subst hs
      exact inv_addRef h p hp q hpc
    | enq q =>
      simp only [hpc] at hs; injection hs with hs; subst hs
      exact inv_enqueue cfg h p hp q hpc
    | rel q =>
      simp only [hpc, hcfg.1, if_true] at hs; injection hs with hs; subst hs
      apply inv_setPc_plain h p hp <;> simp [hpc, PcQ, PcC, Enqueued]
    | done =>
      simp [hpc] at hs
  · simp [hp] at hs

theorem setCpc_eq (s : St) (q : Nat) (c : CPC) :
    setCpc s q c = setQ s q { s.qs q with ovfMode := (s.qs q).ovfMode, cpc := c } := rfl

theorem inv_stepConv {cfg : Cfg} (hcfg : cfg.Repaired) {s s' : St} (h : Inv s) (q : Nat) (sel : Sel)
    (hs : stepConv cfg s q sel = some s') : Inv s' := by
  unfold stepConv at hs
  by_cases hq : q < s.nq
  · simp only [hq, if_true] at hs
    have hQ := h.q q hq
    -- moving the pc inside the unclaimed phase
    have plain : ∀ c' : CPC, ¬ Claimed c' → execN c' = 0 → ¬ Claimed (s.qs q).cpc →
        execN (s.qs q).cpc = 0 → (s.qs q).cpc ≠ .idle → Inv (setCpc s q c') := by
      intro c' hc1 hc2 hc3 hc4 hc5
      rw [setCpc_eq]
      apply inv_setCpc_plain h q hq c' _
      · exact ⟨fun x => absurd x hc1, fun x => absurd x hc3⟩
      · intro hg; exfalso; apply hc1; cases c' <;> simp_all [Gone, Claimed]
      · intro e; apply hc1; rw [e]; simp [Claimed]
      · intro e; apply hc1; rw [e]; simp [Claimed]
      · intro e; apply hc3; rw [e]; simp [Claimed]
      · exact hc2
      · exact hc4
      · exact hc5
      · exact Or.inl rfl
    cases hcpc : (s.qs q).cpc with
    | idle => simp [hcpc] at hs
    | top =>
      simp only [hcpc] at hs
      cases hch : s.chans (s.qs q).ch with
      | nil =>
        simp only [hch] at hs; injection hs with hs; subst hs
        apply plain <;> simp [hcpc, Claimed, execN]
      | cons t rest =>
        simp only [hch] at hs; injection hs with hs; subst hs
        apply inv_popChan h q hq t rest hch <;> simp [hcpc, Claimed, execN]
    | popOvf =>
      simp only [hcpc, hcfg.2, if_true] at hs
      cases hch : s.chans (s.qs q).ch with
      | cons t rest =>
        simp only [hch] at hs; injection hs with hs; subst hs
        apply inv_popChan h q hq t rest hch <;> simp [hcpc, Claimed, execN]
      | nil =>
        simp only [hch] at hs
        cases hov : (s.qs q).ovf with
        | nil =>
          simp only [hov] at hs; injection hs with hs; subst hs
          have key : Inv (setQ s q { s.qs q with ovfMode := false, cpc := .wait }) := by
            apply inv_setCpc_plain h q hq .wait false <;> simp [hcpc, Claimed, Gone, execN, hov]
          simpa [hov] using key
        | cons t rest =>
          simp only [hov] at hs; injection hs with hs; subst hs
          apply inv_popOvf h q hq t rest hov hch <;> simp [hcpc, Claimed, execN]
    | exec t =>
      simp only [hcpc, hcfg.1, if_true] at hs; injection hs with hs; subst hs
      exact inv_execEnd h q hq t hcpc
    | wait =>
      simp only [hcpc] at hs
      cases sel with
      | recv =>
        simp only at hs
        cases hch : s.chans (s.qs q).ch with
        | nil => simp [hch] at hs
        | cons t rest =>
          simp only [hch] at hs; injection hs with hs; subst hs
          apply inv_popChan h q hq t rest hch <;> simp [hcpc, Claimed, execN]
      | wake =>
        simp only at hs
        by_cases hr : (s.qs q).refs < 0
        · have := hQ.phase.mp hr; rw [hcpc] at this; simp [Claimed] at this
        · simp only [hr, if_false] at hs; injection hs with hs; subst hs
          apply plain <;> simp [hcpc, Claimed, execN]
      | timer =>
        simp only at hs; injection hs with hs; subst hs
        apply plain <;> simp [hcpc, Claimed, execN]
    | chk1 =>
      simp only [hcpc] at hs
      by_cases hr : (s.qs q).refs > 0
      · simp only [hr, if_true] at hs; injection hs with hs; subst hs
        apply plain <;> simp [hcpc, Claimed, execN]
      · simp only [hr, if_false] at hs; injection hs with hs; subst hs
        apply plain <;> simp [hcpc, Claimed, execN]
    | chk2 =>
      simp only [hcpc] at hs
      by_cases hr : (s.chans (s.qs q).ch).length > 0
      · simp only [hr, if_true] at hs; injection hs with hs; subst hs
        apply plain <;> simp [hcpc, Claimed, execN]
      · simp only [hr, if_false] at hs; injection hs with hs; subst hs
        apply plain <;> simp [hcpc, Claimed, execN]
    | chk3 =>
      simp only [hcpc] at hs
      by_cases hr : (s.qs q).ovf.length > 0
      · simp only [hr, if_true] at hs; injection hs with hs; subst hs
        apply plain <;> simp [hcpc, Claimed, execN]
      · simp only [hr, if_false] at hs; injection hs with hs; subst hs
        apply plain <;> simp [hcpc, Claimed, execN]
    | claim =>
      simp only [hcpc] at hs
      by_cases hr : (s.qs q).refs = 0
      · simp only [hr, if_true] at hs; injection hs with hs; subst hs
        have := inv_claim h q hq hcpc hr
        simpa [hr] using this
      · simp only [hr, if_false] at hs; injection hs with hs; subst hs
        apply plain <;> simp [hcpc, Claimed, execN]
    | del =>
      simp only [hcpc] at hs
      by_cases hm : s.map (s.qs q).key = some q
      · simp only [hm, if_true] at hs; injection hs with hs; subst hs
        exact inv_delOk h q hq hcpc hm
      · simp only [hm, if_false] at hs; injection hs with hs; subst hs
        rw [setCpc_eq]
        apply inv_setCpc_plain h q hq .loadChk _ <;> simp [hcpc, Claimed, Gone, execN]
        exact hm
    | recycle =>
      simp only [hcpc] at hs; injection hs with hs; subst hs
      exact inv_recycle h q hq hcpc
    | loadChk =>
      simp only [hcpc] at hs
      have hm : s.map (s.qs q).key ≠ some q := hQ.gone (by rw [hcpc]; simp [Gone])
      simp only [hm, if_false] at hs; injection hs with hs; subst hs
      rw [setCpc_eq]
      apply inv_setCpc_plain h q hq .recycle _ <;> simp [hcpc, Claimed, Gone, execN]
      exact hm
    | restore => exact absurd hcpc hQ.no_restore
    | exited => simp [hcpc] at hs
  · simp [hq] at hs

/-- every step of the repaired protocol preserves the invariant -/
theorem inv_step {cfg : Cfg} (hcfg : cfg.Repaired) {s s' : St} (h : Inv s) (a : Act)
    (hs : step cfg s a = some s') : Inv s' := by
  cases a with
  | spawn k => simp only [step] at hs; injection hs with hs; subst hs; exact inv_spawn h k
  | prod p c => exact inv_stepProd hcfg h p c hs
  | conv q sel => exact inv_stepConv hcfg h q sel hs

theorem inv_reachable {cfg : Cfg} (hcfg : cfg.Repaired) {s : St} (hr : Reachable cfg s) : Inv s := by
  induction hr with
  | init => exact inv_init
  | step a _ hs ih => exact inv_step hcfg ih a hs

theorem reachable_of_run (cfg : Cfg) : ∀ (as : List Act) (s s' : St), Reachable cfg s →
    run cfg s as = some s' → Reachable cfg s' := by
  intro as
  induction as with
  | nil => intro s s' hr h; simp [run] at h; subst h; exact hr
  | cons a as ih =>
    intro s s' hr h
    simp only [run] at h
    cases hs : step cfg s a with
    | none => simp [hs] at h
    | some s1 => simp only [hs] at h; exact ih s1 s' (Reachable.step a hr hs) h


end DaeVerif.C13.TQ
