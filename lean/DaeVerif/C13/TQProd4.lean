import DaeVerif.C13.TQProd
/-! C13 (a) — invariant preservation: `refs.Add(1)` + `go convoy()`; `CompareAndDelete` by a producer -/
namespace DaeVerif.C13.TQ

/-- the creator takes its reference and starts the convoy -/
theorem inv_addRef {s : St} (h : Inv s) (p : Nat) (hp : p < s.np) (q : Nat)
    (hpc : (s.prods p).pc = .addRef q) :
    Inv (setPc (setQ s q { s.qs q with refs := (s.qs q).refs + 1, cpc := .top }) p (.enq q)) := by
  have g := h.g
  have hP := h.p p hp
  have hPq := hP.pc_q q (by rw [hpc]; simp [PcQ])
  have hidle := hP.addref_idle q hpc
  have hQ := h.q q hPq.1
  have hr0 : 0 ≤ (s.qs q).refs := by
    by_cases hlt : (s.qs q).refs < 0
    · have := hQ.phase.mp hlt; rw [hidle] at this; simp [Claimed] at this
    · omega
  have hhold : ∀ q', holders (setPc (setQ s q { s.qs q with refs := (s.qs q).refs + 1, cpc := .top }) p (.enq q)) q'
      = holders s q' + (if q' = q then 1 else 0) := by
    intro q'
    have := holders_upd s (setPc (setQ s q { s.qs q with refs := (s.qs q).refs + 1, cpc := .top }) p (.enq q)) p q' hp rfl
      (by intro i hi; simp [hi])
    simp only [hpc, setPc_prods, if_true, PPC.enq.injEq] at this
    simp at this
    rw [this]
    by_cases hqq : q' = q
    · subst hqq; simp
    · have : ¬ q = q' := fun h => hqq h.symm
      simp [this, hqq]
  refine ⟨?_, ?_, ?_⟩
  · intro q' hq'
    have hq0 : q' < s.nq := hq'
    by_cases hqq : q' = q
    · subst hqq
      constructor
      · simp; exact hQ.ch_lt
      · simp [Claimed]; omega
      · simp; intro _; exact hQ.live_map hr0
      · simp [Gone]
      · simp
      · simp; intro hin; exact hQ.ch_pool (by rw [hidle]; simp) hin
      · intro _
        rw [hhold q']
        have := hQ.refs_ge hr0
        rw [hidle] at this
        simp [execN] at this ⊢
        omega
      · simp; intro hlt; omega
      · simp; intro hlt; omega
      · simp; exact hQ.mode
    · apply (h.q q' hq0).frame
      · simp [hqq]
      · exact Nat.le_refl _
      · exact Iff.rfl
      · exact fun _ x => x
      · rw [hhold q']; simp [hqq]
      · intro _; rfl
  · intro i hi
    have hi' : i < s.np := hi
    by_cases hip : i = p
    · subst hip
      constructor
      · intro q' hq'; simp [PcQ] at hq'; subst hq'; simp; exact hPq
      · intro c hc; simp [PcC] at hc
      · intro q' hq'; simp at hq'
      · intro q' r hc; simp at hc
      · intro q' hq'; simp at hq'
    · apply PInv.frame (h.p i hi')
      · simp [hip]
      · exact Nat.le_refl _
      · intro q' _; simp only [setPc_qs, setQ_qs]; by_cases hqq : q' = q
        · subst hqq; simp
        · simp [hqq]
      · exact Nat.le_refl _
      · intro c _ hin; exact hin
      · intro c _; rfl
      · intro c _ q' hq' he heq
        simp only [setPc_qs, setQ_qs] at he heq
        by_cases hqq : q' = q
        · subst hqq; simp at heq; exact ⟨hq', by rw [hidle]; simp, heq⟩
        · simp [hqq] at he heq; exact ⟨hq', he, heq⟩
      · intro q' hq'
        have hne : q' ≠ q := by
          intro e; subst e
          exact hip (g.addref_uniq i p hi' hp q' hq' hpc)
        simp [hne]
      · intro q' _ hlt
        simp only [setPc_qs, setQ_qs]; by_cases hqq : q' = q
        · subst hqq; omega
        · simpa [hqq] using hlt
  · apply g.frame
    · rfl
    · intro k q' hm; exact hm
    · intro q'; simp only [setPc_qs, setQ_qs]; by_cases hqq : q' = q
      · subst hqq; simp
      · simp [hqq]
    · intro q'; simp only [setPc_qs, setQ_qs]; by_cases hqq : q' = q
      · subst hqq; simp
      · simp [hqq]
    · intro q' he; simp only [setPc_qs, setQ_qs] at he; by_cases hqq : q' = q
      · subst hqq; rw [hidle]; simp
      · simpa [hqq] using he
    · exact g.pool_lt
    · exact g.pool_nodup
    · exact g.pool_empty
    · refine held_uniq_of g ?_ ?_
      · rfl
      intro i c' hi hcc
      simp only [setPc_prods] at hcc
      by_cases hip : i = p
      · subst hip; simp [PcC] at hcc
      · simpa [hip] using hcc
    · refine addref_uniq_of g ?_ ?_
      · rfl
      intro i q' hi hq
      simp only [setPc_prods] at hq
      by_cases hip : i = p
      · subst hip; simp at hq
      · simpa [hip] using hq
    · refine main_frame g ?_ ?_ ?_
      · rfl
      · rfl
      intro k
      unfold pending
      simp only [setPc_map, setPc_qs, setPc_chans, setQ_map, setQ_chans]
      cases s.map k with
      | none => rfl
      | some q' =>
        simp only [setQ_qs]
        by_cases hqq : q' = q
        · subst hqq; simp [cur, hidle]
        · simp [hqq]
    · refine acc_frame g ?_ ?_ ?_ ?_
      · rfl
      · exact Nat.le_refl _
      · intro t _; simp only [setPc_prods]; by_cases htp : t = p
        · subst htp; simp
        · simp [htp]
      · intro t _ hE; simp only [setPc_prods]; by_cases htp : t = p
        · subst htp; rw [hpc] at hE; exact absurd hE (by simp [Enqueued])
        · simpa [htp] using hE
    · exact g.acc_nodup

/-- a producer that saw the queue claimed removes it from the table -/
theorem inv_slowDelOk {s : St} (h : Inv s) (p : Nat) (hp : p < s.np) (q : Nat)
    (hpc : (s.prods p).pc = .slowDel q) (hm : s.map (s.prods p).key = some q) :
    Inv (setPc (setMap s (s.prods p).key none) p .create) := by
  have g := h.g
  have hP := h.p p hp
  have hPq := hP.pc_q q (by rw [hpc]; simp [PcQ])
  have hlt := hP.del_claimed q hpc
  have hQ := h.q q hPq.1
  have hcl : Claimed (s.qs q).cpc := hQ.phase.mp hlt
  have hng : ¬ Gone (s.qs q).cpc := fun hg => hQ.gone hg (by rw [hPq.2]; exact hm)
  have hne : (s.qs q).cpc ≠ .exited := by intro e; rw [e] at hng; simp [Gone] at hng
  have hexec : cur (s.qs q) = [] := by
    unfold cur; split
    · rename_i t ht; rw [ht] at hcl; simp [Claimed] at hcl
    · rfl
  have hhold : ∀ q', holders (setPc (setMap s (s.prods p).key none) p .create) q' = holders s q' := by
    intro q'
    have := holders_upd s (setPc (setMap s (s.prods p).key none) p .create) p q' hp rfl
      (by intro i hi; simp [hi])
    simpa [hpc] using this
  refine ⟨?_, ?_, ?_⟩
  · intro q' hq'
    have hq0 : q' < s.nq := hq'
    by_cases hqq : q' = q
    · subst hqq
      constructor
      · exact hQ.ch_lt
      · exact hQ.phase
      · intro h0; have : 0 ≤ (s.qs q').refs := h0; omega
      · intro hg; exact absurd hg hng
      · exact hQ.no_restore
      · exact hQ.ch_pool
      · intro h0; have : 0 ≤ (s.qs q').refs := h0; omega
      · rw [hhold]; exact hQ.claimed_hold
      · exact hQ.claimed_chan
      · exact hQ.mode
    · apply (h.q q' hq0).frame
      · rfl
      · exact Nat.le_refl _
      · simp only [setPc_map, setMap_map]
        by_cases hk : (s.qs q').key = (s.prods p).key
        · simp [hk, hm]; exact fun e => hqq e.symm
        · simp [hk]
      · exact fun _ x => x
      · exact hhold q'
      · intro _; rfl
  · intro i hi
    have hi' : i < s.np := hi
    by_cases hip : i = p
    · subst hip
      constructor
      · intro q' hq'; simp [PcQ] at hq'
      · intro c hc; simp [PcC] at hc
      · intro q' hq'; simp at hq'
      · intro q' r hc; simp at hc
      · intro q' hq'; simp at hq'
    · exact (h.p i hi').frame_same (by simp [hip]) rfl rfl rfl rfl rfl
  · apply g.frame
    · rfl
    · intro k q' hmk
      simp only [setPc_map, setMap_map] at hmk
      by_cases hk : k = (s.prods p).key
      · simp [hk] at hmk
      · simpa [hk] using hmk
    · intro q'; rfl
    · intro q'; rfl
    · intro q' he; exact he
    · exact g.pool_lt
    · exact g.pool_nodup
    · exact g.pool_empty
    · refine held_uniq_of g ?_ ?_
      · rfl
      intro i c' hi hcc
      simp only [setPc_prods] at hcc
      by_cases hip : i = p
      · subst hip; simp [PcC] at hcc
      · simpa [hip] using hcc
    · refine addref_uniq_of g ?_ ?_
      · rfl
      intro i q' hi hq
      simp only [setPc_prods] at hq
      by_cases hip : i = p
      · subst hip; simp at hq
      · simpa [hip] using hq
    · intro k
      show s.done k ++ pending (setPc (setMap s (s.prods p).key none) p .create) k = s.accepted k
      by_cases hk : k = (s.prods p).key
      · have hold := g.main k
        have h1 : pending s k = [] := by
          unfold pending; rw [hk, hm]
          simp [hexec, hQ.claimed_chan hlt hne, (hQ.claimed_hold hlt).2]
        have h2 : pending (setPc (setMap s (s.prods p).key none) p .create) k = [] := by
          unfold pending; simp [hk]
        rw [h2]; rw [h1] at hold; exact hold
      · have : pending (setPc (setMap s (s.prods p).key none) p .create) k = pending s k := by
          refine pending_frame ?_ ?_
          · simp [hk]
          · intro q' _; exact ⟨rfl, rfl⟩
        rw [this]; exact g.main k
    · refine acc_frame g ?_ ?_ ?_ ?_
      · rfl
      · exact Nat.le_refl _
      · intro t _; simp only [setPc_prods]; by_cases htp : t = p
        · subst htp; simp
        · simp [htp]
      · intro t _ hE; simp only [setPc_prods]; by_cases htp : t = p
        · subst htp; rw [hpc] at hE; exact absurd hE (by simp [Enqueued])
        · simpa [htp] using hE
    · exact g.acc_nodup

end DaeVerif.C13.TQ
