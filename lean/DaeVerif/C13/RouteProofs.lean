import DaeVerif.C13.Route
/-! C13 (d) — `handlePkt` keeps a flow on one endpoint whatever the packets' classification -/
namespace DaeVerif.C13.Route
open Keys

/-- endpoint e is the flow's endpoint in state s: live, open, pooled under the flow's symmetric key
or (not forced symmetric) under its source-only key, dialled for this destination; and if it sits
under the source-only key there is no live endpoint under the symmetric key -/
structure Carries (s : St) (p : Pkt) (e : Nat) : Prop where
  pooled : s.pool (s.eps e).key = some e
  alive : (s.eps e).dead = false
  isOpen : (s.eps e).closed = false
  target : (s.eps e).target = p.d.dst
  key : (s.eps e).key = symKey p.d p.scope ∨ ((s.eps e).key = coneKey p.d p.scope ∧ p.force = false)
  single : (s.eps e).key = coneKey p.d p.scope → get s (symKey p.d p.scope) = none

/-- same client source, destination and routing scope; the classification flags are free -/
structure SameFlow (p p' : Pkt) : Prop where
  src : p'.d.src = p.d.src
  dst : p'.d.dst = p.d.dst
  scope : p'.scope = p.scope
  force : p'.force = p.force

theorem get_of_carries {s : St} {p : Pkt} {e : Nat} (h : Carries s p e) : get s (s.eps e).key = some e := by
  unfold get; rw [h.pooled]; simp [h.alive]

theorem symKey_eq {p p' : Pkt} (h : SameFlow p p') : symKey p'.d p'.scope = symKey p.d p.scope := by
  unfold symKey; rw [h.src, h.dst, h.scope]
theorem coneKey_eq {p p' : Pkt} (h : SameFlow p p') : coneKey p'.d p'.scope = coneKey p.d p.scope := by
  unfold coneKey; rw [h.src, h.scope]

theorem sym_ne_cone (d : Decision) (sc : Scope) (hp : d.dst.port ≠ 0) : symKey d sc ≠ coneKey d sc := by
  unfold symKey coneKey
  intro h
  injection h with _ h2 _
  rw [h2] at hp; exact hp rfl

/-- the look-up of a later packet of the flow finds e under e's own key -/
theorem lookup_of_carries {s : St} {p p' : Pkt} {e : Nat} (h : Carries s p e) (hf : SameFlow p p')
    (hal : p'.d.allowsSniffing = true) (hport : p'.d.dst.port ≠ 0) :
    lookup s p' = some ⟨(s.eps e).key, e⟩ := by
  have hk0 : lookupKey p'.scope p'.force p'.d = symKey p.d p.scope := by
    unfold lookupKey; simp [hal]; exact symKey_eq hf
  unfold lookup
  simp only [hk0]
  cases h.key with
  | inl hs =>
    have := get_of_carries h
    rw [hs] at this
    simp [this, hs]
  | inr hc =>
    obtain ⟨hc, hforce⟩ := hc
    have hnone := h.single hc
    have hfp : p'.force = false := by rw [hf.force]; exact hforce
    have hdport : (symKey p.d p.scope).dst.port ≠ 0 := by
      show p.d.dst.port ≠ 0; rw [← hf.dst]; exact hport
    have hget := get_of_carries h
    rw [hc] at hget
    have hne : coneKey p.d p.scope ≠ symKey p.d p.scope := by
      have := sym_ne_cone p.d p.scope (by rw [← hf.dst]; exact hport)
      exact fun e => this e.symm
    simp only [hnone, hfp, Bool.false_eq_true, if_false, hdport, ne_eq, not_false_eq_true, if_true]
    rw [coneKey_eq hf]
    unfold probe
    simp [hne, hget, h.target, hf.dst, hc]

theorem dialKey_cases {p p' : Pkt} (hf : SameFlow p p') :
    dialKey false p'.scope p'.force p'.d = symKey p.d p.scope ∨
    dialKey false p'.scope p'.force p'.d = coneKey p.d p.scope := by
  unfold dialKey
  split
  · left; exact symKey_eq hf
  · right; exact coneKey_eq hf

/-- with e found, the attempt key is e's key: the two overrides keep the flow on e -/
theorem attemptKey_of_carries {s : St} {p p' : Pkt} {e : Nat} (h : Carries s p e) (hf : SameFlow p p')
    (hport : p'.d.dst.port ≠ 0) :
    attemptKey s p' (some ⟨(s.eps e).key, e⟩) (some e) = (s.eps e).key := by
  unfold attemptKey
  have hdst : p.d.dst.port ≠ 0 := by rw [← hf.dst]; exact hport
  have hsymp : (symKey p.d p.scope).dst.port ≠ 0 := hdst
  have hconep : (coneKey p.d p.scope).dst.port = 0 := rfl
  have htar : (s.eps e).target = p'.d.dst := by rw [h.target, hf.dst]
  simp only
  cases dialKey_cases hf with
  | inl hk =>
    rw [hk]
    cases h.key with
    | inl hs =>
      rw [hs]
      rw [if_neg (fun ⟨_, b⟩ => hsymp b), if_neg (fun ⟨a, _⟩ => hsymp a)]
    | inr hc =>
      rw [hc.1]
      rw [if_neg (fun ⟨a, _⟩ => a hconep), if_pos ⟨hconep, hsymp, htar⟩]
  | inr hk =>
    rw [hk]
    cases h.key with
    | inl hs =>
      rw [hs]
      rw [if_pos ⟨hsymp, hconep⟩]
    | inr hc =>
      rw [hc.1]
      rw [if_neg (fun ⟨a, _⟩ => a hconep), if_neg (fun ⟨_, b, _⟩ => b hconep)]

/-- **Main lemma.**  A packet of the flow whose first transport write succeeds is carried by e; the
state does not change (no dial, no table change). -/
theorem handle_of_carries {s : St} {p p' : Pkt} {e : Nat} (h : Carries s p e) (hf : SameFlow p p')
    (hal : p'.d.allowsSniffing = true) (hport : p'.d.dst.port ≠ 0) (ws : List Bool)
    (hw : ws.headD true = true) : handle s p' ws = (s, some e) := by
  unfold handle
  rw [lookup_of_carries h hf hal hport]
  simp only [Option.map]
  show attempts (s.maxRetry + 1 + 1) s p' _ _ 0 ws = _
  unfold attempts
  have hk := attemptKey_of_carries h hf hport
  simp only [hk, Nat.not_lt_zero, if_false, and_self, if_true, hw]
  have : writeOk s e true = true := by unfold writeOk; simp [h.alive, h.isOpen]
  simp [this]

theorem get_none_of_lookup_none {s : St} {p : Pkt} (h : lookup s p = none)
    (hal : p.d.allowsSniffing = true) (hport : p.d.dst.port ≠ 0) :
    get s (symKey p.d p.scope) = none ∧
    (p.force = false → p.d.confirmed = false → get s (coneKey p.d p.scope) = none) := by
  have hk0 : lookupKey p.scope p.force p.d = symKey p.d p.scope := by unfold lookupKey; simp [hal]
  unfold lookup at h
  simp only [hk0] at h
  cases hg : get s (symKey p.d p.scope) with
  | some e => simp [hg] at h
  | none =>
    refine ⟨rfl, ?_⟩
    intro hforce hconf
    simp only [hg, hforce, Bool.false_eq_true, if_false] at h
    have hfb : lookupFallback p.scope false p.d = some (coneKey p.d p.scope) := by
      unfold lookupFallback; simp [hal, hconf]
    cases hc : get s (coneKey p.d p.scope) with
    | none => rfl
    | some c =>
      exfalso
      have hdport : (symKey p.d p.scope).dst.port ≠ 0 := hport
      simp only [hdport, ne_eq, not_false_eq_true, if_true] at h
      cases hpr : probe s p (symKey p.d p.scope) (coneKey p.d p.scope) with
      | some f => simp [hpr] at h
      | none => simp [hpr, hfb, hc] at h

/-- **The first packet of a flow dials exactly one endpoint and makes it the flow's endpoint.** -/
theorem handle_establishes {s : St} {p : Pkt} (hwf : ∀ k c, s.pool k = some c → c < s.neps)
    (h : lookup s p = none)
    (hal : p.d.allowsSniffing = true) (hport : p.d.dst.port ≠ 0) (ws : List Bool)
    (hw : ws.headD true = true) :
    (handle s p ws).2 = some s.neps ∧ (handle s p ws).1.dials = s.dials + 1 ∧
    Carries (handle s p ws).1 p s.neps := by
  obtain ⟨hsym, hcone⟩ := get_none_of_lookup_none h hal hport
  -- the key dialled under, and that nothing live sits under it
  have hk : attemptKey s p none none = dialKey false p.scope p.force p.d := rfl
  have hkcases : (dialKey false p.scope p.force p.d = symKey p.d p.scope) ∨
      (dialKey false p.scope p.force p.d = coneKey p.d p.scope ∧ p.force = false ∧ p.d.confirmed = false) := by
    unfold dialKey
    by_cases hc : (p.force || false || p.d.confirmed) = true
    · left; rw [if_pos hc]
    · right
      have : p.force = false ∧ p.d.confirmed = false := by
        cases hf : p.force <;> cases hcf : p.d.confirmed <;> simp_all
      simp [this.1, this.2]
  have hgetk : get s (dialKey false p.scope p.force p.d) = none := by
    cases hkcases with
    | inl e => rw [e]; exact hsym
    | inr e => rw [e.1]; exact hcone e.2.1 e.2.2
  -- unfold one round of the loop
  have hrun : handle s p ws = ((getOrCreate s (dialKey false p.scope p.force p.d) p.d.dst).1, some s.neps) := by
    unfold handle
    rw [h]
    show attempts (s.maxRetry + 1 + 1) s p none none 0 ws = _
    unfold attempts
    simp only [Nat.not_lt_zero, if_false, hk]
    have hgoc : (getOrCreate s (dialKey false p.scope p.force p.d) p.d.dst).2.1 = s.neps := by
      unfold getOrCreate; rw [hgetk]
      cases hp : s.pool (dialKey false p.scope p.force p.d) <;> rfl
    have hwr : writeOk (getOrCreate s (dialKey false p.scope p.force p.d) p.d.dst).1
        (getOrCreate s (dialKey false p.scope p.force p.d) p.d.dst).2.1 (ws.headD true) = true := by
      rw [hgoc, hw]
      unfold getOrCreate writeOk; rw [hgetk]
      cases hp : s.pool (dialKey false p.scope p.force p.d) <;> simp [setPool, setEp]
    rw [hgoc] at hwr
    simp only [hgoc, hwr, if_true]
  rw [hrun]
  -- the created state, explicitly
  generalize hK : dialKey false p.scope p.force p.d = K at hgetk hkcases
  have hst : ∃ s0 : St, s0.neps = s.neps ∧ s0.dials = s.dials ∧
      (∀ k, k ≠ K → s0.pool k = s.pool k) ∧
      (∀ i, (s0.eps i).dead = (s.eps i).dead) ∧
      (getOrCreate s K p.d.dst).1 =
        setPool (setEp { s0 with neps := s0.neps + 1, dials := s0.dials + 1 } s0.neps ⟨K, false, false, p.d.dst⟩) K (some s0.neps) := by
    unfold getOrCreate; rw [hgetk]
    cases hp : s.pool K with
    | none => exact ⟨s, rfl, rfl, fun _ _ => rfl, fun _ => rfl, rfl⟩
    | some c =>
      refine ⟨setEp (setPool s K none) c { (s.eps c) with closed := true }, rfl, rfl, ?_, ?_, rfl⟩
      · intro k hk; simp [setEp, setPool, hk]
      · intro i; simp only [setEp, setPool]; by_cases hi : i = c
        · subst hi; simp
        · simp [hi]
  obtain ⟨s0, hn, hd, hpool, hdead, hs1⟩ := hst
  rw [hs1]
  refine ⟨rfl, by simp [setPool, setEp, hd], ?_⟩
  have hepsNew : (setPool (setEp { s0 with neps := s0.neps + 1, dials := s0.dials + 1 } s0.neps ⟨K, false, false, p.d.dst⟩) K (some s0.neps)).eps s.neps
      = ⟨K, false, false, p.d.dst⟩ := by simp [setPool, setEp, hn]
  constructor
  · rw [hepsNew]; simp [setPool, hn]
  · rw [hepsNew]
  · rw [hepsNew]
  · rw [hepsNew]
  · rw [hepsNew]
    cases hkcases with
    | inl e => left; exact e
    | inr e => right; exact ⟨e.1, e.2.1⟩
  · rw [hepsNew]
    intro hKc
    -- K is the source-only key; the symmetric key is a different table slot whose state did not change
    have hKc' : K = coneKey p.d p.scope := hKc
    have hne : symKey p.d p.scope ≠ K := by
      rw [hKc']; exact sym_ne_cone p.d p.scope hport
    unfold get at hsym ⊢
    simp only [setPool, setEp, hne, if_false]
    rw [hpool _ hne]
    cases hp : s.pool (symKey p.d p.scope) with
    | none => rfl
    | some c =>
      simp only [hp] at hsym
      have hcd : (s.eps c).dead = true := by
        cases hd' : (s.eps c).dead with
        | true => rfl
        | false => simp [hd'] at hsym
      have hcn : c ≠ s0.neps := by
        have := hwf _ c hp; omega
      simp [hcn, hdead c, hcd]


/-! ### the scripted-dial version is the same function when no dial fails and no marker exists -/

theorem markerOf_nil {s : St} (h : s.markers = []) (k : EKey) : markerOf s k = none := by
  unfold markerOf; rw [h]; rfl

theorem getOrCreate_markers (s : St) (k : EKey) (t : AP) : (getOrCreate s k t).1.markers = s.markers := by
  unfold getOrCreate
  cases get s k with
  | some e => rfl
  | none => cases hp : s.pool k <;> rfl

theorem getOrCreateD_ok {s : St} (h : s.markers = []) (k : EKey) (t : AP) :
    getOrCreateD s k t true = ((getOrCreate s k t).1, some ((getOrCreate s k t).2.1, (getOrCreate s k t).2.2)) := by
  unfold getOrCreateD
  cases hg : get s k with
  | some e => simp [getOrCreate, hg]
  | none => simp [markerOf_nil h]

theorem retire_markers (s : St) (e : Nat) : (retire s e).markers = s.markers := by
  unfold retire; simp only []; split <;> rfl

theorem afterFailedWrite_markers (s : St) (k : EKey) (u : Nat) : (afterFailedWrite s k u).markers = s.markers := by
  unfold afterFailedWrite remove
  simp only []
  split <;> split <;> simp [setEp, setPool, retire_markers] <;> (try split) <;> simp [retire_markers]

theorem attemptsD_eq_attempts : ∀ (fuel : Nat) (s : St) (p : Pkt) (found : Option Found) (ue : Option Nat)
    (retry : Nat) (ws : List Bool), s.markers = [] →
    attemptsD fuel s p found ue retry ws [] = attempts fuel s p found ue retry ws := by
  intro fuel
  induction fuel with
  | zero => intros; rfl
  | succ n ih =>
    intro s p found ue retry ws hm
    unfold attemptsD attempts
    by_cases hr : retry > s.maxRetry
    · simp [hr]
    · simp only [hr, if_false, List.headD_nil, List.tail_nil, ite_self]
      cases found with
      | none =>
        simp only [getOrCreateD_ok hm]
        split
        · rfl
        · exact ih _ _ _ _ _ _ (by rw [afterFailedWrite_markers, getOrCreate_markers]; exact hm)
      | some f =>
        cases ue with
        | none =>
          simp only [getOrCreateD_ok hm]
          split
          · rfl
          · exact ih _ _ _ _ _ _ (by rw [afterFailedWrite_markers, getOrCreate_markers]; exact hm)
        | some u =>
          by_cases hk : retry = 0 ∧ attemptKey s p (some f) (some u) = f.key
          · simp only [hk, and_self, if_true]
            split
            · rfl
            · exact ih _ _ _ _ _ _ (by rw [afterFailedWrite_markers]; exact hm)
          · simp only [hk, if_false, getOrCreateD_ok hm]
            split
            · rfl
            · exact ih _ _ _ _ _ _ (by rw [afterFailedWrite_markers, getOrCreate_markers]; exact hm)

/-- a first packet whose dial key carries an unexpired failure marker is dropped: no dial, no change -/
theorem handleD_blocked {s : St} {p : Pkt} (ws ds : List Bool) (t : Nat) (h : lookup s p = none)
    (hg : get s (dialKey false p.scope p.force p.d) = none)
    (hm : markerOf s (dialKey false p.scope p.force p.d) = some t) (hlt : s.now < t) :
    handleD s p ws ds = (s, none) := by
  unfold handleD
  rw [h]
  show attemptsD (s.maxRetry + 1 + 1) s p none none 0 ws ds = _
  unfold attemptsD
  have hk : attemptKey s p none none = dialKey false p.scope p.force p.d := rfl
  simp only [Nat.not_lt_zero, if_false, hk]
  unfold getOrCreateD
  simp [hg, hm, hlt]

/-- the function the `c13_hp` stream is compared with (`handleD`) is `handle` — the function the two
theorems are about — whenever no dial is scripted to fail and the negative cache is empty -/
theorem handleD_eq_handle (s : St) (p : Pkt) (ws : List Bool) (hm : s.markers = []) :
    handleD s p ws [] = handle s p ws := by
  unfold handleD handle
  exact attemptsD_eq_attempts _ s p _ _ 0 ws hm

end DaeVerif.C13.Route
